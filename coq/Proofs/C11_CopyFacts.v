(* C11 - facts about Window._copy_body (Model/C11_CopyBody.v) for width-1
   characters: every (row, col) registered in rowcol_to_yx lies inside the
   window on the cell that shows that character, whatever the scroll state. *)
From Coq Require Import ZArith List Bool Lia.
From PTK Require Import Lib.Sx Lib.Py Model.C11_Scroll Model.C11_CopyBody.
Import ListNotations.
Open Scope Z_scope.

Definition lexlt (a b : Z * Z) : Prop := fst a < fst b \/ (fst a = fst b /\ snd a < snd b).
Definition lexle (a b : Z * Z) : Prop := lexlt a b \/ a = b.

Lemma lexlt_trans : forall a b c, lexlt a b -> lexlt b c -> lexlt a c.
Proof. unfold lexlt; intros; lia. Qed.
Lemma lexlt_le_trans : forall a b c, lexlt a b -> lexle b c -> lexlt a c.
Proof. intros a b c H [H2 | <-]; [eapply lexlt_trans; eauto | exact H]. Qed.
Lemma lexle_trans : forall a b c, lexle a b -> lexle b c -> lexle a c.
Proof.
  intros a b c [H | ->] H2; [|exact H2]. left. eapply lexlt_le_trans; eauto.
Qed.
Lemma lexle_refl : forall a, lexle a a.
Proof. now right. Qed.

Lemma pos_eqb_eq : forall a b, pos_eqb a b = true <-> a = b.
Proof.
  intros [a1 a2] [b1 b2]. unfold pos_eqb. cbn [fst snd].
  rewrite andb_true_iff, !Z.eqb_eq. split; [intros [-> ->]; reflexivity | intros E; inversion E; auto].
Qed.
Lemma pos_eqb_lexlt : forall a b, lexlt a b -> pos_eqb b a = false.
Proof.
  intros a b H. destruct (pos_eqb b a) eqn:E; [|reflexivity].
  apply pos_eqb_eq in E. subst. unfold lexlt in H. lia.
Qed.
Lemma pos_eqb_refl : forall a, pos_eqb a a = true.
Proof. intros. now apply pos_eqb_eq. Qed.

Lemma nth_error_skipn {T} : forall n (l : list T) i,
  nth_error (skipn n l) i = nth_error l (n + i).
Proof.
  induction n as [|n IH]; intros l i; [reflexivity|].
  destruct l as [|x r]; cbn [skipn Nat.add nth_error]; [now destruct i | apply IH].
Qed.

Section Narrow.
  Variables (sw dw : Z -> Z) (disp : Z -> str).
  Variables (wrap haspfx : bool) (pfx : Z -> Z -> str).
  Variables (width height xpos ypos : Z).
  (* what character a (row, col) key denotes *)
  Variable K : Z * Z -> Z -> Prop.

  Hypothesis Hdw : forall c, dw c = 1.

  Local Notation put' := (put sw dw disp width xpos ypos).
  Local Notation copy_plain' := (copy_plain sw dw disp wrap width height xpos ypos).
  Local Notation copy_input' := (copy_input sw dw disp wrap haspfx pfx width height xpos ypos).
  Local Notation copy_line' := (copy_line sw dw disp wrap haspfx pfx width height xpos ypos).
  Local Notation copy_lines' := (copy_lines sw dw disp wrap haspfx pfx width height xpos ypos).

  Definition head (s : cst) : Z * Z := (cy s + ypos, cx s + xpos).
  Definition frame (s s' : cst) : Prop :=
    forall pos, lexlt pos (head s) -> alist_get (cscr s') pos = alist_get (cscr s) pos.
  (* the write head only moves forward, nothing before it is touched, no key is registered *)
  Definition adv (s s' : cst) : Prop :=
    lexle (head s) (head s') /\ frame s s' /\ cr2 s' = cr2 s.

  Lemma adv_refl : forall s, adv s s.
  Proof. intros s. repeat split. apply lexle_refl. Qed.

  Lemma adv_trans : forall a b c, adv a b -> adv b c -> adv a c.
  Proof.
    intros a b c (L1 & F1 & R1) (L2 & F2 & R2). split; [eapply lexle_trans; eauto|]. split.
    - intros pos Hp. rewrite F2; [apply F1; exact Hp|]. eapply lexlt_le_trans; eauto.
    - congruence.
  Qed.

  Lemma put_narrow : forall isin l kc c s,
    put' isin l kc c s =
    if (0 <=? cx s) && (0 <=? cy s) && (cx s <? width) then
      mkcst (cx s + 1) (cy s)
            (((cy s + ypos, cx s + xpos), mkcell (disp c) 1) :: cscr s)
            (if isin then ((l, kc), (cy s + ypos, cx s + xpos)) :: cr2 s else cr2 s) (cvl s)
    else mkcst (cx s + 1) (cy s) (cscr s) (cr2 s) (cvl s).
  Proof. intros. unfold put. rewrite Hdw. reflexivity. Qed.

  Lemma put_cx : forall isin l kc c s, cx (put' isin l kc c s) = cx s + 1.
  Proof. intros. rewrite put_narrow. destruct (_ && _); reflexivity. Qed.
  Lemma put_cy : forall isin l kc c s, cy (put' isin l kc c s) = cy s.
  Proof. intros. rewrite put_narrow. destruct (_ && _); reflexivity. Qed.
  Lemma put_cvl : forall isin l kc c s, cvl (put' isin l kc c s) = cvl s.
  Proof. intros. rewrite put_narrow. destruct (_ && _); reflexivity. Qed.

  Lemma put_false_adv : forall l kc c s, adv s (put' false l kc c s).
  Proof.
    intros. rewrite put_narrow. destruct (_ && _) eqn:E; unfold adv, head, frame; cbn [cx cy cscr cr2].
    - split; [left; unfold lexlt; cbn [fst snd]; lia|]. split; [|reflexivity].
      intros pos Hp. cbn [alist_get]. rewrite pos_eqb_lexlt by exact Hp. reflexivity.
    - split; [left; unfold lexlt; cbn [fst snd]; lia|]. split; [|reflexivity]. intros; reflexivity.
  Qed.

  Lemma wrap_row_adv : forall l s, adv s (wrap_row l s).
  Proof.
    intros. unfold adv, head, frame, wrap_row; cbn [cx cy cscr cr2].
    split; [left; unfold lexlt; cbn [fst snd]; lia|]. split; [|reflexivity]. intros; reflexivity.
  Qed.

  Lemma copy_plain_adv : forall cs l s, adv s (copy_plain' cs l s).
  Proof.
    induction cs as [|c r IH]; intros l s; cbn [copy_plain]; [apply adv_refl|].
    destruct (wrap && _).
    - destruct (height <=? _).
      + apply wrap_row_adv.
      + eapply adv_trans; [apply wrap_row_adv|]. eapply adv_trans; [apply put_false_adv|]. apply IH.
    - eapply adv_trans; [apply put_false_adv|]. apply IH.
  Qed.

  (* ------------------------------------------------------------------ *)
  Definition inwin (pos : Z * Z) : Prop :=
    ypos <= fst pos < ypos + height /\ xpos <= snd pos < xpos + width.

  Definition Inv (s : cst) : Prop :=
    forall key pos, alist_get (cr2 s) key = Some pos ->
      inwin pos /\ lexlt pos (head s) /\
      exists c, K key c /\ cstr (scr_get (cscr s) (fst pos) (snd pos)) = disp c.

  Lemma Inv_adv : forall s s', Inv s -> adv s s' -> Inv s'.
  Proof.
    intros s s' HI (L & F & R) key pos Hget. rewrite R in Hget.
    destruct (HI key pos Hget) as (Hw & Hlt & c & Hk & Hc).
    split; [exact Hw|]. split; [eapply lexlt_le_trans; eauto|].
    exists c. split; [exact Hk|]. unfold scr_get in *.
    destruct pos as [py px]. cbn [fst snd] in *. rewrite F by exact Hlt. exact Hc.
  Qed.

  Lemma Inv_put : forall l kc c s,
    Inv s -> cy s < height -> K (l, kc) c -> Inv (put' true l kc c s).
  Proof.
    intros l kc c s HI Hy Hk. rewrite put_narrow. destruct (_ && _) eqn:E.
    - apply andb_true_iff in E. destruct E as [E E3]. apply andb_true_iff in E. destruct E as [E1 E2].
      intros key pos Hget. cbn [cr2 alist_get] in Hget.
      unfold head; cbn [cx cy cscr].
      destruct (pos_eqb (l, kc) key) eqn:Ek.
      + apply pos_eqb_eq in Ek. subst key. inversion Hget; subst pos; clear Hget.
        split; [unfold inwin; cbn [fst snd]; lia|].
        split; [right; cbn [fst snd]; lia|].
        exists c. split; [exact Hk|]. unfold scr_get. cbn [fst snd alist_get].
        rewrite pos_eqb_refl. reflexivity.
      + destruct (HI key pos Hget) as (Hw & Hlt & c' & Hk' & Hc').
        split; [exact Hw|]. unfold head in Hlt.
        split; [unfold lexlt in *; cbn [fst snd] in *; lia|].
        exists c'. split; [exact Hk'|]. unfold scr_get in *. destruct pos as [py px].
        cbn [fst snd alist_get] in *. rewrite pos_eqb_lexlt by exact Hlt. exact Hc'.
    - eapply Inv_adv; [exact HI|]. unfold adv, head, frame; cbn [cx cy cscr cr2].
      split; [left; unfold lexlt; cbn [fst snd]; lia|]. split; [|reflexivity]. intros; reflexivity.
  Qed.

  Lemma copy_input_Inv : forall cs l col skipped wc s,
    Inv s -> cy s < height ->
    (forall i c, nth_error cs i = Some c -> K (l, col + skipped + Z.of_nat i) c) ->
    Inv (copy_input' cs l col skipped wc s).
  Proof.
    induction cs as [|c r IH]; intros l col skipped wc s HI Hy HK; cbn [copy_input]; [exact HI|].
    assert (Hk0 : K (l, col + skipped) c).
    { specialize (HK O c eq_refl). cbn [Z.of_nat] in HK. now rewrite Z.add_0_r in HK. }
    assert (HKr : forall i c0, nth_error r i = Some c0 -> K (l, col + 1 + skipped + Z.of_nat i) c0).
    { intros i c0 Hn. specialize (HK (S i) c0 Hn). rewrite Nat2Z.inj_succ in HK.
      replace (col + 1 + skipped + Z.of_nat i) with (col + skipped + Z.succ (Z.of_nat i)) by lia. exact HK. }
    destruct (wrap && _).
    - set (s2 := if haspfx then copy_plain' (pfx l (wc + 1)) l (wrap_row l s) else wrap_row l s).
      assert (A2 : adv s s2).
      { unfold s2. destruct haspfx; [eapply adv_trans; [apply wrap_row_adv | apply copy_plain_adv] | apply wrap_row_adv]. }
      destruct (height <=? cy s2) eqn:Eh.
      + eapply Inv_adv; eauto.
      + apply IH; [|rewrite put_cy; lia|exact HKr].
        apply Inv_put; [eapply Inv_adv; eauto|lia|exact Hk0].
    - apply IH; [|rewrite put_cy; lia|exact HKr]. apply Inv_put; auto.
  Qed.

  (* ------------------------------------------------------------------ *)
  (* a prefix that fits (or no wrapping at all) does not leave its row *)
  Lemma copy_plain_cy : forall cs l s,
    wrap = false \/ cx s + len cs <= width ->
    cy (copy_plain' cs l s) = cy s /\ cx (copy_plain' cs l s) = cx s + len cs /\
    cvl (copy_plain' cs l s) = cvl s.
  Proof.
    induction cs as [|c r IH]; intros l s Hf; cbn [copy_plain].
    - rewrite len_nil. repeat split; lia.
    - rewrite len_cons in *. pose proof (len_nonneg r) as Hr.
      assert (E : wrap && (width <? cx s + dw c) = false).
      { destruct Hf as [-> | Hf]; [reflexivity|]. rewrite Hdw.
        destruct (width <? cx s + 1) eqn:E; [lia|]. apply andb_false_r. }
      rewrite E.
      destruct (IH l (put' false l 0 c s)) as (A & B & C).
      { destruct Hf as [-> | Hf]; [now left|right]. rewrite put_cx. lia. }
      rewrite A, B, C, put_cy, put_cx, put_cvl. repeat split; lia.
  Qed.

  Lemma skip_loop_spec : forall line h sk,
    exists n, snd (skip_loop sw line h sk) = sk + Z.of_nat n /\
              fst (fst (skip_loop sw line h sk)) = skipn n line /\
              (skipn n line = [] \/ snd (fst (skip_loop sw line h sk)) <= 0).
  Proof.
    induction line as [|c r IH]; intros h sk; cbn [skip_loop].
    - exists O. cbn [fst snd skipn]. repeat split; [lia | now left].
    - destruct (0 <? h) eqn:E.
      + destruct (IH (h - sw c) (sk + 1)) as (n & A & B & C).
        exists (S n). rewrite A, B. cbn [skipn]. repeat split; [lia | exact C].
      + exists O. cbn [fst snd skipn]. repeat split; [lia | right; lia].
  Qed.

  (* Inv once the write head is put at the start of row [cy s] *)
  Definition Inv0 (s : cst) : Prop := Inv (mkcst 0 (cy s) (cscr s) (cr2 s) (cvl s)).

  Lemma Inv_rowstart : forall X Y scr r2 vl vl',
    Inv (mkcst 0 Y scr r2 vl) -> Inv (mkcst X Y scr r2 vl').
  Proof.
    intros X Y scr r2 vl vl' HI key pos Hget. cbn [cr2] in Hget.
    destruct (HI key pos Hget) as (Hw & Hlt & Hc). split; [exact Hw|]. split; [|exact Hc].
    unfold head, lexlt, inwin in *. cbn [cx cy fst snd] in *. left. lia.
  Qed.

  Lemma Inv_nextrow : forall s vl, Inv s -> Inv (mkcst 0 (cy s + 1) (cscr s) (cr2 s) vl).
  Proof.
    intros s vl HI. eapply Inv_adv; [exact HI|]. unfold adv, head, frame; cbn [cx cy cscr cr2].
    split; [left; unfold lexlt; cbn [fst snd]; lia|]. split; [|reflexivity]. intros; reflexivity.
  Qed.

  Lemma copy_line_InvN : forall hscroll line l s,
    Inv s -> cx s = 0 -> cy s < height ->
    (wrap = false \/ haspfx = false \/ len (pfx l 0) <= width) ->
    (forall i c, nth_error line i = Some c -> K (l, Z.of_nat i) c) ->
    let s' := copy_line' hscroll line l s in
    Inv (mkcst 0 (cy s' + 1) (cscr s') (cr2 s') (cvl s')).
  Proof.
    intros hscroll line l s HI Hx Hy Hfit HK. unfold copy_line.
    set (s1 := if haspfx then copy_plain' (pfx l 0) l s else s).
    assert (H1 : Inv s1 /\ cy s1 = cy s).
    { unfold s1. destruct haspfx; [|now split]. split.
      - eapply Inv_adv; [exact HI | apply copy_plain_adv].
      - apply copy_plain_cy. destruct Hfit as [-> | [Hc | Hf]]; [now left | discriminate | right; lia]. }
    destruct H1 as [HI1 Hy1].
    destruct (hscroll =? 0).
    - apply Inv_nextrow. apply copy_input_Inv; [exact HI1 | lia|].
      intros i c Hn. replace (0 + 0 + Z.of_nat i) with (Z.of_nat i) by lia. now apply HK.
    - destruct (skip_loop_spec line hscroll 0) as (n & A & B & C).
      destruct (skip_loop sw line hscroll 0) as [[line' h] skipped]. cbn [fst snd] in A, B, C.
      subst line' skipped.
      destruct C as [C | C].
      + rewrite C. cbn [copy_input cx cy cscr cr2 cvl].
        apply Inv_nextrow with (s := s1). exact HI1.
      + apply Inv_nextrow. apply copy_input_Inv; [|cbn [cy]; lia|].
        * eapply Inv_adv; [exact HI1|]. unfold adv, head, frame; cbn [cx cy cscr cr2].
          split; [|split; [intros; reflexivity | reflexivity]].
          destruct (Z.eq_dec h 0) as [-> | Hne]; [right; f_equal; lia | left; unfold lexlt; cbn [fst snd]; lia].
        * intros i c Hn. rewrite nth_error_skipn in Hn.
          replace (0 + (0 + Z.of_nat n) + Z.of_nat i) with (Z.of_nat (n + i)) by lia. now apply HK.
  Qed.

  Lemma copy_lines_Inv0 : forall hscroll rest lineno s,
    Inv0 s ->
    (forall l, wrap = false \/ haspfx = false \/ len (pfx l 0) <= width) ->
    (forall j line, nth_error rest j = Some line ->
       forall i c, nth_error line i = Some c -> K (lineno + Z.of_nat j, Z.of_nat i) c) ->
    Inv0 (copy_lines' hscroll rest lineno s).
  Proof.
    induction rest as [|line r IH]; intros lineno s HI Hfit HK; cbn [copy_lines]; [exact HI|].
    destruct (cy s <? height) eqn:Ey; [|exact HI].
    apply IH.
    - unfold Inv0. cbn [cx cy cscr cr2 cvl].
      apply (copy_line_InvN hscroll line lineno
               (mkcst 0 (cy s) (cscr s) (cr2 s) ((cy s, (lineno, hscroll)) :: cvl s))).
      + eapply Inv_rowstart. exact HI.
      + reflexivity.
      + cbn [cy]. lia.
      + apply Hfit.
      + intros i c Hn. specialize (HK O line eq_refl i c Hn). cbn [Z.of_nat] in HK.
        now rewrite Z.add_0_r in HK.
    - exact Hfit.
    - intros j line' Hn i c Hc. specialize (HK (S j) line' Hn i c Hc).
      rewrite Nat2Z.inj_succ in HK. replace (lineno + 1 + Z.of_nat j) with (lineno + Z.succ (Z.of_nat j)) by lia.
      exact HK.
  Qed.
End Narrow.

(* ---------------------------------------------------------------------- *)
(* SAFETY *)
(* The safety half of C11 for width-1 characters, for EVERY scroll state:
   whatever (row, col) has an entry in rowcol_to_yx after _copy_body - in
   particular the cursor - lies inside the window body, and the screen cell
   there shows exactly that character of the content. *)
Definition char_at (lines : list str) (key : Z * Z) (c : Z) : Prop :=
  0 <= fst key /\ 0 <= snd key /\
  exists line, nth_error lines (Z.to_nat (fst key)) = Some line /\
               nth_error line (Z.to_nat (snd key)) = Some c.

Lemma registered_is_right : forall sw dw disp wrap haspfx pfx width height xpos ypos lines st,
  (forall c, dw c = 1) ->
  (forall l, wrap = false \/ haspfx = false \/ len (pfx l 0) <= width) ->
  0 <= vs st ->
  let out := copy_body sw dw disp wrap haspfx pfx width height xpos ypos lines st in
  forall key pos, alist_get (cr2 out) key = Some pos ->
    (ypos <= fst pos < ypos + height /\ xpos <= snd pos < xpos + width) /\
    exists c, char_at lines key c /\
              cstr (scr_get (cscr out) (fst pos) (snd pos)) = disp c.
Proof.
  intros sw dw disp wrap haspfx pfx width height xpos ypos lines st Hdw Hfit Hvs out key pos Hget.
  assert (HI : Inv0 disp width height xpos ypos (char_at lines) out).
  { unfold out, copy_body. apply copy_lines_Inv0; try assumption.
    - intros k p Hk. discriminate Hk.
    - intros j line Hn i c Hc. unfold char_at. cbn [fst snd].
      rewrite nth_error_skipn in Hn.
      split; [lia|]. split; [lia|]. exists line.
      replace (Z.to_nat (vs st + Z.of_nat j)) with (Z.to_nat (vs st) + j)%nat by lia.
      rewrite Nat2Z.id. auto. }
  destruct (HI key pos Hget) as (Hw & _ & Hc). split; [exact Hw | exact Hc].
Qed.
