(* C09 round 6 - pasting BLOCK data never trips the Document constructor: the new
   cursor (old cursor, +1 for p / emacs) lies inside the new text, because the
   cursor row is padded to the start column before the block line goes in.  So the
   BLOCK paste theorem and the yank-pop cycle need no acceptance hypothesis. *)
From Coq Require Import ZArith List Bool Lia PeanoNat.
From PTK Require Import Lib.Sx Lib.Py Model.Document Model.BufferEdit Proofs.BufferEditFacts
  Proofs.C02_Base Proofs.C02_Coords
  Model.C09_Kill Proofs.C09_KillFacts Proofs.C09_YankFacts Proofs.C09_LinesFacts Proofs.C09_BlockFacts
  Proofs.C09_PopFacts.
Import ListNotations.
Open Scope Z_scope.

(* offset of row n in join [NL] ls *)
Fixpoint offs (ls : list str) (n : nat) : Z :=
  match n, ls with
  | S k, l :: r => len l + 1 + offs r k
  | _, _ => 0
  end.

Lemma starts_nth ls : forall pos n, (n < length ls)%nat -> nth n (starts ls pos) 0 = pos + offs ls n.
Proof.
  induction ls as [|l r IH]; intros pos [|n] H; cbn [length] in H; try lia; cbn [starts nth offs]; [lia|].
  rewrite IH by lia. lia.
Qed.

Lemma offs_ext a : forall b n,
  (n <= length a)%nat -> (n <= length b)%nat ->
  (forall j, (j < n)%nat -> nth j a [] = nth j b []) -> offs a n = offs b n.
Proof.
  induction a as [|x a IH]; intros [|y b] [|n] Ha Hb H; cbn [length] in *; try lia; try reflexivity.
  cbn [offs]. pose proof (H O ltac:(lia)) as H0. cbn [nth] in H0. subst y.
  rewrite (IH b n) by (try lia; intros j Hj; apply (H (S j)); lia). reflexivity.
Qed.

Lemma join_len_ge ls : forall n,
  (n < length ls)%nat -> offs ls n + len (nth n ls []) <= len (join [NL] ls).
Proof.
  induction ls as [|l r IH]; intros [|n] H; cbn [length] in H; try lia.
  - cbn [offs nth]. destruct r as [|b r]; [cbn [join]; lia|].
    rewrite len_join_cons_ne by discriminate. pose proof (len_nonneg (join [NL] (b :: r))). lia.
  - assert (Hr : r <> []) by (destruct r; [cbn [length] in H; lia|discriminate]).
    rewrite len_join_cons_ne by exact Hr. cbn [offs nth]. specialize (IH n ltac:(lia)). lia.
Qed.

(* the cursor is at offset(row) + col *)
Lemma cursor_offs d :
  valid d -> dcur d = offs (lines d) (Z.to_nat (cursor_position_row d)) + cursor_position_col d.
Proof.
  intros Hv. pose proof (row_bounds d Hv) as Hr.
  unfold cursor_position_col. unfold cursor_position_row in *.
  unfold find_line_start_index in *. cbn [fst snd] in *.
  set (row := bisect_right (line_start_indexes d) (dcur d) - 1) in *.
  rewrite C02c_line_start_indexes.
  rewrite (c02_index_nth _ _ 0) by (rewrite len_starts; exact Hr).
  rewrite starts_nth by (unfold len in Hr; lia). lia.
Qed.

Lemma len_block_ins sc n l part : 0 <= sc -> sc <= len (block_ins sc n l part).
Proof.
  intros H0. unfold block_ins, ljust. cbv zeta.
  set (l' := l ++ repeat_str [SP] (Z.to_nat (sc - len l))).
  assert (Hl : sc <= len l').
  { unfold l'. rewrite len_app, len_repeat_str. change (len [SP]) with 1. pose proof (len_nonneg l). lia. }
  rewrite slice_to_in_range by lia. rewrite !len_app, len_firstn.
  pose proof (len_nonneg (str_mul part n)). pose proof (len_nonneg (slice_from l' sc)). lia.
Qed.

Lemma doc_paste_block_accepts d data mode n :
  valid d -> ctype data = BLOCK -> 1 <= n ->
  mode = EMACS \/ mode = VI_BEFORE \/ mode = VI_AFTER ->
  doc_paste d data mode n <> None.
Proof.
  intros Hv Hty Hn Hmode.
  pose proof (row_bounds d Hv) as Hr.
  destruct (C02c_col_le_cursor d Hv) as [Hc0 _].
  unfold doc_paste. replace (n <? 1) with false by lia. rewrite Hty.
  change (BLOCK =? CHARACTERS) with false. change (BLOCK =? LINES) with false. cbv iota zeta.
  set (row := cursor_position_row d) in *.
  set (delta := if mode =? VI_BEFORE then 0 else 1).
  set (sc := cursor_position_col d + delta).
  set (parts := split_on NL (ctext data)).
  set (res := paste_block (lines d) parts row sc n).
  assert (Hd : 0 <= delta <= 1) by (unfold delta; destruct (mode =? VI_BEFORE); lia).
  destruct (paste_block_spec parts (lines d) row sc n ltac:(unfold str in *; lia)) as (L & F & T).
  fold res in L, F, T.
  assert (Hp : 1 <= len parts).
  { pose proof (split_on_nonempty NL (ctext data)) as Hne. fold parts in Hne.
    destruct parts; [congruence|]. rewrite len_cons. pose proof (len_nonneg parts). lia. }
  pose proof (T 0 ltac:(lia)) as T0. rewrite Z.add_0_r in T0.
  assert (Hrow : (Z.to_nat row < length res)%nat) by (unfold len in L, Hr; unfold str in *; lia).
  pose proof (join_len_ge res (Z.to_nat row) Hrow) as Hge.
  unfold nthZ in T0. rewrite T0 in Hge.
  pose proof (len_block_ins sc n (nth (Z.to_nat row) (lines d) []) (nth (Z.to_nat 0) parts []) ltac:(lia)) as Hb.
  assert (Ho : offs res (Z.to_nat row) = offs (lines d) (Z.to_nat row)).
  { apply offs_ext; [unfold str in *; lia|unfold len in Hr; unfold str in *; lia|].
    intros j Hj. specialize (F (Z.of_nat j) ltac:(lia) ltac:(left; lia)).
    unfold nthZ in F. now rewrite Nat2Z.id in F. }
  pose proof (cursor_offs d Hv) as Hcur. fold row in Hcur.
  unfold mk_document.
  destruct (len (join [NL] res) <? dcur d + delta) eqn:E; [|discriminate].
  unfold sc in *. unfold str in *. lia.
Qed.

(* hence every entry type can be pasted into a consistent document *)
Lemma pastes_ok_all d r :
  valid d -> Forall (fun e => ctype e = CHARACTERS \/ ctype e = LINES \/ ctype e = BLOCK) r -> pastes_ok d r.
Proof.
  intros Hv Hall e He. rewrite Forall_forall in Hall. destruct (Hall e He) as [Hc|[Hl|Hb]].
  - destruct d as [t c].
    destruct (doc_paste_chars_n t c e EMACS 1 Hv Hc (or_introl eq_refl)) as [c' ->]. discriminate.
  - destruct (doc_paste_lines d e EMACS 1 Hv Hl (Z.le_refl 1) (or_introl eq_refl)) as [c' E].
    cbv zeta in E. rewrite E. discriminate.
  - apply doc_paste_block_accepts; [exact Hv|exact Hb|lia|now left].
Qed.
