(* C19 - facts about the real float kernels (Model/C19_Float.v).
   get_opposite_color's RGB branch, evaluated on the kernel's binary64
   primitives for all 2^24 colours (Proofs/C19_FloatSweep0-3.v), always returns
   six hexadecimal digits: the kernel hypotheses of the transformation theorems
   are discharged for the real SwapLightAndDark arithmetic. *)
From Coq Require Import ZArith List Bool Lia PrimFloat.
From PTK Require Import Lib.Py Lib.C19_Str Gen.Whitespace Gen.C19_Palette
     Model.C19_Palette Model.C19_Style Model.C19_Sgr Model.C19_Transform Model.C19_Float
     Proofs.C19_StrFacts Proofs.C19_StyleFacts Proofs.C19_SgrFacts Proofs.C19_StyleStringFacts
     Proofs.C19_ResolvedFacts Proofs.C19_TransformFacts Proofs.C19_FloatChk
     Proofs.C19_FloatSweep0 Proofs.C19_FloatSweep1 Proofs.C19_FloatSweep2 Proofs.C19_FloatSweep3.
Import ListNotations.
Open Scope Z_scope.

Lemma opp_chk_all : forall r g b, is_byte r -> is_byte g -> is_byte b -> opp_chk r g b = true.
Proof.
  intros r g b Hr Hg Hb. unfold is_byte in *.
  destruct (Z_lt_ge_dec r 64); [apply (opp_planes_sound 0 64 opp_planes_ok_0); cbn; lia|].
  destruct (Z_lt_ge_dec r 128); [apply (opp_planes_sound 64 64 opp_planes_ok_1); cbn; lia|].
  destruct (Z_lt_ge_dec r 192); [apply (opp_planes_sound 128 64 opp_planes_ok_2); cbn; lia|].
  apply (opp_planes_sound 192 64 opp_planes_ok_3); cbn; lia.
Qed.

(* format(n, "02x") of a byte: two hexadecimal digits *)
Definition hex02_hex_b (n : Z) : bool :=
  match hex02 n with [c1; c2] => is_hex_b c1 && is_hex_b c2 | _ => false end.
Lemma hex02_hex_table : forallb hex02_hex_b (zrange 256) = true.
Proof. vm_compute. reflexivity. Qed.

Lemma fmt3_hex6 : forall x y z, is_byte x -> is_byte y -> is_byte z -> hex6_b (fmt3 (x, y, z)) = true.
Proof.
  intros x y z Hx Hy Hz. unfold is_byte in *.
  assert (G : forall n, 0 <= n <= 255 -> exists c1 c2, hex02 n = [c1; c2] /\ is_hex_b c1 = true /\ is_hex_b c2 = true).
  { intros n Hn. pose proof (proj1 (forallb_forall _ _) hex02_hex_table n (In_zrange 256 n ltac:(lia))) as H.
    unfold hex02_hex_b in H. destruct (hex02 n) as [|c1 [|c2 [|c3 r]]]; try discriminate.
    apply andb_prop in H. destruct H. eauto. }
  destruct (G x Hx) as (a1 & a2 & E1 & A1 & A2).
  destruct (G y Hy) as (b1 & b2 & E2 & B1 & B2).
  destruct (G z Hz) as (c1 & c2 & E3 & C1 & C2).
  unfold fmt3. rewrite E1, E2, E3. cbn [app]. unfold hex6_b. cbn [forallb].
  rewrite A1, A2, B1, B2, C1, C2. reflexivity.
Qed.

(* ALL 2^24 colours: the opposite colour exists and is six hexadecimal digits *)
Theorem opp_bytes_ok : forall r g b, is_byte r -> is_byte g -> is_byte b ->
  exists v, opp_bytes r g b = Some v /\ hex6_b v = true.
Proof.
  intros r g b Hr Hg Hb.
  destruct (opp_chk_sound r g b (opp_chk_all r g b Hr Hg Hb)) as (x & y & z & E & Bx & By & Bz).
  exists (fmt3 (x, y, z)). unfold opp_bytes. rewrite E. split; [reflexivity|]. apply fmt3_hex6; assumption.
Qed.

Lemma unit_of_byte_some : forall n u, unit_of_byte n = Some u -> is_byte n.
Proof.
  intros n u H. unfold unit_of_byte in H. destruct ((0 <=? n) && (n <? 256)) eqn:E; [|discriminate].
  apply andb_prop in E. destruct E as [A B]. apply Z.leb_le in A. apply Z.ltb_lt in B. unfold is_byte. lia.
Qed.

Lemma units_some : forall r g b u, units_of_bytes (r, g, b) = Some u -> is_byte r /\ is_byte g /\ is_byte b.
Proof.
  intros r g b u H. unfold units_of_bytes in H.
  destruct (unit_of_byte r) eqn:E1; [|discriminate].
  destruct (unit_of_byte g) eqn:E2; [|discriminate].
  destruct (unit_of_byte b) eqn:E3; [|discriminate].
  repeat split; eapply unit_of_byte_some; eassumption.
Qed.

Theorem opp_real_kernel_ok : kernel_ok opp_real.
Proof.
  intros c v H. unfold opp_real in H.
  destruct (hex_bytes c) as [[[r g] b]|]; [|discriminate].
  assert (Hb : is_byte r /\ is_byte g /\ is_byte b).
  { unfold opp_bytes, opp_bytes_n in H. destruct (units_of_bytes (r, g, b)) eqn:E; [|discriminate].
    exact (units_some _ _ _ _ E). }
  destruct Hb as (Hr & Hg & Hb).
  destruct (opp_bytes_ok r g b Hr Hg Hb) as (v' & E & Hv). rewrite E in H. inversion H; subst. exact Hv.
Qed.

(* int(s, 16) of two hexadecimal digits, by enumeration of the ASCII range *)
Definition int16_2_ok (c1 c2 : Z) : bool :=
  match hexval c1, hexval c2 with
  | Some v1, Some v2 => match py_int16 [c1; c2] with Some n => n =? v1 * 16 + v2 | None => false end
  | _, _ => true
  end.
Lemma int16_2_table : forallb (fun c1 => forallb (int16_2_ok c1) (zrange 128)) (zrange 128) = true.
Proof. vm_compute. reflexivity. Qed.

Lemma hexval_range : forall c v, hexval c = Some v -> 0 <= c < 128 /\ 0 <= v <= 15.
Proof.
  intros c v H. unfold hexval in H.
  destruct ((48 <=? c) && (c <=? 57)) eqn:E1.
  { apply andb_prop in E1. destruct E1 as [A B]. apply Z.leb_le in A, B. inversion H. lia. }
  destruct ((97 <=? c) && (c <=? 102)) eqn:E2.
  { apply andb_prop in E2. destruct E2 as [A B]. apply Z.leb_le in A, B. inversion H. lia. }
  destruct ((65 <=? c) && (c <=? 70)) eqn:E3; [|discriminate].
  apply andb_prop in E3. destruct E3 as [A B]. apply Z.leb_le in A, B. inversion H. lia.
Qed.

Lemma py_int16_hex2 : forall c1 c2 v1 v2, hexval c1 = Some v1 -> hexval c2 = Some v2 ->
  py_int16 [c1; c2] = Some (v1 * 16 + v2).
Proof.
  intros c1 c2 v1 v2 H1 H2.
  destruct (hexval_range _ _ H1) as [R1 _]. destruct (hexval_range _ _ H2) as [R2 _].
  pose proof (proj1 (forallb_forall _ _) int16_2_table c1 (In_zrange 128 c1 ltac:(lia))) as T. cbv beta in T.
  pose proof (proj1 (forallb_forall _ _) T c2 (In_zrange 128 c2 ltac:(lia))) as T2.
  unfold int16_2_ok in T2. rewrite H1, H2 in T2.
  destruct (py_int16 [c1; c2]) as [n|]; [|discriminate]. apply Z.eqb_eq in T2. subst n. reflexivity.
Qed.

Lemma hex6_shape : forall c, hex6_b c = true ->
  exists c1 c2 c3 c4 c5 c6 v1 v2 v3 v4 v5 v6, c = [c1; c2; c3; c4; c5; c6] /\
    hexval c1 = Some v1 /\ hexval c2 = Some v2 /\ hexval c3 = Some v3 /\
    hexval c4 = Some v4 /\ hexval c5 = Some v5 /\ hexval c6 = Some v6.
Proof.
  intros c H. unfold hex6_b in H. apply andb_prop in H. destruct H as [Hl Hh]. apply Z.eqb_eq in Hl.
  destruct c as [|c1 [|c2 [|c3 [|c4 [|c5 [|c6 [|c7 r]]]]]]]; unfold len in Hl; cbn [length] in Hl; try lia.
  cbn [forallb] in Hh. repeat (apply andb_prop in Hh; destruct Hh as [? Hh]).
  repeat match goal with X : is_hex_b _ = true |- _ => apply is_hex_b_val in X; destruct X as [? X] end.
  do 12 eexists. split; [reflexivity|]. repeat split; eassumption.
Qed.

Lemma hex_bytes_hex6 : forall c, hex6_b c = true ->
  exists r g b, hex_bytes c = Some (r, g, b) /\ is_byte r /\ is_byte g /\ is_byte b.
Proof.
  intros c H. destruct (hex6_shape c H) as (c1 & c2 & c3 & c4 & c5 & c6 & v1 & v2 & v3 & v4 & v5 & v6 & E & H1 & H2 & H3 & H4 & H5 & H6).
  subst c. unfold hex_bytes.
  change (slice2 [c1; c2; c3; c4; c5; c6] 0 2) with [c1; c2].
  change (slice2 [c1; c2; c3; c4; c5; c6] 2 4) with [c3; c4].
  change (slice2 [c1; c2; c3; c4; c5; c6] 4 6) with [c5; c6].
  rewrite (py_int16_hex2 _ _ _ _ H1 H2), (py_int16_hex2 _ _ _ _ H3 H4), (py_int16_hex2 _ _ _ _ H5 H6).
  do 3 eexists. split; [reflexivity|].
  pose proof (hexval_range _ _ H1). pose proof (hexval_range _ _ H2). pose proof (hexval_range _ _ H3).
  pose proof (hexval_range _ _ H4). pose proof (hexval_range _ _ H5). pose proof (hexval_range _ _ H6).
  unfold is_byte. lia.
Qed.

(* every colour string of six hexadecimal digits (either case) has an opposite colour *)
Theorem opp_real_total_hex : kernel_total_hex opp_real.
Proof.
  intros c H. destruct (hex_bytes_hex6 c H) as (r & g & b & E & Hr & Hg & Hb).
  destruct (opp_bytes_ok r g b Hr Hg Hb) as (v & Ev & _).
  exists v. unfold opp_real. rewrite E. exact Ev.
Qed.

(* ---- trees without AdjustBrightness nodes: no hypothesis left ----------- *)
Fixpoint no_adjust (t : transf) : bool :=
  match t with
  | TAdjust _ _ _ _ => false
  | TCond _ t' => no_adjust t'
  | TMerged l => (fix all (l : list transf) : bool :=
                    match l with [] => true | t' :: r => no_adjust t' && all r end) l
  | TDynamic (Some t') => no_adjust t'
  | _ => true
  end.

Lemma transform_adj_irrelevant : forall opp adj1 adj2 t a,
  no_adjust t = true -> transform opp adj1 t a = transform opp adj2 t a.
Proof.
  intros opp adj1 adj2. fix IH 1. intros t a H.
  destruct t as [| |fg bg|valid identity mn mx| |f t'|l|o]; cbn [transform]; cbn [no_adjust] in H; try reflexivity.
  - discriminate.
  - destruct f; [apply IH; exact H | reflexivity].
  - revert a. induction l as [|t' r IHl]; intros a; [reflexivity|].
    apply andb_prop in H. destruct H as [H1 H2].
    rewrite (IH t' a H1). destruct (transform opp adj2 t' a); [apply IHl; exact H2 | reflexivity].
  - destruct o as [t'|]; [apply IH; exact H | reflexivity].
Qed.

Lemma real_flags_no_adjust : forall t, no_adjust t = true -> real_flags t = t.
Proof.
  fix IH 1. intros t H.
  destruct t as [| |fg bg|valid identity mn mx| |f t'|l|o]; cbn [real_flags]; cbn [no_adjust] in H; try reflexivity.
  - discriminate.
  - rewrite (IH t' H). reflexivity.
  - f_equal. induction l as [|t' r IHl]; [reflexivity|].
    apply andb_prop in H. destruct H as [H1 H2]. cbn [map]. rewrite (IH t' H1), (IHl H2). reflexivity.
  - destruct o as [t'|]; [rewrite (IH t' H); reflexivity | reflexivity].
Qed.

Lemma const_kernel_ok : kernel_ok const_kernel.
Proof. intros c v H. inversion H. reflexivity. Qed.
Lemma const_kernel_total : kernel_total const_kernel.
Proof. intros c _. eexists. reflexivity. Qed.

Lemma transform_real_const : forall t a, no_adjust t = true ->
  transform_real t a = transform opp_real (fun _ _ => const_kernel) t a.
Proof.
  intros t a H. unfold transform_real. rewrite (real_flags_no_adjust t H).
  apply transform_adj_irrelevant. exact H.
Qed.

(* the 24-bit round trip through any tree of Swap / Reverse / SetDefaultColor /
   Dummy / Conditional / merged / Dynamic transformations running on the REAL
   colorsys arithmetic: no kernel hypothesis *)
Theorem sgr_roundtrip_swap_real : forall rules s d a t a',
  no_adjust t = true -> rt_dom d ->
  style_get rules s d = Ok a -> transform_real t a = Ok a' ->
  concrete a' /\ decode_seq (escape_code 24 a') = Ok (canon a').
Proof.
  intros rules s d a t a' Hn Hd Hs Ht. rewrite (transform_real_const t a Hn) in Ht.
  eapply (sgr_roundtrip_transformed opp_real (fun _ _ => const_kernel)); eauto.
  - exact opp_real_kernel_ok.
  - intros _ _. exact const_kernel_ok.
Qed.

(* ... and it never fails on in-domain (e.g. resolved) attributes *)
Theorem transform_real_total : forall t a,
  no_adjust t = true -> well_formed t = true -> rt_dom a -> exists a', transform_real t a = Ok a'.
Proof.
  intros t a Hn Hw Hd. rewrite (transform_real_const t a Hn).
  apply (transform_total opp_real (fun _ _ => const_kernel)); auto.
  - exact opp_real_kernel_ok.
  - exact opp_real_total_hex.
  - intros _ _. exact const_kernel_ok.
  - intros _ _. exact const_kernel_total.
Qed.

(* SwapLightAndDark twice is NOT the identity on colours in general (float
   rounding + truncation), but it is on the 16 ANSI names; a witness of the
   loss, evaluated on the real arithmetic *)
Example opp_real_example :
  opp_real [49; 50; 51; 52; 53; 54] = Some [97; 57; 99; 98; 101; 100].   (* "123456" -> "a9cbed" *)
Proof. vm_compute. reflexivity. Qed.

(* AdjustBrightness: the ANSI colour names (the colours _color_to_rgb looks up)
   for a lattice of brightness bounds (step 4/1000 over 0..1, both bounds: 251 x 251 pairs x 17 names):
   the new colour exists and is six hexadecimal digits.  PARTIAL: a statement
   for all bounds and all colours needs an error analysis of the float
   arithmetic (or 2^24 x 10^6 evaluations); the harness checks the rest by
   bit-exact correspondence (thorough: every colour, one bound pair per plane). *)
Definition lattice : list Z := map (fun k => 4 * Z.of_nat k) (seq 0 251).
Definition adj_row_ok (r g b mn : Z) : bool := forallb (fun mx => adj_chk mn mx r g b) lattice.
Definition adj_col_ok (kv : str * rgb) : bool :=
  forallb (adj_row_ok (fst (fst (snd kv))) (snd (fst (snd kv))) (snd (snd kv))) lattice.
Definition adj_ansi_lattice_ok : bool := forallb adj_col_ok ansi_colors_to_rgb.
Lemma adj_ansi_lattice_table : adj_ansi_lattice_ok = true.
Proof. vm_cast_no_check (eq_refl true). Qed.

Local Strategy 1000 [adj_chk opp_chk chan3_ok chan_ok].

Lemma adj_lattice_chk : forall k r g b mn mx,
  In (k, (r, g, b)) ansi_colors_to_rgb -> In mn lattice -> In mx lattice -> adj_chk mn mx r g b = true.
Proof.
  intros k r g b mn mx Hin Hmn Hmx.
  pose proof (proj1 (forallb_forall adj_col_ok ansi_colors_to_rgb) adj_ansi_lattice_table (k, (r, g, b)) Hin) as H.
  unfold adj_col_ok in H. cbn [fst snd] in H.
  pose proof (proj1 (forallb_forall (adj_row_ok r g b) lattice) H mn Hmn) as H2.
  unfold adj_row_ok in H2.
  exact (proj1 (forallb_forall (fun mx0 => adj_chk mn mx0 r g b) lattice) H2 mx Hmx).
Qed.

Theorem adjust_kernel_ansi_partial : forall name r g b mn mx,
  assoc name ansi_colors_to_rgb = Some (r, g, b) -> In mn lattice -> In mx lattice ->
  exists v, adj_real mn mx name = Some v /\ hex6_b v = true.
Proof.
  intros name r g b mn mx A Hmn Hmx.
  destruct (assoc_In _ _ _ A) as [k' Hin].
  pose proof (adj_lattice_chk k' r g b mn mx Hin Hmn Hmx) as H3.
  destruct (adj_chk_sound _ _ _ _ _ H3) as (x & y & z & E & Bx & By & Bz).
  exists (fmt3 (x, y, z)). unfold adj_real. rewrite A. unfold adj_bytes. rewrite E.
  split; [reflexivity | apply fmt3_hex6; assumption].
Qed.
