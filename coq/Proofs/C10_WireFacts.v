(* C10: flush_stdout's encode step adds no control character: a UTF-8 terminal
   decodes exactly the code points that were sent, with unencodable ones
   replaced by "?"; no C0/DEL byte appears that was not sent as that code
   point; for latin-1/ascii the bytes are the (replaced) code points. *)
From Coq Require Import ZArith List Bool Lia.
From PTK Require Import Lib.Sx Lib.Py Model.C13_Utf8 Proofs.C13_Utf8Facts Gen.C10_DisplayMappings
     Model.C10_Screen Model.C10_Producers Model.C10_Wire
     Proofs.C10_TableFacts Proofs.C10_CopyFacts Proofs.C10_RenderFacts.
Import ListNotations.
Open Scope Z_scope.

Lemma repl_utf8_scalar c : is_scalar (repl_utf8 c) = true.
Proof. unfold repl_utf8. destruct (is_scalar c) eqn:E; [exact E | reflexivity]. Qed.

Lemma repl_utf8_all_scalar data : forallb is_scalar (map repl_utf8 data) = true.
Proof. induction data as [|c r IH]; [reflexivity|]. cbn [map forallb]. rewrite repl_utf8_scalar, IH. reflexivity. Qed.

(* a UTF-8 terminal sees exactly the sent code points, unencodable ones as "?" *)
Theorem wire_utf8_roundtrip : forall data,
  wire_decode_utf8 (encode_utf8_replace data) = map repl_utf8 data.
Proof. intro data. unfold wire_decode_utf8, encode_utf8_replace. apply dec_enc_nil, repl_utf8_all_scalar. Qed.

Lemma repl_utf8_control c : is_control (repl_utf8 c) = true -> repl_utf8 c = c /\ is_control c = true.
Proof.
  unfold repl_utf8. destruct (is_scalar c); intro H; [split; [reflexivity | exact H]|]. discriminate.
Qed.

Lemma repl_8bit_control limit c : is_control (repl_8bit limit c) = true -> repl_8bit limit c = c /\ is_control c = true.
Proof.
  unfold repl_8bit. destruct ((0 <=? c) && (c <? limit)); intro H; [split; [reflexivity | exact H]|]. discriminate.
Qed.

Theorem wire_utf8_control_free : forall data, control_free data = true ->
  control_free (wire_decode_utf8 (encode_utf8_replace data)) = true.
Proof.
  intros data H. rewrite wire_utf8_roundtrip. unfold control_free in *. rewrite forallb_forall in *.
  intros c Hc. apply in_map_iff in Hc. destruct Hc as (c0 & E & H0). subst c.
  destruct (is_control (repl_utf8 c0)) eqn:E; [|reflexivity].
  destruct (repl_utf8_control c0 E) as [_ Hc0]. specialize (H c0 H0). rewrite Hc0 in H. discriminate.
Qed.

(* no C0/DEL BYTE on the wire that was not sent as that very code point *)
Theorem wire_utf8_ascii_bytes : forall data b, In b (encode_utf8_replace data) -> b < 128 ->
  b = QM \/ In b data.
Proof.
  intros data b Hin Hb. unfold encode_utf8_replace, utf8_enc_raw in Hin. apply in_flat_map in Hin.
  destruct Hin as (c & Hc & Hbc). apply in_map_iff in Hc. destruct Hc as (c0 & E & H0). subst c.
  destruct (enc_cp_bytes (repl_utf8 c0) b (repl_utf8_scalar c0) Hbc) as [_ H]. destruct (H Hb) as [E _].
  unfold repl_utf8 in E. destruct (is_scalar c0); [right; subst; exact H0 | left; symmetry; exact E].
Qed.

Theorem wire_8bit_control_free : forall limit data, control_free data = true ->
  control_free (encode_8bit_replace limit data) = true.
Proof.
  intros limit data H. unfold control_free, encode_8bit_replace in *. rewrite forallb_forall in *.
  intros c Hc. apply in_map_iff in Hc. destruct Hc as (c0 & E & H0). subst c.
  destruct (is_control (repl_8bit limit c0)) eqn:E; [|reflexivity].
  destruct (repl_8bit_control limit c0 E) as [_ Hc0]. specialize (H c0 H0). rewrite Hc0 in H. discriminate.
Qed.

(* the rendered stream on the wire: what the terminal decodes, tagged with the
   origin of the token each code point came from *)
Definition decoded_tagged (toks : list token) : list (origin * Z) :=
  map (fun oc : origin * Z => (fst oc, repl_utf8 (snd oc))) (tagged_stream toks).

Lemma decoded_tagged_is_wire toks :
  map snd (decoded_tagged toks) = wire_decode_utf8 (encode_utf8_replace (stream toks)).
Proof.
  unfold decoded_tagged. rewrite wire_utf8_roundtrip, stream_is_tagged, !map_map. reflexivity.
Qed.

Theorem wire_pipeline_stream wc sty g M pfx lines app width ri x y last vis :
  wc_ascii wc -> pfx_marked M pfx -> (forall l, In l lines -> frags_marked M l) ->
  forall o c, In (o, c) (decoded_tagged (rendered_tokens wc sty g pfx lines app width ri x y last vis)) ->
  is_control c = true -> o = FromRenderer \/ o = FromZWE.
Proof.
  intros Hw Hp Hl o c Hin Hc. unfold decoded_tagged in Hin. apply in_map_iff in Hin.
  destruct Hin as ([o0 c0] & E & H0). cbn [fst snd] in E. inversion E; subst.
  destruct (repl_utf8_control c0 Hc) as [_ Hc0].
  exact (pipeline_stream wc sty g M pfx lines app width ri x y last vis Hw Hp Hl o c0 H0 Hc0).
Qed.

(* lone surrogates (Python's undecodable bytes) never reach the wire as bytes *)
Example surrogate_escape_replaced :
  flush_encode 0 [97; 56475; 50; 74] = [97; 63; 50; 74] /\ flush_encode 1 [56475] = [63].
Proof. vm_compute. split; reflexivity. Qed.
