(* Round 6: a forward search started ON a match start; the read-only emacs
   keys (n, N, /, ?). *)
From Coq Require Import ZArith List Bool Lia.
From PTK Require Import Lib.Sx Lib.Py Model.Document Model.C16_Search Model.C16_SearchSpec
  Proofs.C16_MatchFacts Proofs.C16_SearchFacts.
Import ListNotations.
Open Scope Z_scope.

Section More.
Variable ceq : Z -> Z -> bool.

Lemma stay_is_id b : Inv b -> set_cursor_position (set_working_index b (wi b)) (cur b) = b.
Proof.
  intros [Hw Hc]. unfold set_working_index. rewrite Z.eqb_refl.
  unfold set_cursor_position.
  destruct (len (entry (wl b) (wi b)) <? cur b) eqn:E1; [lia|].
  destruct (cur b <? 0) eqn:E2; [lia|].
  rewrite Z.max_r by lia. destruct b; reflexivity.
Qed.

(* forward, include_current_position=True, the needle occurs at the cursor:
   found right here, nothing moves *)
Lemma forward_on_match_stays b st :
  Inv b -> sdir st = 0 -> occurs ceq (sic st) (stext st) (entry (wl b) (wi b)) (cur b) ->
  search ceq b st true 1 = SFound (wi b) (cur b) /\ apply_search ceq b st true 1 = b.
Proof.
  intros HI Hd Hocc.
  pose proof (search_fwd_spec ceq b st true HI Hd) as S. cbv zeta in S.
  assert (Hs : search ceq b st true 1 = SFound (wi b) (cur b)).
  { destruct (search ceq b st true 1) as [|w' c'].
    - destruct S as [S _]. exfalso. apply (S (cur b)); [lia | exact Hocc].
    - destruct S as [_ [_ [[-> [Hle Hno]] | [Hno _]]]].
      + f_equal. destruct (Z.eq_dec c' (cur b)) as [|Hne]; [assumption|].
        exfalso. apply (Hno (cur b)); [lia | exact Hocc].
      + exfalso. apply (Hno (cur b)); [lia | exact Hocc]. }
  split; [exact Hs|]. unfold apply_search. rewrite Hs. apply stay_is_id. exact HI.
Qed.

(* Enter on a forward incremental search whose preview already sits on the
   match: accepting stays there *)
Lemma accept_on_match_stays s :
  Inv (main s) -> searching s = true -> field s <> [] -> ss_dir s = 0 ->
  occurs ceq (ign s) (field s) (entry (wl (main s)) (wi (main s))) (cur (main s)) ->
  main (accept_search ceq s) = main s.
Proof.
  intros HI Hs Hf Hd Hocc. unfold accept_search.
  destruct (len (field s) =? 0) eqn:E.
  { exfalso. apply Hf. destruct (field s); [reflexivity|].
    apply Z.eqb_eq in E. unfold len in E. cbn [length] in E. lia. }
  unfold stop_search, with_main, with_state, the_state.
  cbn [main field fcur ss_text ss_dir ign searching vi].
  apply (forward_on_match_stays (main s) (mkss (field s) (ss_dir s) (ign s))); cbn [sdir sic stext]; assumption.
Qed.

(* ---- emacs mode, read-only main buffer ---- *)

Lemma ro_searching s k : vi s = false -> searching s = true -> key_step_ro ceq s k = key_step ceq s k.
Proof. intros Hv Hs. unfold key_step_ro. rewrite Hv, Hs. reflexivity. Qed.

Lemma ro_n_is_search s k c s' :
  vi s = false -> searching s = false -> (k = Kn c \/ k = KN c) ->
  key_step_ro ceq s k = Some s' ->
  let st := match k with Kn _ => the_state s | _ => invert (the_state s) end in
  main s' = apply_search ceq (main s) st false c /\
  ss_text s' = ss_text s /\ ss_dir s' = ss_dir s /\ searching s' = false /\ field s' = field s.
Proof.
  intros Hv Hs Hk. unfold key_step_ro. rewrite Hv, Hs.
  destruct Hk as [-> | ->]; cbv zeta; unfold with_main; intros [= <-];
    cbn [main ss_text ss_dir searching field]; repeat split; try reflexivity; exact Hs.
Qed.

Lemma ro_start_pure s k s' :
  vi s = false -> searching s = false ->
  (k = KCr \/ k = KCs \/ k = KSlash \/ k = KQuestion) ->
  key_step_ro ceq s k = Some s' ->
  main s' = main s /\ searching s' = true /\ ss_text s' = ss_text s /\
  ss_dir s' = (match k with KCr | KSlash => 1 | _ => 0 end).
Proof.
  intros Hv Hs Hk. unfold key_step_ro. rewrite Hv, Hs.
  destruct Hk as [-> | [-> | [-> | ->]]]; unfold start_search; intros [= <-];
    cbn [main searching ss_text ss_dir]; repeat split; reflexivity.
Qed.

End More.
