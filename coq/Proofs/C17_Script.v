(* C17 - the script theorem: refinement of the transition system to a
   sequential reference machine that hands the non-report key presses, one by
   one, to one prompt after the other (each followed at once by the key presses
   its handler fed with first=True). *)
From Coq Require Import ZArith List Bool Lia Permutation.
From PTK Require Import Lib.Py Model.C03_Vt100Parser Model.C17_Typeahead
  Proofs.C17_Core Proofs.C17_Conserve Proofs.C17_Accept.
Import ListNotations.

Definition quiet (ls : list label) : Prop :=
  Forall (fun l => l <> LClose /\ l <> LFlushInput /\ l <> LFlushKeys) ls.

Section P.
Variables E bid res PS : Type.
Variable lookup : E -> list kp -> option bid.
Variable lookup_scan : E -> list kp -> option bid.
Variable waits : E -> list kp -> bool.
Variable eff : bid -> list kp -> E -> E * option res.
Variable is_cprh : bid -> bool.
Variable cpr_lookup : E -> option bid.
Variable feeds : bid -> list kp -> E -> list kp.
Variable restart : E -> E.
Variable pfeed : str -> PS -> PS * list kp.
Variable pflush : PS -> PS * list kp.
Variable res_eof : res.

Notation core := (core E bid res).
Notation sys := (sys E bid res PS).
Notation call := (call eff is_cprh feeds).
Notation scan := (@scan E bid res lookup_scan).
Notation loop := (loop lookup lookup_scan waits eff is_cprh feeds).
Notation send := (send lookup lookup_scan waits eff is_cprh feeds).
Notation handle_cpr := (handle_cpr eff is_cprh cpr_lookup feeds).
Notation deliver := (deliver lookup lookup_scan waits eff is_cprh cpr_lookup feeds).
Notation drain := (drain lookup lookup_scan waits eff is_cprh cpr_lookup feeds).
Notation deliver_d := (deliver_d lookup lookup_scan waits eff is_cprh cpr_lookup feeds).
Notation process_q := (process_q lookup lookup_scan waits eff is_cprh cpr_lookup feeds).
Notation pk := (@pk E bid res PS lookup lookup_scan waits eff is_cprh cpr_lookup feeds).
Notation feed_keys := (@feed_keys E bid res PS lookup lookup_scan waits eff is_cprh cpr_lookup feeds).
Notation do_read := (@do_read E bid res PS lookup lookup_scan waits eff is_cprh cpr_lookup feeds pfeed res_eof).
Notation step := (@step E bid res PS lookup lookup_scan waits eff is_cprh cpr_lookup feeds restart pfeed pflush res_eof).
Notation run := (@run E bid res PS lookup lookup_scan waits eff is_cprh cpr_lookup feeds restart pfeed pflush res_eof).
Notation Jc := (@Jc E bid res).
Notation Js := (@Js E bid res PS).

(* the key buffer between two activations: empty, or still a prefix of a longer binding *)
Definition KB (c : core) : Prop := kbuf c = [] \/ waits (est c) (kbuf c) = true.

(* when a key press (with what its handler feeds) ends the prompt, nothing is
   left to go back to the queue: no binding that ends the prompt fires from the
   retry scan with keys left in the buffer, or before everything it was fed
   together with has been delivered *)
Definition no_pushback : Prop :=
  forall (c : core) it, cph c = CRun res -> pb c = [] -> KB c ->
    cph (deliver_d it c) <> CRun res -> pb (deliver_d it c) = [].

Hypothesis Hsil : cpr_silent eff cpr_lookup feeds.
Hypothesis Hnp : no_pushback.

(* ---------------------------------------------------------------------- *)
(* the fields the dispatch depends on *)

Definition core_eq (a b : core) : Prop := est a = est b /\ kbuf a = kbuf b /\ cph a = cph b /\ pb a = pb b.

Lemma core_eq_refl a : core_eq a a.
Proof. unfold core_eq; auto. Qed.
Lemma core_eq_sym a b : core_eq a b -> core_eq b a.
Proof. unfold core_eq; intuition congruence. Qed.
Lemma core_eq_trans a b c : core_eq a b -> core_eq b c -> core_eq a c.
Proof. unfold core_eq; intuition congruence. Qed.

Lemma call_congr x ks a b : core_eq a b -> core_eq (call x ks a) (call x ks b).
Proof.
  intros (H1 & H2 & H3 & H4). unfold core_eq, C17_Typeahead.call; cbn [est kbuf cph pb]. rewrite H1, H2, H3, H4. auto.
Qed.

Lemma scan_congr n a b : est a = est b -> kbuf a = kbuf b -> scan n a = scan n b.
Proof.
  intros H1 H2. induction n as [|n IH]; cbn [C17_Typeahead.scan]; [reflexivity|].
  rewrite H1, H2, IH. reflexivity.
Qed.

Lemma set_kbuf_congr l a b : core_eq a b -> core_eq (set_kbuf l a) (set_kbuf l b).
Proof. intros (H1 & H2 & H3 & H4). unfold core_eq; cbn [est kbuf cph pb set_kbuf]. auto. Qed.
Lemma clear_pb_congr a b : core_eq a b -> core_eq (clear_pb a) (clear_pb b).
Proof. intros (H1 & H2 & H3 & H4). unfold core_eq; cbn [est kbuf cph pb clear_pb]. auto. Qed.
Lemma set_pb_congr l a b : core_eq a b -> core_eq (set_pb l a) (set_pb l b).
Proof. intros (H1 & H2 & H3 & H4). unfold core_eq; cbn [est kbuf cph pb set_pb]. auto. Qed.
Lemma push_back_congr a b : core_eq a b -> core_eq (push_back a) (push_back b).
Proof. intros (H1 & H2 & H3 & H4). unfold core_eq; cbn [est kbuf cph pb push_back]. rewrite H2, H4. auto. Qed.

Lemma retry_congr (k : core -> core) a b :
  (forall x y, core_eq x y -> core_eq (k x) (k y)) -> core_eq a b -> core_eq (retry k a) (retry k b).
Proof.
  intros HK H. pose proof H as (H1 & H2 & H3 & H4). unfold retry, late. rewrite <- H3.
  destruct (cph a); [apply HK; exact H|apply push_back_congr; exact H|apply push_back_congr; exact H].
Qed.

Lemma loop_congr fuel : forall fl a b, core_eq a b -> core_eq (loop fuel fl a) (loop fuel fl b).
Proof.
  induction fuel as [|f IH]; intros fl a b H; pose proof H as (H1 & H2 & H3 & H4); cbn [C17_Typeahead.loop].
  - rewrite <- H2. destruct (kbuf a); [exact H|]. unfold core_eq; cbn [est kbuf cph pb set_oof]. auto.
  - rewrite <- H2, <- H3, <- H1.
    pose proof (fun n => scan_congr n a b H1 H2) as SC.
    destruct (kbuf a) as [|k0 tl0] eqn:KA; [exact H|].
    rewrite <- SC.
    assert (DR : core_eq (set_kbuf tl0 (add_ev (@EDrop bid (late a) k0) a)) (set_kbuf tl0 (add_ev (@EDrop bid (late b) k0) b))).
    { unfold core_eq; cbn [est kbuf cph pb set_kbuf add_ev]. auto. }
    destruct (cph a) eqn:PA.
    + destruct (negb fl && waits (est a) (k0 :: tl0)); [exact H|].
      destruct (lookup (est a) (k0 :: tl0)).
      * apply set_kbuf_congr. apply call_congr. exact H.
      * destruct (scan (length (k0 :: tl0)) a) as [[x i]|].
        -- apply retry_congr; [intros; apply IH; assumption|]. apply set_kbuf_congr. apply call_congr. exact H.
        -- apply retry_congr; [intros; apply IH; assumption|exact DR].
    + destruct (negb fl && waits (est a) (k0 :: tl0)); [exact H|].
      destruct (lookup (est a) (k0 :: tl0)).
      * apply set_kbuf_congr. apply call_congr. exact H.
      * destruct (scan (length (k0 :: tl0)) a) as [[x i]|].
        -- apply retry_congr; [intros; apply IH; assumption|]. apply set_kbuf_congr. apply call_congr. exact H.
        -- apply retry_congr; [intros; apply IH; assumption|exact DR].
    + exact H.
Qed.

Lemma send_congr it a b : core_eq a b -> core_eq (send it a) (send it b).
Proof.
  intros H. pose proof H as (H1 & H2 & H3 & H4). destruct it as [k|]; unfold C17_Typeahead.send; rewrite <- H2.
  - apply loop_congr. unfold core_eq; cbn [est kbuf cph pb set_kbuf]. rewrite H2. auto.
  - apply loop_congr. exact H.
Qed.

Lemma deliver_congr it a b : core_eq a b -> core_eq (deliver it a) (deliver it b).
Proof.
  intros H. destruct it as [k|]; cbn [C17_Typeahead.deliver]; [|apply send_congr; exact H].
  destruct (is_cpr k); [|apply send_congr; exact H].
  unfold C17_Typeahead.handle_cpr. destruct H as (H1 & H2 & H3 & H4). rewrite <- H1.
  destruct (cpr_lookup (est a)); [apply call_congr|]; unfold core_eq; auto.
Qed.

Lemma drain_congr l : forall a b, core_eq a b -> core_eq (drain l a) (drain l b).
Proof.
  induction l as [|k l IH]; intros a b H; cbn [C17_Typeahead.drain]; [exact H|].
  pose proof (deliver_congr (IKey k) a b H) as D. pose proof D as (D1 & D2 & D3 & D4).
  rewrite <- D3, <- D4.
  destruct (cph (deliver (IKey k) a)).
  - destruct (pb (deliver (IKey k) a)); [apply IH; exact D|].
    apply clear_pb_congr in D. destruct D as (X1 & X2 & X3 & X4). unfold core_eq; cbn [est kbuf cph pb set_deep] in *. auto.
  - apply set_pb_congr. exact D.
  - apply set_pb_congr. exact D.
Qed.

Lemma deliver_d_congr it a b : core_eq a b -> core_eq (deliver_d it a) (deliver_d it b).
Proof.
  intros H. unfold C17_Typeahead.deliver_d.
  pose proof (deliver_congr it a b H) as D. pose proof D as (D1 & D2 & D3 & D4). rewrite <- D3, <- D4.
  destruct (cph (deliver it a)); [|exact D|exact D].
  apply drain_congr. apply clear_pb_congr. exact D.
Qed.

(* a report leaves the dispatch state as it was *)
Lemma handle_cpr_core_eq k (c : core) : core_eq (handle_cpr k c) c.
Proof.
  destruct (@handle_cpr_eq E bid res eff is_cprh cpr_lookup feeds Hsil k c) as (E1 & E2 & E3 & E4 & _).
  unfold core_eq. auto.
Qed.

(* the ghost list of popped key presses is only written by process_keys *)
Lemma loop_rpops fuel : forall fl (c : core), rpops (loop fuel fl c) = rpops c.
Proof.
  induction fuel as [|f IH]; intros fl c; cbn [C17_Typeahead.loop].
  - destruct (kbuf c); reflexivity.
  - destruct (kbuf c) as [|k0 tl0]; [reflexivity|].
    assert (R : forall c1, rpops c1 = rpops c -> rpops (retry (loop f false) c1) = rpops c).
    { intros c1 H. unfold retry. destruct (late c1); [exact H|rewrite IH; exact H]. }
    destruct (cph c); [| |reflexivity].
    + destruct (negb fl && waits (est c) (k0 :: tl0)); [reflexivity|].
      destruct (lookup (est c) (k0 :: tl0)); [reflexivity|].
      destruct (scan (length (k0 :: tl0)) c) as [[x i]|]; apply R; reflexivity.
    + destruct (negb fl && waits (est c) (k0 :: tl0)); [reflexivity|].
      destruct (lookup (est c) (k0 :: tl0)); [reflexivity|].
      destruct (scan (length (k0 :: tl0)) c) as [[x i]|]; apply R; reflexivity.
Qed.

Lemma deliver_rpops it (c : core) : rpops (deliver it c) = rpops c.
Proof.
  destruct it as [k|]; cbn [C17_Typeahead.deliver]; [|unfold C17_Typeahead.send; rewrite loop_rpops; reflexivity].
  destruct (is_cpr k); [|unfold C17_Typeahead.send; rewrite loop_rpops; reflexivity].
  unfold C17_Typeahead.handle_cpr. destruct (cpr_lookup (est c)); reflexivity.
Qed.

Lemma drain_rpops l : forall c : core, rpops (drain l c) = rpops c.
Proof.
  induction l as [|k l IH]; intros c; cbn [C17_Typeahead.drain]; [reflexivity|].
  destruct (cph (deliver (IKey k) c)); [|cbn [rpops set_pb]; apply deliver_rpops|cbn [rpops set_pb]; apply deliver_rpops].
  destruct (pb (deliver (IKey k) c)); [rewrite IH; apply deliver_rpops|cbn [rpops set_deep clear_pb]; apply deliver_rpops].
Qed.

Lemma deliver_d_rpops it (c : core) : rpops (deliver_d it c) = rpops c.
Proof.
  unfold C17_Typeahead.deliver_d. destruct (cph (deliver it c)); [|apply deliver_rpops|apply deliver_rpops].
  rewrite drain_rpops. cbn [rpops clear_pb]. apply deliver_rpops.
Qed.

(* the key buffer is empty or waiting whenever the coroutine yields with the result unset *)
Lemma loop_KB fuel : forall fl (c : core),
  (length (kbuf c) < fuel)%nat -> cph (loop fuel fl c) = CRun res -> KB (loop fuel fl c).
Proof.
  induction fuel as [|f IH]; intros fl c H PR; [lia|]. cbn [C17_Typeahead.loop] in *.
  destruct (kbuf c) as [|k0 tl0] eqn:KBE; [left; exact KBE|].
  assert (R : forall c1, (length (kbuf c1) < f)%nat -> cph (retry (loop f false) c1) = CRun res -> KB (retry (loop f false) c1)).
  { intros c1 L1 P1. unfold retry in *. destruct (late c1) eqn:LT.
    - unfold late in LT. cbn [cph push_back] in P1. rewrite P1 in LT. discriminate.
    - apply IH; assumption. }
  assert (G : forall b i, scan (length (k0 :: tl0)) c = Some (b, i) ->
          (length (kbuf (set_kbuf (skipn i (k0 :: tl0)) (call b (firstn i (k0 :: tl0)) c))) < f)%nat).
  { intros b i S. apply (@scan_bounds E bid res lookup_scan) in S. cbn [kbuf set_kbuf]. rewrite skipn_length. cbn [length] in *. lia. }
  assert (D : (length (kbuf (set_kbuf tl0 (add_ev (@EDrop bid (late c) k0) c))) < f)%nat).
  { cbn [kbuf set_kbuf]. cbn [length] in H. lia. }
  destruct (cph c) eqn:PH.
  - destruct (negb fl && waits (est c) (k0 :: tl0)) eqn:W.
    + right. rewrite KBE. apply andb_prop in W. tauto.
    + destruct (lookup (est c) (k0 :: tl0)); [left; reflexivity|].
      destruct (scan (length (k0 :: tl0)) c) as [[b i]|] eqn:S.
      * apply R; [exact (G b i eq_refl)|exact PR].
      * apply R; [exact D|exact PR].
  - destruct (negb fl && waits (est c) (k0 :: tl0)) eqn:W.
    + right. rewrite KBE. apply andb_prop in W. tauto.
    + destruct (lookup (est c) (k0 :: tl0)); [left; reflexivity|].
      destruct (scan (length (k0 :: tl0)) c) as [[b i]|] eqn:S.
      * apply R; [exact (G b i eq_refl)|exact PR].
      * apply R; [exact D|exact PR].
  - congruence.
Qed.

Lemma send_KB it (c : core) : cph (send it c) = CRun res -> KB (send it c).
Proof.
  destruct it as [k|]; unfold C17_Typeahead.send; intros PR.
  - apply loop_KB; [|exact PR]. cbn [kbuf set_kbuf]. rewrite app_length; cbn [length]; lia.
  - apply loop_KB; [lia|exact PR].
Qed.

Lemma deliver_KB it (c : core) : KB c -> cph (deliver it c) = CRun res -> KB (deliver it c).
Proof.
  intros K. destruct it as [k|]; cbn [C17_Typeahead.deliver]; [|apply send_KB].
  destruct (is_cpr k); [|apply send_KB]. intros _.
  destruct (handle_cpr_core_eq k c) as (E1 & E2 & _). unfold KB. rewrite E1, E2. exact K.
Qed.

Lemma drain_KB l : forall c : core, KB c -> cph (drain l c) = CRun res -> KB (drain l c).
Proof.
  induction l as [|k l IH]; intros c K H; cbn [C17_Typeahead.drain] in *; [exact K|].
  destruct (cph (deliver (IKey k) c)) eqn:PC.
  - pose proof (deliver_KB (IKey k) c K PC) as K'.
    destruct (pb (deliver (IKey k) c)); [apply IH; assumption|exact K'].
  - cbn [cph set_pb] in H. congruence.
  - cbn [cph set_pb] in H. congruence.
Qed.

Lemma deliver_d_KB it (c : core) : KB c -> cph (deliver_d it c) = CRun res -> KB (deliver_d it c).
Proof.
  intros K. unfold C17_Typeahead.deliver_d. destruct (cph (deliver it c)) eqn:PC; [|congruence|congruence].
  intros H. apply drain_KB; [|exact H]. exact (deliver_KB it c K PC).
Qed.

(* ---------------------------------------------------------------------- *)
(* the reference machine *)

Definition fresh (e : E) : core := init_core bid res e.

Fixpoint ref (ks : list kp) (st : list res * core) : list res * core :=
  match ks with
  | [] => st
  | k :: ks' =>
      let c' := deliver_d (IKey k) (snd st) in
      match cph c' with
      | CDone r => ref ks' (fst st ++ [r], fresh (restart (est c')))
      | _ => ref ks' (fst st, c')
      end
  end.

Definition st_eq (a b : list res * core) : Prop := fst a = fst b /\ core_eq (snd a) (snd b).
Lemma st_eq_refl a : st_eq a a.
Proof. split; [reflexivity|apply core_eq_refl]. Qed.
Lemma st_eq_trans a b c : st_eq a b -> st_eq b c -> st_eq a c.
Proof. intros [A1 A2] [B1 B2]. split; [congruence|eapply core_eq_trans; eassumption]. Qed.
Lemma st_eq_sym a b : st_eq a b -> st_eq b a.
Proof. intros [A1 A2]. split; [congruence|apply core_eq_sym; assumption]. Qed.

Lemma ref_congr ks : forall a b, st_eq a b -> st_eq (ref ks a) (ref ks b).
Proof.
  induction ks as [|k ks IH]; intros a b H; [exact H|]. cbn [ref].
  destruct H as [H1 H2]. pose proof (deliver_d_congr (IKey k) _ _ H2) as S0. pose proof S0 as (S1 & S2 & S3 & S4).
  rewrite <- S3. destruct (cph (deliver_d (IKey k) (snd a))) eqn:PA.
  - apply IH. split; [exact H1|exact S0].
  - apply IH. split; cbn [fst snd]; [rewrite H1; reflexivity|]. rewrite S1. apply core_eq_refl.
  - apply IH. split; [exact H1|exact S0].
Qed.

Lemma ref_app a : forall b st, ref (a ++ b) st = ref b (ref a st).
Proof.
  induction a as [|k a IH]; intros b st; [reflexivity|]. cbn [app ref].
  destruct (cph (deliver_d (IKey k) (snd st))); apply IH.
Qed.

(* the reference view of a key processor with [rs] results already returned *)
Definition absc (rs : list res) (c : core) : list res * core :=
  match cph c with
  | CDone r => (rs ++ [r], fresh (restart (est c)))
  | _ => (rs, c)
  end.

Lemma absc_congr rs a b : core_eq a b -> st_eq (absc rs a) (absc rs b).
Proof.
  intros H. pose proof H as (H1 & H2 & H3 & H4). unfold absc. rewrite <- H3. destruct (cph a) eqn:PA.
  - split; [reflexivity|exact H].
  - rewrite H1. apply st_eq_refl.
  - split; [reflexivity|exact H].
Qed.

Definition KBr (c : core) : Prop := cph c = CRun res -> KB c.

Lemma KBr_congr a b : core_eq a b -> KBr a -> KBr b.
Proof. intros (H1 & H2 & H3 & H4) K P. unfold KB. rewrite <- H1, <- H2. apply K. congruence. Qed.

(* one process_keys(): the popped non-report key presses, handed to the
   reference machine, give the same state; what is popped is gone from the queue *)
Lemma pq_R q : forall (c : core) rs st,
  pb c = [] -> KBr c -> Forall nf q -> st_eq st (absc rs c) ->
  exists D, nc (rpops (fst (process_q q c))) = nc (rpops c) ++ D /\
            st_eq (ref D st) (absc rs (fst (process_q q c))) /\
            KBr (fst (process_q q c)) /\ pb (fst (process_q q c)) = [] /\
            nc (rpops (fst (process_q q c))) ++ nc (ikeys (snd (process_q q c))) = nc (rpops c) ++ nc (ikeys q).
Proof.
  induction q as [|it q IH]; intros c rs st P0 K F S; cbn [C17_Typeahead.process_q] in *.
  - exists []. rewrite !app_nil_r. auto 6.
  - inversion F as [|? ? F1 F2]; subst.
    destruct (cph c) eqn:PH.
    + (* result not set: the item is popped and delivered, with what its handler feeds *)
      destruct it as [k|]; [|exfalso; apply F1; reflexivity].
      cbn [fst snd C17_Typeahead.pop].
      set (c0 := add_pop k c).
      assert (C0 : core_eq c0 c) by (unfold core_eq, c0; cbn [est kbuf cph pb add_pop]; auto).
      assert (PH0 : cph c0 = CRun res) by exact PH.
      assert (K0 : KB c0) by (apply (KBr_congr c c0 (core_eq_sym _ _ C0) K); exact PH0).
      set (c' := deliver_d (IKey k) c0).
      assert (PB : pb c' = []).
      { destruct (cph c') eqn:PC; [apply (@deliver_d_pb_run E bid res lookup lookup_scan waits eff is_cprh cpr_lookup feeds); exact PC| |];
          (apply Hnp; [exact PH0|exact P0|exact K0|fold c'; congruence]). }
      assert (RP : rpops c' = rpops c ++ [k]) by (unfold c'; rewrite deliver_d_rpops; reflexivity).
      assert (K' : KBr (clear_pb c')).
      { intros X. cbn [cph clear_pb] in X. pose proof (deliver_d_KB (IKey k) c0 K0 X) as Y. exact Y. }
      assert (CC : core_eq (clear_pb c') c') by (unfold core_eq; cbn [est kbuf cph pb clear_pb]; auto).
      rewrite PB. cbn [map app].
      destruct (is_cpr k) eqn:CK.
      * (* a report: delivered to its binding, nothing changes for the reference machine *)
        assert (CE : core_eq c' c).
        { unfold c', C17_Typeahead.deliver_d. cbn [C17_Typeahead.deliver]. rewrite CK.
          pose proof (handle_cpr_core_eq k c0) as HE. pose proof HE as (X1 & X2 & X3 & X4).
          rewrite X3, PH0, X4. change (pb c0) with (pb c). rewrite P0. cbn [C17_Typeahead.drain].
          eapply core_eq_trans; [|exact C0]. eapply core_eq_trans; [|exact HE].
          unfold core_eq; cbn [est kbuf cph pb clear_pb]. rewrite X4. change (pb c0) with (pb c). rewrite P0. auto. }
        destruct (IH (clear_pb c') rs st eq_refl K' F2) as (D & A1 & A2 & A3 & A4 & A5).
        { eapply st_eq_trans; [exact S|]. apply absc_congr. apply core_eq_sym. eapply core_eq_trans; [exact CC|exact CE]. }
        exists D. cbn [rpops clear_pb] in A1, A5. rewrite RP, nc_app, (nc_cpr k CK), app_nil_r in A1, A5.
        split; [exact A1|]. split; [exact A2|]. split; [exact A3|]. split; [exact A4|].
        rewrite A5. cbn [ikeys]. change (k :: ikeys q) with ([k] ++ ikeys q). rewrite nc_app, (nc_cpr k CK). reflexivity.
      * assert (S2 : core_eq (snd st) c0).
        { destruct S as [_ S2]. unfold absc in S2. rewrite PH in S2. eapply core_eq_trans; [exact S2|apply core_eq_sym; exact C0]. }
        pose proof (deliver_d_congr (IKey k) _ _ S2) as CE. fold c' in CE.
        destruct (IH (clear_pb c') rs (absc (fst st) (deliver_d (IKey k) (snd st))) eq_refl K' F2) as (D & A1 & A2 & A3 & A4 & A5).
        { destruct S as [S1 _]. unfold absc in S1. rewrite PH in S1. cbn [fst] in S1. rewrite S1.
          apply absc_congr. eapply core_eq_trans; [exact CE|apply core_eq_sym; exact CC]. }
        exists (k :: D). cbn [rpops clear_pb] in A1, A5. rewrite RP, nc_app, (nc_single k CK) in A1, A5.
        split; [rewrite A1, <- app_assoc; reflexivity|]. split; [|split; [exact A3|split; [exact A4|]]].
        -- cbn [ref]. unfold absc in A2 at 1.
           destruct (cph (deliver_d (IKey k) (snd st))); exact A2.
        -- rewrite A5. cbn [ikeys]. change (k :: ikeys q) with ([k] ++ ikeys q). rewrite nc_app, (nc_single k CK), <- app_assoc. reflexivity.
    + (* result set: only reports are taken out *)
      destruct (item_is_cpr it) eqn:CI.
      * destruct it as [k|]; [|discriminate]. cbn [item_is_cpr] in CI.
        cbn [C17_Typeahead.deliver C17_Typeahead.pop fst snd]. rewrite CI.
        pose proof (handle_cpr_core_eq k (add_pop k c)) as HE. pose proof HE as (X1 & X2 & X3 & X4).
        cbn [pb add_pop] in X4. rewrite X4, P0. cbn [map app].
        assert (CE : core_eq (clear_pb (handle_cpr k (add_pop k c))) c).
        { cbn [est kbuf cph add_pop] in *. unfold core_eq; cbn [est kbuf cph pb clear_pb]. auto. }
        destruct (IH (clear_pb (handle_cpr k (add_pop k c))) rs st eq_refl (KBr_congr _ _ (core_eq_sym _ _ CE) K) F2) as (D & A1 & A2 & A3 & A4 & A5).
        { eapply st_eq_trans; [exact S|]. apply absc_congr. apply core_eq_sym. exact CE. }
        assert (RP : rpops (clear_pb (handle_cpr k (add_pop k c))) = rpops c ++ [k]).
        { cbn [rpops clear_pb]. unfold C17_Typeahead.handle_cpr. destruct (cpr_lookup (est (add_pop k c))); reflexivity. }
        exists D. rewrite RP, nc_app, (nc_cpr k CI), app_nil_r in A1, A5.
        split; [exact A1|]. split; [exact A2|]. split; [exact A3|]. split; [exact A4|].
        rewrite A5. cbn [ikeys]. change (k :: ikeys q) with ([k] ++ ikeys q). rewrite nc_app, (nc_cpr k CI). reflexivity.
      * cbn [fst snd] in *. destruct (IH c rs st P0 K F2 S) as (D & A1 & A2 & A3 & A4 & A5).
        exists D. split; [exact A1|]. split; [exact A2|]. split; [exact A3|]. split; [exact A4|].
        destruct it as [k|]; cbn [ikeys item_is_cpr] in *; [|exact A5].
        change (k :: ikeys (snd (process_q q c))) with ([k] ++ ikeys (snd (process_q q c))).
        change (k :: ikeys q) with ([k] ++ ikeys q). rewrite !nc_app.
        rewrite (nc_single k CI), app_assoc.
        assert (X : nc (rpops (fst (process_q q c))) = nc (rpops c)).
        { assert (NR : not_run c) by (unfold not_run; congruence).
          clear - NR Hsil. revert c NR. induction q as [|i q IHq]; intros c NR; cbn [C17_Typeahead.process_q]; [reflexivity|].
          destruct (cph c) eqn:PC; [exfalso; apply NR; exact PC| |reflexivity].
          destruct (item_is_cpr i) eqn:CI; cbn [fst]; [|apply IHq; exact NR].
          destruct i as [k|]; [|discriminate]. cbn [item_is_cpr] in CI.
          rewrite IHq.
          - cbn [rpops clear_pb C17_Typeahead.pop]. rewrite deliver_rpops. cbn [rpops add_pop]. rewrite nc_app, (nc_cpr k CI), app_nil_r. reflexivity.
          - unfold not_run; cbn [cph clear_pb]. apply (@deliver_not_run E bid res lookup lookup_scan waits eff is_cprh cpr_lookup feeds). exact NR. }
        rewrite X in *. rewrite <- (app_assoc (nc (rpops c))). f_equal.
        apply app_inv_head in A5. rewrite A5. reflexivity.
    + exists []. rewrite !app_nil_r. split; [reflexivity|]. split; [exact S|]. split; [exact K|]. split; [exact P0|]. reflexivity.
Qed.

(* ---------------------------------------------------------------------- *)
(* the refinement invariant *)

Definition abs (s : sys) : list res * core :=
  match at_ s with
  | Detached => (results s, fresh (restart (est (co s))))
  | _ => absc (results s) (co s)
  end.

Section Inv.
Variable e0 : E.
Definition R (s : sys) : Prop :=
  st_eq (ref (nc (rpops (co s))) ([], fresh (restart e0))) (abs s).

(* what has been popped ++ type-ahead ++ queue = what has been decoded *)
Definition Ks (s : sys) : Prop :=
  KBr (co s) /\ pb (co s) = [] /\ (at_ s <> Detached -> store s = []) /\
  nc (rpops (co s)) ++ nc (ikeys (store s)) ++ nc (ikeys (queue s)) = nc (decoded s).

Lemma R_pk (s : sys) : at_ s <> Detached -> Ks s -> Forall nf (queue s) -> R s -> R (pk s) /\ Ks (pk s).
Proof.
  intros A (K & P0 & S0 & C0) F H. unfold R in *. unfold C17_Typeahead.pk in *.
  assert (AB : abs s = absc (results s) (co s)) by (unfold abs; destruct (at_ s); [contradiction| |]; reflexivity).
  rewrite AB in H.
  destruct (pq_R (queue s) (co s) (results s) _ P0 K F H) as (D & A1 & A2 & A3 & A4 & A5).
  split.
  - cbn [co with_co with_queue]. rewrite A1, ref_app. unfold abs, with_co, with_queue; cbn [at_ results co].
    destruct (at_ s); [contradiction| |]; exact A2.
  - unfold Ks, with_co, with_queue; cbn [co at_ store queue decoded]. split; [exact A3|]. split; [exact A4|]. split; [exact S0|].
    rewrite (S0 A) in *. cbn [ikeys nc filter app] in *. rewrite A5. exact C0.
Qed.

Lemma R_same (s s' : sys) : co s' = co s -> at_ s' = at_ s -> results s' = results s -> R s -> R s'.
Proof. intros H1 H2 H3. unfold R, abs. rewrite H1, H2, H3. auto. Qed.

Lemma R_finish r (s : sys) : at_ s <> Detached -> cph (co s) = CDone r -> R s -> R (finish r s).
Proof.
  intros A PH H. unfold R, abs, C17_Typeahead.finish in *; cbn [co at_ results].
  destruct (at_ s); [contradiction| |]; unfold absc in H; rewrite PH in H; exact H.
Qed.

Lemma Ks_finish r (s : sys) : Ks s -> Ks (finish r s).
Proof.
  intros (K & P0 & S0 & C0). unfold Ks, C17_Typeahead.finish; cbn [co at_ store queue decoded].
  split; [exact K|]. split; [exact P0|]. split; [intros X; congruence|].
  rewrite ikeys_app, nc_app, nc_ikeys_filter. cbn [ikeys nc filter]. rewrite app_nil_r. exact C0.
Qed.

Lemma R_core_eq (c' : core) (s : sys) :
  rpops c' = rpops (co s) -> core_eq (co s) c' -> R s -> R (with_co c' s).
Proof.
  intros HA HE H. unfold R in *. unfold with_co at 1. cbn [co]. rewrite HA.
  eapply st_eq_trans; [exact H|]. unfold abs, with_co; cbn [at_ results co].
  destruct (at_ s).
  - destruct HE as (E1 & _). rewrite E1. apply st_eq_refl.
  - apply absc_congr. exact HE.
  - apply absc_congr. exact HE.
Qed.

Lemma R_wcpr n (s : sys) : R s -> R (with_co (set_wcpr n (co s)) s).
Proof. intros H. apply R_core_eq; [reflexivity|unfold core_eq; auto|exact H]. Qed.
Lemma Ks_wcpr n (s : sys) : Ks s -> Ks (with_co (set_wcpr n (co s)) s).
Proof. intros H. exact H. Qed.

Definition quiet1 (l : label) : Prop := l <> LClose /\ l <> LFlushInput /\ l <> LFlushKeys.

Lemma R_do_read n (s : sys) : at_ s <> Detached -> Js s -> Ks s -> R s -> R (do_read n s) /\ Ks (do_read n s).
Proof.
  intros A (J & _ & _ & F & G & W) K H. unfold C17_Typeahead.do_read in *. cbv zeta in *. rewrite W in *.
  destruct (pipe s).
  - apply R_pk; assumption.
  - unfold C17_Typeahead.feed_keys in *. apply R_pk; cbn [co queue at_]; [exact A| | |].
    + destruct K as (K1 & K2 & K3 & K4). unfold Ks; cbn [co at_ store queue decoded].
      split; [exact K1|]. split; [exact K2|]. split; [exact K3|].
      rewrite ikeys_app, ikeys_map, !nc_app, !app_assoc. rewrite <- K4, !app_assoc. reflexivity.
    + apply Forall_app; split; [exact F|apply nf_map].
    + eapply R_same; [| | |exact H]; reflexivity.
Qed.

Lemma R_step (s : sys) l : quiet1 l -> Js s -> Ks s -> R s -> R (step s l) /\ Ks (step s l).
Proof.
  intros (Q1 & Q2 & Q3) J K H. pose proof J as (Jc0 & D & Q & F & G & W).
  pose proof K as (K1 & K2 & K3 & K4).
  unfold C17_Typeahead.step in *.
  destruct (cph (co s)) eqn:PH; destruct l; try (split; [exact H|exact K]); try congruence.
  all: try (destruct (wclosed s); [split; [exact H|exact K]|];
            split; [eapply R_same; [| | |exact H]; reflexivity|exact K]).
  all: try (destruct (at_ s) eqn:A; try (split; [exact H|exact K]);
            try (apply R_do_read; [congruence|exact J|exact K|exact H]);
            try (destruct (wcpr (co s)); [split; [exact H|exact K]|apply R_do_read; [congruence|exact J|exact K|exact H]]);
            try (split; [apply R_wcpr; exact H|apply Ks_wcpr; exact K]); fail).
  - (* LStart, result not set *)
    destruct (at_ s) eqn:A; [|split; [exact H|exact K]|split; [exact H|exact K]].
    destruct (D eq_refl) as [D1 D2]. rewrite D1, D2 in *.
    apply R_pk; cbn [co queue at_]; [congruence| |exact G|].
    + unfold Ks; cbn [co at_ store queue decoded rpops pb]. split; [intros _; left; reflexivity|]. split; [exact K2|].
      split; [reflexivity|]. cbn [ikeys nc filter app] in *. rewrite app_nil_r in K4. exact K4.
    + unfold R, abs in *. cbn [co at_ results rpops]. rewrite A in H. unfold absc; cbn [cph].
      eapply st_eq_trans; [exact H|]. split; [reflexivity|]. cbn [snd]. unfold core_eq, fresh, init_core; cbn [est kbuf cph pb]. auto.
  - (* LStart, result of the previous prompt still recorded *)
    destruct (at_ s) eqn:A; [|split; [exact H|exact K]|split; [exact H|exact K]].
    destruct (D eq_refl) as [D1 D2]. rewrite D1, D2 in *.
    apply R_pk; cbn [co queue at_]; [congruence| |exact G|].
    + unfold Ks; cbn [co at_ store queue decoded rpops pb]. split; [intros _; left; reflexivity|]. split; [exact K2|].
      split; [reflexivity|]. cbn [ikeys nc filter app] in *. rewrite app_nil_r in K4. exact K4.
    + unfold R, abs in *. cbn [co at_ results rpops]. rewrite A in H. unfold absc; cbn [cph].
      eapply st_eq_trans; [exact H|]. split; [reflexivity|]. cbn [snd]. unfold core_eq, fresh, init_core; cbn [est kbuf cph pb]. auto.
  - (* LExit *)
    destruct (at_ s) eqn:A; [split; [exact H|exact K]| |split; [exact H|exact K]].
    destruct (rcpr s && negb (Nat.eqb (wcpr (co s)) 0)).
    + split.
      * unfold R, abs in *. cbn [co at_ results]. rewrite A in H. exact H.
      * unfold Ks; cbn [co at_ store queue decoded]. split; [exact K1|]. split; [exact K2|]. split; [intros _; apply K3; congruence|exact K4].
    + split; [apply R_finish; [congruence|exact PH|exact H]|apply Ks_finish; exact K].
  - (* LExitEnd *)
    destruct (at_ s) eqn:A; try (split; [exact H|exact K]). destruct (wcpr (co s)); [|split; [exact H|exact K]].
    split; [apply R_finish; [congruence|exact PH|exact H]|apply Ks_finish; exact K].
  - (* LCprTimeout *)
    destruct (at_ s) eqn:A; try (split; [exact H|exact K]).
    split; [apply R_finish; [cbn [at_ with_co]; congruence|exact PH|apply R_wcpr; exact H]|apply Ks_finish; exact K].
Qed.

Lemma run_R ls : forall s : sys, quiet ls -> Js s -> Ks s -> R s -> R (run ls s) /\ Ks (run ls s).
Proof.
  induction ls as [|l ls IH]; intros s Q J K H; [split; assumption|]. cbn [C17_Typeahead.run fold_left] in *.
  inversion Q as [|? ? Q1 Q2]; subst.
  destruct (R_step s l Q1 J K H) as (H' & K').
  apply IH; [exact Q2| |exact K'|exact H'].
  apply (@Js_step E bid res PS lookup lookup_scan waits eff is_cprh cpr_lookup feeds restart pfeed pflush res_eof Hsil);
    [exact (proj1 Q1)|exact J].
Qed.

End Inv.

(* ---------------------------------------------------------------------- *)
(* Queue-level conservation for EVERY label sequence (timeouts and close
   included), handlers that feed allowed: the key presses popped from
   input_queue ++ type-ahead store ++ input_queue are the key presses decoded,
   reports apart, in order.  (What is popped then reaches handlers or waits in
   the key buffer: acc lemmas of C17_Core.) *)

Lemma pq_done_rpops q : forall c : core, not_run c -> pb c = [] ->
  nc (rpops (fst (process_q q c))) = nc (rpops c) /\ nc (ikeys (snd (process_q q c))) = nc (ikeys q) /\
  pb (fst (process_q q c)) = [] /\ not_run (fst (process_q q c)).
Proof.
  induction q as [|i q IHq]; intros c NR P0; cbn [C17_Typeahead.process_q]; [auto|].
  destruct (cph c) eqn:PC; [exfalso; apply NR; exact PC| |auto].
  destruct (item_is_cpr i) eqn:CI.
  - destruct i as [k|]; [|discriminate]. cbn [item_is_cpr] in CI.
    cbn [C17_Typeahead.deliver C17_Typeahead.pop fst snd]. rewrite CI.
    pose proof (handle_cpr_core_eq k (add_pop k c)) as (X1 & X2 & X3 & X4). cbn [pb add_pop] in X4.
    rewrite X4, P0. cbn [map app].
    destruct (IHq (clear_pb (handle_cpr k (add_pop k c)))) as (A & B & C & D).
    { unfold not_run; cbn [cph clear_pb]. rewrite X3. exact NR. }
    { reflexivity. }
    rewrite A, B. cbn [rpops clear_pb]. unfold C17_Typeahead.handle_cpr.
    split; [|split; [|auto]].
    + destruct (cpr_lookup (est (add_pop k c))); cbn [rpops add_pop C17_Typeahead.call]; rewrite nc_app, (nc_cpr k CI), app_nil_r; reflexivity.
    + cbn [ikeys]. change (k :: ikeys q) with ([k] ++ ikeys q). rewrite nc_app, (nc_cpr k CI). reflexivity.
  - destruct (IHq c NR P0) as (A & B & C & D). cbn [fst snd]. split; [exact A|]. split; [|auto].
    destruct i as [k|]; cbn [ikeys]; [|exact B].
    change (k :: ikeys (snd (process_q q c))) with ([k] ++ ikeys (snd (process_q q c))).
    change (k :: ikeys q) with ([k] ++ ikeys q). rewrite !nc_app, B. reflexivity.
Qed.

Lemma pq_C q : forall c : core, pb c = [] -> KBr c ->
  KBr (fst (process_q q c)) /\ pb (fst (process_q q c)) = [] /\
  nc (rpops (fst (process_q q c))) ++ nc (ikeys (snd (process_q q c))) = nc (rpops c) ++ nc (ikeys q).
Proof.
  induction q as [|it q IH]; intros c P0 K; cbn [C17_Typeahead.process_q].
  - auto.
  - destruct (cph c) eqn:PH.
    + cbn [fst snd].
      set (c0 := pop it c).
      assert (C0 : core_eq c0 c) by (unfold core_eq, c0; destruct it; cbn; auto).
      assert (PH0 : cph c0 = CRun res) by (destruct C0 as (_ & _ & X & _); congruence).
      assert (P00 : pb c0 = []) by (destruct C0 as (_ & _ & _ & X); congruence).
      assert (K0 : KB c0) by (apply (KBr_congr c c0 (core_eq_sym _ _ C0) K); exact PH0).
      set (c' := deliver_d it c0).
      assert (PB : pb c' = []).
      { destruct (cph c') eqn:PC; [apply (@deliver_d_pb_run E bid res lookup lookup_scan waits eff is_cprh cpr_lookup feeds); exact PC| |];
          (apply Hnp; [exact PH0|exact P00|exact K0|fold c'; congruence]). }
      assert (K' : KBr (clear_pb c')).
      { intros X. cbn [cph clear_pb] in X. exact (deliver_d_KB it c0 K0 X). }
      destruct (IH (clear_pb c') eq_refl K') as (A & B & C).
      rewrite PB. cbn [map app]. split; [exact A|]. split; [exact B|].
      rewrite C. cbn [rpops clear_pb]. unfold c'. rewrite deliver_d_rpops. unfold c0.
      destruct it as [k|]; cbn [C17_Typeahead.pop rpops add_pop ikeys]; [|reflexivity].
      change (k :: ikeys q) with ([k] ++ ikeys q). rewrite !nc_app, <- app_assoc. reflexivity.
    + assert (NR : not_run c) by (unfold not_run; congruence).
      destruct (pq_done_rpops (it :: q) c NR P0) as (A & B & C & D).
      cbn [C17_Typeahead.process_q] in A, B, C, D. rewrite PH in A, B, C, D.
      split; [intros X; exfalso; exact (D X)|]. split; [exact C|]. rewrite A, B. reflexivity.
    + cbn [fst snd]. auto.
Qed.

Definition Kq (s : sys) : Prop :=
  KBr (co s) /\ pb (co s) = [] /\ (at_ s <> Detached -> store s = []) /\ (at_ s = Detached -> queue s = []) /\
  nc (rpops (co s)) ++ nc (ikeys (store s)) ++ nc (ikeys (queue s)) = nc (decoded s).

Lemma Kq_pk (s : sys) : at_ s <> Detached -> Kq s -> Kq (pk s).
Proof.
  intros A (K & P0 & S0 & Q0 & C0). unfold C17_Typeahead.pk.
  destruct (pq_C (queue s) (co s) P0 K) as (A1 & A2 & A3).
  unfold Kq, with_co, with_queue; cbn [co at_ store queue decoded].
  split; [exact A1|]. split; [exact A2|]. split; [exact S0|]. split; [intros X; contradiction|].
  rewrite (S0 A) in *. cbn [ikeys nc filter app] in *. rewrite A3. exact C0.
Qed.

Lemma Kq_feed_keys p ks (s : sys) : at_ s <> Detached -> Kq s -> Kq (feed_keys p ks s).
Proof.
  intros A (K1 & K2 & K3 & K5 & K4). unfold C17_Typeahead.feed_keys. apply Kq_pk; [exact A|].
  unfold Kq; cbn [co at_ store queue decoded].
  split; [exact K1|]. split; [exact K2|]. split; [exact K3|]. split; [intros X; contradiction|].
  rewrite ikeys_app, ikeys_map, !nc_app, !app_assoc. rewrite <- K4, !app_assoc. reflexivity.
Qed.

Lemma Kq_finish r (s : sys) : Kq s -> Kq (finish r s).
Proof.
  intros (K & P0 & S0 & Q0 & C0). unfold Kq, C17_Typeahead.finish; cbn [co at_ store queue decoded].
  split; [exact K|]. split; [exact P0|]. split; [intros X; congruence|]. split; [reflexivity|].
  rewrite ikeys_app, nc_app, nc_ikeys_filter. cbn [ikeys nc filter]. rewrite app_nil_r. exact C0.
Qed.

Lemma Kq_do_read n (s : sys) : at_ s <> Detached -> Kq s -> Kq (do_read n s).
Proof.
  intros A K. unfold C17_Typeahead.do_read. cbv zeta. destruct (pipe s).
  - pose proof (Kq_pk s A K) as K'. destruct (wclosed s); [|exact K'].
    destruct (cph (co (pk s))) eqn:PC; [|exact K'|exact K'].
    destruct K' as (K1 & K2 & K3 & K5 & K4). unfold Kq, with_co; cbn [co at_ store queue decoded cph pb rpops set_cph].
    split; [intros X; cbn [cph set_cph] in X; discriminate|]. auto.
  - apply Kq_feed_keys; [exact A|].
    destruct K as (K1 & K2 & K3 & K5 & K4). unfold Kq; cbn [co at_ store queue decoded]. auto.
Qed.

Lemma Kq_step (s : sys) l : Kq s -> Kq (step s l).
Proof.
  intros K. pose proof K as (K1 & K2 & K3 & K5 & K4).
  unfold C17_Typeahead.step.
  destruct (cph (co s)) eqn:PH; destruct l; try exact K.
  all: try (destruct (wclosed s); exact K).
  all: try (destruct (at_ s) eqn:A; try exact K;
            try (apply Kq_do_read; [congruence|exact K]);
            try (destruct (wcpr (co s)); [exact K|apply Kq_do_read; [congruence|exact K]]);
            try (apply Kq_feed_keys; [congruence|exact K]);
            try (destruct (wcpr (co s)); [apply Kq_finish; exact K|exact K]);
            try (apply Kq_finish; exact K); fail).
  (* LFlushKeys x2, LStart x2, LExit *)
  all: try (destruct (at_ s) eqn:A; [exact K| |]; (destruct (kbuf (co s)); [exact K|]);
            (apply Kq_pk; [cbn [at_ with_queue]; congruence|]);
            unfold Kq, with_queue; cbn [co at_ store queue decoded]; rewrite A;
            (split; [exact K1|]); (split; [exact K2|]); (split; [exact K3|]); (split; [intros X; congruence|]);
            rewrite ikeys_app; cbn [ikeys]; rewrite app_nil_r; exact K4).
  all: try (destruct (at_ s) eqn:A; [|exact K|exact K];
            apply Kq_pk; [cbn [at_]; congruence|];
            unfold Kq; cbn [co at_ store queue decoded rpops pb];
            (split; [intros _; left; reflexivity|]); (split; [exact K2|]); (split; [reflexivity|]); (split; [intros X; congruence|]);
            rewrite (K5 eq_refl) in K4; cbn [ikeys nc filter app] in *; rewrite app_nil_r in K4; exact K4).
  - destruct (at_ s) eqn:A; [exact K| |exact K].
    destruct (rcpr s && negb (Nat.eqb (wcpr (co s)) 0)); [|apply Kq_finish; exact K].
    unfold Kq; cbn [co at_ store queue decoded].
    split; [exact K1|]. split; [exact K2|]. split; [intros _; apply K3; congruence|]. split; [intros X; congruence|exact K4].
Qed.

Lemma Kq_run ls : forall s : sys, Kq s -> Kq (run ls s).
Proof.
  induction ls as [|l ls IH]; intros s K; [exact K|]. cbn [C17_Typeahead.run fold_left].
  apply IH. apply Kq_step. exact K.
Qed.

Lemma queue_conservation ls e p r :
  let s := run ls (@init E bid res PS e p r) in
  nc (rpops (co s)) ++ nc (ikeys (store s)) ++ nc (ikeys (queue s)) = nc (decoded s) /\ pb (co s) = [].
Proof.
  intros s. destruct (Kq_run ls (@init E bid res PS e p r)) as (_ & P & _ & _ & C); [|auto].
  unfold Kq, init, init_core; cbn. split; [intros _; left; reflexivity|]. split; [reflexivity|].
  split; [intros X; congruence|]. split; reflexivity.
Qed.

(* ---------------------------------------------------------------------- *)
(* scripts *)

Definition runline (c : core) (l : list kp) : core := fold_left (fun c k => deliver_d (IKey k) c) l c.

Inductive lines_ok : E -> list (list kp) -> list res -> Prop :=
| LO_nil e : lines_ok e [] []
| LO_cons e l ls r rs :
    (forall p q, l = p ++ q -> q <> [] -> cph (runline (fresh e) p) = CRun res) ->
    cph (runline (fresh e) l) = CDone r ->
    lines_ok (restart (est (runline (fresh e) l))) ls rs ->
    lines_ok e (l :: ls) (r :: rs).

Lemma ref_line l : forall (c : core) rs0, cph c = CRun res ->
  (forall p q, l = p ++ q -> q <> [] -> cph (runline c p) = CRun res) ->
  ref l (rs0, c) = absc rs0 (runline c l).
Proof.
  induction l as [|k l IH]; intros c rs0 PH H.
  - cbn [ref runline fold_left]. unfold absc. rewrite PH. reflexivity.
  - cbn [ref runline fold_left snd fst].
    destruct (cph (deliver_d (IKey k) c)) eqn:P1.
    + apply IH; [exact P1|]. intros p q EQ NE. apply (H (k :: p) q); [cbn [app]; rewrite EQ; reflexivity|exact NE].
    + destruct l as [|k2 l2].
      * cbn [ref fold_left]. unfold absc. rewrite P1. reflexivity.
      * exfalso. pose proof (H [k] (k2 :: l2) eq_refl ltac:(discriminate)) as X.
        cbn [runline fold_left] in X. congruence.
    + destruct l as [|k2 l2].
      * cbn [ref fold_left]. unfold absc. rewrite P1. reflexivity.
      * exfalso. pose proof (H [k] (k2 :: l2) eq_refl ltac:(discriminate)) as X.
        cbn [runline fold_left] in X. congruence.
Qed.

Lemma ref_lines e lines rs : lines_ok e lines rs ->
  forall K tail rs0, K ++ tail = concat lines ->
  exists n, fst (ref K (rs0, fresh e)) = rs0 ++ firstn n rs.
Proof.
  induction 1 as [e|e l ls r rs H1 H2 H3 IH]; intros K tail rs0 EQ.
  - cbn [concat] in EQ. apply app_eq_nil in EQ. destruct EQ as [-> _]. exists O. cbn. now rewrite app_nil_r.
  - cbn [concat] in EQ. apply app_eq_app in EQ. destruct EQ as (m & [[EK ET]|[EL ET]]).
    + (* the whole first line has been fed *)
      subst K. rewrite ref_app, (ref_line l (fresh e) rs0 eq_refl H1). unfold absc. rewrite H2.
      destruct (IH m tail (rs0 ++ [r]) (eq_sym ET)) as (n & Hn). exists (S n).
      rewrite Hn, <- app_assoc. reflexivity.
    + destruct m as [|k0 m].
      * rewrite app_nil_r in EL. subst K. rewrite (ref_line l (fresh e) rs0 eq_refl H1). unfold absc. rewrite H2.
        exists 1%nat. reflexivity.
      * rewrite (ref_line K (fresh e) rs0 eq_refl).
        -- unfold absc. rewrite (H1 K (k0 :: m) EL ltac:(discriminate)). exists O. cbn. now rewrite app_nil_r.
        -- intros p q EQ NE. apply (H1 p (q ++ k0 :: m)); [rewrite EL, EQ, <- app_assoc; reflexivity|].
           destruct q; [contradiction|discriminate].
Qed.

Lemma abs_results (s : sys) : exists x, fst (abs s) = results s ++ x.
Proof.
  unfold abs, absc. destruct (at_ s); [exists []; cbn; now rewrite app_nil_r| |];
    (destruct (cph (co s)); [exists []; cbn; now rewrite app_nil_r|eexists; reflexivity|exists []; cbn; now rewrite app_nil_r]).
Qed.

Lemma firstn_prefix {T} (a x rs : list T) n : a ++ x = firstn n rs -> a = firstn (length a) rs.
Proof.
  revert rs n. induction a as [|y a IH]; intros rs n H; [reflexivity|].
  destruct n; [discriminate|]. destruct rs as [|z rs]; [discriminate|].
  cbn [firstn app length] in *. inversion H; subst. f_equal. eapply IH. eassumption.
Qed.

Lemma script ls e p r lines rs :
  quiet ls ->
  let s := run ls (@init E bid res PS e p r) in
  lines_ok (restart e) lines rs ->
  (exists tail, nc (decoded s) ++ tail = concat lines) ->
  results s = firstn (length (results s)) rs.
Proof.
  intros Q s LO (tail & T).
  destruct (run_R e ls (@init E bid res PS e p r) Q (Js_init E bid res PS e p r)) as (RR & KK).
  { unfold Ks, init, init_core; cbn. split; [intros _; left; reflexivity|]. split; [reflexivity|]. split; [intros X; congruence|reflexivity]. }
  { unfold R, abs, init; cbn. apply st_eq_refl. }
  fold s in RR, KK. destruct KK as (_ & _ & _ & CONS).
  rewrite <- CONS, <- app_assoc in T.
  destruct (ref_lines (restart e) lines rs LO _ _ [] T) as (n & Hn).
  destruct RR as [R1 _]. rewrite R1 in Hn. cbn [app] in Hn.
  destruct (abs_results s) as (x & X). rewrite X in Hn.
  eapply firstn_prefix. exact Hn.
Qed.

(* ---------------------------------------------------------------------- *)
(* Handler-level conservation with FEEDING handlers, for every label sequence
   (flush timeouts and close included): the key presses that reached handlers,
   were dropped or were thrown out of the key buffer by a reset ++ the key
   buffer are an interleaving of the key presses popped from input_queue (in
   order) and the key presses handlers fed with first=True (each exactly once).
   Together with queue_conservation: decoded -> popped -> handled, nothing
   lost, duplicated or reordered; the only extra key presses are the fed ones. *)

Lemma tl_all_app a b : tl_all (a ++ b) = tl_all a ++ tl_all b.
Proof. unfold tl_all. apply map_app. Qed.
Lemma tl_pop_app a b : tl_pop (a ++ b) = tl_pop a ++ tl_pop b.
Proof. unfold tl_pop. rewrite filter_app. apply map_app. Qed.
Lemma tl_fed_app a b : tl_fed (a ++ b) = tl_fed a ++ tl_fed b.
Proof. unfold tl_fed. rewrite filter_app. apply map_app. Qed.
Lemma tl_tag_all b l : tl_all (map (pair b) l) = l.
Proof. unfold tl_all. rewrite map_map. cbn [snd]. apply map_id. Qed.
Lemma tl_pop_false l : tl_pop (map (pair false) l) = l.
Proof. unfold tl_pop. induction l as [|x l IH]; [reflexivity|]. cbn [map filter fst negb snd] in *. rewrite IH. reflexivity. Qed.
Lemma tl_pop_true l : tl_pop (map (pair true) l) = [].
Proof. unfold tl_pop. induction l as [|x l IH]; [reflexivity|]. cbn [map filter fst negb snd] in *. exact IH. Qed.
Lemma tl_fed_false l : tl_fed (map (pair false) l) = [].
Proof. unfold tl_fed. induction l as [|x l IH]; [reflexivity|]. cbn [map filter fst snd] in *. exact IH. Qed.
Lemma tl_fed_true l : tl_fed (map (pair true) l) = l.
Proof. unfold tl_fed. induction l as [|x l IH]; [reflexivity|]. cbn [map filter fst snd] in *. rewrite IH. reflexivity. Qed.

Lemma nc_nil : nc [] = [].
Proof. reflexivity. Qed.

Notation handled := (@handled E bid res).
Definition hA (c : core) : list kp := handled c ++ kbuf c.

Lemma handled_add_ev (e : ev bid) (c : core) : handled (add_ev e c) = handled c ++ hev_keys e.
Proof.
  unfold C17_Typeahead.handled, add_ev; cbn [rlog rev].
  rewrite map_app, concat_app; cbn [map concat]. now rewrite app_nil_r.
Qed.

Lemma handled_call b ks (c : core) : handled (call b ks c) = handled c ++ ks.
Proof.
  unfold C17_Typeahead.handled, C17_Typeahead.call; cbn [rlog rev].
  rewrite map_app, concat_app; cbn [map concat hev_keys ev_keys]. now rewrite app_nil_r.
Qed.

(* one activation: what it did to the log, the key buffer, the push-back list and the fed list *)
Definition LA (c c' : core) : Prop :=
  exists K F G, pb c' = K ++ F ++ pb c /\
    handled c' ++ kbuf c' ++ K = handled c ++ kbuf c /\
    fedl c' = fedl c ++ G /\ Permutation G F /\
    (cph c' = CRun res -> K = []).

Lemma LA_refl (c : core) : LA c c.
Proof. exists [], [], []. cbn [app]. rewrite !app_nil_r. auto 6. Qed.

Lemma LA_same (c c2 c' : core) :
  pb c2 = pb c -> handled c2 = handled c -> kbuf c2 = kbuf c -> fedl c2 = fedl c -> LA c2 c' -> LA c c'.
Proof. intros H1 H2 H3 H4 (K & F & G & A & B & C & D). exists K, F, G. rewrite <- H1, <- H2, <- H3, <- H4. auto. Qed.

Lemma LA_retry f (c c1 : core) F1 G1 :
  (forall fl x, LA x (loop f fl x)) ->
  pb c1 = F1 ++ pb c -> handled c1 ++ kbuf c1 = handled c ++ kbuf c ->
  fedl c1 = fedl c ++ G1 -> Permutation G1 F1 ->
  LA c (retry (loop f false) c1).
Proof.
  intros IH P1 A1 D1 PM. unfold retry. destruct (late c1) eqn:LT.
  - exists (kbuf c1), F1, G1. cbn [pb kbuf cph fedl push_back].
    change (handled (push_back c1)) with (handled c1). rewrite P1. cbn [app].
    split; [reflexivity|]. split; [exact A1|]. split; [exact D1|]. split; [exact PM|].
    intros X. unfold late in LT. rewrite X in LT. discriminate.
  - destruct (IH false c1) as (K & F & G & A & B & C & D & Z).
    exists K, (F ++ F1), (G1 ++ G). rewrite A, P1, B, A1, C, D1, <- !app_assoc.
    split; [reflexivity|]. split; [reflexivity|]. split; [reflexivity|]. split; [|exact Z].
    eapply Permutation_trans; [apply Permutation_app_comm|]. apply Permutation_app; assumption.
Qed.

Lemma loop_LA fuel : forall fl (c : core), LA c (loop fuel fl c).
Proof.
  induction fuel as [|f IH]; intros fl c; cbn [C17_Typeahead.loop].
  - destruct (kbuf c) eqn:KBE; [apply LA_refl|].
    eapply LA_same with (c2 := set_oof c); [reflexivity|reflexivity|reflexivity|reflexivity|].
    replace (set_oof c) with (set_oof c) by reflexivity. apply LA_refl.
  - destruct (kbuf c) as [|k0 tl0] eqn:KBE; [apply LA_refl|].
    assert (X : forall b, LA c (set_kbuf [] (call b (k0 :: tl0) c))).
    { intros b. exists [], (feeds b (k0 :: tl0) (est c)), (feeds b (k0 :: tl0) (est c)).
      cbn [pb kbuf fedl set_kbuf C17_Typeahead.call app].
      change (handled (set_kbuf [] (call b (k0 :: tl0) c))) with (handled (call b (k0 :: tl0) c)).
      rewrite handled_call, KBE, !app_nil_r. auto 6. }
    assert (Y : forall b i, LA c (retry (loop f false) (set_kbuf (skipn i (k0 :: tl0)) (call b (firstn i (k0 :: tl0)) c)))).
    { intros b i. apply LA_retry with (F1 := feeds b (firstn i (k0 :: tl0)) (est c)) (G1 := feeds b (firstn i (k0 :: tl0)) (est c)).
      - exact IH.
      - reflexivity.
      - cbn [kbuf set_kbuf].
        change (handled (set_kbuf (skipn i (k0 :: tl0)) (call b (firstn i (k0 :: tl0)) c))) with (handled (call b (firstn i (k0 :: tl0)) c)).
        rewrite handled_call, KBE, <- app_assoc, firstn_skipn. reflexivity.
      - reflexivity.
      - apply Permutation_refl. }
    assert (Z : LA c (retry (loop f false) (set_kbuf tl0 (add_ev (@EDrop bid (late c) k0) c)))).
    { apply LA_retry with (F1 := []) (G1 := []).
      - exact IH.
      - reflexivity.
      - cbn [kbuf set_kbuf].
        change (handled (set_kbuf tl0 (add_ev (@EDrop bid (late c) k0) c))) with (handled (add_ev (@EDrop bid (late c) k0) c)).
        rewrite handled_add_ev, KBE, <- app_assoc. reflexivity.
      - cbn [fedl set_kbuf add_ev]. rewrite app_nil_r. reflexivity.
      - apply Permutation_refl. }
    destruct (cph c) eqn:PH; [| |apply LA_refl].
    + destruct (negb fl && waits (est c) (k0 :: tl0)); [apply LA_refl|].
      destruct (lookup (est c) (k0 :: tl0)) as [b|]; [apply X|].
      destruct (scan (length (k0 :: tl0)) c) as [[b i]|]; [apply Y|apply Z].
    + destruct (negb fl && waits (est c) (k0 :: tl0)); [apply LA_refl|].
      destruct (lookup (est c) (k0 :: tl0)) as [b|]; [apply X|].
      destruct (scan (length (k0 :: tl0)) c) as [[b i]|]; [apply Y|apply Z].
Qed.

(* delivering one item from a state with nothing waiting to be pushed back *)
Lemma deliver_A it (c : core) : pb c = [] ->
  exists K F G, pb (deliver it c) = K ++ F /\
    nc (hA (deliver it c)) ++ nc K = nc (hA c) ++ nc (ikeys [it]) /\
    fedl (deliver it c) = fedl c ++ G /\ Permutation G F /\
    (cph (deliver it c) = CRun res -> K = []).
Proof.
  intros P0. destruct it as [k|]; cbn [C17_Typeahead.deliver ikeys].
  - destruct (is_cpr k) eqn:CK.
    + exists [], [], []. unfold C17_Typeahead.handle_cpr.
      destruct (cpr_lookup (est c)) as [b|] eqn:L.
      * destruct (Hsil (est c) b L [k] (est c)) as (HE & HF).
        unfold hA. rewrite handled_call. unfold C17_Typeahead.call; cbn [pb kbuf fedl]. rewrite HF, P0.
        rewrite !nc_app, (nc_cpr k CK). cbn [app nc filter]. rewrite !app_nil_r. auto 6.
      * rewrite P0, (nc_cpr k CK). cbn [app nc filter]. rewrite !app_nil_r. auto 6.
    + unfold C17_Typeahead.send.
      destruct (loop_LA (S (S (length (kbuf c)))) false (set_kbuf (kbuf c ++ [k]) c)) as (K & F & G & A & B & C & D & Z).
      exists K, F, G. cbn [pb kbuf fedl set_kbuf] in A, B, C.
      change (handled (set_kbuf (kbuf c ++ [k]) c)) with (handled c) in B.
      rewrite P0, app_nil_r in A. split; [exact A|]. split; [|auto].
      unfold hA. rewrite <- !nc_app, <- app_assoc, B, <- !app_assoc. reflexivity.
  - unfold C17_Typeahead.send.
    destruct (loop_LA (S (length (kbuf c))) true c) as (K & F & G & A & B & C & D & Z).
    exists K, F, G. rewrite P0, app_nil_r in A. split; [exact A|]. split; [|auto].
    unfold hA. rewrite <- !nc_app, <- app_assoc, B. cbn [nc filter]. rewrite !app_nil_r. reflexivity.
Qed.

Lemma loop_deep_g fuel : forall fl (c : core), deep (loop fuel fl c) = deep c.
Proof.
  induction fuel as [|f IH]; intros fl c; cbn [C17_Typeahead.loop].
  - destruct (kbuf c); reflexivity.
  - destruct (kbuf c) as [|k0 tl0]; [reflexivity|].
    assert (R0 : forall c1 : core, deep c1 = deep c -> deep (retry (loop f false) c1) = deep c).
    { intros c1 H. unfold retry. destruct (late c1); [exact H|rewrite IH; exact H]. }
    destruct (cph c); [| |reflexivity].
    + destruct (negb fl && waits (est c) (k0 :: tl0)); [reflexivity|].
      destruct (lookup (est c) (k0 :: tl0)); [reflexivity|].
      destruct (scan (length (k0 :: tl0)) c) as [[x i]|]; apply R0; reflexivity.
    + destruct (negb fl && waits (est c) (k0 :: tl0)); [reflexivity|].
      destruct (lookup (est c) (k0 :: tl0)); [reflexivity|].
      destruct (scan (length (k0 :: tl0)) c) as [[x i]|]; apply R0; reflexivity.
Qed.

Lemma deliver_deep_g it (c : core) : deep (deliver it c) = deep c.
Proof.
  destruct it as [k|]; cbn [C17_Typeahead.deliver]; [|unfold C17_Typeahead.send; rewrite loop_deep_g; reflexivity].
  destruct (is_cpr k); [|unfold C17_Typeahead.send; rewrite loop_deep_g; reflexivity].
  unfold C17_Typeahead.handle_cpr. destruct (cpr_lookup (est c)); reflexivity.
Qed.

Lemma perm_nil_r (G : list kp) : Permutation G [] -> G = [].
Proof. intros H. apply Permutation_sym in H. apply Permutation_nil in H. exact H. Qed.

(* the keys a handler fed, delivered one after the other: when the model did
   not give up ([deep]) and nothing is left to be pushed back, every one of
   them went through the processor and none of their handlers fed again *)
Lemma drain_A l : forall c : core, pb c = [] -> deep c = false -> deep (drain l c) = false -> pb (drain l c) = [] ->
  nc (hA (drain l c)) = nc (hA c) ++ nc l /\ fedl (drain l c) = fedl c.
Proof.
  induction l as [|k l IH]; intros c P0 D0 D1 P1; cbn [C17_Typeahead.drain] in *.
  - rewrite nc_nil, app_nil_r. auto.
  - destruct (deliver_A (IKey k) c P0) as (K & F & G & A & B & C & D & Z).
    pose proof (deliver_deep_g (IKey k) c) as DD.
    cbn [ikeys] in B.
    destruct (cph (deliver (IKey k) c)) eqn:PC.
    + rewrite (Z eq_refl) in *. cbn [app] in A. rewrite nc_nil, app_nil_r in B.
      destruct (pb (deliver (IKey k) c)) eqn:PB.
      * subst F. apply perm_nil_r in D. subst G. rewrite app_nil_r in C.
        destruct (IH (deliver (IKey k) c) PB ltac:(congruence) D1 P1) as (I1 & I2).
        rewrite I1, I2, B, C, <- app_assoc, <- nc_app. auto.
      * cbn [deep set_deep] in D1. discriminate.
    + cbn [pb set_pb] in P1. apply app_eq_nil in P1. destruct P1 as [P1 P2]. subst l.
      rewrite P1 in A. symmetry in A. apply app_eq_nil in A. destruct A as [-> ->].
      apply perm_nil_r in D. subst G. rewrite app_nil_r in C. rewrite nc_nil, app_nil_r in B.
      cbn [fedl set_pb]. change (hA (set_pb (pb (deliver (IKey k) c) ++ []) (deliver (IKey k) c))) with (hA (deliver (IKey k) c)).
      rewrite B. auto.
    + cbn [pb set_pb] in P1. apply app_eq_nil in P1. destruct P1 as [P1 P2]. subst l.
      rewrite P1 in A. symmetry in A. apply app_eq_nil in A. destruct A as [-> ->].
      apply perm_nil_r in D. subst G. rewrite app_nil_r in C. rewrite nc_nil, app_nil_r in B.
      cbn [fedl set_pb]. change (hA (set_pb (pb (deliver (IKey k) c) ++ []) (deliver (IKey k) c))) with (hA (deliver (IKey k) c)).
      rewrite B. auto.
Qed.

(* the model follows one level of feeding; binding sets for which that is
   enough (proved for the real table: d_no_deep) *)
Definition no_deep : Prop :=
  forall (c : core) it, cph c = CRun res -> pb c = [] -> KB c -> deep (deliver_d it c) = deep c.

Hypothesis Hnd : no_deep.

Lemma dd_A it (c : core) : cph c = CRun res -> pb c = [] -> KB c -> deep c = false ->
  exists dl G, nc (hA (deliver_d it c)) = nc (hA c) ++ nc (ikeys [it]) ++ nc dl /\
    fedl (deliver_d it c) = fedl c ++ G /\ Permutation G dl /\
    pb (deliver_d it c) = [] /\ deep (deliver_d it c) = false.
Proof.
  intros PH P0 K0 D0.
  assert (PB : pb (deliver_d it c) = []).
  { destruct (cph (deliver_d it c)) eqn:PC; [apply (@deliver_d_pb_run E bid res lookup lookup_scan waits eff is_cprh cpr_lookup feeds); exact PC| |];
      (apply Hnp; [exact PH|exact P0|exact K0|congruence]). }
  assert (DP : deep (deliver_d it c) = false) by (rewrite (Hnd c it PH P0 K0); exact D0).
  revert PB DP. unfold C17_Typeahead.deliver_d.
  destruct (deliver_A it c P0) as (K & F & G & A & B & C & D & Z).
  destruct (cph (deliver it c)) eqn:PC.
  - intros PB DP. rewrite (Z eq_refl) in *. cbn [app] in A. rewrite nc_nil, app_nil_r in B. rewrite A in *.
    destruct (drain_A F (clear_pb (deliver it c)) eq_refl) as (I1 & I2); [|exact DP|exact PB|].
    { cbn [deep clear_pb]. rewrite deliver_deep_g. exact D0. }
    exists F, G. change (hA (clear_pb (deliver it c))) with (hA (deliver it c)) in I1. cbn [fedl clear_pb] in I2.
    rewrite I1, I2, B, <- app_assoc. auto 6.
  - intros PB DP. rewrite PB in A. symmetry in A. apply app_eq_nil in A. destruct A as [-> ->].
    apply perm_nil_r in D. subst G. rewrite nc_nil, app_nil_r in B.
    exists [], []. rewrite nc_nil, !app_nil_r. rewrite app_nil_r in C. split; [exact B|]. split; [exact C|]. split; [constructor|]. auto.
  - intros PB DP. rewrite PB in A. symmetry in A. apply app_eq_nil in A. destruct A as [-> ->].
    apply perm_nil_r in D. subst G. rewrite nc_nil, app_nil_r in B.
    exists [], []. rewrite nc_nil, !app_nil_r. rewrite app_nil_r in C. split; [exact B|]. split; [exact C|]. split; [constructor|]. auto.
Qed.

(* the handler-level invariant of the key processor *)
Definition Hc (c : core) : Prop :=
  exists t, nc (tl_all t) = nc (hA c) /\ nc (tl_pop t) = nc (rpops c) /\ Permutation (tl_fed t) (fedl c).
Definition Pc (c : core) : Prop := deep c = false /\ Hc c.

Lemma Pc_same (c c' : core) :
  rlog c' = rlog c -> kbuf c' = kbuf c -> rpops c' = rpops c -> fedl c' = fedl c -> deep c' = deep c -> Pc c -> Pc c'.
Proof.
  intros H1 H2 H3 H4 H5 (D & t & A & B & C). split; [congruence|]. exists t.
  unfold hA, C17_Typeahead.handled in *. rewrite H1, H2, H3, H4. auto.
Qed.

Lemma pq_H q : forall c : core, pb c = [] -> KBr c -> Pc c -> Pc (fst (process_q q c)).
Proof.
  induction q as [|it q IH]; intros c P0 K HP; cbn [C17_Typeahead.process_q]; [exact HP|].
  destruct (cph c) eqn:PH.
  - cbn [fst].
    set (c0 := pop it c).
    assert (C0 : core_eq c0 c) by (unfold core_eq, c0; destruct it; cbn; auto).
    assert (PH0 : cph c0 = CRun res) by (destruct C0 as (_ & _ & X & _); congruence).
    assert (P00 : pb c0 = []) by (destruct C0 as (_ & _ & _ & X); congruence).
    assert (K0 : KB c0) by (apply (KBr_congr c c0 (core_eq_sym _ _ C0) K); exact PH0).
    destruct HP as (D0 & t & T1 & T2 & T3).
    assert (D00 : deep c0 = false) by (unfold c0; destruct it; exact D0).
    destruct (dd_A it c0 PH0 P00 K0 D00) as (dl & G & A & B & C & PB & DP).
    apply IH; [reflexivity| |].
    + intros X. cbn [cph clear_pb] in X. exact (deliver_d_KB it c0 K0 X).
    + split; [exact DP|].
      exists (t ++ map (pair false) (ikeys [it]) ++ map (pair true) dl).
      change (hA (clear_pb (deliver_d it c0))) with (hA (deliver_d it c0)). cbn [rpops fedl clear_pb].
      rewrite !tl_all_app, !tl_pop_app, !tl_fed_app, !tl_tag_all, tl_pop_false, tl_pop_true, tl_fed_false, tl_fed_true.
      rewrite app_nil_r. cbn [app]. rewrite !nc_app, T1, T2, A, B, deliver_d_rpops.
      assert (HA0 : hA c0 = hA c) by (unfold c0; destruct it; reflexivity).
      assert (RP0 : rpops c0 = rpops c ++ ikeys [it]) by (unfold c0; destruct it; cbn [C17_Typeahead.pop rpops add_pop ikeys]; rewrite ?app_nil_r; reflexivity).
      assert (FD0 : fedl c0 = fedl c) by (unfold c0; destruct it; reflexivity).
      rewrite HA0, RP0, FD0, nc_app. split; [reflexivity|]. split; [reflexivity|].
      apply Permutation_app; [exact T3|apply Permutation_sym; exact C].
  - destruct (item_is_cpr it) eqn:CI; cbn [fst]; [|apply IH; assumption].
    destruct it as [k|]; [|discriminate]. cbn [item_is_cpr] in CI.
    set (c0 := pop (IKey k) c).
    assert (P00 : pb c0 = []) by exact P0.
    destruct (deliver_A (IKey k) c0 P00) as (K1 & F & G & A & B & C & D & Z).
    assert (E4 : pb (deliver (IKey k) c0) = []).
    { cbn [C17_Typeahead.deliver]. rewrite CI. destruct (handle_cpr_core_eq k c0) as (_ & _ & _ & X). rewrite X. exact P00. }
    assert (E3 : cph (deliver (IKey k) c0) = cph c).
    { cbn [C17_Typeahead.deliver]. rewrite CI. destruct (handle_cpr_core_eq k c0) as (_ & _ & X & _). rewrite X. reflexivity. }
    rewrite E4 in A. symmetry in A. apply app_eq_nil in A. destruct A as [-> ->].
    apply perm_nil_r in D. subst G. cbn [ikeys] in B. rewrite (nc_cpr k CI) in B. rewrite nc_nil in B. rewrite !app_nil_r in B, C.
    apply IH; [reflexivity| |].
    + intros X. cbn [cph clear_pb] in X. rewrite E3, PH in X. discriminate.
    + destruct HP as (D0 & t & T1 & T2 & T3). split.
      * cbn [deep clear_pb]. rewrite deliver_deep_g. exact D0.
      * exists t. change (hA (clear_pb (deliver (IKey k) c0))) with (hA (deliver (IKey k) c0)). cbn [rpops fedl clear_pb].
        rewrite B, C, deliver_rpops. unfold c0. cbn [C17_Typeahead.pop rpops add_pop fedl].
        change (hA (add_pop k c)) with (hA c). rewrite nc_app, (nc_cpr k CI), !app_nil_r. auto.
  - exact HP.
Qed.

Lemma Pc_do_read n (s : sys) : pb (co s) = [] -> KBr (co s) -> Pc (co s) -> Pc (co (do_read n s)).
Proof.
  intros P0 K HP. unfold C17_Typeahead.do_read. cbv zeta. destruct (pipe s).
  - assert (X : Pc (co (pk s))) by (unfold C17_Typeahead.pk; cbn [co with_co with_queue]; apply pq_H; assumption).
    destruct (wclosed s); [|exact X].
    destruct (cph (co (pk s))); [|exact X|exact X].
    cbn [co with_co]. eapply Pc_same; [| | | | |exact X]; reflexivity.
  - unfold C17_Typeahead.feed_keys, C17_Typeahead.pk; cbn [co queue with_co with_queue]. apply pq_H; assumption.
Qed.

Lemma Pc_step (s : sys) l : Kq s -> Pc (co s) -> Pc (co (step s l)).
Proof.
  intros (K & P0 & _) HP.
  assert (PQ : forall q, Pc (fst (process_q q (co s)))) by (intros q; apply pq_H; assumption).
  unfold C17_Typeahead.step.
  destruct (cph (co s)) eqn:PH; destruct l; try exact HP.
  all: try (destruct (wclosed s); exact HP).
  all: try (destruct (at_ s) eqn:A; try exact HP;
            try (apply Pc_do_read; assumption);
            try (destruct (wcpr (co s)); [exact HP|apply Pc_do_read; assumption]);
            try (unfold C17_Typeahead.feed_keys, C17_Typeahead.pk; cbn [co queue with_co with_queue]; apply PQ);
            try (destruct (wcpr (co s)); exact HP);
            try (destruct (kbuf (co s)); [exact HP|]; unfold C17_Typeahead.pk; cbn [co queue with_co with_queue]; apply PQ);
            try (destruct (rcpr s && negb (Nat.eqb (wcpr (co s)) 0)); exact HP);
            fail).
  (* LStart, twice *)
  all: destruct (at_ s) eqn:A; [|exact HP|exact HP];
       unfold C17_Typeahead.pk; cbn [co queue with_co with_queue]; apply pq_H;
       [exact P0|intros _; left; reflexivity|];
       destruct HP as (D0 & t & T1 & T2 & T3); (split; [exact D0|]); exists t;
       cbn [rpops fedl]; (split; [|auto]); rewrite T1; unfold hA, C17_Typeahead.handled; cbn [rlog kbuf];
       destruct (kbuf (co s)), (queue s); cbn [rev map concat hev_keys ev_keys app];
       rewrite ?map_app, ?concat_app; cbn [map concat hev_keys ev_keys app]; rewrite ?app_nil_r, <- ?app_assoc; reflexivity.
Qed.

Lemma Pc_run ls : forall s : sys, Kq s -> Pc (co s) -> Pc (co (run ls s)).
Proof.
  induction ls as [|l ls IH]; intros s K HP; [exact HP|]. cbn [C17_Typeahead.run fold_left].
  apply IH; [apply Kq_step; exact K|apply Pc_step; assumption].
Qed.

Lemma handler_conservation ls e p r :
  let s := run ls (@init E bid res PS e p r) in
  deep (co s) = false /\
  exists t, nc (tl_all t) = nc (handled (co s)) ++ nc (kbuf (co s)) /\
            nc (tl_pop t) = nc (rpops (co s)) /\ Permutation (tl_fed t) (fedl (co s)).
Proof.
  intros s.
  destruct (Pc_run ls (@init E bid res PS e p r)) as (D & t & A & B & C).
  - unfold Kq, init, init_core; cbn. split; [intros _; left; reflexivity|]. split; [reflexivity|].
    split; [intros X; congruence|]. split; reflexivity.
  - split; [reflexivity|]. exists []. cbn. auto.
  - split; [exact D|]. exists t. unfold hA in A. rewrite nc_app in A. auto.
Qed.

(* ---------------------------------------------------------------------- *)
(* every key press in the fed list came out of [feeds]: a property of all
   key presses handlers can feed holds of the whole list, on every run *)
Section Fed.
Variable Pk : kp -> Prop.
Hypothesis Hfeeds : forall b ks e, Forall Pk (feeds b ks e).

Definition Fc (c : core) : Prop := Forall Pk (fedl c).

Lemma Fc_call b ks (c : core) : Fc c -> Fc (call b ks c).
Proof. intros H. unfold Fc, C17_Typeahead.call; cbn [fedl]. apply Forall_app; split; [exact H|apply Hfeeds]. Qed.

Lemma Fc_retry (k : core -> core) (c1 : core) : (forall c, Fc c -> Fc (k c)) -> Fc c1 -> Fc (retry k c1).
Proof. intros HK H. unfold retry. destruct (late c1); [exact H|apply HK; exact H]. Qed.

Lemma Fc_loop fuel : forall fl (c : core), Fc c -> Fc (loop fuel fl c).
Proof.
  induction fuel as [|f IH]; intros fl c H; cbn [C17_Typeahead.loop].
  - destruct (kbuf c); exact H.
  - destruct (kbuf c) as [|k0 tl0] eqn:KBE; [exact H|].
    assert (X : forall b, Fc (set_kbuf [] (call b (k0 :: tl0) c))) by (intros b; exact (Fc_call b _ c H)).
    assert (Y : forall b i, Fc (retry (loop f false) (set_kbuf (skipn i (k0 :: tl0)) (call b (firstn i (k0 :: tl0)) c)))).
    { intros b i. apply Fc_retry; [intros; apply IH; assumption|]. exact (Fc_call b _ c H). }
    assert (Z : Fc (retry (loop f false) (set_kbuf tl0 (add_ev (@EDrop bid (late c) k0) c)))).
    { apply Fc_retry; [intros; apply IH; assumption|]. exact H. }
    destruct (cph c); [| |exact H].
    + destruct (negb fl && waits (est c) (k0 :: tl0)); [exact H|].
      destruct (lookup (est c) (k0 :: tl0)) as [b|]; [apply X|].
      destruct (scan (length (k0 :: tl0)) c) as [[b i]|]; [apply Y|apply Z].
    + destruct (negb fl && waits (est c) (k0 :: tl0)); [exact H|].
      destruct (lookup (est c) (k0 :: tl0)) as [b|]; [apply X|].
      destruct (scan (length (k0 :: tl0)) c) as [[b i]|]; [apply Y|apply Z].
Qed.

Lemma Fc_deliver it (c : core) : Fc c -> Fc (deliver it c).
Proof.
  intros H. destruct it as [k|]; cbn [C17_Typeahead.deliver].
  - destruct (is_cpr k).
    + unfold C17_Typeahead.handle_cpr. destruct (cpr_lookup (est c)) as [b|]; [apply Fc_call|]; exact H.
    + unfold C17_Typeahead.send. apply Fc_loop. exact H.
  - unfold C17_Typeahead.send. apply Fc_loop. exact H.
Qed.

Lemma Fc_drain l : forall c : core, Fc c -> Fc (drain l c).
Proof.
  induction l as [|k l IH]; intros c H; cbn [C17_Typeahead.drain]; [exact H|].
  pose proof (Fc_deliver (IKey k) c H) as H'.
  destruct (cph (deliver (IKey k) c)); [|exact H'|exact H'].
  destruct (pb (deliver (IKey k) c)); [apply IH; exact H'|exact H'].
Qed.

Lemma Fc_deliver_d it (c : core) : Fc c -> Fc (deliver_d it c).
Proof.
  intros H. unfold C17_Typeahead.deliver_d. pose proof (Fc_deliver it c H) as H'.
  destruct (cph (deliver it c)); [|exact H'|exact H']. apply Fc_drain. exact H'.
Qed.

Lemma Fc_process_q q : forall c : core, Fc c -> Fc (fst (process_q q c)).
Proof.
  induction q as [|it q IH]; intros c H; cbn [C17_Typeahead.process_q]; [exact H|].
  destruct (cph c); [| |exact H].
  - cbn [fst]. apply IH. apply (Fc_deliver_d it). destruct it; exact H.
  - destruct (item_is_cpr it); cbn [fst]; apply IH; [|exact H]. apply (Fc_deliver it). destruct it; exact H.
Qed.

Lemma Fc_pk (s : sys) : Fc (co s) -> Fc (co (pk s)).
Proof. intros H. unfold C17_Typeahead.pk; cbn [co with_co]. apply Fc_process_q. exact H. Qed.

Lemma Fc_step (s : sys) l : Fc (co s) -> Fc (co (step s l)).
Proof.
  intros H. unfold C17_Typeahead.step.
  destruct (cph (co s)) eqn:PH; destruct l; try exact H.
  all: try (destruct (wclosed s); exact H).
  all: try (destruct (at_ s); try exact H;
            try (destruct (wcpr (co s)); try exact H);
            try (unfold C17_Typeahead.do_read; cbv zeta; destruct (pipe s);
                 [destruct (wclosed s); [destruct (cph (co (pk s))) eqn:P2|]; try (apply Fc_pk; exact H);
                  pose proof (Fc_pk s H) as H'; exact H'
                 |unfold C17_Typeahead.feed_keys; apply Fc_pk; exact H]);
            try (unfold C17_Typeahead.feed_keys; apply Fc_pk; exact H);
            try (destruct (kbuf (co s)); [exact H|apply Fc_pk; exact H]);
            try (apply Fc_pk; exact H);
            try (destruct (rcpr s && negb (Nat.eqb (wcpr (co s)) 0)); exact H); fail).
  destruct (at_ s); try exact H. destruct (rcpr s && negb (Nat.eqb (wcpr (co s)) 0)); exact H.
Qed.

Lemma Fc_run ls : forall s : sys, Fc (co s) -> Fc (co (run ls s)).
Proof.
  induction ls as [|l ls IH]; intros s H; [exact H|]. cbn [C17_Typeahead.run fold_left].
  apply IH. apply Fc_step. exact H.
Qed.

Lemma fed_all ls e p r : Forall Pk (fedl (co (run ls (@init E bid res PS e p r)))).
Proof. apply Fc_run. unfold Fc, init, init_core; cbn. constructor. Qed.
End Fed.

End P.
Arguments no_deep {E bid res} lookup lookup_scan waits eff is_cprh cpr_lookup feeds.
Arguments no_pushback {E bid res} lookup lookup_scan waits eff is_cprh cpr_lookup feeds.
Arguments KB {E bid res} waits c.
