(* C17 - the script theorem: refinement of the transition system to a
   sequential reference machine that feeds the non-report key presses, one by
   one, to one prompt after the other. *)
From Coq Require Import ZArith List Bool Lia.
From PTK Require Import Lib.Py Model.C03_Vt100Parser Model.C17_Typeahead
  Proofs.C17_Core Proofs.C17_Conserve Proofs.C17_Accept.
Import ListNotations.

Definition quiet (ls : list label) : Prop :=
  Forall (fun l => l <> LClose /\ l <> LFlushInput /\ l <> LFlushKeys) ls.

Section P.
Variables E bid res PS : Type.
Variable lookup : E -> list kp -> option bid.
Variable lookup_scan : E -> list kp -> option bid.
Variable waits : E -> list kp -> bool.
Variable eff : bid -> list kp -> E -> E * option res.
Variable is_cprh : bid -> bool.
Variable restart : E -> E.
Variable pfeed : str -> PS -> PS * list kp.
Variable pflush : PS -> PS * list kp.
Variable res_eof : res.

Notation core := (core E bid res).
Notation sys := (sys E bid res PS).
Notation call := (call eff is_cprh).
Notation scan := (@scan E bid res lookup_scan).
Notation loop := (loop lookup lookup_scan waits eff is_cprh).
Notation send := (send lookup lookup_scan waits eff is_cprh).
Notation process_q := (process_q lookup lookup_scan waits eff is_cprh).
Notation pk := (@pk E bid res PS lookup lookup_scan waits eff is_cprh).
Notation feed_keys := (@feed_keys E bid res PS lookup lookup_scan waits eff is_cprh).
Notation do_read := (@do_read E bid res PS lookup lookup_scan waits eff is_cprh pfeed res_eof).
Notation step := (@step E bid res PS lookup lookup_scan waits eff is_cprh restart pfeed pflush res_eof).
Notation run := (@run E bid res PS lookup lookup_scan waits eff is_cprh restart pfeed pflush res_eof).
Notation Jc := (@Jc E bid res waits).
Notation Js := (@Js E bid res PS waits).

Hypothesis Hexit : exit_clean lookup lookup_scan waits eff is_cprh.
Hypothesis Hcpr : cpr_fires lookup waits eff.
Hypothesis Hcprh : forall b ks e, is_cprh b = true -> eff b ks e = (e, None).

(* ---------------------------------------------------------------------- *)
(* the three fields the dispatch depends on *)

Definition core_eq (a b : core) : Prop := est a = est b /\ kbuf a = kbuf b /\ cph a = cph b.

Lemma core_eq_refl a : core_eq a a.
Proof. unfold core_eq; auto. Qed.
Lemma core_eq_sym a b : core_eq a b -> core_eq b a.
Proof. unfold core_eq; intuition congruence. Qed.
Lemma core_eq_trans a b c : core_eq a b -> core_eq b c -> core_eq a c.
Proof. unfold core_eq; intuition congruence. Qed.

Lemma call_congr x ks a b : core_eq a b -> core_eq (call x ks a) (call x ks b).
Proof.
  intros (H1 & H2 & H3). unfold core_eq, C17_Typeahead.call; cbn [est kbuf cph]. rewrite H1, H2, H3. auto.
Qed.

Lemma scan_congr n a b : est a = est b -> kbuf a = kbuf b -> scan n a = scan n b.
Proof.
  intros H1 H2. induction n as [|n IH]; cbn [C17_Typeahead.scan]; [reflexivity|].
  rewrite H1, H2, IH. reflexivity.
Qed.

Lemma set_kbuf_congr l a b : core_eq a b -> core_eq (set_kbuf l a) (set_kbuf l b).
Proof. intros (H1 & H2 & H3). unfold core_eq; cbn [est kbuf cph set_kbuf]. auto. Qed.

Lemma loop_congr fuel : forall fl a b, core_eq a b -> core_eq (loop fuel fl a) (loop fuel fl b).
Proof.
  induction fuel as [|f IH]; intros fl a b H; pose proof H as (H1 & H2 & H3); cbn [C17_Typeahead.loop].
  - rewrite <- H2. destruct (kbuf a); [exact H|]. unfold core_eq; cbn [est kbuf cph set_oof]. auto.
  - rewrite <- H2, <- H3, <- H1.
    pose proof (fun n => scan_congr n a b H1 H2) as SC.
    destruct (kbuf a) as [|k0 tl0] eqn:KA; [exact H|].
    rewrite <- SC.
    destruct (cph a) eqn:PA.
    + destruct (negb fl && waits (est a) (k0 :: tl0)); [exact H|].
      destruct (lookup (est a) (k0 :: tl0)).
      * apply set_kbuf_congr. apply call_congr. exact H.
      * destruct (scan (length (k0 :: tl0)) a) as [[x i]|].
        -- apply IH. apply set_kbuf_congr. apply call_congr. exact H.
        -- apply IH. unfold core_eq, late; cbn [est kbuf cph set_kbuf add_ev]. repeat split; congruence.
    + destruct (negb fl && waits (est a) (k0 :: tl0)); [exact H|].
      destruct (lookup (est a) (k0 :: tl0)).
      * apply set_kbuf_congr. apply call_congr. exact H.
      * destruct (scan (length (k0 :: tl0)) a) as [[x i]|].
        -- apply IH. apply set_kbuf_congr. apply call_congr. exact H.
        -- apply IH. unfold core_eq, late; cbn [est kbuf cph set_kbuf add_ev]. repeat split; congruence.
    + exact H.
Qed.

Lemma send_congr it a b : core_eq a b -> core_eq (send it a) (send it b).
Proof.
  intros H. pose proof H as (H1 & H2 & H3). destruct it as [k|]; unfold C17_Typeahead.send; rewrite <- H2.
  - apply loop_congr.
    destruct (is_cpr k && negb (cpr_alone lookup waits is_cprh a k));
      destruct (is_cpr k && negb (cpr_alone lookup waits is_cprh b k));
      unfold core_eq; cbn [est kbuf cph set_kbuf set_bad]; rewrite H1, H3; auto.
  - apply loop_congr. exact H.
Qed.

(* ---------------------------------------------------------------------- *)
(* the ghost flag only ever goes up *)

Lemma loop_bad fuel : forall fl (c : core), cpr_bad (loop fuel fl c) = cpr_bad c.
Proof.
  induction fuel as [|f IH]; intros fl c; cbn [C17_Typeahead.loop].
  - destruct (kbuf c); reflexivity.
  - destruct (kbuf c) as [|k0 tl0]; [reflexivity|].
    destruct (cph c); [| |reflexivity].
    + destruct (negb fl && waits (est c) (k0 :: tl0)); [reflexivity|].
      destruct (lookup (est c) (k0 :: tl0)); [reflexivity|].
      destruct (scan (length (k0 :: tl0)) c) as [[x i]|]; rewrite IH; reflexivity.
    + destruct (negb fl && waits (est c) (k0 :: tl0)); [reflexivity|].
      destruct (lookup (est c) (k0 :: tl0)); [reflexivity|].
      destruct (scan (length (k0 :: tl0)) c) as [[x i]|]; rewrite IH; reflexivity.
Qed.

Lemma send_bad_mono it (c : core) : cpr_bad c = true -> cpr_bad (send it c) = true.
Proof.
  intros H. destruct it as [k|]; unfold C17_Typeahead.send; rewrite loop_bad; [|exact H].
  destruct (is_cpr k && negb (cpr_alone lookup waits is_cprh c k)); [reflexivity|exact H].
Qed.

Lemma send_bad_alone k (c : core) :
  cpr_bad (send (IKey k) c) = false -> is_cpr k = true -> cpr_alone lookup waits is_cprh c k = true.
Proof.
  unfold C17_Typeahead.send. rewrite loop_bad. intros H CK. rewrite CK in H. cbn [andb] in H.
  destruct (cpr_alone lookup waits is_cprh c k); [reflexivity|]. cbn [negb] in H. cbn [cpr_bad set_kbuf set_bad] in H. discriminate.
Qed.

Lemma process_q_bad_mono q : forall c : core, cpr_bad c = true -> cpr_bad (fst (process_q q c)) = true.
Proof.
  induction q as [|it q IH]; intros c H; cbn [C17_Typeahead.process_q]; [exact H|].
  destruct (cph c); [| |exact H].
  - apply IH. apply send_bad_mono. exact H.
  - destruct (item_is_cpr it); [apply IH; apply send_bad_mono; exact H|]. cbn [fst]. apply IH. exact H.
Qed.

(* a report consumed by its handler alone leaves the dispatch state as it was *)
Lemma send_cpr_alone k (c : core) :
  cph c <> CBroken res -> cpr_alone lookup waits is_cprh c k = true -> core_eq (send (IKey k) c) c.
Proof.
  intros NB A. unfold cpr_alone in A. destruct (kbuf c) eqn:KBE; [|discriminate].
  apply andb_prop in A. destruct A as [W L]. apply negb_true_iff in W.
  destruct (lookup (est c) [k]) as [b|] eqn:LK; [|discriminate].
  unfold C17_Typeahead.send. rewrite KBE. cbn [length app].
  set (c1 := if is_cpr k && negb (cpr_alone lookup waits is_cprh c k) then set_bad c else c).
  assert (E1 : est c1 = est c) by (unfold c1; destruct (is_cpr k && negb (cpr_alone lookup waits is_cprh c k)); reflexivity).
  assert (P1 : cph c1 = cph c) by (unfold c1; destruct (is_cpr k && negb (cpr_alone lookup waits is_cprh c k)); reflexivity).
  cbn [C17_Typeahead.loop kbuf set_kbuf cph est]. rewrite P1, E1, W, LK. cbn [negb andb].
  destruct (cph c) eqn:PH; [| |contradiction];
    unfold core_eq, C17_Typeahead.call; cbn [kbuf set_kbuf cph est]; rewrite E1, P1, (Hcprh b [k] (est c) L), KBE, PH; cbn [fst snd]; auto.
Qed.

(* ---------------------------------------------------------------------- *)
(* the reference machine *)

Definition fresh (e : E) : core := init_core bid res e.

Fixpoint ref (ks : list kp) (st : list res * core) : list res * core :=
  match ks with
  | [] => st
  | k :: ks' =>
      let c' := send (IKey k) (snd st) in
      match cph c' with
      | CDone r => ref ks' (fst st ++ [r], fresh (restart (est c')))
      | _ => ref ks' (fst st, c')
      end
  end.

Definition st_eq (a b : list res * core) : Prop := fst a = fst b /\ core_eq (snd a) (snd b).
Lemma st_eq_refl a : st_eq a a.
Proof. split; [reflexivity|apply core_eq_refl]. Qed.
Lemma st_eq_trans a b c : st_eq a b -> st_eq b c -> st_eq a c.
Proof. intros [A1 A2] [B1 B2]. split; [congruence|eapply core_eq_trans; eassumption]. Qed.
Lemma st_eq_sym a b : st_eq a b -> st_eq b a.
Proof. intros [A1 A2]. split; [congruence|apply core_eq_sym; assumption]. Qed.

Lemma ref_congr ks : forall a b, st_eq a b -> st_eq (ref ks a) (ref ks b).
Proof.
  induction ks as [|k ks IH]; intros a b H; [exact H|]. cbn [ref].
  destruct H as [H1 H2]. pose proof (send_congr (IKey k) _ _ H2) as (S1 & S2 & S3).
  rewrite <- S3. destruct (cph (send (IKey k) (snd a))) eqn:PA.
  - apply IH. split; [exact H1|]. cbn [snd]. unfold core_eq. repeat split; congruence.
  - apply IH. split; cbn [fst snd]; [rewrite H1; reflexivity|]. rewrite S1. apply core_eq_refl.
  - apply IH. split; [exact H1|]. cbn [snd]. unfold core_eq. repeat split; congruence.
Qed.

Lemma ref_app a : forall b st, ref (a ++ b) st = ref b (ref a st).
Proof.
  induction a as [|k a IH]; intros b st; [reflexivity|]. cbn [app ref].
  destruct (cph (send (IKey k) (snd st))); apply IH.
Qed.

(* the reference view of a key processor with [rs] results already returned *)
Definition absc (rs : list res) (c : core) : list res * core :=
  match cph c with
  | CDone r => (rs ++ [r], fresh (restart (est c)))
  | _ => (rs, c)
  end.

Lemma absc_congr rs a b : core_eq a b -> st_eq (absc rs a) (absc rs b).
Proof.
  intros (H1 & H2 & H3). unfold absc. rewrite <- H3. destruct (cph a) eqn:PA.
  - split; [reflexivity|]. cbn [snd]. unfold core_eq. repeat split; congruence.
  - rewrite H1. apply st_eq_refl.
  - split; [reflexivity|]. cbn [snd]. unfold core_eq. repeat split; congruence.
Qed.

Lemma nc_single k : is_cpr k = false -> nc [k] = [k].
Proof. unfold nc; cbn [filter]. intros ->. reflexivity. Qed.

Lemma pq_R q : forall (c : core) rs st,
  Jc c -> Forall nf q -> cpr_bad (fst (process_q q c)) = false -> st_eq st (absc rs c) ->
  exists D, nc (acc (fst (process_q q c))) = nc (acc c) ++ D /\
            st_eq (ref D st) (absc rs (fst (process_q q c))).
Proof.
  induction q as [|it q IH]; intros c rs st J F B S; cbn [C17_Typeahead.process_q] in *.
  - exists []. rewrite app_nil_r. auto.
  - inversion F as [|? ? F1 F2]; subst.
    destruct (cph c) eqn:PH.
    + (* result not set: the item is popped *)
      destruct it as [k|]; [|exfalso; apply F1; reflexivity].
      pose proof (@send_Jc_run E bid res lookup lookup_scan waits eff is_cprh Hexit (IKey k) c PH J) as J'.
      assert (B' : cpr_bad (send (IKey k) c) = false).
      { destruct (cpr_bad (send (IKey k) c)) eqn:X; [|reflexivity].
        rewrite (process_q_bad_mono q _ X) in B. discriminate. }
      destruct (is_cpr k) eqn:CK.
      * pose proof (send_cpr_alone k c (proj1 J) (send_bad_alone k c B' CK)) as CE.
        destruct (IH (send (IKey k) c) rs st J' F2 B) as (D & A1 & A2).
        { eapply st_eq_trans; [exact S|]. apply absc_congr. apply core_eq_sym. exact CE. }
        exists D. split; [|exact A2]. rewrite A1, send_acc_key, nc_app, (nc_cpr k CK), app_nil_r. reflexivity.
      * assert (S2 : core_eq (snd st) c) by (destruct S as [_ S2]; unfold absc in S2; rewrite PH in S2; exact S2).
        pose proof (send_congr (IKey k) _ _ S2) as CE.
        destruct (IH (send (IKey k) c) rs (absc (fst st) (send (IKey k) (snd st))) J' F2 B) as (D & A1 & A2).
        { destruct S as [S1 _]. unfold absc in S1. rewrite PH in S1. cbn [fst] in S1. rewrite S1.
          apply absc_congr. exact CE. }
        exists (k :: D). split.
        -- rewrite A1, send_acc_key, nc_app, (nc_single k CK), <- app_assoc. reflexivity.
        -- cbn [ref]. unfold absc in A2 at 1.
           destruct (cph (send (IKey k) (snd st))); exact A2.
    + (* result set: only reports are taken out *)
      assert (NR : not_run c) by (unfold not_run; congruence).
      destruct (item_is_cpr it) eqn:CI.
      * destruct it as [k|]; [|discriminate]. cbn [item_is_cpr] in CI.
        pose proof (@send_Jc_done_cpr E bid res lookup lookup_scan waits eff is_cprh Hcpr k c r CI PH J) as J'.
        assert (B' : cpr_bad (send (IKey k) c) = false).
        { destruct (cpr_bad (send (IKey k) c)) eqn:X; [|reflexivity].
          rewrite (process_q_bad_mono q _ X) in B. discriminate. }
        pose proof (send_cpr_alone k c (proj1 J) (send_bad_alone k c B' CI)) as CE.
        destruct (IH (send (IKey k) c) rs st J' F2 B) as (D & A1 & A2).
        { eapply st_eq_trans; [exact S|]. apply absc_congr. apply core_eq_sym. exact CE. }
        exists D. split; [|exact A2]. rewrite A1, send_acc_key, nc_app, (nc_cpr k CI), app_nil_r. reflexivity.
      * cbn [fst] in *. apply IH; assumption.
    + destruct J as (NB & _). contradiction.
Qed.

(* ---------------------------------------------------------------------- *)
(* the refinement invariant *)

Definition abs (s : sys) : list res * core :=
  match at_ s with
  | Detached => (results s, fresh (restart (est (co s))))
  | _ => absc (results s) (co s)
  end.

Section Inv.
Variable e0 : E.
Definition R (s : sys) : Prop :=
  st_eq (ref (nc (acc (co s))) ([], fresh (restart e0))) (abs s).

Lemma R_pk (s : sys) : at_ s <> Detached -> Jc (co s) -> Forall nf (queue s) ->
  cpr_bad (co (pk s)) = false -> R s -> R (pk s).
Proof.
  intros A J F B H. unfold R in *. unfold C17_Typeahead.pk in *. cbn [co with_co with_queue] in *.
  assert (AB : abs s = absc (results s) (co s)) by (unfold abs; destruct (at_ s); [contradiction| |]; reflexivity).
  rewrite AB in H.
  destruct (pq_R (queue s) (co s) (results s) _ J F B H) as (D & A1 & A2).
  rewrite A1, ref_app. unfold abs, with_co, with_queue; cbn [at_ results co].
  destruct (at_ s); [contradiction| |]; exact A2.
Qed.

Lemma R_same (s s' : sys) : co s' = co s -> at_ s' = at_ s -> results s' = results s -> R s -> R s'.
Proof. intros H1 H2 H3. unfold R, abs. rewrite H1, H2, H3. auto. Qed.

Lemma R_finish r (s : sys) : at_ s <> Detached -> cph (co s) = CDone r -> R s -> R (finish r s).
Proof.
  intros A PH H. unfold R, abs, C17_Typeahead.finish in *; cbn [co at_ results].
  destruct (at_ s); [contradiction| |]; unfold absc in H; rewrite PH in H; exact H.
Qed.

Lemma R_core_eq (c' : core) (s : sys) :
  acc c' = acc (co s) -> core_eq (co s) c' -> R s -> R (with_co c' s).
Proof.
  intros HA HE H. unfold R in *. unfold with_co at 1. cbn [co]. rewrite HA.
  eapply st_eq_trans; [exact H|]. unfold abs, with_co; cbn [at_ results co].
  destruct (at_ s).
  - destruct HE as (E1 & _). rewrite E1. apply st_eq_refl.
  - apply absc_congr. exact HE.
  - apply absc_congr. exact HE.
Qed.

Lemma R_wcpr n (s : sys) : R s -> R (with_co (set_wcpr n (co s)) s).
Proof. intros H. apply R_core_eq; [reflexivity|unfold core_eq; auto|exact H]. Qed.

Lemma pk_bad_mono (s : sys) : cpr_bad (co s) = true -> cpr_bad (co (pk s)) = true.
Proof. intros H. unfold C17_Typeahead.pk; cbn [co with_co]. apply process_q_bad_mono. exact H. Qed.

Definition quiet1 (l : label) : Prop := l <> LClose /\ l <> LFlushInput /\ l <> LFlushKeys.

Lemma R_do_read n (s : sys) : at_ s <> Detached -> Js s -> cpr_bad (co (do_read n s)) = false -> R s -> R (do_read n s).
Proof.
  intros A (J & _ & _ & F & G & W) B H. unfold C17_Typeahead.do_read in *. cbv zeta in *. rewrite W in *.
  destruct (pipe s).
  - apply R_pk; assumption.
  - unfold C17_Typeahead.feed_keys in *. apply R_pk; cbn [co queue at_]; [exact A|exact J| |exact B|].
    + apply Forall_app; split; [exact F|apply nf_map].
    + eapply R_same; [| | |exact H]; reflexivity.
Qed.

Lemma R_step (s : sys) l : quiet1 l -> Js s -> cpr_bad (co (step s l)) = false -> R s -> R (step s l).
Proof.
  intros (Q1 & Q2 & Q3) J B H. pose proof J as (Jc0 & D & Q & F & G & W).
  unfold C17_Typeahead.step in *.
  destruct (cph (co s)) eqn:PH; destruct l; try exact H; try congruence.
  all: try (destruct (wclosed s); [exact H|]; eapply R_same; [| | |exact H]; reflexivity).
  all: try (destruct (at_ s) eqn:A; try exact H;
            try (apply R_do_read; [congruence|exact J|exact B|exact H]);
            try (destruct (wcpr (co s)); [exact H|apply R_do_read; [congruence|exact J|exact B|exact H]]);
            try (eapply R_same; [| | |exact H]; reflexivity);
            try (apply R_wcpr; exact H); fail).
  - (* LStart, result not set *)
    destruct (at_ s) eqn:A; [|exact H|exact H].
    destruct (D eq_refl) as [D1 D2]. rewrite D1, D2 in *.
    apply R_pk; cbn [co queue at_]; auto; try congruence.
    + destruct Jc0 as (NB & LK & K & OK). unfold C17_Accept.Jc, KB, late; cbn [cph kbuf rlog est].
      repeat split; auto; try congruence. constructor; [exact I|exact OK].
    + unfold R, abs in *. cbn [co at_ results]. rewrite A in H. unfold absc; cbn [cph].
      unfold acc in *. cbn [kbuf] in *. rewrite D1 in H. unfold logged in *. cbn [rlog rev] in *.
      rewrite map_app, concat_app. cbn [map concat ev_keys]. rewrite !app_nil_r in *.
      eapply st_eq_trans; [exact H|]. split; [reflexivity|]. cbn [snd]. unfold core_eq, fresh, init_core; cbn [est kbuf cph]. auto.
  - (* LStart, result of the previous prompt still recorded *)
    destruct (at_ s) eqn:A; [|exact H|exact H].
    destruct (D eq_refl) as [D1 D2]. rewrite D1, D2 in *.
    apply R_pk; cbn [co queue at_]; auto; try congruence.
    + destruct Jc0 as (NB & LK & K & OK). unfold C17_Accept.Jc, KB, late; cbn [cph kbuf rlog est].
      repeat split; auto; try congruence. constructor; [exact I|exact OK].
    + unfold R, abs in *. cbn [co at_ results]. rewrite A in H. unfold absc; cbn [cph].
      unfold acc in *. cbn [kbuf] in *. rewrite D1 in H. unfold logged in *. cbn [rlog rev] in *.
      rewrite map_app, concat_app. cbn [map concat ev_keys]. rewrite !app_nil_r in *.
      eapply st_eq_trans; [exact H|]. split; [reflexivity|]. cbn [snd]. unfold core_eq, fresh, init_core; cbn [est kbuf cph]. auto.
  - (* LExit *)
    destruct (at_ s) eqn:A; [exact H| |exact H].
    destruct (rcpr s && negb (Nat.eqb (wcpr (co s)) 0)).
    + unfold R, abs in *. cbn [co at_ results]. rewrite A in H. exact H.
    + apply R_finish; [congruence|exact PH|exact H].
  - (* LExitEnd *)
    destruct (at_ s) eqn:A; try exact H. destruct (wcpr (co s)); [|exact H].
    apply R_finish; [congruence|exact PH|exact H].
  - (* LCprTimeout *)
    destruct (at_ s) eqn:A; try exact H.
    apply R_finish; [cbn [at_ with_co]; congruence|exact PH|apply R_wcpr; exact H].
Qed.

Lemma do_read_bad_mono n (s : sys) : cpr_bad (co s) = true -> cpr_bad (co (do_read n s)) = true.
Proof.
  intros H. unfold C17_Typeahead.do_read. cbv zeta. destruct (pipe s).
  - pose proof (pk_bad_mono s H) as H'. destruct (wclosed s); [|exact H'].
    destruct (cph (co (pk s))); [|exact H'|exact H']. cbn [co with_co set_cph cpr_bad]. exact H'.
  - unfold C17_Typeahead.feed_keys. apply pk_bad_mono. exact H.
Qed.

Lemma step_bad_mono (s : sys) l : cpr_bad (co s) = true -> cpr_bad (co (step s l)) = true.
Proof.
  intros H. unfold C17_Typeahead.step.
  destruct (cph (co s)) eqn:PH; destruct l; try exact H.
  all: try (destruct (wclosed s); exact H).
  all: try (destruct (at_ s); try exact H; try (apply do_read_bad_mono; exact H);
            try (destruct (wcpr (co s)); [exact H|apply do_read_bad_mono; exact H]);
            try (unfold C17_Typeahead.feed_keys; apply pk_bad_mono; exact H);
            try (destruct (kbuf (co s)); [exact H|apply pk_bad_mono; exact H]);
            try (apply pk_bad_mono; exact H);
            try (destruct (rcpr s && negb (Nat.eqb (wcpr (co s)) 0)); exact H);
            try (destruct (wcpr (co s)); exact H); fail).
Qed.

Lemma run_bad_mono ls : forall s : sys, cpr_bad (co s) = true -> cpr_bad (co (run ls s)) = true.
Proof.
  induction ls as [|l ls IH]; intros s H; [exact H|]. cbn [C17_Typeahead.run fold_left].
  apply IH. apply step_bad_mono. exact H.
Qed.

Lemma run_R ls : forall s : sys, quiet ls -> Js s -> (cpr_bad (co s) = false -> R s) ->
  cpr_bad (co (run ls s)) = false -> R (run ls s).
Proof.
  induction ls as [|l ls IH]; intros s Q J H B; [exact (H B)|]. cbn [C17_Typeahead.run fold_left] in *.
  inversion Q as [|? ? Q1 Q2]; subst.
  assert (B1 : cpr_bad (co (step s l)) = false).
  { destruct (cpr_bad (co (step s l))) eqn:X; [|reflexivity].
    pose proof (run_bad_mono ls _ X) as Y. unfold C17_Typeahead.run in Y. rewrite Y in B. discriminate. }
  assert (B0 : cpr_bad (co s) = false).
  { destruct (cpr_bad (co s)) eqn:X; [|reflexivity]. rewrite (step_bad_mono s l X) in B1. discriminate. }
  apply IH; [exact Q2| |intros _|exact B].
  - apply (@Js_step E bid res PS lookup lookup_scan waits eff is_cprh restart pfeed pflush res_eof Hexit Hcpr);
      [exact (proj1 Q1)|exact J].
  - apply R_step; [exact Q1|exact J|exact B1|exact (H B0)].
Qed.

End Inv.
(* ---------------------------------------------------------------------- *)
(* scripts *)

Definition runline (c : core) (l : list kp) : core := fold_left (fun c k => send (IKey k) c) l c.

Inductive lines_ok : E -> list (list kp) -> list res -> Prop :=
| LO_nil e : lines_ok e [] []
| LO_cons e l ls r rs :
    (forall p q, l = p ++ q -> q <> [] -> cph (runline (fresh e) p) = CRun res) ->
    cph (runline (fresh e) l) = CDone r ->
    lines_ok (restart (est (runline (fresh e) l))) ls rs ->
    lines_ok e (l :: ls) (r :: rs).

Lemma ref_line l : forall (c : core) rs0, cph c = CRun res ->
  (forall p q, l = p ++ q -> q <> [] -> cph (runline c p) = CRun res) ->
  ref l (rs0, c) = absc rs0 (runline c l).
Proof.
  induction l as [|k l IH]; intros c rs0 PH H.
  - cbn [ref runline fold_left]. unfold absc. rewrite PH. reflexivity.
  - cbn [ref runline fold_left snd fst].
    destruct (cph (send (IKey k) c)) eqn:P1.
    + apply IH; [exact P1|]. intros p q EQ NE. apply (H (k :: p) q); [cbn [app]; rewrite EQ; reflexivity|exact NE].
    + destruct l as [|k2 l2].
      * cbn [ref fold_left]. unfold absc. rewrite P1. reflexivity.
      * exfalso. pose proof (H [k] (k2 :: l2) eq_refl ltac:(discriminate)) as X.
        cbn [runline fold_left] in X. congruence.
    + destruct l as [|k2 l2].
      * cbn [ref fold_left]. unfold absc. rewrite P1. reflexivity.
      * exfalso. pose proof (H [k] (k2 :: l2) eq_refl ltac:(discriminate)) as X.
        cbn [runline fold_left] in X. congruence.
Qed.

Lemma ref_lines e lines rs : lines_ok e lines rs ->
  forall K tail rs0, K ++ tail = concat lines ->
  exists n, fst (ref K (rs0, fresh e)) = rs0 ++ firstn n rs.
Proof.
  induction 1 as [e|e l ls r rs H1 H2 H3 IH]; intros K tail rs0 EQ.
  - cbn [concat] in EQ. apply app_eq_nil in EQ. destruct EQ as [-> _]. exists O. cbn. now rewrite app_nil_r.
  - cbn [concat] in EQ. apply app_eq_app in EQ. destruct EQ as (m & [[EK ET]|[EL ET]]).
    + (* the whole first line has been fed *)
      subst K. rewrite ref_app, (ref_line l (fresh e) rs0 eq_refl H1). unfold absc. rewrite H2.
      destruct (IH m tail (rs0 ++ [r]) (eq_sym ET)) as (n & Hn). exists (S n).
      rewrite Hn, <- app_assoc. reflexivity.
    + destruct m as [|k0 m].
      * rewrite app_nil_r in EL. subst K. rewrite (ref_line l (fresh e) rs0 eq_refl H1). unfold absc. rewrite H2.
        exists 1%nat. reflexivity.
      * rewrite (ref_line K (fresh e) rs0 eq_refl).
        -- unfold absc. rewrite (H1 K (k0 :: m) EL ltac:(discriminate)). exists O. cbn. now rewrite app_nil_r.
        -- intros p q EQ NE. apply (H1 p (q ++ k0 :: m)); [rewrite EL, EQ, <- app_assoc; reflexivity|].
           destruct q; [contradiction|discriminate].
Qed.

Lemma abs_results (s : sys) : exists x, fst (abs s) = results s ++ x.
Proof.
  unfold abs, absc. destruct (at_ s); [exists []; cbn; now rewrite app_nil_r| |];
    (destruct (cph (co s)); [exists []; cbn; now rewrite app_nil_r|eexists; reflexivity|exists []; cbn; now rewrite app_nil_r]).
Qed.

Lemma firstn_prefix {T} (a x rs : list T) n : a ++ x = firstn n rs -> a = firstn (length a) rs.
Proof.
  revert rs n. induction a as [|y a IH]; intros rs n H; [reflexivity|].
  destruct n; [discriminate|]. destruct rs as [|z rs]; [discriminate|].
  cbn [firstn app length] in *. inversion H; subst. f_equal. eapply IH. eassumption.
Qed.

Lemma script ls e p r lines rs :
  quiet ls ->
  let s := run ls (@init E bid res PS e p r) in
  cpr_bad (co s) = false ->
  lines_ok (restart e) lines rs ->
  (exists tail, nc (decoded s) ++ tail = concat lines) ->
  results s = firstn (length (results s)) rs.
Proof.
  intros Q s B LO (tail & T).
  assert (RR : R e s).
  { apply run_R; [exact Q|apply Js_init| |exact B].
    intros _. unfold R, abs, init, acc, logged; cbn. apply st_eq_refl. }
  destruct (@inv_run E bid res PS lookup lookup_scan waits eff is_cprh restart pfeed pflush res_eof ls
              (@init E bid res PS e p r) (inv_init E bid res PS e p r)) as (CONS & _).
  fold s in CONS. rewrite <- CONS, <- app_assoc in T.
  destruct (ref_lines (restart e) lines rs LO _ _ [] T) as (n & Hn).
  destruct RR as [R1 _]. rewrite R1 in Hn. cbn [app] in Hn.
  destruct (abs_results s) as (x & X). rewrite X in Hn.
  eapply firstn_prefix. exact Hn.
Qed.

End P.
