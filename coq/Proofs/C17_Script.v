(* C17 - the script theorem: refinement of the transition system to a
   sequential reference machine that feeds the non-report key presses, one by
   one, to one prompt after the other. *)
From Coq Require Import ZArith List Bool Lia.
From PTK Require Import Lib.Py Model.C03_Vt100Parser Model.C17_Typeahead
  Proofs.C17_Core Proofs.C17_Conserve Proofs.C17_Accept.
Import ListNotations.

Definition quiet (ls : list label) : Prop :=
  Forall (fun l => l <> LClose /\ l <> LFlushInput /\ l <> LFlushKeys) ls.

Section P.
Variables E bid res PS : Type.
Variable lookup : E -> list kp -> option bid.
Variable lookup_scan : E -> list kp -> option bid.
Variable waits : E -> list kp -> bool.
Variable eff : bid -> list kp -> E -> E * option res.
Variable is_cprh : bid -> bool.
Variable cpr_lookup : E -> option bid.
Variable restart : E -> E.
Variable pfeed : str -> PS -> PS * list kp.
Variable pflush : PS -> PS * list kp.
Variable res_eof : res.

Notation core := (core E bid res).
Notation sys := (sys E bid res PS).
Notation call := (call eff is_cprh).
Notation scan := (@scan E bid res lookup_scan).
Notation loop := (loop lookup lookup_scan waits eff is_cprh).
Notation send := (send lookup lookup_scan waits eff is_cprh).
Notation handle_cpr := (handle_cpr eff is_cprh cpr_lookup).
Notation deliver := (deliver lookup lookup_scan waits eff is_cprh cpr_lookup).
Notation process_q := (process_q lookup lookup_scan waits eff is_cprh cpr_lookup).
Notation pk := (@pk E bid res PS lookup lookup_scan waits eff is_cprh cpr_lookup).
Notation feed_keys := (@feed_keys E bid res PS lookup lookup_scan waits eff is_cprh cpr_lookup).
Notation do_read := (@do_read E bid res PS lookup lookup_scan waits eff is_cprh cpr_lookup pfeed res_eof).
Notation step := (@step E bid res PS lookup lookup_scan waits eff is_cprh cpr_lookup restart pfeed pflush res_eof).
Notation run := (@run E bid res PS lookup lookup_scan waits eff is_cprh cpr_lookup restart pfeed pflush res_eof).
Notation Jc := (@Jc E bid res).
Notation Js := (@Js E bid res PS).

(* the key buffer between two activations: empty, or still a prefix of a longer binding *)
Definition KB (c : core) : Prop := kbuf c = [] \/ waits (est c) (kbuf c) = true.

(* no binding that ends the prompt fires from the retry scan with keys left in
   the buffer (so nothing is ever pushed back to the queue) *)
Definition no_pushback : Prop :=
  forall (c : core) it, cph c = CRun res -> pb c = [] -> KB c -> pb (send it c) = [].

Hypothesis Hsil : cpr_silent eff cpr_lookup.
Hypothesis Hnp : no_pushback.

(* ---------------------------------------------------------------------- *)
(* the three fields the dispatch depends on *)

Definition core_eq (a b : core) : Prop := est a = est b /\ kbuf a = kbuf b /\ cph a = cph b.

Lemma core_eq_refl a : core_eq a a.
Proof. unfold core_eq; auto. Qed.
Lemma core_eq_sym a b : core_eq a b -> core_eq b a.
Proof. unfold core_eq; intuition congruence. Qed.
Lemma core_eq_trans a b c : core_eq a b -> core_eq b c -> core_eq a c.
Proof. unfold core_eq; intuition congruence. Qed.

Lemma call_congr x ks a b : core_eq a b -> core_eq (call x ks a) (call x ks b).
Proof.
  intros (H1 & H2 & H3). unfold core_eq, C17_Typeahead.call; cbn [est kbuf cph]. rewrite H1, H2, H3. auto.
Qed.

Lemma scan_congr n a b : est a = est b -> kbuf a = kbuf b -> scan n a = scan n b.
Proof.
  intros H1 H2. induction n as [|n IH]; cbn [C17_Typeahead.scan]; [reflexivity|].
  rewrite H1, H2, IH. reflexivity.
Qed.

Lemma set_kbuf_congr l a b : core_eq a b -> core_eq (set_kbuf l a) (set_kbuf l b).
Proof. intros (H1 & H2 & H3). unfold core_eq; cbn [est kbuf cph set_kbuf]. auto. Qed.

Lemma push_back_congr a b : core_eq a b -> core_eq (push_back a) (push_back b).
Proof. intros (H1 & H2 & H3). unfold core_eq; cbn [est kbuf cph push_back]. auto. Qed.

Lemma retry_congr (k : core -> core) a b :
  (forall x y, core_eq x y -> core_eq (k x) (k y)) -> core_eq a b -> core_eq (retry k a) (retry k b).
Proof.
  intros HK H. pose proof H as (H1 & H2 & H3). unfold retry, late. rewrite <- H3.
  destruct (cph a); [apply HK; exact H|apply push_back_congr; exact H|apply push_back_congr; exact H].
Qed.

Lemma loop_congr fuel : forall fl a b, core_eq a b -> core_eq (loop fuel fl a) (loop fuel fl b).
Proof.
  induction fuel as [|f IH]; intros fl a b H; pose proof H as (H1 & H2 & H3); cbn [C17_Typeahead.loop].
  - rewrite <- H2. destruct (kbuf a); [exact H|]. unfold core_eq; cbn [est kbuf cph set_oof]. auto.
  - rewrite <- H2, <- H3, <- H1.
    pose proof (fun n => scan_congr n a b H1 H2) as SC.
    destruct (kbuf a) as [|k0 tl0] eqn:KA; [exact H|].
    rewrite <- SC.
    assert (DR : core_eq (set_kbuf tl0 (add_ev (@EDrop bid (late a) k0) a)) (set_kbuf tl0 (add_ev (@EDrop bid (late b) k0) b))).
    { unfold core_eq; cbn [est kbuf cph set_kbuf add_ev]. auto. }
    destruct (cph a) eqn:PA.
    + destruct (negb fl && waits (est a) (k0 :: tl0)); [exact H|].
      destruct (lookup (est a) (k0 :: tl0)).
      * apply set_kbuf_congr. apply call_congr. exact H.
      * destruct (scan (length (k0 :: tl0)) a) as [[x i]|].
        -- apply retry_congr; [intros; apply IH; assumption|]. apply set_kbuf_congr. apply call_congr. exact H.
        -- apply retry_congr; [intros; apply IH; assumption|exact DR].
    + destruct (negb fl && waits (est a) (k0 :: tl0)); [exact H|].
      destruct (lookup (est a) (k0 :: tl0)).
      * apply set_kbuf_congr. apply call_congr. exact H.
      * destruct (scan (length (k0 :: tl0)) a) as [[x i]|].
        -- apply retry_congr; [intros; apply IH; assumption|]. apply set_kbuf_congr. apply call_congr. exact H.
        -- apply retry_congr; [intros; apply IH; assumption|exact DR].
    + exact H.
Qed.

Lemma send_congr it a b : core_eq a b -> core_eq (send it a) (send it b).
Proof.
  intros H. pose proof H as (H1 & H2 & H3). destruct it as [k|]; unfold C17_Typeahead.send; rewrite <- H2.
  - apply loop_congr. unfold core_eq; cbn [est kbuf cph set_kbuf]. rewrite H2. auto.
  - apply loop_congr. exact H.
Qed.

(* a report leaves the dispatch state as it was *)
Lemma handle_cpr_core_eq k (c : core) : core_eq (handle_cpr k c) c.
Proof.
  destruct (@handle_cpr_eq E bid res eff is_cprh cpr_lookup Hsil k c) as (E1 & E2 & E3 & _).
  unfold core_eq. auto.
Qed.

(* the key buffer is empty or waiting whenever the coroutine yields with the result unset *)
Lemma loop_KB fuel : forall fl (c : core),
  (length (kbuf c) < fuel)%nat -> cph (loop fuel fl c) = CRun res -> KB (loop fuel fl c).
Proof.
  induction fuel as [|f IH]; intros fl c H PR; [lia|]. cbn [C17_Typeahead.loop] in *.
  destruct (kbuf c) as [|k0 tl0] eqn:KBE; [left; exact KBE|].
  assert (R : forall c1, (length (kbuf c1) < f)%nat -> cph (retry (loop f false) c1) = CRun res -> KB (retry (loop f false) c1)).
  { intros c1 L1 P1. unfold retry in *. destruct (late c1) eqn:LT.
    - unfold late in LT. cbn [cph push_back] in P1. rewrite P1 in LT. discriminate.
    - apply IH; assumption. }
  assert (G : forall b i, scan (length (k0 :: tl0)) c = Some (b, i) ->
          (length (kbuf (set_kbuf (skipn i (k0 :: tl0)) (call b (firstn i (k0 :: tl0)) c))) < f)%nat).
  { intros b i S. apply (@scan_bounds E bid res lookup_scan) in S. cbn [kbuf set_kbuf]. rewrite skipn_length. cbn [length] in *. lia. }
  assert (D : (length (kbuf (set_kbuf tl0 (add_ev (@EDrop bid (late c) k0) c))) < f)%nat).
  { cbn [kbuf set_kbuf]. cbn [length] in H. lia. }
  destruct (cph c) eqn:PH.
  - destruct (negb fl && waits (est c) (k0 :: tl0)) eqn:W.
    + right. rewrite KBE. apply andb_prop in W. tauto.
    + destruct (lookup (est c) (k0 :: tl0)); [left; reflexivity|].
      destruct (scan (length (k0 :: tl0)) c) as [[b i]|] eqn:S.
      * apply R; [exact (G b i eq_refl)|exact PR].
      * apply R; [exact D|exact PR].
  - destruct (negb fl && waits (est c) (k0 :: tl0)) eqn:W.
    + right. rewrite KBE. apply andb_prop in W. tauto.
    + destruct (lookup (est c) (k0 :: tl0)); [left; reflexivity|].
      destruct (scan (length (k0 :: tl0)) c) as [[b i]|] eqn:S.
      * apply R; [exact (G b i eq_refl)|exact PR].
      * apply R; [exact D|exact PR].
  - congruence.
Qed.

Lemma send_KB it (c : core) : cph (send it c) = CRun res -> KB (send it c).
Proof.
  destruct it as [k|]; unfold C17_Typeahead.send; intros PR.
  - apply loop_KB; [|exact PR]. cbn [kbuf set_kbuf]. rewrite app_length; cbn [length]; lia.
  - apply loop_KB; [lia|exact PR].
Qed.

(* ---------------------------------------------------------------------- *)
(* the reference machine *)

Definition fresh (e : E) : core := init_core bid res e.

Fixpoint ref (ks : list kp) (st : list res * core) : list res * core :=
  match ks with
  | [] => st
  | k :: ks' =>
      let c' := send (IKey k) (snd st) in
      match cph c' with
      | CDone r => ref ks' (fst st ++ [r], fresh (restart (est c')))
      | _ => ref ks' (fst st, c')
      end
  end.

Definition st_eq (a b : list res * core) : Prop := fst a = fst b /\ core_eq (snd a) (snd b).
Lemma st_eq_refl a : st_eq a a.
Proof. split; [reflexivity|apply core_eq_refl]. Qed.
Lemma st_eq_trans a b c : st_eq a b -> st_eq b c -> st_eq a c.
Proof. intros [A1 A2] [B1 B2]. split; [congruence|eapply core_eq_trans; eassumption]. Qed.
Lemma st_eq_sym a b : st_eq a b -> st_eq b a.
Proof. intros [A1 A2]. split; [congruence|apply core_eq_sym; assumption]. Qed.

Lemma ref_congr ks : forall a b, st_eq a b -> st_eq (ref ks a) (ref ks b).
Proof.
  induction ks as [|k ks IH]; intros a b H; [exact H|]. cbn [ref].
  destruct H as [H1 H2]. pose proof (send_congr (IKey k) _ _ H2) as (S1 & S2 & S3).
  rewrite <- S3. destruct (cph (send (IKey k) (snd a))) eqn:PA.
  - apply IH. split; [exact H1|]. cbn [snd]. unfold core_eq. repeat split; congruence.
  - apply IH. split; cbn [fst snd]; [rewrite H1; reflexivity|]. rewrite S1. apply core_eq_refl.
  - apply IH. split; [exact H1|]. cbn [snd]. unfold core_eq. repeat split; congruence.
Qed.

Lemma ref_app a : forall b st, ref (a ++ b) st = ref b (ref a st).
Proof.
  induction a as [|k a IH]; intros b st; [reflexivity|]. cbn [app ref].
  destruct (cph (send (IKey k) (snd st))); apply IH.
Qed.

(* the reference view of a key processor with [rs] results already returned *)
Definition absc (rs : list res) (c : core) : list res * core :=
  match cph c with
  | CDone r => (rs ++ [r], fresh (restart (est c)))
  | _ => (rs, c)
  end.

Lemma absc_congr rs a b : core_eq a b -> st_eq (absc rs a) (absc rs b).
Proof.
  intros (H1 & H2 & H3). unfold absc. rewrite <- H3. destruct (cph a) eqn:PA.
  - split; [reflexivity|]. cbn [snd]. unfold core_eq. repeat split; congruence.
  - rewrite H1. apply st_eq_refl.
  - split; [reflexivity|]. cbn [snd]. unfold core_eq. repeat split; congruence.
Qed.

Definition KBr (c : core) : Prop := cph c = CRun res -> KB c.

Lemma KBr_congr a b : core_eq a b -> KBr a -> KBr b.
Proof. intros (H1 & H2 & H3) K P. unfold KB. rewrite <- H1, <- H2. apply K. congruence. Qed.

Lemma acc_clear (c : core) : pb c = [] -> acc (clear_pb c) = acc c.
Proof. intros P. unfold acc; cbn [kbuf pb clear_pb]. rewrite P. reflexivity. Qed.

Lemma pq_R q : forall (c : core) rs st,
  pb c = [] -> KBr c -> Forall nf q -> st_eq st (absc rs c) ->
  exists D, nc (acc (fst (process_q q c))) = nc (acc c) ++ D /\
            st_eq (ref D st) (absc rs (fst (process_q q c))) /\
            KBr (fst (process_q q c)) /\ pb (fst (process_q q c)) = [] /\
            (cph (fst (process_q q c)) = CRun res -> snd (process_q q c) = []).
Proof.
  induction q as [|it q IH]; intros c rs st P0 K F S; cbn [C17_Typeahead.process_q] in *.
  - exists []. rewrite app_nil_r. auto 6.
  - inversion F as [|? ? F1 F2]; subst.
    destruct (cph c) eqn:PH.
    + (* result not set: the item is popped *)
      destruct it as [k|]; [|exfalso; apply F1; reflexivity].
      cbn [fst snd C17_Typeahead.deliver].
      destruct (is_cpr k) eqn:CK.
      * pose proof (handle_cpr_core_eq k c) as CE.
        destruct (@handle_cpr_eq E bid res eff is_cprh cpr_lookup Hsil k c) as (_ & _ & _ & E4 & _).
        assert (CE' : core_eq (clear_pb (handle_cpr k c)) c).
        { destruct CE as (X1 & X2 & X3). unfold core_eq; cbn [est kbuf cph clear_pb]. auto. }
        destruct (IH (clear_pb (handle_cpr k c)) rs st eq_refl (KBr_congr _ _ (core_eq_sym _ _ CE') K) F2) as (D & A1 & A2 & A3 & A4 & A5).
        { eapply st_eq_trans; [exact S|]. apply absc_congr. apply core_eq_sym. exact CE'. }
        exists D. rewrite E4, P0. cbn [map app].
        split; [|auto]. rewrite A1, acc_clear; [|rewrite E4; exact P0].
        rewrite (@handle_cpr_acc E bid res eff is_cprh cpr_lookup k c CK). reflexivity.
      * assert (PB : pb (send (IKey k) c) = []) by (apply Hnp; [exact PH|exact P0|exact (K PH)]).
        assert (S2 : core_eq (snd st) c) by (destruct S as [_ S2]; unfold absc in S2; rewrite PH in S2; exact S2).
        pose proof (send_congr (IKey k) _ _ S2) as CE.
        assert (CE' : core_eq (send (IKey k) (snd st)) (clear_pb (send (IKey k) c))).
        { destruct CE as (X1 & X2 & X3). unfold core_eq; cbn [est kbuf cph clear_pb]. auto. }
        assert (K' : KBr (clear_pb (send (IKey k) c))).
        { intros X. cbn [cph clear_pb] in X. pose proof (send_KB (IKey k) c X) as Y. unfold KB in *. cbn [est kbuf clear_pb]. exact Y. }
        destruct (IH (clear_pb (send (IKey k) c)) rs (absc (fst st) (send (IKey k) (snd st))) eq_refl K' F2) as (D & A1 & A2 & A3 & A4 & A5).
        { destruct S as [S1 _]. unfold absc in S1. rewrite PH in S1. cbn [fst] in S1. rewrite S1.
          apply absc_congr. exact CE'. }
        exists (k :: D). rewrite PB. cbn [map app]. split; [|split; [|auto]].
        -- rewrite A1, acc_clear; [|exact PB]. rewrite (@send_acc_key E bid res lookup lookup_scan waits eff is_cprh k c P0), nc_app, (nc_single k CK), <- app_assoc. reflexivity.
        -- cbn [ref]. unfold absc in A2 at 1.
           destruct (cph (send (IKey k) (snd st))); exact A2.
    + (* result set: only reports are taken out *)
      assert (NR : not_run c) by (unfold not_run; congruence).
      destruct (item_is_cpr it) eqn:CI.
      * destruct it as [k|]; [|discriminate]. cbn [item_is_cpr] in CI. cbn [C17_Typeahead.deliver]. rewrite CI.
        pose proof (handle_cpr_core_eq k c) as CE.
        destruct (@handle_cpr_eq E bid res eff is_cprh cpr_lookup Hsil k c) as (_ & _ & _ & E4 & _).
        destruct (IH (handle_cpr k c) rs st (eq_trans E4 P0) (KBr_congr _ _ (core_eq_sym _ _ CE) K) F2) as (D & A1 & A2 & A3 & A4 & A5).
        { eapply st_eq_trans; [exact S|]. apply absc_congr. apply core_eq_sym. exact CE. }
        exists D. split; [|auto]. rewrite A1, (@handle_cpr_acc E bid res eff is_cprh cpr_lookup k c CI). reflexivity.
      * cbn [fst snd] in *. destruct (IH c rs st P0 K F2 S) as (D & A1 & A2 & A3 & A4 & A5).
        exists D. split; [exact A1|]. split; [exact A2|]. split; [exact A3|]. split; [exact A4|].
        intros X. exfalso.
        destruct (@process_q_done E bid res lookup lookup_scan waits eff is_cprh cpr_lookup q c NR) as (_ & _ & NR'). exact (NR' X).
    + exists []. rewrite app_nil_r. split; [reflexivity|]. split; [exact S|]. split; [exact K|]. split; [exact P0|]. intros X. cbn [fst] in X. congruence.
Qed.

(* ---------------------------------------------------------------------- *)
(* the refinement invariant *)

Definition abs (s : sys) : list res * core :=
  match at_ s with
  | Detached => (results s, fresh (restart (est (co s))))
  | _ => absc (results s) (co s)
  end.

Section Inv.
Variable e0 : E.
Definition R (s : sys) : Prop :=
  st_eq (ref (nc (acc (co s))) ([], fresh (restart e0))) (abs s).

Definition Ks (s : sys) : Prop := KBr (co s) /\ pb (co s) = [].

Lemma R_pk (s : sys) : at_ s <> Detached -> Ks s -> Forall nf (queue s) -> R s -> R (pk s) /\ Ks (pk s).
Proof.
  intros A (K & P0) F H. unfold R in *. unfold C17_Typeahead.pk in *. cbn [co with_co with_queue] in *.
  assert (AB : abs s = absc (results s) (co s)) by (unfold abs; destruct (at_ s); [contradiction| |]; reflexivity).
  rewrite AB in H.
  destruct (pq_R (queue s) (co s) (results s) _ P0 K F H) as (D & A1 & A2 & A3 & A4 & _).
  split; [|split; assumption].
  rewrite A1, ref_app. unfold abs, with_co, with_queue; cbn [at_ results co].
  destruct (at_ s); [contradiction| |]; exact A2.
Qed.

Lemma R_same (s s' : sys) : co s' = co s -> at_ s' = at_ s -> results s' = results s -> R s -> R s'.
Proof. intros H1 H2 H3. unfold R, abs. rewrite H1, H2, H3. auto. Qed.
Lemma Ks_same (s s' : sys) : co s' = co s -> Ks s -> Ks s'.
Proof. intros H1. unfold Ks. rewrite H1. auto. Qed.

Lemma R_finish r (s : sys) : at_ s <> Detached -> cph (co s) = CDone r -> R s -> R (finish r s).
Proof.
  intros A PH H. unfold R, abs, C17_Typeahead.finish in *; cbn [co at_ results].
  destruct (at_ s); [contradiction| |]; unfold absc in H; rewrite PH in H; exact H.
Qed.

Lemma R_core_eq (c' : core) (s : sys) :
  acc c' = acc (co s) -> core_eq (co s) c' -> R s -> R (with_co c' s).
Proof.
  intros HA HE H. unfold R in *. unfold with_co at 1. cbn [co]. rewrite HA.
  eapply st_eq_trans; [exact H|]. unfold abs, with_co; cbn [at_ results co].
  destruct (at_ s).
  - destruct HE as (E1 & _). rewrite E1. apply st_eq_refl.
  - apply absc_congr. exact HE.
  - apply absc_congr. exact HE.
Qed.

Lemma R_wcpr n (s : sys) : R s -> R (with_co (set_wcpr n (co s)) s).
Proof. intros H. apply R_core_eq; [reflexivity|unfold core_eq; auto|exact H]. Qed.
Lemma Ks_wcpr n (s : sys) : Ks s -> Ks (with_co (set_wcpr n (co s)) s).
Proof. intros H. exact H. Qed.

Definition quiet1 (l : label) : Prop := l <> LClose /\ l <> LFlushInput /\ l <> LFlushKeys.

Lemma R_do_read n (s : sys) : at_ s <> Detached -> Js s -> Ks s -> R s -> R (do_read n s) /\ Ks (do_read n s).
Proof.
  intros A (J & _ & _ & F & G & W) K H. unfold C17_Typeahead.do_read in *. cbv zeta in *. rewrite W in *.
  destruct (pipe s).
  - apply R_pk; assumption.
  - unfold C17_Typeahead.feed_keys in *. apply R_pk; cbn [co queue at_]; [exact A|exact K| |].
    + apply Forall_app; split; [exact F|apply nf_map].
    + eapply R_same; [| | |exact H]; reflexivity.
Qed.

Lemma R_step (s : sys) l : quiet1 l -> Js s -> Ks s -> R s -> R (step s l) /\ Ks (step s l).
Proof.
  intros (Q1 & Q2 & Q3) J K H. pose proof J as (Jc0 & D & Q & F & G & W).
  unfold C17_Typeahead.step in *.
  destruct (cph (co s)) eqn:PH; destruct l; try (split; [exact H|exact K]); try congruence.
  all: try (destruct (wclosed s); [split; [exact H|exact K]|];
            split; [eapply R_same; [| | |exact H]; reflexivity|eapply Ks_same; [|exact K]; reflexivity]).
  all: try (destruct (at_ s) eqn:A; try (split; [exact H|exact K]);
            try (apply R_do_read; [congruence|exact J|exact K|exact H]);
            try (destruct (wcpr (co s)); [split; [exact H|exact K]|apply R_do_read; [congruence|exact J|exact K|exact H]]);
            try (split; [apply R_wcpr; exact H|apply Ks_wcpr; exact K]); fail).
  - (* LStart, result not set *)
    destruct (at_ s) eqn:A; [|split; [exact H|exact K]|split; [exact H|exact K]].
    destruct (D eq_refl) as [D1 D2]. rewrite D1, D2 in *.
    destruct K as (K1 & K2).
    apply R_pk; cbn [co queue at_]; [congruence| |exact G|].
    + split; [|exact K2]. intros _. left. reflexivity.
    + unfold R, abs in *. cbn [co at_ results]. rewrite A in H. unfold absc; cbn [cph].
      unfold acc in *. cbn [kbuf pb] in *. rewrite D1, K2 in H. unfold logged in *. cbn [rlog rev] in *.
      rewrite K2, map_app, concat_app. cbn [map concat ev_keys]. rewrite !app_nil_r in *.
      eapply st_eq_trans; [exact H|]. split; [reflexivity|]. cbn [snd]. unfold core_eq, fresh, init_core; cbn [est kbuf cph]. auto.
  - (* LStart, result of the previous prompt still recorded *)
    destruct (at_ s) eqn:A; [|split; [exact H|exact K]|split; [exact H|exact K]].
    destruct (D eq_refl) as [D1 D2]. rewrite D1, D2 in *.
    destruct K as (K1 & K2).
    apply R_pk; cbn [co queue at_]; [congruence| |exact G|].
    + split; [|exact K2]. intros _. left. reflexivity.
    + unfold R, abs in *. cbn [co at_ results]. rewrite A in H. unfold absc; cbn [cph].
      unfold acc in *. cbn [kbuf pb] in *. rewrite D1, K2 in H. unfold logged in *. cbn [rlog rev] in *.
      rewrite K2, map_app, concat_app. cbn [map concat ev_keys]. rewrite !app_nil_r in *.
      eapply st_eq_trans; [exact H|]. split; [reflexivity|]. cbn [snd]. unfold core_eq, fresh, init_core; cbn [est kbuf cph]. auto.
  - (* LExit *)
    destruct (at_ s) eqn:A; [split; [exact H|exact K]| |split; [exact H|exact K]].
    destruct (rcpr s && negb (Nat.eqb (wcpr (co s)) 0)).
    + split; [|exact K]. unfold R, abs in *. cbn [co at_ results]. rewrite A in H. exact H.
    + split; [apply R_finish; [congruence|exact PH|exact H]|exact K].
  - (* LExitEnd *)
    destruct (at_ s) eqn:A; try (split; [exact H|exact K]). destruct (wcpr (co s)); [|split; [exact H|exact K]].
    split; [apply R_finish; [congruence|exact PH|exact H]|exact K].
  - (* LCprTimeout *)
    destruct (at_ s) eqn:A; try (split; [exact H|exact K]).
    split; [apply R_finish; [cbn [at_ with_co]; congruence|exact PH|apply R_wcpr; exact H]|exact K].
Qed.

Lemma run_R ls : forall s : sys, quiet ls -> Js s -> Ks s -> R s -> R (run ls s).
Proof.
  induction ls as [|l ls IH]; intros s Q J K H; [exact H|]. cbn [C17_Typeahead.run fold_left] in *.
  inversion Q as [|? ? Q1 Q2]; subst.
  destruct (R_step s l Q1 J K H) as (H' & K').
  apply IH; [exact Q2| |exact K'|exact H'].
  apply (@Js_step E bid res PS lookup lookup_scan waits eff is_cprh cpr_lookup restart pfeed pflush res_eof Hsil);
    [exact (proj1 Q1)|exact J].
Qed.

End Inv.
(* ---------------------------------------------------------------------- *)
(* scripts *)

Definition runline (c : core) (l : list kp) : core := fold_left (fun c k => send (IKey k) c) l c.

Inductive lines_ok : E -> list (list kp) -> list res -> Prop :=
| LO_nil e : lines_ok e [] []
| LO_cons e l ls r rs :
    (forall p q, l = p ++ q -> q <> [] -> cph (runline (fresh e) p) = CRun res) ->
    cph (runline (fresh e) l) = CDone r ->
    lines_ok (restart (est (runline (fresh e) l))) ls rs ->
    lines_ok e (l :: ls) (r :: rs).

Lemma ref_line l : forall (c : core) rs0, cph c = CRun res ->
  (forall p q, l = p ++ q -> q <> [] -> cph (runline c p) = CRun res) ->
  ref l (rs0, c) = absc rs0 (runline c l).
Proof.
  induction l as [|k l IH]; intros c rs0 PH H.
  - cbn [ref runline fold_left]. unfold absc. rewrite PH. reflexivity.
  - cbn [ref runline fold_left snd fst].
    destruct (cph (send (IKey k) c)) eqn:P1.
    + apply IH; [exact P1|]. intros p q EQ NE. apply (H (k :: p) q); [cbn [app]; rewrite EQ; reflexivity|exact NE].
    + destruct l as [|k2 l2].
      * cbn [ref fold_left]. unfold absc. rewrite P1. reflexivity.
      * exfalso. pose proof (H [k] (k2 :: l2) eq_refl ltac:(discriminate)) as X.
        cbn [runline fold_left] in X. congruence.
    + destruct l as [|k2 l2].
      * cbn [ref fold_left]. unfold absc. rewrite P1. reflexivity.
      * exfalso. pose proof (H [k] (k2 :: l2) eq_refl ltac:(discriminate)) as X.
        cbn [runline fold_left] in X. congruence.
Qed.

Lemma ref_lines e lines rs : lines_ok e lines rs ->
  forall K tail rs0, K ++ tail = concat lines ->
  exists n, fst (ref K (rs0, fresh e)) = rs0 ++ firstn n rs.
Proof.
  induction 1 as [e|e l ls r rs H1 H2 H3 IH]; intros K tail rs0 EQ.
  - cbn [concat] in EQ. apply app_eq_nil in EQ. destruct EQ as [-> _]. exists O. cbn. now rewrite app_nil_r.
  - cbn [concat] in EQ. apply app_eq_app in EQ. destruct EQ as (m & [[EK ET]|[EL ET]]).
    + (* the whole first line has been fed *)
      subst K. rewrite ref_app, (ref_line l (fresh e) rs0 eq_refl H1). unfold absc. rewrite H2.
      destruct (IH m tail (rs0 ++ [r]) (eq_sym ET)) as (n & Hn). exists (S n).
      rewrite Hn, <- app_assoc. reflexivity.
    + destruct m as [|k0 m].
      * rewrite app_nil_r in EL. subst K. rewrite (ref_line l (fresh e) rs0 eq_refl H1). unfold absc. rewrite H2.
        exists 1%nat. reflexivity.
      * rewrite (ref_line K (fresh e) rs0 eq_refl).
        -- unfold absc. rewrite (H1 K (k0 :: m) EL ltac:(discriminate)). exists O. cbn. now rewrite app_nil_r.
        -- intros p q EQ NE. apply (H1 p (q ++ k0 :: m)); [rewrite EL, EQ, <- app_assoc; reflexivity|].
           destruct q; [contradiction|discriminate].
Qed.

Lemma abs_results (s : sys) : exists x, fst (abs s) = results s ++ x.
Proof.
  unfold abs, absc. destruct (at_ s); [exists []; cbn; now rewrite app_nil_r| |];
    (destruct (cph (co s)); [exists []; cbn; now rewrite app_nil_r|eexists; reflexivity|exists []; cbn; now rewrite app_nil_r]).
Qed.

Lemma firstn_prefix {T} (a x rs : list T) n : a ++ x = firstn n rs -> a = firstn (length a) rs.
Proof.
  revert rs n. induction a as [|y a IH]; intros rs n H; [reflexivity|].
  destruct n; [discriminate|]. destruct rs as [|z rs]; [discriminate|].
  cbn [firstn app length] in *. inversion H; subst. f_equal. eapply IH. eassumption.
Qed.

Lemma script ls e p r lines rs :
  quiet ls ->
  let s := run ls (@init E bid res PS e p r) in
  lines_ok (restart e) lines rs ->
  (exists tail, nc (decoded s) ++ tail = concat lines) ->
  results s = firstn (length (results s)) rs.
Proof.
  intros Q s LO (tail & T).
  assert (RR : R e s).
  { apply run_R; [exact Q|apply Js_init| |].
    - split; [intros _; left; reflexivity|reflexivity].
    - unfold R, abs, init, acc, logged; cbn. apply st_eq_refl. }
  destruct (@inv_run E bid res PS lookup lookup_scan waits eff is_cprh cpr_lookup restart pfeed pflush res_eof ls
              (@init E bid res PS e p r) (inv_init E bid res PS e p r)) as (CONS & _).
  fold s in CONS. rewrite <- CONS, <- app_assoc in T.
  destruct (ref_lines (restart e) lines rs LO _ _ [] T) as (n & Hn).
  destruct RR as [R1 _]. rewrite R1 in Hn. cbn [app] in Hn.
  destruct (abs_results s) as (x & X). rewrite X in Hn.
  eapply firstn_prefix. exact Hn.
Qed.

End P.
Arguments no_pushback {E bid res} lookup lookup_scan waits eff is_cprh.
Arguments KB {E bid res} waits c.
