(* C09 - exact effect of the emacs kill commands, kill-then-yank, yank-pop. *)
From Coq Require Import ZArith List Bool Lia PeanoNat.
From PTK Require Import Lib.Sx Lib.Py Model.Document Model.BufferEdit Proofs.BufferEditFacts
  Model.C09_Kill Proofs.C09_Ring.
Import ListNotations.
Open Scope Z_scope.

(* ---------------------------------------------------------------------- *)
(* list facts *)

Lemma skipn_skipn' {T} (l : list T) : forall y x, skipn x (skipn y l) = skipn (y + x) l.
Proof.
  induction l as [|a l IH]; intros y x.
  - now rewrite !skipn_nil.
  - destruct y as [|y]; [reflexivity|]. cbn [skipn Nat.add]. apply IH.
Qed.

Lemma split3 {T} (t : list T) a k :
  0 <= a -> 0 <= k -> a + k <= len t ->
  t = firstn (Z.to_nat a) t ++ firstn (Z.to_nat k) (skipn (Z.to_nat a) t) ++ skipn (Z.to_nat (a + k)) t
  /\ len (firstn (Z.to_nat a) t) = a
  /\ len (firstn (Z.to_nat k) (skipn (Z.to_nat a) t)) = k.
Proof.
  intros Ha Hk Hl. split; [|split].
  - rewrite <- (firstn_skipn (Z.to_nat a) t) at 1. f_equal.
    rewrite <- (firstn_skipn (Z.to_nat k) (skipn (Z.to_nat a) t)) at 1. f_equal.
    rewrite skipn_skipn'. f_equal. lia.
  - rewrite len_firstn. lia.
  - rewrite len_firstn, len_skipn. lia.
Qed.

Lemma firstn_app_len {T} (a b : list T) : firstn (Z.to_nat (len a)) (a ++ b) = a.
Proof.
  unfold len. rewrite Nat2Z.id. rewrite firstn_app, Nat.sub_diag, firstn_all. cbn [firstn].
  now rewrite app_nil_r.
Qed.

Lemma skipn_app_len {T} (a b : list T) : skipn (Z.to_nat (len a)) (a ++ b) = b.
Proof.
  unfold len. rewrite Nat2Z.id. rewrite skipn_app, Nat.sub_diag, skipn_all. reflexivity.
Qed.

Lemma slice_to_prefix {T} (s : list T) n :
  exists k, 0 <= k <= len s /\ slice_to s n = firstn (Z.to_nat k) s.
Proof.
  unfold slice_to, slice. pose proof (len_nonneg s) as Hs.
  set (b := adj_index (len s) n).
  assert (Hb : 0 <= b <= len s).
  { unfold b, adj_index. destruct (n <? 0) eqn:En; lia. }
  destruct (0 <? b) eqn:E.
  - exists b. split; [lia|]. rewrite Z.sub_0_r. reflexivity.
  - exists 0. split; [lia|]. reflexivity.
Qed.

(* ---------------------------------------------------------------------- *)
(* Buffer.delete with ANY count (negative counts are Python's s[:-n]):
   what it returns is a span starting at the cursor, and exactly that span is
   removed. *)
Lemma delete_any b n :
  Inv b ->
  exists k, 0 <= k <= len (btext b) - bcur b /\
    delete b n =
    Ok (mkbuf (firstn (Z.to_nat (bcur b)) (btext b) ++ skipn (Z.to_nat (bcur b + k)) (btext b))
              (bcur b))
       (firstn (Z.to_nat k) (skipn (Z.to_nat (bcur b)) (btext b))).
Proof.
  intros [H0 H1]. unfold delete.
  destruct (bcur b <? len (btext b)) eqn:Ec.
  - unfold text_after_cursor, bdoc; cbn [dtext dcur].
    rewrite (slice_from_in_range (btext b) (bcur b)) by lia.
    set (after := skipn (Z.to_nat (bcur b)) (btext b)).
    assert (Hla : len after = len (btext b) - bcur b) by (unfold after; rewrite len_skipn; lia).
    destruct (slice_to_prefix after (Z.max 0 n)) as [k [Hk Hdel]].
    exists k. split; [lia|]. rewrite Hdel.
    set (del := firstn (Z.to_nat k) after).
    assert (Hld : len del = k) by (unfold del; rewrite len_firstn; lia).
    rewrite Hld.
    rewrite slice_to_in_range, slice_from_in_range by lia.
    unfold set_text; cbn [bcur btext].
    match goal with |- context [len ?x <? _] => set (t' := x) end.
    assert (len t' = len (btext b) - k).
    { unfold t'. rewrite len_app, len_firstn, len_skipn. lia. }
    destruct (len t' <? bcur b) eqn:E; [lia|]. reflexivity.
  - exists 0. split; [lia|]. assert (Hc : bcur b = len (btext b)) by lia.
    rewrite Z.add_0_r. cbn [Z.to_nat firstn].
    rewrite Hc. unfold len. rewrite Nat2Z.id, skipn_all, firstn_all, app_nil_r.
    destruct b as [t c]; cbn in *. subst. reflexivity.
Qed.

(* ---------------------------------------------------------------------- *)
(* "killed": the text was pre ++ removed ++ post, it is now pre ++ post with
   the cursor between them, removed was next to the old cursor (after it for a
   forward kill, before it for a backward kill), and the new ring is the old
   one with [acc removed] pushed (type CHARACTERS). *)
Definition killed (fwd : bool) (s : st) (o : out) (acc : str -> str) : Prop :=
  exists pre removed post,
    btext (sb s) = pre ++ removed ++ post /\
    fst o = 0 /\
    btext (sb (snd o)) = pre ++ post /\
    bcur (sb (snd o)) = len pre /\
    (if fwd then len pre = bcur (sb s) else len pre + len removed = bcur (sb s)) /\
    sring (snd o) = ring_set (sring s) (mkclip (acc removed) CHARACTERS).

Lemma kill_with_fwd s n acc :
  Inv (sb s) -> killed true s (kill_with s (delete (sb s) n) acc) acc.
Proof.
  intros Hi. destruct (delete_any (sb s) n Hi) as [k [Hk ->]].
  destruct Hi as [H0 H1].
  destruct (split3 (btext (sb s)) (bcur (sb s)) k) as [Ht [Hl1 Hl2]]; try lia.
  eexists _, _, _. split; [exact Ht|].
  cbn [kill_with ok fst snd with_ring upd with_buf sb sring btext bcur].
  repeat split; try reflexivity. symmetry. exact Hl1. exact Hl1.
Qed.

Lemma kill_with_bwd s n acc :
  Inv (sb s) -> 0 <= n -> killed false s (kill_with s (delete_before_cursor (sb s) n) acc) acc.
Proof.
  intros Hi Hn. rewrite (delete_before_cursor_spec (sb s) n Hi Hn).
  destruct Hi as [H0 H1].
  set (k := Z.min n (bcur (sb s))).
  assert (Hk : 0 <= k <= bcur (sb s)) by (unfold k; lia).
  destruct (split3 (btext (sb s)) (bcur (sb s) - k) k) as [Ht [Hl1 Hl2]]; try lia.
  replace (bcur (sb s) - k + k) with (bcur (sb s)) in Ht by lia.
  eexists _, _, _. split; [exact Ht|].
  cbn [kill_with ok fst snd with_ring upd with_buf sb sring btext bcur].
  repeat split; try reflexivity.
  - symmetry; exact Hl1.
  - rewrite Hl1, Hl2. lia.
Qed.

(* ---------------------------------------------------------------------- *)
(* kill-line *)
Lemma kill_line_exact s arg :
  Inv (sb s) -> killed (negb (arg <? 0)) s (kill_line s arg) (fun x => x).
Proof.
  intros Hi. unfold kill_line.
  destruct (arg <? 0) eqn:Ea; cbn [negb].
  - apply kill_with_bwd; [exact Hi|].
    unfold get_start_of_line_position.
    pose proof (len_nonneg (current_line_before_cursor (bdoc (sb s)))). lia.
  - destruct (current_char_is_nl (bdoc (sb s))); apply kill_with_fwd; exact Hi.
Qed.

(* kill-word: either nothing is found and nothing changes, or a span after the
   cursor is killed; on a repeat the previous ring head is prepended. *)
Lemma kill_word_exact s arg rep :
  Inv (sb s) ->
  kill_word s arg rep = ok s \/
  killed true s (kill_word s arg rep)
         (fun del => if rep then ctext (ring_get (sring s)) ++ del else del).
Proof.
  intros Hi. unfold kill_word.
  destruct (find_next_word_ending (bdoc (sb s)) arg) as [pos|]; [|now left].
  destruct (pos =? 0); [now left|]. right. apply kill_with_fwd. exact Hi.
Qed.

(* spans have non-negative ends *)
Lemma spans_aux_bounds big s : forall i cur i0,
  i0 <= i -> (forall k st, cur = Some (k, st) -> i0 <= st) ->
  Forall (fun p => i0 <= fst p /\ i0 <= snd p) (spans_aux big s i cur).
Proof.
  induction s as [|c r IH]; intros i cur i0 Hi Hc; cbn [spans_aux].
  - destruct cur as [[k st]|]; constructor; [|constructor].
    cbn [fst snd]. split; [eapply Hc; reflexivity|lia].
  - set (next := if cls big c =? 0 then None else Some (cls big c, i)).
    assert (Hn : forall k st, next = Some (k, st) -> i0 <= st).
    { unfold next. intros k st. destruct (cls big c =? 0); [discriminate|].
      intros H; injection H as _ <-. exact Hi. }
    destruct cur as [[k0 st]|].
    + destruct (cls big c =? k0).
      * apply IH; [lia|exact Hc].
      * constructor.
        -- cbn [fst snd]. split; [eapply Hc; reflexivity|lia].
        -- apply IH; [lia|exact Hn].
    + apply IH; [lia|exact Hn].
Qed.

Lemma nth_span_bounds big s count a e :
  nth_span (spans big s) count = Some (a, e) -> 0 <= a /\ 0 <= e.
Proof.
  unfold nth_span. destruct (count <? 1); [discriminate|]. intros H.
  apply nth_error_In in H.
  pose proof (spans_aux_bounds big s 0 None 0 (Z.le_refl 0)) as Hb.
  unfold spans in H. rewrite Forall_forall in Hb.
  apply (Hb (fun k st Hx => ltac:(discriminate)) (a, e) H).
Qed.

(* unix-word-rubout / backward-kill-word *)
Lemma unix_word_rubout_exact s arg rep big :
  Inv (sb s) ->
  unix_word_rubout s arg rep big = ok s \/
  killed false s (unix_word_rubout s arg rep big)
         (fun del => if rep then del ++ ctext (ring_get (sring s)) else del).
Proof.
  intros Hi. unfold unix_word_rubout.
  set (pos := match find_start_of_previous_word _ _ _ with Some p => p | None => _ end).
  assert (Hp : pos <= 0).
  { unfold pos, find_start_of_previous_word.
    destruct (nth_span _ arg) as [[a e]|] eqn:E.
    - apply nth_span_bounds in E. lia.
    - destruct Hi. lia. }
  destruct (pos =? 0); [now left|]. right. apply kill_with_bwd; [exact Hi|lia].
Qed.

(* unix-line-discard: the exception at column 0 (one character before the
   cursor goes, the ring is untouched), otherwise a backward kill of the line
   before the cursor. *)
Lemma unix_line_discard_col0 s :
  Inv (sb s) ->
  cursor_position_col (bdoc (sb s)) = 0 -> 0 < bcur (sb s) ->
  exists s', unix_line_discard s = (0, s') /\
    btext (sb s') = firstn (Z.to_nat (bcur (sb s) - 1)) (btext (sb s))
                    ++ skipn (Z.to_nat (bcur (sb s))) (btext (sb s)) /\
    bcur (sb s') = bcur (sb s) - 1 /\
    sring s' = sring s.
Proof.
  intros Hi Hc Hp. unfold unix_line_discard. rewrite Hc.
  destruct (0 <? bcur (sb s)) eqn:E; [|lia]. cbn [Z.eqb andb].
  rewrite (delete_before_cursor_spec (sb s) 1 Hi) by lia.
  replace (Z.min 1 (bcur (sb s))) with 1 by lia.
  eexists. split; [reflexivity|].
  cbn [upd with_buf sb sring btext bcur]. repeat split.
Qed.

Lemma unix_line_discard_else s :
  Inv (sb s) ->
  (cursor_position_col (bdoc (sb s)) =? 0) && (0 <? bcur (sb s)) = false ->
  killed false s (unix_line_discard s) (fun x => x)
  /\ exists s', unix_line_discard s = (0, s') /\
       ctext (ring_get (sring s')) = current_line_before_cursor (bdoc (sb s)).
Proof.
  intros Hi Hc. unfold unix_line_discard. rewrite Hc.
  assert (Hn : 0 <= - get_start_of_line_position (bdoc (sb s)) false).
  { unfold get_start_of_line_position.
    pose proof (len_nonneg (current_line_before_cursor (bdoc (sb s)))). lia. }
  split; [apply kill_with_bwd; assumption|].
  rewrite (delete_before_cursor_spec (sb s) _ Hi Hn).
  eexists. split; [reflexivity|].
  cbn [with_ring sring]. unfold ring_set_text. rewrite ring_get_set. cbn [ctext].
  (* the returned text is the current line before the cursor *)
  unfold get_start_of_line_position. rewrite Z.opp_involutive.
  set (clb := current_line_before_cursor (bdoc (sb s))).
  (* clb is a suffix of the text before the cursor *)
  assert (Hsuf : exists p, firstn (Z.to_nat (bcur (sb s))) (btext (sb s)) = p ++ clb).
  { unfold clb, current_line_before_cursor, text_before_cursor, bdoc; cbn [dtext dcur].
    destruct Hi as [H0 H1]. rewrite slice_to_in_range by lia.
    set (tb := firstn _ _). unfold after_last.
    assert (Hg : forall l : str, exists q, l = before_first NL l ++ q).
    { induction l as [|x l [q IHq]]; [exists []; reflexivity|].
      cbn [before_first]. destruct (x =? NL); [exists (x :: l); reflexivity|].
      exists q. cbn [app]. now rewrite <- IHq. }
    destruct (Hg (rev tb)) as [q Hq]. exists (rev q).
    rewrite <- (rev_involutive tb) at 1. rewrite Hq at 1. now rewrite rev_app_distr. }
  destruct Hsuf as [p Hp].
  destruct Hi as [H0 H1].
  assert (Hlen : len p + len clb = bcur (sb s)).
  { rewrite <- len_app, <- Hp, len_firstn. lia. }
  pose proof (len_nonneg p) as Hp0.
  rewrite Z.min_l by lia.
  replace (bcur (sb s) - len clb) with (len p) by lia.
  (* skipn (len p) text = clb ++ rest *)
  rewrite <- (firstn_skipn (Z.to_nat (bcur (sb s))) (btext (sb s))), Hp.
  rewrite <- app_assoc, skipn_app_len, firstn_app_len. reflexivity.
Qed.

(* ---------------------------------------------------------------------- *)
(* Pasting CHARACTERS data in EMACS mode *)

Lemma len_repeat_str (x : str) n : len (repeat_str x n) = len x * Z.of_nat n.
Proof.
  induction n as [|n IH]; cbn [repeat_str]; [rewrite len_nil; lia|].
  rewrite len_app, IH. lia.
Qed.

Lemma doc_paste_chars_emacs t c data n :
  0 <= c <= len t -> ctype data = CHARACTERS -> 1 <= n ->
  doc_paste (mkdoc t c) data EMACS n =
  Some (firstn (Z.to_nat c) t ++ str_mul (ctext data) n ++ skipn (Z.to_nat c) t,
        c + len (ctext data) * n).
Proof.
  intros Hc Hty Hn. unfold doc_paste.
  destruct (n <? 1) eqn:En; [lia|]. rewrite Hty.
  change (CHARACTERS =? CHARACTERS) with true. cbn [dtext dcur].
  change (EMACS =? VI_BEFORE) with false. change (EMACS =? VI_AFTER) with false.
  unfold text_before_cursor, text_after_cursor; cbn [dtext dcur].
  rewrite slice_to_in_range, slice_from_in_range by lia.
  unfold mk_document.
  match goal with |- context [len ?x <? _] => set (t' := x) end.
  assert (Hl : len t' = len t + len (str_mul (ctext data) n)).
  { unfold t'. rewrite !len_app. pose proof (firstn_skipn_len t (Z.to_nat c)). lia. }
  assert (Hm : len (ctext data) * n <= len (str_mul (ctext data) n)).
  { unfold str_mul. rewrite len_repeat_str. pose proof (len_nonneg (ctext data)).
    destruct (Z.le_gt_cases 0 n); [rewrite Z2Nat.id by lia; lia|].
    replace (Z.to_nat n) with O by lia. nia. }
  destruct (len t' <? c + len (ctext data) * n) eqn:E; [lia|]. reflexivity.
Qed.

Lemma str_mul_1 (x : str) : str_mul x 1 = x.
Proof. unfold str_mul. change (Z.to_nat 1) with 1%nat. cbn [repeat_str]. apply app_nil_r. Qed.

(* yank with argument 1 in a consistent state *)
Lemma yank_1 s :
  Inv (sb s) -> ctype (ring_get (sring s)) = CHARACTERS ->
  exists s', yank s 1 = (0, s') /\
    btext (sb s') = firstn (Z.to_nat (bcur (sb s))) (btext (sb s))
                    ++ ctext (ring_get (sring s))
                    ++ skipn (Z.to_nat (bcur (sb s))) (btext (sb s)) /\
    bcur (sb s') = bcur (sb s) + len (ctext (ring_get (sring s))) /\
    sring s' = sring s /\
    sdbp s' = Some (btext (sb s), bcur (sb s)).
Proof.
  intros [H0 H1] Hty. unfold yank, buf_paste, cur_doc, bdoc.
  rewrite doc_paste_chars_emacs by (try exact Hty; lia).
  rewrite str_mul_1, Z.mul_1_r.
  eexists. split; [reflexivity|].
  cbn [with_dbp set_doc upd with_buf sb sring sdbp btext bcur].
  pose proof (len_nonneg (ctext (ring_get (sring s)))).
  repeat split. lia.
Qed.

(* kill, then yank at the resulting cursor: the original text is back *)
Lemma kill_then_yank_restores fwd s o :
  killed fwd s o (fun x => x) ->
  exists s2, yank (snd o) 1 = (0, s2) /\ btext (sb s2) = btext (sb s) /\ sring s2 = sring (snd o).
Proof.
  intros [pre [removed [post [Ht [_ [Ht1 [Hc1 [_ Hr]]]]]]]].
  assert (Hi : Inv (sb (snd o))).
  { unfold Inv. rewrite Ht1, Hc1, len_app. pose proof (len_nonneg pre). pose proof (len_nonneg post). lia. }
  assert (Hh : ring_get (sring (snd o)) = mkclip removed CHARACTERS) by (rewrite Hr; apply ring_get_set).
  destruct (yank_1 (snd o) Hi) as [s2 [Hy [Ht2 [_ [Hr2 _]]]]]; [rewrite Hh; reflexivity|].
  exists s2. split; [exact Hy|]. split; [|exact Hr2].
  rewrite Ht2, Hh, Ht1, Hc1. cbn [ctext]. rewrite firstn_app_len, skipn_app_len. now rewrite Ht.
Qed.

(* two consecutive forward word kills accumulate in text order, and one yank
   brings back the text from before the first of them *)
Lemma two_forward_kills_then_yank s o1 o2 :
  killed true s o1 (fun x => x) ->
  killed true (snd o1) o2 (fun del => ctext (ring_get (sring (snd o1))) ++ del) ->
  (exists r1 r2, ctext (ring_get (sring (snd o2))) = r1 ++ r2 /\
                 ctext (ring_get (sring (snd o1))) = r1 /\
                 exists pre post, btext (sb s) = pre ++ r1 ++ r2 ++ post /\ len pre = bcur (sb s)) /\
  exists s3, yank (snd o2) 1 = (0, s3) /\ btext (sb s3) = btext (sb s).
Proof.
  intros [pre [r1 [post1 [Ht [_ [Ht1 [Hc1 [Hf1 Hr1]]]]]]]].
  intros [pre' [r2 [post2 [Ht' [_ [Ht2 [Hc2 [Hf2 Hr2]]]]]]]].
  assert (Hh1 : ring_get (sring (snd o1)) = mkclip r1 CHARACTERS) by (rewrite Hr1; apply ring_get_set).
  rewrite Hh1 in Hr2. cbn [ctext] in Hr2.
  assert (Hh2 : ring_get (sring (snd o2)) = mkclip (r1 ++ r2) CHARACTERS) by (rewrite Hr2; apply ring_get_set).
  (* pre' = pre: both are the prefix of length cursor of the text after the first kill *)
  assert (Hpre : pre' = pre /\ post1 = r2 ++ post2).
  { rewrite Hc1 in Hf2. rewrite Ht1 in Ht'.
    assert (E1 : firstn (Z.to_nat (len pre)) (pre ++ post1) = pre) by apply firstn_app_len.
    assert (E2 : firstn (Z.to_nat (len pre')) (pre' ++ r2 ++ post2) = pre') by apply firstn_app_len.
    rewrite Ht' in E1. rewrite <- Hf2 in E1. rewrite E2 in E1. split; [exact E1|].
    subst pre'. now apply app_inv_head in Ht'. }
  destruct Hpre as [-> ->].
  split.
  - exists r1, r2. rewrite Hh2, Hh1. cbn [ctext]. repeat split.
    exists pre, post2. split; [exact Ht|exact Hf1].
  - assert (Hi : Inv (sb (snd o2))).
    { unfold Inv. rewrite Ht2, Hc2, len_app. pose proof (len_nonneg pre). pose proof (len_nonneg post2). lia. }
    destruct (yank_1 (snd o2) Hi) as [s3 [Hy [Ht3 _]]]; [rewrite Hh2; reflexivity|].
    exists s3. split; [exact Hy|].
    rewrite Ht3, Hh2, Ht2, Hc2. cbn [ctext]. rewrite firstn_app_len, skipn_app_len.
    rewrite Ht. now rewrite <- !app_assoc.
Qed.

(* ... and the same for two backward word kills (unix-word-rubout, backward-kill-word) *)
Lemma two_backward_kills_then_yank s o1 o2 :
  killed false s o1 (fun x => x) ->
  killed false (snd o1) o2 (fun del => del ++ ctext (ring_get (sring (snd o1)))) ->
  (exists r1 r2, ctext (ring_get (sring (snd o2))) = r2 ++ r1 /\
                 ctext (ring_get (sring (snd o1))) = r1 /\
                 exists pre post, btext (sb s) = pre ++ r2 ++ r1 ++ post /\
                                  len pre + len r2 + len r1 = bcur (sb s)) /\
  exists s3, yank (snd o2) 1 = (0, s3) /\ btext (sb s3) = btext (sb s).
Proof.
  intros [pre [r1 [post1 [Ht [_ [Ht1 [Hc1 [Hf1 Hr1]]]]]]]].
  intros [pre' [r2 [post2 [Ht' [_ [Ht2 [Hc2 [Hf2 Hr2]]]]]]]].
  assert (Hh1 : ring_get (sring (snd o1)) = mkclip r1 CHARACTERS) by (rewrite Hr1; apply ring_get_set).
  rewrite Hh1 in Hr2. cbn [ctext] in Hr2.
  assert (Hh2 : ring_get (sring (snd o2)) = mkclip (r2 ++ r1) CHARACTERS) by (rewrite Hr2; apply ring_get_set).
  (* pre = pre' ++ r2, post2 = post1 *)
  assert (Hpre : pre = pre' ++ r2 /\ post2 = post1).
  { rewrite Hc1 in Hf2. rewrite Ht1 in Ht'.
    assert (E1 : firstn (Z.to_nat (len pre)) (pre ++ post1) = pre) by apply firstn_app_len.
    rewrite Ht' in E1. rewrite <- Hf2, <- len_app in E1.
    rewrite app_assoc in E1. rewrite firstn_app_len in E1.
    split; [now symmetry|]. rewrite <- E1 in Ht'. rewrite <- app_assoc in Ht'.
    do 2 apply app_inv_head in Ht'. now symmetry. }
  destruct Hpre as [-> ->].
  split.
  - exists r1, r2. rewrite Hh2, Hh1. cbn [ctext]. repeat split.
    exists pre', post1. split.
    + rewrite Ht. now rewrite <- !app_assoc.
    + rewrite len_app in Hf1. lia.
  - assert (Hi : Inv (sb (snd o2))).
    { unfold Inv. rewrite Ht2, Hc2, len_app. pose proof (len_nonneg pre'). pose proof (len_nonneg post1). lia. }
    destruct (yank_1 (snd o2) Hi) as [s3 [Hy [Ht3 _]]]; [rewrite Hh2; reflexivity|].
    exists s3. split; [exact Hy|].
    rewrite Ht3, Hh2, Ht2, Hc2. cbn [ctext]. rewrite firstn_app_len, skipn_app_len.
    rewrite Ht. now rewrite <- !app_assoc.
Qed.
