(* C19 - Style.from_dict with Priority.MOST_PRECISE: the rule order is the
   stable sort by precision, and the cascade theorems apply to that order. *)
From Coq Require Import ZArith List Bool Lia Sorting.Permutation Sorting.Sorted.
From PTK Require Import Lib.Py Lib.C19_Str Model.C19_Style Model.C19_FromDict Proofs.C19_StyleFacts.
Import ListNotations.
Open Scope Z_scope.

Section Sort.
  Context {T : Type} (k : T -> Z).

  Lemma insert_perm : forall x l, Permutation (insert_by k x l) (x :: l).
  Proof.
    intros x. induction l as [|y r IH]; cbn [insert_by]; [reflexivity|].
    destruct (k x <=? k y); [reflexivity|].
    rewrite IH. apply perm_swap.
  Qed.

  Lemma sorted_perm : forall l, Permutation (sorted_by k l) l.
  Proof.
    induction l as [|x r IH]; cbn [sorted_by]; [reflexivity|].
    rewrite insert_perm. constructor. exact IH.
  Qed.

  Definition le_key (a b : T) : Prop := k a <= k b.

  Lemma insert_sorted : forall x l, StronglySorted le_key l -> StronglySorted le_key (insert_by k x l).
  Proof.
    intros x. induction l as [|y r IH]; intros H; cbn [insert_by].
    - constructor; constructor.
    - inversion H as [|? ? Hr Hy]; subst. destruct (k x <=? k y) eqn:E.
      + apply Z.leb_le in E. constructor; [exact H|].
        constructor; [exact E|]. eapply Forall_impl; [|exact Hy]. intros a Ha. unfold le_key in *. lia.
      + apply Z.leb_gt in E. constructor; [apply IH; exact Hr|].
        apply Forall_forall. intros a Ha.
        apply (Permutation_in _ (insert_perm x r)) in Ha. destruct Ha as [<- | Ha].
        * unfold le_key. lia.
        * exact (proj1 (Forall_forall _ _) Hy _ Ha).
  Qed.

  Lemma sorted_sorted : forall l, StronglySorted le_key (sorted_by k l).
  Proof.
    induction l as [|x r IH]; cbn [sorted_by]; [constructor | apply insert_sorted; exact IH].
  Qed.

  (* stability: items with equal keys keep their relative order *)
  Definition key_is (v : Z) (y : T) : bool := k y =? v.

  Lemma filter_insert : forall v x l,
    StronglySorted le_key l ->
    filter (key_is v) (insert_by k x l) =
    if k x =? v then x :: filter (key_is v) l else filter (key_is v) l.
  Proof.
    intros v x. induction l as [|y r IH]; intros Hs; cbn [insert_by].
    - cbn [filter]. unfold key_is. destruct (k x =? v); reflexivity.
    - inversion Hs as [|? ? Hr Hy]; subst. destruct (k x <=? k y) eqn:E.
      + cbn [filter]. unfold key_is at 1. destruct (k x =? v); reflexivity.
      + apply Z.leb_gt in E. cbn [filter]. rewrite (IH Hr).
        change (key_is v y) with (k y =? v).
        destruct (k x =? v) eqn:Ex; destruct (k y =? v) eqn:Ey; try reflexivity.
        apply Z.eqb_eq in Ex, Ey. lia.
  Qed.

  Lemma sorted_stable : forall v l, filter (key_is v) (sorted_by k l) = filter (key_is v) l.
  Proof.
    intros v. induction l as [|x r IH]; cbn [sorted_by]; [reflexivity|].
    rewrite filter_insert by apply sorted_sorted. rewrite IH. cbn [filter].
    change (key_is v x) with (k x =? v). reflexivity.
  Qed.
End Sort.

(* MOST_PRECISE: same rules, ordered by precision, ties in dictionary order *)
Theorem most_precise_order : forall items,
  Permutation (from_dict_rules true items) items /\
  StronglySorted (le_key precision_key) (from_dict_rules true items) /\
  (forall v, filter (key_is precision_key v) (from_dict_rules true items)
             = filter (key_is precision_key v) items).
Proof.
  intros items. unfold from_dict_rules. split; [apply sorted_perm|].
  split; [apply sorted_sorted | intros v; apply sorted_stable].
Qed.

Theorem key_order_is_identity : forall items, from_dict_rules false items = items.
Proof. reflexivity. Qed.

(* the cascade theorems, stated for the order from_dict builds *)
Theorem from_dict_last_wins : forall mp items s d a,
  from_dict_get mp items s d = Ok a ->
  exists table l,
    mk_style (from_dict_rules mp items) = Ok table /\
    entries_spec table s d = Some l /\ all_last_wins l a /\ concrete a.
Proof.
  intros mp items s d a H. unfold from_dict_get, style_get in H.
  destruct (mk_style (from_dict_rules mp items)) as [table|] eqn:E; [|discriminate].
  destruct (get_attrs_last_wins _ _ _ _ H) as (l & Hl & Hw).
  exists table, l. split; [reflexivity|]. split; [exact Hl|]. split; [exact Hw|].
  apply (get_attrs_concrete _ _ _ _ H).
Qed.

Example precision_key_example :
  precision_key ([97; 46; 98; 32; 99], []) = 3 /\ precision_key ([], []) = 0.
Proof. vm_compute. split; reflexivity. Qed.
