(* C15 - insert_common_part: the re-based completions
   (Completion.new_completion_from_position) give, on the document with the
   common part typed in, exactly what the original completions gave on the
   original document.  Needs get_common_complete_suffix / _commonprefix
   (min/max of the suffixes in code point order, common prefix of those two). *)
From Coq Require Import ZArith List Bool Lia.
From PTK Require Import Lib.Sx Lib.Py Model.C15_Async Proofs.C15_Base.
Import ListNotations.
Open Scope Z_scope.

(* applying one completion to a document: CompletionState.new_text_and_position *)
Definition apply_comp (d : doc) (c : completion) : str * Z :=
  let before := if cstart c =? 0 then tbc d else slice_to (tbc d) (cstart c) in
  (before ++ ctext c ++ tac d, len before + len (ctext c)).

Lemma ntp_apply_comp cs i c : cs_idx cs = Some i -> index (cs_comps cs) i = Some c ->
  ntp cs = Some (apply_comp (cs_orig cs) c).
Proof. intros Hi Hc. unfold ntp. rewrite Hi, Hc. reflexivity. Qed.

(* --- code point order ----------------------------------------------------- *)
Lemma ltb_irrefl a : str_ltb a a = false.
Proof. induction a as [|x a IH]; cbn [str_ltb]; auto. rewrite Z.ltb_irrefl. exact IH. Qed.

Lemma leb_trans : forall a b c, str_ltb b a = false -> str_ltb c b = false -> str_ltb c a = false.
Proof.
  induction a as [|x a IH]; intros b c H1 H2.
  - destruct c; reflexivity.
  - destruct b as [|y b]; cbn [str_ltb] in H1; [discriminate|].
    destruct c as [|z c]; cbn [str_ltb] in *; [discriminate H2|].
    destruct (y <? x) eqn:A; [discriminate|]. destruct (x <? y) eqn:B.
    + destruct (z <? y) eqn:C; [discriminate|]. destruct (y <? z) eqn:D.
      * destruct (z <? x) eqn:E; [lia|]. destruct (x <? z) eqn:F; [reflexivity|lia].
      * assert (y = z) by lia. subst z. rewrite A, B. reflexivity.
    + assert (x = y) by lia. subst y.
      destruct (z <? x) eqn:C; [discriminate|]. destruct (x <? z) eqn:D; [reflexivity|].
      eapply IH; eauto.
Qed.

Lemma ltb_asym a : forall b, str_ltb a b = true -> str_ltb b a = false.
Proof.
  induction a as [|x a IH]; intros b H; destruct b as [|y b]; cbn [str_ltb] in *; try discriminate; auto.
  destruct (x <? y) eqn:A.
  - destruct (y <? x) eqn:B; [lia|reflexivity].
  - destruct (y <? x) eqn:B; [discriminate|]. auto.
Qed.

Lemma str_min_le l : forall acc x, In x (acc :: l) -> str_ltb x (str_min l acc) = false.
Proof.
  induction l as [|y r IH]; intros acc x Hin; cbn [str_min].
  - destruct Hin as [<-|[]]. apply ltb_irrefl.
  - set (acc' := if str_ltb y acc then y else acc).
    assert (Ha : str_ltb acc (str_min r acc') = false).
    { apply (leb_trans _ acc'); [apply IH; left; reflexivity|].
      unfold acc'. destruct (str_ltb y acc) eqn:E; [apply ltb_asym; auto|apply ltb_irrefl]. }
    assert (Hy : str_ltb y (str_min r acc') = false).
    { apply (leb_trans _ acc'); [apply IH; left; reflexivity|].
      unfold acc'. destruct (str_ltb y acc) eqn:E; [apply ltb_irrefl|exact E]. }
    destruct Hin as [<-|[<-|Hin]]; auto. apply IH. right. exact Hin.
Qed.

Lemma str_max_ge l : forall acc x, In x (acc :: l) -> str_ltb (str_max l acc) x = false.
Proof.
  induction l as [|y r IH]; intros acc x Hin; cbn [str_max].
  - destruct Hin as [<-|[]]. apply ltb_irrefl.
  - set (acc' := if str_ltb acc y then y else acc).
    assert (Ha : str_ltb (str_max r acc') acc = false).
    { apply (leb_trans _ acc'); [|apply IH; left; reflexivity].
      unfold acc'. destruct (str_ltb acc y) eqn:E; [apply ltb_asym; auto|apply ltb_irrefl]. }
    assert (Hy : str_ltb (str_max r acc') y = false).
    { apply (leb_trans _ acc'); [|apply IH; left; reflexivity].
      unfold acc'. destruct (str_ltb acc y) eqn:E; [apply ltb_irrefl|exact E]. }
    destruct Hin as [<-|[<-|Hin]]; auto. apply IH. right. exact Hin.
Qed.

(* everything between a and b starts with their common prefix *)
Lemma cprefix_between : forall a b x,
  str_ltb x a = false -> str_ltb b x = false -> startswith x (cprefix a b) = true.
Proof.
  induction a as [|h a IH]; intros b x H1 H2; [destruct x; reflexivity|].
  destruct b as [|hb b]; [destruct x; reflexivity|]. cbn [cprefix].
  destruct (h =? hb) eqn:E; [|destruct x; reflexivity].
  apply Z.eqb_eq in E. subst hb.
  destruct x as [|hx x]; cbn [str_ltb] in *; [discriminate|].
  destruct (hx <? h) eqn:A; [discriminate|]. destruct (h <? hx) eqn:B.
  - discriminate.
  - assert (hx = h) by lia. subst hx. cbn [startswith]. rewrite Z.eqb_refl. cbn [andb].
    rewrite Z.ltb_irrefl in *. apply IH; auto.
Qed.

Lemma commonprefix_prefix l x : In x l -> startswith x (commonprefix l) = true.
Proof.
  intros Hin. destruct l as [|y r]; [destruct Hin|]. cbn [commonprefix].
  apply cprefix_between; [apply str_min_le; exact Hin|apply str_max_ge; exact Hin].
Qed.

(* --- prefixes and suffixes -------------------------------------------------- *)
Lemma startswith_split : forall s p, startswith s p = true -> s = p ++ skipn (length p) s.
Proof.
  induction s as [|x s IH]; intros p H; destruct p as [|y p]; cbn [startswith] in *; try discriminate; auto.
  apply andb_true_iff in H. destruct H as (A & B). apply Z.eqb_eq in A. subst y.
  cbn [app length skipn]. f_equal. apply IH. exact B.
Qed.

Lemma endswith_split s e : endswith s e = true ->
  s = firstn (length s - length e) s ++ e /\ (length e <= length s)%nat.
Proof.
  intros H. unfold endswith in H. apply startswith_split in H.
  assert (Hs : exists r, s = r ++ e).
  { exists (rev (skipn (length (rev e)) (rev s))).
    rewrite <- (rev_involutive e) at 2. rewrite <- rev_app_distr. rewrite <- H. symmetry. apply rev_involutive. }
  destruct Hs as (r & Hr). subst s. rewrite app_length. split; [|lia].
  replace (length r + length e - length e)%nat with (length r) by lia.
  rewrite firstn_app, Nat.sub_diag, firstn_all. cbn [firstn]. rewrite app_nil_r. reflexivity.
Qed.

Lemma tbc_doc_insert d p : wf_doc d -> tbc (doc_insert d p) = tbc d ++ p.
Proof.
  intros H. unfold doc_insert, tbc at 1. cbn [dtext dcur].
  pose proof (len_tbc d H) as L. pose proof (len_nonneg p) as Lp. pose proof (len_nonneg (tac d)) as Lt. destruct H as (Hd0 & Hd1).
  rewrite slice_to_in_range by (rewrite ?len_app; lia).
  rewrite app_assoc. rewrite firstn_app.
  replace (Z.to_nat (dcur d + len p) - length (tbc d ++ p))%nat with 0%nat
    by (unfold len in *; rewrite app_length; lia).
  cbn [firstn]. rewrite app_nil_r. apply firstn_all2. unfold len in *. rewrite app_length. lia.
Qed.

Lemma tac_doc_insert d p : wf_doc d -> tac (doc_insert d p) = tac d.
Proof.
  intros H. unfold doc_insert, tac at 1. cbn [dtext dcur].
  pose proof (len_tbc d H) as L. pose proof (len_nonneg p) as Lp. pose proof (len_nonneg (tac d)) as Lt. destruct H as (Hd0 & Hd1).
  rewrite slice_from_in_range by (rewrite ?len_app; lia).
  rewrite app_assoc. rewrite skipn_app.
  replace (Z.to_nat (dcur d + len p) - length (tbc d ++ p))%nat with 0%nat
    by (unfold len in *; rewrite app_length; lia).
  cbn [skipn]. rewrite skipn_all2; [reflexivity|]. unfold len in *. rewrite app_length. lia.
Qed.

Lemma skipn_skipn' {T} (b : nat) : forall (a : nat) (l : list T), skipn a (skipn b l) = skipn (b + a) l.
Proof.
  induction b as [|b IH]; intros a l; [reflexivity|].
  destruct l as [|x l]; [cbn [skipn plus]; destruct a; reflexivity|]. cbn [skipn plus]. apply IH.
Qed.

(* --- the theorem -------------------------------------------------------------- *)
Lemma rebase_apply d c common :
  wf_doc d -> cstart c <= 0 -> common <> [] ->
  doesnt_change_before_cursor d c = true ->
  startswith (get_suffix c) common = true ->
  apply_comp (doc_insert d common) (new_from_pos (len common) c) = apply_comp d c.
Proof.
  intros Hw Hs Hne Hd Hp. unfold apply_comp, new_from_pos. cbn [cstart ctext csrc]. change (0 =? 0) with true. cbv iota.
  rewrite (tbc_doc_insert d common Hw), (tac_doc_insert d common Hw).
  set (k := - cstart c). assert (Hk : 0 <= k) by (unfold k; lia).
  unfold get_suffix in Hp. fold k in Hp. unfold doesnt_change_before_cursor in Hd. fold k in Hd.
  apply startswith_split in Hp.
  (* the suffix is not empty, so k is inside the completion text *)
  assert (Hkl : k < len (ctext c)).
  { destruct (Z_lt_ge_dec k (len (ctext c))) as [A|A]; [exact A|exfalso].
    unfold slice_from, slice, adj_index in Hp.
    destruct (k <? 0) eqn:E; [lia|]. rewrite Z.min_r in Hp by lia. rewrite Z.ltb_irrefl in Hp.
    destruct common; [congruence|discriminate]. }
  rewrite slice_from_in_range in Hp by lia.
  rewrite slice_to_in_range in Hd by lia.
  destruct (endswith_split _ _ Hd) as (Ht & Hlen).
  assert (Hfl : length (firstn (Z.to_nat k) (ctext c)) = Z.to_nat k).
  { rewrite firstn_length. unfold len in Hkl. lia. }
  rewrite Hfl in *.
  set (tb := tbc d) in *. set (ct := ctext c) in *.
  assert (Hct' : slice_from ct (len common - cstart c) = skipn (length common) (skipn (Z.to_nat k) ct)).
  { pose proof (len_nonneg common). replace (len common - cstart c) with (len common + k) by (unfold k; lia).
    assert (Hle : len common + k <= len ct).
    { assert (A : len (skipn (Z.to_nat k) ct) = len common + len (skipn (length common) (skipn (Z.to_nat k) ct)))
        by (rewrite Hp at 1; rewrite len_app; reflexivity).
      rewrite len_skipn in A. pose proof (len_nonneg (skipn (length common) (skipn (Z.to_nat k) ct))). lia. }
    rewrite slice_from_in_range by lia. rewrite skipn_skipn'. f_equal. unfold len. lia. }
  rewrite Hct'.
  match goal with |- _ = (?X ++ ct ++ tac d, _) => set (bf := X) end.
  assert (Hbefore : bf ++ firstn (Z.to_nat k) ct = tb).
  { unfold bf. destruct (cstart c =? 0) eqn:E.
    - apply Z.eqb_eq in E. replace (Z.to_nat k) with 0%nat by (unfold k; lia). cbn [firstn]. apply app_nil_r.
    - apply Z.eqb_neq in E. rewrite Ht at 2. f_equal.
      unfold slice_to, slice, adj_index. destruct (cstart c <? 0) eqn:E2; [|lia].
      assert (Hlz : k <= len tb) by (unfold len; lia).
      rewrite Z.max_r by (unfold k in *; lia).
      destruct (0 <? cstart c + len tb) eqn:E3.
      + cbn [skipn]. f_equal. unfold len, k in *. lia.
      + assert (cstart c + len tb = 0) by (unfold k in *; lia).
        replace (length tb - Z.to_nat k)%nat with 0%nat by (unfold len, k in *; lia). reflexivity. }
  assert (Htext : bf ++ ct = (tb ++ common) ++ skipn (length common) (skipn (Z.to_nat k) ct)).
  { rewrite <- (firstn_skipn (Z.to_nat k) ct) at 1. rewrite app_assoc, Hbefore.
    rewrite <- app_assoc. f_equal. exact Hp. }
  f_equal.
  - symmetry. rewrite (app_assoc bf ct (tac d)), Htext. rewrite <- !app_assoc. reflexivity.
  - rewrite <- !len_app. rewrite Htext. reflexivity.
Qed.

Lemma common_suffix_facts d l common : common_suffix d l = common -> common <> [] ->
  forall c, In c l -> doesnt_change_before_cursor d c = true /\ startswith (get_suffix c) common = true.
Proof.
  intros H Hne c Hin. unfold common_suffix in H.
  destruct (forallb (doesnt_change_before_cursor d) l) eqn:E; [|congruence].
  split; [rewrite forallb_forall in E; auto|].
  subst common. apply commonprefix_prefix. apply in_map. exact Hin.
Qed.

(* every entry of the re-based menu produces what the completer's completion
   produced on the document it was computed from *)
Theorem rebase_same_result d l common c :
  wf_doc d -> common_suffix d l = common -> common <> [] -> In c l -> cstart c <= 0 ->
  apply_comp (doc_insert d common) (new_from_pos (len common) c) = apply_comp d c.
Proof.
  intros Hw Hc Hne Hin Hs. destruct (common_suffix_facts d l common Hc Hne c Hin) as (A & B).
  apply rebase_apply; auto.
Qed.
