(* Discharge the [on_last_line = false] hypothesis of the line-join theorem
   from the shape of the text, using C02's coordinate theorems: the bisect
   table row of the cursor is the number of line endings before it. *)
From Coq Require Import ZArith List Bool Lia.
From PTK Require Import Lib.Sx Lib.Py Model.Document Model.BufferEdit Model.C02_DocQueries
  Proofs.BufferEditFacts Proofs.BufferEditLines Proofs.C02_Base Proofs.C02_Coords.
Import ListNotations.
Open Scope Z_scope.

Lemma count_char_nonneg c s : 0 <= count_char c s.
Proof. induction s as [|x s IH]; cbn [count_char]; [lia|]. destruct (x =? c); lia. Qed.

Lemma count_char_app c a b : count_char c (a ++ b) = count_char c a + count_char c b.
Proof. induction a as [|x a IH]; cbn [app count_char]; [lia|]. rewrite IH. lia. Qed.

Lemma count_char_nomem c s : mem_Z c s = false -> count_char c s = 0.
Proof.
  induction s as [|x s IH]; cbn [mem_Z count_char]; [reflexivity|].
  destruct (x =? c); cbn [orb]; [discriminate|]. intros H; rewrite (IH H); lia.
Qed.

Lemma count_char_firstn_le c s n : count_char c (firstn n s) <= count_char c s.
Proof.
  revert n; induction s as [|x s IH]; intros [|n]; cbn [firstn count_char]; try lia.
  - pose proof (count_char_nonneg c s). destruct (x =? c); lia.
  - specialize (IH n). destruct (x =? c); lia.
Qed.

Lemma not_last_line b pre line r :
  Inv b -> line_split b pre line (NL :: r) -> on_last_line (bdoc b) = false.
Proof.
  intros [H0 H1] S. destruct S as [Ht Hl _ _ Hc _ _].
  assert (Hv : valid (bdoc b)) by (unfold valid, bdoc; cbn [dtext dcur]; lia).
  destruct (C02c_cursor_row_col (bdoc b) Hv) as [Hr _].
  unfold on_last_line. rewrite Hr, C02c_line_count.
  unfold text_before_cursor, bdoc; cbn [dtext dcur].
  rewrite slice_to_in_range by lia.
  pose proof (len_nonneg pre). pose proof (len_nonneg line).
  (* the text before the cursor is a prefix of pre ++ line *)
  assert (Hb : firstn (Z.to_nat (bcur b)) (btext b) = firstn (Z.to_nat (bcur b)) (pre ++ line)).
  { rewrite Ht, app_assoc. rewrite firstn_app.
    replace (Z.to_nat (bcur b) - length (pre ++ line))%nat with 0%nat.
    2:{ pose proof (len_app pre line). unfold len in *. lia. }
    cbn [firstn]. now rewrite app_nil_r. }
  rewrite Hb.
  pose proof (count_char_firstn_le NL (pre ++ line) (Z.to_nat (bcur b))) as Hle.
  rewrite count_char_app, (count_char_nomem NL line Hl) in Hle.
  rewrite Ht, !count_char_app, (count_char_nomem NL line Hl).
  cbn [count_char]. rewrite Z.eqb_refl.
  pose proof (count_char_nonneg NL r).
  destruct (_ =? _) eqn:E; [lia|reflexivity].
Qed.

(* line-join with the hypothesis discharged *)
Lemma join_next_line_spec' b sep pre line r :
  Inv b -> line_split b pre line (NL :: r) ->
  exists c',
    join_next_line b sep = Ok (mkbuf (pre ++ line ++ sep ++ lstrip_by (Z.eqb SP) r) c') [] /\
    0 <= c'.
Proof. intros H S. apply join_next_line_spec; [exact H|exact S|now apply (not_last_line b pre line r)]. Qed.

(* and the converse: on the last line nothing changes *)
Lemma join_next_line_last b sep : on_last_line (bdoc b) = true -> join_next_line b sep = Ok b [].
Proof. intros H. unfold join_next_line. now rewrite H. Qed.

(* ---------------------------------------------------------------------- *)
(* insert_line_above / insert_line_below: one new (margin-only) line, every
   other character kept, cursor on the new line after the margin *)

Lemma mem_Z_app c a b : mem_Z c (a ++ b) = mem_Z c a || mem_Z c b.
Proof. induction a as [|x a IH]; cbn [app mem_Z]; [reflexivity|]. rewrite IH. now rewrite orb_assoc. Qed.

Lemma current_line_no_nl b : Inv b -> mem_Z NL (current_line (bdoc b)) = false.
Proof.
  intros H. destruct (current_line_split b H) as (pre & line & post & S).
  destruct S as [_ Hl _ _ Hc Hb Ha].
  unfold current_line. rewrite Hb, Ha, firstn_skipn. exact Hl.
Qed.

Lemma margin_no_nl b : Inv b -> mem_Z NL (leading_whitespace_in_current_line (bdoc b)) = false.
Proof.
  intros H. destruct (leading_whitespace_spec (bdoc b)) as [rest [E _]].
  pose proof (current_line_no_nl b H) as Hn. rewrite E, mem_Z_app in Hn.
  now apply orb_false_elim in Hn.
Qed.

Lemma margin_spec (b : buf) (cm : bool) :
  Inv b ->
  exists m : str, (if cm then leading_whitespace_in_current_line (bdoc b) else @nil Z) = m /\
            forallb is_space m = true /\ mem_Z NL m = false /\ (cm = false -> m = []).
Proof.
  intros H. destruct cm.
  - eexists; split; [reflexivity|]. split; [|split; [now apply margin_no_nl|discriminate]].
    destruct (leading_whitespace_spec (bdoc b)) as [_ [_ Hs]]. exact Hs.
  - exists []. repeat split; reflexivity.
Qed.

Lemma insert_line_above_spec b cm pre line post :
  Inv b -> line_split b pre line post ->
  exists m,
    insert_line_above b cm = Ok (mkbuf (pre ++ m ++ NL :: line ++ post) (len pre + len m)) [] /\
    forallb is_space m = true /\ mem_Z NL m = false /\ (cm = false -> m = []).
Proof.
  intros HI S. pose proof HI as [H0 H1]. destruct S as [Ht Hl _ _ Hc Hb _].
  pose proof (len_nonneg pre). pose proof (len_nonneg line). pose proof (len_nonneg post).
  assert (Hlt : len (btext b) = len pre + len line + len post) by (rewrite Ht, !len_app; lia).
  unfold insert_line_above, get_start_of_line_position. rewrite Hb, len_firstn.
  replace (bcur b + - Z.min (Z.of_nat (Z.to_nat (bcur b - len pre))) (len line)) with (len pre) by lia.
  rewrite set_cursor_in_range by lia.
  set (ins := if cm then _ ++ [NL] else [NL]).
  destruct (margin_spec b cm HI) as [m [Hm [Hsp [Hnl Hcm]]]].
  assert (Hins : ins = m ++ [NL]) by (unfold ins; destruct cm; rewrite <- Hm; reflexivity).
  exists m. split; [|repeat split; assumption].
  set (b1 := mkbuf (btext b) (len pre)).
  assert (HI1 : Inv b1) by (unfold Inv, b1; cbn [btext bcur]; lia).
  rewrite (insert_text_spec b1 ins true HI1). cbn [bind]. unfold b1; cbn [btext bcur].
  rewrite Ht, firstn_len_app, skipn_len_app, Hins.
  pose proof (len_nonneg m).
  rewrite set_cursor_in_range.
  2:{ cbn [btext bcur]. rewrite !len_app. change (len [NL]) with 1. lia. }
  cbn [btext bcur]. f_equal. f_equal.
  - rewrite <- !app_assoc. reflexivity.
  - rewrite len_app. change (len [NL]) with 1. lia.
Qed.

Lemma insert_line_below_spec b cm pre line post :
  Inv b -> line_split b pre line post ->
  exists m,
    insert_line_below b cm =
    Ok (mkbuf (pre ++ line ++ NL :: m ++ post) (len pre + len line + 1 + len m)) [] /\
    forallb is_space m = true /\ mem_Z NL m = false /\ (cm = false -> m = []).
Proof.
  intros HI S. pose proof HI as [H0 H1]. destruct S as [Ht Hl _ _ Hc _ Ha].
  pose proof (len_nonneg pre). pose proof (len_nonneg line). pose proof (len_nonneg post).
  assert (Hlt : len (btext b) = len pre + len line + len post) by (rewrite Ht, !len_app; lia).
  unfold insert_line_below, get_end_of_line_position. rewrite Ha, len_skipn.
  replace (bcur b + Z.max 0 (len line - Z.of_nat (Z.to_nat (bcur b - len pre))))
    with (len pre + len line) by lia.
  rewrite set_cursor_in_range by lia.
  set (ins := if cm then NL :: _ else [NL]).
  destruct (margin_spec b cm HI) as [m [Hm [Hsp [Hnl Hcm]]]].
  assert (Hins : ins = NL :: m) by (unfold ins; destruct cm; rewrite <- Hm; reflexivity).
  exists m. split; [|repeat split; assumption].
  set (b1 := mkbuf (btext b) (len pre + len line)).
  assert (HI1 : Inv b1) by (unfold Inv, b1; cbn [btext bcur]; lia).
  rewrite (insert_text_spec b1 ins true HI1). unfold b1; cbn [btext bcur].
  replace (len pre + len line) with (len (pre ++ line)) by (rewrite len_app; lia).
  rewrite Ht, (app_assoc pre line post), firstn_len_app, skipn_len_app, Hins.
  f_equal. f_equal.
  - rewrite <- !app_assoc. reflexivity.
  - rewrite len_app, len_cons. lia.
Qed.
