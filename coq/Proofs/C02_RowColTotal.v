(* C02 - translate_row_col_to_index for EVERY row and column, as the code is:
   rows 0..n-1 as such, rows -n..-1 by Python's negative indexing of the two
   tables, rows beyond fall back to the last line and rows below -n to the
   first (the IndexError branch); the column is clamped to the line; the final
   clamp to 0..len(text) never cuts. *)
From Coq Require Import ZArith List Bool Lia.
From PTK Require Import Lib.Sx Lib.Py Model.Document Proofs.C02_Base Proofs.C02_Coords.
Import ListNotations.
Open Scope Z_scope.

Definition norm_row (n row : Z) : Z :=
  if (0 <=? row) && (row <? n) then row
  else if (row <? 0) && (- n <=? row) then row + n
  else if row <? 0 then 0 else n - 1.

Lemma index_neg_shift {T} (s : list T) i : - len s <= i < 0 -> index s i = index s (i + len s).
Proof.
  intros H. unfold index. cbv zeta.
  destruct (i <? 0) eqn:E1; [|lia]. destruct (i + len s <? 0) eqn:E2; [lia|]. rewrite E2. reflexivity.
Qed.

Lemma index_below {T} (s : list T) i : i < - len s -> index s i = None.
Proof.
  intros H. unfold index. cbv zeta. destruct (i <? 0) eqn:E1; [|pose proof (len_nonneg s); lia].
  destruct (i + len s <? 0) eqn:E2; [reflexivity|lia].
Qed.

Lemma index_zero_hd {T} (s : list T) (dflt : T) : s <> [] -> index s 0 = Some (hd dflt s).
Proof.
  intros H. destruct s as [|x r]; [congruence|]. unfold index. cbv zeta.
  change (0 <? 0) with false. cbn [orb]. rewrite len_cons. pose proof (len_nonneg r).
  destruct (1 + len r <=? 0) eqn:E; [lia|]. reflexivity.
Qed.

Lemma index_in_range_c {T} (s : list T) i :
  0 <= i < len s -> index s i = nth_error s (Z.to_nat i).
Proof.
  intros Hi. unfold index. cbv zeta.
  destruct (i <? 0) eqn:E1; [lia|]. rewrite E1. cbn [orb].
  destruct (len s <=? i) eqn:E2; [lia|reflexivity].
Qed.

Theorem row_col_to_index_total d row col :
  let row' := norm_row (line_count d) row in
  0 <= row' < line_count d /\
  translate_row_col_to_index d row col =
  nth (Z.to_nat row') (starts (lines d) 0) 0 + Z.max 0 (Z.min col (len (nth (Z.to_nat row') (lines d) []))).
Proof.
  cbv zeta. pose proof (line_count_pos d) as Hp. unfold norm_row.
  assert (Hix : len (line_start_indexes d) = line_count d).
  { rewrite C02c_line_start_indexes, len_starts. reflexivity. }
  destruct ((0 <=? row) && (row <? line_count d)) eqn:E1.
  - apply andb_prop in E1 as [Ea Eb]. split; [lia|]. apply C02c_row_col_to_index_row_valid. lia.
  - destruct ((row <? 0) && (- line_count d <=? row)) eqn:E2.
    + apply andb_prop in E2 as [Ea Eb]. split; [lia|]. unfold line_count in *.
      rewrite <- (C02c_row_col_to_index_row_valid d (row + len (lines d)) col) by (unfold line_count; lia).
      unfold translate_row_col_to_index. cbv zeta.
      rewrite (index_neg_shift (line_start_indexes d) row) by lia.
      rewrite (index_neg_shift (lines d) row) by lia.
      rewrite Hix.
      destruct (index (line_start_indexes d) (row + len (lines d))) as [r0|] eqn:Ei;
        destruct (index (lines d) (row + len (lines d))) as [l0|] eqn:El; try reflexivity.
      all: exfalso;
        first [ rewrite index_in_range_c in El by lia;
                apply nth_error_None in El; unfold len in *; lia
              | rewrite index_in_range_c in Ei by lia;
                apply nth_error_None in Ei; unfold len in *; lia ].
    + destruct (row <? 0) eqn:E3.
      * split; [lia|].
        rewrite <- (C02c_row_col_to_index_row_valid d 0 col) by lia.
        unfold translate_row_col_to_index. cbv zeta.
        assert (Hr : row < - line_count d).
        { destruct (- line_count d <=? row) eqn:E; [cbn [andb] in E2; discriminate|lia]. }
        rewrite (index_below (line_start_indexes d) row) by lia. rewrite E3.
        rewrite (index_zero_hd (line_start_indexes d) 0).
        -- rewrite (index_zero_hd (lines d) []); [reflexivity|].
           intros H. unfold line_count in Hp. rewrite H in Hp. change (len (@nil str)) with 0 in Hp. lia.
        -- intros H. rewrite H in Hix. change (len (@nil Z)) with 0 in Hix. lia.
      * assert (Hr : line_count d <= row).
        { destruct (0 <=? row) eqn:Ea; [|lia]. destruct (row <? line_count d) eqn:Eb; [discriminate|lia]. }
        split; [lia|]. rewrite (C02c_row_col_to_index_clamp d row col) by lia.
        replace (Z.min row (line_count d - 1)) with (line_count d - 1) by lia.
        rewrite C02c_row_col_to_index_row_valid by lia.
        pose proof (len_nonneg (nth (Z.to_nat (line_count d - 1)) (lines d) [])). lia.
Qed.
