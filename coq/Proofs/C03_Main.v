(* C03 - the property-level lemmas: schedules, longest match, flush. *)
From Coq Require Import ZArith List Bool Lia.
From PTK Require Import Lib.Sx Lib.Py Lib.C03_Str Gen.C03_AnsiSequences Model.C03_Vt100Parser
  Proofs.C03_Table Proofs.C03_Process Proofs.C03_Feed Proofs.C03_Lossless.
Import ListNotations.
Open Scope Z_scope.

Lemma run_ops_app a b st : run_ops (a ++ b) st = run_ops b (run_ops a st).
Proof. unfold run_ops. apply fold_left_app. Qed.

Lemma run_ops_feeds chunks st :
  run_ops (map Feed chunks) st = fold_left (fun s d => feed d s) chunks st.
Proof.
  unfold run_ops. revert st. induction chunks as [|d r IH]; intros st; [reflexivity|].
  cbn [map fold_left apply_op]. apply IH.
Qed.

(* reachable states *)
Lemma reach_run ops : Reach (run_ops ops init) /\ Inv0 (run_ops ops init).
Proof.
  split.
  - apply (run_ops_lossless ops init Reach_init Inv0_init).
  - apply Inv0_run_ops. exact Inv0_init.
Qed.

Lemma fuel_suffices ops : oof (run_ops ops init) = false.
Proof. now rewrite (run_ops_oof ops init Inv0_init). Qed.

Lemma feed_app_reach ops a b :
  feed (a ++ b) (run_ops ops init) = feed b (feed a (run_ops ops init)).
Proof. apply feed_app. apply reach_run. Qed.

Lemma feed_charwise ops d :
  feed d (run_ops ops init) = fold_left step_char d (run_ops ops init).
Proof. apply feed_eq_spec. apply reach_run. Qed.

(* any run of consecutive reads inside any schedule can be replaced by one
   read of the concatenation *)
Lemma chunk_independent before chunks after :
  run_ops (before ++ map Feed chunks ++ after) init =
  run_ops (before ++ [Feed (concat chunks)] ++ after) init.
Proof.
  rewrite !run_ops_app. f_equal. rewrite run_ops_feeds.
  rewrite feed_chunks by apply reach_run. reflexivity.
Qed.

Lemma lossless ops :
  render (out (run_ops ops init)) ++ pending (run_ops ops init) = all_fed ops.
Proof.
  destruct (run_ops_lossless ops init Reach_init Inv0_init) as [_ C].
  unfold Carried in C. rewrite C. reflexivity.
Qed.

Lemma paste_only_when_idle ops : in_paste (run_ops ops init) = true -> prefix (run_ops ops init) = [].
Proof. apply (proj1 (reach_run ops)). Qed.

Lemma pending_can_grow ops :
  prefix (run_ops ops init) = [] \/ is_prefix_longer (prefix (run_ops ops init)) = true.
Proof. apply (proj1 (reach_run ops)). Qed.

(* ---------------------------------------------------------------------- *)
(* longest match first *)

Lemma call_handler1_out k d st : exists evs, rout (call_handler1 k d st) = evs ++ rout st.
Proof.
  unfold call_handler1. destruct (k =? key_BracketedPaste).
  - exists []. reflexivity.
  - exists [(KKey k, d)]. reflexivity.
Qed.
Lemma call_handler_rest_out ks st : exists evs, rout (call_handler_rest ks st) = evs ++ rout st.
Proof.
  revert st. induction ks as [|k r IH]; intros st; [exists []; reflexivity|].
  cbn [call_handler_rest]. destruct (IH (call_handler1 k [] st)) as [e1 E1].
  destruct (call_handler1_out k [] st) as [e2 E2]. exists (e1 ++ e2). now rewrite E1, E2, app_assoc.
Qed.
Lemma call_handler_out ks d st : exists evs, rout (call_handler ks d st) = evs ++ rout st.
Proof.
  destruct ks as [|k r]; [exists []; reflexivity|]. cbn [call_handler].
  destruct (call_handler_rest_out r (call_handler1 k d st)) as [e1 E1].
  destruct (call_handler1_out k d st) as [e2 E2]. exists (e1 ++ e2). now rewrite E1, E2, app_assoc.
Qed.

Lemma prim_out a b : prim a b -> exists later, out b = out a ++ later.
Proof.
  intros H. destruct H as [st i ks Hm|st c tl Hp]; unfold out; cbn [set_prefix rout push].
  - destruct (call_handler_out ks (firstn i (prefix st)) st) as [e E]. rewrite E.
    exists (rev e). apply rev_app_distr.
  - exists [(KChar c, [c])]. reflexivity.
Qed.
Lemma star_out a b : star a b -> exists later, out b = out a ++ later.
Proof.
  induction 1; [exists []; now rewrite app_nil_r|].
  destruct (prim_out _ _ H) as [l1 E1]. destruct IHstar as [l2 E2].
  exists (l1 ++ l2). now rewrite E2, E1, app_assoc.
Qed.

Lemma match_loop_found_true i st : snd (match_loop i st true) = true.
Proof.
  revert st. induction i as [|i IH]; intros st; [reflexivity|].
  cbn [match_loop]. destruct (get_match (firstn (S i) (prefix st))); apply IH.
Qed.

Lemma longest_first st i ks :
  (1 <= i <= length (prefix st))%nat ->
  get_match (firstn i (prefix st)) = Some ks ->
  (forall j, (i < j <= length (prefix st))%nat -> get_match (firstn j (prefix st)) = None) ->
  mem_Z key_BracketedPaste ks = false ->
  exists later,
    out (no_match_step st) = out st ++ expected_events (firstn i (prefix st)) ks ++ later.
Proof.
  intros Hi Hm Hnone HB. unfold no_match_step.
  rewrite (match_loop_longest (length (prefix st)) i st ks) by (try lia; auto).
  set (st' := set_prefix (skipn i (prefix st)) (call_handler ks (firstn i (prefix st)) st)).
  pose proof (match_loop_found_true (i - 1) st') as F.
  pose proof (match_loop_star (i - 1) st' true) as [A _].
  destruct (match_loop (i - 1) st' true) as [st1 found]. cbn [fst snd] in *. subst found.
  destruct (star_out _ _ A) as [later E]. exists later. rewrite E.
  unfold st'. rewrite call_handler_nobp by exact HB.
  unfold out. cbn [set_prefix add_out rout]. rewrite rev_app_distr, rev_involutive.
  now rewrite app_assoc.
Qed.

(* ---------------------------------------------------------------------- *)
(* flush *)

Lemma flush_empties_any st : prefix (flush st) = [] /\ oof (flush st) = oof st.
Proof. split; [apply flush_empties|apply flush_oof]. Qed.

(* after a flush nothing is buffered except an unterminated paste *)
Lemma flush_empties_schedule ops :
  let st := run_ops (ops ++ [Flush]) init in
  prefix st = [] /\ pending st = (if in_paste st then start_mark ++ paste_buf st else []).
Proof.
  cbv zeta. rewrite run_ops_app. unfold run_ops at 1 3 4 5. cbn [fold_left apply_op].
  split; [apply flush_empties|]. unfold pending. rewrite flush_empties. now rewrite app_nil_r.
Qed.

Lemma flush_pinned_not_empty :
  exists st, st = feed [27; 91; 77; 27] init /\ in_paste (flush_pinned st) = false /\ prefix (flush_pinned st) <> [].
Proof. eexists. split; [reflexivity|]. vm_compute. split; [reflexivity|discriminate]. Qed.

Lemma table_has_tuples :
  exists k ks, In (k, ks) ansi_table /\ mem_Z key_BracketedPaste ks = false /\ (1 < length ks)%nat.
Proof.
  assert (H : existsb (fun kv => negb (mem_Z key_BracketedPaste (snd kv)) && Nat.ltb 1 (length (snd kv))) ansi_table = true)
    by (vm_compute; reflexivity).
  apply existsb_exists in H. destruct H as [[k ks] [HIn H]]. cbn [snd] in H.
  apply andb_true_iff in H. destruct H as [H1 H2]. exists k, ks. repeat split; auto.
  - now apply negb_true_iff.
  - now apply Nat.ltb_lt.
Qed.
