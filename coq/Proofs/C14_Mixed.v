(* One theorem over arbitrary interleavings of navigation, edits and
   asynchronous population steps: an entry changes only while it is the
   current one during an edit.  Entries are addressed from the END of the
   working lines (position 0 = the new line, 1 = the newest history entry ...),
   which is stable under population (it prepends). *)
From Coq Require Import ZArith List Bool Lia.
From PTK Require Import Lib.Sx Lib.Py Model.Document Model.BufferEdit Model.C14_HistoryNav
  Proofs.C14_Facts Proofs.C14_Accept.
Import ListNotations.
Open Scope Z_scope.

Definition rnth (l : list str) (r : nat) : option str := nth_error (rev l) r.

(* position of the displayed entry, counted from the end *)
Definition rpos (s : hs) : nat := Z.to_nat (len (wl s) - 1 - wi s).

Definition edit_b (o : op) : bool :=
  match o with OInsert _ | ODelBefore _ | ODel _ | OSetText _ => true | _ => false end.

Definition browse_op (o : op) : Prop :=
  is_nav o \/ is_edit o \/ is_pop o \/ o = OLoadStart.

(* the positions that were displayed while an edit ran *)
Fixpoint touched (c : cfg) (s : hs) (ops : list op) : list nat :=
  match ops with
  | [] => []
  | o :: r => (if edit_b o then [rpos s] else []) ++ touched c (step_state c s o) r
  end.

Lemma nth_error_rev' {T} (l : list T) r :
  (r < length l)%nat -> nth_error (rev l) r = nth_error l (length l - 1 - r).
Proof.
  intros H. destruct l as [|d l0] eqn:El; [cbn in H; lia|]. rewrite <- El in *.
  assert (Hl : length l = S (length l0)) by (subst; reflexivity).
  rewrite (nth_error_nth' (rev l) d) by (rewrite rev_length; exact H).
  rewrite (nth_error_nth' l d) by lia.
  rewrite rev_nth by exact H. f_equal. f_equal. lia.
Qed.

Lemma is_edit_b o : is_edit o <-> edit_b o = true.
Proof. destruct o; cbn; split; intros H; try discriminate; try contradiction; auto. Qed.

Lemma pop_n_sto n : forall s, sto (store (pop_n n s)) = sto (store s).
Proof.
  induction n; intros s; cbn [pop_n]; [reflexivity|]. rewrite IHn.
  unfold pop_step. destruct (thr (th s)); [reflexivity|].
  destruct (task s); [|reflexivity]. destruct (tfin s); [reflexivity|].
  destruct (nth_error _ _); proj; apply ensure_loaded_sto.
Qed.

(* one operation *)
Lemma browse_step c s o :
  thr (th s) = false -> Inv s -> browse_op o ->
  let s' := step_state c s o in
  (length (wl s) <= length (wl s'))%nat /\ sto (store s') = sto (store s) /\
  forall r, (r < length (wl s))%nat -> (edit_b o = true -> r <> rpos s) ->
            rnth (wl s') r = rnth (wl s) r.
Proof.
  intros Ht HI [Ho|[Ho|[Ho|Ho]]] s'.
  - destruct (nav_step_frame c s o Ht Ho) as (A & B & _). fold s' in A, B.
    rewrite A, B. repeat split; auto.
  - destruct (edit_step_spec c s o Ht HI Ho) as (A & _ & _ & W & Len & Oth). fold s' in A, W, Len, Oth.
    rewrite A. repeat split; [lia|].
    intros r Hr Hne. specialize (Hne (proj1 (is_edit_b o) Ho)).
    unfold rnth. rewrite !nth_error_rev' by lia. rewrite Len. apply Oth.
    unfold rpos, Inv, len in *. lia.
  - unfold s'. rewrite step_state_eq by exact Ht.
    destruct (flush_frame c (snd (fst (step_core c s o)))) as (A & B & _). rewrite A, B.
    assert (P : exists n, snd (fst (step_core c s o)) = pop_n n s).
    { destruct o; cbn [is_pop] in Ho; try contradiction; cbn [step_core ok fst snd];
        [exists 1%nat; reflexivity | eexists; reflexivity]. }
    destruct P as (n & ->). destruct (pop_n_shift n s) as (_ & new & E).
    rewrite E, pop_n_sto. repeat split; [rewrite app_length; lia|].
    intros r Hr _. unfold rnth. rewrite rev_app_distr. apply nth_error_app1. rewrite rev_length. exact Hr.
  - subst o. unfold s'. rewrite step_state_eq by exact Ht. cbn [step_core ok fst snd].
    destruct (flush_frame c (load_start s)) as (A & B & _). rewrite A, B.
    unfold load_start. rewrite Ht. destruct (task s); proj; repeat split; auto.
Qed.


(* any interleaving *)
Theorem browse_steps c ops : forall s,
  thr (th s) = false -> Inv s -> Forall browse_op ops ->
  (length (wl s) <= length (wl (steps c s ops)))%nat /\
  sto (store (steps c s ops)) = sto (store s) /\
  forall r, (r < length (wl s))%nat -> ~ In r (touched c s ops) ->
            rnth (wl (steps c s ops)) r = rnth (wl s) r.
Proof.
  induction ops as [|o rest IH]; intros s Ht HI Hb; cbn [steps fold_left touched].
  - repeat split; auto.
  - inversion Hb; subst.
    destruct (browse_step c s o Ht HI H1) as (L1 & S1 & K1).
    assert (Ht' : thr (th (step_state c s o)) = false) by (rewrite step_thr; exact Ht).
    destruct (IH (step_state c s o) Ht' (step_inv c s o HI) H2) as (L2 & S2 & K2).
    fold (steps c (step_state c s o) rest) in *.
    repeat split; [lia | congruence|].
    intros r Hr Hnot. rewrite in_app_iff in Hnot.
    rewrite K2; [|lia|tauto].
    apply K1; [exact Hr|]. intros He Heq. apply Hnot. left. rewrite He. left. auto.
Qed.

(* ---------------------------------------------------------------------- *)
(* Across sessions: what was accepted is what the next session (a new History
   object on the same storage) shows, and one step back recalls it. *)
Lemma index_app_mid {T} (a b : list T) (x : T) : index (a ++ x :: b) (len a) = Some x.
Proof.
  unfold index. pose proof (len_nonneg a). rewrite len_app, len_cons.
  pose proof (len_nonneg b).
  destruct (len a <? 0) eqn:E1; [lia|]. destruct (len a <? 0) eqn:E2; [lia|].
  destruct (len a + (1 + len b) <=? len a) eqn:E3; [lia|]. cbn [orb].
  unfold len. rewrite Nat2Z.id. rewrite nth_error_app2 by lia. rewrite Nat.sub_diag. reflexivity.
Qed.

Lemma new_session_clean s :
  thr (th s) = false -> Coh (store s) ->
  let s' := pop_all (load_start (reopen s)) in
  wl s' = sto (store s) ++ [[]] /\ wi s' = len (sto (store s)) /\ text s' = [] /\
  sto (store s') = sto (store s) /\ hst s' = None.
Proof.
  intros Ht Hc. unfold reopen.
  assert (Ht' : thr (th (set_th (set_store s (mkst [] (sto (store s)) false)) (mkth (thr (th s)) 0 false [] 0))) = false)
    by (proj; exact Ht).
  destruct (reset_clean _ [] 0 Ht' (coh_init _)) as (A & B & C & _ & D & E & _).
  proj. auto.
Qed.
