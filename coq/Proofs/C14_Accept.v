(* Accept path, history object coherence and asynchronous population of
   Model/C14_HistoryNav.v. *)
From Coq Require Import ZArith List Bool Lia.
From PTK Require Import Lib.Sx Lib.Py Model.Document Model.BufferEdit Model.C14_HistoryNav Proofs.C14_Facts.
Import ListNotations.
Open Scope Z_scope.

Lemma str_eqb_eq a : forall b, str_eqb a b = true <-> a = b.
Proof.
  induction a as [|x a IH]; intros [|y b]; cbn [str_eqb]; split; intros H; try discriminate; auto.
  - apply andb_true_iff in H as [H1 H2]. apply Z.eqb_eq in H1. apply IH in H2. congruence.
  - inversion H; subst. rewrite Z.eqb_refl. cbn. apply IH. reflexivity.
Qed.

(* ---------------------------------------------------------------------- *)
(* append_to_history *)
Definition skip_append (h : hstore) (t : str) : bool :=
  match ls h with [] => false | x :: _ => str_eqb x t end.

Lemma append_to_history_empty s : text s = [] -> append_to_history s = s.
Proof. intros H. unfold append_to_history. rewrite H. reflexivity. Qed.

Lemma append_to_history_store s :
  thr (th s) = false ->
  store (append_to_history s) =
  match text s with
  | [] => store s
  | _ => let h := ensure_loaded (store s) in
         if skip_append h (text s) then h else append_string h (text s)
  end.
Proof.
  intros Ht. unfold append_to_history, skip_append, hist_for_get, do_append. rewrite Ht.
  destruct (text s); [reflexivity|].
  cbv zeta. destruct (ls (ensure_loaded (store s))); [reflexivity|].
  destruct (str_eqb _ _); reflexivity.
Qed.

Lemma append_to_history_fields s :
  wl (append_to_history s) = wl s /\ wi (append_to_history s) = wi s /\
  cur (append_to_history s) = cur s /\ hst (append_to_history s) = hst s.
Proof.
  unfold append_to_history, do_append. destruct (text s); [auto|].
  destruct (ls (hist_for_get s)); [|destruct (str_eqb _ _)]; try (destruct (thr (th s))); auto.
Qed.

(* the History object after append_to_history depends on text, History object and its kind only *)
Lemma append_to_history_store_eq s1 s :
  text s1 = text s -> store s1 = store s -> th s1 = th s ->
  store (append_to_history s1) = store (append_to_history s).
Proof.
  intros T S H. unfold append_to_history, hist_for_get, do_append. rewrite T, S, H.
  destruct (text s); [exact S|].
  destruct (thr (th s)); (destruct (ls _); [|destruct (str_eqb _ _)]); reflexivity.
Qed.

Lemma sto_append h t : sto (append_string h t) = sto h ++ [t].
Proof. reflexivity. Qed.

(* ---------------------------------------------------------------------- *)
(* validate_and_handle *)
Lemma accept_invalid_fresh c s V p :
  vst s = V_UNKNOWN -> val c = Some V -> V (text s) (cur s) = Some p ->
  exists s', validate_and_handle c s = (s', None) /\
    frame s s' /\ wi s' = wi s /\ hst s' = hst s /\
    cur s' = Z.min (Z.max 0 p) (len (text s)) /\ vst s' = V_INVALID.
Proof.
  intros Hv HV Hp. unfold validate_and_handle, validate. rewrite Hv, HV, Hp.
  change (negb (V_UNKNOWN =? V_UNKNOWN)) with false. cbn iota.
  eexists; split; [reflexivity|].
  repeat split; unfold set_vst; proj; try apply set_cursor_frame.
  - apply set_cursor_wi.
  - apply set_cursor_hst.
  - apply set_cursor_cur. pose proof (len_nonneg (text s)). lia.
Qed.

Lemma accept_invalid_stale c s :
  vst s = V_INVALID -> validate_and_handle c s = (s, None).
Proof. intros Hv. unfold validate_and_handle, validate. rewrite Hv. reflexivity. Qed.

Definition verdict_ok (c : cfg) (s : hs) : Prop :=
  vst s = V_VALID \/
  (vst s = V_UNKNOWN /\ match val c with Some V => V (text s) (cur s) = None | None => True end).

Lemma validate_ok c s :
  verdict_ok c s ->
  exists s1, validate c s true = (s1, true) /\ frame s s1 /\ wi s1 = wi s /\ cur s1 = cur s /\ hst s1 = hst s.
Proof.
  intros [Hv|[Hv HV]]; unfold validate; rewrite Hv.
  - exists s. repeat split; auto.
  - change (negb (V_UNKNOWN =? V_UNKNOWN)) with false. cbn iota.
    destruct (val c) as [V|]; [rewrite HV|]; eexists; (split; [reflexivity|]);
      repeat split; auto.
Qed.

Lemma reset_fields s t cp app :
  let s' := reset s t cp app in
  wl s' = [t] /\ wi s' = 0 /\ cur s' = cp /\ hst s' = None /\ vst s' = V_UNKNOWN /\ task s' = None /\
  tfin s' = false /\ store s' = store (if app then append_to_history s else s).
Proof. unfold reset; proj. repeat split. Qed.

Lemma accept_valid c s :
  verdict_ok c s ->
  exists s', validate_and_handle c s = (s', Some (text s)) /\
    store s' = store (append_to_history s) /\
    (keep c = true -> wl s' = wl s /\ wi s' = wi s /\ cur s' = cur s /\ hst s' = hst s) /\
    (keep c = false -> wl s' = [[]] /\ wi s' = 0 /\ cur s' = 0 /\ hst s' = None /\
                       vst s' = V_UNKNOWN /\ task s' = None).
Proof.
  intros H. destruct (validate_ok c s H) as (s1 & E & (Fw & Fs & _ & _ & _ & Fth) & W & C & Hh).
  unfold validate_and_handle. rewrite E.
  assert (T : text s1 = text s) by (apply text_eq; assumption).
  assert (St : store (append_to_history s1) = store (append_to_history s))
    by (apply append_to_history_store_eq; assumption).
  rewrite T. eexists; split; [reflexivity|].
  destruct (keep c).
  - split; [exact St|]. split; [|discriminate]. intros _.
    destruct (append_to_history_fields s1) as (A1 & A2 & A3 & A4).
    rewrite A1, A2, A3, A4. destruct Fw. auto.
  - split; [unfold reset; proj; exact St|]. split; [discriminate|]. intros _.
    unfold reset; proj. repeat split.
Qed.

(* ---------------------------------------------------------------------- *)
(* Coherence of the History object: once loaded, get_strings() is the whole
   stored history; before that it is the part appended in this session. *)
Definition Coh (h : hstore) : Prop :=
  exists pre, sto h = pre ++ rev (ls h) /\ (loaded h = true -> pre = []).

Lemma coh_append h t : Coh h -> Coh (append_string h t).
Proof.
  intros (pre & E & P). exists pre. unfold append_string; proj. split; [|exact P].
  cbn [rev]. rewrite E, app_assoc. reflexivity.
Qed.

Lemma coh_ensure h : Coh h -> Coh (ensure_loaded h).
Proof.
  intros Hc. unfold ensure_loaded. destruct (loaded h) eqn:E; [exact Hc|].
  exists []. proj. rewrite rev_involutive. auto.
Qed.

Lemma ensure_loaded_idem h : ensure_loaded (ensure_loaded h) = ensure_loaded h.
Proof. unfold ensure_loaded. destruct (loaded h) eqn:E; [rewrite E; reflexivity | reflexivity]. Qed.

Lemma ensure_loaded_sto h : sto (ensure_loaded h) = sto h.
Proof. unfold ensure_loaded. destruct (loaded h); reflexivity. Qed.

Lemma coh_ls_ensure h : Coh h -> ls (ensure_loaded h) = rev (sto h).
Proof.
  intros (pre & E & P). unfold ensure_loaded. destruct (loaded h) eqn:El; [|reflexivity].
  rewrite E, (P eq_refl). cbn [app]. rewrite rev_involutive. reflexivity.
Qed.

Lemma coh_init storage : Coh (mkst [] storage false).
Proof. exists storage. proj. split; [rewrite app_nil_r; reflexivity | discriminate]. Qed.

Lemma ensure_loaded_loaded h : loaded (ensure_loaded h) = true.
Proof. unfold ensure_loaded. destruct (loaded h) eqn:E; [exact E | reflexivity]. Qed.

(* under coherence get_strings() is the whole stored history *)
Lemma coh_get_strings h : Coh h -> get_strings h = sto h.
Proof. intros H. unfold get_strings. rewrite (coh_ls_ensure h H), rev_involutive. reflexivity. Qed.

Lemma coh_append_to_history s :
  thr (th s) = false -> Coh (store s) -> Coh (store (append_to_history s)).
Proof.
  intros Ht H. rewrite append_to_history_store by exact Ht. destruct (text s); [exact H|]. cbv zeta.
  destruct (skip_append _ _); [apply coh_ensure, H | apply coh_append, coh_ensure, H].
Qed.

(* the duplicate test in terms of the stored history *)
Definition stored_skip (S : list str) (t : str) : bool :=
  match t with
  | [] => true
  | _ => match rev S with [] => false | x :: _ => str_eqb x t end
  end.

Lemma stored_skip_spec S t :
  stored_skip S t = true <-> t = [] \/ exists r, S = r ++ [t].
Proof.
  unfold stored_skip. destruct t as [|c t]; [split; auto|].
  destruct (rev S) as [|x r] eqn:E.
  - split; [discriminate|]. intros [H|[r H]]; [discriminate|].
    rewrite H, rev_app_distr in E. discriminate.
  - rewrite str_eqb_eq. split.
    + intros ->. right. exists (rev r). rewrite <- (rev_involutive S), E. reflexivity.
    + intros [H|[r' H]]; [discriminate|]. rewrite H, rev_app_distr in E. cbn in E. congruence.
Qed.

(* append_to_history: appended exactly once to the stored history (and to
   get_strings()) unless the text is empty or equals the newest stored entry -
   whether or not the history had been loaded. *)
Lemma append_spec s :
  thr (th s) = false -> Coh (store s) ->
  let S := sto (store s) in
  let h' := store (append_to_history s) in
  sto h' = (if stored_skip S (text s) then S else S ++ [text s]) /\ get_strings h' = sto h'.
Proof.
  intros Ht Hc S h'. assert (Hc' : Coh h') by (apply coh_append_to_history; assumption).
  split; [|apply coh_get_strings, Hc'].
  unfold h'. rewrite append_to_history_store by exact Ht. unfold stored_skip.
  destruct (text s) as [|ch t] eqn:Et; [reflexivity|]. cbv zeta.
  unfold skip_append. rewrite (coh_ls_ensure _ Hc). fold S.
  destruct (rev S) as [|x r]; [rewrite sto_append, ensure_loaded_sto; reflexivity|].
  destruct (str_eqb x (ch :: t)); [apply ensure_loaded_sto | rewrite sto_append, ensure_loaded_sto; reflexivity].
Qed.

Lemma write_back_store c s b : store (write_back c s b) = store s.
Proof.
  unfold write_back. destruct (negb (bcur b =? cur s)); [rewrite cc_store|];
    unfold text_changed;
    destruct (negb (str_eqb _ _)); destruct (val c); try destruct (vwt c); reflexivity.
Qed.

Lemma pop_step_coh s : Coh (store s) -> Coh (store (pop_step s)).
Proof.
  intros H. unfold pop_step. destruct (thr (th s)); [exact H|].
  destruct (task s); [|exact H]. destruct (tfin s); [exact H|].
  destruct (nth_error _ _); proj; apply coh_ensure, H.
Qed.

Lemma pop_n_coh n : forall s, Coh (store s) -> Coh (store (pop_n n s)).
Proof. induction n; intros s H; cbn [pop_n]; [exact H | apply IHn, pop_step_coh, H]. Qed.

Lemma frame_coh s s' : frame s s' -> Coh (store s) -> Coh (store s').
Proof. intros (_ & E & _). rewrite E. auto. Qed.

Lemma core_coh c s o :
  thr (th s) = false -> Coh (store s) -> Coh (store (snd (fst (step_core c s o)))).
Proof.
  intros Ht H.
  destruct o; try (apply (frame_coh s); [apply nav_core_frame; exact I | exact H]);
    cbn [step_core ok fst snd].
  - destruct (insert_text _ _ _ _); cbn [of_res ok fst snd]; [rewrite write_back_store|]; exact H.
  - destruct (delete_before_cursor _ _); cbn [of_res ok fst snd]; [rewrite write_back_store|]; exact H.
  - destruct (delete _ _); cbn [of_res ok fst snd]; [rewrite write_back_store|]; exact H.
  - cbn [of_res ok fst snd]. rewrite write_back_store; exact H.
  - unfold validate_and_handle.
    pose proof (validate_frame c s true) as F.
    destruct (validate c s true) as [s1 okv]; cbn [fst] in F.
    assert (H1 : Coh (store s1)) by (eapply frame_coh; eauto).
    assert (Ht1 : thr (th s1) = false) by (destruct F as (_ & _ & _ & _ & _ & K); rewrite K; exact Ht).
    destruct okv; cbn [fst snd]; [|exact H1].
    destruct (keep c); [|unfold reset; proj]; apply coh_append_to_history; assumption.
  - unfold reset; proj. destruct app; [apply coh_append_to_history|]; assumption.
  - unfold load_start. rewrite Ht. destruct (task s); proj; exact H.
  - apply pop_step_coh, H.
  - apply pop_n_coh, H.
  - proj; exact H.
  - apply coh_append_to_history; assumption.
  - unfold reopen, reset; proj. apply coh_init.
  - unfold thread_step. rewrite Ht. exact H.
Qed.

Lemma step_coh c s o : thr (th s) = false -> Coh (store s) -> Coh (store (step_state c s o)).
Proof.
  intros Ht H. rewrite step_state_eq by exact Ht.
  eapply frame_coh; [apply flush_frame | apply core_coh; assumption].
Qed.

Lemma steps_coh c ops : forall s,
  thr (th s) = false -> Coh (store s) -> Coh (store (steps c s ops)).
Proof.
  induction ops as [|o r IH]; intros s Ht H; cbn [steps fold_left]; [exact H|].
  apply IH; [rewrite step_thr; exact Ht | apply step_coh; assumption].
Qed.

(* accepting: returned text, and the stored history gains it exactly once *)
Lemma accept_history c s :
  thr (th s) = false -> Coh (store s) -> verdict_ok c s ->
  let r := validate_and_handle c s in
  snd r = Some (text s) /\
  sto (store (fst r)) =
    (if stored_skip (sto (store s)) (text s) then sto (store s) else sto (store s) ++ [text s]) /\
  get_strings (store (fst r)) = sto (store (fst r)).
Proof.
  intros Ht Hc Hv r. destruct (accept_valid c s Hv) as (s' & E & St & _).
  unfold r. rewrite E. cbn [fst snd]. rewrite St.
  destruct (append_spec s Ht Hc) as (A & B). auto.
Qed.

(* Before the fix (finding C14-F1) only what had been loaded so far was
   compared: accepting the newest stored entry before loading stored it again. *)
Lemma append_dedupe_unloaded_pinned_refuted :
  exists s, Inv s /\ Coh (store s) /\ loaded (store s) = false /\
    sto (store s) = [text s] /\ text s <> [] /\
    sto (store (append_to_history_pinned s)) = [text s; text s].
Proof.
  exists (mk [[97]] 0 1 None None V_UNKNOWN false (mkst [] [[97]] false) None false false false (mkth false 0 false [] 0)).
  repeat split; try (vm_compute; congruence); try reflexivity.
  apply coh_init.
Qed.

(* ---------------------------------------------------------------------- *)
(* Population *)
Lemma index_cons_shift {T} (x : T) l i : 0 <= i < len l -> index (x :: l) (i + 1) = index l i.
Proof.
  intros H. unfold index. rewrite len_cons.
  destruct (i + 1 <? 0) eqn:E1; [lia|]. destruct (i <? 0) eqn:E2; [lia|].
  destruct (i + 1 <? 0) eqn:E3; [lia|]. destruct (1 + len l <=? i + 1) eqn:E4; [lia|].
  destruct (i <? 0) eqn:E5; [lia|]. destruct (len l <=? i) eqn:E6; [lia|]. cbn [orb].
  replace (Z.to_nat (i + 1)) with (S (Z.to_nat i)) by lia. reflexivity.
Qed.

(* a population step never changes what is displayed *)
Lemma pop_step_displayed s :
  Inv s ->
  text (pop_step s) = text s /\ cur (pop_step s) = cur s /\ hst (pop_step s) = hst s /\
  vst (pop_step s) = vst s /\ pref (pop_step s) = pref s.
Proof.
  intros HI. unfold pop_step. destruct (thr (th s)); [auto|].
  destruct (task s); [|auto]. destruct (tfin s); [auto|].
  destruct (nth_error _ _); unfold text; proj; auto.
  rewrite index_cons_shift by exact HI. auto.
Qed.

Lemma pop_n_displayed n : forall s,
  Inv s -> text (pop_n n s) = text s /\ cur (pop_n n s) = cur s /\ hst (pop_n n s) = hst s.
Proof.
  induction n; intros s HI; cbn [pop_n]; [auto|].
  destruct (pop_step_displayed s HI) as (A & B & C & _).
  destruct (IHn (pop_step s) (pop_step_inv s HI)) as (A' & B' & C').
  repeat split; congruence.
Qed.

Lemma pop_step_shift s :
  wi (pop_step s) - wi s = len (wl (pop_step s)) - len (wl s) /\
  exists new, wl (pop_step s) = new ++ wl s.
Proof.
  unfold pop_step. destruct (thr (th s)); [split; [lia | exists []; reflexivity]|].
  destruct (task s); [|split; [lia | exists []; reflexivity]].
  destruct (tfin s); [split; [lia | exists []; reflexivity]|].
  destruct (nth_error _ _) as [item|]; proj.
  - rewrite len_cons. split; [lia | exists [item]; reflexivity].
  - split; [lia | exists []; reflexivity].
Qed.

Lemma pop_n_shift n : forall s,
  wi (pop_n n s) - wi s = len (wl (pop_n n s)) - len (wl s) /\
  exists new, wl (pop_n n s) = new ++ wl s.
Proof.
  induction n; intros s; cbn [pop_n]; [split; [lia | exists []; reflexivity]|].
  destruct (pop_step_shift s) as (A & new1 & B). destruct (IHn (pop_step s)) as (A' & new2 & B').
  split; [lia|]. exists (new2 ++ new1). rewrite B', B, app_assoc. reflexivity.
Qed.

Section Population.
  Variable t : str.
  Variable S0 : list str.
  Let L := rev S0.

  (* the loader has delivered the [i] newest entries *)
  Definition PJ (s : hs) : Prop :=
    thr (th s) = false /\
    exists i : nat, task s = Some (Z.of_nat i) /\ wl s = rev (firstn i L) ++ [t] /\
      ls (ensure_loaded (store s)) = L /\ sto (store s) = S0 /\ (i <= length L)%nat /\
      (tfin s = true -> i = length L).

  Lemma firstn_S_nth {T} (l : list T) : forall i x,
    nth_error l i = Some x -> firstn (S i) l = firstn i l ++ [x].
  Proof.
    induction l as [|y l IH]; intros [|i] x H; cbn in H; try discriminate.
    - inversion H; reflexivity.
    - change (y :: firstn (S i) l = (y :: firstn i l) ++ [x]). cbn [app]. f_equal. apply IH. exact H.
  Qed.

  Lemma PJ_frame s s' : frame s s' -> PJ s -> PJ s'.
  Proof.
    intros (A & B & C & D & _ & E) (Ht & i & H1 & H2 & H3 & H4 & H5 & H6).
    split; [rewrite E; exact Ht|].
    exists i. rewrite A, B, C, D. auto 10.
  Qed.

  Lemma PJ_pop_step s : PJ s -> PJ (pop_step s).
  Proof.
    intros (Ht & i & H1 & H2 & H3 & H4 & H5 & H6).
    split; [rewrite pop_step_th; exact Ht|].
    unfold pop_step. rewrite Ht, H1.
    destruct (tfin s) eqn:Ef; [exists i; auto 10|].
    proj. rewrite H3, Nat2Z.id.
    destruct (nth_error L i) as [item|] eqn:En.
    - exists (S i). proj. rewrite ensure_loaded_idem, ensure_loaded_sto, H2, H3.
      assert (i < length L)%nat by (apply nth_error_Some; congruence).
      repeat split; auto; try lia; try discriminate.
      + f_equal. lia.
      + rewrite (firstn_S_nth L i item En), rev_app_distr. reflexivity.
    - exists i. proj. rewrite ensure_loaded_idem, ensure_loaded_sto.
      apply nth_error_None in En. repeat split; auto. intros _. lia.
  Qed.

  Lemma PJ_pop_n n : forall s, PJ s -> PJ (pop_n n s).
  Proof. induction n; intros s H; cbn [pop_n]; [exact H | apply IHn, PJ_pop_step, H]. Qed.

  Lemma PJ_step c s o : is_nav o \/ is_pop o -> PJ s -> PJ (step_state c s o).
  Proof.
    intros [Ho|Ho] H.
    - eapply PJ_frame; [apply nav_step_frame; [exact (proj1 H) | exact Ho] | exact H].
    - rewrite step_state_eq by exact (proj1 H). eapply PJ_frame; [apply flush_frame|].
      destruct o; cbn [is_pop] in Ho; try contradiction; cbn [step_core ok fst snd].
      + apply PJ_pop_step, H.
      + apply PJ_pop_n, H.
  Qed.

  Lemma PJ_steps c ops : forall s,
    Forall (fun o => is_nav o \/ is_pop o) ops -> PJ s -> PJ (steps c s ops).
  Proof.
    induction ops as [|o r IH]; intros s H HP; cbn [steps fold_left]; [exact HP|].
    inversion H; subst. apply IH; [assumption | apply PJ_step; assumption].
  Qed.

  Lemma PJ_done s : PJ s -> tfin s = true -> wl s = S0 ++ [t].
  Proof.
    intros (_ & i & _ & H2 & _ & _ & _ & H6) Hf. rewrite H2, (H6 Hf), firstn_all.
    unfold L. rewrite rev_involutive. reflexivity.
  Qed.

  (* enough steps exhaust the loader *)
  Lemma pop_step_fin_stable s : tfin s = true -> pop_step s = s.
  Proof.
    intros H. unfold pop_step. destruct (thr (th s)); [reflexivity|].
    destruct (task s); [rewrite H|]; reflexivity.
  Qed.

  Lemma pop_n_fin_stable n : forall s, tfin s = true -> pop_n n s = s.
  Proof.
    induction n; intros s H; cbn [pop_n]; [reflexivity|].
    rewrite pop_step_fin_stable by exact H. apply IHn, H.
  Qed.

  Lemma pop_n_fin n : forall s (i : nat),
    thr (th s) = false -> task s = Some (Z.of_nat i) -> ls (ensure_loaded (store s)) = L -> (i <= length L)%nat ->
    (length L < i + n)%nat -> tfin (pop_n n s) = true.
  Proof.
    induction n; intros s i Ht H1 H3 H5 Hn; [lia|]. cbn [pop_n].
    destruct (tfin s) eqn:Ef.
    { rewrite pop_step_fin_stable by exact Ef. rewrite pop_n_fin_stable; exact Ef. }
    unfold pop_step. rewrite Ht, H1, Ef. proj. rewrite H3, Nat2Z.id.
    destruct (nth_error L i) as [item|] eqn:En.
    - assert (i < length L)%nat by (apply nth_error_Some; congruence).
      apply (IHn _ (S i)); proj; try rewrite ensure_loaded_idem; auto; try lia.
      f_equal; lia.
    - rewrite pop_n_fin_stable; reflexivity.
  Qed.
End Population.

Lemma PJ_start s t cp :
  thr (th s) = false -> Coh (store s) -> PJ t (sto (store s)) (load_start (reset s t cp false)).
Proof.
  intros Ht Hc. unfold load_start, reset; proj. rewrite Ht. split; [exact Ht|].
  exists 0%nat. proj.
  repeat split; auto; try lia; try discriminate. apply coh_ls_ensure, Hc.
Qed.

(* reset, then population interleaved with any navigation: once the loader is
   exhausted the entry list is history ++ [new] *)
Lemma reset_clean_interleaved c s t cp ops :
  thr (th s) = false -> Coh (store s) -> Forall (fun o => is_nav o \/ is_pop o) ops ->
  let s' := steps c (load_start (reset s t cp false)) ops in
  tfin s' = true -> wl s' = sto (store s) ++ [t].
Proof.
  intros Ht Hc Ho s' Hf. eapply PJ_done; [|exact Hf].
  apply PJ_steps; [exact Ho | apply PJ_start; assumption].
Qed.

(* reset, then uninterrupted population *)
Lemma reset_clean s t cp :
  thr (th s) = false -> Coh (store s) ->
  let s' := pop_all (load_start (reset s t cp false)) in
  wl s' = sto (store s) ++ [t] /\ wi s' = len (sto (store s)) /\ text s' = t /\ cur s' = cp /\
  sto (store s') = sto (store s) /\ hst s' = None /\ vst s' = V_UNKNOWN.
Proof.
  intros Ht Hc. cbv zeta. unfold pop_all.
  set (s0 := load_start (reset s t cp false)).
  set (N := S (S (length (sto (store s0)) + length (ls (store s0))))).
  set (s' := pop_n N s0).
  assert (P0 : PJ t (sto (store s)) s0) by (apply PJ_start; assumption).
  assert (E0 : s0 = set_task (reset s t cp false) (Some 0) false)
    by (unfold s0, load_start, reset; proj; rewrite Ht; reflexivity).
  assert (I0 : Inv s0) by (rewrite E0; unfold reset, Inv; proj; unfold len; cbn; lia).
  assert (Pn : PJ t (sto (store s)) s') by (apply PJ_pop_n, P0).
  assert (Hf : tfin s' = true).
  { unfold s'. apply (pop_n_fin (sto (store s)) _ s0 0%nat).
    - exact (proj1 P0).
    - rewrite E0; reflexivity.
    - rewrite E0; unfold reset; proj. apply coh_ls_ensure, Hc.
    - lia.
    - unfold N. rewrite E0; unfold reset; proj. rewrite rev_length. lia. }
  pose proof (PJ_done _ _ _ Pn Hf) as W.
  destruct (pop_n_shift N s0) as (Sh & _).
  destruct (pop_n_displayed N s0 I0) as (T & C & Hh).
  fold s' in Sh, T, C, Hh.
  destruct Pn as (_ & i & _ & _ & _ & St & _).
  split; [exact W|].
  split.
  { rewrite W, len_app in Sh. rewrite E0 in Sh. unfold reset in Sh; proj.
    change (len [t]) with 1 in Sh. change (len [t]) with 1 in Sh. lia. }
  split. { rewrite T, E0. unfold reset, text; proj. reflexivity. }
  split. { rewrite C, E0. reflexivity. }
  split. { exact St. }
  split. { rewrite Hh, E0. reflexivity. }
  assert (V : forall n x, vst (pop_n n x) = vst x).
  { induction n; intros x; cbn [pop_n]; [reflexivity|]. rewrite IHn.
    unfold pop_step. destruct (thr (th x)); [reflexivity|].
    destruct (task x); [|reflexivity]. destruct (tfin x); [reflexivity|].
    destruct (nth_error _ _); reflexivity. }
  unfold s'. rewrite V, E0. reflexivity.
Qed.
