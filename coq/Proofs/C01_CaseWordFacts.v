(* Facts about the case commands (Model/C01_CaseWord.v) for Props/C01.v *)
From Coq Require Import ZArith List Bool Lia.
From PTK Require Import Lib.Sx Lib.Py Model.Document Model.BufferEdit Model.C02_DocQueries
  Model.C01_CaseWord Proofs.BufferEditFacts Proofs.BufferEditLines.
Import ListNotations.
Open Scope Z_scope.

Lemma case_word1_inv F b : Inv b -> Inv (res_buf (case_word1 F b)).
Proof.
  intros H. unfold case_word1. apply bind_inv.
  - now apply delete_inv.
  - intros b1 _ H1. now apply insert_text_inv.
Qed.

Lemma iter_res_inv (f : buf -> res) :
  (forall b, Inv b -> Inv (res_buf (f b))) ->
  forall n b, Inv b -> Inv (res_buf (iter_res f n b)).
Proof.
  intros Hf n; induction n as [|n IH]; intros b H; cbn [iter_res res_buf]; [exact H|].
  apply bind_inv; [now apply Hf|]. intros b1 _ H1. now apply IH.
Qed.

Lemma case_word_inv F b a : Inv b -> Inv (res_buf (case_word F b a)).
Proof.
  intros H. unfold case_word.
  pose proof (iter_res_inv (case_word1 F) (case_word1_inv F) (Z.to_nat a) b H) as HI.
  destruct (iter_res (case_word1 F) (Z.to_nat a) b); exact HI.
Qed.

Lemma xstep_inv b x : Inv b -> Inv (res_buf (xstep b x)).
Proof.
  intros H; destruct x as [o|k a|a e tw]; cbn [xstep]; [now apply step_inv|now apply case_word_inv|].
  unfold Model.C01_Reshape.reshape_text_w.
  match goal with |- context [match ?m with [] => _ | _ :: _ => _ end] => destruct m end;
    [exact H|now apply set_document_inv].
Qed.

Definition xsteps (b : buf) (ops : list xop) : buf :=
  fold_left (fun b o => res_buf (xstep b o)) ops b.

Lemma xsteps_inv ops : forall b, Inv b -> Inv (xsteps b ops).
Proof.
  induction ops as [|o ops IH]; intros b H; cbn [xsteps fold_left]; [exact H|].
  apply IH, xstep_inv, H.
Qed.

(* The slice text_after_cursor[:pos] is a prefix of the text after the cursor,
   whatever pos is (None, negative, oversized). *)
Lemma slice_to_opt_prefix {T} (s : list T) (hi : option Z) :
  exists n, 0 <= n <= len s /\ slice s None hi = firstn (Z.to_nat n) s.
Proof.
  unfold slice. pose proof (len_nonneg s) as Hs.
  destruct hi as [i|].
  - set (e := adj_index (len s) i).
    assert (He : 0 <= e <= len s).
    { unfold e, adj_index. destruct (i <? 0) eqn:E; lia. }
    destruct (0 <? e) eqn:E.
    + exists e. split; [lia|]. rewrite Z.sub_0_r. reflexivity.
    + exists 0. split; [lia|]. reflexivity.
  - destruct (0 <? len s) eqn:E.
    + exists (len s). split; [lia|]. rewrite Z.sub_0_r. reflexivity.
    + exists 0. split; [lia|]. reflexivity.
Qed.

Lemma skipn_add {T} (l : list T) a n : skipn n (skipn a l) = skipn (a + n) l.
Proof.
  revert l; induction a as [|a IH]; intros l; [reflexivity|].
  destruct l as [|x l]; [now rewrite !skipn_nil|]. cbn [skipn Nat.add]. apply IH.
Qed.

Lemma skipn_add_Z {T} (l : list T) a n :
  0 <= a -> 0 <= n -> skipn (Z.to_nat n) (skipn (Z.to_nat a) l) = skipn (Z.to_nat (a + n)) l.
Proof. intros Ha Hn. rewrite skipn_add. f_equal. lia. Qed.

(* One application of a case command replaces a span of n characters directly
   after the cursor by its image under F and moves the cursor behind it;
   nothing else changes - whatever F does (length-changing maps such as
   'ß' -> 'SS' included) and wherever line endings are. *)
Lemma case_word1_spec F b :
  Inv b ->
  exists n,
    0 <= n <= len (btext b) - bcur b /\
    let before := firstn (Z.to_nat (bcur b)) (btext b) in
    let after := skipn (Z.to_nat (bcur b)) (btext b) in
    case_word1 F b =
    Ok (mkbuf (before ++ F (firstn (Z.to_nat n) after) ++ skipn (Z.to_nat n) after)
              (bcur b + len (F (firstn (Z.to_nat n) after)))) [].
Proof.
  intros H. pose proof H as [H0 H1]. unfold case_word1, next_words.
  unfold text_after_cursor.
  change (dtext (bdoc b)) with (btext b). change (dcur (bdoc b)) with (bcur b).
  rewrite slice_from_in_range by lia.
  set (after := skipn (Z.to_nat (bcur b)) (btext b)).
  assert (Hla : len after = len (btext b) - bcur b) by (unfold after; rewrite len_skipn; lia).
  destruct (slice_to_opt_prefix after (find_next_word_ending (bdoc b) false 1 false)) as [n [Hn Hs]].
  rewrite Hs. set (words := firstn (Z.to_nat n) after).
  assert (Hlw : len words = n) by (unfold words; rewrite len_firstn; lia).
  exists n. split; [lia|]. cbn zeta.
  rewrite (delete_spec b (len words) H) by lia. cbn zeta.
  replace (Z.min (len words) (len (btext b) - bcur b)) with n by lia.
  cbn [bind].
  set (b1 := mkbuf _ (bcur b)).
  assert (HI1 : Inv b1).
  { unfold Inv, b1; cbn [btext bcur]. rewrite len_app, len_firstn, len_skipn. lia. }
  rewrite (insert_text_spec b1 (F words) true HI1).
  unfold b1; cbn [btext bcur].
  set (pre := firstn (Z.to_nat (bcur b)) (btext b)).
  set (X := skipn (Z.to_nat (bcur b + n)) (btext b)).
  assert (Hb : Z.to_nat (bcur b) = Z.to_nat (len pre)) by (unfold pre; rewrite len_firstn; lia).
  assert (E1 : firstn (Z.to_nat (bcur b)) (pre ++ X) = pre)
    by (rewrite Hb; apply Proofs.BufferEditLines.firstn_len_app).
  assert (E2 : skipn (Z.to_nat (bcur b)) (pre ++ X) = X)
    by (rewrite Hb; apply Proofs.BufferEditLines.skipn_len_app).
  rewrite E1, E2. unfold X.
  replace (skipn (Z.to_nat (bcur b + n)) (btext b)) with (skipn (Z.to_nat n) after).
  2:{ unfold after. rewrite skipn_add_Z by lia. reflexivity. }
  reflexivity.
Qed.

(* The pinned version (insert_text(..., overwrite=True)) did not have this
   shape: at the end of a line it duplicated the next word. *)
Lemma case_word1_pinned_refuted :
  exists b, Inv b /\
    case_word1_pinned (case_F 0) b = Ok (mkbuf [97; 10; 66; 10; 98] 3) [] /\
    btext b = [97; 10; 98].
Proof.
  exists (mkbuf [97; 10; 98] 1). split; [unfold Inv; cbn; lia|]. split; [vm_compute; reflexivity|reflexivity].
Qed.
