(* C19 - facts about the cascade of styles/style.py: the combinations
   enumeration is the subset criterion, the list of applied entries is the
   declarative application order, _merge_attrs is last-non-None-wins and never
   fails, merge_styles is Style(concatenated rules). *)
From Coq Require Import ZArith List Bool Lia String.
From PTK Require Import Lib.Py Lib.C19_Str Gen.Whitespace Gen.C19_Palette Model.C19_Style
     Proofs.C19_PaletteFacts.
Import ListNotations.
Open Scope Z_scope.

(* ---------------------------------------------------------------------- *)
(* booleans to propositions *)

Lemma mem_str_In : forall x l, mem_str x l = true <-> In x l.
Proof.
  intros x l. unfold mem_str. rewrite existsb_exists. split.
  - intros (y & Hy & E). apply str_eqb_eq in E. subst. exact Hy.
  - intros H. exists x. split; [exact H|]. apply str_eqb_eq. reflexivity.
Qed.

Lemma subset_b_incl : forall a b, subset_b a b = true <-> incl a b.
Proof.
  intros a b. unfold subset_b. rewrite forallb_forall. split.
  - intros H x Hx. apply mem_str_In. auto.
  - intros H x Hx. apply mem_str_In. auto.
Qed.

Lemma set_eqb_spec : forall a b, set_eqb a b = true <-> (incl a b /\ incl b a).
Proof.
  intros a b. unfold set_eqb. rewrite andb_true_iff, !subset_b_incl. tauto.
Qed.

(* ---------------------------------------------------------------------- *)
(* itertools.combinations *)

Lemma comb_incl {T} : forall (l : list T) k c2, In c2 (combinations l k) -> incl c2 l.
Proof.
  induction l as [|x r IH]; intros k c2 H.
  - destruct k; cbn in H.
    + destruct H as [H | []]. subst. intros y [].
    + destruct H.
  - destruct k as [|k']; cbn [combinations] in H.
    + destruct H as [H | []]. subst. intros y [].
    + apply in_app_or in H. destruct H as [H | H].
      * apply in_map_iff in H. destruct H as (c' & E & Hc'). subst c2.
        apply IH in Hc'. intros y [Hy | Hy]; [left; exact Hy | right; auto].
      * apply IH in H. intros y Hy. right. auto.
Qed.

Lemma filter_in_combinations {T} : forall (f : T -> bool) (l : list T),
  In (filter f l) (combinations l (List.length (filter f l))).
Proof.
  intros f. induction l as [|x r IH].
  - cbn. left. reflexivity.
  - cbn [filter]. destruct (f x).
    + cbn [List.length combinations]. apply in_or_app. left. apply in_map. exact IH.
    + destruct (List.length (filter f r)) as [|k'] eqn:E.
      * cbn [combinations]. left.
        destruct (filter f r); [reflexivity | discriminate].
      * cbn [combinations]. apply in_or_app. right. exact IH.
Qed.

Lemma filter_length_le' {T} : forall (f : T -> bool) (l : list T),
  (List.length (filter f l) <= List.length l)%nat.
Proof.
  intros f. induction l as [|x r IH]; cbn [filter List.length]; [lia|].
  destruct (f x); cbn [List.length]; lia.
Qed.

(* ---------------------------------------------------------------------- *)
(* the combination rule: a rule with class set [names] is applied at the step
   that introduces class [c] iff c is one of its classes and all the others
   have been seen *)

Theorem combo_iff_subset : forall seen c names,
  in_combos names (combos seen c) = true <-> (In c names /\ incl names (c :: seen)).
Proof.
  intros seen c names. unfold in_combos. rewrite existsb_exists. split.
  - intros (combo & Hin & Heq). apply set_eqb_spec in Heq. destruct Heq as [H1 H2].
    assert (Hc : In c combo /\ incl combo (c :: seen)).
    { unfold combos in Hin. destruct Hin as [Hin | Hin].
      - subst combo. split; [left; reflexivity|]. intros y [Hy | []]. left. exact Hy.
      - apply in_flat_map in Hin. destruct Hin as (k & Hk & Hin).
        apply in_map_iff in Hin. destruct Hin as (c2 & E & Hc2). subst combo.
        apply comb_incl in Hc2. split.
        + apply in_or_app. right. left. reflexivity.
        + intros y Hy. apply in_app_or in Hy. destruct Hy as [Hy | [Hy | []]].
          * right. auto.
          * left. exact Hy. }
    destruct Hc as [Hc1 Hc2]. split; [auto|].
    intros y Hy. auto.
  - intros [Hc Hincl].
    remember (filter (fun x => mem_str x names) seen) as S eqn:HeqS.
    assert (HS1 : incl names (S ++ [c])).
    { intros y Hy. destruct (Hincl _ Hy) as [E | Hs].
      - subst y. apply in_or_app. right. left. reflexivity.
      - apply in_or_app. left. rewrite HeqS. apply filter_In. split; [exact Hs|].
        apply mem_str_In. exact Hy. }
    assert (HS2 : incl (S ++ [c]) names).
    { intros y Hy. apply in_app_or in Hy. destruct Hy as [Hy | [Hy | []]].
      - rewrite HeqS in Hy. apply filter_In in Hy. destruct Hy as [_ Hy]. apply mem_str_In. exact Hy.
      - subst y. exact Hc. }
    assert (Hlen : (List.length S <= List.length seen)%nat).
    { rewrite HeqS. apply filter_length_le'. }
    assert (Hcomb : In S (combinations seen (List.length S))).
    { rewrite HeqS. apply filter_in_combinations. }
    destruct S as [|s0 S'].
    + exists [c]. split.
      * unfold combos. left. reflexivity.
      * apply set_eqb_spec. split; [exact HS1 | exact HS2].
    + exists ((s0 :: S') ++ [c]). split.
      * unfold combos. right. apply in_flat_map.
        exists (List.length (s0 :: S')). split.
        -- apply in_seq. cbn [List.length] in *. lia.
        -- apply (in_map (fun c2 => c2 ++ [c])). exact Hcomb.
      * apply set_eqb_spec. split; [exact HS1 | exact HS2].
Qed.

Definition applies (seen : list str) (c : str) (names : list str) : bool :=
  mem_str c names && subset_b names (c :: seen).

Lemma in_combos_applies : forall seen c names,
  in_combos names (combos seen c) = applies seen c names.
Proof.
  intros. apply eq_true_iff_eq. rewrite combo_iff_subset. unfold applies.
  rewrite andb_true_iff, mem_str_In, subset_b_incl. tauto.
Qed.

(* ---------------------------------------------------------------------- *)
(* declarative application order *)

Definition matching_spec (table : list rule) (seen : list str) (c : str) : list attrs :=
  map snd (filter (fun r : rule => applies seen c (fst r)) table).

Fixpoint class_step_spec (table : list rule) (new_names : list str)
         (acc : list attrs) (seen : list str) : list attrs * list str :=
  match new_names with
  | [] => (acc, seen)
  | n :: r => class_step_spec table r (acc ++ matching_spec table seen n) (add_seen seen n)
  end.

Fixpoint parts_loop_spec (table : list rule) (parts : list str)
         (acc : list attrs) (seen : list str) : option (list attrs) :=
  match parts with
  | [] => Some acc
  | part :: r =>
      if startswith part s_class then
        let '(acc', seen') := class_step_spec table (new_class_names part) acc seen in
        parts_loop_spec table r acc' seen'
      else
        match parse_style_str part with
        | Some a => parts_loop_spec table r (acc ++ [a]) seen
        | None => None
        end
  end.

(* default, then the rules without class names in sheet order, then the parts
   of the style string left to right: an inline part contributes its parsed
   attributes; a class part contributes, for every expanded class name c in
   order, the rules N with c in N and N <= seen + {c}, in sheet order. *)
Definition entries_spec (table : list rule) (style_str : str) (default : attrs) : option (list attrs) :=
  parts_loop_spec table (split_ws style_str)
                  (default :: map snd (filter (fun r : rule => is_nil (fst r)) table)) [].

Lemma matching_is_spec : forall table seen c,
  matching table (combos seen c) = matching_spec table seen c.
Proof.
  intros. unfold matching, matching_spec. f_equal. apply filter_ext.
  intros r. apply in_combos_applies.
Qed.

Lemma class_step_is_spec : forall table ns acc seen,
  class_step table ns acc seen = class_step_spec table ns acc seen.
Proof.
  intros table. induction ns as [|n r IH]; intros acc seen; cbn [class_step class_step_spec].
  - reflexivity.
  - rewrite matching_is_spec. apply IH.
Qed.

Lemma parts_loop_is_spec : forall table parts acc seen,
  parts_loop table parts acc seen = parts_loop_spec table parts acc seen.
Proof.
  intros table. induction parts as [|p r IH]; intros acc seen; cbn [parts_loop parts_loop_spec].
  - reflexivity.
  - destruct (startswith p s_class).
    + rewrite class_step_is_spec.
      destruct (class_step_spec table (new_class_names p) acc seen) as [acc' seen']. apply IH.
    + destruct (parse_style_str p); [apply IH | reflexivity].
Qed.

Theorem application_order : forall table s d,
  list_of_attrs table s d = entries_spec table s d.
Proof. intros. unfold list_of_attrs, entries_spec. apply parts_loop_is_spec. Qed.

(* ---------------------------------------------------------------------- *)
(* _merge_attrs: the last entry that sets an attribute gives its value *)

Definition last_set {T} (vals : list (option T)) (base : T) (v : T) : Prop :=
  (exists l1 l2, vals = l1 ++ Some v :: l2 /\ Forall (fun x => x = None) l2)
  \/ (Forall (fun x => x = None) vals /\ v = base).

Lemma first_some_app_some {T} : forall (l : list (option T)) (b : T),
  exists v, first_some (l ++ [Some b]) = Some v.
Proof.
  induction l as [|[x|] r IH]; intros b; cbn [app first_some]; eauto.
Qed.

Lemma or_last {T} : forall (base : T) (vals : list (option T)),
  exists v, or_ base vals = Some v /\ last_set vals base v.
Proof.
  intros base vals. unfold or_. cbn [rev].
  induction vals as [|x l IH] using rev_ind.
  - cbn. exists base. split; [reflexivity|]. right. split; [constructor | reflexivity].
  - rewrite rev_app_distr. cbn [rev app]. destruct x as [v|].
    + cbn [first_some]. exists v. split; [reflexivity|]. left. exists l, []. split; [reflexivity | constructor].
    + cbn [first_some]. destruct IH as (v & Hv & Hl). exists v. split; [exact Hv|].
      destruct Hl as [(l1 & l2 & E & Hn) | [Hn E]].
      * left. exists l1, (l2 ++ [None]). split.
        -- subst l. rewrite <- app_assoc. reflexivity.
        -- apply Forall_app. split; [exact Hn | constructor; [reflexivity | constructor]].
      * right. split; [|exact E]. apply Forall_app. split; [exact Hn | constructor; [reflexivity | constructor]].
Qed.

Definition field_last_wins {T} (get : attrs -> option T) (base : T) (l : list attrs) (a : attrs) : Prop :=
  exists v, get a = Some v /\ last_set (map get l) base v.

Definition all_last_wins (l : list attrs) (a : attrs) : Prop :=
  field_last_wins a_color [] l a /\ field_last_wins a_bgcolor [] l a /\
  field_last_wins a_bold false l a /\ field_last_wins a_underline false l a /\
  field_last_wins a_strike false l a /\ field_last_wins a_italic false l a /\
  field_last_wins a_blink false l a /\ field_last_wins a_reverse false l a /\
  field_last_wins a_hidden false l a.

Lemma merge_attrs_last_wins : forall l, all_last_wins l (merge_attrs l).
Proof.
  intros l. unfold all_last_wins, field_last_wins, merge_attrs. cbn.
  repeat split; apply or_last.
Qed.

Definition concrete (a : attrs) : Prop :=
  a_color a <> None /\ a_bgcolor a <> None /\ a_bold a <> None /\ a_underline a <> None /\
  a_strike a <> None /\ a_italic a <> None /\ a_blink a <> None /\ a_reverse a <> None /\
  a_hidden a <> None.

Lemma merge_attrs_concrete : forall l, concrete (merge_attrs l).
Proof.
  intros l. destruct (merge_attrs_last_wins l) as (H1 & H2 & H3 & H4 & H5 & H6 & H7 & H8 & H9).
  unfold concrete, field_last_wins in *.
  repeat split;
    match goal with
    | |- ?f _ <> None =>
        match goal with H : exists v, f _ = Some v /\ _ |- _ =>
          let v := fresh in let E := fresh in destruct H as (v & E & _); rewrite E; discriminate
        end
    end.
Qed.

Theorem get_attrs_concrete : forall table s d a,
  get_attrs table s d = Ok a -> concrete a.
Proof.
  intros table s d a H. unfold get_attrs in H.
  destruct (list_of_attrs table s d); [|discriminate].
  inversion H; subst. apply merge_attrs_concrete.
Qed.

Theorem get_attrs_last_wins : forall table s d a,
  get_attrs table s d = Ok a ->
  exists l, entries_spec table s d = Some l /\ all_last_wins l a.
Proof.
  intros table s d a H. unfold get_attrs in H. rewrite application_order in H.
  destruct (entries_spec table s d) as [l|]; [|discriminate].
  inversion H; subst. exists l. split; [reflexivity|]. apply merge_attrs_last_wins.
Qed.

(* get_attrs fails only with ValueError, and only when an inline part does *)
Theorem get_attrs_error : forall table s d e,
  get_attrs table s d = Err e -> e = 1 /\ entries_spec table s d = None.
Proof.
  intros table s d e H. unfold get_attrs in H. rewrite application_order in H.
  destruct (entries_spec table s d); [discriminate|]. inversion H. auto.
Qed.

(* ---------------------------------------------------------------------- *)
(* merge_styles *)

Lemma mk_style_app : forall a b,
  mk_style (a ++ b) =
  match mk_style a with
  | Err e => Err e
  | Ok xa => match mk_style b with Err e => Err e | Ok xb => Ok (xa ++ xb) end
  end.
Proof.
  induction a as [|r a IH]; intros b; cbn [app mk_style].
  - destruct (mk_style b); reflexivity.
  - destruct (mk_rule r); [|reflexivity]. rewrite IH.
    destruct (mk_style a); [|reflexivity]. destruct (mk_style b); reflexivity.
Qed.

Lemma build_all_concat : forall sheets,
  match build_all sheets with
  | Err e => mk_style (List.concat sheets) = Err e
  | Ok _ => True
  end.
Proof.
  induction sheets as [|s r IH]; cbn [build_all List.concat].
  - exact I.
  - rewrite mk_style_app. destruct (mk_style s) as [xs|e]; [|reflexivity].
    destruct (build_all r); [exact I|]. rewrite IH. reflexivity.
Qed.

Theorem merge_is_concat : forall sheets s d,
  merged_get sheets s d = style_get (List.concat sheets) s d.
Proof.
  intros sheets s d. unfold merged_get. pose proof (build_all_concat sheets) as H.
  destruct (build_all sheets) as [u|e]; [reflexivity|].
  unfold style_get. rewrite H. reflexivity.
Qed.

(* the rule table of the merged style is the concatenation of the tables *)
Fixpoint tables_of (sheets : list (list (str * str))) : res (list (list rule)) :=
  match sheets with
  | [] => Ok []
  | s :: r =>
      match mk_style s with
      | Err e => Err e
      | Ok t => match tables_of r with Err e => Err e | Ok ts => Ok (t :: ts) end
      end
  end.

Theorem merged_table_is_concat : forall sheets ts,
  tables_of sheets = Ok ts -> mk_style (List.concat sheets) = Ok (List.concat ts).
Proof.
  induction sheets as [|s r IH]; intros ts H; cbn [tables_of] in H.
  - inversion H. reflexivity.
  - cbn [List.concat]. rewrite mk_style_app.
    destruct (mk_style s) as [t|e]; [|discriminate].
    destruct (tables_of r) as [ts'|e]; [|discriminate].
    inversion H; subst. rewrite (IH ts' eq_refl). reflexivity.
Qed.

(* ---------------------------------------------------------------------- *)
(* tie of the hand-written recogniser of CLASS_NAMES_RE to the pattern string *)
Lemma class_names_re_fingerprint :
  class_names_re_pattern = zs "^[a-z0-9.\s_-]*$".
Proof. vm_compute. reflexivity. Qed.

(* \s and str.isspace coincide on this CPython (regenerated tables) *)
Lemma re_space_is_isspace : re_space_table = py_isspace_table.
Proof. vm_compute. reflexivity. Qed.
