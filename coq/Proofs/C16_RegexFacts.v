(* Facts about the model of re.escape / the sre parser on escaped patterns /
   the IGNORECASE compilation of literals (Model/C16_Regex.v). *)
From Coq Require Import ZArith List Bool Lia FMapPositive.
From PTK Require Import Lib.Sx Lib.Py Gen.C16_Sre Gen.C16_CaseFold Model.C16_Regex Model.C16_Search
  Proofs.C16_SearchFacts.
Import ListNotations.
Open Scope Z_scope.

Lemma memz_In x l : memz x l = true <-> In x l.
Proof.
  induction l as [|y r IH]; cbn [memz In].
  - split; [discriminate | tauto].
  - rewrite orb_true_iff, Z.eqb_eq, IH. tauto.
Qed.

Lemma memz_sub c l l' :
  forallb (fun x => memz x l) l' = true -> memz c l = false -> memz c l' = false.
Proof.
  intros H Hc. destruct (memz c l') eqn:E; [|reflexivity].
  apply memz_In in E. rewrite forallb_forall in H. apply H in E. congruence.
Qed.

(* ---- finite facts over the regenerated tables ---- *)

(* every character re.escape puts a backslash before is read back as itself *)
Lemma special_escape_ok :
  forallb (fun c => match escape_code c with Some v => v =? c | None => false end) c16_re_special = true.
Proof. vm_compute. reflexivity. Qed.

(* every character the parser treats specially is escaped by re.escape *)
Lemma sre_special_sub :
  forallb (fun x => memz x c16_re_special) (92 :: 124 :: 41 :: c16_sre_special) = true.
Proof. vm_compute. reflexivity. Qed.

Lemma escape_code_special c : memz c c16_re_special = true -> escape_code c = Some c.
Proof.
  intro E. pose proof special_escape_ok as F. rewrite forallb_forall in F.
  apply memz_In in E. specialize (F c E).
  destruct (escape_code c) as [v|]; [|discriminate].
  apply Z.eqb_eq in F. subst. reflexivity.
Qed.

Lemma parse_plain c r :
  memz c c16_re_special = false ->
  parse_literals (c :: r) = match parse_literals r with Some l => Some (c :: l) | None => None end.
Proof.
  intro E. pose proof (memz_sub c _ _ sre_special_sub E) as M.
  cbn [memz] in M.
  apply orb_false_iff in M as [M1 M]. apply orb_false_iff in M as [M2 M].
  apply orb_false_iff in M as [M3 M4].
  assert (E123 : c =? 123 = false).
  { destruct (c =? 123) eqn:E1; [|reflexivity]. apply Z.eqb_eq in E1. subst c.
    vm_compute in M4. discriminate. }
  cbn [parse_literals memz].
  rewrite Z.eqb_sym, M1, M2, M3, M4, E123. reflexivity.
Qed.

Lemma parse_escape_roundtrip s : parse_literals (re_escape s) = Some s.
Proof.
  induction s as [|c s IH]; [reflexivity|].
  unfold re_escape. cbn [flat_map]. fold (re_escape s).
  destruct (memz c c16_re_special) eqn:E.
  - cbn [app parse_literals]. rewrite Z.eqb_refl, (escape_code_special c E), IH. reflexivity.
  - cbn [app]. rewrite (parse_plain c _ E), IH. reflexivity.
Qed.

Lemma compile_escaped ic s : compile_pattern ic (re_escape s) = Some (map (compile_lit ic) s).
Proof. unfold compile_pattern. rewrite parse_escape_roundtrip. reflexivity. Qed.

Lemma op_match_cmatch ic p t : op_match (compile_lit ic p) t = cmatch ceq_sre ic p t.
Proof.
  destruct ic; unfold cmatch.
  - reflexivity.
  - unfold compile_lit. cbn [negb op_match]. apply Z.eqb_sym.
Qed.

Lemma match_ops_match_at ic needle : forall s,
  match_ops (map (compile_lit ic) needle) s = match_at ceq_sre ic needle s.
Proof.
  induction needle as [|p n IH]; intro s; [reflexivity|].
  destruct s as [|t s']; [reflexivity|].
  cbn [map match_ops match_at]. rewrite op_match_cmatch, IH. reflexivity.
Qed.

Lemma escaped_pattern_is_literal ic needle :
  exists ops, compile_pattern ic (re_escape needle) = Some ops /\ length ops = length needle /\
              forall s, match_ops ops s = match_at ceq_sre ic needle s.
Proof.
  exists (map (compile_lit ic) needle). split; [apply compile_escaped|].
  split; [apply map_length|]. apply match_ops_match_at.
Qed.

(* an unescaped special character, `|`, `)` or a trailing backslash is NOT a
   literal sequence for the parser: the escaping is needed *)
Lemma unescaped_special_not_literal c r :
  In c (92 :: 124 :: 41 :: c16_sre_special) -> c <> 92 -> c <> 123 -> parse_literals (c :: r) = None.
Proof.
  intros H Hc Hb. cbn [parse_literals memz].
  assert (E123 : c =? 123 = false) by (apply Z.eqb_neq; exact Hb).
  destruct (c =? 92) eqn:E; [apply Z.eqb_eq in E; contradiction|].
  cbn [In] in H. destruct H as [H|[H|[H|H]]].
  - congruence.
  - subst. reflexivity.
  - subst. reflexivity.
  - apply memz_In in H. rewrite H, E123.
    destruct ((124 =? c) || ((41 =? c) || false)); reflexivity.
Qed.

(* ---- the tries agree with the tables ---- *)

Lemma zkey_inj a b : 0 <= a -> 0 <= b -> zkey a = zkey b -> a = b.
Proof. unfold zkey. intros Ha Hb H. apply Z2Pos.inj in H; lia. Qed.

Lemma assocz_none {T} c (l : list (Z * T)) :
  (forall k v, In (k, v) l -> 0 <= k) -> c < 0 -> assocz c l = None.
Proof.
  induction l as [|[k v] r IH]; intros H Hc; [reflexivity|].
  cbn [assocz]. destruct (k =? c) eqn:E.
  - apply Z.eqb_eq in E. specialize (H k v (or_introl eq_refl)). lia.
  - apply IH; [|exact Hc]. intros k' v' Hin. apply (H k' v'). right. exact Hin.
Qed.

Lemma find_assoc {T} (l : list (Z * T)) :
  (forall k v, In (k, v) l -> 0 <= k) -> forall c, 0 <= c ->
  PositiveMap.find (zkey c)
    (fold_right (fun p m => PositiveMap.add (zkey (fst p)) (snd p) m) (PositiveMap.empty T) l)
  = assocz c l.
Proof.
  induction l as [|[k v] r IH]; intros H c Hc.
  - cbn [fold_right assocz]. apply PositiveMap.gempty.
  - cbn [fold_right assocz fst snd]. destruct (k =? c) eqn:E.
    + apply Z.eqb_eq in E. subst. apply PositiveMap.gss.
    + rewrite PositiveMap.gso.
      * apply IH; [|exact Hc]. intros k' v' Hin. apply (H k' v'). right. exact Hin.
      * intro Hk. apply zkey_inj in Hk; [| exact Hc | apply (H k v); left; reflexivity].
        apply Z.eqb_neq in E. congruence.
Qed.

Lemma find_mem (l : list Z) :
  (forall k, In k l -> 0 <= k) -> forall c, 0 <= c ->
  PositiveMap.find (zkey c) (fold_right (fun k m => PositiveMap.add (zkey k) tt m) (PositiveMap.empty unit) l)
  = if memz c l then Some tt else None.
Proof.
  induction l as [|k r IH]; intros H c Hc.
  - cbn [fold_right memz]. apply PositiveMap.gempty.
  - cbn [fold_right memz]. destruct (k =? c) eqn:E.
    + apply Z.eqb_eq in E. subst. cbn [orb]. apply PositiveMap.gss.
    + cbn [orb]. rewrite PositiveMap.gso.
      * apply IH; [|exact Hc]. intros k' Hin. apply H. right. exact Hin.
      * intro Hk. apply zkey_inj in Hk; [| exact Hc | apply H; left; reflexivity].
        apply Z.eqb_neq in E. congruence.
Qed.

Lemma lower_keys_nonneg : forall k v, In (k, v) c16_sre_lower -> 0 <= k.
Proof.
  assert (F : forallb (fun p => 0 <=? fst p) c16_sre_lower = true) by (vm_compute; reflexivity).
  rewrite forallb_forall in F. intros k v H. apply F in H. cbn [fst] in H. lia.
Qed.

Lemma cased_nonneg : forall k, In k c16_sre_cased -> 0 <= k.
Proof.
  assert (F : forallb (fun p => 0 <=? p) c16_sre_cased = true) by (vm_compute; reflexivity).
  rewrite forallb_forall in F. intros k H. apply F in H. lia.
Qed.

Lemma lower_fast_eq c : lower_fast c = sre_lower c.
Proof.
  unfold lower_fast, sre_lower. destruct (c <? 0) eqn:E.
  - rewrite (assocz_none c _ lower_keys_nonneg); [reflexivity | lia].
  - unfold lower_map. rewrite (find_assoc _ lower_keys_nonneg); [reflexivity | lia].
Qed.

Lemma iscased_fast_eq c : iscased_fast c = sre_iscased c.
Proof.
  unfold iscased_fast, sre_iscased. destruct (c <? 0) eqn:E.
  - destruct (memz c c16_sre_cased) eqn:M; [|reflexivity].
    apply memz_In in M. apply cased_nonneg in M. lia.
  - unfold cased_map. rewrite (find_mem _ cased_nonneg); [|lia].
    destruct (memz c c16_sre_cased); reflexivity.
Qed.

Lemma ceq_fast_eq p t : ceq_fast p t = ceq_sre p t.
Proof.
  unfold ceq_fast, ceq_sre, compile_lit. cbn [negb].
  rewrite iscased_fast_eq, !lower_fast_eq.
  destruct (sre_iscased p); cbn [negb op_match]; [|reflexivity].
  destruct (assocz (sre_lower p) c16_sre_extra); reflexivity.
Qed.

(* ---- properties of the relation, for all code points ---- *)

Lemma ceq_sre_refl p : ceq_sre p p = true.
Proof.
  unfold ceq_sre, compile_lit. cbn [negb].
  destruct (sre_iscased p); cbn [negb op_match]; [|apply Z.eqb_refl].
  destruct (assocz (sre_lower p) c16_sre_extra); cbn [op_match memz].
  - rewrite Z.eqb_refl. reflexivity.
  - apply Z.eqb_refl.
Qed.

Lemma ceq_sre_uncased p t : sre_iscased p = false -> ceq_sre p t = (t =? p).
Proof. intro H. unfold ceq_sre, compile_lit. cbn [negb]. rewrite H. reflexivity. Qed.

Lemma ceq_sre_cased p t :
  sre_iscased p = true ->
  ceq_sre p t = (sre_lower t =? sre_lower p) ||
                match assocz (sre_lower p) c16_sre_extra with Some fx => memz (sre_lower t) fx | None => false end.
Proof.
  intro H. unfold ceq_sre, compile_lit. cbn [negb]. rewrite H. cbn [negb].
  destruct (assocz (sre_lower p) c16_sre_extra); cbn [op_match memz].
  - rewrite (Z.eqb_sym (sre_lower p)). reflexivity.
  - rewrite orb_false_r. reflexivity.
Qed.

(* ASCII pattern and ASCII text: equal after lower-casing the ASCII letters *)
Lemma ascii_table :
  forallb (fun p => forallb (fun t => Bool.eqb (ceq_fast p t) (ascii_lower p =? ascii_lower t))
                            (zrange 0 128)) (zrange 0 128) = true.
Proof. vm_compute. reflexivity. Qed.

Lemma ceq_sre_ascii p t :
  0 <= p < 128 -> 0 <= t < 128 -> ceq_sre p t = (ascii_lower p =? ascii_lower t).
Proof.
  intros Hp Ht. pose proof ascii_table as F. rewrite forallb_forall in F.
  assert (Ip : In p (zrange 0 128)) by (apply In_zrange; lia).
  assert (It : In t (zrange 0 128)) by (apply In_zrange; lia).
  specialize (F p Ip). rewrite forallb_forall in F. specialize (F t It).
  apply eqb_prop in F. rewrite <- ceq_fast_eq. exact F.
Qed.

(* the relation observed directly on `re` over the harness alphabet
   (Gen/C16_CaseFold.v) is the modelled one *)
Lemma observed_table :
  forallb (fun p => forallb (fun t => Bool.eqb (ceq_tab p t) (ceq_fast p t)) c16_fold_alphabet)
          c16_fold_alphabet = true.
Proof. vm_compute. reflexivity. Qed.

Lemma ceq_sre_observed p t :
  In p c16_fold_alphabet -> In t c16_fold_alphabet -> ceq_tab p t = ceq_sre p t.
Proof.
  intros Ip It. pose proof observed_table as F. rewrite forallb_forall in F.
  specialize (F p Ip). rewrite forallb_forall in F. specialize (F t It).
  apply eqb_prop in F. rewrite <- ceq_fast_eq. exact F.
Qed.
