(* Lemmas about Model/BufferEdit.v used by Props/C01.v *)
From Coq Require Import ZArith List Bool Lia.
From PTK Require Import Lib.Sx Lib.Py Model.Document Model.BufferEdit.
Import ListNotations.
Open Scope Z_scope.

Definition Inv (b : buf) : Prop := 0 <= bcur b <= len (btext b).

(* ---------------------------------------------------------------------- *)
(* The three setters establish the invariant *)

Lemma set_cursor_inv b v : Inv (set_cursor b v).
Proof.
  unfold Inv, set_cursor; cbn [btext bcur].
  pose proof (len_nonneg (btext b)).
  destruct (len (btext b) <? v) eqn:E1;
    [ destruct (len (btext b) <? 0) eqn:E2 | destruct (v <? 0) eqn:E2 ]; lia.
Qed.

Lemma set_text_inv b v : 0 <= bcur b -> Inv (set_text b v).
Proof.
  unfold Inv, set_text; cbn [btext bcur]. intros H.
  pose proof (len_nonneg v).
  destruct (len v <? bcur b) eqn:E; lia.
Qed.

Lemma set_document_inv b t c : Inv b -> Inv (res_buf (set_document b t c)).
Proof.
  unfold set_document. intros H.
  destruct (len t <? c) eqn:E; cbn [res_buf]; [exact H|].
  unfold Inv; cbn [btext bcur]. pose proof (len_nonneg t). lia.
Qed.

Lemma set_document_ok_inv b t c b' r : set_document b t c = Ok b' r -> Inv b'.
Proof.
  unfold set_document. destruct (len t <? c) eqn:E; [discriminate|].
  intros H; injection H as <- _. unfold Inv; cbn [btext bcur].
  pose proof (len_nonneg t). lia.
Qed.

Lemma bind_inv r k :
  Inv (res_buf r) -> (forall b s, Inv b -> Inv (res_buf (k b s))) -> Inv (res_buf (bind r k)).
Proof. destruct r as [b s|c b]; cbn [bind res_buf]; auto. Qed.

(* ---------------------------------------------------------------------- *)
(* Every operation preserves the invariant, for arbitrary arguments *)

Lemma insert_text_inv b d ow mv : Inv b -> Inv (res_buf (insert_text b d ow mv)).
Proof. intros H; unfold insert_text; now apply set_document_inv. Qed.

Lemma delete_before_cursor_inv b n : Inv b -> Inv (res_buf (delete_before_cursor b n)).
Proof.
  intros H; unfold delete_before_cursor.
  destruct (n <? 0); [exact H|]. destruct (0 <? bcur b); [|exact H].
  match goal with |- context [set_document ?b ?t ?c] =>
    pose proof (set_document_inv b t c H) as HI; destruct (set_document b t c) end;
    exact HI.
Qed.

Lemma delete_before_cursor_pinned_inv b n : Inv b -> Inv (res_buf (delete_before_cursor_pinned b n)).
Proof.
  intros H; unfold delete_before_cursor_pinned.
  destruct (n <? 0); [exact H|]. destruct (0 <? bcur b); [|exact H].
  match goal with |- context [set_document ?b ?t ?c] =>
    pose proof (set_document_inv b t c H) as HI; destruct (set_document b t c) end;
    exact HI.
Qed.

Lemma delete_inv b n : Inv b -> Inv (res_buf (delete b n)).
Proof.
  intros H; unfold delete. destruct (bcur b <? len (btext b)); cbn [res_buf]; [|exact H].
  apply set_text_inv. apply H.
Qed.

Lemma newline_inv b cm : Inv b -> Inv (res_buf (newline b cm)).
Proof. intros H; unfold newline; destruct cm; now apply insert_text_inv. Qed.

Lemma insert_line_above_inv b cm : Inv b -> Inv (res_buf (insert_line_above b cm)).
Proof.
  intros H; unfold insert_line_above. apply bind_inv.
  - apply insert_text_inv, set_cursor_inv.
  - intros; cbn [res_buf]; apply set_cursor_inv.
Qed.

Lemma insert_line_below_inv b cm : Inv b -> Inv (res_buf (insert_line_below b cm)).
Proof. intros H; unfold insert_line_below. apply insert_text_inv, set_cursor_inv. Qed.

Lemma join_next_line_inv b sep : Inv b -> Inv (res_buf (join_next_line b sep)).
Proof.
  intros H; unfold join_next_line. destruct (on_last_line (bdoc b)); [exact H|].
  apply bind_inv.
  - apply delete_inv, set_cursor_inv.
  - intros b2 _ H2; cbn [res_buf]. apply set_text_inv, H2.
Qed.

Lemma swap_inv b : Inv b -> Inv (res_buf (swap_characters_before_cursor b)).
Proof.
  intros H; unfold swap_characters_before_cursor.
  destruct (2 <=? bcur b); [|exact H].
  destruct (index (btext b) (bcur b - 2)); [|exact H].
  destruct (index (btext b) (bcur b - 1)); [|exact H].
  cbn [res_buf]. apply set_text_inv, H.
Qed.

Lemma transform_current_line_inv F b : Inv b -> Inv (res_buf (transform_current_line F b)).
Proof. intros H; unfold transform_current_line; cbn [res_buf]. apply set_text_inv, H. Qed.

Lemma transform_region_inv F b a e : Inv b -> Inv (res_buf (transform_region F b a e)).
Proof.
  intros H; unfold transform_region. destruct (a <? e); cbn [res_buf]; [|exact H].
  apply set_text_inv, H.
Qed.

Lemma indent_inv b a e c : Inv b -> Inv (res_buf (indent b a e c)).
Proof.
  intros H; unfold indent. apply bind_inv.
  - now apply set_document_inv.
  - intros; cbn [res_buf]; apply set_cursor_inv.
Qed.

Lemma unindent_inv b a e c : Inv b -> Inv (res_buf (unindent b a e c)).
Proof.
  intros H; unfold unindent. apply bind_inv.
  - now apply set_document_inv.
  - intros; cbn [res_buf]; apply set_cursor_inv.
Qed.

Lemma transpose_inv b : Inv b -> Inv (res_buf (transpose_chars b)).
Proof.
  intros H; unfold transpose_chars. destruct (bcur b =? 0); [exact H|].
  match goal with |- context [if ?c then _ else _] => destruct c end.
  - now apply swap_inv.
  - apply swap_inv, set_cursor_inv.
Qed.

Lemma res_buf_drop_ret r : res_buf (drop_ret r) = res_buf r.
Proof. destruct r; reflexivity. Qed.

Lemma step_inv b o : Inv b -> Inv (res_buf (step b o)).
Proof.
  intros H; destruct o; cbn [step].
  - now apply insert_text_inv.
  - now apply delete_before_cursor_inv.
  - now apply delete_inv.
  - now apply newline_inv.
  - now apply insert_line_above_inv.
  - now apply insert_line_below_inv.
  - now apply join_next_line_inv.
  - now apply swap_inv.
  - now apply transform_current_line_inv.
  - now apply transform_region_inv.
  - now apply indent_inv.
  - now apply unindent_inv.
  - cbn [res_buf]; apply set_text_inv, H.
  - cbn [res_buf]; apply set_cursor_inv.
  - cbn [cursor_left res_buf]; apply set_cursor_inv.
  - cbn [cursor_right res_buf]; apply set_cursor_inv.
  - unfold backward_delete_char; rewrite res_buf_drop_ret; destruct (arg <? 0);
      [now apply delete_inv | now apply delete_before_cursor_inv].
  - unfold delete_char; rewrite res_buf_drop_ret; now apply delete_inv.
  - now apply insert_text_inv.
  - now apply transpose_inv.
  - unfold join_selected_lines. now apply set_document_inv.
Qed.

(* Every reachable state: any finite sequence of operations, exceptions
   included (the session continues from the state the exception left). *)
Definition steps (b : buf) (ops : list op) : buf :=
  fold_left (fun b o => res_buf (step b o)) ops b.

Lemma steps_inv ops : forall b, Inv b -> Inv (steps b ops).
Proof.
  induction ops as [|o ops IH]; intros b H; cbn [steps fold_left]; [exact H|].
  apply IH, step_inv, H.
Qed.

(* ---------------------------------------------------------------------- *)
(* Exact effect of insert / delete *)

Lemma Z2Nat_id_le n : 0 <= n -> Z.of_nat (Z.to_nat n) = n.
Proof. intros; now rewrite Z2Nat.id. Qed.

Lemma insert_text_spec b data mv :
  Inv b ->
  insert_text b data false mv =
  Ok (mkbuf (firstn (Z.to_nat (bcur b)) (btext b) ++ data ++ skipn (Z.to_nat (bcur b)) (btext b))
            (if mv then bcur b + len data else bcur b)) [].
Proof.
  intros [H0 H1]. unfold insert_text, set_document.
  rewrite slice_to_in_range, slice_from_in_range by lia.
  set (t' := _ ++ data ++ _).
  assert (Hl : len t' = len (btext b) + len data).
  { unfold t'. rewrite !len_app. pose proof (firstn_skipn_len (btext b) (Z.to_nat (bcur b))). lia. }
  pose proof (len_nonneg data).
  destruct mv.
  - destruct (len t' <? bcur b + len data) eqn:E; [lia|]. f_equal. f_equal. lia.
  - destruct (len t' <? bcur b) eqn:E; [lia|]. f_equal. f_equal. lia.
Qed.

(* Overwrite mode: replaces k characters, with k <= len data, the replaced
   characters lie on the current line (no line ending among them). *)
Lemma mem_Z_false_firstn c s n : mem_Z c (firstn n s) = true -> mem_Z c s = true.
Proof.
  revert n; induction s as [|x s IH]; intros [|n]; cbn [firstn mem_Z]; try discriminate.
  destruct (x =? c); cbn [orb]; [reflexivity|]. apply IH.
Qed.

Lemma find_char_from_spec c s : forall i,
  mem_Z c s = true ->
  i <= find_char_from c s i < i + len s /\
  mem_Z c (firstn (Z.to_nat (find_char_from c s i - i)) s) = false.
Proof.
  induction s as [|x s IH]; intros i; cbn [mem_Z find_char_from]; [discriminate|].
  rewrite len_cons. pose proof (len_nonneg s).
  destruct (x =? c) eqn:E; cbn [orb].
  - intros _. split; [lia|]. rewrite Z.sub_diag. reflexivity.
  - intros Hm. destruct (IH (i + 1) Hm) as [Hr Hn]. split; [lia|].
    replace (Z.to_nat (find_char_from c s (i + 1) - i))
      with (S (Z.to_nat (find_char_from c s (i + 1) - (i + 1)))) by lia.
    cbn [firstn mem_Z]. rewrite E. exact Hn.
Qed.

Lemma firstn_len_firstn {T} (l : list T) n :
  firstn (Z.to_nat (len (firstn n l))) l = firstn n l.
Proof.
  unfold len. rewrite Nat2Z.id, firstn_length.
  destruct (Nat.le_ge_cases n (length l)) as [H|H].
  - now rewrite Nat.min_l.
  - rewrite Nat.min_r by exact H. rewrite firstn_all. now rewrite firstn_all2.
Qed.

Lemma insert_overwrite_spec b data :
  Inv b ->
  exists k,
    0 <= k <= len data /\ bcur b + k <= len (btext b) /\
    mem_Z NL (firstn (Z.to_nat k) (skipn (Z.to_nat (bcur b)) (btext b))) = false /\
    insert_text b data true true =
    Ok (mkbuf (firstn (Z.to_nat (bcur b)) (btext b) ++ data
               ++ skipn (Z.to_nat (bcur b + k)) (btext b))
              (bcur b + len data)) [].
Proof.
  intros [H0 H1]. unfold insert_text.
  pose proof (len_nonneg data) as Hd.
  set (t := btext b) in *. set (c := bcur b) in *.
  (* the overwritten slice, in range *)
  assert (Hov : slice2 t c (c + len data) =
                firstn (Z.to_nat (len data)) (skipn (Z.to_nat c) t)).
  { unfold slice2, slice, adj_index.
    destruct (c <? 0) eqn:E1; [lia|]. destruct (c + len data <? 0) eqn:E2; [lia|].
    rewrite (Z.min_l c) by lia.
    destruct (c <? Z.min (c + len data) (len t)) eqn:E3.
    - destruct (Z.min_spec (c + len data) (len t)) as [[Hlt ->]|[Hge ->]].
      + f_equal. lia.
      + rewrite firstn_all2. 2:{ rewrite skipn_length. unfold len in *. lia. }
        rewrite firstn_all2; [reflexivity|]. rewrite skipn_length. unfold len in *. lia.
    - assert (Hz : len data = 0 \/ c = len t) by lia. destruct Hz as [Hz|Hz].
      + rewrite Hz. reflexivity.
      + rewrite Hz. unfold len. rewrite !Nat2Z.id, skipn_all. now rewrite firstn_nil. }
  rewrite Hov. set (ov := firstn _ (skipn _ t)).
  assert (Hlov : len ov <= len data /\ c + len ov <= len t).
  { unfold ov. rewrite len_firstn, len_skipn. lia. }
  destruct (mem_Z NL ov) eqn:Em.
  - destruct (find_char_from_spec NL ov 0 Em) as [Hr Hn]. fold (find_char NL ov) in *.
    set (k := find_char NL ov) in *. rewrite Z.sub_0_r in Hn.
    exists k. assert (Hk : 0 <= k <= len ov) by lia.
    rewrite (slice_to_in_range ov k) by lia. rewrite len_firstn.
    rewrite (Z.min_l (Z.of_nat (Z.to_nat k))) by lia. rewrite Z2Nat.id by lia.
    split; [lia|]. split; [lia|]. split.
    + unfold ov in Hn. rewrite firstn_firstn in Hn.
      replace (Init.Nat.min (Z.to_nat k) (Z.to_nat (len data))) with (Z.to_nat k) in Hn by lia.
      exact Hn.
    + rewrite slice_to_in_range, slice_from_in_range by lia.
      unfold set_document.
      match goal with |- context [len ?x <? _] => set (t' := x) end.
      assert (len t' = len t - k + len data).
      { unfold t'. rewrite !len_app, len_firstn, len_skipn. lia. }
      destruct (len t' <? c + len data) eqn:E; [lia|]. f_equal. f_equal. lia.
  - pose proof (len_nonneg ov) as Hov0. exists (len ov). split; [lia|]. split; [lia|]. split.
    + assert (Hx : firstn (Z.to_nat (len ov)) (skipn (Z.to_nat c) t) = ov)
        by (unfold ov; apply firstn_len_firstn).
      rewrite Hx. exact Em.
    + rewrite slice_to_in_range, slice_from_in_range by lia.
      unfold set_document.
      match goal with |- context [len ?x <? _] => set (t' := x) end.
      assert (len t' = len t - len ov + len data).
      { unfold t'. rewrite !len_app, len_firstn, len_skipn. lia. }
      destruct (len t' <? c + len data) eqn:E; [lia|]. f_equal. f_equal. lia.
Qed.

(* delete_before_cursor: removes exactly the min(n, cursor) characters before
   the cursor and returns them. *)
Lemma delete_before_cursor_spec b n :
  Inv b -> 0 <= n ->
  let k := Z.min n (bcur b) in
  delete_before_cursor b n =
  Ok (mkbuf (firstn (Z.to_nat (bcur b - k)) (btext b) ++ skipn (Z.to_nat (bcur b)) (btext b))
            (bcur b - k))
     (firstn (Z.to_nat k) (skipn (Z.to_nat (bcur b - k)) (btext b))).
Proof.
  intros [H0 H1] Hn k. unfold delete_before_cursor.
  destruct (n <? 0) eqn:En; [lia|].
  destruct (0 <? bcur b) eqn:Ec.
  - assert (Hs : Z.max 0 (bcur b - n) = bcur b - k) by (unfold k; lia).
    rewrite Hs. assert (0 <= k <= bcur b) by (unfold k; lia).
    rewrite slice2_in_range, slice_to_in_range, slice_from_in_range by lia.
    replace (bcur b - (bcur b - k)) with k by lia.
    set (del := firstn (Z.to_nat k) _).
    assert (Hld : len del = k).
    { unfold del. rewrite len_firstn, len_skipn. lia. }
    unfold set_document. rewrite Hld.
    match goal with |- context [len ?x <? _] => set (t' := x) end.
    assert (len t' = len (btext b) - k).
    { unfold t'. rewrite len_app, len_firstn, len_skipn. lia. }
    destruct (len t' <? bcur b - k) eqn:E; [lia|]. f_equal. f_equal. lia.
  - assert (bcur b = 0) by lia. assert (k = 0) by (unfold k; lia).
    rewrite H2, H. cbn. destruct b as [t c]; cbn in *; subst; reflexivity.
Qed.

(* delete: removes exactly the min(n, available) characters after the cursor *)
Lemma delete_spec b n :
  Inv b -> 0 <= n ->
  let k := Z.min n (len (btext b) - bcur b) in
  delete b n =
  Ok (mkbuf (firstn (Z.to_nat (bcur b)) (btext b) ++ skipn (Z.to_nat (bcur b + k)) (btext b))
            (bcur b))
     (firstn (Z.to_nat k) (skipn (Z.to_nat (bcur b)) (btext b))).
Proof.
  intros [H0 H1] Hn k. unfold delete. replace (Z.max 0 n) with n by lia.
  destruct (bcur b <? len (btext b)) eqn:Ec.
  - unfold text_after_cursor, bdoc; cbn [dtext dcur].
    rewrite (slice_from_in_range (btext b) (bcur b)) by lia.
    set (after := skipn (Z.to_nat (bcur b)) (btext b)).
    assert (Hla : len after = len (btext b) - bcur b) by (unfold after; rewrite len_skipn; lia).
    assert (Hdel : slice_to after n = firstn (Z.to_nat k) after).
    { unfold slice_to, slice, adj_index. destruct (n <? 0) eqn:E; [lia|].
      destruct (0 <? Z.min n (len after)) eqn:E2.
      - rewrite Z.sub_0_r. cbn [skipn]. f_equal. unfold k. lia.
      - assert (k = 0) by (unfold k; lia). rewrite H. reflexivity. }
    rewrite Hdel. set (del := firstn (Z.to_nat k) after).
    assert (Hld : len del = k). { unfold del. rewrite len_firstn. unfold k. lia. }
    rewrite Hld. assert (0 <= k) by (unfold k; lia).
    rewrite slice_to_in_range, slice_from_in_range by (unfold k in *; lia).
    unfold set_text; cbn [bcur btext].
    match goal with |- context [len ?x <? _] => set (t' := x) end.
    assert (len t' = len (btext b) - k).
    { unfold t'. rewrite len_app, len_firstn, len_skipn. unfold k in *. lia. }
    destruct (len t' <? bcur b) eqn:E; [unfold k in *; lia|]. reflexivity.
  - assert (bcur b = len (btext b)) by lia. assert (k = 0) by (unfold k; lia).
    rewrite H2. rewrite Z.add_0_r. cbn [Z.to_nat firstn].
    rewrite H. unfold len. rewrite Nat2Z.id, skipn_all, firstn_all, app_nil_r.
    destruct b as [t c]; cbn in *. subst. reflexivity.
Qed.

(* A count below zero deletes nothing (delete b n = delete b (max 0 n)). *)
Lemma delete_max b n : delete b n = delete b (Z.max 0 n).
Proof. unfold delete. now rewrite Z.max_r with (n := 0) (m := Z.max 0 n) by lia. Qed.

Lemma delete_negative b n : Inv b -> n <= 0 -> delete b n = Ok b [].
Proof.
  intros H Hn. rewrite delete_max. replace (Z.max 0 n) with 0 by lia.
  pose proof (delete_spec b 0 H ltac:(lia)) as E. cbn zeta in E. rewrite E.
  destruct H as [H0 H1]. replace (Z.min 0 (len (btext b) - bcur b)) with 0 by lia.
  rewrite Z.add_0_r. cbn [Z.to_nat firstn]. rewrite firstn_skipn.
  destruct b as [t c]; reflexivity.
Qed.

(* The delete of before the repair removed characters that are NOT next to
   the cursor for a negative count: ('abcdef', 1).delete(-1) = 'bcde'. *)
Lemma delete_pinned_refuted :
  exists b n, Inv b /\ delete_pinned b n = Ok (mkbuf [97;102] 1) [98;99;100;101] /\ btext b = [97;98;99;100;101;102].
Proof.
  exists (mkbuf [97;98;99;100;101;102] 1), (-1).
  split; [unfold Inv; cbn; lia|]. split; [vm_compute; reflexivity|reflexivity].
Qed.

(* ---------------------------------------------------------------------- *)
(* The pinned delete_before_cursor violates the specification (finding F1) *)
Lemma delete_before_cursor_pinned_refuted :
  exists b n, Inv b /\ 0 <= n /\
    delete_before_cursor_pinned b n <>
    (let k := Z.min n (bcur b) in
     Ok (mkbuf (firstn (Z.to_nat (bcur b - k)) (btext b) ++ skipn (Z.to_nat (bcur b)) (btext b))
               (bcur b - k))
        (firstn (Z.to_nat k) (skipn (Z.to_nat (bcur b - k)) (btext b)))).
Proof.
  exists (mkbuf [97;98;99;100;101;102] 2), 3.
  split; [unfold Inv; cbn; lia|]. split; [lia|]. vm_compute. discriminate.
Qed.

(* ---------------------------------------------------------------------- *)
(* Frame properties *)

Lemma swap_spec b x y :
  Inv b -> 2 <= bcur b ->
  nth_error (btext b) (Z.to_nat (bcur b - 2)) = Some x ->
  nth_error (btext b) (Z.to_nat (bcur b - 1)) = Some y ->
  swap_characters_before_cursor b =
  Ok (mkbuf (firstn (Z.to_nat (bcur b - 2)) (btext b) ++ [y; x] ++ skipn (Z.to_nat (bcur b)) (btext b))
            (bcur b)) [].
Proof.
  intros [H0 H1] H2 Hx Hy. unfold swap_characters_before_cursor.
  destruct (2 <=? bcur b) eqn:E; [|lia].
  unfold index.
  destruct (bcur b - 2 <? 0) eqn:E1; [lia|]. destruct (bcur b - 1 <? 0) eqn:E2; [lia|].
  destruct ((bcur b - 2 <? 0) || (len (btext b) <=? bcur b - 2)) eqn:E3; [lia|].
  destruct ((bcur b - 1 <? 0) || (len (btext b) <=? bcur b - 1)) eqn:E4; [lia|].
  rewrite Hx, Hy. rewrite slice_to_in_range, slice_from_in_range by lia.
  unfold set_text; cbn [bcur btext].
  match goal with |- context [len ?x <? _] => set (t' := x) end.
  assert (len t' = len (btext b)).
  { unfold t'. rewrite !len_app, len_firstn, len_skipn. change (len [y; x]) with 2. lia. }
  destruct (len t' <? bcur b) eqn:E5; [lia|]. reflexivity.
Qed.

Lemma transform_region_spec F b a e :
  Inv b -> 0 <= a -> a < e -> e <= len (btext b) ->
  exists c',
  transform_region F b a e =
  Ok (mkbuf (firstn (Z.to_nat a) (btext b)
             ++ F (firstn (Z.to_nat (e - a)) (skipn (Z.to_nat a) (btext b)))
             ++ skipn (Z.to_nat e) (btext b)) c') [] /\ 0 <= c'.
Proof.
  intros [H0 H1] Ha Hae He. unfold transform_region.
  destruct (a <? e) eqn:E; [|lia].
  rewrite slice_to_in_range, slice2_in_range, slice_from_in_range by lia.
  unfold set_text; cbn [bcur btext]. eexists; split; [reflexivity|].
  match goal with |- context [if ?c then _ else _] => destruct c end;
    [apply len_nonneg | exact H0].
Qed.
