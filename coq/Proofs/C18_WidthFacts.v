(* C18 - facts about fragment_list_width and PygmentsTokens (Model/C18_Width.v). *)
From Coq Require Import ZArith List Bool Lia.
From PTK Require Import Lib.Sx Lib.Py Model.C18_Fragments Model.C18_Ansi Model.C18_Width
  Proofs.C18_FragmentsFacts.
Import ListNotations.
Open Scope Z_scope.

Section Width.
  Variable w : Z -> Z.

  Lemma str_width_app a b : str_width w (a ++ b) = str_width w a + str_width w b.
  Proof. induction a as [|c r IH]; [reflexivity|]. cbn [app str_width]. rewrite IH. lia. Qed.

  (* the width of a fragment list is the width of its plain text, for any wcwidth *)
  Theorem width_is_text_width frs :
    fragment_list_width w frs = str_width w (fragment_list_to_text frs).
  Proof.
    induction frs as [|f r IH]; [reflexivity|].
    cbn [fragment_list_width fragment_list_to_text]. rewrite str_width_app, IH.
    destruct (is_zwe (fstyle f)); reflexivity.
  Qed.

  (* exploding does not change the width *)
  Theorem explode_width frs : fragment_list_width w (explode frs) = fragment_list_width w frs.
  Proof. now rewrite !width_is_text_width, explode_text. Qed.

  (* characters of width >= 0: the width is never negative *)
  Theorem width_nonneg frs : (forall c, 0 <= w c) -> 0 <= fragment_list_width w frs.
  Proof.
    intros H. rewrite width_is_text_width. induction (fragment_list_to_text frs) as [|c r IH]; cbn [str_width]; [lia|].
    specialize (H c). lia.
  Qed.
End Width.

(* ---- PygmentsTokens ---- *)

Theorem pygments_text toks : map ftext (pygments_frags toks) = map snd toks.
Proof. unfold pygments_frags. rewrite map_map. reflexivity. Qed.

(* a style without 'Z' is not a zero-width style *)
Lemma startswith_noZ s : mem_Z 90 s = false -> startswith s ZWE = false.
Proof.
  intros H. destruct s as [|x [|y r]]; [reflexivity | |].
  - unfold ZWE. cbn [startswith]. now rewrite andb_false_r.
  - cbn [mem_Z] in H. apply orb_false_iff in H. destruct H as [_ H]. apply orb_false_iff in H. destruct H as [Hy _].
    unfold ZWE. cbn [startswith]. rewrite Hy. cbn [andb]. now rewrite andb_false_r.
Qed.

Lemma find_sub_from_noZ s : mem_Z 90 s = false -> forall i, find_sub_from ZWE s i = -1.
Proof.
  induction s as [|x r IH]; intros Hc i; [reflexivity|].
  cbn [find_sub_from]. rewrite (startswith_noZ _ Hc).
  cbn [mem_Z] in Hc. apply orb_false_iff in Hc. destruct Hc as [_ Hr]. now apply IH.
Qed.

Lemma noZ_not_zwe s : mem_Z 90 s = false -> is_zwe s = false.
Proof. intros H. unfold is_zwe, find_sub. now rewrite find_sub_from_noZ. Qed.

Lemma mem_Z_app' c a b : mem_Z c (a ++ b) = mem_Z c a || mem_Z c b.
Proof. induction a as [|x r IH]; [reflexivity|]. cbn [app mem_Z]. now rewrite IH, orb_assoc. Qed.

Lemma ascii_lower_noZ s : mem_Z 90 (map ascii_lower s) = false.
Proof.
  induction s as [|c r IH]; [reflexivity|]. cbn [map mem_Z]. rewrite IH, orb_false_r.
  unfold ascii_lower. destruct ((65 <=? c) && (c <=? 90)) eqn:E.
  - apply andb_true_iff in E. destruct E as [E1 E2]. apply Z.leb_le in E1, E2. apply Z.eqb_neq. lia.
  - apply Z.eqb_neq. intros ->. discriminate.
Qed.

(* the style PygmentsTokens gives a token is never a zero-width style, so
   the plain text of the fragments is the concatenation of the token texts *)
Theorem pygments_plain_text toks :
  fragment_list_to_text (pygments_frags toks) = concat (map snd toks).
Proof.
  induction toks as [|[tok text] r IH]; [reflexivity|].
  cbn [pygments_frags map fragment_list_to_text fstyle ftext fst snd concat].
  fold (pygments_frags r). rewrite IH.
  rewrite noZ_not_zwe; [reflexivity|].
  unfold token_classname. rewrite mem_Z_app', ascii_lower_noZ. reflexivity.
Qed.
