(* C18 - the plain text of HTML(template with escaped values), composed all the
   way: root wrap, whole template, closing of the root, the final tests of
   html_parse, fragment_list_to_text of the result.  The fg/bg guard of
   HTML.__init__ (no whitespace, no '[': ae5d17b) is what keeps every style the
   walk builds from being a zero-width style; at the pinned snapshot a value
   "[ZeroWidthEscape]" got through (finding C18-F13, pinned refutation below). *)
From Coq Require Import ZArith List Bool Lia.
From PTK Require Import Lib.Sx Lib.Py Gen.Whitespace Model.C18_Fragments Model.C18_Ansi Model.C18_Html
  Proofs.C18_FragmentsFacts Proofs.C18_AnsiFacts Proofs.C18_AnsiStrip Proofs.C18_HtmlFacts Proofs.C18_HtmlTemplate.
Import ListNotations.
Open Scope Z_scope.

(* ---------------------------------------------------------------------- *)
(* styles built from clean names and colours are not zero-width styles *)

Lemma join_clean_sep sep parts : clean sep -> Forall clean parts -> clean (join sep parts).
Proof.
  intros Hs. induction parts as [|p r IH]; intros H; [reflexivity|].
  inversion H as [|? ? Hp Hr]; subst. destruct r as [|q r']; [exact Hp|].
  change (join sep (p :: q :: r')) with (p ++ sep ++ join sep (q :: r')).
  apply clean_app; [assumption|]. apply clean_app; [assumption | now apply IH].
Qed.

Lemma last_clean l : Forall clean l -> clean (last l []).
Proof.
  induction l as [|x r IH]; intros H; [reflexivity|]. inversion H; subst.
  destruct r; [assumption | now apply IH].
Qed.

Definition stacks_clean (h : hst) : Prop :=
  Forall clean (h_names h) /\ Forall clean (h_fgs h) /\ Forall clean (h_bgs h).

Lemma current_style_clean h : stacks_clean h -> clean (current_style h).
Proof.
  intros (Hn & Hf & Hb). unfold current_style. apply join_clean_sep; [reflexivity|].
  apply Forall_app. split.
  { destruct (h_names h) as [|n ns] eqn:E; [constructor|]. constructor; [|constructor].
    apply clean_app; [reflexivity|]. apply join_clean_sep; [reflexivity | assumption]. }
  apply Forall_app. split.
  { destruct (h_fgs h) as [|n ns] eqn:E; [constructor|]. constructor; [|constructor].
    apply clean_app; [reflexivity | now apply last_clean]. }
  destruct (h_bgs h) as [|n ns] eqn:E; [constructor|]. constructor; [|constructor].
  apply clean_app; [reflexivity | now apply last_clean].
Qed.

(* ---------------------------------------------------------------------- *)
(* the text produced so far *)

Definition pending (h : hst) : str := match h_mode h with HText acc _ _ => acc | _ => [] end.
Definition text_so_far (h : hst) : str := fragment_list_to_text (h_out h) ++ pending h.
Definition text_mode (h : hst) : Prop := exists acc rb, h_mode h = HText acc false rb.

Lemma flushed_text h : text_mode h -> stacks_clean h ->
  fragment_list_to_text (h_out (flushed h)) = text_so_far h /\ pending (flushed h) = [].
Proof.
  intros (acc & rb & Hm) Hc. unfold flushed, text_so_far, pending. rewrite Hm. cbn [h_out h_mode]. split; [|reflexivity].
  unfold flush_text. destruct acc as [|c r]; [now rewrite app_nil_r|].
  rewrite vtext_app. cbn [fragment_list_to_text fstyle ftext].
  rewrite (clean_not_zwe _ (current_style_clean h Hc)). now rewrite app_nil_r.
Qed.

Lemma flushed_stacks h : stacks_clean (flushed h) <-> stacks_clean h.
Proof. unfold flushed, stacks_clean. destruct (h_mode h); cbn; tauto. Qed.

Lemma scan_fg_bg_clean : forall ats fg bg,
  Forall (fun a => clean (snd a)) ats -> clean fg -> clean bg ->
  clean (fst (scan_fg_bg ats fg bg)) /\ clean (snd (scan_fg_bg ats fg bg)).
Proof.
  induction ats as [|[k v] r IH]; intros fg bg H Hf Hb; [split; assumption|].
  inversion H as [|? ? Hv Hr]; subst. cbn [snd] in Hv. cbn [scan_fg_bg].
  apply IH; [assumption | |].
  - destruct (str_eqb k n_color); [assumption|]. destruct (str_eqb k n_fg); assumption.
  - destruct (str_eqb k n_bg); assumption.
Qed.

(* the guard: an element that does not set the ValueError flag pushed clean colours *)
Lemma open_element_clean h nm ats :
  stacks_clean h -> clean nm ->
  h_verr (open_element cfg_now h nm ats) = false ->
  stacks_clean (open_element cfg_now h nm ats).
Proof.
  intros (Hn & Hf & Hb) Hnm. unfold open_element.
  destruct (scan_fg_bg ats [] []) as [fg bg]. cbn [h_verr]. intros Hv.
  rewrite !orb_false_iff in Hv. destruct Hv as [[[_ _] Cf] Cb].
  unfold has_bracket in Cf, Cb. cbn [cfg_attr_bracket cfg_now andb] in Cf, Cb.
  unfold stacks_clean. cbn [h_names h_fgs h_bgs]. repeat split.
  - destruct (negb _); [apply Forall_app; split; [assumption | now repeat constructor] | assumption].
  - destruct (nonempty fg); [apply Forall_app; split; [assumption | now repeat constructor] | assumption].
  - destruct (nonempty bg); [apply Forall_app; split; [assumption | now repeat constructor] | assumption].
Qed.

(* ... and one whose fg or bg contains '[' sets it: ValueError *)
Lemma open_element_bracket h nm ats :
  mem_Z 91 (fst (scan_fg_bg ats [] [])) = true \/ mem_Z 91 (snd (scan_fg_bg ats [] [])) = true ->
  h_verr (open_element cfg_now h nm ats) = true.
Proof.
  unfold open_element. destruct (scan_fg_bg ats [] []) as [fg bg]. cbn [fst snd h_verr].
  unfold has_bracket. cbn [cfg_attr_bracket cfg_now andb].
  intros [H|H]; rewrite H; now rewrite ?orb_true_r.
Qed.

Lemma removelast_clean l : Forall clean l -> Forall clean (removelast l).
Proof.
  induction l as [|x r IH]; intros H; [constructor|]. inversion H; subst.
  cbn [removelast]. destruct r; [constructor | constructor; [assumption | now apply IH]].
Qed.

Lemma close_element_clean h nm hd :
  stacks_clean h -> close_element h nm = Ok hd ->
  stacks_clean hd /\ h_out hd = h_out h /\ text_mode hd /\ pending hd = [].
Proof.
  intros (Hn & Hf & Hb) H. unfold close_element in H.
  destruct (h_stack h) as [|fr rest]; [discriminate|].
  destruct (str_eqb (fr_name fr) nm); [|discriminate]. injection H as <-.
  unfold stacks_clean, text_mode, pending. cbn [h_names h_fgs h_bgs h_out h_mode]. repeat split.
  - destruct (fr_addname fr); [now apply removelast_clean | assumption].
  - destruct (fr_fg fr); [now apply removelast_clean | assumption].
  - destruct (fr_bg fr); [now apply removelast_clean | assumption].
  - now exists [], 0.
Qed.

(* ---------------------------------------------------------------------- *)
(* the text a template denotes *)

Definition item_text (it : titem) (vals : list str) : str :=
  match it with TText ps => map datc (fst (pieces_data ps vals)) | _ => [] end.
Definition item_rest (it : titem) (vals : list str) : list str :=
  match it with
  | TText ps => snd (pieces_data ps vals)
  | TOpen _ ats => snd (attrs_data ats vals)
  | TClose _ => vals
  end.
Fixpoint denote_text (tpl : list titem) (vals : list str) : str :=
  match tpl with
  | [] => []
  | it :: r => item_text it vals ++ denote_text r (item_rest it vals)
  end.

Lemma denote_item_rest it vals h : snd (denote_item it vals h) = item_rest it vals.
Proof. destruct it; reflexivity. Qed.

Lemma name_char_not_bracket c : name_char c = true -> (c =? 91) = false.
Proof.
  intros H. apply Z.eqb_neq. intros ->. unfold name_char, name_start in H. cbn in H. discriminate.
Qed.

Lemma valid_name_clean nm : valid_name nm -> clean nm.
Proof.
  intros (c & r & -> & Hc & Hr). unfold clean. cbn [mem_Z].
  rewrite (name_char_not_bracket c (name_start_char c Hc)). cbn [orb].
  induction r as [|x r IH]; [reflexivity|]. cbn [forallb] in Hr. apply andb_true_iff in Hr. destruct Hr as [Hx Hr].
  cbn [mem_Z]. rewrite (name_char_not_bracket x Hx). cbn [orb]. now apply IH.
Qed.

(* the ValueError flag is never cleared *)
Lemma denote_item_verr it vals h h1 :
  fst (denote_item it vals h) = Ok h1 -> h_verr h = true -> h_verr h1 = true.
Proof.
  destruct it as [ps|nm ats|nm]; cbn [denote_item fst]; cbn zeta; cbn [fst].
  - intros H Hv. injection H as <-. unfold add_text. destruct (h_mode h); assumption.
  - intros H Hv. injection H as <-. unfold open_element. destruct (scan_fg_bg _ [] []). cbn [h_verr].
    assert (h_verr (flushed h) = true) as -> by (unfold flushed; destruct (h_mode h); assumption). reflexivity.
  - intros H Hv. unfold close_element in H. destruct (h_stack (flushed h)); [discriminate|].
    destruct (str_eqb _ nm); [|discriminate]. injection H as <-. cbn [h_verr].
    unfold flushed. destruct (h_mode h); assumption.
Qed.

Lemma denote_verr : forall tpl vals h hd,
  denote tpl vals h = Ok hd -> h_verr h = true -> h_verr hd = true.
Proof.
  induction tpl as [|it r IH]; intros vals h hd Hd Hv.
  - cbn in Hd. now injection Hd as <-.
  - cbn [denote] in Hd. cbn zeta in Hd.
    destruct (fst (denote_item it vals h)) as [h1|e] eqn:E; [|discriminate].
    apply (IH _ _ _ Hd). exact (denote_item_verr it vals h h1 E Hv).
Qed.

(* if the walk ends without the ValueError flag, every style it built was clean *)
Lemma denote_text_so_far : forall tpl vals h hd,
  text_mode h -> stacks_clean h -> tpl_ok tpl vals h ->
  denote tpl vals h = Ok hd -> h_verr hd = false ->
  text_so_far hd = text_so_far h ++ denote_text tpl vals /\ stacks_clean hd /\ text_mode hd.
Proof.
  induction tpl as [|it r IH]; intros vals h hd Hm Hc Hok Hd Hv.
  - cbn [denote] in Hd. injection Hd as <-. cbn [denote_text]. rewrite app_nil_r. split; [reflexivity | split; assumption].
  - cbn [denote] in Hd. cbn zeta in Hd. cbn [tpl_ok] in Hok. destruct Hok as (_ & Hit & Hrest).
    destruct (fst (denote_item it vals h)) as [h1|e] eqn:E; [|discriminate].
    rewrite denote_item_rest in Hd, Hrest. cbn [denote_text].
    assert (Hv1 : h_verr h1 = false).
    { destruct (h_verr h1) eqn:V; [|reflexivity]. rewrite (denote_verr _ _ _ _ Hd V) in Hv. discriminate. }
    destruct it as [ps|nm ats|nm].
    + cbn [denote_item fst] in E. cbn zeta in E. cbn [fst] in E. injection E as <-.
      destruct Hm as (acc & rb & Hmode).
      assert (Hm' : text_mode (add_text h (map datc (fst (pieces_data ps vals))))).
      { unfold add_text. rewrite Hmode. eexists. eexists. reflexivity. }
      assert (Hc' : stacks_clean (add_text h (map datc (fst (pieces_data ps vals))))).
      { unfold add_text. rewrite Hmode. exact Hc. }
      destruct (IH _ _ _ Hm' Hc' Hrest Hd Hv) as (Ht & Hc2 & Hm2).
      split; [|split; assumption]. rewrite Ht. cbn [item_text].
      unfold text_so_far, pending, add_text. rewrite Hmode. cbn [h_out h_mode set_hmode].
      now rewrite !app_assoc.
    + cbn [denote_item fst] in E. cbn zeta in E. cbn [fst] in E. injection E as <-.
      destruct Hit as [Hnm _].
      destruct (flushed_text h Hm Hc) as [Hf1 Hf2].
      assert (Hc' : stacks_clean (open_element cfg_now (flushed h) nm (fst (attrs_data ats vals)))).
      { apply open_element_clean; [now apply flushed_stacks | now apply valid_name_clean | exact Hv1]. }
      assert (Hm' : text_mode (open_element cfg_now (flushed h) nm (fst (attrs_data ats vals)))).
      { unfold open_element. destruct (scan_fg_bg _ [] []). now exists [], 0. }
      destruct (IH _ _ _ Hm' Hc' Hrest Hd Hv) as (Ht & Hc2 & Hm2).
      split; [|split; assumption]. rewrite Ht. cbn [item_text app]. f_equal.
      unfold text_so_far at 1. unfold open_element. destruct (scan_fg_bg _ [] []).
      unfold pending. cbn [h_out h_mode]. now rewrite app_nil_r.
    + cbn [denote_item fst] in E.
      destruct (flushed_text h Hm Hc) as [Hf1 Hf2].
      destruct (close_element_clean (flushed h) nm h1 (proj2 (flushed_stacks h) Hc) E) as (Hc' & Ho & Hm' & Hp).
      destruct (IH _ _ _ Hm' Hc' Hrest Hd Hv) as (Ht & Hc2 & Hm2).
      split; [|split; assumption]. rewrite Ht. cbn [item_text app]. f_equal.
      unfold text_so_far at 1. now rewrite Ho, Hp, app_nil_r.
Qed.

(* ---------------------------------------------------------------------- *)
(* HTML(value): root wrap + template + closing + final tests *)

Definition h_root : hst :=
  mkhst (HText [] false 0) [mkframe n_root false false false] [] [] [] [] false false.

Lemma open_root : hrun cfg_now hst0 t_open_root = Ok h_root.
Proof. vm_compute. reflexivity. Qed.

Lemma valid_root : valid_name n_root.
Proof. exists 104, [116; 109; 108; 45; 114; 111; 111; 116]. repeat split; reflexivity. Qed.

(* Converting markup to fragments and back to plain text preserves the visible
   characters in order: for a balanced template of the grammar, whatever the
   values, if HTML(template with the escaped values) does not raise the fg/bg
   ValueError then it succeeds and its plain text is the concatenation of the
   template's text data with the values as data.  (An fg/bg/color datum with
   whitespace or '[' sets the flag: [html_bracket_guard].) *)
Theorem html_plain_text tpl vals hd :
  tpl_ok tpl vals h_root ->
  denote tpl vals h_root = Ok hd ->
  inside hd -> h_stack hd = h_stack h_root -> h_verr hd = false ->
  exists out, html_parse cfg_now (render tpl vals) = Ok out /\
              fragment_list_to_text out = denote_text tpl vals.
Proof.
  intros Hok Hd Hin Hst Hv.
  pose proof (whole_template_from h_root [] 0 tpl vals eq_refl Hok) as Hw. rewrite Hd in Hw.
  destruct Hw as (h' & Hrun & Hsame).
  assert (Hroot_text : text_mode h_root) by (now exists [], 0).
  assert (Hroot_clean : stacks_clean h_root) by (repeat split; constructor).
  destruct (denote_text_so_far tpl vals h_root hd Hroot_text Hroot_clean Hok Hd Hv) as (Htext & Hclean & Hmode).
  destruct (flushed_text hd Hmode Hclean) as [Hf1 _].
  unfold html_parse. rewrite hrun_app, open_root, hrun_app, Hrun.
  change t_close_root with (fst (render_item (TClose n_root) [])).
  rewrite (end_tag h' n_root (same_tree_inside _ _ Hsame Hin) valid_root).
  cbn [denote_item fst]. rewrite (same_tree_flushed _ _ Hsame).
  destruct Hmode as (acc & rb & Hm).
  destruct hd as [m stk nms fgs bgs out verr rd]. cbn [h_mode h_stack h_verr] in *. subst m stk verr.
  eexists. split; [reflexivity|].
  refine (eq_trans Hf1 _). rewrite Htext. reflexivity.
Qed.

(* ---------------------------------------------------------------------- *)
(* the guard, and what happened without it *)

(* an element whose fg/bg/color datum contains '[' makes HTML() raise ValueError
   (the flag is set; html_parse answers Err 1 once parsing has succeeded) *)
Theorem html_bracket_guard h nm ats :
  mem_Z 91 (fst (scan_fg_bg ats [] [])) = true \/ mem_Z 91 (snd (scan_fg_bg ats [] [])) = true ->
  h_verr (open_element cfg_now h nm ats) = true.
Proof. exact (open_element_bracket h nm ats). Qed.

Definition S_x_end_dq_y : str := S_x_end_dq ++ [121].

Example html_bracket_guard_example :
  html_template cfg_now [S_style_fg_dq; S_x_end_dq_y] [ZWE] = Err 1.
Proof. vm_compute. reflexivity. Qed.

(* Pinned snapshot (finding C18-F13, repaired by ae5d17b): an fg value
   "[ZeroWidthEscape]" has no whitespace, passed the guard, and turned the text
   of its element into zero-width raw output *)
Theorem html_attr_zero_width_pinned_refuted :
  exists out,
    html_template cfg_pinned [S_style_fg_dq; S_x_end_dq_y] [ZWE] = Ok out /\
    map ftext out = [[120]; [121]] /\ fragment_list_to_text out = [121] /\
    has_space cfg_pinned ZWE = false.
Proof. eexists. split; [vm_compute; reflexivity|]. repeat split; vm_compute; reflexivity. Qed.

Example html_plain_text_example :
  exists out, html_template cfg_now [S_style_fg_dq; S_x_end_dq_y] [[114; 101; 100]] = Ok out /\
              fragment_list_to_text out = [120; 121].
Proof. eexists. split; [vm_compute; reflexivity | reflexivity]. Qed.
