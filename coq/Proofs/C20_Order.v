(* C20 - in-order delivery and the erase/redraw bracket, for every label list
   without application start/exit/stop/loop-close labels, in the two stable
   regimes: no application at all, and an application running throughout. *)
From Coq Require Import ZArith List Bool Lia Arith.
From PTK Require Import Lib.Sx Model.C20_StdoutProxy Proofs.C20_Queue Proofs.C20_Chain.
Import ListNotations.
Open Scope nat_scope.

Definition otext (o : list ev) : text := concat (map ev_text o).

Lemma otext_app : forall a b, otext (a ++ b) = otext a ++ otext b.
Proof. intros. unfold otext. now rewrite map_app, concat_app. Qed.

Lemma out_text_otext : forall s, out_text s = otext (out s).
Proof. reflexivity. Qed.

Lemma brk_run_app : forall a b, brk_run (a ++ b) = fold_left brk_step b (brk_run a).
Proof. intros. unfold brk_run. now rewrite fold_left_app. Qed.

Definition is_some {T} (o : option T) : bool := match o with Some _ => true | None => false end.

(* ---- steps that only touch buffer/queue/collecting ---- *)
Definition quiet (l : label) : bool :=
  match l with LW _ _ | LFlush _ | LClose | LFGet | LFNowait => true | _ => false end.

Lemma quiet_step : forall s l, quiet l = true ->
  en (step s l) = en s /\ ch (step s l) = ch s /\ out (step s l) = out s /\ lost (step s l) = lost s /\
  handed (px (step s l)) = handed (px s) /\
  (forall acc dn path, fth (px (step s l)) = FChosen acc dn path -> fth (px s) = FChosen acc dn path).
Proof.
  intros s l Q.
  assert (K : handed (px (step s l)) = handed (px s) /\
    (forall acc dn path, fth (px (step s l)) = FChosen acc dn path -> fth (px s) = FChosen acc dn path)).
  { destruct l; try discriminate; cbn [step px].
    - unfold do_write. destruct (split_last d) as [[b a]|]; (split; [reflexivity|intros ? ? ? HH; exact HH]).
    - split; [reflexivity|intros ? ? ? HH; exact HH].
    - split; [reflexivity|intros ? ? ? HH; exact HH].
    - unfold do_fget. destruct (px s) as [b q f h]. cbn [fth queue buf handed].
      destruct f; try (split; [reflexivity|intros ? ? ? HH; exact HH]).
      destruct q as [|[x|] q]; try (split; [reflexivity|intros ? ? ? HH; exact HH]).
      + destruct x; (split; [reflexivity|cbn [fth]; intros; discriminate]).
      + split; [reflexivity|cbn [fth]; intros; discriminate].
    - unfold do_fnowait. destruct (px s) as [b q f h]. cbn [fth queue buf handed].
      destruct f; try (split; [reflexivity|intros ? ? ? HH; exact HH]).
      destruct q as [|[x|] q]; (split; [reflexivity|cbn [fth]; intros; discriminate]). }
  destruct l; try discriminate; cbn [step en ch out lost]; (split; [reflexivity|]); (split; [reflexivity|]); (split; [reflexivity|]); (split; [reflexivity|]); exact K.
Qed.

(* ================= regime 0: no application ================= *)
Record I0 (s : st) : Prop := mkI0 {
  i0_app : app (en s) = false;
  i0_loopq : loopq (en s) = [];
  i0_wait : waitq (ch s) = [];
  i0_active : active (ch s) = None;
  i0_path : forall acc dn k, fth (px s) <> FChosen acc dn (Some k);
  i0_text : otext (out s) = concat (handed (px s));
  i0_ok : forallb ev_ok (out s) = true;
  i0_run : running (en s) = false
}.

Lemma I0_step : forall s l, I0 s -> no_lifecycle l = true -> I0 (step s l).
Proof.
  intros s l I NL. destruct (quiet l) eqn:Q.
  { destruct (quiet_step s l Q) as [E [C [O [_ [H P]]]]]. destruct I.
    constructor; rewrite ?E, ?C, ?O, ?H; try assumption.
    intros acc dn k F. apply P in F. eapply i0_path0; eassumption. }
  destruct I as [Ia Il Iw Iac Ip It Io Ir].
  destruct l; try discriminate; cbn [step].
  - (* FChoose *)
    constructor; cbn [en ch out px]; try assumption.
    + unfold do_fchoose. destruct (fth (px s)) eqn:F; rewrite ?F; try (intros; apply Ip).
      cbn [fth]. rewrite Ia. intros; discriminate.
    + unfold do_fchoose. destruct (fth (px s)); assumption.
  - (* FDeliver *)
    destruct (fth (px s)) as [| | |acc dn [k|]| |] eqn:F; try (constructor; rewrite ?F; assumption).
    + exfalso. eapply Ip. reflexivity.
    + constructor; cbn [en ch out px set_fth fth handed]; try assumption.
      * intros a d k. destruct dn; discriminate.
      * rewrite otext_app, concat_app, It. cbn. now rewrite app_nil_r.
      * rewrite forallb_app, Io. cbn. rewrite Ir. reflexivity.
  - (* LoopStep *)
    destruct (lclosed (en s)); [constructor; assumption|]. rewrite Il. constructor; assumption.
  - (* Render *)
    rewrite Ia. cbn. constructor; assumption.
  - (* ExtBegin *)
    rewrite Ia. cbn. constructor; assumption.
  - (* ExtEnd *)
    rewrite Iac. constructor; assumption.
  - (* Wake *)
    rewrite Iw. destruct i; cbn; constructor; assumption.
Qed.

Lemma I0_init : forall c, I0 (init c).
Proof. intros c. constructor; cbn; try reflexivity. intros; discriminate. Qed.

Lemma I0_run : forall ls s, I0 s -> forallb no_lifecycle ls = true -> I0 (run s ls).
Proof.
  induction ls as [|l ls IH]; intros s I H; [assumption|].
  cbn [forallb] in H. apply andb_true_iff in H. destruct H as [H1 H2].
  change (run s (l :: ls)) with (run (step s l) ls). apply IH; [now apply I0_step|assumption].
Qed.

Lemma pipeline_I0 : forall s, I0 s -> pipeline s = ptext (px s).
Proof.
  intros s I. destruct I. unfold pipeline, ptext, wait_text.
  rewrite out_text_otext, i0_text0, i0_loopq0, i0_wait0. reflexivity.
Qed.

(* ================= regime 1: application running throughout ================= *)
Record I1 (s : st) : Prop := mkI1 {
  i1_app : app (en s) = true;
  i1_run : running (en s) = true;
  i1_ctx : ctx (en s) = true;
  i1_open : lclosed (en s) = false;
  i1_path : forall acc dn path, fth (px s) = FChosen acc dn path -> path = Some (lid (en s));
  i1_text : otext (out s) ++ wait_text (ch s) ++ concat (loopq (en s)) = concat (handed (px s));
  i1_ok : forallb ev_ok (out s) = true;
  i1_brk : brk_run (out s) = Some (is_some (active (ch s)))
}.

Lemma start_sec_facts : forall x c o,
  active c = None ->
  forallb ev_ok o = true -> brk_run o = Some false ->
  let r := start_sec true x c o in
  otext (snd r) = otext o ++ pay_text (s_pay x) /\ waitq (fst r) = waitq c /\
  forallb ev_ok (snd r) = true /\ brk_run (snd r) = Some (is_some (active (fst r))).
Proof.
  intros x c o A Ok B. unfold start_sec. destruct (s_pay x); cbn zeta; cbn [fst snd waitq active pay_text].
  - rewrite otext_app, forallb_app, brk_run_app, B, Ok, A. cbn. rewrite app_nil_r. auto.
  - rewrite otext_app, forallb_app, brk_run_app, B, Ok. cbn. rewrite !app_nil_r. auto.
Qed.

Lemma submit_facts : forall p c o,
  CI c -> forallb ev_ok o = true -> brk_run o = Some (is_some (active c)) ->
  let r := submit true p c o in
  otext (snd r) ++ wait_text (fst r) = otext o ++ wait_text c ++ pay_text p /\
  forallb ev_ok (snd r) = true /\ brk_run (snd r) = Some (is_some (active (fst r))).
Proof.
  intros p c o I Ok B. unfold submit. destruct (fdone c (lastf c)) eqn:F; cbn zeta.
  - destruct (idle_when_last_done c I F) as [W [N [A All]]].
    rewrite A in B. cbn [is_some] in B.
    pose proof (start_sec_facts (mksec (lastf c) (nextf c) p)
      (mkch (S (nextf c)) (Some (nextf c)) (donef c) (waitq c) (active c) (started c)) o A Ok B) as H.
    cbn zeta in H. destruct H as [T [Wq [Ok' B']]].
    split; [|split; assumption].
    rewrite T. unfold wait_text. rewrite Wq. cbn [waitq s_pay]. rewrite W. cbn [map concat app]. now rewrite app_nil_r.
  - cbn [fst snd waitq active]. unfold wait_text. cbn [waitq]. rewrite map_app, concat_app.
    cbn [map concat s_pay]. rewrite app_nil_r. split; [reflexivity|]. split; assumption.
Qed.

Lemma I1_step : forall s l, I1 s -> CI (ch s) -> no_lifecycle l = true -> I1 (step s l).
Proof.
  intros s l I C NL. destruct (quiet l) eqn:Q.
  { destruct (quiet_step s l Q) as [E [Cc [O [_ [H P]]]]]. destruct I.
    constructor; rewrite ?E, ?Cc, ?O, ?H; try assumption.
    intros acc dn path F. apply P in F. eapply i1_path0; eassumption. }
  destruct I as [Ia Ir Ic Io Ip It Iok Ib].
  destruct l; try discriminate; cbn [step].
  - (* FChoose *)
    constructor; cbn [en ch out px]; try assumption.
    + intros a d path E. unfold do_fchoose in E.
      destruct (fth (px s)) eqn:F; cbn [fth] in E; rewrite ?F in E; try discriminate E.
      * rewrite Ia in E. now inversion E.
      * exact (Ip _ _ _ E).
    + unfold do_fchoose. destruct (fth (px s)); assumption.
  - (* FDeliver *)
    destruct (fth (px s)) as [| | |acc dn path| |] eqn:F; try (constructor; rewrite ?F; assumption).
    rewrite (Ip _ _ _ eq_refl). rewrite Nat.eqb_refl, Io. cbn [negb andb].
    constructor; cbn [en ch out px set_fth set_loopq fth handed app running ctx lclosed loopq lid]; try assumption.
    + intros a d p. destruct dn; discriminate.
    + rewrite !concat_app, <- It. cbn. rewrite !app_nil_r, <- !app_assoc. reflexivity.
  - (* LoopStep *)
    rewrite Io. destruct (loopq (en s)) as [|t q] eqn:Lq; [constructor; try assumption; now rewrite Lq|].
    rewrite Ia, Ic, Ir. cbn [andb].
    destruct (submit_facts (PWrite t) (ch s) (out s) C Iok Ib) as [T [Ok' B']]. cbn zeta in *.
    destruct (submit true (PWrite t) (ch s) (out s)) as [c' o']. cbn [fst snd] in *.
    constructor; cbn [en ch out px set_loopq app running ctx lclosed loopq lid]; try assumption.
    rewrite app_assoc, T, <- It. cbn [pay_text concat]. rewrite <- !app_assoc. reflexivity.
  - (* Render *)
    rewrite Ia, Ir. cbn [andb]. destruct (active (ch s)) eqn:A; [constructor; try assumption; now rewrite A|].
    constructor; cbn [en ch out px]; try assumption.
    + rewrite otext_app. cbn. rewrite app_nil_r. assumption.
    + rewrite forallb_app, Iok. reflexivity.
    + rewrite brk_run_app, Ib, A. reflexivity.
  - (* ExtBegin *)
    rewrite Ia, Ir. cbn [andb].
    destruct (submit_facts PExt (ch s) (out s) C Iok Ib) as [T [Ok' B']]. cbn zeta in *.
    destruct (submit true PExt (ch s) (out s)) as [c' o']. cbn [fst snd] in *.
    constructor; cbn [en ch out px]; try assumption.
    rewrite app_assoc, T, <- It. cbn [pay_text]. rewrite app_nil_r, <- !app_assoc. reflexivity.
  - (* ExtEnd *)
    destruct (active (ch s)) as [own|] eqn:A; [|constructor; try assumption; now rewrite A].
    rewrite Ir. constructor; cbn [en ch out px redraw]; try assumption.
    + rewrite otext_app. cbn. rewrite app_nil_r. exact It.
    + rewrite forallb_app, Iok. reflexivity.
    + rewrite brk_run_app, Ib. reflexivity.
  - (* Wake *)
    destruct (nth_error (waitq (ch s)) i) as [x|] eqn:Hn; [|constructor; assumption].
    destruct (fdone (ch s) (s_prev x)) eqn:Fd; [|constructor; assumption].
    destruct (wake_head (ch s) i x C Hn Fd) as [E [A [Ox All]]]. subst i.
    rewrite A in Ib. cbn [is_some] in Ib. rewrite Ir.
    set (c0 := mkch (nextf (ch s)) (lastf (ch s)) (donef (ch s)) (remove_nth 0 (waitq (ch s)))
                    (active (ch s)) (started (ch s))).
    assert (A0 : active c0 = None) by exact A.
    destruct (start_sec_facts x c0 (out s) A0 Iok Ib) as [T [Wq [Ok' B']]]. cbn zeta in *.
    destruct (start_sec true x c0 (out s)) as [c' o']. cbn [fst snd] in *.
    constructor; cbn [en ch out px]; try assumption.
    rewrite T, <- It. unfold wait_text. rewrite Wq. unfold c0. cbn [waitq].
    destruct (waitq (ch s)) as [|y w]; [discriminate|]. cbn [nth_error] in Hn. injection Hn as ->.
    cbn [remove_nth map concat]. rewrite <- !app_assoc. reflexivity.
Qed.

Definition init_running (c : bool) : st := step (init c) LAppStart.

Lemma I1_init : I1 (init_running true).
Proof. constructor; cbn; try reflexivity. intros; discriminate. Qed.

Lemma CI_init_running : forall c, CI (ch (init_running c)).
Proof. intros c. apply CI_step. apply CI_init. Qed.

Lemma I1_run : forall ls s, I1 s -> CI (ch s) -> forallb no_lifecycle ls = true ->
  I1 (run s ls) /\ CI (ch (run s ls)).
Proof.
  induction ls as [|l ls IH]; intros s I C H; [split; assumption|].
  cbn [forallb] in H. apply andb_true_iff in H. destruct H as [H1 H2].
  change (run s (l :: ls)) with (run (step s l) ls).
  apply IH; [now apply I1_step|now apply CI_step|assumption].
Qed.

Lemma pipeline_I1 : forall s, I1 s -> pipeline s = ptext (px s).
Proof.
  intros s I. destruct I. unfold pipeline, ptext.
  rewrite out_text_otext, <- i1_text0, <- !app_assoc. reflexivity.
Qed.

(* ---- the statements used by Props/C20.v ---- *)
Lemma in_order_noapp : forall c ls,
  forallb no_lifecycle ls = true ->
  let s := run (init c) ls in
  pipeline s = stream ls /\ forallb ev_ok (out s) = true.
Proof.
  intros c ls H. cbn zeta. pose proof (I0_run ls (init c) (I0_init c) H) as I.
  split; [|apply I]. rewrite (pipeline_I0 _ I), ptext_run. reflexivity.
Qed.

Lemma in_order_running : forall ls,
  forallb no_lifecycle ls = true ->
  let s := run (init_running true) ls in
  pipeline s = stream ls /\ forallb ev_ok (out s) = true /\ brk_run (out s) <> None.
Proof.
  intros ls H. cbn zeta.
  destruct (I1_run ls (init_running true) I1_init (CI_init_running true) H) as [I C].
  split; [|split; [apply I|]].
  - rewrite (pipeline_I1 _ I), ptext_run. reflexivity.
  - destruct I. rewrite i1_brk0. discriminate.
Qed.

Lemma drained_out : forall s, drained s -> pipeline s = out_text s.
Proof.
  intros s [A [B C]]. unfold pipeline. rewrite A, B, C. now rewrite !app_nil_r.
Qed.
