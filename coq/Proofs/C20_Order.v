(* C20 - in-order delivery and the erase/redraw bracket, for every label list
   in the two stable regimes: no application at all (no life-cycle label), and
   one application alive throughout (started before, it may exit, but is not
   stopped/restarted and its loop is not closed); the flush thread never dies. *)
From Coq Require Import ZArith List Bool Lia Arith.
From PTK Require Import Lib.Sx Model.C20_StdoutProxy Proofs.C20_Queue Proofs.C20_Chain.
Import ListNotations.
Open Scope nat_scope.

Definition otext (o : list ev) : text := concat (map ev_text o).

Lemma otext_app : forall a b, otext (a ++ b) = otext a ++ otext b.
Proof. intros. unfold otext. now rewrite map_app, concat_app. Qed.

Lemma out_text_otext : forall s, out_text s = otext (out s).
Proof. reflexivity. Qed.

Lemma brk_run_app : forall a b, brk_run (a ++ b) = fold_left brk_step b (brk_run a).
Proof. intros. unfold brk_run. now rewrite fold_left_app. Qed.

Definition is_some {T} (o : option T) : bool := match o with Some _ => true | None => false end.

(* With context=self._context.copy() (HEAD) the callback asks the proxy's own session: it sees
   the application exactly when there is one - whatever session the proxy was created in. *)
Lemma sees_own_app : forall e, get_app_or_none (cb_session true e) e = app e.
Proof. intros e. unfold get_app_or_none, cb_session. now rewrite Nat.eqb_refl, andb_true_r. Qed.

(* ---- steps that only touch buffer/queue/collecting ---- *)
Definition quiet (l : label) : bool :=
  match l with LW _ _ | LFlush _ | LClose | LFGet | LFNowait => true | _ => false end.

Lemma quiet_step : forall s l, quiet l = true ->
  en (step s l) = en s /\ ch (step s l) = ch s /\ out (step s l) = out s /\ lost (step s l) = lost s /\
  cp (step s l) = cp s /\
  handed (px (step s l)) = handed (px s) /\
  (forall acc dn path, fth (px (step s l)) = FChosen acc dn path -> fth (px s) = FChosen acc dn path).
Proof.
  intros s l Q.
  assert (K : handed (px (step s l)) = handed (px s) /\
    (forall acc dn path, fth (px (step s l)) = FChosen acc dn path -> fth (px s) = FChosen acc dn path)).
  { destruct l; try discriminate; cbn [step px].
    - unfold do_write. destruct (split_last d) as [[b a]|]; (split; [reflexivity|intros ? ? ? HH; exact HH]).
    - split; [reflexivity|intros ? ? ? HH; exact HH].
    - split; [reflexivity|intros ? ? ? HH; exact HH].
    - unfold do_fget. destruct (px s) as [b q f h]. cbn [fth queue buf handed].
      destruct f; try (split; [reflexivity|intros ? ? ? HH; exact HH]).
      destruct q as [|[x|] q]; try (split; [reflexivity|intros ? ? ? HH; exact HH]).
      + destruct x; (split; [reflexivity|cbn [fth]; intros; discriminate]).
      + split; [reflexivity|cbn [fth]; intros; discriminate].
    - unfold do_fnowait. destruct (px s) as [b q f h]. cbn [fth queue buf handed].
      destruct f; try (split; [reflexivity|intros ? ? ? HH; exact HH]).
      destruct q as [|[x|] q]; (split; [reflexivity|cbn [fth]; intros; discriminate]). }
  destruct l; try discriminate; cbn [step en ch out lost cp]; (split; [reflexivity|]); (split; [reflexivity|]); (split; [reflexivity|]); (split; [reflexivity|]); (split; [reflexivity|]); exact K.
Qed.

(* ================= regime 0: no application ================= *)
Record I0 (s : st) : Prop := mkI0 {
  i0_app : app (en s) = false;
  i0_loopq : loopq (en s) = [];
  i0_wait : waitq (ch s) = [];
  i0_active : active (ch s) = None;
  i0_path : forall acc dn k, fth (px s) <> FChosen acc dn (Some k);
  i0_text : otext (out s) = concat (handed (px s));
  i0_ok : forallb ev_ok (out s) = true;
  i0_run : running (en s) = false;
  i0_cpr : cprq (cp s) = 0
}.

Lemma I0_step : forall s l, I0 s -> no_lifecycle l = true -> I0 (step s l).
Proof.
  intros s l I NL. destruct (quiet l) eqn:Q.
  { destruct (quiet_step s l Q) as [E [C [O [_ [K [H P]]]]]]. destruct I.
    constructor; rewrite ?E, ?C, ?O, ?H, ?K; try assumption.
    intros acc dn k F. apply P in F. eapply i0_path0; eassumption. }
  pose proof I as Ifull. destruct I as [Ia Il Iw Iac Ip It Io Ir Ic].
  destruct l; try discriminate; cbn [step].
  - (* FChoose *)
    constructor; cbn [en ch out px]; try assumption.
    + unfold do_fchoose. destruct (fth (px s)) eqn:F; rewrite ?F; try (intros; apply Ip).
      cbn [fth]. rewrite Ia. intros; discriminate.
    + unfold do_fchoose. destruct (fth (px s)); assumption.
  - (* FDeliver *)
    destruct (fth (px s)) as [| | |acc dn [k|]| |] eqn:F; try (constructor; rewrite ?F; assumption).
    + exfalso. eapply Ip. reflexivity.
    + constructor; cbn [en ch out px set_fth fth handed]; try assumption.
      * intros a d k. destruct dn; discriminate.
      * rewrite otext_app, concat_app, It. cbn. now rewrite app_nil_r.
      * rewrite forallb_app, Io. cbn. rewrite Ir. reflexivity.
  - (* LoopStep *)
    unfold loop_step.
    destruct (lclosed (en s)); [constructor; assumption|]. rewrite Il. constructor; assumption.
  - (* Render *)
    rewrite Ia. cbn. constructor; assumption.
  - (* ExtBegin *)
    rewrite Ia. cbn. constructor; assumption.
  - (* ExtEnd *)
    rewrite Iac. constructor; assumption.
  - (* Wake *)
    rewrite Iw. destruct i; cbn; exact Ifull.
  - (* CprAnswer *)
    rewrite Ia. cbn. exact Ifull.
  - (* CprTimeout *)
    rewrite Ic. cbn. exact Ifull.
  - (* Restore *)
    constructor; cbn [en ch out px cp app running loopq]; assumption.
Qed.

Lemma I0_init : forall c r, I0 (init2 c r).
Proof. intros c r. constructor; cbn; try reflexivity. intros; discriminate. Qed.

Lemma I0_run : forall ls s, I0 s -> forallb no_lifecycle ls = true -> I0 (run s ls).
Proof.
  induction ls as [|l ls IH]; intros s I H; [assumption|].
  cbn [forallb] in H. apply andb_true_iff in H. destruct H as [H1 H2].
  change (run s (l :: ls)) with (run (step s l) ls). apply IH; [now apply I0_step|assumption].
Qed.

Lemma pipeline_I0 : forall s, I0 s -> pipeline s = ptext (px s).
Proof.
  intros s I. destruct I. unfold pipeline, ptext, wait_text.
  rewrite out_text_otext, i0_text0, i0_loopq0, i0_wait0. reflexivity.
Qed.

(* ========== regime 1: an application is alive (started, not yet stopped) ========== *)
(* the trace scan has not failed, and while the application runs it says
   "erased" exactly when a run-in-terminal section is open *)
Definition brk_inv (run : bool) (o : list ev) (c : chain) : Prop :=
  exists b, brk_run o = Some b /\ (run = true -> b = is_some (active c)).

Record I1 (s : st) : Prop := mkI1 {
  i1_app : app (en s) = true;
  i1_open : lclosed (en s) = false;
  i1_path : forall acc dn path, fth (px s) = FChosen acc dn path -> path = Some (lid (en s));
  i1_text : otext (out s) ++ wait_text (ch s) ++ concat (loopq (en s)) = concat (handed (px s));
  i1_ok : forallb ev_ok (out s) = true;
  i1_brk : brk_inv (running (en s)) (out s) (ch s)
}.

Lemma start_sec_facts : forall run x c o,
  active c = None ->
  forallb ev_ok o = true -> (exists b, brk_run o = Some b) ->
  let r := start_sec run x c o in
  otext (snd r) = otext o ++ pay_text (s_pay x) /\ waitq (fst r) = waitq c /\
  forallb ev_ok (snd r) = true /\ brk_inv run (snd r) (fst r).
Proof.
  intros run x c o A Ok [b0 B]. unfold start_sec, brk_inv.
  destruct (s_pay x); cbn zeta; cbn [fst snd waitq active pay_text].
  - rewrite otext_app, forallb_app, brk_run_app, B, Ok, A.
    destruct run; cbn; rewrite ?app_nil_r; (split; [reflexivity|]); (split; [reflexivity|]);
      (split; [reflexivity|]); eexists; (split; [reflexivity|]); intros; try discriminate; reflexivity.
  - rewrite otext_app, forallb_app, brk_run_app, B, Ok. cbn. rewrite !app_nil_r.
    (split; [reflexivity|]); (split; [reflexivity|]); (split; [reflexivity|]).
    eexists; split; [reflexivity|]. intros; reflexivity.
Qed.

Lemma submit_facts : forall run hold p c o,
  CI c -> forallb ev_ok o = true -> brk_inv run o c ->
  let r := submit run hold p c o in
  otext (snd r) ++ wait_text (fst r) = otext o ++ wait_text c ++ pay_text p /\
  forallb ev_ok (snd r) = true /\ brk_inv run (snd r) (fst r).
Proof.
  intros run hold p c o I Ok B. unfold submit. destruct (fdone c (lastf c) && negb hold) eqn:FH; cbn zeta.
  - apply andb_true_iff in FH. destruct FH as [F _].
    destruct (idle_when_last_done c I F) as [W [N [A All]]].
    assert (B0 : exists b, brk_run o = Some b) by (destruct B as [b [B1 _]]; now exists b).
    pose proof (start_sec_facts run (mksec (lastf c) (nextf c) p)
      (mkch (S (nextf c)) (Some (nextf c)) (donef c) (waitq c) (active c) (started c)) o A Ok B0) as H.
    cbn zeta in H. destruct H as [T [Wq [Ok' B']]].
    split; [|split; assumption].
    rewrite T. unfold wait_text. rewrite Wq. cbn [waitq s_pay]. rewrite W. cbn [map concat app]. now rewrite app_nil_r.
  - cbn [fst snd waitq active]. unfold wait_text. cbn [waitq]. rewrite map_app, concat_app.
    cbn [map concat s_pay]. rewrite app_nil_r. split; [reflexivity|]. split; [assumption|].
    destruct B as [b [B1 B2]]. exists b. split; [assumption|]. cbn [active]. exact B2.
Qed.

Lemma brk_some : forall run o c, brk_inv run o c -> exists b, brk_run o = Some b.
Proof. intros run o c [b [B _]]. now exists b. Qed.

Lemma inval_text : forall run c, otext (inval_render run c) = [].
Proof. intros run c. unfold inval_render. destruct (run && _); reflexivity. Qed.

Lemma inval_ok : forall run c, forallb ev_ok (inval_render run c) = true.
Proof. intros run c. unfold inval_render. destruct (run && _); reflexivity. Qed.

Lemma inval_brk : forall run o c, brk_inv run o c -> brk_inv run (o ++ inval_render run c) c.
Proof.
  intros run o c [b [B1 B2]]. unfold brk_inv, inval_render. rewrite brk_run_app, B1.
  destruct run; cbn [andb]; [|cbn; exists b; split; [reflexivity|intros; discriminate]].
  destruct (active c) eqn:A; cbn.
  - exists b. split; [reflexivity|]. intros _. rewrite (B2 eq_refl). reflexivity.
  - exists false. split; reflexivity.
Qed.

(* the head of waitq leaves wait_for_cpr_responses() *)
Lemma resume_I1 : forall s rq k x w,
  I1 s -> CI (ch s) -> waitq (ch s) = x :: w -> fdone (ch s) (s_prev x) = true ->
  let r := resume (running (en s)) rq (ch s) k (out s) in
  otext (snd r) ++ wait_text (fst (fst r)) ++ concat (loopq (en s)) = concat (handed (px s)) /\
  forallb ev_ok (snd r) = true /\ brk_inv (running (en s)) (snd r) (fst (fst r)).
Proof.
  intros s rq k x w I C W F. destruct I as [Ia Io Ip It Iok Ib]. unfold resume. rewrite W. cbn zeta.
  assert (Hn : nth_error (waitq (ch s)) 0 = Some x) by (rewrite W; reflexivity).
  destruct (wake_head (ch s) 0 x C Hn F) as [_ [A _]].
  set (c0 := mkch (nextf (ch s)) (lastf (ch s)) (donef (ch s)) w (active (ch s)) (started (ch s))).
  assert (A0 : active c0 = None) by exact A.
  destruct (start_sec_facts (running (en s)) x c0 (out s) A0 Iok (brk_some _ _ _ Ib)) as [T [Wq [Ok' B']]].
  cbn zeta in *. destruct (start_sec (running (en s)) x c0 (out s)) as [c' o']. cbn [fst snd] in *.
  split; [|split; assumption].
  rewrite T, <- It. unfold wait_text. rewrite Wq, W. unfold c0. cbn [waitq map concat].
  rewrite <- !app_assoc. reflexivity.
Qed.

Lemma I1_step : forall s l, I1 s -> SI s -> app_alive l = true -> I1 (step s l).
Proof.
  intros s l I [C Wt] NL. destruct (quiet l) eqn:Q.
  { destruct (quiet_step s l Q) as [E [Cc [O [_ [_ [H P]]]]]]. destruct I.
    constructor; rewrite ?E, ?Cc, ?O, ?H; try assumption.
    intros acc dn path F. apply P in F. eapply i1_path0; eassumption. }
  pose proof I as Ifull. destruct I as [Ia Io Ip It Iok Ib].
  destruct l; try discriminate; cbn [step].
  - (* FChoose *)
    constructor; cbn [en ch out px]; try assumption.
    + intros a d path E. unfold do_fchoose in E.
      destruct (fth (px s)) eqn:F; cbn [fth] in E; rewrite ?F in E; try discriminate E.
      * rewrite Ia in E. now inversion E.
      * exact (Ip _ _ _ E).
    + unfold do_fchoose. destruct (fth (px s)); assumption.
  - (* FDeliver *)
    destruct (fth (px s)) as [| | |acc dn path| |] eqn:F; try (exact Ifull).
    rewrite (Ip _ _ _ eq_refl). rewrite Nat.eqb_refl, Io. cbn [negb andb].
    constructor; cbn [en ch out px set_fth set_loopq fth handed app running ctx lclosed loopq lid]; try assumption.
    + intros a d p. destruct dn; discriminate.
    + rewrite !concat_app, <- It. cbn. rewrite !app_nil_r, <- !app_assoc. reflexivity.
  - (* AppExit *)
    rewrite Ia. cbn [andb]. destruct (running (en s)) eqn:R; [|exact Ifull].
    destruct Ib as [b [B1 B2]].
    constructor; cbn [en ch out px app running ctx lclosed loopq lid]; try assumption.
    + rewrite otext_app. destruct (active (ch s)); cbn; rewrite ?app_nil_r; assumption.
    + rewrite forallb_app, Iok. destruct (active (ch s)); reflexivity.
    + unfold brk_inv. rewrite brk_run_app, B1.
      destruct (active (ch s)); cbn; eexists; (split; [reflexivity|intros; discriminate]).
  - (* LoopStep *)
    unfold loop_step.
    rewrite Io. destruct (loopq (en s)) as [|t q] eqn:Lq; [exact Ifull|].
    rewrite sees_own_app, Ia. cbn [andb].
    destruct (running (en s) || negb (fdone (ch s) (lastf (ch s)))) eqn:G.
    + destruct (submit_facts (running (en s)) (cpr_pending (cp s)) (PWrite t) (ch s) (out s) C Iok Ib) as [T [Ok' B']]. cbn zeta in *.
      destruct (submit (running (en s)) (cpr_pending (cp s)) (PWrite t) (ch s) (out s)) as [c' o']. cbn [fst snd] in *.
      constructor; cbn [en ch out px set_loopq app running ctx lclosed loopq lid]; try assumption.
      rewrite app_assoc, T, <- It. cbn [pay_text concat]. rewrite <- !app_assoc. reflexivity.
    + apply orb_false_iff in G. destruct G as [R Fd]. apply negb_false_iff in Fd.
      destruct (idle_when_last_done (ch s) C Fd) as [W [N [A All]]].
      destruct Ib as [b [B1 B2]].
      constructor; cbn [en ch out px set_loopq app running ctx lclosed loopq lid]; try assumption.
      * rewrite otext_app, <- It. unfold wait_text. rewrite W. cbn. rewrite !app_nil_r, <- !app_assoc. reflexivity.
      * rewrite forallb_app, Iok, R. reflexivity.
      * unfold brk_inv. rewrite brk_run_app, B1, R. cbn. rewrite orb_true_r.
        exists b. split; [reflexivity|intros; discriminate].
  - (* Render *)
    rewrite Ia. cbn [andb]. destruct (running (en s)) eqn:R; [|exact Ifull].
    cbn [andb]. destruct (active (ch s)) eqn:A; [exact Ifull|].
    destruct Ib as [b [B1 B2]].
    constructor; cbn [en ch out px]; rewrite ?R; try assumption.
    + rewrite otext_app. cbn. rewrite app_nil_r. assumption.
    + rewrite forallb_app, Iok. reflexivity.
    + unfold brk_inv. rewrite brk_run_app, B1, A. cbn. eexists; split; reflexivity.
  - (* ExtBegin *)
    rewrite Ia. cbn [andb]. destruct (running (en s)) eqn:R; [|exact Ifull].
    destruct (submit_facts true (cpr_pending (cp s)) PExt (ch s) (out s) C Iok Ib) as [T [Ok' B']]. cbn zeta in *.
    destruct (submit true (cpr_pending (cp s)) PExt (ch s) (out s)) as [c' o']. cbn [fst snd] in *.
    constructor; cbn [en ch out px]; rewrite ?R; try assumption.
    rewrite app_assoc, T, <- It. cbn [pay_text]. rewrite app_nil_r, <- !app_assoc. reflexivity.
  - (* ExtEnd *)
    destruct (active (ch s)) as [own|] eqn:A; [|exact Ifull].
    destruct Ib as [b [B1 B2]].
    constructor; cbn [en ch out px]; try assumption.
    + rewrite otext_app. destruct (running (en s)); cbn; rewrite ?app_nil_r; exact It.
    + rewrite forallb_app, Iok. destruct (running (en s)); reflexivity.
    + unfold brk_inv. rewrite brk_run_app, B1. cbn [active].
      destruct (running (en s)); cbn; eexists; (split; [reflexivity|intros; try discriminate; reflexivity]).
  - (* Wake *)
    destruct (nth_error (waitq (ch s)) i) as [x|] eqn:Hn; [|exact Ifull].
    destruct (fdone (ch s) (s_prev x) && negb (cprwait (cp s))) eqn:FW; [|exact Ifull].
    apply andb_true_iff in FW. destruct FW as [Fd _].
    destruct (cpr_pending (cp s)); [constructor; cbn [en ch out px]; assumption|].
    destruct (wake_head (ch s) i x C Hn Fd) as [E [A [Ox All]]]. subst i.
    set (c0 := mkch (nextf (ch s)) (lastf (ch s)) (donef (ch s)) (remove_nth 0 (waitq (ch s)))
                    (active (ch s)) (started (ch s))).
    assert (A0 : active c0 = None) by exact A.
    destruct (start_sec_facts (running (en s)) x c0 (out s) A0 Iok (brk_some _ _ _ Ib)) as [T [Wq [Ok' B']]].
    cbn zeta in *.
    destruct (start_sec (running (en s)) x c0 (out s)) as [c' o']. cbn [fst snd] in *.
    constructor; cbn [en ch out px]; try assumption.
    rewrite T, <- It. unfold wait_text. rewrite Wq. unfold c0. cbn [waitq].
    destruct (waitq (ch s)) as [|y w]; [discriminate|]. cbn [nth_error] in Hn. injection Hn as ->.
    cbn [remove_nth map concat]. rewrite <- !app_assoc. reflexivity.
  - (* CprAnswer *)
    destruct (app (en s) && cpron (cp s) && negb (Nat.eqb (cprq (cp s)) 0) && _) eqn:G0; [|exact Ifull].
    destruct (cprwait (cp s) && _) eqn:G.
    + apply andb_true_iff in G. destruct G as [G _]. destruct (Wt G) as [x [w [W F]]].
      match goal with |- context [resume ?r ?q ?c ?k ?o] =>
        pose proof (resume_I1 s q k x w Ifull C W F) as H; destruct (resume r q c k o) as [[c' k'] o'] end.
      cbn [fst snd] in H. destruct H as [T [Ok' B']].
      constructor; cbn [en ch out px]; try assumption.
      * rewrite otext_app, inval_text, app_nil_r. exact T.
      * rewrite forallb_app, Ok'. apply inval_ok.
      * apply inval_brk. exact B'.
    + constructor; cbn [en ch out px]; try assumption.
      * rewrite otext_app, inval_text, app_nil_r. exact It.
      * rewrite forallb_app, Iok. apply inval_ok.
      * apply inval_brk. exact Ib.
  - (* CprTimeout *)
    destruct (negb (Nat.eqb (cprq (cp s)) 0) && _); [|exact Ifull].
    destruct (cprwait (cp s)) eqn:G.
    + destruct (Wt eq_refl) as [x [w [W F]]].
      match goal with |- context [resume ?r ?q ?c ?k ?o] =>
        pose proof (resume_I1 s q k x w Ifull C W F) as H; destruct (resume r q c k o) as [[c' k'] o'] end.
      cbn [fst snd] in H. destruct H as [T [Ok' B']].
      constructor; cbn [en ch out px]; assumption.
    + constructor; cbn [en ch out px]; assumption.
  - (* Restore *)
    constructor; cbn [en ch out px cp app running loopq lclosed lid]; assumption.
  - (* AppDone: only is_done changes *)
    destruct (app (en s) && running (en s) && negb (isdone (en s))); [|exact Ifull].
    constructor; cbn [en ch out px cp app running loopq lclosed lid]; assumption.
Qed.

Definition init_running2 (c r : bool) : st := step (init2 c r) LAppStart.
Definition init_running (c : bool) : st := init_running2 c false.

Lemma I1_init : forall c r, I1 (init_running2 c r).
Proof.
  intros c r. constructor; cbn; try reflexivity.
  - intros; discriminate.
  - exists false. split; reflexivity.
Qed.

Lemma SI_init_running : forall c r, SI (init_running2 c r).
Proof. intros c r. apply SI_step. apply SI_init. Qed.

Lemma I1_run : forall ls s, I1 s -> SI s -> forallb app_alive ls = true ->
  I1 (run s ls) /\ SI (run s ls).
Proof.
  induction ls as [|l ls IH]; intros s I C H; [split; assumption|].
  cbn [forallb] in H. apply andb_true_iff in H. destruct H as [H1 H2].
  change (run s (l :: ls)) with (run (step s l) ls).
  apply IH; [now apply I1_step|now apply SI_step|assumption].
Qed.

Lemma pipeline_I1 : forall s, I1 s -> pipeline s = ptext (px s).
Proof.
  intros s I. destruct I. unfold pipeline, ptext.
  rewrite out_text_otext, <- i1_text0, <- !app_assoc. reflexivity.
Qed.

Lemma alive_raw : forall ls, forallb app_alive ls = true -> forallb raw_label ls = true.
Proof.
  induction ls as [|l ls IH]; [reflexivity|]. cbn [forallb]. intros H. apply andb_true_iff in H.
  destruct H as [H1 H2]. rewrite (IH H2), andb_true_r. destruct l; try reflexivity; discriminate.
Qed.

Lemma nolife_raw : forall ls, forallb no_lifecycle ls = true -> forallb raw_label ls = true.
Proof.
  induction ls as [|l ls IH]; [reflexivity|]. cbn [forallb]. intros H. apply andb_true_iff in H.
  destruct H as [H1 H2]. rewrite (IH H2), andb_true_r. destruct l; try reflexivity; discriminate.
Qed.

(* ---- the statements used by Props/C20.v ---- *)
Lemma in_order_noapp : forall c r ls,
  forallb no_lifecycle ls = true ->
  let s := run (init2 c r) ls in
  pipeline s = stream ls /\ forallb ev_ok (out s) = true.
Proof.
  intros c r ls H. cbn zeta. pose proof (I0_run ls (init2 c r) (I0_init c r) H) as I.
  split; [|apply I]. rewrite (pipeline_I0 _ I), (ptext_run _ _ (nolife_raw _ H)). reflexivity.
Qed.

Lemma in_order_running : forall c r ls,
  forallb app_alive ls = true ->
  let s := run (init_running2 c r) ls in
  pipeline s = stream ls /\ forallb ev_ok (out s) = true /\ brk_run (out s) <> None.
Proof.
  intros c r ls H. cbn zeta.
  destruct (I1_run ls (init_running2 c r) (I1_init c r) (SI_init_running c r) H) as [I C].
  split; [|split; [apply I|]].
  - rewrite (pipeline_I1 _ I), (ptext_run _ _ (alive_raw _ H)). reflexivity.
  - destruct I. destruct i1_brk0 as [b [B _]]. rewrite B. discriminate.
Qed.

Lemma drained_out : forall s, drained s -> pipeline s = out_text s.
Proof.
  intros s [A [B C]]. unfold pipeline. rewrite A, B, C. now rewrite !app_nil_r.
Qed.

(* ---- the flush thread never dies ---- *)
Lemma no_crash_step : forall s l, fth (px s) <> FCrash -> fth (px (step s l)) <> FCrash.
Proof.
  intros s l F. destruct l; cbn [step px]; rewrite ?loop_step_px; try exact F;
    try (solve [repeat (match goal with
      | |- context [if ?b then _ else _] => destruct b
      | |- context [match ?x with _ => _ end] => destruct x
      end); exact F]).
  - unfold do_write. destruct (split_last d) as [[b a]|]; exact F.
  - unfold do_fget. destruct (px s) as [b q f h]. cbn [fth queue buf handed] in *.
    destruct f; try exact F. destruct q as [|[x|] q]; try exact F; [destruct x|]; discriminate.
  - unfold do_fnowait. destruct (px s) as [b q f h]. cbn [fth queue buf handed] in *.
    destruct f; try exact F. destruct q as [|[x|] q]; discriminate.
  - unfold do_fchoose. destruct (px s) as [b q f h]. cbn [fth queue buf handed] in *.
    destruct f; try exact F. discriminate.
  - destruct (fth (px s)) as [| | |acc dn [k|]| |] eqn:E; try (rewrite E; exact F).
    + destruct (Nat.eqb k (lid (en s)) && negb (lclosed (en s))); cbn [px set_fth fth]; destruct dn; discriminate.
    + cbn [px set_fth fth]. destruct dn; discriminate.
  - destruct (patched (en s)); [|exact F]. cbn [px]. unfold do_write. destruct (split_last d) as [[b a]|]; exact F.
Qed.

Lemma never_dies : forall c r ls, fth (px (run (init2 c r) ls)) <> FCrash.
Proof.
  intros c r ls. assert (H : forall ls s, fth (px s) <> FCrash -> fth (px (run s ls)) <> FCrash).
  { induction ls0 as [|l ls0 IH]; intros s F; [exact F|].
    change (run s (l :: ls0)) with (run (step s l) ls0). apply IH. now apply no_crash_step. }
  apply H. cbn. discriminate.
Qed.
