(* C12 - write_to_screen of nested splits: every region drawn lies inside the
   region of the container that draws it, and the regions drawn are pairwise
   disjoint (two-dimensional write positions, any offsets, any nesting). *)
From Coq Require Import ZArith List Bool Lia.
From PTK Require Import Lib.Sx Model.C12_Divide Model.C12_Layout
     Proofs.C12_Safety Proofs.C12_Gen Proofs.C12_Termination Proofs.C12_Fixed Proofs.C12_Cache Proofs.C12_Layout.
Import ListNotations.
Open Scope Z_scope.

(* r lies inside WritePosition(x, y, w, h) and has non-negative extents *)
Definition inside (x y w h : Z) (r : rect) : Prop :=
  x <= rx r /\ rx r + rw r <= x + w /\ y <= ry r /\ ry r + rh r <= y + h /\ 0 <= rw r /\ 0 <= rh r.

(* separated by a vertical or a horizontal line *)
Definition disj (a b : rect) : Prop :=
  rx a + rw a <= rx b \/ rx b + rw b <= rx a \/ ry a + rh a <= ry b \/ ry b + rh b <= ry a.

Definition good (x y w h : Z) (rs : list rect) : Prop :=
  Forall (inside x y w h) rs /\ ForallOrdPairs disj rs.

(* interval along the split axis *)
Definition lo (o : Z) (r : rect) : Z := if o =? 0 then ry r else rx r.
Definition hi (o : Z) (r : rect) : Z := if o =? 0 then ry r + rh r else rx r + rw r.
Definition slab (o a b : Z) (r : rect) : Prop := a <= lo o r /\ hi o r <= b.

Lemma slab_disj : forall o a b b' c r1 r2,
  slab o a b r1 -> slab o b' c r2 -> b <= b' -> disj r1 r2.
Proof. unfold slab, lo, hi, disj. intros o a b b' c r1 r2. destruct (o =? 0); lia. Qed.

Lemma FOP_app : forall (T : Type) (R : T -> T -> Prop) l1 l2,
  ForallOrdPairs R l1 -> ForallOrdPairs R l2 ->
  (forall a b, In a l1 -> In b l2 -> R a b) -> ForallOrdPairs R (l1 ++ l2).
Proof.
  intros T R l1 l2 H1 H2 H. induction H1 as [|a l Ha Hl IH]; cbn [app]; [exact H2|].
  constructor.
  - apply Forall_app. split; [exact Ha|]. apply Forall_forall. intros b Hb. apply H; [left; reflexivity|exact Hb].
  - apply IH. intros a' b Ha' Hb. apply H; [right; exact Ha'|exact Hb].
Qed.

(* a block of regions: inside the parent, pairwise disjoint, within the
   slab [a, b] along the split axis *)
Definition blk (o x y w h a b : Z) (rs : list rect) : Prop :=
  Forall (inside x y w h) rs /\ ForallOrdPairs disj rs /\ Forall (slab o a b) rs.

Lemma blk_nil : forall o x y w h a b, blk o x y w h a b [].
Proof. intros. repeat split; constructor. Qed.

Lemma blk_single : forall o x y w h a b r, inside x y w h r -> slab o a b r -> blk o x y w h a b [r].
Proof.
  intros o x y w h a b r Hi Hs. split; [|split].
  - constructor; [exact Hi|constructor].
  - constructor; constructor.
  - constructor; [exact Hs|constructor].
Qed.

Lemma blk_weaken : forall o x y w h a b a' b' rs,
  blk o x y w h a b rs -> a' <= a -> b <= b' -> blk o x y w h a' b' rs.
Proof.
  intros o x y w h a b a' b' rs (H1 & H2 & H3) Ha Hb. repeat split; try assumption.
  eapply Forall_impl; [|exact H3]. unfold slab. intros r [? ?]. lia.
Qed.

Lemma blk_app : forall o x y w h a b b' c l1 l2,
  blk o x y w h a b l1 -> blk o x y w h b' c l2 -> a <= b -> b <= b' -> b' <= c ->
  blk o x y w h a c (l1 ++ l2).
Proof.
  intros o x y w h a b b' c l1 l2 (I1 & D1 & S1) (I2 & D2 & S2) Hab Hbb Hbc. repeat split.
  - apply Forall_app. auto.
  - apply FOP_app; try assumption. intros r1 r2 H1 H2. rewrite Forall_forall in S1, S2.
    apply (slab_disj o a b b' c); auto.
  - apply Forall_app. split; (eapply Forall_impl; [|eassumption]); unfold slab; intros r [? ?]; lia.
Qed.

(* ------------------------------------------------------------------ *)
(* prefix sums of the sizes *)

Definition pre (sizes : list Z) (e : nat) : Z := zsum (firstn e sizes).
Definition nonneg (l : list Z) : Prop := Forall (fun s => 0 <= s) l.

Lemma nth_nonneg : forall l e, nonneg l -> 0 <= nth e l 0.
Proof.
  intros l e H. revert e. induction H as [|a r Ha Hr IH]; intros [|e]; cbn [nth]; try lia. apply IH.
Qed.

Lemma pre_S : forall sizes e, (e < length sizes)%nat -> pre sizes (S e) = pre sizes e + nth e sizes 0.
Proof.
  unfold pre. induction sizes as [|a r IH]; intros e He; cbn [length] in He; [lia|].
  destruct e as [|e].
  - cbn [firstn zsum nth]. destruct r; cbn [firstn zsum]; lia.
  - change (firstn (S (S e)) (a :: r)) with (a :: firstn (S e) r).
    change (firstn (S e) (a :: r)) with (a :: firstn e r).
    change (nth (S e) (a :: r) 0) with (nth e r 0).
    cbn [zsum]. rewrite IH by lia. lia.
Qed.

Lemma pre_all : forall sizes e, (length sizes <= e)%nat -> pre sizes e = zsum sizes.
Proof. intros sizes e H. unfold pre. rewrite firstn_all2 by exact H. reflexivity. Qed.

Lemma pre_0 : forall sizes, pre sizes 0 = 0.
Proof. reflexivity. Qed.

Lemma pre_step : forall sizes e, nonneg sizes -> pre sizes e <= pre sizes (S e).
Proof.
  intros sizes e Hn. destruct (Nat.lt_ge_cases e (length sizes)) as [H|H].
  - rewrite pre_S by exact H. pose proof (nth_nonneg sizes e Hn). lia.
  - rewrite !pre_all by lia. lia.
Qed.

Lemma pre_mono : forall sizes e e', nonneg sizes -> (e <= e')%nat -> pre sizes e <= pre sizes e'.
Proof.
  intros sizes e e' Hn He. induction He as [|m Hm IH]; [lia|].
  pose proof (pre_step sizes m Hn). lia.
Qed.

Lemma pre_le : forall sizes e, nonneg sizes -> pre sizes e <= zsum sizes.
Proof.
  intros sizes e Hn. rewrite <- (pre_all sizes (Nat.max e (length sizes))) by lia.
  apply pre_mono; [exact Hn|lia].
Qed.

Lemma pre_ge0 : forall sizes e, nonneg sizes -> 0 <= pre sizes e.
Proof. intros sizes e Hn. rewrite <- (pre_0 sizes). apply pre_mono; [exact Hn|lia]. Qed.

(* ------------------------------------------------------------------ *)
(* one entry of _all_children *)

Lemma entry_rect_facts : forall o kind x y w h sizes e,
  0 <= w -> 0 <= h -> nonneg sizes -> zsum sizes <= axis_avail o w h -> (e < length sizes)%nat ->
  let rc := entry_rect o kind x y w h sizes e in
  let a := axis_start o x y + pre sizes e in
  let b := axis_start o x y + pre sizes (S e) in
  inside x y w h rc /\ slab o a b rc /\ 0 <= rw rc /\ 0 <= rh rc /\
  (forall r, inside (rx rc) (ry rc) (rw rc) (rh rc) r -> inside x y w h r /\ slab o a b r).
Proof.
  intros o kind x y w h sizes e Hw Hh Hn Hs He rc a b. subst rc a b.
  pose proof (pre_S sizes e He) as HS. pose proof (nth_nonneg sizes e Hn) as Hnn.
  pose proof (pre_le sizes (S e) Hn) as Hle. pose proof (pre_ge0 sizes e Hn) as Hge.
  unfold entry_rect, piece, axis_start, axis_avail, slab, lo, hi, inside in *. fold (pre sizes e).
  destruct (o =? 0); cbn [rx ry rw rh]; repeat split; try lia; intros r Hr; cbn [rx ry rw rh] in Hr; lia.
Qed.

(* ------------------------------------------------------------------ *)
(* the children and the padding windows between them *)

Definition kid_ok (wr : tree -> Z -> Z -> Z -> Z -> list rect + Z) (k : tree) : Prop :=
  forall x y w h rs, 0 <= w -> 0 <= h -> wr k x y w h = inl rs -> good x y w h rs.

Lemma good_blk : forall o x y w h a b x' y' w' h' rs,
  good x' y' w' h' rs ->
  (forall r, inside x' y' w' h' r -> inside x y w h r /\ slab o a b r) ->
  blk o x y w h a b rs.
Proof.
  intros o x y w h a b x' y' w' h' rs (HI & HD) H. repeat split; try assumption.
  - eapply Forall_impl; [|exact HI]. intros r Hr. apply H, Hr.
  - eapply Forall_impl; [|exact HI]. intros r Hr. apply H, Hr.
Qed.

Lemma kid_entry_S : forall al idx, kid_entry al (S idx) = S (S (kid_entry al idx)).
Proof. intros. unfold kid_entry. lia. Qed.

Lemma write_kids_blk : forall wr o al x y w h sizes,
  0 <= w -> 0 <= h -> nonneg sizes -> zsum sizes <= axis_avail o w h ->
  forall ks idx rs, Forall (kid_ok wr) ks ->
  write_kids wr o al x y w h sizes ks idx = inl rs ->
  blk o x y w h (axis_start o x y + pre sizes (kid_entry al idx))
                (axis_start o x y + pre sizes (kid_entry al idx + 2 * length ks - 1)) rs.
Proof.
  intros wr o al x y w h sizes Hw Hh Hn Hs ks.
  induction ks as [|k r IH]; intros idx rs Hk Hg; cbn [write_kids] in Hg.
  - injection Hg as <-. apply blk_nil.
  - inversion Hk as [|k' r' Hk1 Hk2]; subst k' r'.
    set (e := kid_entry al idx) in *.
    destruct (Nat.ltb e (length sizes)) eqn:El; [|injection Hg as <-; apply blk_nil].
    apply Nat.ltb_lt in El.
    destruct (entry_rect_facts o 0 x y w h sizes e Hw Hh Hn Hs El) as (_ & _ & Hrw & Hrh & Hsub).
    destruct (wr k _ _ _ _) as [rk_|c] eqn:Ewr; [|discriminate].
    pose proof (Hk1 _ _ _ _ _ Hrw Hrh Ewr) as Gk.
    pose proof (good_blk o x y w h _ _ _ _ _ _ rk_ Gk Hsub) as Bk.
    cbn [length].
    assert (M1 : pre sizes e <= pre sizes (S e)) by (apply pre_step; exact Hn).
    destruct r as [|k2 r2].
    + (* last child *)
      cbn [write_kids] in Hg. injection Hg as <-. cbn [app length]. rewrite app_nil_r.
      replace (e + 2 * 1 - 1)%nat with (S e) by lia. exact Bk.
    + destruct (write_kids wr o al x y w h sizes (k2 :: r2) (S idx)) as [rr|c] eqn:Er; [|discriminate].
      injection Hg as <-. cbn [length].
      pose proof (IH (S idx) rr Hk2 Er) as Br. rewrite kid_entry_S in Br. fold e in Br.
      cbn [length] in Br.
      replace (S (S e) + 2 * S (length r2) - 1)%nat with (e + 2 * S (S (length r2)) - 1)%nat in Br by lia.
      set (top := (e + 2 * S (S (length r2)) - 1)%nat) in *.
      assert (M2 : pre sizes (S e) <= pre sizes (S (S e))) by (apply pre_step; exact Hn).
      assert (M3 : pre sizes (S (S e)) <= pre sizes top) by (apply pre_mono; [exact Hn|unfold top; lia]).
      apply (blk_app o x y w h _ (axis_start o x y + pre sizes (S e)) (axis_start o x y + pre sizes (S e)));
        [exact Bk| |lia|lia|lia].
      apply (blk_app o x y w h _ (axis_start o x y + pre sizes (S (S e))) (axis_start o x y + pre sizes (S (S e))));
        [|exact Br|lia|lia|lia].
      destruct (Nat.ltb (S e) (length sizes)) eqn:El2; [|apply blk_nil].
      apply Nat.ltb_lt in El2.
      destruct (entry_rect_facts o (-1) x y w h sizes (S e) Hw Hh Hn Hs El2) as (Hin & Hsl & _).
      apply blk_single; assumption.
Qed.

(* ------------------------------------------------------------------ *)
(* everything one split draws *)

Lemma place_good : forall wr o al x y w h sizes kids rs,
  0 <= w -> 0 <= h -> nonneg sizes -> zsum sizes <= axis_avail o w h ->
  Forall (kid_ok wr) kids ->
  place wr o al x y w h sizes kids = inl rs -> good x y w h rs.
Proof.
  intros wr o al x y w h sizes kids rs Hw Hh Hn Hs Hk Hp. unfold place in Hp.
  destruct (write_kids wr o al x y w h sizes kids 0) as [mid|c] eqn:Em; [|discriminate].
  injection Hp as <-.
  pose proof (write_kids_blk wr o al x y w h sizes Hw Hh Hn Hs kids O mid Hk Em) as Bm.
  set (S0 := axis_start o x y) in *.
  set (nk := length kids) in *.
  set (e_t := (lead al + 2 * nk - 1)%nat) in *.
  set (nall := ((match kids with [] => 0 | _ => lead al + 2 * nk - 1 end + (if trail al then 1 else 0)))%nat) in *.
  assert (Hk0 : kid_entry al 0 = lead al) by (unfold kid_entry; lia). rewrite Hk0 in Bm.
  (* the remaining-space window *)
  assert (Brem : blk o x y w h (S0 + pre sizes nall) (S0 + axis_avail o w h)
                     (if S0 + axis_avail o w h - (S0 + zsum (firstn nall sizes)) >? 0
                      then [piece o (-3) x y w h (S0 + zsum (firstn nall sizes))
                                  (S0 + axis_avail o w h - (S0 + zsum (firstn nall sizes)))] else [])).
  { fold (pre sizes nall). destruct (_ >? 0) eqn:Er; [|apply blk_nil]. apply Z.gtb_lt in Er.
    pose proof (pre_ge0 sizes nall Hn). pose proof (pre_le sizes nall Hn).
    apply blk_single; subst S0; unfold piece, axis_start, axis_avail, slab, lo, hi, inside in *;
      destruct (o =? 0); cbn [rx ry rw rh]; lia. }
  assert (Hfin : S0 + pre sizes nall <= S0 + axis_avail o w h) by (pose proof (pre_le sizes nall Hn); lia).
  destruct kids as [|k0 kr] eqn:Ek.
  - (* no children: only the remaining space *)
    cbn [write_kids] in Em. injection Em as <-. cbn [app].
    destruct Brem as (B1 & B2 & _). split; assumption.
  - assert (Hnk : (1 <= nk)%nat) by (unfold nk; cbn [length]; lia).
    assert (Hnall : nall = (e_t + (if trail al then 1 else 0))%nat) by reflexivity.
    (* leading alignment window *)
    assert (Blead : blk o x y w h (S0 + pre sizes 0) (S0 + pre sizes (lead al))
                        (if Nat.eqb (lead al) 1 && Nat.ltb 0 (length sizes)
                         then [entry_rect o (-2) x y w h sizes 0] else [])).
    { destruct (Nat.eqb (lead al) 1 && Nat.ltb 0 (length sizes)) eqn:E; [|apply blk_nil].
      apply andb_true_iff in E. destruct E as [E1 E2]. apply Nat.eqb_eq in E1. apply Nat.ltb_lt in E2.
      destruct (entry_rect_facts o (-2) x y w h sizes 0 Hw Hh Hn Hs E2) as (Hin & Hsl & _).
      rewrite E1. apply blk_single; assumption. }
    (* trailing alignment window *)
    assert (Btrail : blk o x y w h (S0 + pre sizes e_t) (S0 + pre sizes nall)
                         (if trail al && Nat.ltb e_t (length sizes)
                          then [entry_rect o (-2) x y w h sizes e_t] else [])).
    { destruct (trail al && Nat.ltb e_t (length sizes)) eqn:E; [|apply blk_nil].
      apply andb_true_iff in E. destruct E as [E1 E2]. apply Nat.ltb_lt in E2.
      destruct (entry_rect_facts o (-2) x y w h sizes e_t Hw Hh Hn Hs E2) as (Hin & Hsl & _).
      rewrite Hnall, E1. replace (e_t + 1)%nat with (S e_t) by lia. apply blk_single; assumption. }
    replace (lead al + 2 * nk - 1)%nat with e_t in Bm by reflexivity.
    assert (P1 : pre sizes 0 <= pre sizes (lead al)) by (apply pre_mono; [exact Hn|lia]).
    assert (P2 : pre sizes (lead al) <= pre sizes e_t) by (apply pre_mono; [exact Hn|unfold e_t; lia]).
    assert (P3 : pre sizes e_t <= pre sizes nall) by (apply pre_mono; [exact Hn|rewrite Hnall; lia]).
    assert (B : blk o x y w h (S0 + pre sizes 0) (S0 + axis_avail o w h)
                    ((if Nat.eqb (lead al) 1 && Nat.ltb 0 (length sizes) then [entry_rect o (-2) x y w h sizes 0] else [])
                     ++ mid
                     ++ (if trail al && Nat.ltb e_t (length sizes) then [entry_rect o (-2) x y w h sizes e_t] else [])
                     ++ (if S0 + axis_avail o w h - (S0 + zsum (firstn nall sizes)) >? 0
                         then [piece o (-3) x y w h (S0 + zsum (firstn nall sizes))
                                     (S0 + axis_avail o w h - (S0 + zsum (firstn nall sizes)))] else []))).
    { apply (blk_app o x y w h _ (S0 + pre sizes (lead al)) (S0 + pre sizes (lead al))); [exact Blead| |lia|lia|lia].
      apply (blk_app o x y w h _ (S0 + pre sizes e_t) (S0 + pre sizes e_t)); [exact Bm| |lia|lia|lia].
      apply (blk_app o x y w h _ (S0 + pre sizes nall) (S0 + pre sizes nall)); [exact Btrail|exact Brem|lia|lia|lia]. }
    destruct B as (B1 & B2 & _). split; [exact B1|exact B2].
Qed.

(* ------------------------------------------------------------------ *)
(* the whole tree *)

Lemma collect_rep_valid : forall l ds, Forall rep_good l -> collect_rep l = inl ds -> Forall valid ds.
Proof.
  intros l ds H E. destruct (collect_rep_good l H) as [E'|(ds' & E' & Hv & _)]; rewrite E' in E; [discriminate|].
  injection E as <-. exact Hv.
Qed.

Theorem write_good : forall fuel done t, wf t ->
  forall x y w h rs, 0 <= w -> 0 <= h -> write fuel done t x y w h = inl rs -> good x y w h rs.
Proof.
  intros fuel done. induction t as [id wd hd|o al pad kids IH|id wd len|ow oh t IH] using tree_ind'; intros Hwf x y w h rs Hw Hh Hr;
    [| |cbn [write] in Hr; injection Hr as <-; split; [constructor; [|constructor]; unfold inside; cbn [rx ry rw rh]; lia|repeat constructor]
     |cbn [wf] in Hwf; cbn [write] in Hr; apply (IH (proj2 (proj2 Hwf)) x y w h rs Hw Hh Hr)].
  - cbn [write] in Hr. injection Hr as <-. split.
    + constructor; [|constructor]. unfold inside; cbn [rx ry rw rh]. lia.
    + repeat constructor.
  - apply wf_node in Hwf. destruct Hwf as [Hp Hk].
    assert (Hkids : Forall (kid_ok (write fuel done)) kids).
    { rewrite Forall_forall in *. intros k Hin x' y' w' h' rs' Hw' Hh' E. apply (IH k Hin (Hk k Hin) x' y' w' h' rs' Hw' Hh' E). }
    assert (Hph : forall wd, Forall rep_good (map (fun k => ph fuel k wd) kids)).
    { intro wd. apply Forall_forall. intros r Hin. apply in_map_iff in Hin. destruct Hin as (k & <- & Hin).
      rewrite Forall_forall in Hk. apply ph_good; auto. }
    assert (Hpw : Forall rep_good (map pw kids)).
    { apply Forall_forall. intros r Hin. apply in_map_iff in Hin. destruct Hin as (k & <- & Hin).
      rewrite Forall_forall in Hk. right. apply pw_valid; auto. }
    cbn [write] in Hr. destruct (o =? 0) eqn:Eo.
    + destruct kids as [|k0 kr] eqn:Ek.
      * apply (place_good (write fuel done) o al x y w h [] [] rs Hw Hh); try assumption; [constructor|].
        cbn [zsum]. unfold axis_avail. rewrite Eo. exact Hh.
      * rewrite <- Ek in *.
        destruct (collect_rep (map (fun k => ph fuel k w) kids)) as [hds|e] eqn:Ec; [|discriminate].
        pose proof (collect_rep_valid _ _ (Hph w) Ec) as Hv.
        pose proof (all_children_valid al pad hds Hp Hv) as Hav.
        destruct (divide fuel done (all_children al pad hds) h) as [sizes| | | |] eqn:Ed; try discriminate.
        -- destruct (divide_safe _ _ _ _ _ Hav Ed) as (_ & Hnn & Hsum & _).
           apply (place_good (write fuel done) o al x y w h sizes kids rs Hw Hh); try assumption.
           unfold axis_avail. rewrite Eo. lia.
        -- injection Hr as <-. split.
           ++ constructor; [|constructor]. unfold inside; cbn [rx ry rw rh]. lia.
           ++ repeat constructor.
    + destruct kids as [|k0 kr] eqn:Ek.
      * injection Hr as <-. split; constructor.
      * rewrite <- Ek in *.
        destruct (collect_rep (map pw kids)) as [wds|e] eqn:Ec; [|discriminate].
        pose proof (collect_rep_valid _ _ Hpw Ec) as Hv.
        pose proof (all_children_valid al pad wds Hp Hv) as Hav.
        destruct (divide fuel false (all_children al pad wds) w) as [sizes| | | |] eqn:Ed; try discriminate.
        -- destruct (collect_rep (ph_kids (ph fuel) al sizes kids 0)) as [hds|e]; [|discriminate].
           destruct (divide_safe _ _ _ _ _ Hav Ed) as (_ & Hnn & Hsum & _).
           apply (place_good (write fuel done) o al x y w h sizes kids rs Hw Hh); try assumption.
           unfold axis_avail. rewrite Eo. lia.
        -- injection Hr as <-. split.
           ++ constructor; [|constructor]. unfold inside; cbn [rx ry rw rh]. lia.
           ++ repeat constructor.
Qed.
