(* The browsing laws for EITHER kind of History object (InMemoryHistory /
   FileHistory, or ThreadedHistory whose entries arrive from the loader thread
   while the session runs): no `thr (th s) = false` hypothesis.  A step is
   operation ; consume ; flush.  For a ThreadedHistory the consumer may prepend
   entries and shift the working index by as many at the end of any operation,
   so the statements speak about "the lines that were there" (a suffix of the
   working lines) and about an index that moves with them. *)
From Coq Require Import ZArith List Bool Lia.
From PTK Require Import Lib.Sx Lib.Py Model.Document Model.BufferEdit Lib.C14_Handlers Gen.C14_Handlers Model.C14_HistoryNav
  Proofs.C14_Facts Proofs.C14_Nav Proofs.C14_Accept Proofs.C14_Mixed Proofs.C14_Threaded.
Import ListNotations.
Open Scope Z_scope.

(* ---------------------------------------------------------------------- *)
(* what happens after the operation proper *)
Definition post (c : cfg) (s : hs) : hs := flush c (consume s).

Lemma step_state_post c s o : step_state c s o = post c (snd (fst (step_core c s o))).
Proof. apply step_state_full. Qed.

Lemma index_app_shift {T} (new l : list T) i :
  0 <= i < len l -> index (new ++ l) (i + len new) = index l i.
Proof.
  intros H. induction new as [|x new IH]; cbn [app].
  - rewrite len_nil. replace (i + 0) with i by lia. reflexivity.
  - rewrite len_cons. replace (i + (1 + len new)) with ((i + len new) + 1) by lia.
    rewrite index_cons_shift; [exact IH|].
    rewrite len_app. pose proof (len_nonneg new). lia.
Qed.

(* entries that arrive come from the loaded strings of the History object *)
Definition from_loaded (s : hs) (new : list str) : Prop := Forall (fun x => In x (ls (store s))) new.

Lemma consume_spec s :
  store (consume s) = store s /\ th (consume s) = th s /\ ehs (consume s) = ehs s /\
  hst (consume s) = hst s /\ cur (consume s) = cur s /\ vst (consume s) = vst s /\
  pend (consume s) = pend s /\
  exists new, wl (consume s) = new ++ wl s /\ wi (consume s) = wi s + len new /\ from_loaded s new /\
    (thr (th s) = false -> new = [] /\ task (consume s) = task s /\ tfin (consume s) = tfin s).
Proof.
  assert (Triv : forall x : hs, x = s ->
    store x = store s /\ th x = th s /\ ehs x = ehs s /\ hst x = hst s /\ cur x = cur s /\ vst x = vst s /\
    pend x = pend s /\
    exists new, wl x = new ++ wl s /\ wi x = wi s + len new /\ from_loaded s new /\
      (thr (th s) = false -> new = [] /\ task x = task s /\ tfin x = tfin s)).
  { intros x ->. repeat split; auto. exists []. repeat split; auto; [rewrite len_nil; lia | constructor]. }
  unfold consume. destruct (thr (th s)) eqn:Et; [|apply Triv; reflexivity].
  destruct (task s) as [y|]; [|apply Triv; reflexivity].
  destruct (tfin s); [apply Triv; reflexivity|].
  set (items := skipn _ _). proj. repeat split; auto.
  exists (rev items). rewrite len_rev. repeat split; auto; try discriminate.
  unfold from_loaded. apply Forall_forall. intros x Hx. apply in_rev in Hx.
  unfold items in Hx. revert Hx. generalize (Z.to_nat (nprep (th s) - tprep (th s) + y)).
  intros n. revert n. induction (ls (store s)) as [|a l IH]; intros [|n] Hx; cbn [skipn] in Hx; auto.
  - right. apply (IH n). exact Hx.
Qed.

Lemma post_spec c s :
  store (post c s) = store s /\ th (post c s) = th s /\ ehs (post c s) = ehs s /\
  hst (post c s) = hst s /\ cur (post c s) = cur s /\
  exists new, wl (post c s) = new ++ wl s /\ wi (post c s) = wi s + len new /\ from_loaded s new /\
    (thr (th s) = false -> new = [] /\ task (post c s) = task s /\ tfin (post c s) = tfin s).
Proof.
  unfold post.
  destruct (consume_spec s) as (A & B & C & D & E & _ & _ & new & W & I & F & G).
  destruct (flush_frame c (consume s)) as (Fw & Fs & Ft & Ff & Fe & Fh).
  rewrite Fs, Fh, Fe, flush_hst, flush_cur, Fw, flush_wi, Ft, Ff.
  repeat split; auto. exists new. auto.
Qed.

Lemma post_text c s : Inv s -> text (post c s) = text s.
Proof.
  intros HI. unfold post. rewrite flush_text.
  destruct (consume_displayed s HI) as (A & _). exact A.
Qed.

Lemma post_inv c s : Inv s -> Inv (post c s).
Proof. intros HI. apply flush_inv, consume_inv, HI. Qed.

(* ---------------------------------------------------------------------- *)
(* Navigation: History object, its kind and state, the search switch are
   untouched; the working lines only grow at the front, by loaded strings. *)
Definition frameA (s s' : hs) : Prop :=
  store s' = store s /\ ehs s' = ehs s /\ th s' = th s /\
  exists new, wl s' = new ++ wl s /\ from_loaded s new /\
    (thr (th s) = false -> new = [] /\ task s' = task s /\ tfin s' = tfin s).

Lemma frameA_refl s : frameA s s.
Proof. unfold frameA. repeat split; auto. exists []. repeat split; auto. constructor. Qed.

Lemma frameA_trans a b c : frameA a b -> frameA b c -> frameA a c.
Proof.
  intros (S1 & E1 & T1 & n1 & W1 & L1 & B1) (S2 & E2 & T2 & n2 & W2 & L2 & B2).
  unfold frameA. repeat split; try congruence.
  exists (n2 ++ n1). split; [rewrite W2, W1, app_assoc; reflexivity|]. split.
  - unfold from_loaded in *. apply Forall_app. split; [rewrite <- S1; exact L2 | exact L1].
  - intros Ht. destruct (B1 Ht) as (-> & X1 & Y1).
    assert (Ht' : thr (th b) = false) by (rewrite T1; exact Ht).
    destruct (B2 Ht') as (-> & X2 & Y2). repeat split; congruence.
Qed.

Lemma frame_frameA s s' : frame s s' -> frameA s s'.
Proof.
  intros (W & S & T & F & E & H). unfold frameA. repeat split; auto.
  exists []. repeat split; auto. constructor.
Qed.

Lemma post_frameA c s : frameA s (post c s).
Proof.
  destruct (post_spec c s) as (A & B & C & _ & _ & new & W & _ & F & G).
  unfold frameA. repeat split; auto. exists new. auto.
Qed.

Lemma nav_step_any c s o : is_nav o -> frameA s (step_state c s o).
Proof.
  intros H. rewrite step_state_post.
  eapply frameA_trans; [apply frame_frameA, nav_core_frame, H | apply post_frameA].
Qed.

Theorem nav_steps_any c ops : forall s,
  Forall is_nav ops -> frameA s (steps c s ops).
Proof.
  induction ops as [|o r IH]; intros s H; cbn [steps fold_left]; [apply frameA_refl|].
  inversion H; subst.
  eapply frameA_trans; [apply nav_step_any; eassumption | apply IH; assumption].
Qed.

(* ---------------------------------------------------------------------- *)
(* An edit: only the displayed entry changes *)
Lemma edit_core_spec c s o :
  Inv s -> is_edit o -> only_current_changed s (snd (fst (step_core c s o))).
Proof.
  intros HI H. destruct o; cbn [is_edit] in H; try contradiction; cbn [step_core]; apply of_res_spec; exact HI.
Qed.

Lemma edit_core_th c s o : is_edit o -> th (snd (fst (step_core c s o))) = th s.
Proof.
  intros H. destruct o; cbn [is_edit] in H; try contradiction; cbn [step_core].
  - destruct (insert_text _ _ _ _); cbn [of_res ok fst snd]; [apply write_back_th | reflexivity].
  - destruct (delete_before_cursor _ _); cbn [of_res ok fst snd]; [apply write_back_th | reflexivity].
  - destruct (delete _ _); cbn [of_res ok fst snd]; [apply write_back_th | reflexivity].
  - cbn [of_res ok fst snd]. apply write_back_th.
Qed.

Lemma edit_step_any c s o :
  Inv s -> is_edit o ->
  let s' := step_state c s o in
  store s' = store s /\ th s' = th s /\
  exists new, from_loaded s new /\
    wi s' = wi s + len new /\ length (wl s') = (length new + length (wl s))%nat /\
    (forall j, j <> Z.to_nat (wi s) -> nth_error (wl s') (length new + j) = nth_error (wl s) j) /\
    (thr (th s) = false -> new = [] /\ task s' = task s /\ tfin s' = tfin s).
Proof.
  intros HI Ho s'. unfold s'. rewrite step_state_post.
  destruct (edit_core_spec c s o HI Ho) as (S1 & T1 & F1 & W1 & L1 & O1).
  pose proof (edit_core_th c s o Ho) as H1.
  set (s1 := snd (fst (step_core c s o))) in *.
  destruct (post_spec c s1) as (A & B & _ & _ & _ & new & W & I & F & G).
  split; [congruence|]. split; [congruence|].
  exists new. split; [unfold from_loaded in *; rewrite <- S1; exact F|].
  split; [lia|]. split; [rewrite W, app_length; lia|]. split.
  - intros j Hj. rewrite W, nth_error_app2 by lia.
    replace (length new + j - length new)%nat with j by lia. apply O1, Hj.
  - intros Ht. assert (Ht1 : thr (th s1) = false) by (rewrite H1; exact Ht).
    destruct (G Ht1) as (-> & X & Y). repeat split; congruence.
Qed.

(* ---------------------------------------------------------------------- *)
(* Arbitrary interleavings of navigation, edits, population steps, load()
   and steps of the loader thread *)
Definition browse_opT (o : op) : Prop := browse_op o \/ o = OThread.

Lemma rnth_app new l r : (r < length l)%nat -> rnth (new ++ l) r = rnth l r.
Proof. intros H. unfold rnth. rewrite rev_app_distr. apply nth_error_app1. rewrite rev_length. exact H. Qed.

Lemma browse_core_any c s o :
  Inv s -> browse_opT o ->
  let s1 := snd (fst (step_core c s o)) in
  (length (wl s) <= length (wl s1))%nat /\ sto (store s1) = sto (store s) /\
  forall r, (r < length (wl s))%nat -> (edit_b o = true -> r <> rpos s) ->
            rnth (wl s1) r = rnth (wl s) r.
Proof.
  intros HI [[Ho|[Ho|[Ho|Ho]]]|Ho] s1.
  - destruct (nav_core_frame c s o Ho) as (A & B & _). fold s1 in A, B.
    rewrite A, B. repeat split; auto.
  - destruct (edit_core_spec c s o HI Ho) as (A & _ & _ & W & Len & Oth). fold s1 in A, W, Len, Oth.
    rewrite A. repeat split; [lia|].
    intros r Hr Hne. specialize (Hne (proj1 (is_edit_b o) Ho)).
    unfold rnth. rewrite !nth_error_rev' by lia. rewrite Len. apply Oth.
    unfold rpos, Inv, len in *. lia.
  - assert (P : exists n, s1 = pop_n n s).
    { unfold s1. destruct o; cbn [is_pop] in Ho; try contradiction; cbn [step_core ok fst snd];
        [exists 1%nat; reflexivity | eexists; reflexivity]. }
    destruct P as (n & ->). destruct (pop_n_shift n s) as (_ & new & E).
    rewrite E, pop_n_sto. repeat split; [rewrite app_length; lia|].
    intros r Hr _. apply rnth_app, Hr.
  - subst o. unfold s1. cbn [step_core ok fst snd].
    unfold load_start. destruct (task s); [repeat split; auto|].
    destruct (thr (th s)); [destruct (tstarted (th s))|]; proj; repeat split; auto.
  - subst o. unfold s1. cbn [step_core ok fst snd].
    unfold thread_step. destruct (thr (th s) && tstarted (th s)); [|repeat split; auto].
    destruct (tsrc (th s)); proj; repeat split; auto.
Qed.

Lemma browse_step_any c s o :
  Inv s -> browse_opT o ->
  let s' := step_state c s o in
  (length (wl s) <= length (wl s'))%nat /\ sto (store s') = sto (store s) /\
  forall r, (r < length (wl s))%nat -> (edit_b o = true -> r <> rpos s) ->
            rnth (wl s') r = rnth (wl s) r.
Proof.
  intros HI Ho s'. unfold s'. rewrite step_state_post.
  destruct (browse_core_any c s o HI Ho) as (L1 & S1 & K1).
  set (s1 := snd (fst (step_core c s o))) in *.
  destruct (post_spec c s1) as (A & _ & _ & _ & _ & new & W & _).
  rewrite A, W. repeat split; [rewrite app_length; lia | exact S1|].
  intros r Hr Hne. rewrite rnth_app by lia. apply K1; assumption.
Qed.

Theorem browse_steps_any c ops : forall s,
  Inv s -> Forall browse_opT ops ->
  (length (wl s) <= length (wl (steps c s ops)))%nat /\
  sto (store (steps c s ops)) = sto (store s) /\
  forall r, (r < length (wl s))%nat -> ~ In r (touched c s ops) ->
            rnth (wl (steps c s ops)) r = rnth (wl s) r.
Proof.
  induction ops as [|o rest IH]; intros s HI Hb; cbn [steps fold_left touched].
  - repeat split; auto.
  - inversion Hb; subst.
    destruct (browse_step_any c s o HI H1) as (L1 & S1 & K1).
    destruct (IH (step_state c s o) (step_inv c s o HI) H2) as (L2 & S2 & K2).
    fold (steps c (step_state c s o) rest) in *.
    repeat split; [lia | congruence|].
    intros r Hr Hnot. rewrite in_app_iff in Hnot.
    rewrite K2; [|lia|tauto].
    apply K1; [exact Hr|]. intros He Heq. apply Hnot. left. rewrite He. left. auto.
Qed.

(* ---------------------------------------------------------------------- *)
(* Back k / forward k without prefix search, either kind: entries may arrive
   after each of the two operations; the index moves with them and the same
   entry with the same text is displayed at the end. *)
Lemma inv_frame_len s s' : frame s s' -> len (wl s') = len (wl s).
Proof. intros (A & _). rewrite A. reflexivity. Qed.

Lemma back_forth_any c s k :
  Inv s -> ehs s = false -> 0 <= k <= wi s ->
  let s1 := step_state c s (OBack k) in
  let s2 := step_state c s1 (OFwd k) in
  exists new1 new2,
    wl s1 = new1 ++ wl s /\ wi s1 = wi s - k + len new1 /\
    wl s2 = new2 ++ new1 ++ wl s /\ wi s2 = wi s + len new1 + len new2 /\
    text s2 = text s /\ sto (store s2) = sto (store s) /\
    (thr (th s) = false -> new1 = [] /\ new2 = []).
Proof.
  intros HI He Hk s1 s2.
  (* back *)
  set (s1c := history_backward c s k).
  assert (F1 : frame s s1c) by apply history_backward_frame.
  assert (W1c : wi s1c = wi s - k) by (apply history_backward_nofilter; assumption).
  assert (E1 : s1 = post c s1c) by (unfold s1; rewrite step_state_post; reflexivity).
  destruct (post_spec c s1c) as (A1 & B1 & C1 & _ & _ & new1 & P1 & Q1 & _ & G1).
  rewrite <- E1 in A1, B1, C1, P1, Q1, G1.
  destruct F1 as (L1 & St1 & _ & _ & Eh1 & Th1).
  assert (HI1 : Inv s1) by (unfold s1; apply step_inv, HI).
  assert (He1 : ehs s1 = false) by congruence.
  (* forward *)
  set (s2c := history_forward c s1 k).
  assert (F2 : frame s1 s2c) by apply history_forward_frame.
  assert (W2c : wi s2c = wi s1 + k).
  { apply history_forward_nofilter; [exact He1 | unfold Inv in HI1; lia | lia |].
    rewrite P1, L1, len_app, Q1, W1c. unfold Inv in HI. lia. }
  assert (E2 : s2 = post c s2c) by (unfold s2; rewrite step_state_post; reflexivity).
  destruct (post_spec c s2c) as (A2 & B2 & _ & _ & _ & new2 & P2 & Q2 & _ & G2).
  rewrite <- E2 in A2, B2, P2, Q2, G2.
  destruct F2 as (L2 & St2 & _ & _ & _ & Th2).
  exists new1, new2.
  assert (WL2 : wl s2 = new2 ++ new1 ++ wl s) by (rewrite P2, L2, P1, L1; reflexivity).
  assert (WI2 : wi s2 = wi s + len new1 + len new2) by lia.
  split; [rewrite P1, L1; reflexivity|]. split; [lia|]. split; [exact WL2|]. split; [exact WI2|].
  split.
  { unfold text. rewrite WL2, WI2, app_assoc.
    replace (wi s + len new1 + len new2) with (wi s + len (new2 ++ new1)) by (rewrite len_app; lia).
    rewrite index_app_shift by exact HI. reflexivity. }
  split; [congruence|].
  intros Ht. assert (T1 : thr (th s1c) = false) by (rewrite Th1; exact Ht).
  destruct (G1 T1) as (N1 & _). split; [exact N1|].
  assert (T2 : thr (th s2c) = false) by (rewrite Th2, B1, Th1; exact Ht).
  destruct (G2 T2) as (N2 & _). exact N2.
Qed.

(* ---------------------------------------------------------------------- *)
(* Prefix search, either kind *)
Lemma hist_core_prefix c s o :
  ehs s = true -> is_hist_step o -> reached_ok s (snd (fst (step_core c s o))).
Proof.
  intros He Ho.
  destruct o; cbn [is_hist_step] in Ho; try contradiction; cbn [step_core ok fst snd].
  - apply history_backward_prefix; exact He.
  - apply history_forward_prefix; exact He.
  - apply auto_up_prefix; exact He.
  - apply auto_down_prefix; exact He.
Qed.

Lemma is_hist_step_nav o : is_hist_step o -> is_nav o.
Proof. destruct o; cbn; auto. Qed.

(* every entry reached by an up/down step starts with the prefix; "not moved"
   = the index moved exactly with the entries that arrived *)
Lemma hist_step_prefix_any c s o :
  Inv s -> ehs s = true -> is_hist_step o ->
  let s' := step_state c s o in
  wi s' - wi s = len (wl s') - len (wl s) \/
  startswith (text s') (search_prefix s) = true.
Proof.
  intros HI He Ho s'. unfold s'. rewrite step_state_post.
  pose proof (hist_core_prefix c s o He Ho) as R.
  pose proof (nav_core_frame c s o (is_hist_step_nav o Ho)) as F.
  pose proof (core_inv c s o HI) as HI1.
  set (s1 := snd (fst (step_core c s o))) in *.
  destruct (post_spec c s1) as (_ & _ & _ & _ & _ & new & P & Q & _).
  destruct R as [R|R].
  - left. destruct F as (L & _). rewrite P, len_app, L, Q, R. lia.
  - right. rewrite post_text by exact HI1. exact R.
Qed.

Lemma nav_core_hst c s o p :
  is_nav o -> ehs s = true -> hst s = Some p -> hst (snd (fst (step_core c s o))) = Some p.
Proof.
  intros Ho He Hh.
  destruct o; cbn [is_nav] in Ho; try contradiction; cbn [step_core ok fst snd].
  - apply history_backward_hst; assumption.
  - apply history_forward_hst; assumption.
  - rewrite go_to_history_hst; exact Hh.
  - unfold auto_up, cursor_up. destruct (0 <? _).
    + unfold set_pref; proj. rewrite set_cursor_hst. exact Hh.
    + destruct (sel s); [exact Hh|]. destruct gts; [unfold go_start_of_line; rewrite set_cursor_hst|];
        apply history_backward_hst; assumption.
  - unfold auto_down, cursor_down. destruct (_ <? _).
    + unfold set_pref; proj. rewrite set_cursor_hst. exact Hh.
    + destruct (sel s); [exact Hh|]. destruct gts; [unfold go_start_of_line; rewrite set_cursor_hst|];
        apply history_forward_hst; assumption.
  - unfold end_of_history. rewrite go_to_history_hst. apply history_forward_hst; assumption.
  - rewrite set_cursor_hst; exact Hh.
  - rewrite set_cursor_hst; exact Hh.
  - rewrite set_cursor_hst; exact Hh.
  - rewrite validate_hst; exact Hh.
  - unfold jump. destruct (_ && _); [|exact Hh]. rewrite set_cursor_hst, set_wi_hst. exact Hh.
  - exact Hh.
Qed.

Lemma nav_hst_stable_any c s o p :
  is_nav o -> ehs s = true -> hst s = Some p -> hst (step_state c s o) = Some p.
Proof.
  intros Ho He Hh. rewrite step_state_post.
  destruct (post_spec c (snd (fst (step_core c s o)))) as (_ & _ & _ & H & _).
  rewrite H. apply nav_core_hst; assumption.
Qed.

(* ... and over a whole navigation sequence *)
Lemma nav_steps_hst_any c ops : forall s p,
  Forall is_nav ops -> ehs s = true -> hst s = Some p -> hst (steps c s ops) = Some p.
Proof.
  induction ops as [|o r IH]; intros s p H He Hh; cbn [steps fold_left]; [exact Hh|].
  inversion H; subst. apply IH; [assumption | | apply nav_hst_stable_any; assumption].
  destruct (nav_step_any c s o H2) as (_ & E & _). rewrite E. exact He.
Qed.

(* ---------------------------------------------------------------------- *)
(* The next prompt starts from a clean entry list - ThreadedHistory.
   After reset + load(): the Buffer's consumer has taken the first [y] loaded
   strings; the working lines are those (oldest first) and the new line. *)
Definition PT (t : str) (s : hs) : Prop :=
  CohT s /\ tstarted (th s) = true /\ nprep (th s) = tprep (th s) /\
  exists y : nat, task s = Some (Z.of_nat y) /\ (y <= length (ls (store s)))%nat /\
    wl s = rev (firstn y (ls (store s))) ++ [t] /\
    (tfin s = true -> loaded (store s) = true /\ y = length (ls (store s))).

Lemma PT_same t s s' :
  store s' = store s -> th s' = th s -> task s' = task s -> tfin s' = tfin s -> wl s' = wl s ->
  PT t s -> PT t s'.
Proof.
  intros S T K F W (C & A & B & y & H1 & H2 & H3 & H4).
  split; [apply (cohT_same s); assumption|]. rewrite T, S, K, F, W. repeat split; auto.
  exists y. auto.
Qed.

Lemma PT_frame t s s' : frame s s' -> PT t s -> PT t s'.
Proof. intros (W & S & K & F & _ & T). apply PT_same; assumption. Qed.

Lemma PT_start s t cp : CohT s -> PT t (load_start (reset s t cp false)).
Proof.
  intros Hc. pose proof Hc as (Ht & H).
  assert (Hc' : CohT (load_start (reset s t cp false))).
  { apply cohT_load_start. apply (cohT_same s); [reflexivity | reflexivity | exact Hc]. }
  split; [exact Hc'|]. clear Hc'.
  unfold load_start, reset; proj. rewrite Ht.
  destruct (tstarted (th s)); proj; (repeat split; auto); exists 0%nat; proj;
    repeat split; auto; try lia; try discriminate.
Qed.

Lemma firstn_app_le {T} (a b : list T) n : (n <= length a)%nat -> firstn n (a ++ b) = firstn n a.
Proof. intros H. rewrite firstn_app. replace (n - length a)%nat with 0%nat by lia. cbn. apply app_nil_r. Qed.

Lemma PT_thread_step t s : PT t s -> PT t (thread_step s).
Proof.
  intros P. pose proof P as (C & A & B & y & H1 & H2 & H3 & H4).
  split; [apply cohT_thread_step, C|].
  assert (Fin : tfin s = true -> tsrc (th s) = []).
  { intros Hf. destruct (H4 Hf) as (Hl & _). destruct C as (_ & Cc). rewrite A in Cc.
    destruct Cc as (_ & Cl). exact (Cl Hl). }
  unfold thread_step. rewrite (proj1 C), A. cbn [andb].
  destruct (tsrc (th s)) as [|x r] eqn:Et; proj.
  - split; [exact A|]. split; [exact B|]. exists y. split; [exact H1|]. split; [exact H2|].
    split; [exact H3|]. intros Hf. split; [reflexivity | apply H4, Hf].
  - split; [reflexivity|]. split; [exact B|]. exists y. split; [exact H1|].
    split; [rewrite app_length; lia|].
    split; [rewrite firstn_app_le by exact H2; exact H3|].
    intros Hf. specialize (Fin Hf). discriminate.
Qed.

Lemma PT_consume t s : PT t s -> PT t (consume s).
Proof.
  intros P. pose proof P as (C & A & B & y & H1 & H2 & H3 & H4).
  unfold consume. rewrite (proj1 C), H1. destruct (tfin s) eqn:Ef; [exact P|].
  replace (Z.to_nat (nprep (th s) - tprep (th s) + Z.of_nat y)) with y by lia.
  set (items := skipn y (ls (store s))).
  assert (Li : length items = (length (ls (store s)) - y)%nat) by (unfold items; apply skipn_length).
  split; [apply (cohT_same s); [reflexivity | reflexivity | exact C]|]. proj.
  repeat split; auto. exists (length (ls (store s))). repeat split; auto.
  - f_equal. unfold len. rewrite Li. lia.
  - rewrite firstn_all, H3, app_assoc, <- rev_app_distr. unfold items. rewrite firstn_skipn. reflexivity.
Qed.

Definition is_popT (o : op) : Prop := is_nav o \/ is_pop o \/ o = OThread.

Lemma pop_n_thr n : forall x, thr (th x) = true -> pop_n n x = x.
Proof.
  induction n; intros x Hx; cbn [pop_n]; [reflexivity|].
  unfold pop_step at 1. rewrite Hx. apply IHn, Hx.
Qed.

Lemma PT_step t c s o : is_popT o -> PT t s -> PT t (step_state c s o).
Proof.
  intros Ho P. rewrite step_state_post. unfold post.
  eapply PT_frame; [apply flush_frame|]. apply PT_consume.
  destruct Ho as [Ho|[Ho|Ho]].
  - eapply PT_frame; [apply nav_core_frame, Ho | exact P].
  - destruct P as (C & R). pose proof (proj1 C) as Ht.
    destruct o; cbn [is_pop] in Ho; try contradiction; cbn [step_core ok fst snd].
    + unfold pop_step. rewrite Ht. split; assumption.
    + unfold pop_all. rewrite pop_n_thr by exact Ht. split; assumption.
  - subst o. cbn [step_core ok fst snd]. apply PT_thread_step, P.
Qed.

Lemma PT_steps t c ops : forall s, Forall is_popT ops -> PT t s -> PT t (steps c s ops).
Proof.
  induction ops as [|o r IH]; intros s H P; cbn [steps fold_left]; [exact P|].
  inversion H; subst. apply IH; [assumption | apply PT_step; assumption].
Qed.

Lemma PT_done t s : PT t s -> tfin s = true -> wl s = sto (store s) ++ [t].
Proof.
  intros ((_ & C) & A & _ & y & _ & _ & H3 & H4) Hf. destruct (H4 Hf) as (Hl & ->).
  rewrite A in C. destruct C as (E & L). rewrite (L Hl), app_nil_r in E.
  rewrite H3, firstn_all, E, rev_involutive. reflexivity.
Qed.

(* the stored history is not touched by these operations *)
Lemma popT_step_sto c s o : Inv s -> is_popT o -> sto (store (step_state c s o)) = sto (store s).
Proof.
  intros HI Ho. apply (browse_step_any c s o HI).
  destruct Ho as [Ho|[Ho|Ho]]; [left; left; exact Ho | left; right; right; left; exact Ho | right; exact Ho].
Qed.

Lemma popT_steps_sto c ops : forall s, Inv s -> Forall is_popT ops -> sto (store (steps c s ops)) = sto (store s).
Proof.
  induction ops as [|o r IH]; intros s HI H; cbn [steps fold_left]; [reflexivity|].
  inversion H; subst. fold (steps c (step_state c s o) r).
  rewrite IH; [apply popT_step_sto; assumption | apply step_inv, HI | assumption].
Qed.

(* PJ (InMemoryHistory/FileHistory) also tolerates steps of a thread that does not exist *)
Lemma PJ_stepT t S0 c s o : is_popT o -> PJ t S0 s -> PJ t S0 (step_state c s o).
Proof.
  intros [Ho|[Ho|Ho]] P; [apply PJ_step; [left; exact Ho | exact P] | apply PJ_step; [right; exact Ho | exact P]|].
  subst o. rewrite step_state_eq by exact (proj1 P). eapply PJ_frame; [apply flush_frame|].
  cbn [step_core ok fst snd]. unfold thread_step. rewrite (proj1 P). exact P.
Qed.

Lemma PJ_stepsT t S0 c ops : forall s, Forall is_popT ops -> PJ t S0 s -> PJ t S0 (steps c s ops).
Proof.
  induction ops as [|o r IH]; intros s H P; cbn [steps fold_left]; [exact P|].
  inversion H; subst. apply IH; [assumption | apply PJ_stepT; assumption].
Qed.

(* coherence of the History object, whichever kind *)
Definition CohK (s : hs) : Prop := if thr (th s) then CohT s else Coh (store s).

Lemma reset_inv0 s t cp : Inv (load_start (reset s t cp false)).
Proof. apply load_start_inv, reset_inv. Qed.

Theorem reset_clean_interleaved_any c s t cp ops :
  CohK s -> Forall is_popT ops ->
  let s' := steps c (load_start (reset s t cp false)) ops in
  sto (store s') = sto (store s) /\ (tfin s' = true -> wl s' = sto (store s) ++ [t]).
Proof.
  intros Hc Ho s'.
  assert (St : sto (store s') = sto (store s)).
  { unfold s'. rewrite popT_steps_sto; [|apply reset_inv0 | exact Ho].
    unfold load_start, reset; proj.
    destruct (thr (th s)); [destruct (tstarted (th s))|]; reflexivity. }
  split; [exact St|]. intros Hf. unfold CohK in Hc. destruct (thr (th s)) eqn:Ht.
  - rewrite <- St. apply PT_done; [|exact Hf]. apply PT_steps; [exact Ho | apply PT_start, Hc].
  - eapply PJ_done; [|exact Hf]. apply PJ_stepsT; [exact Ho | apply PJ_start; assumption].
Qed.

(* ---------------------------------------------------------------------- *)
(* ... uninterrupted: the loader thread runs to its end *)
Lemma thread_step_fields s :
  wl (thread_step s) = wl s /\ wi (thread_step s) = wi s /\ cur (thread_step s) = cur s /\
  hst (thread_step s) = hst s /\ tfin (thread_step s) = tfin s /\ task (thread_step s) = task s.
Proof.
  unfold thread_step. destruct (thr (th s) && tstarted (th s)); [|repeat split].
  destruct (tsrc (th s)); repeat split.
Qed.

Lemma thread_op_displayed c s :
  Inv s -> let s' := step_state c s OThread in
  text s' = text s /\ cur s' = cur s /\ hst s' = hst s /\ wi s' - wi s = len (wl s') - len (wl s).
Proof.
  intros HI s'. unfold s'. rewrite step_state_post. cbn [step_core ok fst snd].
  destruct (thread_step_fields s) as (W & I & C & H & _ & _).
  assert (HI1 : Inv (thread_step s)) by (apply thread_step_inv, HI).
  destruct (post_spec c (thread_step s)) as (_ & _ & _ & Hh & Hc & new & P & Q & _).
  rewrite post_text by exact HI1. rewrite Hh, Hc, P, Q, len_app, W, I, C, H.
  repeat split; [apply text_eq; assumption | lia].
Qed.

Lemma thread_ops_displayed c n : forall s,
  Inv s -> let s' := steps c s (repeat OThread n) in
  text s' = text s /\ cur s' = cur s /\ hst s' = hst s /\ wi s' - wi s = len (wl s') - len (wl s).
Proof.
  induction n; intros s HI; cbn [repeat steps fold_left]; [repeat split; lia|].
  destruct (thread_op_displayed c s HI) as (A & B & C & D).
  destruct (IHn (step_state c s OThread) (step_inv c s OThread HI)) as (A' & B' & C' & D').
  fold (steps c (step_state c s OThread) (repeat OThread n)) in *.
  repeat split; try congruence. lia.
Qed.

Lemma consume_tfin_stable s : tfin s = true -> tfin (consume s) = true.
Proof.
  intros H. unfold consume. destruct (thr (th s)); [|exact H].
  destruct (task s); [|exact H]. rewrite H. exact H.
Qed.

Lemma flush_tfin c s : tfin (flush c s) = tfin s.
Proof. destruct (flush_frame c s) as (_ & _ & _ & H & _). exact H. Qed.

Lemma thread_op_tfin_stable c s : tfin s = true -> tfin (step_state c s OThread) = true.
Proof.
  intros H. rewrite step_state_post. unfold post. rewrite flush_tfin. apply consume_tfin_stable.
  cbn [step_core ok fst snd]. destruct (thread_step_fields s) as (_ & _ & _ & _ & F & _). congruence.
Qed.

Lemma thread_ops_tfin_stable c n : forall s, tfin s = true -> tfin (steps c s (repeat OThread n)) = true.
Proof.
  induction n; intros s H; cbn [repeat steps fold_left]; [exact H|]. apply IHn, thread_op_tfin_stable, H.
Qed.

Lemma thread_op_progress t c s :
  PT t s -> let s' := step_state c s OThread in
  tfin s' = true \/ (length (tsrc (th s')) < length (tsrc (th s)))%nat.
Proof.
  intros (C & A & B & y & H1 & _) s'.
  unfold s'. rewrite step_state_post. unfold post. rewrite flush_tfin, flush_th, consume_th.
  cbn [step_core ok fst snd]. unfold thread_step. rewrite (proj1 C), A. cbn [andb].
  destruct (tsrc (th s)) as [|x r] eqn:Et.
  - left. unfold consume; proj. rewrite (proj1 C), H1. destruct (tfin s) eqn:Ef; proj; auto.
  - right. proj. cbn [length]. lia.
Qed.

Lemma thread_ops_finish t c n : forall s,
  PT t s -> (length (tsrc (th s)) < n)%nat -> tfin (steps c s (repeat OThread n)) = true.
Proof.
  induction n; intros s P Hn; [lia|]. cbn [repeat steps fold_left].
  fold (steps c (step_state c s OThread) (repeat OThread n)).
  assert (P' : PT t (step_state c s OThread)) by (apply PT_step; [right; right; reflexivity | exact P]).
  destruct (thread_op_progress t c s P) as [Hf|Hl].
  - apply thread_ops_tfin_stable, Hf.
  - apply IHn; [exact P' | lia].
Qed.

Lemma forall_repeat_popT n : Forall is_popT (repeat OThread n).
Proof. induction n; cbn [repeat]; constructor; auto. right; right; reflexivity. Qed.

Theorem reset_clean_threaded c s t cp n :
  CohT s -> (length (sto (store s)) < n)%nat ->
  let s' := steps c (load_start (reset s t cp false)) (repeat OThread n) in
  wl s' = sto (store s) ++ [t] /\ wi s' = len (sto (store s)) /\ text s' = t /\ cur s' = cp /\
  sto (store s') = sto (store s) /\ hst s' = None /\ tfin s' = true.
Proof.
  intros Hc Hn. cbv zeta. set (s0 := load_start (reset s t cp false)).
  set (s' := steps c s0 (repeat OThread n)).
  assert (P0 : PT t s0) by (apply PT_start, Hc).
  assert (I0 : Inv s0) by apply reset_inv0.
  assert (F0 : wl s0 = [t] /\ wi s0 = 0 /\ cur s0 = cp /\ hst s0 = None /\ sto (store s0) = sto (store s)).
  { unfold s0, load_start, reset; proj.
    destruct (thr (th s)); [destruct (tstarted (th s))|]; proj; repeat split. }
  destruct F0 as (W0 & Wi0 & C0 & H0 & S0).
  assert (Ln : (length (tsrc (th s0)) < n)%nat).
  { destruct P0 as ((_ & Cc) & A & _). rewrite A in Cc. destruct Cc as (E & _).
    apply (f_equal (@length str)) in E. rewrite app_length, rev_length, S0 in E. lia. }
  assert (Hf : tfin s' = true) by (apply (thread_ops_finish t); assumption).
  destruct (reset_clean_interleaved_any c s t cp (repeat OThread n)) as (St & Wl).
  { unfold CohK. rewrite (proj1 Hc). exact Hc. }
  { apply forall_repeat_popT. }
  fold s0 in St, Wl. fold s' in St, Wl. specialize (Wl Hf).
  destruct (thread_ops_displayed c n s0 I0) as (T & C & H & D). fold s' in T, C, H, D.
  split; [exact Wl|]. split.
  { rewrite Wl, W0, Wi0, len_app in D. change (len [t]) with 1 in D. lia. }
  split. { rewrite T. unfold text. rewrite W0, Wi0. reflexivity. }
  split; [congruence|]. split; [exact St|]. split; [congruence | exact Hf].
Qed.

(* ---------------------------------------------------------------------- *)
(* the prefix law without any hypothesis on the kind: for the base kind not
   even the index invariant is needed *)
Lemma hist_step_prefix_all c s o :
  thr (th s) = false \/ Inv s -> ehs s = true -> is_hist_step o ->
  let s' := step_state c s o in
  wi s' - wi s = len (wl s') - len (wl s) \/
  startswith (text s') (search_prefix s) = true.
Proof.
  intros [Ht|HI] He Ho s'; [|apply hist_step_prefix_any; assumption].
  destruct (hist_step_prefix c s o Ht He Ho) as [R|R]; [left | right; exact R].
  destruct (nav_step_frame c s o Ht (is_hist_step_nav o Ho)) as (L & _).
  unfold s'. rewrite L, R. lia.
Qed.

(* ---------------------------------------------------------------------- *)
(* every history-related key handler (with any numeric argument) is a
   navigation operation, so all the laws above apply to it *)
Lemma call_op_nav k a o : call_op k a = Some o -> is_nav o.
Proof.
  destruct k; cbn [call_op]; destruct (count_of c a); intros H; inversion H; exact I.
Qed.

Lemma calls_op_nav cs a o : calls_op cs a = Some o -> is_nav o.
Proof.
  unfold calls_op. destruct (is_end_of_history cs); [intros H; inversion H; exact I|].
  destruct cs as [|k [|k2 r]]; try discriminate. apply call_op_nav.
Qed.

(* whatever the regenerated table says *)
Lemma handler_op_nav h a o : handler_op h a = Some o -> is_nav o.
Proof.
  unfold handler_op. destruct (find_handler h _) as [r|]; [|discriminate].
  destruct a; [destruct (h_needs_arg r); [discriminate|]| |]; apply calls_op_nav.
Qed.

(* ---------------------------------------------------------------------- *)
(* a new session (new ThreadedHistory object on the same backend), the loader
   thread runs to its end: stored history followed by an empty line *)
Lemma new_session_clean_threaded c s n :
  thr (th s) = true -> (length (sto (store s)) < n)%nat ->
  let s' := steps c (load_start (reopen s)) (repeat OThread n) in
  wl s' = sto (store s) ++ [[]] /\ wi s' = len (sto (store s)) /\ text s' = [] /\
  sto (store s') = sto (store s) /\ hst s' = None /\ tfin s' = true.
Proof.
  intros Ht Hn. unfold reopen.
  set (s0 := set_th (set_store s (mkst [] (sto (store s)) false)) (mkth (thr (th s)) 0 false [] 0)).
  assert (C0 : CohT s0).
  { unfold CohT, s0; proj. split; [exact Ht|]. repeat split. exists (sto (store s)). rewrite app_nil_r. reflexivity. }
  assert (Hn0 : (length (sto (store s0)) < n)%nat) by (unfold s0; proj; exact Hn).
  destruct (reset_clean_threaded c s0 [] 0 n C0 Hn0) as (A & B & C & _ & D & E & F).
  unfold s0 in *; proj. auto 10.
Qed.

(* ---------------------------------------------------------------------- *)
(* every row of the REGENERATED handler table is inside the model (finite fact,
   re-proved whenever the table changes), for every numeric argument *)
Lemma count_of_none c a b : count_of c a = None -> count_of c b = None.
Proof. destruct c; cbn [count_of]; auto; discriminate. Qed.

Lemma call_op_none k a b : call_op k a = None -> call_op k b = None.
Proof.
  destruct k; cbn [call_op]; destruct (count_of c a) eqn:E; try discriminate;
    rewrite (count_of_none c a b E); reflexivity.
Qed.

Lemma calls_op_none cs a b : calls_op cs a = None -> calls_op cs b = None.
Proof.
  unfold calls_op. destruct (is_end_of_history cs); [discriminate|].
  destruct cs as [|k [|k2 r]]; auto. apply call_op_none.
Qed.

Definition row_modelled (r : hrow) : bool :=
  match calls_op (h_calls r) ANone with Some _ => true | None => false end.

Lemma handlers_all_modelled_b : forallb row_modelled handlers = true.
Proof. vm_compute. reflexivity. Qed.

Lemma handlers_all_modelled r a : In r handlers -> calls_op (h_calls r) a <> None.
Proof.
  intros Hin Hn. pose proof (proj1 (forallb_forall _ _) handlers_all_modelled_b r Hin) as M.
  unfold row_modelled in M. rewrite (calls_op_none _ a ANone Hn) in M. discriminate.
Qed.
