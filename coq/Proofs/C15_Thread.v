(* C15 (round 7) - at most one completer run per buffer at any time: in every
   state of the life-cycle model (Model/C15_Thread.v) at most one producer
   thread is inside completer.get_completions(), and only while the
   `running` flag of _only_one_at_a_time is set.  Without the join in
   aclose() ([jn] = false) it fails. *)
From Coq Require Import ZArith List Bool Lia.
From PTK Require Import Lib.Sx Model.C15_Thread.
Import ListNotations.
Open Scope Z_scope.

Definition done (r : trun) : Prop := r_c r = CGone /\ r_t r = TFinished.
Definition last_ok (running : bool) (r : trun) : Prop :=
  (running = false -> r_c r = CGone) /\ (r_c r = CGone -> r_t r = TFinished).

Definition TI (s : tstate) : Prop :=
  t_runs s = [] \/ exists pre r, t_runs s = pre ++ [r] /\ Forall done pre /\ last_ok (t_running s) r.

Lemma set_nth_last pre r r' : set_nth_run (pre ++ [r]) (length pre) r' = pre ++ [r'].
Proof. induction pre as [|x pre IH]; cbn [app length set_nth_run]; [reflexivity|]. f_equal. exact IH. Qed.

Lemma nth_error_snoc {T} (pre : list T) (r x : T) (i : nat) :
  nth_error (pre ++ [r]) i = Some x -> (In x pre /\ (i < length pre)%nat) \/ (i = length pre /\ x = r).
Proof.
  intros H. destruct (Nat.lt_ge_cases i (length pre)) as [Hl|Hl].
  - rewrite nth_error_app1 in H by exact Hl. left. split; [eapply nth_error_In; eauto|exact Hl].
  - rewrite nth_error_app2 in H by exact Hl. destruct (i - length pre)%nat eqn:E.
    + cbn in H. inversion H. right. split; [lia|reflexivity].
    + cbn in H. destruct n; discriminate.
Qed.

Lemma detach_done g r : done r -> detach g r = r.
Proof. intros (A & _). unfold detach. rewrite A. reflexivity. Qed.

Lemma map_detach_done g pre : Forall done pre -> map (detach g) pre = pre.
Proof. induction 1 as [|x l Hx _ IH]; cbn [map]; [reflexivity|]. rewrite IH, detach_done by exact Hx. reflexivity. Qed.

Lemma detach_last_ok g b r : last_ok b r -> last_ok b (detach g r).
Proof.
  intros (A & B). unfold detach. destruct (r_c r) eqn:E; unfold last_ok; cbn; rewrite ?E; split; auto; try discriminate.
  all: intros H; specialize (A H); discriminate.
Qed.

Lemma TI_detach s g : TI s -> TI (mkts (t_jn s) (t_running s) false (map (detach g) (t_runs s))).
Proof.
  intros [H|(pre & r & H & F & L)]; unfold TI; cbn [t_runs t_running]; rewrite H.
  - left. reflexivity.
  - right. exists pre, (detach g r). rewrite map_app, map_detach_done by exact F. cbn [map].
    split; [reflexivity|]. split; [exact F|apply detach_last_ok; exact L].
Qed.

(* async_completer entered with `running` set and every earlier run over *)
Lemma TI_body s runs : Forall done runs -> TI (tbody s runs).
Proof.
  intros F. unfold tbody. destruct (t_menu s); unfold TI; cbn [t_runs t_running].
  - induction runs as [|x l _] using rev_ind; [left; reflexivity|]. right. exists l, x.
    apply Forall_app in F. destruct F as (F1 & F2). inversion F2 as [|? ? Hx _]; subst.
    split; [reflexivity|]. split; [exact F1|]. destruct Hx as (A & B). split; auto.
  - right. exists runs, new_run. split; [reflexivity|]. split; [exact F|].
    split; cbn; intros; discriminate.
Qed.

Lemma TI_finish s pre r r1 : t_jn s = true -> t_runs s = pre ++ [r] -> Forall done pre -> r_t r1 = TFinished ->
  TI (tfinish s (length pre) r1).
Proof.
  intros _ H F Ht. unfold tfinish. rewrite H, set_nth_last.
  set (rg := mkrun CGone (r_t r1) true (r_att r1) (r_grew r1) (r_n r1)).
  assert (D : done rg) by (split; [reflexivity|exact Ht]).
  assert (Fa : Forall done (pre ++ [rg])) by (apply Forall_app; split; [exact F|constructor; [exact D|constructor]]).
  assert (G : forall b m, TI (mkts (t_jn s) b m (pre ++ [rg]))).
  { intros b m. right. exists pre, rg. split; [reflexivity|]. split; [exact F|]. destruct D as (A & B). split; auto. }
  destruct (r_att r1); [apply G|]. destruct (r_grew r1); [apply TI_body; exact Fa|apply G].
Qed.

Lemma TI_step s l : t_jn s = true -> TI s -> TI (tstep s l) /\ t_jn (tstep s l) = true.
Proof.
  intros J H. destruct l; cbn [tstep].
  - (* TStart *)
    unfold tstart. destruct (t_running s) eqn:Er; [split; assumption|].
    split; [|unfold tbody; destruct (t_menu s); exact J].
    apply TI_body. destruct H as [H|(pre & r & H & F & (L1 & L2))]; rewrite H; [constructor|].
    apply Forall_app. split; [exact F|]. constructor; [|constructor]. rewrite Er in L1. split; auto.
  - split; [apply TI_detach; exact H|exact J].
  - split; [apply TI_detach; exact H|exact J].
  - (* TProduce *)
    unfold tproduce. destruct (nth_error (t_runs s) i) as [r0|] eqn:En; [|split; assumption].
    destruct (r_t r0) eqn:Et; [|split; assumption].
    destruct H as [H|(pre & r & H & F & (L1 & L2))]; [rewrite H in En; destruct i; discriminate|].
    rewrite H in En. destruct (nth_error_snoc _ _ _ _ En) as [(Hin & _)|(Hi & Hr)].
    { rewrite Forall_forall in F. destruct (F r0 Hin) as (_ & B). congruence. }
    subst i r0.
    assert (Hc : r_c r <> CGone) by (intros A; specialize (L2 A); congruence).
    assert (Hrun : t_running s = true) by (destruct (t_running s); [reflexivity|exfalso; apply Hc; auto]).
    assert (K : forall r1, r_c r1 <> CGone -> TI (mkts (t_jn s) (t_running s) (t_menu s) (set_nth_run (t_runs s) (length pre) r1))).
    { intros r1 Hr1. right. exists pre, r1. cbn [t_runs t_running]. rewrite H, set_nth_last.
      split; [reflexivity|]. split; [exact F|]. split; [rewrite Hrun; discriminate|intros A; contradiction]. }
    assert (Jf : forall r1, t_jn (tfinish s (length pre) r1) = true).
    { intros r1. unfold tfinish, tbody. destruct (r_att r1); [exact J|]. destruct (r_grew r1); [|exact J].
      cbn [t_menu t_jn]. destruct (t_menu s); exact J. }
    destruct more.
    + destruct (r_quit r).
      * destruct (r_c r) eqn:Ec; try contradiction.
        -- split; [apply K; cbn; try rewrite Ec; discriminate|exact J].
        -- split; [eapply TI_finish; eauto|apply Jf].
      * destruct (r_c r) eqn:Ec; try contradiction.
        -- destruct (r_att r); [split; [apply K; cbn; discriminate|exact J]|].
           assert (Ej : forall (x y : tstate), (if t_jn s then x else y) = x) by (intros; rewrite J; reflexivity).
           rewrite Ej. split; [apply K; cbn; discriminate|exact J].
        -- split; [apply K; try rewrite Ec; discriminate|exact J].
    + destruct (r_c r) eqn:Ec; try contradiction; (split; [eapply TI_finish; eauto|apply Jf]).
Qed.

Lemma TI_run ls : forall s, t_jn s = true -> TI s -> TI (trun_all s ls).
Proof.
  induction ls as [|l r IH]; intros s J H; cbn [trun_all fold_left]; [exact H|].
  destruct (TI_step s l J H) as (A & B). apply IH; assumption.
Qed.

Lemma computing_done pre : Forall done pre -> filter (fun r => match r_t r with TComputing => true | TFinished => false end) pre = [].
Proof. induction 1 as [|x l (_ & B) _ IH]; cbn [filter]; [reflexivity|]. rewrite B. exact IH. Qed.

(* at most one completer run per buffer at any time, and only under the guard *)
Theorem one_producer ls :
  let s := trun_all (tinit true) ls in
  (length (computing s) <= 1)%nat /\ (computing s <> [] -> t_running s = true).
Proof.
  intros s. assert (H : TI s) by (apply TI_run; [reflexivity|left; reflexivity]).
  unfold computing. destruct H as [H|(pre & r & H & F & (L1 & L2))]; rewrite H.
  - cbn. split; [lia|congruence].
  - rewrite filter_app, computing_done by exact F. cbn [app filter].
    destruct (r_t r) eqn:Et; cbn [length]; split; try lia; try congruence.
    intros _. destruct (t_running s); [reflexivity|]. specialize (L1 eq_refl). specialize (L2 L1). congruence.
Qed.

(* what the join in aclose() is for: without it, typing while the first
   stream is running starts the completer for the new text while the thread
   computing completions for the old text is still inside the completer *)
Theorem one_producer_needs_join :
  exists ls, length (computing (trun_all (tinit false) ls)) = 2%nat.
Proof. exists [TStart; TProduce 0 true; TType; TProduce 0 true]. vm_compute. reflexivity. Qed.
