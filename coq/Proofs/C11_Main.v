(* C11 - the assembled statements: after scrolling + copying, the cursor has a
   screen position, inside the window, at the arithmetic position, on the cell
   showing the character under it. *)
From Coq Require Import ZArith List Bool Lia.
From PTK Require Import Lib.Sx Lib.Py Model.C11_Scroll Model.C11_CopyBody
     Proofs.C11_ScrollFacts Proofs.C11_CopyFacts Proofs.C11_LiveFacts
     Proofs.C11_WrapFacts Proofs.C11_NoWrapFacts Proofs.C11_SeqFacts Proofs.C11_VarPrefixFacts.
Import ListNotations.
Open Scope Z_scope.

Lemma char_at_nth : forall lines row col c,
  char_at lines (row, col) c ->
  nth_error (nth (Z.to_nat row) lines []) (Z.to_nat col) = Some c.
Proof.
  intros lines row col c (_ & _ & line & E1 & E2). cbn [fst snd] in *.
  erewrite nth_error_nth; eauto.
Qed.

Lemma wrap_narrow_cursor :
  forall sw dw disp haspfx pfx width height xpos ypos p top bottom lines cyr cxc st fixed allow,
  (forall c, sw c = 1) -> (forall c, dw c = 1) ->
  (haspfx = true -> forall l k, len (pfx l k) = p) -> (haspfx = false -> p = 0) ->
  0 <= p -> 1 <= width - p -> 1 <= height -> 0 <= top -> 0 <= bottom -> 0 <= vs st ->
  (forall ln, In ln lines -> 1 <= len ln) ->
  0 <= cyr < len lines -> 0 <= cxc < len (nth (Z.to_nat cyr) lines []) ->
  let Hfn l := height_for_line sw haspfx pfx (nth (Z.to_nat l) lines []) l width None in
  let tbhn s := height_for_line sw haspfx pfx (nth (Z.to_nat cyr) lines []) cyr width (Some s) in
  let s' := scroll_wrap_gen fixed allow Hfn tbhn width height top bottom cyr cxc (len lines) st in
  let o := copy_body sw dw disp true haspfx pfx width height xpos ypos lines s' in
  (fixed = true \/ Hfn cyr <= height - top \/ cxc mod (width - p) <> 0 \/ cxc / (width - p) < height) ->
  let y := sumH Hfn (vs s') (Z.to_nat cyr) - vs2 s' + cxc / (width - p) in
  let x := p + cxc mod (width - p) in
  0 <= y < height /\ 0 <= x < width /\
  alist_get (cr2 o) (cyr, cxc) = Some (y + ypos, x + xpos) /\
  exists c, nth_error (nth (Z.to_nat cyr) lines []) (Z.to_nat cxc) = Some c /\
            cstr (scr_get (cscr o) (y + ypos) (x + xpos)) = disp c.
Proof.
  intros sw dw disp haspfx pfx width height xpos ypos p top bottom lines cyr cxc st fixed allow
         Hsw Hdw Hp Hnp Hp0 Hw Hh Htop Hbottom Hvs Hlines Hcy Hcx Hfn tbhn s' o Hnf y x.
  destruct (wrap_narrow_registered sw dw disp haspfx pfx width height xpos ypos p top bottom
              lines cyr cxc st fixed allow Hsw Hdw Hp Hnp Hp0 Hw Hh Htop Hbottom Hvs Hlines Hcy Hcx Hnf)
    as [Hy Hget].
  change (0 <= y < height) in Hy.
  change (alist_get (cr2 o) (cyr, cxc) = Some (y + ypos, x + xpos)) in Hget.
  assert (Hs'vs : 0 <= vs s') by (apply scroll_wrap_vs_ge0; assumption).
  pose proof (Z.mod_pos_bound cxc (width - p) ltac:(lia)) as Hm.
  split; [exact Hy|]. split; [unfold x; lia|]. split; [exact Hget|].
  assert (Hfit : forall l, true = false \/ haspfx = false \/ len (pfx l 0) <= width).
  { intros l. destruct haspfx eqn:E; [right; right; rewrite (Hp eq_refl); lia | right; now left]. }
  pose proof (registered_is_right sw dw disp true haspfx pfx width height xpos ypos lines s' Hdw Hfit Hs'vs) as HR.
  cbv zeta in HR. destruct (HR (cyr, cxc) (y + ypos, x + xpos) Hget) as (_ & c & Hc & Hcell).
  exists c. split; [now apply char_at_nth | exact Hcell].
Qed.

Lemma nowrap_narrow_cursor :
  forall sw dw disp (haspfx : bool) pfx width height xpos ypos top bottom lft rgt lines cyr cxc st allow,
  (forall c, sw c = 1) -> (forall c, dw c = 1) ->
  1 <= height -> 0 <= top /\ 0 <= bottom /\ 0 <= lft /\ 0 <= rgt ->
  0 <= cyr < len lines -> 0 <= cxc < len (nth (Z.to_nat cyr) lines []) ->
  let pw := if haspfx then strw sw (pfx cyr 0) else 0 in
  1 <= width - pw ->
  let s' := scroll_nowrap allow sw (nth (Z.to_nat cyr) lines []) pw width height top bottom lft rgt
              cyr cxc (len lines) st in
  let o := copy_body sw dw disp false haspfx pfx width height xpos ypos lines s' in
  let y := cyr - vs s' in
  let x := pw + cxc - hs s' in
  0 <= y < height /\ pw <= x < width /\
  alist_get (cr2 o) (cyr, cxc) = Some (y + ypos, x + xpos) /\
  exists c, nth_error (nth (Z.to_nat cyr) lines []) (Z.to_nat cxc) = Some c /\
            cstr (scr_get (cscr o) (y + ypos) (x + xpos)) = disp c.
Proof.
  intros sw dw disp haspfx pfx width height xpos ypos top bottom lft rgt lines cyr cxc st allow
         Hsw Hdw Hh Hoff Hcy Hcx pw Hw s' o y x.
  destruct (nowrap_narrow_registered sw dw disp haspfx pfx width height xpos ypos top bottom lft rgt
              lines cyr cxc st allow Hsw Hdw Hh Hoff Hcy Hcx Hw) as (Hv & Hy & Hx & _ & Hget).
  change (0 <= vs s') in Hv. change (0 <= y < height) in Hy. change (pw <= x < width) in Hx.
  change (alist_get (cr2 o) (cyr, cxc) = Some (y + ypos, x + xpos)) in Hget.
  split; [exact Hy|]. split; [exact Hx|]. split; [exact Hget|].
  assert (Hfit : forall l, false = false \/ haspfx = false \/ len (pfx l 0) <= width) by (intros l; now left).
  pose proof (registered_is_right sw dw disp false haspfx pfx width height xpos ypos lines s' Hdw Hfit Hv) as HR.
  cbv zeta in HR. destruct (HR (cyr, cxc) (y + ypos, x + xpos) Hget) as (_ & c & Hc & Hcell).
  exists c. split; [now apply char_at_nth | exact Hcell].
Qed.

(* the code as it is now (slice_stop = cursor column + 1): no proviso *)
Lemma wrap_narrow_cursor_full :
  forall sw dw disp haspfx pfx width height xpos ypos p top bottom lines cyr cxc st allow,
  (forall c, sw c = 1) -> (forall c, dw c = 1) ->
  (haspfx = true -> forall l k, len (pfx l k) = p) -> (haspfx = false -> p = 0) ->
  0 <= p -> 1 <= width - p -> 1 <= height -> 0 <= top -> 0 <= bottom -> 0 <= vs st ->
  (forall ln, In ln lines -> 1 <= len ln) ->
  0 <= cyr < len lines -> 0 <= cxc < len (nth (Z.to_nat cyr) lines []) ->
  let Hfn l := height_for_line sw haspfx pfx (nth (Z.to_nat l) lines []) l width None in
  let tbhn s := height_for_line sw haspfx pfx (nth (Z.to_nat cyr) lines []) cyr width (Some s) in
  let s' := scroll_wrap allow Hfn tbhn width height top bottom cyr cxc (len lines) st in
  let o := copy_body sw dw disp true haspfx pfx width height xpos ypos lines s' in
  let y := sumH Hfn (vs s') (Z.to_nat cyr) - vs2 s' + cxc / (width - p) in
  let x := p + cxc mod (width - p) in
  0 <= y < height /\ 0 <= x < width /\
  alist_get (cr2 o) (cyr, cxc) = Some (y + ypos, x + xpos) /\
  exists c, nth_error (nth (Z.to_nat cyr) lines []) (Z.to_nat cxc) = Some c /\
            cstr (scr_get (cscr o) (y + ypos) (x + xpos)) = disp c.
Proof.
  intros sw dw disp haspfx pfx width height xpos ypos p top bottom lines cyr cxc st allow
         Hsw Hdw Hp Hnp Hp0 Hw Hh Htop Hbottom Hvs Hlines Hcy Hcx.
  apply (wrap_narrow_cursor sw dw disp haspfx pfx width height xpos ypos p top bottom lines cyr cxc st
           true allow); try assumption.
  now left.
Qed.

(* variable-width prefixes (any per-line, per-wrap-count prefixes that leave a cell) *)
Lemma wrap_varprefix_cursor :
  forall sw dw disp haspfx pfx width height xpos ypos top bottom lines cyr cxc st allow kc,
  (forall c, sw c = 1) -> (forall c, dw c = 1) ->
  (forall l k, epw haspfx pfx l k + 1 <= width) ->
  1 <= height -> 0 <= top -> 0 <= bottom -> 0 <= vs st ->
  (forall ln, In ln lines -> 1 <= len ln) ->
  0 <= cyr < len lines -> 0 <= cxc < len (nth (Z.to_nat cyr) lines []) ->
  capsum haspfx pfx width cyr kc <= cxc < capsum haspfx pfx width cyr (S kc) ->
  let Hfn l := height_for_line sw haspfx pfx (nth (Z.to_nat l) lines []) l width None in
  let tbhn s := height_for_line sw haspfx pfx (nth (Z.to_nat cyr) lines []) cyr width (Some s) in
  let s' := scroll_wrap allow Hfn tbhn width height top bottom cyr cxc (len lines) st in
  let o := copy_body sw dw disp true haspfx pfx width height xpos ypos lines s' in
  let y := sumH Hfn (vs s') (Z.to_nat cyr) - vs2 s' + Z.of_nat kc in
  let x := epw haspfx pfx cyr (Z.of_nat kc) + (cxc - capsum haspfx pfx width cyr kc) in
  0 <= y < height /\ 0 <= x < width /\
  alist_get (cr2 o) (cyr, cxc) = Some (y + ypos, x + xpos) /\
  exists c, nth_error (nth (Z.to_nat cyr) lines []) (Z.to_nat cxc) = Some c /\
            cstr (scr_get (cscr o) (y + ypos) (x + xpos)) = disp c.
Proof.
  intros sw dw disp haspfx pfx width height xpos ypos top bottom lines cyr cxc st allow kc
         Hsw Hdw Hfit Hh Htop Hbottom Hvs Hlines Hcy Hcx Hkc Hfn tbhn s' o y x.
  destruct (wrap_varprefix_registered sw dw disp haspfx pfx width height xpos ypos top bottom
              lines cyr cxc st allow Hsw Hdw Hfit Hh Htop Hbottom Hvs Hlines Hcy Hcx kc Hkc)
    as (Hy & Hx & Hv & Hget).
  change (0 <= y < height) in Hy. change (0 <= x < width) in Hx. change (0 <= vs s') in Hv.
  change (alist_get (cr2 o) (cyr, cxc) = Some (y + ypos, x + xpos)) in Hget.
  split; [exact Hy|]. split; [exact Hx|]. split; [exact Hget|].
  assert (Hf0 : forall l, true = false \/ haspfx = false \/ len (pfx l 0) <= width).
  { intros l. pose proof (Hfit l 0) as H. unfold epw in H.
    destruct haspfx; [right; right; lia | right; now left]. }
  pose proof (registered_is_right sw dw disp true haspfx pfx width height xpos ypos lines s' Hdw Hf0 Hv) as HR.
  cbv zeta in HR. destruct (HR (cyr, cxc) (y + ypos, x + xpos) Hget) as (_ & c & Hc & Hcell).
  exists c. split; [now apply char_at_nth | exact Hcell].
Qed.
