(* C12 - take_using_weights as a state machine: invariant of the reachable
   states, every `next` returns (within gen_fuel micro-steps), what a `next`
   does to the state. *)
From Coq Require Import ZArith List Bool Lia.
From PTK Require Import Lib.Sx Model.C12_Divide Proofs.C12_Safety.
Import ListNotations.
Open Scope Z_scope.

Definition upd (g : gen) (i : Z) (taken : list Z) (pos : nat) (adding : bool) : gen :=
  mkgen (g_items g) (g_weights g) (g_maxw g) i taken pos adding.

(* one evaluation of the generator's innermost `if` / one loop boundary *)
Definition mstep (g : gen) : gen + (nat * gen) :=
  if Nat.ltb (g_pos g) (length (g_items g)) then
    if eligible g (g_pos g) then
      inr (nth (g_pos g) (g_items g) O,
           upd g (g_i g) (inc_nth (g_taken g) (g_pos g)) (S (g_pos g)) true)
    else inl (upd g (g_i g) (g_taken g) (S (g_pos g)) (g_adding g))
  else if g_adding g then inl (upd g (g_i g) (g_taken g) O false)
  else inl (upd g (g_i g + 1) (g_taken g) O false).

Lemma gen_next_S : forall f g,
  gen_next (S f) g = match mstep g with inl g' => gen_next f g' | inr r => Some r end.
Proof.
  intros f g. unfold mstep, upd. cbn [gen_next].
  destruct (Nat.ltb (g_pos g) (length (g_items g))).
  - destruct (eligible g (g_pos g)); reflexivity.
  - destruct (g_adding g); reflexivity.
Qed.

Lemma gen_next_mono : forall f g r, gen_next f g = Some r ->
  forall f', (f <= f')%nat -> gen_next f' g = Some r.
Proof.
  induction f as [|f IH]; intros g r H f' Hf; [discriminate|].
  destruct f' as [|f']; [lia|].
  rewrite gen_next_S in *. destruct (mstep g) as [g1|r1]; [|assumption].
  apply IH with (f' := f') in H; [assumption|lia].
Qed.

Record ginv (g : gen) : Prop := {
  gi_lw : length (g_weights g) = length (g_items g);
  gi_lt : length (g_taken g) = length (g_items g);
  gi_pos : (g_pos g <= length (g_items g))%nat;
  gi_maxw : 0 < g_maxw g;
  gi_w : forall k, (k < length (g_items g))%nat -> 1 <= nth k (g_weights g) 0 <= g_maxw g;
  gi_top : exists k, (k < length (g_items g))%nat /\ nth k (g_weights g) 0 = g_maxw g;
  gi_i : 0 <= g_i g;
  gi_t0 : forall k, 0 <= nth k (g_taken g) 0;
  gi_U : forall k, (k < length (g_items g))%nat -> nth k (g_taken g) 0 <= g_i g;
  gi_L : forall k, (k < length (g_items g))%nat -> g_i g - 1 <= nth k (g_taken g) 0 * g_maxw g;
  gi_P : g_adding g = false -> forall k, (k < g_pos g)%nat ->
         g_i g * nth k (g_weights g) 0 <= nth k (g_taken g) 0 * g_maxw g;
  (* the exact proportionality window: taken_k = ceil(i * w_k / max_w) up to the current round *)
  gi_Ux : forall k, (k < length (g_items g))%nat ->
          (nth k (g_taken g) 0 - 1) * g_maxw g < g_i g * nth k (g_weights g) 0;
  gi_Lx : forall k, (k < length (g_items g))%nat ->
          (g_i g - 1) * nth k (g_weights g) 0 <= nth k (g_taken g) 0 * g_maxw g
}.

Ltac gproj := cbn [upd g_items g_weights g_maxw g_i g_taken g_pos g_adding] in *.

Lemma eligible_true : forall g k, eligible g k = true ->
  nth k (g_taken g) 0 * g_maxw g < g_i g * nth k (g_weights g) 0.
Proof. intros g k H. unfold eligible in H. apply Z.ltb_lt in H. exact H. Qed.

Lemma eligible_false : forall g k, eligible g k = false ->
  g_i g * nth k (g_weights g) 0 <= nth k (g_taken g) 0 * g_maxw g.
Proof. intros g k H. unfold eligible in H. apply Z.ltb_ge in H. exact H. Qed.

(* a yield *)
Lemma ginv_yield : forall g, ginv g -> (g_pos g < length (g_items g))%nat ->
  eligible g (g_pos g) = true ->
  ginv (upd g (g_i g) (inc_nth (g_taken g) (g_pos g)) (S (g_pos g)) true).
Proof.
  intros g I Hp He. apply eligible_true in He.
  pose proof (gi_w g I _ Hp) as Hw. pose proof (gi_maxw g I) as Hm.
  constructor; gproj; try apply I.
  - rewrite length_inc_nth. apply I.
  - lia.
  - intro k. pose proof (gi_t0 g I k). pose proof (nth_inc_nth_ge (g_taken g) (g_pos g) k). lia.
  - intros k Hk. destruct (Nat.eq_dec k (g_pos g)) as [->|Hn].
    + rewrite nth_inc_nth_eq by (rewrite (gi_lt g I); assumption).
      pose proof (gi_i g I) as Hi0.
      assert (g_i g * nth (g_pos g) (g_weights g) 0 <= g_i g * g_maxw g) by (apply Z.mul_le_mono_nonneg_l; lia).
      assert (nth (g_pos g) (g_taken g) 0 < g_i g) by (apply Z.mul_lt_mono_pos_r with (p := g_maxw g); lia). lia.
    + rewrite nth_inc_nth_neq by assumption. apply (gi_U g I); assumption.
  - intros k Hk. pose proof (gi_L g I k Hk). pose proof (nth_inc_nth_ge (g_taken g) (g_pos g) k). nia.
  - discriminate.
  - intros k Hk. destruct (Nat.eq_dec k (g_pos g)) as [->|Hn].
    + rewrite nth_inc_nth_eq by (rewrite (gi_lt g I); assumption).
      replace (nth (g_pos g) (g_taken g) 0 + 1 - 1) with (nth (g_pos g) (g_taken g) 0) by lia. exact He.
    + rewrite nth_inc_nth_neq by assumption. apply (gi_Ux g I); assumption.
  - intros k Hk. pose proof (gi_Lx g I k Hk). pose proof (nth_inc_nth_ge (g_taken g) (g_pos g) k).
    assert (nth k (g_taken g) 0 * g_maxw g <= nth k (inc_nth (g_taken g) (g_pos g)) 0 * g_maxw g)
      by (apply Z.mul_le_mono_nonneg_r; lia). lia.
Qed.

(* not eligible: move on inside the pass *)
Lemma ginv_skip : forall g, ginv g -> (g_pos g < length (g_items g))%nat ->
  eligible g (g_pos g) = false ->
  ginv (upd g (g_i g) (g_taken g) (S (g_pos g)) (g_adding g)).
Proof.
  intros g I Hp He. apply eligible_false in He.
  constructor; gproj; try apply I.
  - lia.
  - intros Ha k Hk. destruct (Nat.eq_dec k (g_pos g)) as [->|Hn]; [assumption|].
    apply (gi_P g I Ha). lia.
Qed.

(* end of a pass in which something was yielded: another pass *)
Lemma ginv_again : forall g, ginv g ->
  ginv (upd g (g_i g) (g_taken g) O false).
Proof.
  intros g I. constructor; gproj; try apply I.
  - lia.
  - intros _ k Hk. lia.
Qed.

(* end of a pass without a yield: i += 1 *)
Lemma ginv_round : forall g, ginv g -> g_pos g = length (g_items g) -> g_adding g = false ->
  ginv (upd g (g_i g + 1) (g_taken g) O false).
Proof.
  intros g I Hp Ha. pose proof (gi_i g I) as Hi.
  constructor; gproj; try apply I.
  - lia.
  - lia.
  - intros k Hk. pose proof (gi_U g I k Hk). lia.
  - intros k Hk. pose proof (gi_P g I Ha k ltac:(lia)) as HP. pose proof (gi_w g I k Hk). nia.
  - intros _ k Hk. lia.
  - intros k Hk. pose proof (gi_Ux g I k Hk). pose proof (gi_w g I k Hk). nia.
  - intros k Hk. pose proof (gi_P g I Ha k ltac:(lia)) as HP.
    replace (g_i g + 1 - 1) with (g_i g) by lia. exact HP.
Qed.

(* what one `next` does *)
Definition nextrel (g : gen) (it : nat) (g' : gen) : Prop :=
  ginv g' /\ g_items g' = g_items g /\ g_weights g' = g_weights g /\ g_maxw g' = g_maxw g /\
  g_i g <= g_i g' <= g_i g + 1 /\
  exists q, (q < length (g_items g))%nat /\ it = nth q (g_items g) O /\
            g_pos g' = S q /\ g_taken g' = inc_nth (g_taken g) q.

(* the rest of the current pass: either it yields, or it reaches the end of
   the `for` with nothing eligible on the way *)
Lemma pass : forall n g, ginv g -> (length (g_items g) - g_pos g = n)%nat ->
  (exists it g', gen_next n g = Some (it, g') /\ nextrel g it g' /\ g_i g' = g_i g)
  \/ ((forall f, gen_next (n + f) g = gen_next f (upd g (g_i g) (g_taken g) (length (g_items g)) (g_adding g)))
      /\ ginv (upd g (g_i g) (g_taken g) (length (g_items g)) (g_adding g))
      /\ forall q, (g_pos g <= q < length (g_items g))%nat -> eligible g q = false).
Proof.
  induction n as [|n IH]; intros g I Hn.
  - right. assert (Hp : g_pos g = length (g_items g)) by (pose proof (gi_pos g I); lia).
    rewrite <- Hp. destruct g as [it ws mw i tk pos ad]. gproj. unfold upd. gproj.
    split; [intro f; reflexivity|split; [assumption|intros q Hq; lia]].
  - assert (Hp : (g_pos g < length (g_items g))%nat) by lia.
    assert (Hlt : Nat.ltb (g_pos g) (length (g_items g)) = true) by (apply Nat.ltb_lt; assumption).
    destruct (eligible g (g_pos g)) eqn:He.
    + left. eexists. eexists. split.
      * rewrite gen_next_S. unfold mstep. rewrite Hlt, He. reflexivity.
      * split; [|reflexivity]. unfold nextrel. gproj.
        split; [apply ginv_yield; assumption|]. repeat split; try reflexivity; try lia.
        exists (g_pos g). repeat split; auto.
    + pose proof (ginv_skip g I Hp He) as I1.
      set (g1 := upd g (g_i g) (g_taken g) (S (g_pos g)) (g_adding g)) in *.
      assert (Hstep : forall f, gen_next (S f) g = gen_next f g1).
      { intro f. rewrite gen_next_S. unfold mstep. rewrite Hlt, He. reflexivity. }
      destruct (IH g1 I1) as [(it & g' & Hg & Hr & Hi)|(Hrun & Iend & Hno)].
      * unfold g1; gproj. lia.
      * left. exists it, g'. split; [rewrite Hstep; assumption|]. split; [|exact Hi].
        unfold nextrel in *. unfold g1 in Hr; gproj. exact Hr.
      * right. unfold g1 in Hrun, Iend, Hno; gproj. split; [|split].
        -- intro f. cbn [Nat.add]. rewrite Hstep. apply Hrun.
        -- exact Iend.
        -- intros q Hq. destruct (Nat.eq_dec q (g_pos g)) as [->|Hne]; [assumption|].
           specialize (Hno q ltac:(lia)). unfold eligible in *. gproj. exact Hno.
Qed.

Lemma nextrel_shift : forall g g1 it g',
  g_items g1 = g_items g -> g_weights g1 = g_weights g -> g_maxw g1 = g_maxw g ->
  g_taken g1 = g_taken g -> g_i g <= g_i g1 <= g_i g + 1 ->
  nextrel g1 it g' -> g_i g' = g_i g1 -> nextrel g it g'.
Proof.
  intros g g1 it g' H1 H2 H3 H4 H5 (I & A & B & C & D & q & Q1 & Q2 & Q3 & Q4) Hi.
  unfold nextrel.
  split; [exact I|]. split; [congruence|]. split; [congruence|]. split; [congruence|].
  split; [lia|]. exists q. rewrite <- H1, <- H4. auto.
Qed.

(* every `next` returns *)
Theorem next_total : forall g, ginv g -> exists it g', next g = Some (it, g') /\ nextrel g it g'.
Proof.
  intros g I. unfold next, gen_fuel.
  set (m := length (g_items g)).
  assert (Hfin : forall it g', (exists f, (f <= 3 * (m + 1) + 1)%nat /\ gen_next f g = Some (it, g')) ->
                 nextrel g it g' -> exists it g', gen_next (3 * (m + 1) + 1) g = Some (it, g') /\ nextrel g it g').
  { intros it g' (f & Hf & Hg) Hr. exists it, g'. split; [|assumption]. eapply gen_next_mono; eassumption. }
  pose proof (gi_pos g I) as Hpos. fold m in Hpos.
  destruct (pass (m - g_pos g) g I eq_refl) as [(it & g' & Hg & Hr & _)|(Hrun & IB & _)].
  { apply (Hfin it g'); [|assumption]. exists (m - g_pos g)%nat. split; [lia|assumption]. }
  fold m in Hrun, IB.
  set (gB := upd g (g_i g) (g_taken g) m (g_adding g)) in *.
  (* the state after the boundary step(s) where i has been incremented *)
  assert (HE : forall gD, ginv gD -> g_pos gD = m -> g_adding gD = false ->
               g_items gD = g_items g -> g_weights gD = g_weights g -> g_maxw gD = g_maxw g ->
               g_taken gD = g_taken g -> g_i gD = g_i g ->
               exists it g', gen_next (S m) gD = Some (it, g') /\ nextrel g it g').
  { intros gD ID HpD HaD E1 E2 E3 E4 E5.
    assert (HmD : length (g_items gD) = m) by (rewrite E1; reflexivity).
    pose proof (ginv_round gD ID ltac:(lia) HaD) as IE.
    set (gE := upd gD (g_i gD + 1) (g_taken gD) O false) in *.
    assert (HstepD : forall f, gen_next (S f) gD = gen_next f gE).
    { intro f. rewrite gen_next_S. unfold mstep.
      assert (Nat.ltb (g_pos gD) (length (g_items gD)) = false) as -> by (apply Nat.ltb_ge; lia).
      rewrite HaD. reflexivity. }
    destruct (pass m gE IE) as [(it & g' & Hg & Hr & Hi)|(_ & _ & Hno)].
    - unfold gE; gproj. lia.
    - exists it, g'. split; [rewrite HstepD; assumption|].
      eapply nextrel_shift with (g1 := gE); try eassumption; unfold gE; gproj; try congruence. lia.
    - exfalso. destruct (gi_top gD ID) as (k & Hk & Hkw).
      specialize (Hno k). unfold gE in Hno; gproj. specialize (Hno ltac:(lia)).
      apply eligible_false in Hno. unfold gE in Hno; gproj.
      pose proof (gi_U gD ID k Hk). pose proof (gi_maxw gD ID). rewrite Hkw in Hno. nia. }
  assert (HlB : Nat.ltb (g_pos gB) (length (g_items gB)) = false).
  { unfold gB; gproj. apply Nat.ltb_ge. fold m. lia. }
  destruct (g_adding g) eqn:Ha.
  - (* a second pass in the same round *)
    pose proof (ginv_again gB IB) as IC.
    set (gC := upd gB (g_i gB) (g_taken gB) O false) in *.
    assert (HstepB : forall f, gen_next (S f) gB = gen_next f gC).
    { intro f. rewrite gen_next_S. unfold mstep. rewrite HlB.
      assert (g_adding gB = true) as -> by (unfold gB; gproj; reflexivity). reflexivity. }
    destruct (pass m gC IC) as [(it & g' & Hg & Hr & Hi)|(HrunC & ID & _)].
    + unfold gC, gB; gproj. fold m. lia.
    + apply (Hfin it g').
      * exists ((m - g_pos g) + S m)%nat. split; [lia|]. rewrite Hrun, HstepB. assumption.
      * eapply nextrel_shift with (g1 := gC); try eassumption; unfold gC, gB; gproj; try reflexivity. lia.
    + assert (HlC : length (g_items gC) = m) by (unfold gC, gB; gproj; reflexivity).
      rewrite HlC in HrunC, ID.
      set (gD := upd gC (g_i gC) (g_taken gC) m (g_adding gC)) in *.
      destruct (HE gD ID) as (it & g' & Hg & Hr); try (unfold gD, gC, gB; gproj; reflexivity).
      apply (Hfin it g'); [|assumption].
      exists ((m - g_pos g) + S (m + S m))%nat. split; [lia|].
      rewrite Hrun, HstepB, HrunC. assumption.
  - destruct (HE gB IB) as (it & g' & Hg & Hr); try (unfold gB; gproj; reflexivity).
    apply (Hfin it g'); [|assumption].
    exists ((m - g_pos g) + S m)%nat. split; [lia|]. rewrite Hrun. assumption.
Qed.

(* ------------------------------------------------------------------ *)
(* the initial state *)

Lemma fold_max_ge : forall l a, a <= fold_left Z.max l a.
Proof. induction l; intro a0; simpl; [lia|]. specialize (IHl (Z.max a0 a)). lia. Qed.

Lemma fold_max_nth : forall l a k, (k < length l)%nat -> nth k l 0 <= fold_left Z.max l a.
Proof.
  induction l; intros a0 k Hk; simpl in *; [lia|]. destruct k.
  - pose proof (fold_max_ge l (Z.max a0 a)). lia.
  - apply IHl. lia.
Qed.

Lemma fold_max_attained : forall l a, fold_left Z.max l a = a \/
  exists k, (k < length l)%nat /\ nth k l 0 = fold_left Z.max l a.
Proof.
  induction l; intro a0; simpl; [left; reflexivity|].
  destruct (IHl (Z.max a0 a)) as [H|(k & Hk & Hn)].
  - destruct (Z.max_spec a0 a) as [[? Hm]|[? Hm]].
    + right. exists O. split; [lia|]. simpl. lia.
    + left. lia.
  - right. exists (S k). split; [lia|]. exact Hn.
Qed.

Lemma py_max_nth : forall l k, (k < length l)%nat -> nth k l 0 <= py_max l.
Proof.
  intros [|x r] k Hk; simpl in *; [lia|]. destruct k.
  - apply fold_max_ge.
  - apply fold_max_nth. lia.
Qed.

Lemma py_max_attained : forall l, l <> [] -> exists k, (k < length l)%nat /\ nth k l 0 = py_max l.
Proof.
  intros [|x r] H; [congruence|]. simpl.
  destruct (fold_max_attained r x) as [E|(k & Hk & Hn)].
  - exists O. split; [lia|]. simpl. lia.
  - exists (S k). split; [lia|]. exact Hn.
Qed.

(* the filtered items are exactly the positions with a positive weight *)
Lemma filter_pos_spec : forall ws a it w,
  filter_pos (seq a (length ws)) ws = (it, w) ->
  length w = length it /\
  (forall p, (p < length it)%nat ->
     (a <= nth p it O < a + length ws)%nat /\ nth (nth p it O - a) ws 0 = nth p w 0 /\ 0 < nth p w 0) /\
  (forall c, (c < length ws)%nat -> 0 < nth c ws 0 -> exists p, (p < length it)%nat /\ nth p it O = (a + c)%nat).
Proof.
  induction ws as [|w0 wr IH]; intros a it w H.
  - simpl in H. injection H as <- <-. simpl. repeat split; intros; lia.
  - cbn [length seq filter_pos] in H.
    destruct (filter_pos (seq (S a) (length wr)) wr) as [x y] eqn:E.
    destruct (IH (S a) x y E) as (Hl & Hp & Hc).
    destruct (w0 >? 0) eqn:Ew.
    + apply Z.gtb_lt in Ew. injection H as <- <-. cbn [length]. split; [lia|]. split.
      * intros p Hpl. destruct p as [|p].
        -- cbn [nth]. replace (a - a)%nat with O by lia. cbn [nth]. repeat split; lia.
        -- cbn [nth]. destruct (Hp p ltac:(lia)) as ((H1 & H2) & H3 & H4).
           replace (nth p x O - a)%nat with (S (nth p x O - S a)) by lia. cbn [nth].
           repeat split; try lia; try exact H3.
      * intros c Hcl Hcw. destruct c as [|c].
        -- exists O. split; [lia|]. cbn [nth]. lia.
        -- cbn [nth] in Hcw. destruct (Hc c ltac:(lia) Hcw) as (p & Hp1 & Hp2).
           exists (S p). split; [lia|]. cbn [nth]. lia.
    + assert (w0 <= 0) by (rewrite Z.gtb_ltb in Ew; apply Z.ltb_ge in Ew; lia).
      injection H as <- <-. split; [assumption|]. split.
      * intros p Hpl. destruct (Hp p Hpl) as ((H1 & H2) & H3 & H4).
        replace (nth p x O - a)%nat with (S (nth p x O - S a)) by lia. cbn [nth length].
        repeat split; try lia; try exact H3.
      * intros c Hcl Hcw. destruct c as [|c]; [cbn [nth] in Hcw; lia|].
        cbn [nth] in Hcw. destruct (Hc c ltac:(simpl in Hcl; lia) Hcw) as (p & Hp1 & Hp2).
        exists p. split; [assumption|]. lia.
Qed.

Lemma gen_init_spec : forall ws g,
  gen_init (seq 0 (length ws)) ws = Some g ->
  ginv g /\ g_i g = 0 /\
  (forall p, (p < length (g_items g))%nat ->
     (nth p (g_items g) O < length ws)%nat /\ 0 < nth (nth p (g_items g) O) ws 0 /\
     nth p (g_weights g) 0 = nth (nth p (g_items g) O) ws 0) /\
  (forall c, (c < length ws)%nat -> 0 < nth c ws 0 ->
     exists p, (p < length (g_items g))%nat /\ nth p (g_items g) O = c).
Proof.
  intros ws g H. unfold gen_init in H.
  destruct (filter_pos (seq 0 (length ws)) ws) as [it w] eqn:E.
  destruct (filter_pos_spec ws O it w E) as (Hl & Hp & Hc).
  destruct it as [|i0 ir] eqn:Eit; [discriminate|]. rewrite <- Eit in *.
  injection H as <-. gproj.
  assert (Hne : w <> []) by (intro; subst w it; simpl in Hl; lia).
  assert (Hzero : forall k, nth k (map (fun _ : nat => 0) it) 0 = 0).
  { intro k. clear. revert k. induction it; intro k; destruct k; simpl; auto. }
  split; [|split; [reflexivity|split]].
  - constructor; gproj.
    + assumption.
    + apply map_length.
    + lia.
    + destruct (py_max_attained w Hne) as (k & Hk & Hn). rewrite <- Hn.
      destruct (Hp k ltac:(lia)) as (_ & _ & ?). assumption.
    + intros k Hk. destruct (Hp k Hk) as (_ & _ & ?). split; [lia|]. apply py_max_nth. lia.
    + destruct (py_max_attained w Hne) as (k & Hk & Hn). exists k. split; [lia|assumption].
    + lia.
    + intro k. rewrite Hzero. lia.
    + intros k Hk. rewrite Hzero. lia.
    + intros k Hk. rewrite Hzero. lia.
    + intros _ k Hk. lia.
    + intros k Hk. rewrite Hzero.
      destruct (py_max_attained w Hne) as (k0 & Hk0 & Hn0). destruct (Hp k0 ltac:(lia)) as (_ & _ & ?). lia.
    + intros k Hk. rewrite Hzero. destruct (Hp k Hk) as (_ & _ & ?). lia.
  - intros p Hpl. destruct (Hp p Hpl) as ((H1 & H2) & H3 & H4).
    replace (nth p it O - 0)%nat with (nth p it O) in H3 by lia. split; [lia|]. rewrite H3. split; [assumption|reflexivity].
  - intros c Hcl Hcw. destruct (Hc c Hcl Hcw) as (p & Hp1 & Hp2). exists p. split; [assumption|]. lia.
Qed.

Lemma gen_init_none : forall ws, (forall c, (c < length ws)%nat -> nth c ws 0 <= 0) ->
  gen_init (seq 0 (length ws)) ws = None.
Proof.
  intros ws H. unfold gen_init.
  destruct (filter_pos (seq 0 (length ws)) ws) as [it w] eqn:E.
  destruct (filter_pos_spec ws O it w E) as (Hl & Hp & Hc).
  destruct it as [|i0 ir]; [reflexivity|]. exfalso.
  destruct (Hp O ltac:(simpl; lia)) as ((H1 & H2) & H3 & H4).
  specialize (H (nth 0 (i0 :: ir) O - 0)%nat ltac:(lia)). lia.
Qed.

Lemma gen_init_some : forall ws c, (c < length ws)%nat -> 0 < nth c ws 0 ->
  exists g, gen_init (seq 0 (length ws)) ws = Some g.
Proof.
  intros ws c Hc Hw. unfold gen_init.
  destruct (filter_pos (seq 0 (length ws)) ws) as [it w] eqn:E.
  destruct (filter_pos_spec ws O it w E) as (_ & _ & Hx).
  destruct (Hx c Hc Hw) as (p & Hp & _).
  destruct it; [simpl in Hp; lia|]. eexists; reflexivity.
Qed.

Lemma filter_pos_length : forall items ws, (length (fst (filter_pos items ws)) <= length ws)%nat.
Proof.
  induction items as [|a r IH]; intros [|w wr]; simpl; try lia.
  specialize (IH wr). destruct (filter_pos r wr) as [x y]. simpl in *.
  destruct (w >? 0); simpl; lia.
Qed.

Lemma gen_init_items_length : forall ws g, gen_init (seq 0 (length ws)) ws = Some g ->
  (length (g_items g) <= length ws)%nat.
Proof.
  intros ws g H. unfold gen_init in H.
  pose proof (filter_pos_length (seq 0 (length ws)) ws) as Hl.
  destruct (filter_pos (seq 0 (length ws)) ws) as [it w]. simpl in Hl.
  destruct it; [discriminate|]. injection H as <-. exact Hl.
Qed.

Lemma zsum_nonneg_forall : forall l, Forall (fun w => 0 <= w) l -> 0 <= zsum l.
Proof. intros l H; induction H; simpl; lia. Qed.

Lemma filter_pos_sum : forall items ws, Forall (fun w => 0 <= w) ws ->
  zsum (snd (filter_pos items ws)) <= zsum ws.
Proof.
  induction items as [|a r IH]; intros [|w wr] H; simpl; try lia.
  - pose proof (zsum_nonneg_forall _ H) as H0. simpl in H0. exact H0.
  - inversion H; subst. specialize (IH wr H3).
    destruct (filter_pos r wr) as [x y]. simpl in *. destruct (w >? 0); simpl; lia.
Qed.

Lemma gen_init_weights_sum : forall ws g, Forall (fun w => 0 <= w) ws ->
  gen_init (seq 0 (length ws)) ws = Some g -> zsum (g_weights g) <= zsum ws.
Proof.
  intros ws g Hw H. unfold gen_init in H.
  pose proof (filter_pos_sum (seq 0 (length ws)) ws Hw) as Hs.
  destruct (filter_pos (seq 0 (length ws)) ws) as [it w]. simpl in Hs.
  destruct it; [discriminate|]. injection H as <-. exact Hs.
Qed.
