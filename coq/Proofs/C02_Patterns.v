(* C02 - tie of the hand scanners to the regex pattern strings of /repo.
   Gen/C02_Patterns.v is regenerated from prompt_toolkit.document on every
   run; the scanners of Model/C02_DocQueries.v were written for exactly the
   strings below.  If a pattern (or its flags) changes this file stops
   compiling and the check reports the broken tie. *)
From Coq Require Import ZArith List Bool Lia.
From PTK Require Import Lib.Sx Lib.Py Gen.Whitespace Gen.C02_Patterns Model.Document Model.C02_DocQueries.
Import ListNotations.
Open Scope Z_scope.

(* "[a-zA-Z0-9_]+" and "[^a-zA-Z0-9_\s]+" as code points *)
Definition p_word : list Z := [91; 97; 45; 122; 65; 45; 90; 48; 45; 57; 95; 93; 43].
Definition p_other : list Z := [91; 94; 97; 45; 122; 65; 45; 90; 48; 45; 57; 95; 92; 115; 93; 43].
Definition p_nonspace : list Z := [91; 94; 92; 115; 93; 43].
Definition p_spaces : list Z := [92; 115; 42].
Definition LP := 40. Definition RP := 41. Definition BAR := 124. Definition CARET := 94.
Definition RE_UNICODE := 32.

Lemma C02_patterns_as_modelled :
  pat_find_word = [LP] ++ p_word ++ [BAR] ++ p_other ++ [RP] /\
  pat_find_current_word = [CARET; LP] ++ p_word ++ [BAR] ++ p_other ++ [RP] /\
  pat_find_current_word_ws = [CARET; LP; LP] ++ p_word ++ [BAR] ++ p_other ++ [RP] ++ p_spaces ++ [RP] /\
  pat_find_big_word = [LP] ++ p_nonspace ++ [RP] /\
  pat_find_current_big_word = [CARET; LP] ++ p_nonspace ++ [RP] /\
  pat_find_current_big_word_ws = [CARET; LP] ++ p_nonspace ++ p_spaces ++ [RP] /\
  pat_find_word_flags = RE_UNICODE /\ pat_find_current_word_flags = RE_UNICODE /\
  pat_find_current_word_ws_flags = RE_UNICODE /\ pat_find_big_word_flags = RE_UNICODE /\
  pat_find_current_big_word_flags = RE_UNICODE /\ pat_find_current_big_word_ws_flags = RE_UNICODE.
Proof. repeat split; reflexivity. Qed.

(* `c in string.ascii_letters + "0123456789_"` is the class [a-zA-Z0-9_] *)
Lemma mem_Z_bound c l b : forallb (fun x => (0 <=? x) && (x <? b)) l = true -> (c < 0 \/ b <= c) -> mem_Z c l = false.
Proof.
  induction l as [|x l IH]; cbn [forallb mem_Z]; [reflexivity|].
  intros H Hc. apply andb_prop in H as [Hx Hl]. apply andb_prop in Hx as [H0 H1].
  rewrite (IH Hl Hc). destruct (x =? c) eqn:E; [|reflexivity]. lia.
Qed.

Fixpoint zrange (n : nat) (from : Z) : list Z :=
  match n with O => [] | S k => from :: zrange k (from + 1) end.

Lemma zrange_in n : forall from c, from <= c < from + Z.of_nat n -> In c (zrange n from).
Proof.
  induction n as [|n IH]; intros from c H; [lia|]. cbn [zrange].
  destruct (Z.eq_dec from c) as [->|Hne]; [now left|right]. apply IH. lia.
Qed.

Lemma C02_word_alphabet c : is_wordch c = mem_Z c word_alphabet.
Proof.
  destruct (Z_lt_dec c 0) as [Hneg|Hnn].
  - rewrite (mem_Z_bound c word_alphabet 128) by (try reflexivity; lia).
    unfold is_wordch.
    destruct (97 <=? c) eqn:E1; destruct (65 <=? c) eqn:E2; destruct (48 <=? c) eqn:E3;
      destruct (c =? 95) eqn:E4; try lia; reflexivity.
  - destruct (Z_le_dec 128 c) as [Hbig|Hsmall].
    + rewrite (mem_Z_bound c word_alphabet 128) by (try reflexivity; lia).
      unfold is_wordch.
      destruct (c <=? 122) eqn:E1; destruct (c <=? 90) eqn:E2; destruct (c <=? 57) eqn:E3;
        destruct (c =? 95) eqn:E4; try lia; rewrite ?andb_false_r; reflexivity.
    + assert (Hall : forallb (fun x => Bool.eqb (is_wordch x) (mem_Z x word_alphabet)) (zrange 128 0) = true)
        by (vm_compute; reflexivity).
      rewrite forallb_forall in Hall.
      apply eqb_prop. apply Hall. apply zrange_in. lia.
Qed.

(* Round 6: the shared line cache object has exactly the two fields of the cache
   model (Model/C02_Cache.v: ce_lines, ce_indexes) and Document keeps its state
   in the four slots the model knows: a new cached field changes these
   regenerated lists and stops the proof build. *)
Lemma C02_cache_fields_as_modelled :
  document_cache_fields = [ [108; 105; 110; 101; 115];                                      (* "lines" *)
                            [108; 105; 110; 101; 95; 105; 110; 100; 101; 120; 101; 115] ]   (* "line_indexes" *)
  /\ document_slots = [ [95; 116; 101; 120; 116];                                           (* "_text" *)
                        [95; 99; 117; 114; 115; 111; 114; 95; 112; 111; 115; 105; 116; 105; 111; 110]; (* "_cursor_position" *)
                        [95; 115; 101; 108; 101; 99; 116; 105; 111; 110];                   (* "_selection" *)
                        [95; 99; 97; 99; 104; 101] ].                                       (* "_cache" *)
Proof. split; reflexivity. Qed.
