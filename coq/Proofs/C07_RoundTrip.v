(* C07 - undo / redo / undo round trips with cursor-only changes in between:
   the cursor exactness of redo, and what a cursor KEY does to the redo
   history. *)
From Coq Require Import ZArith List Bool Lia.
From PTK Require Import Lib.Sx Lib.Py Lib.C07_Lemmas Model.C07_Undo Model.C07_Keys
  Proofs.C07_UndoFacts Proofs.C07_KeysFacts Proofs.C07_KeyHistFacts.
Import ListNotations.
Open Scope Z_scope.

Lemma redo_top x : rstack x <> [] -> exists r, ustack (redo x) = here x :: r.
Proof.
  intros H. destruct (redo_spec x) as [[E _]|(t & pos & r & Hr & Heq)]; [contradiction|].
  rewrite Heq, set_document_ustack. cbn [ustack]. apply save_ustack_top.
Qed.

Lemma undo_top x t c r :
  ustack x = (t, c) :: r -> t <> utext x -> 0 <= c <= len t ->
  here (undo x) = (t, c) /\ rstack (undo x) = here x :: rstack x /\ ustack (undo x) = r.
Proof.
  intros Hs Hne Hc. unfold undo. rewrite Hs. cbn [undo_loop].
  assert (Ef : str_eqb t (utext x) = false) by (apply c07_str_eqb_neq; exact Hne).
  rewrite Ef. rewrite set_document_ok by exact Hc.
  unfold here. cbn [utext ucur ustack rstack]. repeat split.
Qed.

Lemma same_view_trans a b c : same_view a b -> same_view b c -> same_view a c.
Proof. intros (A1 & A2 & A3 & A4) (B1 & B2 & B3 & B4). repeat split; congruence. Qed.

(* undo; the cursor moves WITHOUT a snapshot (a mouse-free application call,
   the Vi cursor fix-up, ...); redo: text, cursor and redo stack are exactly
   those before the undo.  Undo again: the landing text with the cursor as it
   was LEFT there (a real boundary state); redo again: exact once more. *)
Theorem undo_redo_cycle s c' :
  wf s -> utext (undo s) <> utext s -> 0 <= c' <= len (utext (undo s)) ->
  let u' := set_state (undo s) (utext (undo s)) c' in
  let r := redo u' in
  same_view r s /\
  here (undo r) = (utext (undo s), c') /\
  rstack (undo r) = here s :: rstack s /\
  same_view (redo (undo r)) s.
Proof.
  intros Hwf Hne Hc. cbn zeta.
  set (u := undo s) in *. set (u' := set_state u (utext u) c').
  assert (Hwu : wf u) by (apply wf_undo; exact Hwf).
  assert (Hru : rstack u <> []) by (apply effective_undo_pushes; assumption).
  assert (Hwu' : wf u') by (apply wf_set_cursor; assumption).
  pose proof (redo_ignores_cursor u c' Hwu Hru) as (V1 & V2 & V3 & V4). fold u' in V1, V2, V3, V4.
  destruct (redo_inverts_undo s Hwf Hne) as (R1 & R2 & R3 & R4 & _). fold u in R1, R2, R3, R4.
  assert (Hb : ubad s = false) by (destruct Hwf as (_ & _ & _ & B); exact B).
  assert (SV : same_view (redo u') s) by (repeat split; congruence).
  split; [exact SV|].
  destruct (redo_top u') as [r0 Hr0]; [exact Hru|].
  destruct SV as (S1 & S2 & S3 & S4).
  destruct (undo_top (redo u') (utext u) c' r0) as (L1 & L2 & L3).
  { exact Hr0. } { rewrite S1. exact Hne. } { exact Hc. }
  split; [exact L1|]. split.
  { rewrite L2. unfold here. rewrite S1, S2, S3. reflexivity. }
  assert (Hwr : wf (redo u')) by (apply wf_redo; exact Hwu').
  assert (Hne2 : utext (undo (redo u')) <> utext (redo u')).
  { unfold here in L1. injection L1 as L1 _. rewrite L1, S1. exact Hne. }
  destruct (redo_inverts_undo (redo u') Hwr Hne2) as (Q1 & Q2 & Q3 & Q4 & _).
  repeat split; congruence.
Qed.

(* undo/redo cycles never drift: k times (undo; redo) leaves text, cursor and
   redo stack exactly as they were *)
Fixpoint cycle (k : nat) (s : ust) : ust :=
  match k with O => s | S k' => cycle k' (redo (undo s)) end.

Theorem undo_redo_cycles k : forall s,
  wf s -> utext (undo s) <> utext s -> same_view (cycle k s) s.
Proof.
  induction k as [|k IH]; intros s Hwf Hne; [repeat split|].
  cbn [cycle].
  destruct (redo_inverts_undo s Hwf Hne) as (R1 & R2 & R3 & R4 & (r0 & R5)).
  assert (Hb : ubad s = false) by (destruct Hwf as (_ & _ & _ & B); exact B).
  assert (SV : same_view (redo (undo s)) s) by (repeat split; congruence).
  eapply same_view_trans; [|exact SV]. apply IH.
  - apply wf_redo, wf_undo. exact Hwf.
  - pose proof (wf_undo s Hwf) as (Hh & _).
    destruct (undo_top (redo (undo s)) (utext (undo s)) (ucur (undo s)) r0) as (L1 & _).
    { exact R5. } { rewrite R1. exact Hne. } { exact Hh. }
    unfold here in L1. injection L1 as L1 _. rewrite L1, R1. exact Hne.
Qed.

(* ... but a cursor KEY between undo and redo is a command behind a binding
   that snapshots (every default cursor binding has the default save_before):
   it discards the redo history and redo() does nothing - "immediately after"
   in the property text is essential. *)
Theorem cursor_command_discards_redo s c' :
  let x := ustep (undo s) (Cmd true (utext (undo s)) c') in
  rstack x = [] /\ redo x = x /\ utext x = utext (undo s).
Proof.
  cbn zeta. split; [apply edit_clears_redo|]. split; [|reflexivity].
  unfold redo. rewrite edit_clears_redo. reflexivity.
Qed.

(* through the key processor: any plain binding that snapshots (class 1 or a
   first if_no_repeat key), whatever its handler does - a pure cursor movement
   included - leaves the redo stack empty *)
Theorem key_command_discards_redo tbl s h n t c :
  r_act (lookup tbl h) = 0 -> save_before tbl (kprev s) h = true ->
  let s' := kstep tbl s (Key h n t c) in
  rstack (kbuf s') = [] /\ redo (kbuf s') = kbuf s'.
Proof.
  intros Ha Hs. cbn zeta. cbn [kstep kbuf]. rewrite kbody_plain by exact Ha. rewrite Hs.
  assert (E : rstack (set_state (save_to_undo_stack (kbuf s) true) t c) = []) by reflexivity.
  split; [exact E|]. unfold redo. rewrite E. reflexivity.
Qed.
