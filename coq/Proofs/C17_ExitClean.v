(* C17 - the static criterion on the regenerated table implies the semantic
   hypothesis [no_pushback] of the script theorem, for a default session
   (dispatch d_lookup / d_lookup_scan / d_waits over Gen/C17_Bindings.v).

   "special" rows: those whose handler may end the prompt (effects 13 14 15 21
   22, and 98 = unmodelled handler mentioning exit) or feeds a key press (20,
   and 97 = unmodelled handler mentioning feed).  Computed on the table: a special row cannot
   match keys lying strictly inside a longer row; feeding rows are exactly the
   single-key C-j rows.  Hence, in one activation of the coroutine, a special
   row can only fire on the whole buffer (exact branch) - after which the
   buffer is empty and the activation ends. *)
From Coq Require Import ZArith List Bool Lia Permutation.
From PTK Require Import Lib.Py Gen.C03_AnsiSequences Gen.C17_Bindings Model.C03_Vt100Parser
  Model.C03_Vt100Input Model.C17_Typeahead Model.C17_Emacs Proofs.C17_Core Proofs.C17_Accept Proofs.C17_Script Proofs.C17_Witness.
Import ListNotations.
Open Scope Z_scope.

(* 13 14 15 21 22: handlers that end the prompt; 20: C-j feeds a key; 97 / 98: handlers outside the
   modelled classes whose source mentions feed( / exit( *)
Definition special_eff (x : Z) : bool := existsb (Z.eqb x) [13; 14; 15; 20; 21; 22; 97; 98].
Definition special_row (r : row) : bool := special_eff (r_eff r).

Definition special_criterion : bool :=
  forallb (fun p => negb (special_row p) ||
                    forallb (fun q => negb (inside (r_pats p) (r_pats q) (S (length (r_pats q))))) c17_bindings)
          c17_bindings
  && forallb (fun p => negb (r_eff p =? 20) || match r_pats p with [x] => x =? 12 | _ => false end) c17_bindings
  && forallb (fun p => match r_pats p with [] => false | _ => true end) c17_bindings.

Lemma special_criterion_holds : special_criterion = true.
Proof. vm_compute. reflexivity. Qed.

Lemma crit_inside p q : In p c17_bindings -> In q c17_bindings -> special_row p = true ->
  inside (r_pats p) (r_pats q) (S (length (r_pats q))) = false.
Proof.
  intros Hp Hq M. pose proof special_criterion_holds as H. unfold special_criterion in H.
  apply andb_prop in H. destruct H as [H _]. apply andb_prop in H. destruct H as [H _].
  rewrite forallb_forall in H. specialize (H p Hp). rewrite M in H. cbn [negb orb] in H.
  rewrite forallb_forall in H. specialize (H q Hq). now apply negb_true_iff in H.
Qed.

Lemma crit_feed p : In p c17_bindings -> r_eff p = 20 -> r_pats p = [12].
Proof.
  intros Hp M. pose proof special_criterion_holds as H. unfold special_criterion in H.
  apply andb_prop in H. destruct H as [H _]. apply andb_prop in H. destruct H as [_ H].
  rewrite forallb_forall in H. specialize (H p Hp). rewrite M in H. cbn [Z.eqb negb orb] in H.
  destruct (r_pats p) as [|x [|y l]]; try discriminate. apply Z.eqb_eq in H. subst. reflexivity.
Qed.

(* ---------------------------------------------------------------------- *)
(* patterns *)

Lemma pmatch_overlap a b k : pmatch a k = true -> pmatch b k = true -> pat_overlap a b = true.
Proof.
  unfold pmatch, pat_overlap. intros H1 H2.
  destruct (a =? -1) eqn:A; [reflexivity|]. destruct (b =? -1) eqn:B; [cbn; reflexivity|].
  cbn [orb] in *. apply Z.eqb_eq in H1, H2. subst. apply Z.eqb_refl.
Qed.

(* ks matches a proper prefix of ps; p matches the first keys of ks: p overlaps ps and is shorter *)
Lemma overlap_prefix p : forall ps ks b, pprefix ps ks = true -> (b <= length ks)%nat ->
  pmatches p (firstn b ks) = true -> pats_overlap p ps = true /\ (length p < length ps)%nat.
Proof.
  induction p as [|a p IH]; intros ps ks b PP LB PM.
  - destruct ps as [|q ps]; [destruct ks; discriminate PP|]. cbn. split; [reflexivity|lia].
  - destruct b as [|b]; [cbn [firstn pmatches] in PM; discriminate|].
    destruct ks as [|k ks]; [cbn in LB; lia|]. destruct ps as [|q ps]; [discriminate PP|].
    cbn [pprefix firstn pmatches] in *. apply andb_prop in PP, PM. destruct PP as [P1 P2], PM as [M1 M2].
    destruct (IH ps ks b P2 ltac:(cbn in LB; lia) M2) as (O & L).
    cbn [pats_overlap length]. rewrite (pmatch_overlap a q k M1 P1), O. split; [reflexivity|lia].
Qed.

Lemma inside_S p q f :
  inside p q (S f) = (Nat.ltb (length p) (length q) && pats_overlap p q) || match q with [] => false | _ :: q' => inside p q' f end.
Proof. destruct q; reflexivity. Qed.

Lemma inside_segment p : forall ps ks a b, pprefix ps ks = true -> (a + b <= length ks)%nat ->
  pmatches p (firstn b (skipn a ks)) = true -> inside p ps (S (length ps)) = true.
Proof.
  intros ps ks a. revert ps ks. induction a as [|a IH]; intros ps ks b PP LB PM.
  - cbn [skipn] in PM. destruct (overlap_prefix p ps ks b PP ltac:(lia) PM) as (O & L).
    rewrite inside_S. apply Nat.ltb_lt in L. rewrite L, O. reflexivity.
  - destruct ks as [|k ks]; [cbn in LB; lia|]. destruct ps as [|q ps]; [discriminate PP|].
    cbn [pprefix] in PP. apply andb_prop in PP. destruct PP as [_ P2].
    cbn [skipn] in PM. pose proof (IH ps ks b P2 ltac:(cbn in LB; lia) PM) as I.
    cbn [length]. rewrite inside_S. rewrite I. apply orb_true_r.
Qed.

(* ---------------------------------------------------------------------- *)
(* dispatch facts *)

Lemma number_In {T} (l : list T) : forall i j x, In (j, x) (number i l) -> In x l.
Proof.
  induction l as [|y l IH]; intros i j x H; [destruct H|]. cbn [number] in H. destruct H as [H|H].
  - inversion H; subst. left; reflexivity.
  - right. eapply IH. exact H.
Qed.

Lemma best_In cands : forall cur x, best cands cur = Some x -> cur = Some x \/ In x cands.
Proof.
  induction cands as [|c r IH]; intros cur x H; cbn [best] in H; [left; exact H|].
  destruct cur as [b|].
  - destruct (Nat.leb (any_count (r_pats (snd c))) (any_count (r_pats (snd b)))).
    + destruct (IH _ _ H) as [X|X]; [inversion X; subst; right; left; reflexivity|right; right; exact X].
    + destruct (IH _ _ H) as [X|X]; [left; exact X|right; right; exact X].
  - destruct (IH _ _ H) as [X|X]; [inversion X; subst; right; left; reflexivity|right; right; exact X].
Qed.

Lemma best_some cands : forall cur, cur <> None -> best cands cur <> None.
Proof.
  induction cands as [|c r IH]; intros cur H; cbn [best]; [exact H|].
  destruct cur as [b|]; [|congruence].
  destruct (Nat.leb (any_count (r_pats (snd c))) (any_count (r_pats (snd b)))); apply IH; discriminate.
Qed.
Lemma best_nonempty c r : best (c :: r) None <> None.
Proof. cbn [best]. apply best_some. discriminate. Qed.

Lemma exact_row e ks x : In x (exact_matches_t rows0 e ks) -> In (snd x) c17_bindings /\ pmatches (r_pats (snd x)) ks = true.
Proof.
  unfold exact_matches_t. intros H. apply filter_In in H. destruct H as [H1 H2].
  apply andb_prop in H2. destruct x as [j r]. split; [eapply number_In; exact H1|tauto].
Qed.

Lemma scan_row e ks b : d_lookup_scan e ks = Some b ->
  exists r, In r c17_bindings /\ pmatches (r_pats r) ks = true /\ r_eff r = snd b.
Proof.
  unfold d_lookup_scan, lookup_scan_t. destruct (best (exact_matches_t rows0 e ks) None) as [[j r]|] eqn:B; [|discriminate].
  intros H. inversion H; subst. destruct (best_In _ _ _ B) as [X|X]; [discriminate|].
  destruct (exact_row e ks _ X) as [A1 A2]. exists r. auto.
Qed.

Lemma lookup_row e ks b : d_lookup e ks = Some b ->
  exists r, In r c17_bindings /\ pmatches (r_pats r) ks = true /\ r_eff r = snd b.
Proof.
  unfold d_lookup, lookup_t. cbv zeta.
  destruct (filter (fun ir => eager e (snd ir)) (exact_matches_t rows0 e ks)) as [|c0 em] eqn:EM.
  - destruct (best (exact_matches_t rows0 e ks) None) as [[j r]|] eqn:B; [|discriminate].
    intros H. inversion H; subst. destruct (best_In _ _ _ B) as [X|X]; [discriminate|].
    destruct (exact_row e ks _ X) as [A1 A2]. exists r. auto.
  - destruct (best (c0 :: em) None) as [[j r]|] eqn:B; [|discriminate].
    intros H. inversion H; subst. destruct (best_In _ _ _ B) as [X|X]; [discriminate|].
    rewrite <- EM in X. apply filter_In in X. destruct X as [X _].
    destruct (exact_row e ks _ X) as [A1 A2]. exists r. auto.
Qed.

Lemma lookup_none_scan e ks : d_lookup e ks = None -> d_lookup_scan e ks = None.
Proof.
  unfold d_lookup, d_lookup_scan, lookup_t, lookup_scan_t. cbv zeta.
  destruct (exact_matches_t rows0 e ks) as [|c0 m] eqn:M; [reflexivity|].
  destruct (filter (fun ir => eager e (snd ir)) (c0 :: m)) as [|d0 em].
  - intros H. exact H.
  - intros H. exfalso. destruct (best (d0 :: em) None) as [[j r]|] eqn:B; [discriminate|].
    exact (best_nonempty d0 em B).
Qed.

Lemma waits_row e ks : d_waits e ks = true -> exists q, In q c17_bindings /\ pprefix (r_pats q) ks = true.
Proof.
  unfold d_waits, waits_t. destruct (filter (fun ir => eager e (snd ir)) (exact_matches_t rows0 e ks)); [|discriminate].
  intros H. apply existsb_exists in H. destruct H as ([j q] & H1 & H2). apply andb_prop in H2.
  exists q. split; [eapply number_In; exact H1|tauto].
Qed.

(* handlers: only special rows end the prompt or feed *)
Lemma eff_special b ks e : special_eff (snd b) = false -> snd (e_eff b ks e) = None /\ e_feeds b ks e = [].
Proof.
  intros H. split.
  - unfold e_eff. destruct (snd b) as [|x|x]; try reflexivity.
    do 8 (try (destruct x as [x|x|]; try reflexivity)); cbn in H; try discriminate.
  - unfold e_feeds. destruct (snd b =? 20) eqn:E20; [|reflexivity].
    apply Z.eqb_eq in E20. rewrite E20 in H. cbn in H. discriminate.
Qed.

Lemma eff_exit_nofeed b ks e x : snd (e_eff b ks e) = Some x -> e_feeds b ks e = [].
Proof.
  unfold e_eff, e_feeds. destruct (snd b =? 20) eqn:E20; [|reflexivity].
  apply Z.eqb_eq in E20. rewrite E20. cbn. discriminate.
Qed.

(* ---------------------------------------------------------------------- *)
(* one activation of the coroutine *)

Notation dcore := (core estate bid result).
Notation dcall := (call e_eff e_is_cprh e_feeds).
Notation dloop := (loop d_lookup d_lookup_scan d_waits e_eff e_is_cprh e_feeds).
Notation dsend := (send d_lookup d_lookup_scan d_waits e_eff e_is_cprh e_feeds).
Notation ddeliver := (deliver d_lookup d_lookup_scan d_waits e_eff e_is_cprh d_cpr_lookup e_feeds).
Notation ddrain := (drain d_lookup d_lookup_scan d_waits e_eff e_is_cprh d_cpr_lookup e_feeds).
Notation ddeliver_d := (deliver_d d_lookup d_lookup_scan d_waits e_eff e_is_cprh d_cpr_lookup e_feeds).

Definition ENT : kp := (KKey key_ControlM, [13]).

(* no special row matches a run of keys that does not reach the last key of s *)
Definition Q (s : list kp) : Prop :=
  forall a b r, (1 <= b)%nat -> (a + b < length s)%nat -> In r c17_bindings -> special_row r = true ->
    pmatches (r_pats r) (firstn b (skipn a s)) = false.

Lemma skipn_skipn' {T} a : forall i (l : list T), skipn a (skipn i l) = skipn (i + a) l.
Proof.
  intros i. induction i as [|i IH]; intros l; [reflexivity|]. destruct l as [|x l]; [destruct a; reflexivity|].
  cbn [skipn Nat.add]. apply IH.
Qed.

Lemma Q_skipn i s : Q s -> Q (skipn i s).
Proof.
  intros H a b r B L I S. rewrite skipn_skipn'. rewrite skipn_length in L. apply H; auto. lia.
Qed.

Definition Res (c' : dcore) : Prop :=
  cph c' <> CBroken result /\ (cph c' <> CRun result -> pb c' = []) /\
  (pb c' = [] \/ (pb c' = [ENT] /\ kbuf c' = [] /\ cph c' = CRun result)).

Lemma call_plain b ks (c : dcore) : cph c = CRun result -> pb c = [] -> special_eff (snd b) = false ->
  cph (dcall b ks c) = CRun result /\ pb (dcall b ks c) = [] /\ kbuf (dcall b ks c) = kbuf c.
Proof.
  intros PH P S. destruct (eff_special b ks (est c) S) as (A & B).
  unfold call; cbn [cph pb kbuf]. rewrite A, B, PH, P. auto.
Qed.

Lemma call_any b ks (c : dcore) : cph c = CRun result -> pb c = [] -> Res (set_kbuf [] (dcall b ks c)).
Proof.
  intros PH P. unfold Res, call; cbn [cph pb kbuf set_kbuf]. rewrite PH, P, app_nil_r.
  destruct (snd (e_eff b ks (est c))) eqn:X.
  - rewrite (eff_exit_nofeed b ks (est c) r X). split; [discriminate|]. split; [reflexivity|left; reflexivity].
  - split; [discriminate|]. split; [congruence|]. unfold e_feeds. destruct (snd b =? 20); [right; auto|left; reflexivity].
Qed.

Lemma loop_res fuel : forall fl (c : dcore), cph c = CRun result -> pb c = [] -> Q (kbuf c) -> Res (dloop fuel fl c).
Proof.
  induction fuel as [|f IH]; intros fl c PH P HQ; cbn [loop].
  - destruct (kbuf c); unfold Res; cbn [cph pb set_oof]; rewrite PH, P; (split; [discriminate|]); (split; [congruence|left; reflexivity]).
  - destruct (kbuf c) as [|k0 tl0] eqn:KBE.
    { unfold Res. rewrite PH, P. split; [discriminate|]. split; [congruence|left; reflexivity]. }
    rewrite PH.
    destruct (negb fl && d_waits (est c) (k0 :: tl0)).
    { unfold Res. rewrite PH, P. split; [discriminate|]. split; [congruence|left; reflexivity]. }
    destruct (d_lookup (est c) (k0 :: tl0)) as [b|] eqn:LK.
    { rewrite <- KBE. apply call_any; assumption. }
    destruct (scan d_lookup_scan (length (k0 :: tl0)) c) as [[b i]|] eqn:SC.
    + pose proof (@scan_bounds estate bid result d_lookup_scan _ c b i SC) as BD.
      pose proof (@scan_found estate bid result d_lookup_scan _ c b i SC) as FD. rewrite KBE in FD.
      assert (IL : (i < length (k0 :: tl0))%nat).
      { destruct (Nat.eq_dec i (length (k0 :: tl0))) as [EQ|NE]; [|lia]. exfalso.
        rewrite EQ, firstn_all in FD. rewrite (lookup_none_scan _ _ LK) in FD. discriminate. }
      destruct (scan_row _ _ _ FD) as (r & RI & RM & RE).
      assert (NS : special_eff (snd b) = false).
      { destruct (special_eff (snd b)) eqn:X; [|reflexivity]. exfalso.
        pose proof (HQ O i r ltac:(lia) ltac:(lia) RI ltac:(unfold special_row; rewrite RE; exact X)) as Y.
        cbn [skipn] in Y. congruence. }
      destruct (call_plain b (firstn i (k0 :: tl0)) c PH P NS) as (A1 & A2 & A3).
      unfold retry, late. cbn [cph set_kbuf]. rewrite A1.
      apply IH; cbn [cph pb kbuf set_kbuf]; [exact A1|exact A2|]. apply Q_skipn. exact HQ.
    + unfold retry, late. cbn [cph set_kbuf add_ev]. rewrite PH.
      apply IH; cbn [cph pb kbuf set_kbuf add_ev]; [exact PH|exact P|].
      apply (Q_skipn 1) in HQ. exact HQ.
Qed.

(* the buffer of a send: a waiting prefix plus (at most) the new key *)
Lemma Q_of_KB e kb tl : (kb = [] \/ d_waits e kb = true) -> (length tl <= 1)%nat -> Q (kb ++ tl).
Proof.
  intros K LT a b r B L RI RS.
  rewrite app_length in L.
  assert (AB : (a + b <= length kb)%nat) by lia.
  destruct K as [K|K].
  { subst kb. cbn in AB. lia. }
  destruct (waits_row _ _ K) as (q & QI & QP).
  assert (SEG : firstn b (skipn a (kb ++ tl)) = firstn b (skipn a kb)).
  { rewrite skipn_app. replace (a - length kb)%nat with O by lia. cbn [skipn].
    rewrite firstn_app. rewrite skipn_length. replace (b - (length kb - a))%nat with O by lia.
    cbn [firstn]. apply app_nil_r. }
  rewrite SEG.
  destruct (pmatches (r_pats r) (firstn b (skipn a kb))) eqn:PM; [|reflexivity]. exfalso.
  pose proof (inside_segment (r_pats r) (r_pats q) kb a b QP AB PM) as I.
  rewrite (crit_inside r q RI QI RS) in I. discriminate.
Qed.

Lemma send_res it (c : dcore) : cph c = CRun result -> pb c = [] ->
  (kbuf c = [] \/ d_waits (est c) (kbuf c) = true) -> Res (dsend it c).
Proof.
  intros PH P K. destruct it as [k|]; unfold send.
  - apply loop_res; cbn [cph pb kbuf set_kbuf]; [exact PH|exact P|].
    apply (Q_of_KB (est c)); [exact K|cbn; lia].
  - apply loop_res; [exact PH|exact P|]. rewrite <- (app_nil_r (kbuf c)). apply (Q_of_KB (est c)); [exact K|cbn; lia].
Qed.

Lemma d_cpr_silent : cpr_silent e_eff d_cpr_lookup e_feeds.
Proof.
  intros e b H ks e'.
  assert (X : snd b = 19).
  { destruct e as [t cu q u x]. destruct t as [|t0 t]; destruct cu as [|cu]; destruct q;
      vm_compute in H; inversion H; reflexivity. }
  unfold e_eff, e_feeds. rewrite X. split; reflexivity.
Qed.

Lemma deliver_res it (c : dcore) : cph c = CRun result -> pb c = [] ->
  (kbuf c = [] \/ d_waits (est c) (kbuf c) = true) -> Res (ddeliver it c).
Proof.
  intros PH P K. destruct it as [k|]; cbn [deliver]; [|apply send_res; assumption].
  destruct (is_cpr k); [|apply send_res; assumption].
  destruct (@handle_cpr_eq estate bid result e_eff e_is_cprh d_cpr_lookup e_feeds d_cpr_silent k c) as (E1 & E2 & E3 & E4 & _).
  unfold Res. rewrite E3, E4, PH, P. split; [discriminate|]. split; [congruence|left; reflexivity].
Qed.

(* The hypothesis of the script theorem holds for the regenerated table of a default session. *)
Theorem d_no_pushback : no_pushback d_lookup d_lookup_scan d_waits e_eff e_is_cprh d_cpr_lookup e_feeds.
Proof.
  intros c it PH P K ND. unfold deliver_d in *.
  pose proof (deliver_res it c PH P K) as (NB & DN & SH).
  destruct (cph (ddeliver it c)) eqn:PC; [|apply DN; congruence|apply DN; congruence].
  destruct SH as [SH|(SH & KE & _)].
  - rewrite SH in *. cbn [drain] in *. cbn [cph clear_pb] in ND. congruence.
  - rewrite SH in *. cbn [drain] in *.
    set (c1 := clear_pb (ddeliver it c)) in *.
    assert (R1 : Res (ddeliver (IKey ENT) c1)).
    { apply deliver_res; [exact PC|reflexivity|left; exact KE]. }
    destruct R1 as (NB1 & DN1 & _).
    destruct (cph (ddeliver (IKey ENT) c1)) eqn:P1.
    + destruct (pb (ddeliver (IKey ENT) c1)); cbn [cph set_deep clear_pb] in ND; congruence.
    + cbn [pb set_pb]. rewrite DN1; [reflexivity|congruence].
    + contradiction.
Qed.

Lemma script_real_table ls e r lines rs :
  quiet ls ->
  let s := @run estate bid result pstate d_lookup d_lookup_scan d_waits e_eff e_is_cprh d_cpr_lookup e_feeds
                e_restart e_pfeed e_pflush REof ls (@init estate bid result pstate e Model.C03_Vt100Parser.init r) in
  @lines_ok estate bid result d_lookup d_lookup_scan d_waits e_eff e_is_cprh d_cpr_lookup e_feeds e_restart (e_restart e) lines rs ->
  (exists tail, nc (decoded s) ++ tail = concat lines) ->
  results s = firstn (length (results s)) rs.
Proof.
  exact (@script estate bid result pstate d_lookup d_lookup_scan d_waits e_eff e_is_cprh d_cpr_lookup e_feeds
           e_restart e_pfeed e_pflush REof d_cpr_silent d_no_pushback ls e Model.C03_Vt100Parser.init r lines rs).
Qed.

(* the same with the byte-level input of C03 (PosixStdinReader's incremental
   UTF-8 decoder + parser + Vt100Input._buffer) as the parser component: the
   pipe holds BYTES, a read takes any number of them, also a part of a
   multi-byte character or of an escape sequence *)
Lemma script_real_table_bytes ls e r lines rs :
  quiet ls ->
  let s := @run estate bid result vstate d_lookup d_lookup_scan d_waits e_eff e_is_cprh d_cpr_lookup e_feeds
                e_restart read_keys flush_keys REof ls (@init estate bid result vstate e vinit r) in
  @lines_ok estate bid result d_lookup d_lookup_scan d_waits e_eff e_is_cprh d_cpr_lookup e_feeds e_restart (e_restart e) lines rs ->
  (exists tail, nc (decoded s) ++ tail = concat lines) ->
  results s = firstn (length (results s)) rs.
Proof.
  exact (@script estate bid result vstate d_lookup d_lookup_scan d_waits e_eff e_is_cprh d_cpr_lookup e_feeds
           e_restart read_keys flush_keys REof d_cpr_silent d_no_pushback ls e vinit r lines rs).
Qed.

(* ---------------------------------------------------------------------- *)
(* [deep] (a fed key whose own handler feeds again: the model stops following)
   is never set by an activation on the real table: the only fed key press is
   ControlM, and no feeding row can match it. *)

Lemma loop_deep fuel : forall fl (c : dcore), deep (dloop fuel fl c) = deep c.
Proof.
  induction fuel as [|f IH]; intros fl c; cbn [loop].
  - destruct (kbuf c); reflexivity.
  - destruct (kbuf c) as [|k0 tl0]; [reflexivity|].
    assert (R : forall c1 : dcore, deep c1 = deep c -> deep (retry (dloop f false) c1) = deep c).
    { intros c1 H. unfold retry. destruct (late c1); [exact H|rewrite IH; exact H]. }
    destruct (cph c); [| |reflexivity].
    + destruct (negb fl && d_waits (est c) (k0 :: tl0)); [reflexivity|].
      destruct (d_lookup (est c) (k0 :: tl0)); [reflexivity|].
      destruct (scan d_lookup_scan (length (k0 :: tl0)) c) as [[x i]|]; apply R; reflexivity.
    + destruct (negb fl && d_waits (est c) (k0 :: tl0)); [reflexivity|].
      destruct (d_lookup (est c) (k0 :: tl0)); [reflexivity|].
      destruct (scan d_lookup_scan (length (k0 :: tl0)) c) as [[x i]|]; apply R; reflexivity.
Qed.

Lemma deliver_deep it (c : dcore) : deep (ddeliver it c) = deep c.
Proof.
  destruct it as [k|]; cbn [deliver]; [|unfold send; rewrite loop_deep; reflexivity].
  destruct (is_cpr k); [|unfold send; rewrite loop_deep; reflexivity].
  unfold handle_cpr. destruct (d_cpr_lookup (est c)); reflexivity.
Qed.

(* ControlM alone in the buffer: whatever fires, nothing is fed *)
Lemma send_ent_pb (c : dcore) : cph c = CRun result -> pb c = [] -> kbuf c = [] -> pb (dsend (IKey ENT) c) = [].
Proof.
  intros PH P KE. unfold send. rewrite KE. cbn [length app loop kbuf set_kbuf cph est]. rewrite PH.
  destruct (negb false && d_waits (est c) [ENT]); [exact P|].
  destruct (d_lookup (est c) [ENT]) as [b|] eqn:LK.
  - cbn [pb set_kbuf call]. rewrite P, app_nil_r. unfold e_feeds.
    destruct (snd b =? 20) eqn:E20; [|reflexivity]. exfalso.
    destruct (lookup_row _ _ _ LK) as (r & RI & RM & RE). apply Z.eqb_eq in E20. rewrite E20 in RE.
    rewrite (crit_feed r RI RE) in RM. vm_compute in RM. discriminate.
  - cbn [length scan firstn kbuf set_kbuf est]. rewrite (lookup_none_scan _ _ LK).
    unfold retry, late. cbn [cph set_kbuf add_ev]. rewrite PH. cbn [loop kbuf set_kbuf]. exact P.
Qed.

Theorem d_no_deep (c : dcore) it : cph c = CRun result -> pb c = [] ->
  (kbuf c = [] \/ d_waits (est c) (kbuf c) = true) -> deep (ddeliver_d it c) = deep c.
Proof.
  intros PH P K. unfold deliver_d.
  pose proof (deliver_res it c PH P K) as (NB & DN & SH).
  destruct (cph (ddeliver it c)) eqn:PC; [|apply deliver_deep|apply deliver_deep].
  destruct SH as [SH|(SH & KE & _)]; rewrite SH; cbn [drain].
  - cbn [deep clear_pb]. apply deliver_deep.
  - set (c1 := clear_pb (ddeliver it c)).
    assert (E1 : pb (ddeliver (IKey ENT) c1) = []).
    { cbn [deliver]. change (is_cpr ENT) with false. cbv iota. apply send_ent_pb; [exact PC|reflexivity|exact KE]. }
    rewrite E1. destruct (cph (ddeliver (IKey ENT) c1)); cbn [drain deep set_pb]; rewrite deliver_deep; cbn [deep clear_pb]; apply deliver_deep.
Qed.

(* queue-level conservation on the real table, for every label sequence
   (timeouts and close included), also over bytes *)
Lemma conservation_real_table ls e r :
  let s := @run estate bid result vstate d_lookup d_lookup_scan d_waits e_eff e_is_cprh d_cpr_lookup e_feeds
                e_restart read_keys flush_keys REof ls (@init estate bid result vstate e vinit r) in
  nc (rpops (co s)) ++ nc (ikeys (store s)) ++ nc (ikeys (queue s)) = nc (decoded s) /\ pb (co s) = [].
Proof.
  exact (@queue_conservation estate bid result vstate d_lookup d_lookup_scan d_waits e_eff e_is_cprh d_cpr_lookup e_feeds
           e_restart read_keys flush_keys REof d_cpr_silent d_no_pushback ls e vinit r).
Qed.

(* ---------------------------------------------------------------------- *)
(* [deep] lifted to whole runs, and handler-level conservation on the real
   table (the C-j binding feeds ControlM), every label sequence - flush
   timeouts and close included - over bytes *)

Lemma d_no_deep_all : no_deep d_lookup d_lookup_scan d_waits e_eff e_is_cprh d_cpr_lookup e_feeds.
Proof. intros c it PH P K. apply d_no_deep; assumption. Qed.

Lemma handler_conservation_real_table ls e r :
  let s := @run estate bid result vstate d_lookup d_lookup_scan d_waits e_eff e_is_cprh d_cpr_lookup e_feeds
                e_restart read_keys flush_keys REof ls (@init estate bid result vstate e vinit r) in
  deep (co s) = false /\
  exists t, nc (tl_all t) = nc (handled (co s)) ++ nc (kbuf (co s)) /\
            nc (tl_pop t) = nc (rpops (co s)) /\ Permutation (tl_fed t) (fedl (co s)).
Proof.
  exact (@handler_conservation estate bid result vstate d_lookup d_lookup_scan d_waits e_eff e_is_cprh d_cpr_lookup e_feeds
           e_restart read_keys flush_keys REof d_cpr_silent d_no_pushback d_no_deep_all ls e vinit r).
Qed.

(* the only key press a handler of the real table ever feeds is ControlM (C-j's _newline2) *)
Lemma fed_real_table ls e r :
  let s := @run estate bid result vstate d_lookup d_lookup_scan d_waits e_eff e_is_cprh d_cpr_lookup e_feeds
                e_restart read_keys flush_keys REof ls (@init estate bid result vstate e vinit r) in
  Forall (fun k => k = ENT) (fedl (co s)).
Proof.
  intros s. unfold s. apply fed_all. intros b ks e0. unfold e_feeds.
  destruct (snd b =? 20); repeat constructor.
Qed.
