(* C19 - _MergedStyle's cached combined Style is transparent: after any
   history of look-ups interleaved with switches of the dynamic sheets, a
   look-up answers like a freshly built merge of the sheets as they are now,
   i.e. like Style(concatenated current rules). *)
From Coq Require Import ZArith List Bool Lia.
From PTK Require Import Lib.Py Lib.C19_Str Model.C19_Style Model.C19_Merged.
Import ListNotations.
Open Scope Z_scope.

Lemma hv_eqb_sound : forall a b, hv_eqb a b = true -> a = b.
Proof.
  fix IH 1. intros a b H. destruct a as [x| |xs]; destruct b as [y| |ys]; cbn [hv_eqb] in H; try discriminate.
  - apply Z.eqb_eq in H. subst. reflexivity.
  - reflexivity.
  - f_equal. revert ys H. induction xs as [|x xs IHxs]; intros [|y ys] H; try discriminate; [reflexivity|].
    apply andb_prop in H. destruct H as [H1 H2]. apply IH in H1. apply IHxs in H2. subst. reflexivity.
Qed.

(* the invalidation hash determines the rules: whenever two situations give a
   style object the same hash, it has the same style_rules in both *)
Theorem hash_determines_rules : forall pool t env1 env2,
  inv_hash env1 t = inv_hash env2 t -> style_rules pool env1 t = style_rules pool env2 t.
Proof.
  intros pool. fix IH 1. intros t env1 env2 H. destruct t as [id| |slot|l]; cbn [inv_hash style_rules] in *.
  - reflexivity.
  - reflexivity.
  - destruct (env_get env1 slot) as [i1|], (env_get env2 slot) as [i2|]; try discriminate; [|reflexivity].
    inversion H; subst. reflexivity.
  - inversion H as [H1]. clear H. induction l as [|x r IHr]; [reflexivity|].
    cbn [map flat_map] in *. inversion H1 as [[Hx Hr]].
    rewrite (IH x env1 env2 Hx). rewrite (IHr Hr). reflexivity.
Qed.

Definition cache_inv (pool : pool_t) (t : sty) (c : mcache) : Prop :=
  match c with
  | None => True
  | Some (k, rules) => exists env0, k = inv_hash env0 t /\ rules = style_rules pool env0 t
  end.

Lemma lookup_obj_spec : forall pool env t c s,
  cache_inv pool t c ->
  fst (lookup_obj pool env t c s) = fresh_lookup pool env t s /\
  cache_inv pool t (snd (lookup_obj pool env t c s)).
Proof.
  intros pool env t c s Hc. unfold fresh_lookup.
  destruct t as [id| |slot|l]; cbn [lookup_obj fst snd]; try (split; [reflexivity | exact Hc]).
  destruct c as [[k rules]|].
  - destruct (hv_eqb (inv_hash env (SMerged l)) k) eqn:E; cbn [fst snd].
    + split; [|exact Hc]. apply hv_eqb_sound in E. destruct Hc as (env0 & Hk & Hr). subst k rules.
      rewrite (hash_determines_rules pool (SMerged l) env0 env (eq_sym E)). reflexivity.
    + split; [reflexivity|]. exists env. split; reflexivity.
  - cbn [fst snd]. split; [reflexivity|]. exists env. split; reflexivity.
Qed.

Lemma Forall2_set_nth {A B} (P : A -> B -> Prop) : forall k (xs : list A) (ys : list B) x y,
  Forall2 P xs ys -> nth_error xs k = Some x -> P x y -> Forall2 P xs (set_nth k y ys).
Proof.
  induction k as [|k IH]; intros xs ys x y H Hn Hp; destruct H as [|x0 y0 xs' ys' H0 Hrest]; cbn in Hn; try discriminate.
  - inversion Hn; subst. cbn. constructor; assumption.
  - cbn. constructor; [exact H0|]. eapply IH; eauto.
Qed.

Lemma Forall2_nth {A B} (P : A -> B -> Prop) : forall k (xs : list A) (ys : list B) x,
  Forall2 P xs ys -> nth_error xs k = Some x -> exists y, nth_error ys k = Some y /\ P x y.
Proof.
  induction k as [|k IH]; intros xs ys x H Hn; destruct H as [|x0 y0 xs' ys' H0 Hrest]; cbn in Hn; try discriminate.
  - inversion Hn; subst. exists y0. split; [reflexivity | exact H0].
  - cbn. eapply IH; eauto.
Qed.

Theorem merged_cache_transparent : forall pool objs es env caches,
  Forall2 (cache_inv pool) objs caches ->
  run_events pool objs (env, caches) es = run_events_fresh pool objs env es.
Proof.
  intros pool objs. induction es as [|e r IH]; intros env caches Hinv; [reflexivity|].
  cbn [run_events]. destruct e as [slot o|k s|k]; cbn [step_event run_events_fresh].
  - rewrite (IH _ _ Hinv). reflexivity.
  - destruct (nth_error objs k) as [t|] eqn:Et.
    + destruct (Forall2_nth _ _ _ _ _ Hinv Et) as (c & Ec & Hc). rewrite Ec.
      destruct (lookup_obj_spec pool env t c s Hc) as [A B].
      destruct (lookup_obj pool env t c s) as [res c']. cbn [fst snd] in *.
      rewrite A. f_equal. apply IH. eapply Forall2_set_nth; eauto.
    + rewrite (IH _ _ Hinv). reflexivity.
  - destruct (nth_error objs k); rewrite (IH _ _ Hinv); reflexivity.
Qed.

Corollary merged_cache_transparent_fresh : forall pool objs es,
  run_events pool objs ([], map (fun _ => None) objs) es = run_events_fresh pool objs [] es.
Proof.
  intros. apply merged_cache_transparent. induction objs; cbn; constructor; [exact I | assumption].
Qed.

(* and a fresh merge is Style(concatenated current rules) *)
Lemma fresh_merged_is_concat : forall pool env l s,
  fresh_lookup pool env (SMerged l) s
  = style_get (flat_map (style_rules pool env) l) s DEFAULT_ATTRS.
Proof. reflexivity. Qed.
