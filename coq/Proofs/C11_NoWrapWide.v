(* C11 - liveness without line wrapping for the WIDE-character sub-domain
   (source width = display width >= 1 for every character; double-width CJK
   characters, horizontal scroll landing in the middle of a 2-cell character):
   after _scroll_without_linewrapping + _copy_body the cursor is registered at
   (row - vertical_scroll, prefix cells + cells before the cursor - horizontal_scroll),
   inside the window, on the cell showing its character. *)
From Coq Require Import ZArith List Bool Lia.
From PTK Require Import Lib.Sx Lib.Py Model.C11_Scroll Model.C11_CopyBody
     Proofs.C11_ScrollFacts Proofs.C11_CopyFacts Proofs.C11_WideFacts Proofs.C11_SeqFacts Proofs.C11_Main.
Import ListNotations.
Open Scope Z_scope.

Lemma firstn_split {T} : forall (l : list T) n i, (n <= i)%nat ->
  firstn i l = firstn n l ++ firstn (i - n) (skipn n l).
Proof.
  induction l as [|x r IH]; intros n i H.
  - now rewrite !firstn_nil, skipn_nil, firstn_nil.
  - destruct n as [|n']; [cbn [firstn skipn app]; now rewrite Nat.sub_0_r|].
    destruct i as [|i']; [lia|]. cbn [firstn skipn app Nat.sub]. f_equal. apply IH. lia.
Qed.

Lemma strw_ext : forall f g s, (forall c, f c = g c) -> strw f s = strw g s.
Proof. intros f g s H. induction s as [|c r IH]; cbn [strw]; [reflexivity | now rewrite H, IH]. Qed.

Section NoWrapW.
  Variables (sw dw : Z -> Z) (disp : Z -> str).
  Variables (haspfx : bool) (pfx : Z -> Z -> str).
  Variables (width height xpos ypos : Z).
  Hypothesis Hsd : forall c, sw c = dw c.
  Hypothesis Hdw : forall c, 1 <= dw c.

  Local Notation put' := (put sw dw disp width xpos ypos).
  Local Notation copy_plain' := (copy_plain sw dw disp false width height xpos ypos).
  Local Notation copy_input' := (copy_input sw dw disp false haspfx pfx width height xpos ypos).
  Local Notation copy_line' := (copy_line sw dw disp false haspfx pfx width height xpos ypos).
  Local Notation copy_lines' := (copy_lines sw dw disp false haspfx pfx width height xpos ypos).

  Lemma dw_nonneg : forall c, 0 <= dw c.
  Proof. intros c. pose proof (Hdw c). lia. Qed.

  Lemma wput_cr2_other : forall isin l kc c s key,
    isin = false \/ key <> (l, kc) ->
    alist_get (cr2 (put' isin l kc c s)) key = alist_get (cr2 s) key.
  Proof.
    intros isin l kc c s key H. rewrite (put_wide sw dw disp width xpos ypos Hdw).
    destruct (_ && _); cbn [cr2]; [|reflexivity].
    destruct isin; [|reflexivity]. destruct H as [H | H]; [discriminate|].
    cbn [alist_get]. destruct (pos_eqb (l, kc) key) eqn:E; [|reflexivity].
    apply pos_eqb_eq in E. congruence.
  Qed.

  Lemma wci_cy : forall cs l col sk wc s, cy (copy_input' cs l col sk wc s) = cy s.
  Proof.
    induction cs as [|c r IH]; intros; cbn [copy_input andb]; [reflexivity|].
    rewrite IH. apply (wput_cy sw dw disp width xpos ypos Hdw).
  Qed.

  Lemma wci_keys : forall cs l col sk wc s key,
    fst key <> l \/ snd key < col + sk ->
    alist_get (cr2 (copy_input' cs l col sk wc s)) key = alist_get (cr2 s) key.
  Proof.
    induction cs as [|c r IH]; intros l col sk wc s key Hk; cbn [copy_input andb]; [reflexivity|].
    rewrite IH by (destruct Hk; [now left | right; lia]).
    apply wput_cr2_other. right. intros ->. cbn [fst snd] in Hk. lia.
  Qed.

  (* character i of the input is drawn [cells before it] to the right of where the loop starts *)
  Lemma wci_reg : forall cs l col sk wc s i c,
    nth_error cs i = Some c -> 0 <= cx s -> cx s + strw dw (firstn i cs) < width -> 0 <= cy s ->
    alist_get (cr2 (copy_input' cs l col sk wc s)) (l, col + sk + Z.of_nat i)
    = Some (cy s + ypos, cx s + strw dw (firstn i cs) + xpos).
  Proof.
    induction cs as [|c0 r IH]; intros l col sk wc s i c Hn Hx Hi Hy; [destruct i; discriminate|].
    cbn [copy_input andb]. destruct i as [|i'].
    - cbn [Z.of_nat firstn strw] in *. rewrite !Z.add_0_r in *.
      rewrite wci_keys by (right; cbn [snd]; lia).
      rewrite (put_wide sw dw disp width xpos ypos Hdw).
      destruct ((0 <=? cx s) && (0 <=? cy s) && (cx s <? width)) eqn:E; [|lia].
      cbn [cr2 alist_get]. now rewrite pos_eqb_refl.
    - cbn [nth_error firstn strw] in *. pose proof (dw_nonneg c0).
      replace (col + sk + Z.of_nat (S i')) with (col + 1 + sk + Z.of_nat i') by lia.
      rewrite (IH l (col + 1) sk wc _ i' c Hn);
        rewrite ?(wput_cx sw dw disp width xpos ypos Hdw), ?(wput_cy sw dw disp width xpos ypos Hdw); try lia.
      do 2 f_equal; lia.
  Qed.

  (* the horizontal skip: characters are dropped while the remaining scroll is
     positive, so the scroll may end up NEGATIVE (in the middle of a wide
     character); a character whose preceding cells reach the scroll is kept *)
  Lemma skip_loop_wide : forall line h sk i, h <= strw sw (firstn i line) ->
    exists n, (n <= i)%nat /\
      skip_loop sw line h sk = (skipn n line, h - strw sw (firstn n line), sk + Z.of_nat n) /\
      h - strw sw (firstn n line) <= 0.
  Proof.
    induction line as [|c r IH]; intros h sk i Hh.
    - rewrite firstn_nil in Hh. cbn [strw] in Hh. exists O. cbn [skip_loop skipn firstn strw Z.of_nat].
      split; [lia|]. split; [f_equal; [f_equal; lia | lia] | lia].
    - cbn [skip_loop]. destruct (0 <? h) eqn:E.
      + destruct i as [|i']; [cbn [firstn strw] in Hh; lia|]. cbn [firstn strw] in Hh.
        destruct (IH (h - sw c) (sk + 1) i' ltac:(lia)) as (n & Hn & Heq & Hle).
        exists (S n). split; [lia|]. rewrite Heq. cbn [skipn firstn strw]. split; [f_equal; [f_equal; lia | lia] | lia].
      + exists O. cbn [skipn firstn strw Z.of_nat]. split; [lia|]. split; [f_equal; [f_equal; lia | lia] | lia].
  Qed.

  Definition wpw_of (l : Z) : Z := if haspfx then strw dw (pfx l 0) else 0.
  Definition wline_start (l : Z) (s : cst) : cst :=
    if haspfx then copy_plain' (pfx l 0) l s else s.

  Lemma wpw_nonneg : forall l, 0 <= wpw_of l.
  Proof. intros l. unfold wpw_of. destruct haspfx; [apply strw_nonneg; apply dw_nonneg | lia]. Qed.

  Lemma wline_start_state : forall l s, cx s = 0 ->
    cx (wline_start l s) = wpw_of l /\ cy (wline_start l s) = cy s /\
    cr2 (wline_start l s) = cr2 s.
  Proof.
    intros l s Hx. unfold wline_start, wpw_of. destruct haspfx; [|repeat split; lia].
    destruct (wcopy_plain_cy sw dw disp false width height xpos ypos Hdw (pfx l 0) l s) as (A & B & _); [now left|].
    destruct (wcopy_plain_adv sw dw disp false width height xpos ypos Hdw (pfx l 0) l s) as (_ & _ & C).
    rewrite A, B, C. repeat split; lia.
  Qed.

  Lemma wcl_cy : forall h line l s, cy (copy_line' h line l s) = cy s.
  Proof.
    intros h line l s. unfold copy_line. fold (wline_start l s).
    assert (B : cy (wline_start l s) = cy s).
    { unfold wline_start. destruct haspfx; [|reflexivity].
      apply (wcopy_plain_cy sw dw disp false width height xpos ypos Hdw). now left. }
    destruct (h =? 0); [now rewrite wci_cy|].
    destruct (skip_loop sw line h 0) as [[line' h'] sk]. rewrite wci_cy. cbn [cy]. exact B.
  Qed.

  Lemma wcl_keys : forall h line l s key, fst key <> l ->
    alist_get (cr2 (copy_line' h line l s)) key = alist_get (cr2 s) key.
  Proof.
    intros h line l s key Hk. unfold copy_line. fold (wline_start l s).
    assert (C : cr2 (wline_start l s) = cr2 s).
    { unfold wline_start. destruct haspfx; [|reflexivity].
      apply (wcopy_plain_adv sw dw disp false width height xpos ypos Hdw). }
    destruct (h =? 0); [rewrite wci_keys by (now left); now rewrite C|].
    destruct (skip_loop sw line h 0) as [[line' h'] sk]. rewrite wci_keys by (now left). cbn [cr2]. now rewrite C.
  Qed.

  Lemma wcl_reg : forall h line l s i c,
    cx s = 0 -> 0 <= cy s -> nth_error line i = Some c ->
    0 <= h <= strw dw (firstn i line) -> wpw_of l + strw dw (firstn i line) - h < width ->
    alist_get (cr2 (copy_line' h line l s)) (l, Z.of_nat i)
    = Some (cy s + ypos, wpw_of l + strw dw (firstn i line) - h + xpos).
  Proof.
    intros h line l s i c Hx Hy Hn Hh Hfit. unfold copy_line. fold (wline_start l s).
    destruct (wline_start_state l s Hx) as (A & B & C). pose proof (wpw_nonneg l) as Hpw.
    destruct (h =? 0) eqn:E0.
    - assert (h = 0) by lia. subst h.
      pose proof (wci_reg line l 0 0 0 (wline_start l s) i c Hn) as H.
      rewrite A, B in H. rewrite !Z.add_0_l in H. rewrite H by lia. do 2 f_equal; lia.
    - destruct (skip_loop_wide line h 0 i) as (n & Hni & Heq & Hle).
      { rewrite (strw_ext sw dw _ Hsd). lia. }
      rewrite Heq.
      assert (Hn' : nth_error (skipn n line) (i - n) = Some c).
      { rewrite nth_error_skipn. replace (n + (i - n))%nat with i by lia. exact Hn. }
      pose proof (firstn_split line n i Hni) as Hsplit.
      assert (Hw : strw dw (firstn i line) = strw sw (firstn n line) + strw dw (firstn (i - n) (skipn n line))).
      { rewrite Hsplit, strw_app. now rewrite (strw_ext sw dw _ Hsd). }
      pose proof (wci_reg (skipn n line) l 0 (0 + Z.of_nat n) 0
                    (mkcst (cx (wline_start l s) - (h - strw sw (firstn n line))) (cy (wline_start l s))
                           (cscr (wline_start l s)) (cr2 (wline_start l s)) (cvl (wline_start l s)))
                    (i - n)%nat c Hn') as H.
      cbn [cx cy] in H.
      replace (0 + (0 + Z.of_nat n) + Z.of_nat (i - n)) with (Z.of_nat i) in H by lia.
      rewrite H; rewrite ?A, ?B; try lia. do 2 f_equal; lia.
  Qed.

  Lemma wcls_keys : forall h rest lineno s key, fst key < lineno ->
    alist_get (cr2 (copy_lines' h rest lineno s)) key = alist_get (cr2 s) key.
  Proof.
    induction rest as [|ln r IH]; intros lineno s key Hk; cbn [copy_lines]; [reflexivity|].
    destruct (cy s <? height); [|reflexivity].
    rewrite IH by lia. cbn [cr2]. rewrite wcl_keys by lia. reflexivity.
  Qed.

  Lemma wcls_reg : forall h rest lineno s j line i c,
    0 <= cy s -> nth_error rest j = Some line -> nth_error line i = Some c ->
    cy s + Z.of_nat j < height ->
    0 <= h <= strw dw (firstn i line) ->
    wpw_of (lineno + Z.of_nat j) + strw dw (firstn i line) - h < width ->
    alist_get (cr2 (copy_lines' h rest lineno s)) (lineno + Z.of_nat j, Z.of_nat i)
    = Some (cy s + Z.of_nat j + ypos, wpw_of (lineno + Z.of_nat j) + strw dw (firstn i line) - h + xpos).
  Proof.
    induction rest as [|ln0 r IH]; intros lineno s j line i c Hy Hj Hi Hrow Hh Hfit;
      [destruct j; discriminate|].
    cbn [copy_lines]. destruct (cy s <? height) eqn:Ey; [|lia].
    destruct j as [|j'].
    - cbn [nth_error] in Hj. inversion Hj; subst ln0. cbn [Z.of_nat] in *. rewrite !Z.add_0_r in *.
      rewrite wcls_keys by (cbn [fst]; lia). cbn [cr2].
      rewrite (wcl_reg h line lineno _ i c); cbn [cx cy]; try assumption; try reflexivity.
    - cbn [nth_error] in Hj.
      replace (lineno + Z.of_nat (S j')) with (lineno + 1 + Z.of_nat j') in * by lia.
      rewrite (IH (lineno + 1) _ j' line i c); cbn [cy]; rewrite ?wcl_cy; cbn [cy]; try assumption; try lia.
      do 2 f_equal. lia.
  Qed.
End NoWrapW.

(* No wrapping, wide sub-domain (sw = dw >= 1), any prefixes (the cursor line's
   prefix leaves one cell), any previous scroll state *)
Lemma nowrap_wide_cursor :
  forall sw dw disp (haspfx : bool) pfx width height xpos ypos top bottom lft rgt lines cyr cxc st allow,
  (forall c, sw c = dw c) -> (forall c, 1 <= dw c) ->
  1 <= height -> 0 <= top /\ 0 <= bottom /\ 0 <= lft /\ 0 <= rgt ->
  0 <= cyr < len lines -> 0 <= cxc < len (nth (Z.to_nat cyr) lines []) ->
  let line := nth (Z.to_nat cyr) lines [] in
  let pw := if haspfx then strw sw (pfx cyr 0) else 0 in
  1 <= width - pw ->
  let s' := scroll_nowrap allow sw line pw width height top bottom lft rgt cyr cxc (len lines) st in
  let o := copy_body sw dw disp false haspfx pfx width height xpos ypos lines s' in
  let y := cyr - vs s' in
  let x := pw + strw sw (slice_to line cxc) - hs s' in
  0 <= y < height /\ pw <= x < width /\
  alist_get (cr2 o) (cyr, cxc) = Some (y + ypos, x + xpos) /\
  exists c, nth_error line (Z.to_nat cxc) = Some c /\
            cstr (scr_get (cscr o) (y + ypos) (x + xpos)) = disp c.
Proof.
  intros sw dw disp haspfx pfx width height xpos ypos top bottom lft rgt lines cyr cxc st allow
         Hsd Hdw Hh (Ht & Hb & Hl & Hr) Hcy Hcx line pw Hw s' o y x.
  change (0 <= cxc < len line) in Hcx.
  assert (Hsw0 : forall c, 0 <= sw c) by (intros c; rewrite Hsd; pose proof (Hdw c); lia).
  assert (Hpw : pw = wpw_of dw haspfx pfx cyr).
  { unfold pw, wpw_of. destruct haspfx; [apply strw_ext; exact Hsd | reflexivity]. }
  assert (Hpw0 : 0 <= pw) by (unfold pw; destruct haspfx; [now apply strw_nonneg | lia]).
  assert (Eline : nth_error lines (Z.to_nat cyr) = Some line).
  { unfold line. apply nth_error_nth'. unfold len in Hcy. lia. }
  destruct (nth_error line (Z.to_nat cxc)) as [c|] eqn:Ec.
  2:{ apply nth_error_None in Ec. unfold len in Hcx. lia. }
  assert (Hsl : slice_to line cxc = firstn (Z.to_nat cxc) line) by (apply slice_to_in_range; lia).
  (* the cursor cell lies strictly inside the line's cells *)
  assert (Hpos : 0 <= strw sw (slice_to line cxc) < strw sw line).
  { rewrite Hsl. split; [now apply strw_nonneg|].
    rewrite <- (firstn_skipn (Z.to_nat cxc) line) at 2. rewrite strw_app.
    assert (Hsk : exists r, skipn (Z.to_nat cxc) line = c :: r).
    { clear - Ec. revert Ec. generalize (Z.to_nat cxc). induction line as [|a r IH]; intros n Hn; [destruct n; discriminate|].
      destruct n as [|n']; cbn [nth_error skipn] in *; [inversion Hn; eauto | now apply IH]. }
    destruct Hsk as [r ->]. cbn [strw]. pose proof (strw_nonneg sw r Hsw0). pose proof (Hdw c). rewrite Hsd. lia. }
  set (pos := strw sw (slice_to line cxc)) in *.
  destruct (do_scroll_visible allow (vs st) top bottom cyr height (len lines) Hh Hcy Ht Hb) as (V0 & V1).
  destruct (do_scroll_visible allow (hs st) lft rgt pos (width - pw)
              (Z.max (strw sw line) (hs st + width)) Hw ltac:(lia) Hl Hr) as (H0 & H1).
  assert (Es : s' = mkss (do_scroll allow (vs st) top bottom cyr height (len lines)) 0
                         (do_scroll allow (hs st) lft rgt pos (width - pw) (Z.max (strw sw line) (hs st + width))))
    by reflexivity.
  set (v := do_scroll allow (vs st) top bottom cyr height (len lines)) in *.
  set (h := do_scroll allow (hs st) lft rgt pos (width - pw) (Z.max (strw sw line) (hs st + width))) in *.
  assert (Hvs : vs s' = v) by (rewrite Es; reflexivity).
  assert (Hhs : hs s' = h) by (rewrite Es; reflexivity).
  assert (Hv2 : vs2 s' = 0) by (rewrite Es; reflexivity).
  unfold y, x. rewrite Hvs, Hhs. fold pos.
  split; [lia|]. split; [lia|].
  assert (Hget : alist_get (cr2 o) (cyr, cxc) = Some (cyr - v + ypos, pw + pos - h + xpos)).
  { unfold o, copy_body. rewrite Hvs, Hhs, Hv2.
    pose proof (wcls_reg sw dw disp haspfx pfx width height xpos ypos Hsd Hdw h
                  (skipn (Z.to_nat v) lines) v (mkcst 0 (- 0) [] [] [])
                  (Z.to_nat (cyr - v)) line (Z.to_nat cxc) c) as HR.
    cbn [cy] in HR. rewrite !Z2Nat.id in HR by lia.
    replace (v + (cyr - v)) with cyr in HR by lia. rewrite <- Hpw in HR.
    assert (Hposd : strw dw (firstn (Z.to_nat cxc) line) = pos).
    { unfold pos. rewrite Hsl. symmetry. apply strw_ext. exact Hsd. }
    rewrite Hposd in HR.
    assert (E1 : nth_error (skipn (Z.to_nat v) lines) (Z.to_nat (cyr - v)) = Some line).
    { rewrite nth_error_skipn. replace (Z.to_nat v + Z.to_nat (cyr - v))%nat with (Z.to_nat cyr) by lia. exact Eline. }
    etransitivity; [apply HR; try assumption; lia|]. do 2 f_equal; lia. }
  split; [exact Hget|].
  assert (Hfit : forall l, false = false \/ haspfx = false \/ strw dw (pfx l 0) <= width) by (intros l; now left).
  pose proof (registered_is_right_wide sw dw disp false haspfx pfx width height xpos ypos lines s' Hdw Hfit
                ltac:(rewrite Hvs; lia)) as HR.
  cbv zeta in HR. destruct (HR (cyr, cxc) _ Hget) as (_ & c' & Hc' & Hcell).
  exists c'. split; [|exact Hcell].
  pose proof (char_at_nth _ _ _ _ Hc') as Hn. change (nth_error line (Z.to_nat cxc) = Some c') in Hn. congruence.
Qed.

(* non-vacuity / the situation the statement is about: 'WWWab' (W = U+754C, 2
   cells), 5x1 window, cursor on 'b' (6 cells before it... 7 with 'a'):
   horizontal_scroll = 3 lands in the MIDDLE of the second wide character; it is
   skipped as a whole, the third one is drawn at x = 1, the cursor cell at x = 4 *)
Example nowrap_wide_example :
  let sw := fun c => if c =? 30028 then 2 else 1 in
  let line := [30028; 30028; 30028; 97; 98; 32] in
  let s' := scroll_nowrap false sw line 0 5 1 0 0 0 0 0 4 1 (mkss 0 0 0) in
  let o := copy_body sw sw (fun c => [c]) false false (fun _ _ => []) 5 1 0 0 [line] s' in
  hs s' = 3 /\ alist_get (cr2 o) (0, 4) = Some (0, 4) /\ cstr (scr_get (cscr o) 0 4) = [98] /\
  alist_get (cr2 o) (0, 1) = None /\ alist_get (cr2 o) (0, 2) = Some (0, 1).
Proof. vm_compute. repeat split; reflexivity. Qed.
