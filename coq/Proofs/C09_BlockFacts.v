(* C09 - pasting BLOCK data, at the level of the line list: the loop of
   Document.paste_clipboard_data touches exactly the rows start_line ..
   start_line + (number of block lines) - 1; in each of them the block line is
   inserted count times at the start column (after padding the row with spaces
   up to that column); rows before and after are unchanged; missing rows are
   appended. *)
From Coq Require Import ZArith List Bool Lia PeanoNat.
From PTK Require Import Lib.Sx Lib.Py Model.Document Model.BufferEdit Model.C09_Kill Proofs.C02_Base Proofs.C09_LinesFacts.
Import ListNotations.
Open Scope Z_scope.

Definition block_ins (sc count : Z) (l part : str) : str :=
  let l' := ljust l sc in slice_to l' sc ++ str_mul part count ++ slice_from l' sc.

Definition nthZ (l : list str) (j : Z) : str := nth (Z.to_nat j) l [].

Lemma update_nth_length {T} (l : list T) n f : length (update_nth l n f) = length l.
Proof. revert n; induction l as [|x l IH]; intros [|n]; cbn [update_nth length]; auto. Qed.

Lemma update_nth_same (l : list str) n f :
  (n < length l)%nat -> nth n (update_nth l n f) [] = f (nth n l []).
Proof.
  revert n; induction l as [|x l IH]; intros [|n] H; cbn [length] in H; try lia; cbn [update_nth nth].
  - reflexivity.
  - apply IH. lia.
Qed.

Lemma update_nth_other (l : list str) n m f :
  n <> m -> nth m (update_nth l n f) [] = nth m l [].
Proof.
  revert n m; induction l as [|x l IH]; intros [|n] [|m] H; cbn [update_nth nth]; try reflexivity; try lia.
  apply IH. lia.
Qed.

Lemma py_update_in_range (l : list str) i f :
  0 <= i < len l -> py_update l i f = update_nth l (Z.to_nat i) f.
Proof.
  intros H. unfold py_update. destruct (i <? 0) eqn:E; [lia|].
  destruct ((i <? 0) || (len l <=? i)) eqn:E2; [lia|reflexivity].
Qed.

Lemma nth_app_one (l : list str) j : nth j (l ++ [[]]) [] = nth j l [].
Proof.
  destruct (Nat.lt_ge_cases j (length l)) as [H|H].
  - now rewrite app_nth1.
  - rewrite app_nth2 by exact H. rewrite (nth_overflow l) by exact H.
    destruct (j - length l)%nat as [|[|k]]; reflexivity.
Qed.

Ltac zl := unfold str in *; lia.

Lemma paste_block_spec parts : forall lines0 index sc count,
  0 <= index <= len lines0 ->
  let res := paste_block lines0 parts index sc count in
  len res = Z.max (len lines0) (index + len parts) /\
  (forall j, 0 <= j -> (j < index \/ index + len parts <= j) -> nthZ res j = nthZ lines0 j) /\
  (forall i, 0 <= i < len parts ->
     nthZ res (index + i) = block_ins sc count (nthZ lines0 (index + i)) (nth (Z.to_nat i) parts [])).
Proof.
  induction parts as [|line rest IH]; intros lines0 index sc count Hi; cbn [paste_block]; cbv zeta.
  - assert (H0 : len (@nil str) = 0) by reflexivity. rewrite !H0. split; [zl|]. split; [reflexivity|]. intros i Hi'. zl.
  - set (lines1 := if len lines0 <=? index then lines0 ++ [[]] else lines0).
    assert (H1 : len lines1 = Z.max (len lines0) (index + 1) /\ index < len lines1).
    { unfold lines1. destruct (len lines0 <=? index) eqn:E.
      - rewrite len_app. change (len [[]]) with 1. zl.
      - zl. }
    assert (Hn1 : forall j, nth j lines1 [] = nth j lines0 []).
    { intros j. unfold lines1. destruct (len lines0 <=? index); [apply nth_app_one|reflexivity]. }
    rewrite py_update_in_range by zl.
    set (lines2 := update_nth lines1 (Z.to_nat index) _).
    assert (H2 : len lines2 = len lines1) by (unfold lines2, len; now rewrite update_nth_length).
    destruct (IH lines2 (index + 1) sc count ltac:(unfold str in *; lia)) as [L [F T]].
    rewrite len_cons. pose proof (len_nonneg rest) as Hr0. destruct H1 as [H1a H1b].
    split; [rewrite L; zl|]. split.
    + intros j Hj0 Hj. rewrite F by zl.
      unfold nthZ, lines2. rewrite update_nth_other by zl. apply Hn1.
    + intros i Hi'. destruct (Z.eq_dec i 0) as [->|Hne].
      * rewrite Z.add_0_r. rewrite F by zl.
        unfold nthZ, lines2. rewrite update_nth_same by (unfold len in *; zl).
        rewrite Hn1. reflexivity.
      * replace (index + i) with (index + 1 + (i - 1)) by zl.
        rewrite T by zl.
        replace (Z.to_nat i) with (S (Z.to_nat (i - 1))) by zl. cbn [nth].
        f_equal. unfold nthZ, lines2. rewrite update_nth_other by zl. apply Hn1.
Qed.

(* Document level: whenever paste_clipboard_data returns a document for BLOCK
   data (count >= 1), its text is the join of a line list that differs from the
   old one exactly as described above: block line i goes, count times, into row
   cursor_row + i at column cursor_col (P) / cursor_col + 1 (p). *)
Lemma doc_paste_block d data mode n t' c' :
  valid d -> ctype data = BLOCK -> 1 <= n ->
  doc_paste d data mode n = Some (t', c') ->
  let row := cursor_position_row d in
  let sc := cursor_position_col d + (if mode =? VI_BEFORE then 0 else 1) in
  let parts := split_on NL (ctext data) in
  exists res,
    t' = join [NL] res /\
    len res = Z.max (len (lines d)) (row + len parts) /\
    (forall j, 0 <= j -> (j < row \/ row + len parts <= j) -> nthZ res j = nthZ (lines d) j) /\
    (forall i, 0 <= i < len parts ->
       nthZ res (row + i) = block_ins sc n (nthZ (lines d) (row + i)) (nth (Z.to_nat i) parts [])).
Proof.
  intros Hv Hty Hn Hd row sc parts.
  pose proof (row_bounds d Hv) as Hr. fold row in Hr.
  unfold doc_paste in Hd. replace (n <? 1) with false in Hd by lia. rewrite Hty in Hd.
  change (BLOCK =? CHARACTERS) with false in Hd. change (BLOCK =? LINES) with false in Hd.
  cbv iota zeta in Hd. fold row sc parts in Hd.
  exists (paste_block (lines d) parts row sc n).
  split.
  - unfold mk_document in Hd. destruct (_ <? _) in Hd; [discriminate|]. now injection Hd as <- _.
  - apply paste_block_spec. unfold str in *. lia.
Qed.
