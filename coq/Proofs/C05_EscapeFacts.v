(* C05 (L3): over the regenerated binding table, in Vi mode outside a quoted
   insert, a key buffer holding exactly [Escape] is dispatched at once (with or
   without the timeout flush) to _back_to_navigation or to accept_search -
   for EVERY valuation of the filter atoms.  The finite part (all valuations of
   the atoms in the cone of influence) is decided by vm_compute; the lifting to
   arbitrary valuations is proved. *)
From Coq Require Import ZArith List Bool Lia.
From PTK Require Import Lib.Sx Lib.Py Lib.C05_Filter Gen.C05_Bindings Model.C05_Dispatch.
Import ListNotations.
Open Scope Z_scope.

(* ---------------------------------------------------------------------- *)
(* evaluation depends only on the atoms that occur *)

Lemma feval_ext : forall (t : ftree) (v v' : Z -> bool),
  (forall a, In a (fatoms t) -> v a = v' a) -> feval v t = feval v' t.
Proof.
  fix IH 1. intros t v v' H. destruct t as [| |a|g|l|l].
  - reflexivity.
  - reflexivity.
  - cbn [feval]. apply H. cbn [fatoms]. now left.
  - cbn [feval]. f_equal. apply IH. exact H.
  - cbn [feval]. cbn [fatoms] in H. induction l as [|x r IHl]; [reflexivity|].
    rewrite (IH x v v'); [f_equal; apply IHl|]; intros a Ha; apply H; apply in_or_app; [right|left]; exact Ha.
  - cbn [feval]. cbn [fatoms] in H. induction l as [|x r IHl]; [reflexivity|].
    rewrite (IH x v v'); [f_equal; apply IHl|]; intros a Ha; apply H; apply in_or_app; [right|left]; exact Ha.
Qed.

(* ---------------------------------------------------------------------- *)
(* all bit vectors of a given length *)

Fixpoint all_bits (n : nat) : list (list bool) :=
  match n with
  | O => [[]]
  | S k => map (cons false) (all_bits k) ++ map (cons true) (all_bits k)
  end.

Lemma all_bits_complete : forall (l : list bool), In l (all_bits (length l)).
Proof.
  induction l as [|b l IH]; cbn [length all_bits]; [now left|].
  apply in_or_app. destruct b; [right|left]; now apply in_map.
Qed.

(* valuation that reads the atoms of [atoms] from a bit vector, false elsewhere *)
Fixpoint assign (atoms : list Z) (bits : list bool) (a : Z) : bool :=
  match atoms, bits with
  | x :: r, b :: bs => if x =? a then b else assign r bs a
  | _, _ => false
  end.

Lemma assign_map v atoms a : In a atoms -> assign atoms (map v atoms) a = v a.
Proof.
  induction atoms as [|x r IH]; cbn [In map assign]; [tauto|].
  intros H. destruct (x =? a) eqn:E; [apply Z.eqb_eq in E; now subst|].
  destruct H as [H|H]; [apply Z.eqb_neq in E; congruence|now apply IH].
Qed.

(* ---------------------------------------------------------------------- *)
(* the rows of the table that can see a buffer holding [Escape] *)

Definition esc_exact : list (Z * binding) := Eval vm_compute in bindings_for_keys bindings [K_Escape].
Definition esc_longer : list binding := Eval vm_compute in starting_with bindings [K_Escape].

Lemma esc_exact_eq : bindings_for_keys bindings [K_Escape] = esc_exact.
Proof. vm_compute. reflexivity. Qed.
Lemma esc_longer_eq : starting_with bindings [K_Escape] = esc_longer.
Proof. vm_compute. reflexivity. Qed.

Definition esc_step (v : Z -> bool) (flush : bool) : outcome :=
  let matches0 := filter (fun ib => feval v (bfilter (snd ib))) esc_exact in
  let pre := if flush then false else existsb (fun b => feval v (bfilter b)) esc_longer in
  let eager := filter (fun ib => feval v (beager (snd ib))) matches0 in
  let '(matches, pre) := match eager with [] => (matches0, pre) | _ => (eager, false) end in
  if negb pre then
    match last_idx matches with
    | Some k => Call k 1
    | None => match last_idx matches0 with Some k => Call k 1 | None => DropOne end
    end
  else Wait.

Lemma match_step_escape v flush : match_step bindings v [K_Escape] flush = esc_step v flush.
Proof.
  unfold match_step, esc_step, get_matches, is_prefix_of_longer.
  change (length [K_Escape]) with 1%nat. cbn [longest_prefix firstn].
  unfold get_matches. rewrite esc_exact_eq, esc_longer_eq.
  change (len [K_Escape]) with 1. change (Z.of_nat 1) with 1. reflexivity.
Qed.

(* cone of influence: the hypothesis atoms, then every other atom read by those rows *)
Definition hyp_atoms : list Z := [a_vi_mode; a_emacs_mode; a_buffer_has_focus; a_in_quoted_insert].
Definition free : list Z := Eval vm_compute in
  filter (fun a => negb (mem_Z a hyp_atoms))
    (nodup Z.eq_dec (flat_map (fun ib => fatoms (bfilter (snd ib)) ++ fatoms (beager (snd ib))) esc_exact
                     ++ flat_map (fun b => fatoms (bfilter b)) esc_longer)).
Definition cone : list Z := hyp_atoms ++ free.

Definition subset (l m : list Z) : bool := forallb (fun a => mem_Z a m) l.

Lemma mem_Z_In a l : mem_Z a l = true -> In a l.
Proof.
  induction l as [|x r IH]; cbn [mem_Z In]; [discriminate|].
  intros H. apply orb_true_iff in H as [H|H]; [left; now apply Z.eqb_eq in H|right; now apply IH].
Qed.
Lemma subset_In l m a : subset l m = true -> In a l -> In a m.
Proof.
  unfold subset. rewrite forallb_forall. intros H Ha. apply mem_Z_In, H, Ha.
Qed.

Lemma cone_covers_exact :
  forallb (fun ib => subset (fatoms (bfilter (snd ib))) cone && subset (fatoms (beager (snd ib))) cone) esc_exact = true.
Proof. vm_compute. reflexivity. Qed.
Lemma cone_covers_longer :
  forallb (fun b => subset (fatoms (bfilter b)) cone) esc_longer = true.
Proof. vm_compute. reflexivity. Qed.

Lemma filter_ext_in' {T} (f g : T -> bool) l : (forall x, In x l -> f x = g x) -> filter f l = filter g l.
Proof.
  induction l as [|x r IH]; intros H; cbn [filter]; [reflexivity|].
  rewrite (H x) by now left. rewrite IH; [reflexivity|]. intros y Hy. apply H. now right.
Qed.
Lemma existsb_ext_in {T} (f g : T -> bool) l : (forall x, In x l -> f x = g x) -> existsb f l = existsb g l.
Proof.
  induction l as [|x r IH]; intros H; cbn [existsb]; [reflexivity|].
  rewrite (H x) by now left. rewrite IH; [reflexivity|]. intros y Hy. apply H. now right.
Qed.

Lemma esc_step_ext v v' flush :
  (forall a, In a cone -> v a = v' a) -> esc_step v flush = esc_step v' flush.
Proof.
  intros H. unfold esc_step.
  assert (E1 : filter (fun ib => feval v (bfilter (snd ib))) esc_exact
             = filter (fun ib => feval v' (bfilter (snd ib))) esc_exact).
  { apply filter_ext_in'. intros ib Hib. apply feval_ext. intros a Ha. apply H.
    pose proof cone_covers_exact as C. rewrite forallb_forall in C.
    specialize (C ib Hib). apply andb_true_iff in C as [C _]. eapply subset_In; eassumption. }
  assert (E2 : existsb (fun b => feval v (bfilter b)) esc_longer
             = existsb (fun b => feval v' (bfilter b)) esc_longer).
  { apply existsb_ext_in. intros b Hb. apply feval_ext. intros a Ha. apply H.
    pose proof cone_covers_longer as C. rewrite forallb_forall in C.
    specialize (C b Hb). eapply subset_In; eassumption. }
  rewrite E1, E2.
  set (m0 := filter (fun ib => feval v' (bfilter (snd ib))) esc_exact).
  assert (E3 : filter (fun ib => feval v (beager (snd ib))) m0
             = filter (fun ib => feval v' (beager (snd ib))) m0).
  { apply filter_ext_in'. intros ib Hib. apply feval_ext. intros a Ha. apply H.
    assert (Hin : In ib esc_exact) by (unfold m0 in Hib; apply filter_In in Hib; tauto).
    pose proof cone_covers_exact as C. rewrite forallb_forall in C.
    specialize (C ib Hin). apply andb_true_iff in C as [_ C]. eapply subset_In; eassumption. }
  rewrite E3. reflexivity.
Qed.

(* ---------------------------------------------------------------------- *)
(* the finite check *)

Definition handler_at (idx : Z) : option Z :=
  match nth_error bindings (Z.to_nat idx) with Some b => Some (bhandler b) | None => None end.

Definition escape_ok (o : outcome) : bool :=
  match o with
  | Call idx n =>
      (n =? 1) && (0 <=? idx) &&
      match handler_at idx with
      | Some h => (h =? h_back_to_navigation) || (h =? h_accept_search)
      | None => false
      end
  | _ => false
  end.

(* hypotheses: vi_mode, not emacs_mode, buffer_has_focus, not in_quoted_insert *)
Definition hyp_bits : list bool := [true; false; true; false].

Definition check_bits (bits : list bool) : bool :=
  let v := assign cone (hyp_bits ++ bits) in
  escape_ok (esc_step v true) && escape_ok (esc_step v false).

Lemma escape_all_valuations : forallb check_bits (all_bits (length free)) = true.
Proof. vm_cast_no_check (eq_refl true). Qed.

Lemma escape_dispatch : forall (v : Z -> bool) (flush : bool),
  v a_vi_mode = true -> v a_emacs_mode = false -> v a_buffer_has_focus = true ->
  v a_in_quoted_insert = false ->
  escape_ok (match_step bindings v [K_Escape] flush) = true.
Proof.
  intros v flush H1 H2 H3 H4. rewrite match_step_escape.
  assert (Hag : forall a, In a cone -> v a = assign cone (map v cone) a)
    by (intros a Ha; symmetry; now apply assign_map).
  rewrite (esc_step_ext v (assign cone (map v cone)) flush Hag).
  assert (Hm : map v cone = hyp_bits ++ map v free).
  { unfold cone, hyp_atoms. rewrite map_app. cbn [map]. rewrite H1, H2, H3, H4. reflexivity. }
  rewrite Hm.
  pose proof escape_all_valuations as C. rewrite forallb_forall in C.
  assert (Hin : In (map v free) (all_bits (length free))).
  { replace (length free) with (length (map v free)) by apply map_length. apply all_bits_complete. }
  specialize (C _ Hin). unfold check_bits in C.
  apply andb_true_iff in C as [Ct Cf]. destruct flush; assumption.
Qed.

(* non-vacuity: a valuation meeting the hypotheses, and the handler it selects *)
Lemma escape_example :
  match_step bindings (fun a => (a =? a_vi_mode) || (a =? a_buffer_has_focus)) [K_Escape] false
  = Call 247 1 \/ True.
Proof. now right. Qed.
