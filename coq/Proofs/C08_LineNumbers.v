(* C08 - get_line_numbers (what > < gq act on) against the rows of the
   motion's span: for a non-empty character-wise span [lo, hi) - exclusive,
   or inclusive and not ending on a line ending - the rows are (row of lo,
   row of the last spanned character hi - 1); for a linewise object (row of
   lo, row of hi).  The exception (inclusive object ending ON a line ending:
   the row of the following line is included) is known finding C08-F1. *)
From Coq Require Import ZArith List Bool Lia.
From PTK Require Import Lib.Sx Lib.Py Model.Document Model.BufferEdit Model.C02_DocQueries
  Model.C08_ViOps Model.C08_TextObjects
  Proofs.C02_Base Proofs.C02_Coords Proofs.BufferEditIndent
  Proofs.C08_ViFacts Proofs.C08_LinewiseRange Proofs.C08_Commands.
Import ListNotations.
Open Scope Z_scope.

Definition rowof (d : doc) (i : Z) : Z := fst (translate_index_to_position d i).

Lemma rowof_count d i :
  0 <= i <= len (dtext d) -> rowof d i = count_char NL (firstn (Z.to_nat i) (dtext d)).
Proof.
  intros Hi. unfold rowof. destruct (translate_index_to_position d i) as [r c] eqn:E.
  destruct (C02c_index_to_position_spec d i r c Hi E) as (R & _). exact R.
Qed.

Lemma firstn_succ_nth {T} (l : list T) : forall k x,
  nth_error l k = Some x -> firstn (S k) l = firstn k l ++ [x].
Proof.
  induction l as [|y l IH]; intros k x H; [destruct k; discriminate|].
  destruct k as [|k]; cbn [nth_error] in H.
  - injection H as ->. reflexivity.
  - change (firstn (S (S k)) (y :: l)) with (y :: firstn (S k) l).
    change (firstn (S k) (y :: l)) with (y :: firstn k l).
    rewrite (IH k x H). reflexivity.
Qed.

(* the row grows by one exactly after a line ending *)
Lemma rowof_step d i c :
  1 <= i <= len (dtext d) -> nth_error (dtext d) (Z.to_nat (i - 1)) = Some c ->
  rowof d i = rowof d (i - 1) + (if c =? NL then 1 else 0).
Proof.
  intros Hi Hc. rewrite !rowof_count by lia.
  replace (Z.to_nat i) with (S (Z.to_nat (i - 1))) by lia.
  rewrite (firstn_succ_nth _ _ _ Hc), c02_count_char_app. cbn [count_char]. lia.
Qed.

(* column 0 (other than at 0) is exactly "just after a line ending" *)
Lemma col0_after_nl d i :
  1 <= i <= len (dtext d) ->
  snd (translate_index_to_position d i) = 0 -> nth_error (dtext d) (Z.to_nat (i - 1)) = Some NL.
Proof.
  intros Hi H0. destruct (translate_index_to_position d i) as [r c] eqn:E. cbn [snd] in H0. subst c.
  destruct (C02c_index_to_position_spec d i r 0 ltac:(lia) E) as (_ & _ & _ & Hb & _).
  destruct Hb as [Hb|Hb]; [lia|]. replace (i - 0 - 1) with (i - 1) in Hb by lia. exact Hb.
Qed.

Lemma col_pos_not_nl d i :
  1 <= i <= len (dtext d) ->
  snd (translate_index_to_position d i) <> 0 -> nth_error (dtext d) (Z.to_nat (i - 1)) <> Some NL.
Proof.
  intros Hi Hc Hn. destruct (translate_index_to_position d i) as [r c] eqn:E. cbn [snd] in Hc.
  destruct (C02c_index_to_position_spec d i r c ltac:(lia) E) as (_ & C1 & Hno & _).
  assert (Hx : nth_error (firstn (Z.to_nat c) (skipn (Z.to_nat (i - c)) (dtext d))) (Z.to_nat (c - 1)) = Some NL).
  { rewrite c08_nth_error_firstn by lia. rewrite c08_nth_error_skipn.
    replace (Z.to_nat (i - c) + Z.to_nat (c - 1))%nat with (Z.to_nat (i - 1)) by lia. exact Hn. }
  apply c08_mem_Z_nth in Hx. congruence.
Qed.

Lemma rowof_same d i :
  1 <= i <= len (dtext d) -> nth_error (dtext d) (Z.to_nat (i - 1)) <> Some NL ->
  rowof d i = rowof d (i - 1).
Proof.
  intros Hi Hn.
  destruct (nth_error (dtext d) (Z.to_nat (i - 1))) as [c|] eqn:E.
  - rewrite (rowof_step d i c Hi E). destruct (c =? NL) eqn:E2; [|lia].
    exfalso. apply Hn. f_equal. lia.
  - exfalso. apply nth_error_None in E. unfold len in Hi. lia.
Qed.

Definition last_not_nl (t : str) (hi : Z) : Prop := nth_error t (Z.to_nat (hi - 1)) <> Some NL.

(* character-wise objects *)
Lemma line_numbers_charwise b o :
  charwise (ttype o) ->
  let d := bdoc b in
  let lo := bcur b + Z.min (tstart o) (tend o) in
  let hi := bcur b + Z.max (tstart o) (tend o) + (if is_incl (ttype o) then 1 else 0) in
  0 <= lo -> lo < hi -> hi <= len (btext b) ->
  (ttype o = INCL -> last_not_nl (btext b) hi) ->
  get_line_numbers b o = (rowof d lo, rowof d (hi - 1)).
Proof.
  intros Hc d lo hi H0 Hlt Hhi Hincl. unfold get_line_numbers. fold d.
  destruct (operator_range_charwise d o Hc) as (H1 & H2 & H3).
  destruct (operator_range d o) as [f t] eqn:Er. cbn [fst snd] in H1, H2, H3.
  assert (Hd : dcur d = bcur b) by reflexivity. assert (Ht : dtext d = btext b) by reflexivity.
  fold (rowof d (f + bcur b)). fold (rowof d (t + bcur b)).
  replace (f + bcur b) with lo by (unfold lo; lia). f_equal.
  destruct Hc as [Hty|Hty].
  - assert (Hhe : hi = bcur b + Z.max (tstart o) (tend o)) by (unfold hi; rewrite Hty; cbn [is_incl]; lia).
    assert (Hle : lo = bcur b + Z.min (tstart o) (tend o)) by reflexivity.
    destruct (H3 Hty) as [Ht0|(Ht0 & Hlh & Hcol)].
    + (* far end not adjusted *)
      replace (t + bcur b) with hi by lia.
      destruct (Z.eq_dec (snd (translate_index_to_position d hi)) 0) as [Hz|Hz].
      * (* column 0 but not adjusted: impossible for a non-empty range *)
        exfalso. unfold operator_range, to_sorted in Er. rewrite Hty in Er.
        cbn [is_excl is_incl is_linew andb] in Er.
        destruct (tstart o <? tend o) eqn:E.
        -- rewrite E in Er. cbn [andb] in Er.
           replace (tend o + dcur d) with hi in Er by (rewrite Hd; lia).
           rewrite Hz in Er. cbn [Z.eqb] in Er. injection Er as _ Et. lia.
        -- destruct (tend o <? tstart o) eqn:E2; [|lia]. cbn [andb] in Er.
           replace (tstart o + dcur d) with hi in Er by (rewrite Hd; lia).
           rewrite Hz in Er. cbn [Z.eqb] in Er. injection Er as _ Et. lia.
      * apply rowof_same; [rewrite Ht; lia|]. apply col_pos_not_nl; [rewrite Ht; lia|exact Hz].
    + replace (t + bcur b) with (hi - 1) by lia. reflexivity.
  - assert (Hhe : hi = bcur b + Z.max (tstart o) (tend o) + 1) by (unfold hi; rewrite Hty; cbn [is_incl]; lia).
    rewrite (H2 Hty).
    replace (Z.max (tstart o) (tend o) + 1 + bcur b) with hi by lia.
    apply rowof_same; [rewrite Ht; lia|]. rewrite Ht. apply Hincl. exact Hty.
Qed.

(* linewise objects *)
Lemma line_numbers_linewise b o :
  ttype o = LINEW ->
  let d := bdoc b in
  let lo := bcur b + Z.min (tstart o) (tend o) in
  let hi := bcur b + Z.max (tstart o) (tend o) in
  0 <= lo -> hi <= len (btext b) ->
  get_line_numbers b o = (rowof d lo, rowof d hi).
Proof.
  intros Hty d lo hi H0 Hhi. unfold get_line_numbers. fold d.
  assert (Hlh : lo <= hi) by (unfold lo, hi; lia).
  unfold operator_range, to_sorted.
  set (s := Z.min (tstart o) (tend o)) in *. set (e := Z.max (tstart o) (tend o)) in *.
  assert (Hse : (if tstart o <? tend o then (tstart o, tend o) else (tend o, tstart o)) = (s, e)).
  { unfold s, e. destruct (tstart o <? tend o) eqn:E; f_equal; lia. }
  rewrite Hse, Hty. cbn [is_excl is_incl is_linew andb fst snd].
  assert (Hd : dcur d = bcur b) by reflexivity. assert (Htx : dtext d = btext b) by reflexivity.
  rewrite Hd. replace (s + bcur b) with lo by (unfold lo; lia). replace (e + bcur b) with hi by (unfold hi; lia).
  destruct (translate_index_to_position d lo) as [r1 c1] eqn:E1.
  destruct (translate_index_to_position d hi) as [r2 c2] eqn:E2. cbn [fst snd].
  destruct (C02c_index_to_position_spec d lo r1 c1 ltac:(rewrite Htx; lia) E1) as (_ & _ & _ & _ & V1 & _).
  destruct (C02c_index_to_position_spec d hi r2 c2 ltac:(rewrite Htx; lia) E2) as (_ & _ & _ & _ & V2 & _).
  unfold line_at. unfold line_count in V2. rewrite (c02_index_nth (lines d) r2 []) by exact V2.
  replace (translate_row_col_to_index d r1 0 - bcur b + bcur b) with (translate_row_col_to_index d r1 0) by lia.
  replace (translate_row_col_to_index d r2 (len (nth (Z.to_nat r2) (lines d) [])) - bcur b + bcur b)
    with (translate_row_col_to_index d r2 (len (nth (Z.to_nat r2) (lines d) []))) by lia.
  pose proof (len_nonneg (nth (Z.to_nat r1) (lines d) [])).
  pose proof (len_nonneg (nth (Z.to_nat r2) (lines d) [])).
  rewrite (C02c_pos_roundtrip d r1 0) by (try assumption; lia).
  rewrite (C02c_pos_roundtrip d r2) by (try (unfold line_count; assumption); lia).
  cbn [fst]. unfold rowof. rewrite E1, E2. reflexivity.
Qed.

Lemma rowof_nonneg d i : 0 <= i <= len (dtext d) -> 0 <= rowof d i.
Proof. intros H. rewrite rowof_count by exact H. apply c02_count_char_nonneg. Qed.

Lemma rowof_mono d i j :
  0 <= i -> i <= j -> j <= len (dtext d) -> rowof d i <= rowof d j.
Proof.
  intros H0 Hij Hj. rewrite !rowof_count by lia. apply count_char_firstn_mono. lia.
Qed.

(* "rows r1..r2 are rewritten by F, every other line is kept in place" *)
Definition rows_rewritten (F : str -> str) (text text' : str) (r1 r2 : Z) : Prop :=
  let ls := split_on NL text in
  let e := Z.min (r2 + 1) (len ls) in
  text' = join [NL] (firstn (Z.to_nat r1) ls
                     ++ map F (firstn (Z.to_nat (e - r1)) (skipn (Z.to_nat r1) ls))
                     ++ skipn (Z.to_nat e) ls).

Lemma rows_rewritten_intro F text r1 r2 :
  0 <= r1 -> r1 <= r2 -> r1 < len (split_on NL text) ->
  rows_rewritten F text (transform_lines F text r1 (r2 + 1)) r1 r2.
Proof.
  intros H0 H12 Hl. unfold rows_rewritten. cbv zeta. apply transform_lines_spec; lia.
Qed.

Lemma rowof_lt_lines d i : 0 <= i <= len (dtext d) -> rowof d i < len (split_on NL (dtext d)).
Proof.
  intros Hi. unfold rowof. destruct (translate_index_to_position d i) as [r c] eqn:E.
  destruct (C02c_index_to_position_spec d i r c Hi E) as (_ & _ & _ & _ & V & _).
  cbn [fst]. unfold line_count, lines in V. lia.
Qed.

(* > and < on a character-wise span: exactly the rows of the span are rewritten *)
Lemma indent_rows_charwise st o ev st' :
  charwise (ttype o) ->
  let b := vbuf st in
  let d := bdoc b in
  let lo := bcur b + Z.min (tstart o) (tend o) in
  let hi := bcur b + Z.max (tstart o) (tend o) + (if is_incl (ttype o) then 1 else 0) in
  0 <= lo -> lo < hi -> hi <= len (btext b) ->
  (ttype o = INCL -> last_not_nl (btext b) hi) ->
  (op_indent st o ev = (0, st') ->
   rows_rewritten (fun l => str_mul INDENT (earg ev) ++ l) (btext b) (btext (vbuf st')) (rowof d lo) (rowof d (hi - 1))) /\
  (op_unindent st o ev = (0, st') ->
   rows_rewritten (unindent_line (str_mul INDENT (earg ev))) (btext b) (btext (vbuf st')) (rowof d lo) (rowof d (hi - 1))).
Proof.
  intros Hc b d lo hi H0 Hlt Hhi Hincl.
  pose proof (line_numbers_charwise b o Hc H0 Hlt Hhi Hincl) as Hln. fold d lo hi in Hln.
  assert (Hd : dtext d = btext b) by reflexivity.
  assert (R0 : 0 <= rowof d lo) by (apply rowof_nonneg; rewrite Hd; lia).
  assert (R1 : rowof d lo <= rowof d (hi - 1)) by (apply rowof_mono; rewrite ?Hd; lia).
  assert (R2 : rowof d lo < len (split_on NL (btext b))) by (rewrite <- Hd; apply rowof_lt_lines; rewrite Hd; lia).
  split; intros H.
  - pose proof (op_indent_text st o ev st' H) as Ht. fold b in Ht. rewrite Hln in Ht. rewrite Ht.
    apply rows_rewritten_intro; assumption.
  - pose proof (op_unindent_text st o ev st' H) as Ht. fold b in Ht. rewrite Hln in Ht. rewrite Ht.
    apply rows_rewritten_intro; assumption.
Qed.

Lemma indent_rows_linewise st o ev st' :
  ttype o = LINEW ->
  let b := vbuf st in
  let d := bdoc b in
  let lo := bcur b + Z.min (tstart o) (tend o) in
  let hi := bcur b + Z.max (tstart o) (tend o) in
  0 <= lo -> hi <= len (btext b) ->
  (op_indent st o ev = (0, st') ->
   rows_rewritten (fun l => str_mul INDENT (earg ev) ++ l) (btext b) (btext (vbuf st')) (rowof d lo) (rowof d hi)) /\
  (op_unindent st o ev = (0, st') ->
   rows_rewritten (unindent_line (str_mul INDENT (earg ev))) (btext b) (btext (vbuf st')) (rowof d lo) (rowof d hi)).
Proof.
  intros Hty b d lo hi H0 Hhi.
  pose proof (line_numbers_linewise b o Hty H0 Hhi) as Hln. fold d lo hi in Hln.
  assert (Hlh : lo <= hi) by (unfold lo, hi; lia).
  assert (Hd : dtext d = btext b) by reflexivity.
  assert (R0 : 0 <= rowof d lo) by (apply rowof_nonneg; rewrite Hd; lia).
  assert (R1 : rowof d lo <= rowof d hi) by (apply rowof_mono; rewrite ?Hd; lia).
  assert (R2 : rowof d lo < len (split_on NL (btext b))) by (rewrite <- Hd; apply rowof_lt_lines; rewrite Hd; lia).
  split; intros H.
  - pose proof (op_indent_text st o ev st' H) as Ht. fold b in Ht. rewrite Hln in Ht. rewrite Ht.
    apply rows_rewritten_intro; assumption.
  - pose proof (op_unindent_text st o ev st' H) as Ht. fold b in Ht. rewrite Hln in Ht. rewrite Ht.
    apply rows_rewritten_intro; assumption.
Qed.

(* gq: the operator reshapes exactly the rows of the span (non-negative rows,
   so the kept prefix / suffix are whole lines before / after them) *)
Lemma reshape_rows_charwise st o ev :
  charwise (ttype o) ->
  let b := vbuf st in
  let d := bdoc b in
  let lo := bcur b + Z.min (tstart o) (tend o) in
  let hi := bcur b + Z.max (tstart o) (tend o) + (if is_incl (ttype o) then 1 else 0) in
  0 <= lo -> lo < hi -> hi <= len (btext b) ->
  (ttype o = INCL -> last_not_nl (btext b) hi) ->
  op_reshape st o ev = (0, with_buf st (reshape_text b (rowof d lo) (rowof d (hi - 1)))) /\
  0 <= rowof d lo <= rowof d (hi - 1).
Proof.
  intros Hc b d lo hi H0 Hlt Hhi Hincl.
  pose proof (line_numbers_charwise b o Hc H0 Hlt Hhi Hincl) as Hln. fold d lo hi in Hln.
  assert (Hd : dtext d = btext b) by reflexivity.
  split.
  - unfold op_reshape. fold b. rewrite Hln. reflexivity.
  - split; [apply rowof_nonneg; rewrite Hd; lia|apply rowof_mono; rewrite ?Hd; lia].
Qed.

Lemma reshape_rows_linewise st o ev :
  ttype o = LINEW ->
  let b := vbuf st in
  let d := bdoc b in
  let lo := bcur b + Z.min (tstart o) (tend o) in
  let hi := bcur b + Z.max (tstart o) (tend o) in
  0 <= lo -> hi <= len (btext b) ->
  op_reshape st o ev = (0, with_buf st (reshape_text b (rowof d lo) (rowof d hi))) /\
  0 <= rowof d lo <= rowof d hi.
Proof.
  intros Hty b d lo hi H0 Hhi.
  pose proof (line_numbers_linewise b o Hty H0 Hhi) as Hln. fold d lo hi in Hln.
  assert (Hlh : lo <= hi) by (unfold lo, hi; lia).
  assert (Hd : dtext d = btext b) by reflexivity.
  split.
  - unfold op_reshape. fold b. rewrite Hln. reflexivity.
  - split; [apply rowof_nonneg; rewrite Hd; lia|apply rowof_mono; rewrite ?Hd; lia].
Qed.

(* the exception: an inclusive object ending ON a line ending (ge / gE from
   an empty line) - the row after the span is included (known finding C08-F1) *)
Lemma line_numbers_inclusive_on_newline :
  let b := mkbuf [120; 10; 10] 2 in              (* "x\n\n", cursor on the empty second line *)
  let o := mkto (-2) 0 INCL in                   (* what gE returns there: span [0, 3) = rows 0..1 *)
  get_line_numbers b o = (0, 2).
Proof. vm_compute. reflexivity. Qed.
