(* C20 - progress of the loop / chain side (the second half of "after a flush"):
   from EVERY state whose loop is not closed, the loop's own steps - a foreign
   in_terminal section ends, wait_for_cpr_responses times out, the head of the
   waiting sections is woken, the oldest pending callback runs - at most
   3*|callbacks| + 3*|waiting sections| + 2 of them, leave nothing pending on the
   loop and nothing waiting in the chain.  (The flush-thread half is
   C20_Progress.v.) *)
From Coq Require Import ZArith List Bool Lia Arith.
From PTK Require Import Lib.Sx Model.C20_StdoutProxy Proofs.C20_Queue Proofs.C20_Chain.
Import ListNotations.
Open Scope nat_scope.

(* the one step the loop side takes next (fairness: a foreign section ends; the CPR wait ends
   by its own 1 s timeout at the latest) *)
Definition lnext (s : st) : st :=
  match active (ch s) with
  | Some _ => step s LExtEnd
  | None =>
      if cprwait (cp s) then step s LCprTimeout
      else match waitq (ch s) with
           | _ :: _ => step s (LWake 0)
           | [] => match loopq (en s) with _ :: _ => step s LLoopStep | [] => s end
           end
  end.

Fixpoint liter (n : nat) (s : st) : st := match n with O => s | S k => liter k (lnext s) end.

Definition lquiet (s : st) : Prop :=
  active (ch s) = None /\ cprwait (cp s) = false /\ waitq (ch s) = [] /\ loopq (en s) = [].

Definition act (c : chain) : nat := match active c with Some _ => 1 | None => 0 end.
Definition lmeasure (s : st) : nat :=
  3 * length (loopq (en s)) + 3 * length (waitq (ch s)) + act (ch s) + (if cprwait (cp s) then 0 else 1).

(* a section sits in wait_for_cpr_responses() only while requests are outstanding *)
Definition W (s : st) : Prop := cprwait (cp s) = true -> cprq (cp s) <> 0.
Definition LP (s : st) : Prop := SI s /\ W s /\ lclosed (en s) = false.

Lemma act_le : forall c, act c <= 1.
Proof. intros c. unfold act. destruct (active c); lia. Qed.

Lemma head_pred_done : forall c x w, CI c -> active c = None -> waitq c = x :: w -> fdone c (s_prev x) = true.
Proof.
  intros c x w I A Wq. destruct I as [Hs Hd Hw Hn Hl Ha]. rewrite Wq in Hw. cbn [wait_ok] in Hw.
  destruct Hw as [_ [P _]]. rewrite P. rewrite A in Ha.
  destruct (length (started c)) as [|n] eqn:E; cbn [pred_opt]; [reflexivity|].
  apply fdone_some. apply Ha. lia.
Qed.

Lemma last_done_when_idle : forall c, CI c -> active c = None -> waitq c = [] -> fdone c (lastf c) = true.
Proof.
  intros c I A Wq. destruct I as [Hs Hd Hw Hn Hl Ha]. rewrite Hl. rewrite Wq in Hn. cbn [length] in Hn.
  destruct (nextf c) as [|n] eqn:E; [reflexivity|]. apply fdone_some. rewrite A in Ha. apply Ha. lia.
Qed.

Lemma start_sec_act : forall run x c o, act (fst (start_sec run x c o)) <= 1.
Proof. intros. apply act_le. Qed.

Lemma cpr_pending_q : forall k, cpr_pending k = true -> cprq k <> 0.
Proof.
  intros k H. unfold cpr_pending in H. apply andb_true_iff in H. destruct H as [_ H].
  apply negb_true_iff in H. now apply Nat.eqb_neq.
Qed.

Lemma lnext_progress : forall s, LP s -> lquiet s \/ (LP (lnext s) /\ lmeasure (lnext s) < lmeasure s).
Proof.
  intros s [Si [Hw Lc]]. assert (SS : forall l, SI (step s l)) by (intro; now apply SI_step). destruct Si as [C Wt].
  unfold lnext. destruct (active (ch s)) as [own|] eqn:A.
  - (* a foreign section ends *)
    right. split.
    + split; [apply SS|]. cbn [step]. rewrite A. cbn [cp en]. split; [|exact Lc].
      unfold W; cbn [cp]; unfold request. destruct (cpron (cp s) && negb (isdone (en s)) && (cprsup (cp s) || Nat.eqb (cprq (cp s)) 0));
        cbn [cp cprwait cprq]; intros H; specialize (Hw H); lia.
    + cbn [step]. rewrite A. unfold lmeasure, act. cbn [en ch cp waitq active]. rewrite A.
      assert (E : cprwait (request (negb (isdone (en s))) (cp s)) = cprwait (cp s)).
      { unfold request. destruct (cpron (cp s) && negb (isdone (en s)) && (cprsup (cp s) || Nat.eqb (cprq (cp s)) 0)); reflexivity. }
      rewrite E. lia.
  - destruct (cprwait (cp s)) eqn:Cw.
    + (* the CPR wait times out: the head section enters *)
      right. destruct (Wt eq_refl) as [x [w [Wq F]]].
      assert (Q : negb (Nat.eqb (cprq (cp s)) 0) = true).
      { apply negb_true_iff. apply Nat.eqb_neq. now apply Hw. }
      assert (SL : SI (step s LCprTimeout)) by (apply SS).
      cbn [step] in *. rewrite Q, Cw in *. cbn [andb orb] in *.
      unfold resume in *. rewrite Wq in *.
      destruct (start_sec (running (en s)) x
                 (mkch (nextf (ch s)) (lastf (ch s)) (donef (ch s)) w (active (ch s)) (started (ch s))) (out s))
        as [c' o'] eqn:E.
      assert (Wc : waitq c' = w).
      { pose proof (start_sec_waitq (running (en s)) x
          (mkch (nextf (ch s)) (lastf (ch s)) (donef (ch s)) w (active (ch s)) (started (ch s))) (out s)) as K.
        rewrite E in K. exact K. }
      split.
      * split; [exact SL|]. cbn [cp en]. split; [|exact Lc].
        unfold W; cbn [cp]. rewrite after_start_wait. cbn [set_wait cprwait]. discriminate.
      * unfold lmeasure. cbn [en ch cp]. rewrite after_start_wait. cbn [set_wait cprwait].
        rewrite Wc, Wq, Cw. unfold act at 2. rewrite A. pose proof (act_le c'). cbn [length]. lia.
    + destruct (waitq (ch s)) as [|x w] eqn:Wq.
      * destruct (loopq (en s)) as [|t q] eqn:Lq.
        { left. repeat split; assumption. }
        (* the oldest pending callback runs *)
        right.
        assert (SL : SI (step s LLoopStep)) by (apply SS).
        pose proof (last_done_when_idle (ch s) C A Wq) as Fd.
        cbn [step] in *. unfold loop_step in *. rewrite Lc, Lq in *.
        destruct (get_app_or_none (cb_session true (en s)) (en s) && (running (en s) || negb (fdone (ch s) (lastf (ch s))))).
        -- unfold submit, submit_cpr in *. rewrite Fd in *. cbn [andb] in *.
           destruct (cpr_pending (cp s)) eqn:Pd; cbn [negb] in *.
           ++ (* queued behind the outstanding CPR request *)
              split.
              ** split; [exact SL|]. cbn [cp en set_loopq lclosed]. split; [|exact Lc].
                 unfold W; cbn [cp]. cbn [set_wait cprq]. intros _. now apply cpr_pending_q.
              ** unfold lmeasure, act. cbn [en ch cp set_loopq loopq waitq active set_wait cprwait].
                 rewrite Wq, A, Cw, Lq, app_nil_l. cbn [length]. lia.
           ++ (* enters at once *)
              destruct (start_sec (running (en s)) (mksec (lastf (ch s)) (nextf (ch s)) (PWrite t))
                   (mkch (S (nextf (ch s))) (Some (nextf (ch s))) (donef (ch s)) (waitq (ch s)) (active (ch s)) (started (ch s)))
                   (out s)) as [c' o'] eqn:E.
              assert (Wc : waitq c' = []).
              { pose proof (start_sec_waitq (running (en s)) (mksec (lastf (ch s)) (nextf (ch s)) (PWrite t))
                   (mkch (S (nextf (ch s))) (Some (nextf (ch s))) (donef (ch s)) (waitq (ch s)) (active (ch s)) (started (ch s)))
                   (out s)) as K. rewrite E in K. cbn [waitq] in K. rewrite Wq in K. exact K. }
              split.
              ** split; [exact SL|]. cbn [cp en set_loopq lclosed]. split; [|exact Lc].
                 unfold W; cbn [cp]. rewrite after_start_wait, Cw. discriminate.
              ** unfold lmeasure. cbn [en ch cp set_loopq loopq]. rewrite after_start_wait, Cw, Wc, Wq, Lq.
                 unfold act at 2. rewrite A. pose proof (act_le c'). cbn [length]. lia.
        -- (* written directly *)
           split.
           ++ split; [exact SL|]. cbn [cp en set_loopq lclosed]. split; [exact Hw|exact Lc].
           ++ unfold lmeasure, act. cbn [en ch cp set_loopq loopq]. rewrite Wq, A, Cw, Lq. cbn [length]. lia.
      * (* the head of the waiting sections is woken *)
        right.
        assert (SL : SI (step s (LWake 0))) by (apply SS).
        pose proof (head_pred_done (ch s) x w C A Wq) as Fd.
        cbn [step] in *. rewrite Wq in *. cbn [nth_error] in *. rewrite Fd, Cw in *. cbn [negb andb] in *.
        destruct (cpr_pending (cp s)) eqn:Pd.
        -- split.
           ++ split; [exact SL|]. cbn [cp en]. split; [|exact Lc].
              unfold W; cbn [cp]. cbn [set_wait cprq]. intros _. now apply cpr_pending_q.
           ++ unfold lmeasure, act. cbn [en ch cp set_wait cprwait]. rewrite Wq, A, Cw. lia.
        -- cbn [remove_nth] in *.
           destruct (start_sec (running (en s)) x
                 (mkch (nextf (ch s)) (lastf (ch s)) (donef (ch s)) w (active (ch s)) (started (ch s))) (out s))
             as [c' o'] eqn:E.
           assert (Wc : waitq c' = w).
           { pose proof (start_sec_waitq (running (en s)) x
               (mkch (nextf (ch s)) (lastf (ch s)) (donef (ch s)) w (active (ch s)) (started (ch s))) (out s)) as K.
             rewrite E in K. exact K. }
           split.
           ++ split; [exact SL|]. cbn [cp en]. split; [|exact Lc].
              unfold W; cbn [cp]. rewrite after_start_wait, Cw. discriminate.
           ++ unfold lmeasure. cbn [en ch cp]. rewrite after_start_wait, Cw, Wc, Wq.
              unfold act at 2. rewrite A. pose proof (act_le c'). cbn [length]. lia.
Qed.

Lemma lquiet_fix : forall s, lquiet s -> lnext s = s.
Proof. intros s [A [Cw [Wq Lq]]]. unfold lnext. now rewrite A, Cw, Wq, Lq. Qed.

Lemma liter_quiet : forall n s, lquiet s -> liter n s = s.
Proof. induction n as [|n IH]; intros s Q; [reflexivity|]. cbn [liter]. rewrite (lquiet_fix s Q). now apply IH. Qed.

Lemma loop_progress_gen : forall n s, LP s -> lmeasure s <= n -> lquiet (liter n s).
Proof.
  induction n as [|n IH]; intros s P M.
  - cbn [liter]. destruct (lnext_progress s P) as [Q|[_ Lt]]; [exact Q|lia].
  - cbn [liter]. destruct (lnext_progress s P) as [Q|[P' Lt]].
    + rewrite (lquiet_fix s Q), (liter_quiet n s Q). exact Q.
    + apply IH; [exact P'|lia].
Qed.

(* every step of [lnext] is a step of the model by an enabled label (or nothing is left to do) *)
Lemma lnext_is_step : forall s, LP s -> lquiet s \/ exists l, enabled s l = true /\ lnext s = step s l.
Proof.
  intros s [[C Wt] [Hw Lc]]. unfold lnext. destruct (active (ch s)) as [own|] eqn:A.
  - right. exists LExtEnd. cbn [enabled]. rewrite A. split; reflexivity.
  - destruct (cprwait (cp s)) eqn:Cw.
    + right. exists LCprTimeout. cbn [enabled]. rewrite Cw. split; [|reflexivity].
      rewrite andb_true_iff. split; [|reflexivity]. apply negb_true_iff, Nat.eqb_neq. now apply Hw.
    + destruct (waitq (ch s)) as [|x w] eqn:Wq.
      * destruct (loopq (en s)) as [|t q] eqn:Lq.
        -- left. repeat split; assumption.
        -- right. exists LLoopStep. cbn [enabled]. rewrite Lc, Lq. split; reflexivity.
      * right. exists (LWake 0). cbn [enabled]. rewrite Wq, Cw. cbn [nth_error].
        rewrite (head_pred_done (ch s) x w C A Wq). split; reflexivity.
Qed.

Lemma loop_progress : forall s, LP s ->
  lquiet (liter (3 * length (loopq (en s)) + 3 * length (waitq (ch s)) + 2) s).
Proof.
  intros s P. apply loop_progress_gen; [exact P|]. unfold lmeasure. pose proof (act_le (ch s)).
  destruct (cprwait (cp s)); lia.
Qed.

(* LP holds in every state reachable with the loop open: SI always; W is preserved by every step *)
Lemma W_step : forall s l, SI s -> W s -> W (step s l).
Proof.
  intros s l [C Wt] Hw. unfold W in *.
  assert (RQ : forall run k, cprwait (request run k) = cprwait k /\ cprq k <= cprq (request run k)).
  { intros run k. unfold request. destruct (cpron k && run && (cprsup k || Nat.eqb (cprq k) 0)); cbn; split; lia || reflexivity. }
  assert (AS : forall run x k, cprwait (after_start run x k) = cprwait k /\ cprq k <= cprq (after_start run x k)).
  { intros run x k. unfold after_start. destruct (s_pay x); [apply RQ|split; [reflexivity|lia]]. }
  assert (SC : forall run p c k, (cprwait k = true -> cprq k <> 0) ->
             cprwait (submit_cpr run p c k) = true -> cprq (submit_cpr run p c k) <> 0).
  { intros run p c k H. unfold submit_cpr. destruct (fdone c (lastf c)); [|exact H].
    destruct (cpr_pending k) eqn:Pd; [intros _; cbn [set_wait cprq]; now apply cpr_pending_q|].
    destruct (AS run (mksec (lastf c) (nextf c) p) k) as [E1 E2]. rewrite E1. intros G. specialize (H G). lia. }
  destruct l; cbn [step]; try exact Hw.
  - destruct (fth (px s)) as [| | |acc dn [k|]| |]; try exact Hw.
    destruct (Nat.eqb k (lid (en s)) && negb (lclosed (en s))); exact Hw.
  - destruct (negb (app (en s)) && negb (running (en s))); [|exact Hw]. cbn [cp].
    destruct (RQ true (cp s)) as [E1 E2]. rewrite E1. intros G. specialize (Hw G). lia.
  - destruct (app (en s) && running (en s)); exact Hw.
  - destruct (app (en s) && negb (running (en s)) && fdone (ch s) (lastf (ch s)) && Nat.eqb (cprq (cp s)) 0); exact Hw.
  - destruct (negb (app (en s)) && negb (lclosed (en s))); exact Hw.
  - unfold loop_step. destruct (lclosed (en s)); [exact Hw|]. destruct (loopq (en s)); [exact Hw|].
    destruct (get_app_or_none _ _ && _); [|exact Hw].
    destruct (submit _ _ _ _ _). cbn [cp]. now apply SC.
  - destruct (app (en s) && running (en s) && _); exact Hw.
  - destruct (app (en s) && running (en s)); [|exact Hw].
    destruct (submit _ _ _ _ _). cbn [cp]. now apply SC.
  - destruct (active (ch s)); [|exact Hw]. cbn [cp].
    destruct (RQ (negb (isdone (en s))) (cp s)) as [E1 E2]. rewrite E1. intros G. specialize (Hw G). lia.
  - destruct (nth_error (waitq (ch s)) i) as [x|]; [|exact Hw].
    destruct (fdone (ch s) (s_prev x) && negb (cprwait (cp s))); [|exact Hw].
    destruct (cpr_pending (cp s)) eqn:Pd.
    + cbn [cp set_wait cprq]. intros _. now apply cpr_pending_q.
    + destruct (start_sec _ _ _ _). cbn [cp].
      destruct (AS (negb (isdone (en s))) x (cp s)) as [E1 E2]. rewrite E1. intros G. specialize (Hw G). lia.
  - destruct (app (en s) && cpron (cp s) && negb (Nat.eqb (cprq (cp s)) 0) && _); [|exact Hw].
    destruct (cprwait (cp s) && Nat.eqb _ 0) eqn:G.
    + unfold resume. destruct (waitq (ch s)) as [|x w].
      * cbn [cp set_wait cprwait]. discriminate.
      * destruct (start_sec _ _ _ _). cbn [cp]. rewrite (proj1 (AS _ _ _)). cbn [set_wait cprwait]. discriminate.
    + cbn [cp cprwait cprq]. intros Cw. rewrite Cw in G. cbn [andb cprq] in G.
      apply Nat.eqb_neq in G. exact G.
  - destruct (negb (Nat.eqb (cprq (cp s)) 0) && _); [|exact Hw].
    destruct (cprwait (cp s)) eqn:Cw.
    + unfold resume. destruct (waitq (ch s)) as [|x w].
      * cbn [cp set_wait cprwait]. discriminate.
      * destruct (start_sec _ _ _ _). cbn [cp]. rewrite (proj1 (AS _ _ _)). cbn [set_wait cprwait]. discriminate.
    + cbn [cp cprwait]. rewrite ?Cw. discriminate.
  - destruct (patched (en s)); exact Hw.
  - destruct (patched (en s)); exact Hw.
  - destruct (app (en s) && running (en s) && negb (isdone (en s))); exact Hw.
Qed.

Lemma W_run : forall ls s, SI s -> W s -> W (run s ls).
Proof.
  induction ls as [|l ls IH]; intros s Si Hw; [exact Hw|].
  change (run s (l :: ls)) with (run (step s l) ls). apply IH; [now apply SI_step|now apply W_step].
Qed.

(* the statement used by Props: from every REACHABLE state with the loop not closed *)
Lemma loop_progress_reachable : forall c r ls,
  let s := run (init2 c r) ls in
  lclosed (en s) = false ->
  lquiet (liter (3 * length (loopq (en s)) + 3 * length (waitq (ch s)) + 2) s).
Proof.
  intros c r ls s Lc. apply loop_progress. split; [apply SI_run, SI_init|]. split; [|exact Lc].
  apply W_run; [apply SI_init|]. unfold W. cbn. discriminate.
Qed.
