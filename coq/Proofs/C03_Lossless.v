(* C03 - losslessness: at every moment, the data carried by the emitted key
   presses followed by what is still pending (open paste, prefix) is exactly
   the stream fed so far. *)
From Coq Require Import ZArith List Bool Lia.
From PTK Require Import Lib.Sx Lib.Py Lib.C03_Str Gen.C03_AnsiSequences Model.C03_Vt100Parser
  Proofs.C03_Table Proofs.C03_Process Proofs.C03_Feed.
Import ListNotations.
Open Scope Z_scope.

Definition TILDE : Z := 126.

(* ---------------------------------------------------------------------- *)
(* The paste start mark cannot hide inside a pending prefix: a string that may
   still grow into a longer sequence has no '~' or is shorter than the mark.
   Table part by computation over the regenerated table. *)

Lemma mem_Z_app c a b : mem_Z c (a ++ b) = mem_Z c a || mem_Z c b.
Proof. induction a as [|x a IH]; [reflexivity|]. cbn [app mem_Z]. now rewrite IH, orb_assoc. Qed.

Lemma mem_Z_forallb (f : Z -> bool) c r : forallb f r = true -> f c = false -> mem_Z c r = false.
Proof.
  intros H Hc. induction r as [|x r IH]; [reflexivity|].
  cbn [forallb] in H. apply andb_true_iff in H. destruct H as [H1 H2].
  cbn [mem_Z]. rewrite IH by exact H2. destruct (x =? c) eqn:E; [|reflexivity].
  apply Z.eqb_eq in E. subst. congruence.
Qed.

Lemma is_ds_tilde : is_ds TILDE = false.
Proof. vm_compute. reflexivity. Qed.

Lemma strip_csi_some p r : strip_csi p = Some r -> p = 27 :: 91 :: r.
Proof.
  destruct p as [|a [|b t]]; cbn [strip_csi]; try discriminate.
  destruct ((a =? 27) && (b =? 91)) eqn:E; [|discriminate].
  apply andb_true_iff in E. destruct E as [E1 E2]. apply Z.eqb_eq in E1, E2. subst.
  intros H. now injection H as <-.
Qed.

Definition short_or_no_tilde (p : str) : Prop := mem_Z TILDE p = false \/ (length p < 6)%nat.

Lemma cpr_prefix_no_tilde p : cpr_prefix_re p = true -> short_or_no_tilde p.
Proof.
  unfold cpr_prefix_re. destruct (strip_csi p) as [r|] eqn:E; [|discriminate].
  apply strip_csi_some in E. subst. intros H. left.
  cbn [mem_Z]. rewrite (mem_Z_forallb is_ds TILDE r H is_ds_tilde). reflexivity.
Qed.

Lemma mouse_prefix_no_tilde p : mouse_prefix_re p = true -> short_or_no_tilde p.
Proof.
  unfold mouse_prefix_re. destruct (strip_csi p) as [r|] eqn:E; [|discriminate].
  apply strip_csi_some in E. subst. intros H. apply orb_true_iff in H. destruct H as [H|H].
  - left. unfold strip_lt in H. destruct r as [|c t]; [reflexivity|].
    destruct (c =? 60) eqn:Ec.
    + apply Z.eqb_eq in Ec. subst. cbn [mem_Z].
      rewrite (mem_Z_forallb is_ds TILDE t H is_ds_tilde). reflexivity.
    + change (27 :: 91 :: c :: t) with ([27; 91] ++ (c :: t)). rewrite mem_Z_app.
      rewrite (mem_Z_forallb is_ds TILDE _ H is_ds_tilde). reflexivity.
  - right. destruct r as [|mm t]; [discriminate|].
    apply andb_true_iff in H. destruct H as [H _]. apply andb_true_iff in H. destruct H as [_ H].
    apply Nat.leb_le in H. cbn [length]. lia.
Qed.

Definition table_tilde_b : bool :=
  forallb (fun kv => negb (mem_Z TILDE (removelast (fst kv)))) ansi_table.
Lemma table_tilde : table_tilde_b = true.
Proof. vm_compute. reflexivity. Qed.

Lemma table_longer_no_tilde p : table_longer p = true -> short_or_no_tilde p.
Proof.
  unfold table_longer. intros H. apply existsb_exists in H. destruct H as [[k v] [HIn H]].
  cbn [fst] in H. apply andb_true_iff in H. destruct H as [H1 H2].
  apply negb_true_iff in H2. apply str_eqb_neq in H2.
  apply startswith_iff in H1. destruct H1 as [t ->].
  assert (t <> []) by (intros ->; rewrite app_nil_r in H2; congruence).
  pose proof (proj1 (forallb_forall _ _) table_tilde _ HIn) as T. cbn [fst] in T.
  apply negb_true_iff in T. rewrite removelast_app in T by assumption.
  rewrite mem_Z_app in T. apply orb_false_iff in T. left. apply T.
Qed.

Lemma lp_no_tilde p : is_prefix_longer p = true -> short_or_no_tilde p.
Proof.
  unfold is_prefix_longer. destruct (cpr_prefix_re p) eqn:E1; cbn [orb].
  - intros _. now apply cpr_prefix_no_tilde.
  - destruct (mouse_prefix_re p) eqn:E2.
    + intros _. now apply mouse_prefix_no_tilde.
    + apply table_longer_no_tilde.
Qed.

Lemma mark_inside p a b : p = a ++ start_mark ++ b -> mem_Z TILDE p = true /\ (6 <= length p)%nat.
Proof.
  intros ->. split.
  - rewrite !mem_Z_app. replace (mem_Z TILDE start_mark) with true by reflexivity.
    now rewrite orb_true_r.
  - rewrite !app_length. change (length start_mark) with 6%nat. lia.
Qed.

Lemma lp_no_mark p a b : is_prefix_longer p = true -> p <> a ++ start_mark ++ b.
Proof.
  intros H E. destruct (mark_inside _ _ _ E) as [M L].
  destruct (lp_no_tilde _ H) as [N|N]; [congruence|lia].
Qed.

(* ---------------------------------------------------------------------- *)
(* rendering *)

Lemma render_app a b : render (a ++ b) = render a ++ render b.
Proof. unfold render. now rewrite map_app, concat_app. Qed.

Lemma render_silent r :
  mem_Z key_BracketedPaste r = false -> render (map (fun x => (KKey x, [])) r) = [].
Proof.
  induction r as [|k r IH]; intros H; [reflexivity|].
  cbn [mem_Z] in H. apply orb_false_iff in H. destruct H as [H1 H2].
  cbn [map]. unfold render in *. cbn [map concat]. rewrite IH by assumption.
  unfold render1. cbn [fst snd]. now rewrite H1.
Qed.

Lemma render_expected data ks :
  ks <> [] -> mem_Z key_BracketedPaste ks = false -> render (expected_events data ks) = data.
Proof.
  destruct ks as [|k r]; [congruence|]. intros _ H.
  cbn [mem_Z] in H. apply orb_false_iff in H. destruct H as [H1 H2].
  cbn [expected_events].
  change ((KKey k, data) :: map (fun x => (KKey x, [])) r) with ([(KKey k, data)] ++ map (fun x => (KKey x, [])) r).
  rewrite render_app, render_silent by assumption.
  unfold render. cbn [map concat]. unfold render1. cbn [fst snd]. rewrite H1. now rewrite !app_nil_r.
Qed.

(* ---------------------------------------------------------------------- *)
(* one activation of the coroutine *)

Definition NoInner (p : str) : Prop := forall a b, p = a ++ start_mark ++ b -> b = [].
Definition Safe (st : pstate) : Prop := if in_paste st then prefix st = [] else NoInner (prefix st).
Definition Carried (st : pstate) : str := render (out st) ++ pending st.

Lemma NoInner_skipn p i : NoInner p -> NoInner (skipn i p).
Proof.
  intros H a b E. apply (H (firstn i p ++ a) b).
  rewrite <- (firstn_skipn i p) at 1. rewrite E. now rewrite <- app_assoc.
Qed.

Lemma prim_lossless a b : prim a b -> Safe a -> Safe b /\ Carried b = Carried a.
Proof.
  intros H HS. destruct H as [st i ks Hm|st c tl Hp].
  - unfold Safe in HS. destruct (in_paste st) eqn:Hin.
    + rewrite HS, firstn_nil, get_match_nil in Hm. discriminate.
    + destruct (mem_Z key_BracketedPaste ks) eqn:HB.
      * destruct (get_match_bp _ _ Hm HB) as [Hd ->].
        rewrite call_handler_bp.
        assert (Hrest : skipn i (prefix st) = []).
        { apply (HS [] (skipn i (prefix st))). rewrite <- Hd. cbn [app]. now rewrite firstn_skipn. }
        rewrite Hrest. split.
        -- unfold Safe. reflexivity.
        -- unfold Carried, pending, out. cbn [set_prefix enter_paste rout in_paste paste_buf prefix].
           rewrite Hin. cbn [app]. f_equal.
           rewrite <- (firstn_skipn i (prefix st)), Hrest, Hd. now rewrite !app_nil_r.
      * rewrite call_handler_nobp by exact HB. split.
        -- unfold Safe. cbn [set_prefix add_out in_paste prefix]. rewrite Hin. now apply NoInner_skipn.
        -- unfold Carried, pending, out. cbn [set_prefix add_out rout in_paste paste_buf prefix].
           rewrite Hin. cbn [app]. rewrite rev_app_distr, rev_involutive, render_app.
           rewrite render_expected; [|apply (get_match_nonempty _ _ Hm)|exact HB].
           rewrite <- app_assoc. now rewrite firstn_skipn.
  - unfold Safe in HS. destruct (in_paste st) eqn:Hin; [congruence|]. split.
    + unfold Safe. cbn [set_prefix push in_paste prefix]. rewrite Hin.
      intros a b E. apply (HS (c :: a) b). rewrite Hp, E. reflexivity.
    + unfold Carried, pending, out. cbn [set_prefix push rout in_paste paste_buf prefix].
      rewrite Hin, Hp. cbn [app rev]. rewrite render_app. unfold render at 2. cbn [map concat].
      unfold render1. cbn [fst snd]. rewrite <- app_assoc. reflexivity.
Qed.

Lemma star_lossless a b : star a b -> Safe a -> Safe b /\ Carried b = Carried a.
Proof.
  induction 1; [auto|]. intros HS. destruct (prim_lossless _ _ H HS) as [S1 C1].
  destruct (IHstar S1) as [S2 C2]. split; [exact S2|congruence].
Qed.

(* ---------------------------------------------------------------------- *)
(* the invariant of reachable states *)

Definition Reach (st : pstate) : Prop :=
  (prefix st = [] \/ is_prefix_longer (prefix st) = true) /\ (in_paste st = true -> prefix st = []).

Lemma Reach_init : Reach init.
Proof. split; [now left|reflexivity]. Qed.

Lemma NoInner_nil : NoInner [].
Proof.
  intros a b E. exfalso. assert (L : length (@nil Z) = length (a ++ start_mark ++ b)) by (now rewrite <- E).
  rewrite !app_length in L. change (length start_mark) with 6%nat in L. cbn [length] in L. lia.
Qed.

Lemma NoInner_snoc p c : (p = [] \/ is_prefix_longer p = true) -> NoInner (p ++ [c]).
Proof.
  intros Hp a b E. destruct b as [|y b'] using rev_ind; [reflexivity|]. exfalso. clear IHb'.
  rewrite !app_assoc in E. apply app_inj_tail in E. destruct E as [E _].
  rewrite <- app_assoc in E. destruct Hp as [->|Hp].
  - apply (f_equal (@length Z)) in E. rewrite !app_length in E. change (length start_mark) with 6%nat in E.
    cbn [length] in E. lia.
  - exact (lp_no_mark _ _ _ Hp E).
Qed.

Lemma Reach_Safe st : Reach st -> Safe st.
Proof.
  intros [H1 H2]. unfold Safe. destruct (in_paste st); [now apply H2|].
  destruct H1 as [->|H1]; [apply NoInner_nil|]. intros a b E. exfalso. exact (lp_no_mark _ _ _ H1 E).
Qed.

Lemma send_char_lossless c st :
  Reach st -> in_paste st = false ->
  Reach (send_char c st) /\ Carried (send_char c st) = Carried st ++ [c].
Proof.
  intros [H1 H2] Hin.
  set (st0 := set_prefix (prefix st ++ [c]) st).
  assert (S0 : Safe st0).
  { unfold Safe, st0. cbn [set_prefix in_paste prefix]. rewrite Hin. now apply NoInner_snoc. }
  destruct (star_lossless _ _ (send_char_star c st) S0) as [S1 C1]. split.
  - split; [apply send_char_final|]. intros Hp. unfold Safe in S1. now rewrite Hp in S1.
  - rewrite C1. unfold Carried, pending, out, st0. cbn [set_prefix rout in_paste paste_buf prefix].
    rewrite Hin. cbn [app]. now rewrite app_assoc.
Qed.

Lemma flush_lossless st : Reach st -> Reach (flush st) /\ Carried (flush st) = Carried st.
Proof.
  intros HR. destruct (star_lossless _ _ (flush_star st) (Reach_Safe _ HR)) as [S1 C1]. split.
  - split; [apply flush_final|]. intros Hp. unfold Safe in S1. now rewrite Hp in S1.
  - exact C1.
Qed.

Lemma ends_with_split m s : ends_with m s = true -> s = firstn (length s - length m) s ++ m.
Proof.
  induction s as [|x s IH]; intros H.
  - cbn [ends_with] in H. rewrite orb_false_r in H. apply str_eqb_eq in H. now subst.
  - change (ends_with m (x :: s)) with (str_eqb (x :: s) m || ends_with m s) in H.
    apply orb_true_iff in H. destruct H as [H|H].
    + apply str_eqb_eq in H. rewrite <- H. now rewrite Nat.sub_diag.
    + assert (L : (length m <= length s)%nat).
      { clear IH. induction s as [|y s IHs].
        - cbn [ends_with] in H. rewrite orb_false_r in H. apply str_eqb_eq in H. subst. cbn; lia.
        - change (ends_with m (y :: s)) with (str_eqb (y :: s) m || ends_with m s) in H.
          apply orb_true_iff in H. destruct H as [H|H].
          + apply str_eqb_eq in H. subst. lia.
          + apply IHs in H. cbn [length]. lia. }
      cbn [length]. rewrite Nat.sub_succ_l by exact L. cbn [firstn app]. f_equal. now apply IH.
Qed.

Lemma paste_char_lossless c st :
  Reach st -> in_paste st = true ->
  Reach (paste_char c st) /\ Carried (paste_char c st) = Carried st ++ [c].
Proof.
  intros [H1 H2] Hin. pose proof (H2 Hin) as Hp. unfold paste_char.
  destruct (ends_with end_mark (paste_buf st ++ [c])) eqn:He.
  - split.
    + split; cbn [leave_paste push prefix in_paste]; [now left|discriminate].
    + unfold Carried, pending, out. cbn [leave_paste push rout in_paste paste_buf prefix].
      rewrite Hin, Hp. cbn [rev]. rewrite render_app. unfold render at 2. cbn [map concat].
      unfold render1. cbn [fst snd]. rewrite Z.eqb_refl.
      apply ends_with_split in He. rewrite !app_nil_r. rewrite <- !app_assoc. f_equal. f_equal.
      symmetry. exact He.
  - split.
    + split; cbn [set_paste_buf prefix in_paste]; [now left|auto].
    + unfold Carried, pending, out. cbn [set_paste_buf rout in_paste paste_buf prefix].
      rewrite Hin, Hp. now rewrite !app_nil_r, <- !app_assoc.
Qed.

Lemma step_char_lossless st c :
  Reach st -> Reach (step_char st c) /\ Carried (step_char st c) = Carried st ++ [c].
Proof.
  intros HR. unfold step_char. destruct (in_paste st) eqn:Hin.
  - now apply paste_char_lossless.
  - now apply send_char_lossless.
Qed.

Lemma feed_spec_lossless d : forall st,
  Reach st -> Reach (feed_spec d st) /\ Carried (feed_spec d st) = Carried st ++ d.
Proof.
  unfold feed_spec. induction d as [|c d IH]; intros st HR.
  - cbn [fold_left]. now rewrite app_nil_r.
  - cbn [fold_left]. destruct (step_char_lossless st c HR) as [R1 C1].
    destruct (IH _ R1) as [R2 C2]. split; [exact R2|]. rewrite C2, C1, <- app_assoc. reflexivity.
Qed.

Lemma run_ops_lossless ops : forall st,
  Reach st -> Inv0 st ->
  Reach (run_ops ops st) /\ Carried (run_ops ops st) = Carried st ++ all_fed ops.
Proof.
  unfold run_ops, all_fed. induction ops as [|o ops IH]; intros st HR HI.
  - cbn [fold_left map concat]. now rewrite app_nil_r.
  - cbn [fold_left map concat]. destruct o as [d|]; cbn [apply_op fed_of].
    + rewrite feed_eq_spec by exact HI.
      destruct (feed_spec_lossless d st HR) as [R1 C1].
      destruct (IH _ R1 (Inv0_feed_spec d st HI)) as [R2 C2].
      split; [exact R2|]. rewrite C2, C1, <- app_assoc. reflexivity.
    + destruct (flush_lossless st HR) as [R1 C1].
      destruct (IH _ R1 (Inv0_flush st HI)) as [R2 C2].
      split; [exact R2|]. rewrite C2, C1. reflexivity.
Qed.
