(* reshape_text: str.splitlines(True) loses nothing; the rows outside
   from_row..to_row are untouched, the call never fails, the cursor ends
   behind the reshaped rows. *)
From Coq Require Import ZArith List Bool Lia.
From PTK Require Import Lib.Sx Lib.Py Lib.PyLines Model.Document Model.BufferEdit
  Model.C02_DocQueries Model.C08_ViOps Model.C01_Reshape Proofs.BufferEditFacts Proofs.C01_CaseWordFacts.
Import ListNotations.
Open Scope Z_scope.

Lemma sk_concat_n : forall n s, (length s <= n)%nat ->
  forall cur, concat (splitlines_keepends_aux s cur) = rev cur ++ s.
Proof.
  induction n as [|n IH]; intros s Hn cur.
  - destruct s; [|cbn in Hn; lia]. cbn [splitlines_keepends_aux].
    destruct cur; cbn [concat]; [reflexivity|]. now rewrite !app_nil_r.
  - destruct s as [|x r]; cbn [splitlines_keepends_aux].
    + destruct cur; cbn [concat]; [reflexivity|]. now rewrite !app_nil_r.
    + cbn [length] in Hn.
      destruct (is_linebreak x).
      * destruct r as [|y r'].
        -- cbn [concat rev]. now rewrite app_nil_r.
        -- cbn [length] in Hn. destruct ((x =? 13) && (y =? 10)); cbn [concat].
           ++ rewrite IH by lia. cbn [rev app]. now rewrite <- !app_assoc.
           ++ rewrite IH by (cbn [length]; lia). cbn [rev app]. now rewrite <- !app_assoc.
      * rewrite IH by lia. cbn [rev]. now rewrite <- app_assoc.
Qed.

Lemma splitlines_keepends_concat s : concat (splitlines_keepends s) = s.
Proof. unfold splitlines_keepends. now rewrite (sk_concat_n (length s) s (le_n _) []). Qed.

(* Python slices with non-negative bounds, possibly past the end *)
Lemma slice_to_nonneg {T} (l : list T) a : 0 <= a -> slice_to l a = firstn (Z.to_nat a) l.
Proof.
  intros Ha. unfold slice_to, slice, adj_index. destruct (a <? 0) eqn:E; [lia|].
  pose proof (len_nonneg l) as Hl.
  destruct (0 <? Z.min a (len l)) eqn:E2.
  - rewrite Z.sub_0_r. cbn [Z.to_nat skipn].
    destruct (Z.min_spec a (len l)) as [[H ->]|[H ->]]; [reflexivity|].
    unfold len. rewrite Nat2Z.id, firstn_all. symmetry. apply firstn_all2. unfold len in H. lia.
  - assert (a = 0 \/ len l = 0) as [->| H] by lia; [reflexivity|].
    destruct l; [now rewrite firstn_nil|rewrite len_cons in H; pose proof (len_nonneg l); lia].
Qed.

Lemma slice_from_nonneg {T} (l : list T) a : 0 <= a -> slice_from l a = skipn (Z.to_nat a) l.
Proof.
  intros Ha. unfold slice_from, slice, adj_index. destruct (a <? 0) eqn:E; [lia|].
  destruct (Z.min a (len l) <? len l) eqn:E2.
  - rewrite Z.min_l by lia. apply firstn_all2. rewrite skipn_length. unfold len in *. lia.
  - symmetry. apply skipn_all2. unfold len in *. lia.
Qed.

Lemma slice2_nonneg {T} (l : list T) a b : 0 <= a -> a <= b ->
  slice2 l a b = firstn (Z.to_nat (b - a)) (skipn (Z.to_nat a) l).
Proof.
  intros Ha Hab. unfold slice2, slice, adj_index.
  destruct (a <? 0) eqn:E; [lia|]. destruct (b <? 0) eqn:E1; [lia|].
  destruct (Z.min a (len l) <? Z.min b (len l)) eqn:E2.
  - rewrite (Z.min_l a) by lia.
    destruct (Z.min_spec b (len l)) as [[H ->]|[H ->]]; [reflexivity|].
    rewrite !firstn_all2; [reflexivity| |]; rewrite skipn_length; unfold len in *; lia.
  - assert (len l <= a \/ a = b) as [H|H] by lia.
    + rewrite skipn_all2 by (unfold len in *; lia). now rewrite firstn_nil.
    + subst. now rewrite Z.sub_diag.
Qed.

Lemma firstn_skipn_split3 {T} (l : list T) a k :
  l = firstn a l ++ firstn k (skipn a l) ++ skipn (a + k) l.
Proof.
  rewrite <- (firstn_skipn a l) at 1. f_equal.
  rewrite <- (firstn_skipn k (skipn a l)) at 1. f_equal.
  now rewrite skipn_add.
Qed.

(* Frame and effect.  [ls] are the lines with their boundaries. *)
Lemma reshape_frame b a e tw :
  0 <= a -> a <= e ->
  let ls := splitlines_keepends (btext b) in
  let before := firstn (Z.to_nat a) ls in
  let mid := firstn (Z.to_nat (e + 1 - a)) (skipn (Z.to_nat a) ls) in
  let after := skipn (Z.to_nat (e + 1)) ls in
  btext b = concat before ++ concat mid ++ concat after /\
  (mid = [] -> reshape_text_w b a e tw = Ok b []) /\
  (mid <> [] -> exists R,
     reshape_text_w b a e tw =
       Ok (mkbuf (concat before ++ R ++ concat after) (len (concat before ++ R))) [] /\
     exists R0, R = R0 ++ [NL]).
Proof.
  intros Ha Hae ls before mid after. split; [|split].
  - pose proof (splitlines_keepends_concat (btext b)) as Hc. fold ls in Hc.
    pose proof (firstn_skipn_split3 ls (Z.to_nat a) (Z.to_nat (e + 1 - a))) as Hs.
    replace (Z.to_nat a + Z.to_nat (e + 1 - a))%nat with (Z.to_nat (e + 1)) in Hs by lia.
    fold before mid after in Hs. rewrite <- Hc, Hs at 1. now rewrite !concat_app.
  - intros Hm. unfold reshape_text_w. fold ls.
    rewrite slice2_nonneg by lia. fold mid. now rewrite Hm.
  - intros Hm. unfold reshape_text_w. fold ls.
    rewrite slice2_nonneg, slice_to_nonneg, slice_from_nonneg by lia.
    fold before mid after. destruct mid as [|first rest] eqn:Em; [congruence|].
    match goal with |- context [?i ++ reshape_loop ?w ?i2 ?wd 0 ++ [NL]] =>
      set (R0 := i ++ reshape_loop w i2 wd 0) end.
    exists (R0 ++ [NL]). split; [|now exists R0].
    replace (_ ++ reshape_loop _ _ _ 0 ++ [NL]) with (R0 ++ [NL])
      by (unfold R0; now rewrite <- app_assoc).
    unfold set_document.
    set (t' := concat before ++ (R0 ++ [NL]) ++ concat after).
    assert (Hl : len (concat before ++ R0 ++ [NL]) <= len t').
    { unfold t'. rewrite !len_app. pose proof (len_nonneg (concat after)). lia. }
    destruct (len t' <? len (concat before ++ R0 ++ [NL])) eqn:E; [lia|].
    f_equal. f_equal. pose proof (len_nonneg (concat before ++ R0 ++ [NL])). lia.
Qed.
