(* The proposed repair of C13-F2 makes exactly-once hold for EVERY schedule. *)
From Coq Require Import ZArith List Bool Lia.
From PTK Require Import Lib.Sx Lib.Py Model.C13_Threaded Model.C13_ThreadedF2 Proofs.C13_ThreadedFacts.
Import ListNotations.
Open Scope Z_scope.

Definition cinv2 (st : tstate) (c : consumer) : Prop :=
  if c_fin c then c_out c = rev (c_start c)
  else match t_ph st with
       | P0 => False
       | P2 => c_out c = [] /\ c_iy c = 0%nat /\ c_p0 c = t_np st
       | _ => exists V0 V1,
                t_store st ++ t_fly st = t_base st ++ V0 ++ V1 /\
                c_start c = t_base st ++ V0 /\
                t_np st = (c_p0 c + length V1)%nat /\
                pre (c_out c) (rev (c_start c)) /\ length (c_out c) = c_iy c
       end.

Definition Inv2 (st : tstate) : Prop :=
  t_fly st = [] /\ phinv st /\ Forall (cinv2 st) (t_cons st).

Lemma cinv2_iff st c : t_ph st <> P2 -> (cinv2 st c <-> cinv st c).
Proof. unfold cinv2, cinv. destruct (c_fin c); [tauto|]. destruct (t_ph st); tauto. Qed.

Lemma Inv2_Inv st : t_ph st <> P2 -> Inv2 st -> Inv st.
Proof.
  intros Hn (Hf & Hp & Hc). split; [exact Hp|]. eapply Forall_impl; [|exact Hc].
  intros c. now apply cinv2_iff.
Qed.

Lemma Inv_Inv2 st : t_ph st <> P2 -> t_fly st = [] -> Inv st -> Inv2 st.
Proof.
  intros Hn Hf (Hp & Hc). split; [exact Hf|]. split; [exact Hp|]. eapply Forall_impl; [|exact Hc].
  intros c. now apply cinv2_iff.
Qed.

Ltac ph_ne E := unfold tstep; rewrite ?E; cbn; rewrite ?E; try discriminate; try congruence.
Ltac fly_ok E H := unfold tstep; rewrite ?E; cbn; rewrite ?E; try exact H.

Lemma step2_inv st l : Inv2 st -> Inv2 (tstep2 st l).
Proof.
  intros Hi. pose proof Hi as (Hf & Hp & Hc). unfold phinv in Hp. destruct l as [| |i|s].
  - (* loader *)
    unfold tstep2. destruct (t_ph st) as [| |pend|] eqn:Eph.
    + apply Inv_Inv2; [ph_ne Eph|fly_ok Eph Hf|].
      apply step_inv_prim; [intros; discriminate| |reflexivity]. apply Inv2_Inv; [rewrite Eph; discriminate|exact Hi].
    + (* reading the storage *)
      destruct Hp as (Hfl & Hls & Hfly & Hl). split; [exact Hf|]. split.
      * split; [exact Hfl|]. cbn. exists [], []. rewrite Hfly, Hls. cbn. rewrite app_nil_r. auto.
      * apply Forall_map. eapply Forall_impl; [|exact Hc]. intros c Hci.
        unfold cinv2, snap_cons in *. rewrite Eph in Hci. destruct (c_fin c) eqn:Efin.
        -- rewrite Efin. exact Hci.
        -- cbn. destruct Hci as (Ho & Hiy & Hn). exists [], []. rewrite Hfly, Ho, Hiy, Hn. cbn.
           rewrite !app_nil_r. repeat split; auto. apply pre_nil.
    + assert (Hne : t_ph (tstep st LStep) <> P2).
      { unfold tstep. rewrite Eph. destruct pend; cbn; discriminate. }
      apply Inv_Inv2; [exact Hne| |].
      * unfold tstep. rewrite Eph. destruct pend; exact Hf.
      * apply step_inv_prim; [intros; discriminate| |reflexivity]. apply Inv2_Inv; [rewrite Eph; discriminate|exact Hi].
    + apply Inv_Inv2; [ph_ne Eph|fly_ok Eph Hf|].
      apply step_inv_prim; [intros; discriminate| |reflexivity]. apply Inv2_Inv; [rewrite Eph; discriminate|exact Hi].
  - (* load() *)
    unfold tstep2, tstep. destruct (t_ph st) as [| |pend|] eqn:Eph.
    + destruct Hp as (Hfl & Hcons & Hl). split; [exact Hf|]. split.
      * split; [exact Hfl|]. cbn. auto.
      * cbn [t_cons]. rewrite Hcons. cbn [app]. constructor; [|constructor].
        unfold cinv2, new_cons. cbn. auto.
    + destruct Hp as (Hfl & Hls & Hfly & Hl). split; [exact Hf|]. split.
      * split; [exact Hfl|]. cbn. auto.
      * cbn [t_cons]. apply Forall_app. split.
        -- eapply Forall_impl; [|exact Hc]. intros c Hci. unfold cinv2 in *. cbn [t_ph t_np]. rewrite Eph in Hci. exact Hci.
        -- constructor; [|constructor]. unfold cinv2, new_cons. cbn. auto.
    + assert (E : mkt (t_store st) (t_ls st) (t_loaded st) (t_np st) (P3 pend) (t_cons st ++ [new_cons st]) (t_fly st) (t_base st)
                  = tstep st CStart) by (unfold tstep; now rewrite Eph).
      rewrite E. apply Inv_Inv2; [unfold tstep; rewrite Eph; cbn; discriminate|unfold tstep; rewrite Eph; exact Hf|].
      apply step_inv_prim; [intros; discriminate| |cbn; now rewrite Eph]. apply Inv2_Inv; [rewrite Eph; discriminate|exact Hi].
    + assert (E : mkt (t_store st) (t_ls st) (t_loaded st) (t_np st) P4 (t_cons st ++ [new_cons st]) (t_fly st) (t_base st)
                  = tstep st CStart) by (unfold tstep; now rewrite Eph).
      rewrite E. apply Inv_Inv2; [unfold tstep; rewrite Eph; cbn; discriminate|unfold tstep; rewrite Eph; exact Hf|].
      apply step_inv_prim; [intros; discriminate| |cbn; now rewrite Eph]. apply Inv2_Inv; [rewrite Eph; discriminate|exact Hi].
  - (* read *)
    unfold tstep2. destruct (t_ph st) as [| |pend|] eqn:Eph.
    + apply Inv_Inv2; [ph_ne Eph|fly_ok Eph Hf|].
      apply step_inv_prim; [intros; discriminate| |reflexivity]. apply Inv2_Inv; [rewrite Eph; discriminate|exact Hi].
    + pose proof Hp as (Hfl & Hls & Hfly & Hl). split; [exact Hf|]. split.
      * split; [exact Hfl|]. cbn. rewrite Eph. auto.
      * cbn [tstep t_cons]. apply Forall_upd_nth; [|exact Hc]. intros c Hci.
        unfold cinv2, read in *. cbn [t_ph t_np]. rewrite Eph in *. destruct (c_fin c) eqn:Efin.
        -- rewrite Efin. exact Hci.
        -- cbn. rewrite Hl, Hls, skipn_nil. destruct Hci as (Ho & Hiy & Hn). rewrite Ho, Hiy. cbn. auto.
    + apply Inv_Inv2; [ph_ne Eph|fly_ok Eph Hf|].
      apply step_inv_prim; [intros; discriminate| |reflexivity]. apply Inv2_Inv; [rewrite Eph; discriminate|exact Hi].
    + apply Inv_Inv2; [ph_ne Eph|fly_ok Eph Hf|].
      apply step_inv_prim; [intros; discriminate| |reflexivity]. apply Inv2_Inv; [rewrite Eph; discriminate|exact Hi].
  - (* append_string, atomic *)
    assert (Hfly' : t_fly (tstep st (Append s)) = []).
    { cbn [tstep]. unfold asto, ains. cbn [t_fly]. rewrite Hf. cbn [app remove_first]. now rewrite str_eqb_refl. }
    assert (Hok : t_ph st <> P2 -> ok_label st (Append s) = true).
    { intros Hn. cbn [ok_label]. unfold fly_nil. rewrite Hf. destruct (t_ph st); try reflexivity. congruence. }
    unfold tstep2. destruct (t_ph st) as [| |pend|] eqn:Eph.
    + apply Inv_Inv2; [unfold tstep, asto, ains; cbn; rewrite ?Eph; discriminate|exact Hfly'|].
      apply step_inv; [apply Inv2_Inv; [rewrite Eph; discriminate|exact Hi]|apply Hok; discriminate].
    + (* between the first load() and the loader's reading: store only *)
      destruct Hp as (Hfl & Hls & Hfly & Hl). split; [exact Hf|]. split.
      * split; [exact Hfl|]. cbn. auto.
      * eapply Forall_impl; [|exact Hc]. intros c Hci. unfold cinv2 in *. cbn [t_ph t_np].
        rewrite Eph in Hci. exact Hci.
    + apply Inv_Inv2; [unfold tstep, asto, ains; cbn; rewrite ?Eph; discriminate|exact Hfly'|].
      apply step_inv; [apply Inv2_Inv; [rewrite Eph; discriminate|exact Hi]|apply Hok; discriminate].
    + apply Inv_Inv2; [unfold tstep, asto, ains; cbn; rewrite ?Eph; discriminate|exact Hfly'|].
      apply step_inv; [apply Inv2_Inv; [rewrite Eph; discriminate|exact Hi]|apply Hok; discriminate].
Qed.

Lemma sched2_inv sched : forall st, Inv2 st -> Inv2 (trun2 st sched).
Proof.
  induction sched as [|l r IH]; intros st Hi; [exact Hi|].
  unfold trun2. cbn [fold_left]. apply IH. now apply step2_inv.
Qed.

Lemma init_inv2 S0 : Inv2 (tinit S0).
Proof. unfold Inv2, tinit, phinv. cbn. repeat split; auto. Qed.

(* EVERY schedule of loader steps, load() calls, reads and append_string calls,
   no exclusion: a finished load() has yielded exactly [rev (c_start c)] - the
   storage when it started, or as the loader read it if it started before that -
   an unfinished one a prefix, and once loaded the cache is the storage. *)
Theorem threaded_exactly_once_f2 S0 sched c :
  let st := trun2 (tinit S0) sched in
  In c (t_cons st) ->
  (c_fin c = true -> c_out c = rev (c_start c)) /\
  (c_fin c = false -> pre (c_out c) (rev (c_start c))) /\
  (t_loaded st = true -> t_ls st = rev (t_store st)).
Proof.
  intros st Hin. destruct (sched2_inv sched _ (init_inv2 S0)) as (Hf & Hp & Hc).
  fold st in Hf, Hp, Hc. rewrite Forall_forall in Hc. specialize (Hc c Hin). unfold cinv2 in Hc.
  repeat split.
  - intros E. now rewrite E in Hc.
  - intros E. rewrite E in Hc. destruct (t_ph st) as [| |pend|].
    + contradiction.
    + destruct Hc as (-> & _). apply pre_nil.
    + destruct Hc as (V0 & V1 & _ & _ & _ & H & _). exact H.
    + destruct Hc as (V0 & V1 & _ & _ & _ & H & _). exact H.
  - intros El. destruct Hp as [_ Hp]. destruct (t_ph st) as [| |pend|].
    + destruct Hp as (_ & H). congruence.
    + destruct Hp as (_ & _ & H). congruence.
    + destruct Hp as (A & T & _ & _ & _ & H). congruence.
    + destruct Hp as (A & H1 & H2 & _). rewrite H2, H1, Hf, app_nil_r.
      rewrite (rev_app_distr (t_base st)). reflexivity.
Qed.

(* the window schedule of C13-F2 under the repair: NEW once everywhere *)
Definition window_sched2 : list label2 :=
  [CStart2; Append2 snew; CStart2; LStep2; LStep2; LStep2; LStep2; LStep2; CRead2 0; CRead2 1].

Lemma window_fixed_f2 :
  let st := trun2 (tinit [sa; sb]) window_sched2 in
  t_store st = [sa; sb; snew] /\ t_ls st = [snew; sb; sa] /\
  map c_out (t_cons st) = [[snew; sb; sa]; [snew; sb; sa]] /\ map c_fin (t_cons st) = [true; true].
Proof. vm_compute. auto. Qed.
