(* C19 - after the fix d87ad65 every colour parse_color returns lies in the
   round-trip domain, hence so do the colours of every resolved Attrs, and the
   24-bit round trip holds for resolved attributes. *)
From Coq Require Import ZArith List Bool Lia String.
From PTK Require Import Lib.Py Lib.C19_Str Gen.Whitespace Gen.C19_Palette
     Model.C19_Palette Model.C19_Style Model.C19_Sgr
     Proofs.C19_PaletteFacts Proofs.C19_StrFacts Proofs.C19_StyleFacts Proofs.C19_SgrFacts
     Proofs.C19_StyleStringFacts.
Import ListNotations.
Open Scope Z_scope.

(* table facts *)
Lemma alias_targets_table :
  forallb (fun kv : str * str => mem_str (snd kv) ansi_color_names) ansi_color_aliases = true.
Proof. vm_compute. reflexivity. Qed.

Lemma named_values_table :
  forallb (fun kv : str * str => hex6_b (snd kv)) named_colors_lower = true.
Proof. vm_compute. reflexivity. Qed.

Lemma assoc_In {V} : forall (l : list (str * V)) k v, assoc k l = Some v -> exists k', In (k', v) l.
Proof.
  induction l as [|[k0 v0] r IH]; intros k v H; [discriminate|].
  cbn [assoc] in H. destruct (str_eqb k k0).
  - inversion H; subst. exists k0. left. reflexivity.
  - destruct (IH _ _ H) as [k' Hk]. exists k'. right. exact Hk.
Qed.

Lemma alias_ok : forall k v, assoc k ansi_color_aliases = Some v -> color_ok (Some v) = true.
Proof.
  intros k v H. destruct (assoc_In _ _ _ H) as [k' Hin].
  pose proof (proj1 (forallb_forall _ _) alias_targets_table _ Hin) as Hm. cbn [snd] in Hm.
  cbn [color_ok]. rewrite Hm. rewrite !orb_true_r. reflexivity.
Qed.

Lemma named_ok : forall k v, assoc k named_colors_lower = Some v -> color_ok (Some v) = true.
Proof.
  intros k v H. destruct (assoc_In _ _ _ H) as [k' Hin].
  pose proof (proj1 (forallb_forall _ _) named_values_table _ Hin) as Hm. cbn [snd] in Hm.
  cbn [color_ok]. rewrite Hm. rewrite !orb_true_r. reflexivity.
Qed.

Lemma name_ok : forall v, mem_str v ansi_color_names = true -> color_ok (Some v) = true.
Proof. intros v H. cbn [color_ok]. rewrite H. rewrite !orb_true_r. reflexivity. Qed.

Theorem parse_color_in_domain : forall t c, parse_color t = Some c -> color_ok (Some c) = true.
Proof.
  intros t c H. unfold parse_color in H.
  destruct (mem_str t ansi_color_names) eqn:E1; [inversion H; subst; apply name_ok; exact E1|].
  destruct (assoc t ansi_color_aliases) as [v|] eqn:E2; [inversion H; subst; eapply alias_ok; eauto|].
  destruct (assoc (lower t) named_colors_lower) as [v|] eqn:E3; [inversion H; subst; eapply named_ok; eauto|].
  destruct (str_eqb (slice2 t 0 1) [35]) eqn:E4.
  - set (col := slice_from t 1) in *.
    destruct (mem_str col ansi_color_names) eqn:E5; [inversion H; subst; apply name_ok; exact E5|].
    destruct (assoc col ansi_color_aliases) as [v|] eqn:E6; [inversion H; subst; eapply alias_ok; eauto|].
    destruct (hex36_b col) eqn:E7; cbn [negb] in H; [|discriminate].
    unfold hex36_b in E7. apply andb_prop in E7. destruct E7 as [Hhex _].
    destruct (len col =? 6) eqn:E8.
    + inversion H; subst. cbn [color_ok]. unfold hex6_b. rewrite E8, Hhex. cbn. rewrite !orb_true_r. reflexivity.
    + destruct col as [|c0 [|c1 [|c2 [|c3 r]]]]; try discriminate.
      inversion H; subst. cbn [forallb] in Hhex.
      apply andb_prop in Hhex. destruct Hhex as [H0 Hhex].
      apply andb_prop in Hhex. destruct Hhex as [H1 Hhex].
      apply andb_prop in Hhex. destruct Hhex as [H2 _].
      cbn [color_ok]. unfold hex6_b. cbn [forallb]. rewrite H0, H1, H2.
      change (len [c0; c0; c1; c1; c2; c2] =? 6) with true. cbn. rewrite !orb_true_r. reflexivity.
  - destruct (str_eqb t []) eqn:E5.
    + inversion H; subst. apply str_eqb_eq in E5. subst. reflexivity.
    + cbn [orb] in H. destruct (str_eqb t s_default) eqn:E6; [|discriminate].
      inversion H; subst. cbn [color_ok]. rewrite E6. rewrite !orb_true_r. reflexivity.
Qed.

(* ---------------------------------------------------------------------- *)
Definition colours_ok (a : attrs) : Prop :=
  color_ok (a_color a) = true /\ color_ok (a_bgcolor a) = true.

Lemma apply_part_ok : forall p a a', apply_part p a = Some a' -> colours_ok a -> colours_ok a'.
Proof.
  intros p a a' H [Hc Hb]. unfold apply_part in H.
  repeat match type of H with
         | (if ?b then _ else _) = Some _ =>
             destruct b; [inversion H; subst; split; assumption|]
         end.
  destruct (startswith p s_bg).
  { destruct (parse_color (slice_from p 3)) eqn:E; [|discriminate]. inversion H; subst.
    split; [exact Hc | cbn [a_bgcolor set_bgcolor]; eapply parse_color_in_domain; eauto]. }
  destruct (startswith p s_fg).
  { destruct (parse_color (slice_from p 3)) eqn:E; [|discriminate]. inversion H; subst.
    split; [cbn [a_color set_color]; eapply parse_color_in_domain; eauto | exact Hb]. }
  destruct (parse_color p) eqn:E; [|discriminate]. inversion H; subst.
  split; [cbn [a_color set_color]; eapply parse_color_in_domain; eauto | exact Hb].
Qed.

Lemma apply_parts_ok : forall ps a a', apply_parts ps a = Some a' -> colours_ok a -> colours_ok a'.
Proof.
  induction ps as [|p r IH]; intros a a' H Ha; cbn [apply_parts] in H.
  - inversion H; subst. exact Ha.
  - destruct (apply_part p a) eqn:E; [|discriminate]. eapply IH; eauto. eapply apply_part_ok; eauto.
Qed.

Lemma parse_style_str_ok : forall s a, parse_style_str s = Some a -> colours_ok a.
Proof.
  intros s a H. unfold parse_style_str in H. eapply apply_parts_ok; [exact H|].
  destruct (contains s_noinherit s); split; reflexivity.
Qed.

Lemma mk_style_ok : forall rules table, mk_style rules = Ok table ->
  Forall (fun r : rule => colours_ok (snd r)) table.
Proof.
  induction rules as [|[n st] rest IH]; intros table H; cbn [mk_style] in H.
  - inversion H. constructor.
  - unfold mk_rule in H. destruct (class_names_ok n); [|discriminate].
    destruct (parse_style_str st) eqn:E; [|discriminate].
    destruct (mk_style rest) as [xs|] eqn:E2; [|discriminate].
    inversion H; subst. constructor; [cbn [snd]; eapply parse_style_str_ok; eauto | apply IH; reflexivity].
Qed.

Lemma matching_ok : forall table cs, Forall (fun r : rule => colours_ok (snd r)) table ->
  Forall colours_ok (matching table cs).
Proof.
  intros table cs H. unfold matching. apply Forall_forall. intros x Hx.
  apply in_map_iff in Hx. destruct Hx as (r & <- & Hr). apply filter_In in Hr. destruct Hr as [Hr _].
  exact (proj1 (Forall_forall _ _) H _ Hr).
Qed.

Lemma class_step_ok : forall table ns acc seen acc' seen',
  Forall (fun r : rule => colours_ok (snd r)) table -> Forall colours_ok acc ->
  class_step table ns acc seen = (acc', seen') -> Forall colours_ok acc'.
Proof.
  intros table. induction ns as [|n r IH]; intros acc seen acc' seen' Ht Ha H; cbn [class_step] in H.
  - inversion H; subst. exact Ha.
  - eapply IH; [exact Ht | | exact H]. apply Forall_app. split; [exact Ha | apply matching_ok; exact Ht].
Qed.

Lemma parts_loop_ok : forall table parts acc seen l,
  Forall (fun r : rule => colours_ok (snd r)) table -> Forall colours_ok acc ->
  parts_loop table parts acc seen = Some l -> Forall colours_ok l.
Proof.
  intros table. induction parts as [|p r IH]; intros acc seen l Ht Ha H; cbn [parts_loop] in H.
  - inversion H; subst. exact Ha.
  - destruct (startswith p s_class).
    + destruct (class_step table (new_class_names p) acc seen) as [acc' seen'] eqn:E.
      eapply IH; [exact Ht | | exact H]. eapply class_step_ok; eauto.
    + destruct (parse_style_str p) eqn:E; [|discriminate].
      eapply IH; [exact Ht | | exact H]. apply Forall_app. split; [exact Ha|].
      constructor; [eapply parse_style_str_ok; eauto | constructor].
Qed.

Lemma or_color_ok : forall vals,
  Forall (fun v => color_ok v = true) vals ->
  exists v, or_ [] vals = Some v /\ color_ok (Some v) = true.
Proof.
  intros vals H. destruct (or_last (@nil Z) vals) as (v & Hv & Hl). exists v. split; [exact Hv|].
  destruct Hl as [(l1 & l2 & E & _) | [_ E]].
  - subst vals. apply Forall_app in H. destruct H as [_ H]. inversion H; subst. assumption.
  - subst v. reflexivity.
Qed.

Lemma merge_attrs_ok : forall l, Forall colours_ok l -> rt_dom (merge_attrs l).
Proof.
  intros l H. unfold rt_dom, merge_attrs. cbn [a_color a_bgcolor].
  assert (H1 : Forall (fun v => color_ok v = true) (map a_color l)).
  { apply Forall_forall. intros v Hv. apply in_map_iff in Hv. destruct Hv as (a & <- & Ha).
    exact (proj1 (proj1 (Forall_forall _ _) H _ Ha)). }
  assert (H2 : Forall (fun v => color_ok v = true) (map a_bgcolor l)).
  { apply Forall_forall. intros v Hv. apply in_map_iff in Hv. destruct Hv as (a & <- & Ha).
    exact (proj2 (proj1 (Forall_forall _ _) H _ Ha)). }
  destruct (or_color_ok _ H1) as (v1 & E1 & O1). destruct (or_color_ok _ H2) as (v2 & E2 & O2).
  rewrite E1, E2. split; assumption.
Qed.

(* every resolved Attrs lies in the round-trip domain (for a default that does) *)
Theorem resolved_in_domain : forall rules s d a,
  rt_dom d -> style_get rules s d = Ok a -> rt_dom a.
Proof.
  intros rules s d a Hd H. unfold style_get in H.
  destruct (mk_style rules) as [table|] eqn:Et; [|discriminate].
  pose proof (mk_style_ok _ _ Et) as Ht.
  unfold get_attrs in H. destruct (list_of_attrs table s d) as [l|] eqn:El; [|discriminate].
  inversion H; subst. apply merge_attrs_ok.
  unfold list_of_attrs in El. eapply parts_loop_ok; [exact Ht | | exact El].
  constructor; [exact Hd|]. apply Forall_forall. intros x Hx.
  apply in_map_iff in Hx. destruct Hx as (r & <- & Hr). apply filter_In in Hr. destruct Hr as [Hr _].
  exact (proj1 (Forall_forall _ _) Ht _ Hr).
Qed.

Theorem sgr_roundtrip_resolved : forall rules s d a,
  rt_dom d -> style_get rules s d = Ok a ->
  decode_seq (escape_code 24 a) = Ok (canon a).
Proof.
  intros rules s d a Hd H. apply sgr_roundtrip_24_attrs. eapply resolved_in_domain; eauto.
Qed.

Lemma default_in_domain : rt_dom DEFAULT_ATTRS.
Proof. split; reflexivity. Qed.
