(* C12 - the division with fixes/C12-zero-weight-children.patch applied
   (Model divide_fixed): it always returns, within the same fuel bound. *)
From Coq Require Import ZArith List Bool Lia.
From PTK Require Import Lib.Sx Model.C12_Divide Proofs.C12_Safety Proofs.C12_Gen Proofs.C12_Termination.
Import ListNotations.
Open Scope Z_scope.

Lemma room_tgts : forall ws caps start, length ws = length caps -> length caps = length start ->
  zsum start + room ws caps start = zsum (tgts ws caps start).
Proof.
  induction ws as [|w wr IH]; intros [|c cr] [|s sr] H1 H2; simpl in *; try discriminate; try lia.
  specialize (IH cr sr ltac:(congruence) ltac:(congruence)). destruct (w >? 0); lia.
Qed.

Theorem divide_fixed_total : forall done ds avail fuel,
  Forall valid ds -> (divide_fuel ds avail <= fuel)%nat ->
  (divide_fixed fuel done ds avail = TooSmall /\ ds <> [] /\ zsum (mins ds) > avail) \/
  exists l, divide_fixed fuel done ds avail = Sizes l /\ zsum (mins ds) <= Z.max avail (zsum (mins ds)) /\
    (ds <> [] -> zsum (mins ds) <= avail /\ length l = length ds /\
                 le_all (mins ds) l /\ le_all l (maxs ds) /\ zsum l <= avail).
Proof.
  intros done ds avail fuel Hv Hfuel.
  destruct ds as [|d0 dr] eqn:Eds.
  { right. exists []. split; [reflexivity|]. split; [lia|]. intro H; congruence. }
  rewrite <- Eds in *.
  assert (Hne : ds <> []) by (rewrite Eds; discriminate).
  destruct (valid_sums ds Hv) as (S0 & S1 & S2).
  destruct (valid_le_all ds Hv) as (L1 & L2).
  fold (mins ds) in *. fold (prefs ds) in *. fold (maxs ds) in *.
  unfold divide_fixed. rewrite Eds. rewrite <- Eds.
  rewrite (sum_layout_valid _ Hv). cbn [dmin dmax dpref].
  fold (mins ds). fold (prefs ds). fold (maxs ds). fold (weights ds).
  destruct (zsum (mins ds) >? avail) eqn:Esm.
  { left. apply Z.gtb_lt in Esm. repeat split; auto. lia. }
  right.
  assert (Hfit : zsum (mins ds) <= avail) by (rewrite Z.gtb_ltb in Esm; apply Z.ltb_ge in Esm; lia).
  assert (Hlw : length (weights ds) = length ds) by (unfold weights; apply map_length).
  assert (Hlmin : length (mins ds) = length ds) by (unfold mins; apply map_length).
  assert (Hlpref : length (prefs ds) = length ds) by (unfold prefs; apply map_length).
  assert (Hlmax : length (maxs ds) = length ds) by (unfold maxs; apply map_length).
  replace (seq 0 (length ds)) with (seq 0 (length (weights ds))) by (rewrite Hlw; reflexivity).
  destruct (gen_init (seq 0 (length (weights ds))) (weights ds)) as [g0|] eqn:Hinit.
  2:{ exists (mins ds). split; [reflexivity|]. split; [lia|]. intros _.
      split; [exact Hfit|]. split; [congruence|]. split; [apply le_all_refl|].
      split; [eapply le_all_trans; eassumption|lia]. }
  destruct (gen_init_spec _ _ Hinit) as (I0 & _).
  destruct (next_total g0 I0) as (i & g1 & Hn & Hrel). rewrite Hn.
  destruct (g1_facts ds g0 g1 i Hinit Hrel) as (I1 & Hi1 & Hm & Hmw).
  set (D := Z.max 0 avail). set (W := Wmax ds) in *.
  set (X := Z.of_nat (length ds) * ((D + ((D + 1) * W + 3)) * W + 1)).
  assert (HX : Z.of_nat fuel > X).
  { unfold divide_fuel in Hfuel. fold D W X in Hfuel.
    assert (0 <= X) by (unfold X; apply Z.mul_nonneg_nonneg; [lia|]; assert (0 <= (D + ((D + 1) * W + 3)) * W) by (apply Z.mul_nonneg_nonneg; nia); lia).
    assert (Z.of_nat (S (Z.to_nat X)) <= Z.of_nat fuel) by (apply inj_le; exact Hfuel).
    rewrite Nat2Z.inj_succ, Z2Nat.id in H0 by assumption. lia. }
  assert (Hlen1 : length (prefs ds) = length (mins ds)) by congruence.
  assert (HC1 : Z.of_nat fuel > Cmax D g1).
  { unfold Cmax. assert (Z.of_nat (length (g_items g1)) * ((D + g_i g1) * g_maxw g1 + 1) <= X); [|lia].
    unfold X. apply fuel_arith; try lia. nia. }
  set (pstop := Z.min (Z.min avail (zsum (prefs ds))) (zsum (mins ds) + room (weights ds) (prefs ds) (mins ds))).
  assert (Hp4 : pstop <= zsum (tgts (weights ds) (prefs ds) (mins ds))).
  { unfold pstop. rewrite room_tgts by congruence. lia. }
  destruct (grow_total (prefs ds) (mins ds) (tgts (weights ds) (prefs ds) (mins ds))
              pstop D g1 I1 Hlen1
              (H3_1 ds g0 g1 i Hinit Hrel) (H5_1 ds g0 g1 i Hinit Hrel) Hp4 ltac:(lia) ltac:(unfold pstop; lia)
              fuel i (R0_1 ds Hv g0 g1 i Hrel) HC1) as (s1 & i1 & g2 & Hg1 & Hend1 & Hi2).
  rewrite Hg1.
  destruct (grow_spec next _ _ _ _ _ _ _ _ _ (eq_sym Hlen1) Hg1) as (Hl1 & Hle1 & Hcap1 & Hsum1).
  specialize (Hcap1 L1).
  assert (Hs1max : le_all s1 (maxs ds)) by (eapply le_all_trans; eassumption).
  assert (Hs1tot : zsum s1 <= avail) by (unfold pstop in Hsum1; lia).
  destruct done.
  { exists s1. split; [reflexivity|]. split; [lia|]. intros _.
    split; [exact Hfit|]. split; [congruence|]. split; [exact Hle1|]. split; [exact Hs1max|exact Hs1tot]. }
  pose proof (r_inv _ _ _ _ _ _ Hend1) as I2.
  pose proof (r_items _ _ _ _ _ _ Hend1) as It2.
  pose proof (r_maxw _ _ _ _ _ _ Hend1) as Mw2.
  pose proof (le_all_sum _ _ Hle1) as Hs1.
  assert (Hls1 : length (maxs ds) = length s1) by congruence.
  set (tgt2 := tgts (weights ds) (maxs ds) s1).
  assert (Htn : forall c, nth c tgt2 0 = if nth c (weights ds) 0 >? 0 then nth c (maxs ds) 0 else nth c s1 0).
  { apply tgts_nth; congruence. }
  assert (HR2 : R0 s1 tgt2 g2 s1 i1 g2).
  { destruct (r_cur _ _ _ _ _ _ Hend1) as (q & Hq & Hqm & Hc).
    constructor; try reflexivity.
    - exact I2.
    - exists q. rewrite It2. auto.
    - apply le_all_refl.
    - apply tgts_ge; [exact Hs1max|congruence]. }
  assert (H32 : forall c, nth c s1 0 < nth c tgt2 0 ->
                exists p, (p < length (g_items g2))%nat /\ nth p (g_items g2) O = c).
  { intros c Hc. rewrite Htn in Hc. destruct (nth c (weights ds) 0 >? 0) eqn:E; [|lia].
    rewrite It2. apply (pos_items ds g0 g1 i Hinit Hrel). apply Z.gtb_lt. exact E. }
  assert (H52 : forall p, (p < length (g_items g2))%nat ->
                nth (nth p (g_items g2) O) tgt2 0 = nth (nth p (g_items g2) O) (maxs ds) 0).
  { intros p Hp. rewrite It2 in *. rewrite Htn.
    destruct (items_pos ds g0 g1 i Hinit Hrel p Hp) as (_ & Hw).
    assert (nth (nth p (g_items g1) O) (weights ds) 0 >? 0 = true) as -> by (apply Z.gtb_lt; exact Hw). reflexivity. }
  set (mstop := Z.min (Z.min avail (zsum (maxs ds))) (zsum s1 + room (weights ds) (maxs ds) s1)).
  assert (Hm4 : mstop <= zsum tgt2) by (unfold mstop, tgt2; rewrite room_tgts by congruence; lia).
  assert (HI : g_i g2 <= (D + 1) * W + 3).
  { unfold Imax in Hi2. assert ((D + g_i g1) * g_maxw g1 <= (D + 1) * W) by (apply Z.mul_le_mono_nonneg; lia). lia. }
  assert (HC2 : Z.of_nat fuel > Cmax D g2).
  { unfold Cmax. rewrite It2, Mw2.
    assert (Z.of_nat (length (g_items g1)) * ((D + g_i g2) * g_maxw g1 + 1) <= X); [|lia].
    unfold X. apply fuel_arith; try lia. pose proof (gi_i g2 I2). lia. }
  destruct (grow_total (maxs ds) s1 tgt2 mstop D g2 I2 Hls1 H32 H52 Hm4 ltac:(lia) ltac:(unfold mstop; lia)
              fuel i1 HR2 HC2) as (s2 & i2 & g3 & Hg2 & _).
  rewrite Hg2.
  destruct (grow_spec next _ _ _ _ _ _ _ _ _ (eq_sym Hls1) Hg2) as (Hl2 & Hle2 & Hcap2 & Hsum2).
  exists s2. split; [reflexivity|]. split; [lia|]. intros _.
  split; [exact Hfit|]. split; [congruence|]. split; [eapply le_all_trans; eassumption|].
  split; [apply Hcap2; exact Hs1max|]. unfold mstop in Hsum2. lia.
Qed.
