(* C12 - the division with fixes/C12-zero-weight-children.patch applied
   (Model divide): it always returns, within the same fuel bound. *)
From Coq Require Import ZArith List Bool Lia.
From PTK Require Import Lib.Sx Model.C12_Divide Proofs.C12_Safety Proofs.C12_Gen Proofs.C12_Termination.
Import ListNotations.
Open Scope Z_scope.

Lemma room_tgts : forall ws caps start, length ws = length caps -> length caps = length start ->
  zsum start + room ws caps start = zsum (tgts ws caps start).
Proof.
  induction ws as [|w wr IH]; intros [|c cr] [|s sr] H1 H2; simpl in *; try discriminate; try lia.
  specialize (IH cr sr ltac:(congruence) ltac:(congruence)). destruct (w >? 0); lia.
Qed.


Lemma tgts_le_caps : forall start caps, le_all start caps ->
  forall ws, length ws = length start -> le_all (tgts ws caps start) caps.
Proof.
  intros start caps H; induction H; intros [|w wr] Hl; simpl in *; try discriminate; constructor.
  - destruct (w >? 0); lia.
  - apply IHForall2. congruence.
Qed.

Lemma tgts_mono_start : forall start start', le_all start start' ->
  forall ws caps, length ws = length start -> length caps = length start ->
  le_all (tgts ws caps start) (tgts ws caps start').
Proof.
  intros start start' H; induction H; intros [|w wr] [|c cr] Hl Hc; simpl in *; try discriminate; constructor.
  - destruct (w >? 0); lia.
  - apply IHForall2; congruence.
Qed.

Lemma tgts_tgts : forall ws caps caps' start,
  length ws = length caps -> length caps = length caps' -> length caps' = length start ->
  tgts ws caps (tgts ws caps' start) = tgts ws caps start.
Proof.
  induction ws as [|w wr IH]; intros [|c cr] [|c' cr'] [|s sr] H1 H2 H3; simpl in *; try discriminate; try reflexivity.
  rewrite IH by congruence. destruct (w >? 0); reflexivity.
Qed.

Lemma tgts_nonpos : forall ws caps start,
  length ws = length caps -> length caps = length start ->
  (forall c, nth c ws 0 <= 0) -> tgts ws caps start = start.
Proof.
  induction ws as [|w wr IH]; intros [|c cr] [|s sr] H1 H2 Hz; simpl in *; try discriminate; try reflexivity.
  pose proof (Hz O) as H0. simpl in H0.
  assert (w >? 0 = false) as -> by (rewrite Z.gtb_ltb; apply Z.ltb_ge; lia).
  f_equal. apply IH; try congruence. intro k. apply (Hz (S k)).
Qed.

Lemma gen_init_none_nonpos : forall ws,
  gen_init (seq 0 (length ws)) ws = None -> forall c, nth c ws 0 <= 0.
Proof.
  intros ws H c. destruct (Z_le_gt_dec (nth c ws 0) 0) as [|Hgt]; [assumption|]. exfalso.
  assert (Hc : (c < length ws)%nat).
  { destruct (Nat.lt_ge_cases c (length ws)); [assumption|]. rewrite nth_overflow in Hgt; lia. }
  destruct (gen_init_some ws c Hc ltac:(lia)) as (g & Hg). congruence.
Qed.

(* what the result of the division satisfies *)
Record good_fixed (done : bool) (ds : list dim) (avail : Z) (l : list Z) : Prop := {
  gf_fit : zsum (mins ds) <= avail;
  gf_len : length l = length ds;
  gf_min : le_all (mins ds) l;
  gf_max : le_all l (maxs ds);
  gf_total : zsum l <= avail;
  (* weighted children within min..max, weight-0 children at their minimum *)
  gf_reach : le_all l (tgts (weights ds) (maxs ds) (mins ds));
  (* preferred before extra, for the children that take part in growing *)
  gf_pref_reached : reach_pref ds <= avail -> le_all (tgts (weights ds) (prefs ds) (mins ds)) l;
  gf_no_extra : avail <= reach_pref ds -> le_all l (prefs ds);
  (* the space is used as far as the weighted children can grow *)
  gf_maximal : done = false -> zsum l = Z.min (Z.min avail (zsum (maxs ds))) (reach_max ds);
  gf_done : done = true -> zsum l = Z.min (Z.min avail (zsum (prefs ds))) (reach_pref ds)
}.

Theorem divide_total : forall done ds avail fuel,
  Forall valid ds -> (divide_fuel ds avail <= fuel)%nat ->
  (divide fuel done ds avail = TooSmall /\ ds <> [] /\ zsum (mins ds) > avail) \/
  exists l, divide fuel done ds avail = Sizes l /\
            ((ds = [] /\ l = []) \/ (ds <> [] /\ good_fixed done ds avail l)).
Proof.
  intros done ds avail fuel Hv Hfuel.
  destruct ds as [|d0 dr] eqn:Eds.
  { right. exists []. split; [reflexivity|]. left. auto. }
  rewrite <- Eds in *.
  assert (Hne : ds <> []) by (rewrite Eds; discriminate).
  destruct (valid_sums ds Hv) as (S0 & S1 & S2).
  destruct (valid_le_all ds Hv) as (L1 & L2).
  fold (mins ds) in *. fold (prefs ds) in *. fold (maxs ds) in *.
  unfold divide. rewrite Eds. rewrite <- Eds.
  rewrite (sum_layout_valid _ Hv). cbn [dmin dmax dpref].
  fold (mins ds). fold (prefs ds). fold (maxs ds). fold (weights ds).
  destruct (zsum (mins ds) >? avail) eqn:Esm.
  { left. apply Z.gtb_lt in Esm. repeat split; auto. lia. }
  right.
  assert (Hfit : zsum (mins ds) <= avail) by (rewrite Z.gtb_ltb in Esm; apply Z.ltb_ge in Esm; lia).
  assert (Hlw : length (weights ds) = length ds) by (unfold weights; apply map_length).
  assert (Hlmin : length (mins ds) = length ds) by (unfold mins; apply map_length).
  assert (Hlpref : length (prefs ds) = length ds) by (unfold prefs; apply map_length).
  assert (Hlmax : length (maxs ds) = length ds) by (unfold maxs; apply map_length).
  set (tgt1 := tgts (weights ds) (prefs ds) (mins ds)).
  set (tgtm := tgts (weights ds) (maxs ds) (mins ds)).
  assert (Hmt1 : le_all (mins ds) tgt1) by (apply tgts_ge; [exact L1|congruence]).
  assert (Ht1p : le_all tgt1 (prefs ds)) by (apply tgts_le_caps; [exact L1|congruence]).
  assert (Ht1m : le_all tgt1 tgtm) by (apply (tgt1_le_tgt2 ds Hv)).
  assert (Hmm : le_all (mins ds) (maxs ds)) by (apply le_all_trans with (prefs ds); assumption).
  assert (Htmm : le_all tgtm (maxs ds)) by (apply tgts_le_caps; [exact Hmm|congruence]).
  pose proof (le_all_sum _ _ Hmt1) as Sm1. pose proof (le_all_sum _ _ Ht1p) as S1p.
  pose proof (le_all_sum _ _ Ht1m) as S1m. pose proof (le_all_sum _ _ Htmm) as Smm.
  assert (Erp : reach_pref ds = zsum tgt1) by reflexivity.
  assert (Erm : reach_max ds = zsum tgtm) by reflexivity.
  replace (seq 0 (length ds)) with (seq 0 (length (weights ds))) by (rewrite Hlw; reflexivity).
  destruct (gen_init (seq 0 (length (weights ds))) (weights ds)) as [g0|] eqn:Hinit.
  2:{ (* no weighted child: everybody keeps the minimum *)
      pose proof (gen_init_none_nonpos _ Hinit) as Hz.
      assert (E1 : tgt1 = mins ds) by (apply tgts_nonpos; [congruence|congruence|exact Hz]).
      assert (Em : tgtm = mins ds) by (apply tgts_nonpos; [congruence|congruence|exact Hz]).
      assert (Rp : reach_pref ds = zsum (mins ds)) by (unfold reach_pref; fold tgt1; rewrite E1; reflexivity).
      assert (Rm : reach_max ds = zsum (mins ds)) by (unfold reach_max; fold tgtm; rewrite Em; reflexivity).
      exists (mins ds). split; [reflexivity|]. right. split; [exact Hne|].
      constructor.
      - exact Hfit.
      - congruence.
      - apply le_all_refl.
      - exact Hmm.
      - exact Hfit.
      - fold tgtm. rewrite Em. apply le_all_refl.
      - intros _. fold tgt1. rewrite E1. apply le_all_refl.
      - intros _. exact L1.
      - intros _. lia.
      - intros _. lia. }
  destruct (gen_init_spec _ _ Hinit) as (I0 & _).
  destruct (next_total g0 I0) as (i & g1 & Hn & Hrel). rewrite Hn.
  destruct (g1_facts ds Hv g0 g1 i Hinit Hrel) as (I1 & Hm & Hw0 & Hw1).
  set (D := Z.max 0 avail).
  assert (HC1 : Z.of_nat fuel > (D + 1) * zsum (g_weights g1) + Z.of_nat (length (g_items g1))).
  { unfold divide_fuel in Hfuel. fold D in Hfuel.
    set (X := (D + 1) * zsum (weights ds) + Z.of_nat (length ds)) in *.
    assert ((D + 1) * zsum (g_weights g1) <= (D + 1) * zsum (weights ds)) by (apply Z.mul_le_mono_nonneg_l; lia).
    assert (0 <= X) by (unfold X; assert (0 <= (D + 1) * zsum (weights ds)) by (apply Z.mul_nonneg_nonneg; lia); lia).
    assert (Z.of_nat (S (Z.to_nat X)) <= Z.of_nat fuel) by (apply inj_le; exact Hfuel).
    rewrite Nat2Z.inj_succ, Z2Nat.id in H1 by assumption. unfold X in *. lia. }
  assert (Hlen1 : length (prefs ds) = length (mins ds)) by congruence.
  assert (Hroom1 : zsum (mins ds) + room (weights ds) (prefs ds) (mins ds) = reach_pref ds)
    by (unfold reach_pref; apply room_tgts; congruence).
  rewrite Hroom1.
  set (pstop := Z.min (Z.min avail (zsum (prefs ds))) (reach_pref ds)).
  assert (Hp4 : pstop <= zsum tgt1) by (unfold pstop, reach_pref, tgt1; lia).
  destruct (grow_total (prefs ds) (mins ds) tgt1
              pstop D g1 I1 Hlen1
              (H3_1 ds g0 g1 i Hinit Hrel) (H5_1 ds g0 g1 i Hinit Hrel) Hp4 ltac:(lia) ltac:(unfold pstop; lia)
              fuel i (R0_1 ds Hv g0 g1 i Hrel) HC1) as (s1 & i1 & g2 & Hg1 & Hend1 & Hi2).
  rewrite Hg1.
  destruct (grow_spec next _ _ _ _ _ _ _ _ _ (eq_sym Hlen1) Hg1) as (Hl1 & Hle1 & Hcap1 & Hsum1).
  specialize (Hcap1 L1).
  pose proof (r_hi _ _ _ _ _ _ Hend1) as Hs1t1. fold tgt1 in Hs1t1.
  assert (Hs1max : le_all s1 (maxs ds)) by (apply le_all_trans with (prefs ds); assumption).
  assert (Hs1sum : zsum s1 = pstop) by (unfold pstop in *; lia).
  assert (Hs1tot : zsum s1 <= avail) by (unfold pstop in Hs1sum; lia).
  assert (Hs1eq : reach_pref ds <= avail -> s1 = tgt1).
  { intro Hr. apply le_all_sum_eq; [exact Hs1t1|]. fold (reach_pref ds). unfold pstop in Hs1sum. lia. }
  destruct done.
  { exists s1. split; [reflexivity|]. right. split; [exact Hne|].
    constructor.
    - exact Hfit.
    - congruence.
    - exact Hle1.
    - exact Hs1max.
    - exact Hs1tot.
    - fold tgtm. apply le_all_trans with tgt1; assumption.
    - intro Hr. fold tgt1. rewrite (Hs1eq Hr). apply le_all_refl.
    - intros _. exact Hcap1.
    - discriminate.
    - intros _. exact Hs1sum. }
  pose proof (r_inv _ _ _ _ _ _ Hend1) as I2.
  pose proof (r_items _ _ _ _ _ _ Hend1) as It2.
  pose proof (r_maxw _ _ _ _ _ _ Hend1) as Mw2.
  pose proof (le_all_sum _ _ Hle1) as Hs1.
  assert (Hls1 : length (maxs ds) = length s1) by congruence.
  set (tgt2 := tgts (weights ds) (maxs ds) s1).
  assert (Htn : forall c, nth c tgt2 0 = if nth c (weights ds) 0 >? 0 then nth c (maxs ds) 0 else nth c s1 0).
  { apply tgts_nth; congruence. }
  assert (Hs1t2 : le_all s1 tgt2) by (apply tgts_ge; [exact Hs1max|congruence]).
  (* weight-0 children are still at their minimum, so tgt2 is tgtm *)
  assert (Ht2m : le_all tgt2 tgtm).
  { unfold tgtm. rewrite <- (tgts_tgts (weights ds) (maxs ds) (prefs ds) (mins ds)) by congruence.
    fold tgt1. apply tgts_mono_start; [exact Hs1t1|congruence|congruence]. }
  assert (Hmt2 : le_all tgtm tgt2) by (apply tgts_mono_start; [exact Hle1|congruence|congruence]).
  assert (Hsum_t2 : zsum tgt2 = reach_max ds).
  { pose proof (le_all_sum _ _ Ht2m). pose proof (le_all_sum _ _ Hmt2). unfold reach_max. fold tgtm. lia. }
  assert (HR2 : R0 s1 tgt2 g2 s1 i1 g2).
  { destruct (r_cur _ _ _ _ _ _ Hend1) as (q & Hq & Hqm & Hc).
    constructor; try reflexivity.
    - exact I2.
    - exists q. rewrite It2. auto.
    - apply le_all_refl.
    - exact Hs1t2. }
  assert (H32 : forall c, nth c s1 0 < nth c tgt2 0 ->
                exists p, (p < length (g_items g2))%nat /\ nth p (g_items g2) O = c).
  { intros c Hc. rewrite Htn in Hc. destruct (nth c (weights ds) 0 >? 0) eqn:E; [|lia].
    rewrite It2. apply (pos_items ds g0 g1 i Hinit Hrel). apply Z.gtb_lt. exact E. }
  assert (H52 : forall p, (p < length (g_items g2))%nat ->
                nth (nth p (g_items g2) O) tgt2 0 = nth (nth p (g_items g2) O) (maxs ds) 0).
  { intros p Hp. rewrite It2 in *. rewrite Htn.
    destruct (items_pos ds g0 g1 i Hinit Hrel p Hp) as (_ & Hw).
    assert (nth (nth p (g_items g1) O) (weights ds) 0 >? 0 = true) as -> by (apply Z.gtb_lt; exact Hw). reflexivity. }
  assert (Hroom2 : zsum s1 + room (weights ds) (maxs ds) s1 = reach_max ds)
    by (rewrite room_tgts by congruence; exact Hsum_t2).
  rewrite Hroom2.
  set (mstop := Z.min (Z.min avail (zsum (maxs ds))) (reach_max ds)).
  assert (Hm4 : mstop <= zsum tgt2) by (unfold mstop; lia).
  assert (HC2 : Z.of_nat fuel > (D + 1) * zsum (g_weights g2) + Z.of_nat (length (g_items g2))).
  { rewrite Hi2, It2. exact HC1. }
  destruct (grow_total (maxs ds) s1 tgt2 mstop D g2 I2 Hls1 H32 H52 Hm4 ltac:(lia) ltac:(unfold mstop; lia)
              fuel i1 HR2 HC2) as (s2 & i2 & g3 & Hg2 & Hend2 & _).
  rewrite Hg2.
  destruct (grow_spec next _ _ _ _ _ _ _ _ _ (eq_sym Hls1) Hg2) as (Hl2 & Hle2 & Hcap2 & Hsum2).
  pose proof (r_hi _ _ _ _ _ _ Hend2) as Hs2t2.
  pose proof (le_all_sum _ _ Hs1max) as Hs1mx. pose proof (le_all_sum _ _ Hs1t2) as Hs1t2s.
  assert (Hs2sum : zsum s2 = mstop) by (unfold mstop in *; lia).
  exists s2. split; [reflexivity|]. right. split; [exact Hne|].
  constructor.
  - exact Hfit.
  - congruence.
  - apply le_all_trans with s1; assumption.
  - apply Hcap2; exact Hs1max.
  - unfold mstop in Hs2sum. lia.
  - fold tgtm. apply le_all_trans with tgt2; assumption.
  - intro Hr. fold tgt1. rewrite <- (Hs1eq Hr). exact Hle2.
  - intro Hr. (* the first loop already used all the space *)
    assert (s2 = s1) as ->; [|exact Hcap1].
    symmetry. apply le_all_sum_eq; [exact Hle2|]. unfold mstop, pstop in *. lia.
  - intros _. exact Hs2sum.
  - discriminate.
Qed.

(* 'too small' exactly when the minimums do not fit (any fuel, any weights) *)
Lemma divide_too_small_iff : forall fuel done ds avail,
  Forall valid ds ->
  (divide fuel done ds avail = TooSmall <-> ds <> [] /\ zsum (mins ds) > avail).
Proof.
  intros fuel done ds avail Hv. unfold divide.
  destruct ds as [|d0 dr].
  - split; [discriminate|]. intros [H _]; congruence.
  - rewrite (sum_layout_valid _ Hv). cbn [dmin dmax dpref].
    destruct (zsum (map dmin (d0 :: dr)) >? avail) eqn:E.
    + apply Z.gtb_lt in E. split; [|reflexivity]. intros _. split; [discriminate|unfold mins; lia].
    + assert (zsum (map dmin (d0 :: dr)) <= avail)
        by (rewrite Z.gtb_ltb in E; apply Z.ltb_ge in E; lia).
      split.
      * destruct (gen_init _ _); [|discriminate]. destruct (next g) as [[? ?]|]; [|discriminate].
        destruct (grow _ _ _ _ _ _ _) as [[[? ?] ?]|]; [|discriminate].
        destruct done; [discriminate|].
        destruct (grow _ _ _ _ _ _ _) as [[[? ?] ?]|]; discriminate.
      * unfold mins. intros [_ ?]. lia.
Qed.

(* whenever sizes come back (with enough fuel they always do) they are good *)
Lemma divide_sizes_good : forall fuel done ds avail l,
  Forall valid ds -> (divide_fuel ds avail <= fuel)%nat -> ds <> [] ->
  divide fuel done ds avail = Sizes l -> good_fixed done ds avail l.
Proof.
  intros fuel done ds avail l Hv Hf Hne Hd.
  destruct (divide_total done ds avail fuel Hv Hf) as [(H & _)|(l' & H & [(E & _)|(_ & G)])].
  - congruence.
  - congruence.
  - rewrite H in Hd. injection Hd as <-. exact G.
Qed.

Lemma tgts_allpos : forall ws caps start,
  length ws = length caps -> length caps = length start ->
  (forall c, (c < length ws)%nat -> 0 < nth c ws 0) -> tgts ws caps start = caps.
Proof.
  induction ws as [|w wr IH]; intros [|c cr] [|s sr] H1 H2 Hp; simpl in *; try discriminate; try reflexivity.
  pose proof (Hp O ltac:(lia)) as H0. simpl in H0.
  assert (w >? 0 = true) as -> by (apply Z.gtb_lt; lia).
  f_equal. apply IH; try congruence. intros k Hk. apply (Hp (S k)). lia.
Qed.

(* no weight-0 child: the unrelaxed clauses *)
Lemma divide_all_weighted : forall fuel ds avail l,
  Forall valid ds -> (divide_fuel ds avail <= fuel)%nat -> ds <> [] ->
  (forall c, (c < length ds)%nat -> 0 < nth c (weights ds) 0) ->
  divide fuel false ds avail = Sizes l ->
  (zsum (prefs ds) <= avail -> le_all (prefs ds) l) /\
  zsum l = Z.min avail (zsum (maxs ds)).
Proof.
  intros fuel ds avail l Hv Hf Hne Hp Hd.
  destruct (divide_sizes_good fuel false ds avail l Hv Hf Hne Hd) as [_ _ _ _ _ _ Hpr _ Hmx _].
  assert (Hlw : length (weights ds) = length ds) by (unfold weights; apply map_length).
  assert (Hlmin : length (mins ds) = length ds) by (unfold mins; apply map_length).
  assert (Hlpref : length (prefs ds) = length ds) by (unfold prefs; apply map_length).
  assert (Hlmax : length (maxs ds) = length ds) by (unfold maxs; apply map_length).
  assert (E1 : tgts (weights ds) (prefs ds) (mins ds) = prefs ds)
    by (apply tgts_allpos; [congruence|congruence|rewrite Hlw; exact Hp]).
  assert (E2 : tgts (weights ds) (maxs ds) (mins ds) = maxs ds)
    by (apply tgts_allpos; [congruence|congruence|rewrite Hlw; exact Hp]).
  unfold reach_pref in Hpr. unfold reach_max in Hmx. rewrite E1 in Hpr. rewrite E2 in Hmx.
  split; [exact Hpr|]. rewrite (Hmx eq_refl). lia.
Qed.
