(* C02 - finite facts about the regenerated re.IGNORECASE table (Gen/C02_CaseFold.v),
   re-proved over the whole table on every run. *)
From Coq Require Import ZArith List Bool Lia.
From PTK Require Import Lib.Sx Lib.Py Gen.C02_CaseFold Model.Document Model.C02_DocQueries Model.C02_Run.
Import ListNotations.
Open Scope Z_scope.

Lemma mem_pair_in a b l : mem_pair a b l = true -> In (a, b) l.
Proof.
  induction l as [|[p q] r IH]; cbn [mem_pair]; [discriminate|].
  intros H. apply orb_prop in H as [H|H].
  - apply andb_prop in H as [H1 H2]. apply Z.eqb_eq in H1, H2. subst. now left.
  - right. now apply IH.
Qed.

Definition pair_ok (pq : Z * Z) : bool :=
  mem_pair (snd pq) (fst pq) c02_fold_pairs && mem_Z (fst pq) c02_fold_alphabet &&
  mem_Z (snd pq) c02_fold_alphabet && negb (fst pq =? snd pq).

Lemma fold_table_all_ok : forallb pair_ok c02_fold_pairs = true.
Proof. vm_compute. reflexivity. Qed.

Lemma fold_table_facts a b :
  mem_pair a b c02_fold_pairs = true ->
  mem_pair b a c02_fold_pairs = true /\ mem_Z a c02_fold_alphabet = true /\
  mem_Z b c02_fold_alphabet = true /\ a <> b.
Proof.
  intros H. apply mem_pair_in in H.
  pose proof (proj1 (forallb_forall _ _) fold_table_all_ok _ H) as Hok.
  unfold pair_ok in Hok. cbn [fst snd] in Hok.
  apply andb_prop in Hok as [Hok H4]. apply andb_prop in Hok as [Hok H3]. apply andb_prop in Hok as [H1 H2].
  repeat split; try assumption. apply negb_true_iff in H4. apply Z.eqb_neq in H4. exact H4.
Qed.

(* ---------------------------------------------------------------------- *)
(* Round 6: the table now covers every cased code point; run_C02 looks pairs up
   in a positive map indexed by the pattern character.  The map is the list. *)
From Coq Require Import FMapPositive.

Lemma mem_pair_app a b l1 l2 : mem_pair a b (l1 ++ l2) = mem_pair a b l1 || mem_pair a b l2.
Proof.
  induction l1 as [|[p q] r IH]; cbn [mem_pair app]; [reflexivity|]. rewrite IH. now rewrite orb_assoc.
Qed.

Lemma fold_lookup_add m p q a b : 0 < p ->
  fold_lookup (fold_add m (p, q)) a b = fold_lookup m a b || ((p =? a) && (q =? b)).
Proof.
  intros Hp. unfold fold_lookup, fold_add. cbn [fst snd].
  destruct (0 <? a) eqn:Ea; cbn [andb].
  - apply Z.ltb_lt in Ea. destruct (Z.eq_dec p a) as [->|Hne].
    + rewrite PositiveMap.gss. rewrite Z.eqb_refl. cbn [andb mem_Z].
      destruct (PositiveMap.find (Z.to_pos a) m); cbn [mem_Z]; [apply orb_comm|now rewrite orb_false_r].
    + rewrite PositiveMap.gso.
      * apply Z.eqb_neq in Hne. rewrite Hne. cbn [andb]. now rewrite orb_false_r.
      * intros H. apply Z2Pos.inj in H; [congruence|lia|lia].
  - apply Z.ltb_ge in Ea. destruct (p =? a) eqn:E; [apply Z.eqb_eq in E; lia|reflexivity].
Qed.

Lemma fold_lookup_fold l : forallb (fun pq => 0 <? fst pq) l = true ->
  forall m acc,
    (forall a b, fold_lookup m a b = (0 <? a) && mem_pair a b acc) ->
    forall a b, fold_lookup (fold_left fold_add l m) a b = (0 <? a) && mem_pair a b (acc ++ l).
Proof.
  induction l as [|[p q] r IH]; intros Hpos m acc Hm a b; cbn [fold_left].
  - rewrite app_nil_r. apply Hm.
  - cbn [forallb fst] in Hpos. apply andb_prop in Hpos as [Hp Hr]. apply Z.ltb_lt in Hp.
    replace (acc ++ (p, q) :: r) with ((acc ++ [(p, q)]) ++ r) by (now rewrite <- app_assoc).
    apply (IH Hr). intros a' b'. rewrite (fold_lookup_add m p q a' b' Hp), Hm, mem_pair_app.
    cbn [mem_pair]. rewrite orb_false_r.
    destruct (0 <? a') eqn:Ea; cbn [andb]; [reflexivity|].
    apply Z.ltb_ge in Ea. destruct (p =? a') eqn:E; [apply Z.eqb_eq in E; lia|reflexivity].
Qed.

Lemma fold_pairs_positive : forallb (fun pq => 0 <? fst pq) c02_fold_pairs = true.
Proof. vm_compute. reflexivity. Qed.

Lemma mem_pair_positive a b : mem_pair a b c02_fold_pairs = true -> 0 < a.
Proof.
  intros H. apply mem_pair_in in H.
  pose proof (proj1 (forallb_forall _ _) fold_pairs_positive _ H) as Hp. cbn [fst] in Hp.
  now apply Z.ltb_lt.
Qed.

(* what run_C02 uses for ignore_case=True is exactly "equal, or listed in the table" *)
Theorem ceq_fold_spec x y : ceq_fold x y = (x =? y) || mem_pair y x c02_fold_pairs.
Proof.
  unfold ceq_fold, fold_map, fold_map_of. f_equal.
  rewrite (fold_lookup_fold c02_fold_pairs fold_pairs_positive (PositiveMap.empty (list Z)) []).
  - cbn [app]. destruct (0 <? y) eqn:E; cbn [andb]; [reflexivity|].
    destruct (mem_pair y x c02_fold_pairs) eqn:Em; [|reflexivity].
    apply mem_pair_positive in Em. apply Z.ltb_ge in E. lia.
  - intros a b. unfold fold_lookup. rewrite PositiveMap.gempty. cbn [mem_pair]. now rewrite andb_false_r.
Qed.

(* the relation is transitive as well: with symmetry (fold_table_facts) and
   reflexivity of ceq_fold it is an equivalence relation on code points *)
Definition trans_ok (pq : Z * Z) : bool :=
  forallb (fun rs => if fst rs =? snd pq
                     then (if fst pq =? snd rs then true else mem_pair (fst pq) (snd rs) c02_fold_pairs)
                     else true)
          c02_fold_pairs.

Lemma fold_table_trans_ok : forallb trans_ok c02_fold_pairs = true.
Proof. vm_compute. reflexivity. Qed.

Lemma fold_table_trans a b c :
  mem_pair a b c02_fold_pairs = true -> mem_pair b c c02_fold_pairs = true ->
  a = c \/ mem_pair a c c02_fold_pairs = true.
Proof.
  intros H1 H2. apply mem_pair_in in H1, H2.
  pose proof (proj1 (forallb_forall _ _) fold_table_trans_ok _ H1) as Hok. unfold trans_ok in Hok.
  pose proof (proj1 (forallb_forall _ _) Hok _ H2) as H. cbn [fst snd] in H.
  rewrite Z.eqb_refl in H.
  destruct (a =? c) eqn:E; [left; now apply Z.eqb_eq|right; exact H].
Qed.

Theorem ceq_fold_equivalence :
  (forall x, ceq_fold x x = true) /\
  (forall x y, ceq_fold x y = true -> ceq_fold y x = true) /\
  (forall x y z, ceq_fold x y = true -> ceq_fold y z = true -> ceq_fold x z = true).
Proof.
  split; [|split].
  - intros x. rewrite ceq_fold_spec, Z.eqb_refl. reflexivity.
  - intros x y. rewrite !ceq_fold_spec. intros H. apply orb_prop in H as [H|H].
    + apply Z.eqb_eq in H. subst. now rewrite Z.eqb_refl.
    + apply fold_table_facts in H as [H _]. rewrite H. apply orb_true_r.
  - intros x y z. rewrite !ceq_fold_spec. intros H1 H2.
    apply orb_prop in H1 as [H1|H1]; [apply Z.eqb_eq in H1; subst; exact H2|].
    apply orb_prop in H2 as [H2|H2]; [apply Z.eqb_eq in H2; subst; rewrite H1; apply orb_true_r|].
    (* pairs are (pattern, text): H1 : (y, x), H2 : (z, y) *)
    destruct (fold_table_trans z y x H2 H1) as [->|H]; [now rewrite Z.eqb_refl|].
    rewrite H. apply orb_true_r.
Qed.
