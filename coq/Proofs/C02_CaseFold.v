(* C02 - finite facts about the regenerated re.IGNORECASE table (Gen/C02_CaseFold.v),
   re-proved over the whole table on every run. *)
From Coq Require Import ZArith List Bool Lia.
From PTK Require Import Lib.Sx Lib.Py Gen.C02_CaseFold Model.Document Model.C02_DocQueries Model.C02_Run.
Import ListNotations.
Open Scope Z_scope.

Lemma mem_pair_in a b l : mem_pair a b l = true -> In (a, b) l.
Proof.
  induction l as [|[p q] r IH]; cbn [mem_pair]; [discriminate|].
  intros H. apply orb_prop in H as [H|H].
  - apply andb_prop in H as [H1 H2]. apply Z.eqb_eq in H1, H2. subst. now left.
  - right. now apply IH.
Qed.

Definition pair_ok (pq : Z * Z) : bool :=
  mem_pair (snd pq) (fst pq) c02_fold_pairs && mem_Z (fst pq) c02_fold_alphabet &&
  mem_Z (snd pq) c02_fold_alphabet && negb (fst pq =? snd pq).

Lemma fold_table_all_ok : forallb pair_ok c02_fold_pairs = true.
Proof. vm_compute. reflexivity. Qed.

Lemma fold_table_facts a b :
  mem_pair a b c02_fold_pairs = true ->
  mem_pair b a c02_fold_pairs = true /\ mem_Z a c02_fold_alphabet = true /\
  mem_Z b c02_fold_alphabet = true /\ a <> b.
Proof.
  intros H. apply mem_pair_in in H.
  pose proof (proj1 (forallb_forall _ _) fold_table_all_ok _ H) as Hok.
  unfold pair_ok in Hok. cbn [fst snd] in Hok.
  apply andb_prop in Hok as [Hok H4]. apply andb_prop in Hok as [Hok H3]. apply andb_prop in Hok as [H1 H2].
  repeat split; try assumption. apply negb_true_iff in H4. apply Z.eqb_neq in H4. exact H4.
Qed.
