(* C16: facts about literal matching (match_at, find_nth) and occurrences,
   including the reversal argument behind Document.find_backwards. *)
From Coq Require Import ZArith List Bool Lia.
From PTK Require Import Lib.Sx Lib.Py Model.Document Model.C16_Search Model.C16_SearchSpec.
Import ListNotations.
Open Scope Z_scope.

(* ---------------------------------------------------------------------- *)
(* lists *)

Lemma skipn_skipn' {T} (a b : nat) (l : list T) : skipn a (skipn b l) = skipn (b + a) l.
Proof.
  revert l; induction b as [|b IH]; intros l; [reflexivity|].
  destruct l as [|x l]; [now rewrite !skipn_nil|]. cbn [skipn Nat.add]. apply IH.
Qed.

Lemma Forall2_len {A B} (R : A -> B -> Prop) l l' : Forall2 R l l' -> length l = length l'.
Proof. induction 1; cbn; congruence. Qed.

Lemma Forall2_rev' {A B} (R : A -> B -> Prop) l l' : Forall2 R l l' -> Forall2 R (rev l) (rev l').
Proof.
  induction 1 as [|x y l l' Hxy Hl IH]; [constructor|].
  cbn [rev]. apply Forall2_app; [exact IH|]. constructor; [exact Hxy|constructor].
Qed.

Lemma app_eq_len {T} (a b c d : list T) :
  a ++ b = c ++ d -> length a = length c -> a = c /\ b = d.
Proof.
  revert c; induction a as [|x a IH]; intros [|y c] H Hl; try discriminate.
  - now split.
  - cbn in H. injection H as -> H. destruct (IH c H) as [-> ->]; [now injection Hl|]. now split.
Qed.

Lemma skipn_app_exact {T} (a b : list T) : skipn (length a) (a ++ b) = b.
Proof. induction a; cbn; auto. Qed.

Lemma firstn_app_exact {T} (a b : list T) : firstn (length a) (a ++ b) = a.
Proof. induction a; cbn; congruence. Qed.

(* ---------------------------------------------------------------------- *)
Section Facts.
Variable ceq : Z -> Z -> bool.
Variable ic : bool.
Notation match_at := (match_at ceq ic).
Notation same := (same ceq ic).
Notation occurs_at := (occurs_at ceq ic).
Notation occurs := (occurs ceq ic).

Lemma match_at_iff needle s :
  match_at needle s = true <-> exists mid post, s = mid ++ post /\ same needle mid.
Proof.
  revert s; induction needle as [|p n IH]; intros s.
  - split; [intros _; exists [], s; split; [reflexivity|constructor]|reflexivity].
  - destruct s as [|t s].
    + split; [discriminate|]. intros (mid & post & E & H). inversion H; subst. discriminate.
    + cbn [C16_Search.match_at]. rewrite andb_true_iff, IH. split.
      * intros (Hc & mid & post & -> & Hm). exists (t :: mid), post. split; [reflexivity|].
        constructor; assumption.
      * intros (mid & post & E & H). inversion H as [|? y ? mid' Hc Hm]; subst.
        cbn in E. injection E as -> ->. split; [exact Hc|]. exists mid', post. now split.
Qed.

Lemma same_len needle mid : same needle mid -> length mid = length needle.
Proof. intros H. symmetry. exact (Forall2_len _ _ _ H). Qed.

Lemma same_rev needle mid : same needle mid -> C16_SearchSpec.same ceq ic (rev needle) (rev mid).
Proof. apply Forall2_rev'. Qed.

(* the boolean test at offset r is the occurrence predicate *)
Lemma match_skipn_iff needle s (r : nat) :
  (r <= length s)%nat ->
  (match_at needle (skipn r s) = true <-> occurs_at needle s r).
Proof.
  intros Hr. rewrite match_at_iff. split.
  - intros (mid & post & E & H). exists (firstn r s), mid, post. split; [|split; [|exact H]].
    + rewrite <- E. symmetry. apply firstn_skipn.
    + rewrite firstn_length. lia.
  - intros (pre & mid & post & -> & <- & H). exists mid, post. split; [|exact H].
    apply skipn_app_exact.
Qed.

Lemma occurs_at_bound needle s r : occurs_at needle s r -> (r + length needle <= length s)%nat.
Proof.
  intros (pre & mid & post & -> & <- & H). rewrite !app_length, (same_len _ _ H). lia.
Qed.

(* an occurrence in the reversed text is an occurrence of the reversed needle *)
Lemma occurs_at_rev needle s r :
  occurs_at needle s r ->
  C16_SearchSpec.occurs_at ceq ic (rev needle) (rev s) (length s - r - length needle).
Proof.
  intros (pre & mid & post & -> & <- & H).
  exists (rev post), (rev mid), (rev pre). split; [|split; [|apply same_rev; exact H]].
  - now rewrite !rev_app_distr, <- app_assoc.
  - rewrite rev_length, !app_length, (same_len _ _ H). lia.
Qed.

(* occurrences in a prefix = occurrences that end inside the prefix *)
Lemma occurs_at_firstn needle s (c r : nat) :
  (c <= length s)%nat ->
  (occurs_at needle (firstn c s) r <-> occurs_at needle s r /\ (r + length needle <= c)%nat).
Proof.
  intros Hc. split.
  - intros H. pose proof (occurs_at_bound _ _ _ H) as Hb. rewrite firstn_length in Hb.
    split; [|lia]. destruct H as (pre & mid & post & E & Hl & H).
    exists pre, mid, (post ++ skipn c s). split; [|split; assumption].
    rewrite <- (firstn_skipn c s) at 1. rewrite E. now rewrite <- !app_assoc.
  - intros [(pre & mid & post & -> & <- & H) Hb].
    pose proof (same_len _ _ H) as Hm.
    exists pre, mid, (firstn (c - length pre - length mid) post). split; [|split; [reflexivity|exact H]].
    rewrite firstn_app. rewrite (firstn_all2 pre) by lia. f_equal.
    rewrite firstn_app. rewrite (firstn_all2 mid) by lia. reflexivity.
Qed.

(* ---------------------------------------------------------------------- *)
(* find_nth for the first match (skip = 0, k = 0) *)
Lemma find_first_spec needle s i :
  match find_nth ceq ic needle s i O O with
  | Some j => exists off : nat, j = i + Z.of_nat off /\ (off <= length s)%nat /\
        match_at needle (skipn off s) = true /\
        forall o, (o < off)%nat -> match_at needle (skipn o s) = false
  | None => forall o, (o <= length s)%nat -> match_at needle (skipn o s) = false
  end.
Proof.
  revert i; induction s as [|x s IH]; intros i.
  - cbn [find_nth]. destruct (match_at needle []) eqn:E.
    + exists O. split; [lia|]. split; [cbn [length]; lia|]. split; [exact E|]. intros o Ho; lia.
    + intros o Ho. cbn in Ho. assert (o = O) by lia. subst. exact E.
  - cbn [find_nth]. destruct (match_at needle (x :: s)) eqn:E.
    + exists O. split; [lia|]. split; [cbn [length]; lia|]. split; [exact E|]. intros o Ho; lia.
    + specialize (IH (i + 1)). destruct (find_nth ceq ic needle s (i + 1) 0 0) as [j|].
      * destruct IH as (off & -> & Hoff & Hm & Hmin). exists (S off).
        split; [lia|]. split; [cbn [length]; lia|]. split; [exact Hm|].
        intros [|o] Ho; [exact E|]. cbn [skipn]. apply Hmin. lia.
      * intros [|o] Ho; [exact E|]. cbn [skipn]. apply IH. cbn in Ho. lia.
Qed.

End Facts.
