(* C16: facts about literal matching (match_at, find_nth) and occurrences,
   including the reversal argument behind Document.find_backwards. *)
From Coq Require Import ZArith List Bool Lia.
From PTK Require Import Lib.Sx Lib.Py Model.Document Model.C16_Search Model.C16_SearchSpec.
Import ListNotations.
Open Scope Z_scope.

(* ---------------------------------------------------------------------- *)
(* lists *)

Lemma skipn_skipn' {T} (a b : nat) (l : list T) : skipn a (skipn b l) = skipn (b + a) l.
Proof.
  revert l; induction b as [|b IH]; intros l; [reflexivity|].
  destruct l as [|x l]; [now rewrite !skipn_nil|]. cbn [skipn Nat.add]. apply IH.
Qed.

Lemma Forall2_len {A B} (R : A -> B -> Prop) l l' : Forall2 R l l' -> length l = length l'.
Proof. induction 1; cbn; congruence. Qed.

Lemma Forall2_rev' {A B} (R : A -> B -> Prop) l l' : Forall2 R l l' -> Forall2 R (rev l) (rev l').
Proof.
  induction 1 as [|x y l l' Hxy Hl IH]; [constructor|].
  cbn [rev]. apply Forall2_app; [exact IH|]. constructor; [exact Hxy|constructor].
Qed.

Lemma app_eq_len {T} (a b c d : list T) :
  a ++ b = c ++ d -> length a = length c -> a = c /\ b = d.
Proof.
  revert c; induction a as [|x a IH]; intros [|y c] H Hl; try discriminate.
  - now split.
  - cbn in H. injection H as -> H. destruct (IH c H) as [-> ->]; [now injection Hl|]. now split.
Qed.

Lemma skipn_app_exact {T} (a b : list T) : skipn (length a) (a ++ b) = b.
Proof. induction a; cbn; auto. Qed.

Lemma firstn_app_exact {T} (a b : list T) : firstn (length a) (a ++ b) = a.
Proof. induction a; cbn; congruence. Qed.

(* ---------------------------------------------------------------------- *)
Section Facts.
Variable ceq : Z -> Z -> bool.
Variable ic : bool.
Notation match_at := (match_at ceq ic).
Notation same := (same ceq ic).
Notation occurs_at := (occurs_at ceq ic).
Notation occurs := (occurs ceq ic).

Lemma match_at_iff needle s :
  match_at needle s = true <-> exists mid post, s = mid ++ post /\ same needle mid.
Proof.
  revert s; induction needle as [|p n IH]; intros s.
  - split; [intros _; exists [], s; split; [reflexivity|constructor]|reflexivity].
  - destruct s as [|t s].
    + split; [discriminate|]. intros (mid & post & E & H). inversion H; subst. discriminate.
    + cbn [C16_Search.match_at]. rewrite andb_true_iff, IH. split.
      * intros (Hc & mid & post & -> & Hm). exists (t :: mid), post. split; [reflexivity|].
        constructor; assumption.
      * intros (mid & post & E & H). inversion H as [|? y ? mid' Hc Hm]; subst.
        cbn in E. injection E as -> ->. split; [exact Hc|]. exists mid', post. now split.
Qed.

Lemma same_len needle mid : same needle mid -> length mid = length needle.
Proof. intros H. symmetry. exact (Forall2_len _ _ _ H). Qed.

Lemma same_rev needle mid : same needle mid -> C16_SearchSpec.same ceq ic (rev needle) (rev mid).
Proof. apply Forall2_rev'. Qed.

(* the boolean test at offset r is the occurrence predicate *)
Lemma match_skipn_iff needle s (r : nat) :
  (r <= length s)%nat ->
  (match_at needle (skipn r s) = true <-> occurs_at needle s r).
Proof.
  intros Hr. rewrite match_at_iff. split.
  - intros (mid & post & E & H). exists (firstn r s), mid, post. split; [|split; [|exact H]].
    + rewrite <- E. symmetry. apply firstn_skipn.
    + rewrite firstn_length. lia.
  - intros (pre & mid & post & -> & <- & H). exists mid, post. split; [|exact H].
    apply skipn_app_exact.
Qed.

Lemma occurs_at_bound needle s r : occurs_at needle s r -> (r + length needle <= length s)%nat.
Proof.
  intros (pre & mid & post & -> & <- & H). rewrite !app_length, (same_len _ _ H). lia.
Qed.

(* an occurrence in the reversed text is an occurrence of the reversed needle *)
Lemma occurs_at_rev needle s r :
  occurs_at needle s r ->
  C16_SearchSpec.occurs_at ceq ic (rev needle) (rev s) (length s - r - length needle).
Proof.
  intros (pre & mid & post & -> & <- & H).
  exists (rev post), (rev mid), (rev pre). split; [|split; [|apply same_rev; exact H]].
  - now rewrite !rev_app_distr, <- app_assoc.
  - rewrite rev_length, !app_length, (same_len _ _ H). lia.
Qed.

(* occurrences in a prefix = occurrences that end inside the prefix *)
Lemma occurs_at_firstn needle s (c r : nat) :
  (c <= length s)%nat ->
  (occurs_at needle (firstn c s) r <-> occurs_at needle s r /\ (r + length needle <= c)%nat).
Proof.
  intros Hc. split.
  - intros H. pose proof (occurs_at_bound _ _ _ H) as Hb. rewrite firstn_length in Hb.
    split; [|lia]. destruct H as (pre & mid & post & E & Hl & H).
    exists pre, mid, (post ++ skipn c s). split; [|split; assumption].
    rewrite <- (firstn_skipn c s) at 1. rewrite E. now rewrite <- !app_assoc.
  - intros [(pre & mid & post & -> & <- & H) Hb].
    pose proof (same_len _ _ H) as Hm.
    exists pre, mid, (firstn (c - length pre - length mid) post). split; [|split; [reflexivity|exact H]].
    rewrite firstn_app. rewrite (firstn_all2 pre) by lia. f_equal.
    rewrite firstn_app. rewrite (firstn_all2 mid) by lia. reflexivity.
Qed.

(* ---------------------------------------------------------------------- *)
(* find_nth for the first match (skip = 0, k = 0) *)
Lemma find_first_spec needle s i :
  match find_nth ceq ic needle s i O O with
  | Some j => exists off : nat, j = i + Z.of_nat off /\ (off <= length s)%nat /\
        match_at needle (skipn off s) = true /\
        forall o, (o < off)%nat -> match_at needle (skipn o s) = false
  | None => forall o, (o <= length s)%nat -> match_at needle (skipn o s) = false
  end.
Proof.
  revert i; induction s as [|x s IH]; intros i.
  - cbn [find_nth]. destruct (match_at needle []) eqn:E.
    + exists O. split; [lia|]. split; [cbn [length]; lia|]. split; [exact E|]. intros o Ho; lia.
    + intros o Ho. cbn in Ho. assert (o = O) by lia. subst. exact E.
  - cbn [find_nth]. destruct (match_at needle (x :: s)) eqn:E.
    + exists O. split; [lia|]. split; [cbn [length]; lia|]. split; [exact E|]. intros o Ho; lia.
    + specialize (IH (i + 1)). destruct (find_nth ceq ic needle s (i + 1) 0 0) as [j|].
      * destruct IH as (off & -> & Hoff & Hm & Hmin). exists (S off).
        split; [lia|]. split; [cbn [length]; lia|]. split; [exact Hm|].
        intros [|o] Ho; [exact E|]. cbn [skipn]. apply Hmin. lia.
      * intros [|o] Ho; [exact E|]. cbn [skipn]. apply IH. cbn in Ho. lia.
Qed.


(* ---------------------------------------------------------------------- *)
(* find_nth in general: the (k+1)-th non-overlapping match *)
Notation first_from := (first_from ceq ic).
Notation nth_match := (nth_match ceq ic).

Lemma find_nth_skip needle : forall sk s i k,
  find_nth ceq ic needle s i sk k =
  if (sk <=? length s)%nat then find_nth ceq ic needle (skipn sk s) (i + Z.of_nat sk) O k else None.
Proof.
  induction sk as [|sk IH]; intros s i k.
  - cbn [Nat.leb skipn]. now rewrite Z.add_0_r.
  - destruct s as [|x r].
    + destruct k; reflexivity.
    + cbn [find_nth length skipn]. rewrite IH. change (S sk <=? S (length r))%nat with (sk <=? length r)%nat.
      destruct (sk <=? length r)%nat; [|reflexivity]. f_equal. lia.
Qed.

Lemma find_first_ge needle s i j : find_nth ceq ic needle s i O O = Some j -> i <= j.
Proof.
  intros E. pose proof (find_first_spec needle s i) as H. rewrite E in H.
  destruct H as (off & -> & _). lia.
Qed.

Lemma find_nth_decomp needle : forall s i k,
  find_nth ceq ic needle s i O (S k) =
  match find_nth ceq ic needle s i O O with
  | None => None
  | Some j =>
      let o := (Z.to_nat (j - i) + Nat.max 1 (length needle))%nat in
      if (o <=? length s)%nat
      then find_nth ceq ic needle (skipn o s) (j + Z.of_nat (Nat.max 1 (length needle))) O k
      else None
  end.
Proof.
  induction s as [|x r IH]; intros i k.
  - cbn [find_nth]. destruct (match_at needle []); [|reflexivity].
    cbv zeta. rewrite Z.sub_diag. cbn [Z.to_nat Nat.add length].
    destruct (Nat.max 1 (length needle)) eqn:E; [lia|reflexivity].
  - cbn [find_nth]. destruct (match_at needle (x :: r)) eqn:Em.
    + cbv zeta. rewrite Z.sub_diag. cbn [Z.to_nat Nat.add]. rewrite find_nth_skip.
      assert (Hm : Nat.max 1 (length needle) = S (Nat.pred (length needle))) by lia.
      rewrite Hm. cbn [length skipn]. change (S (Nat.pred (length needle)) <=? S (length r))%nat
        with (Nat.pred (length needle) <=? length r)%nat.
      destruct (Nat.pred (length needle) <=? length r)%nat; [|reflexivity]. f_equal. lia.
    + rewrite IH. destruct (find_nth ceq ic needle r (i + 1) 0 0) as [j|] eqn:Ej; [|reflexivity].
      pose proof (find_first_ge _ _ _ _ Ej) as Hge. cbv zeta.
      replace (Z.to_nat (j - i)) with (S (Z.to_nat (j - (i + 1)))) by lia.
      cbn [Nat.add length skipn].
      change (S (Z.to_nat (j - (i + 1)) + Nat.max 1 (length needle)) <=? S (length r))%nat
        with (Z.to_nat (j - (i + 1)) + Nat.max 1 (length needle) <=? length r)%nat.
      reflexivity.
Qed.

Lemma first_from_unique needle t lo p q : first_from needle t lo p -> first_from needle t lo q -> p = q.
Proof.
  intros (Hp1 & Hp2 & Hp3) (Hq1 & Hq2 & Hq3).
  destruct (Nat.lt_trichotomy p q) as [H|[H|H]]; [|exact H|].
  - exfalso. apply (Hq3 p); [lia|exact Hp2].
  - exfalso. apply (Hp3 q); [lia|exact Hq2].
Qed.

Lemma nth_match_occ needle t : forall k lo p,
  nth_match needle t lo k p -> (lo <= p)%nat /\ occurs_at needle t p.
Proof.
  induction k as [|k IH]; intros lo p H.
  - destruct H as (H1 & H2 & _). now split.
  - destruct H as (p0 & (H1 & _) & H2). destruct (IH _ _ H2) as [H3 H4]. split; [lia|exact H4].
Qed.

(* first match from offset a, as first_from *)
Lemma find_first_from needle t (a : nat) i : (a <= length t)%nat ->
  match find_nth ceq ic needle (skipn a t) i O O with
  | Some j => i <= j /\ first_from needle t a (a + Z.to_nat (j - i)) /\
              (Z.to_nat (j - i) <= length t - a)%nat
  | None => forall p, (a <= p)%nat -> ~ occurs_at needle t p
  end.
Proof.
  intros Ha. pose proof (find_first_spec needle (skipn a t) i) as H.
  assert (Hlen : length (skipn a t) = (length t - a)%nat) by apply skipn_length.
  destruct (find_nth ceq ic needle (skipn a t) i 0 0) as [j|].
  - destruct H as (off & -> & Hoff & Hm & Hmin).
    replace (Z.to_nat (i + Z.of_nat off - i)) with off by lia.
    split; [lia|]. split; [|lia]. split; [lia|]. split.
    + rewrite skipn_skipn' in Hm. apply match_skipn_iff in Hm; [exact Hm|lia].
    + intros o Ho Hocc. specialize (Hmin (o - a)%nat ltac:(lia)).
      rewrite skipn_skipn' in Hmin. replace (a + (o - a))%nat with o in Hmin by lia.
      pose proof (occurs_at_bound _ _ _ Hocc) as Hb.
      apply match_skipn_iff in Hocc; [congruence|lia].
  - intros o Ho Hocc. pose proof (occurs_at_bound _ _ _ Hocc) as Hb.
    specialize (H (o - a)%nat ltac:(lia)). rewrite skipn_skipn' in H.
    replace (a + (o - a))%nat with o in H by lia.
    apply match_skipn_iff in Hocc; [congruence|lia].
Qed.

Lemma find_nth_spec needle t : forall k (a : nat) i, (a <= length t)%nat ->
  match find_nth ceq ic needle (skipn a t) i O k with
  | Some j => i <= j /\ nth_match needle t a k (a + Z.to_nat (j - i))
  | None => forall p, ~ nth_match needle t a k p
  end.
Proof.
  induction k as [|k IH]; intros a i Ha.
  - pose proof (find_first_from needle t a i Ha) as H.
    destruct (find_nth ceq ic needle (skipn a t) i 0 0) as [j|].
    + destruct H as (H1 & H2 & _). now split.
    + intros p (Hp1 & Hp2 & _). exact (H p Hp1 Hp2).
  - rewrite find_nth_decomp. pose proof (find_first_from needle t a i Ha) as H.
    destruct (find_nth ceq ic needle (skipn a t) i 0 0) as [j|].
    + destruct H as (Hij & Hff & Hoff). cbv zeta. set (off := Z.to_nat (j - i)) in *.
      set (m := Nat.max 1 (length needle)). rewrite skipn_length.
      assert (Heq : (a + off + Nat.max 1 (length needle) = a + (off + m))%nat) by (subst m; lia).
      destruct (off + m <=? length t - a)%nat eqn:Eg.
      * apply Nat.leb_le in Eg. rewrite skipn_skipn'.
        specialize (IH (a + (off + m))%nat (j + Z.of_nat m) ltac:(lia)).
        destruct (find_nth ceq ic needle (skipn (a + (off + m)) t) (j + Z.of_nat m) 0 k) as [j'|].
        -- destruct IH as [Hjj Hn]. split; [lia|]. exists (a + off)%nat. split; [exact Hff|].
           replace (a + Z.to_nat (j' - i))%nat with (a + (off + m) + Z.to_nat (j' - (j + Z.of_nat m)))%nat by lia.
           cbv zeta. rewrite Heq. exact Hn.
        -- intros p (p0 & Hp0 & Hp). rewrite (first_from_unique _ _ _ _ _ Hp0 Hff) in Hp.
           apply (IH p). rewrite <- Heq. exact Hp.
      * apply Nat.leb_gt in Eg. intros p (p0 & Hp0 & Hp).
        rewrite (first_from_unique _ _ _ _ _ Hp0 Hff) in Hp.
        rewrite Heq in Hp. destruct (nth_match_occ _ _ _ _ _ Hp) as [Hlo Hocc]. apply occurs_at_bound in Hocc. lia.
    + intros p (p0 & (Hp1 & Hp2 & _) & _). exact (H p0 Hp1 Hp2).
Qed.


(* ---------------------------------------------------------------------- *)
(* the backward scan: mirrored coordinates <-> forward coordinates *)
Notation last_before := (last_before ceq ic).
Notation nth_match_back := (nth_match_back ceq ic).

Lemma occ_rev_iff needle B p : (p + length needle <= length B)%nat ->
  (occurs_at needle B p <->
   C16_SearchSpec.occurs_at ceq ic (rev needle) (rev B) (length B - p - length needle)).
Proof.
  intros Hb. split; [apply occurs_at_rev|].
  intros H. apply occurs_at_rev in H. rewrite !rev_involutive, !rev_length in H.
  replace (length B - (length B - p - length needle) - length needle)%nat with p in H by lia. exact H.
Qed.

Lemma first_to_last needle B lo r : (lo <= length B)%nat ->
  C16_SearchSpec.first_from ceq ic (rev needle) (rev B) lo r ->
  (r + length needle <= length B)%nat /\
  last_before needle B (length B - lo) (length B - r - length needle).
Proof.
  intros Hlo (H1 & H2 & H3).
  pose proof (occurs_at_bound _ _ _ H2) as Hb. rewrite !rev_length in Hb. split; [exact Hb|].
  split; [lia|]. split.
  - apply (proj2 (occ_rev_iff needle B (length B - r - length needle)%nat ltac:(lia))).
    replace (length B - (length B - r - length needle) - length needle)%nat with r by lia. exact H2.
  - intros o Ho Hoh Hocc. apply (H3 (length B - o - length needle)%nat); [lia|].
    apply (proj1 (occ_rev_iff needle B o ltac:(lia))). exact Hocc.
Qed.

Lemma last_to_first needle B hi p : (hi <= length B)%nat ->
  last_before needle B hi p ->
  C16_SearchSpec.first_from ceq ic (rev needle) (rev B) (length B - hi) (length B - p - length needle).
Proof.
  intros Hhi (H1 & H2 & H3). split; [lia|]. split.
  - apply (proj1 (occ_rev_iff needle B p ltac:(lia))). exact H2.
  - intros o Ho Hocc. pose proof (occurs_at_bound _ _ _ Hocc) as Hb. rewrite !rev_length in Hb.
    apply (H3 (length B - o - length needle)%nat); [lia|lia|].
    apply (proj2 (occ_rev_iff needle B (length B - o - length needle)%nat ltac:(lia))).
    replace (length B - (length B - o - length needle) - length needle)%nat with o by lia. exact Hocc.
Qed.

Lemma nth_to_back needle B : forall k lo r, (lo <= length B)%nat ->
  C16_SearchSpec.nth_match ceq ic (rev needle) (rev B) lo k r ->
  (r + length needle <= length B)%nat /\
  nth_match_back needle B (length B - lo) k (length B - r - length needle).
Proof.
  induction k as [|k IH]; intros lo r Hlo H.
  - apply first_to_last; assumption.
  - destruct H as (r0 & Hf & Hn). rewrite rev_length in Hn.
    destruct (first_to_last _ _ _ _ Hlo Hf) as [Hb0 Hl].
    destruct (nth_match_occ _ _ _ _ _ Hn) as [Hge Hocc].
    pose proof (occurs_at_bound _ _ _ Hocc) as Hb. rewrite !rev_length in Hb.
    destruct (IH (r0 + Nat.max 1 (length needle))%nat r ltac:(lia) Hn) as [_ Hback].
    split; [exact Hb|]. exists (length B - r0 - length needle)%nat. split; [exact Hl|]. split; [lia|].
    replace (length B - r0 - length needle + length needle - Nat.max 1 (length needle))%nat
      with (length B - (r0 + Nat.max 1 (length needle)))%nat by lia. exact Hback.
Qed.

Lemma back_to_nth needle B : forall k hi p, (hi <= length B)%nat ->
  nth_match_back needle B hi k p ->
  C16_SearchSpec.nth_match ceq ic (rev needle) (rev B) (length B - hi) k (length B - p - length needle).
Proof.
  induction k as [|k IH]; intros hi p Hhi H.
  - apply last_to_first; assumption.
  - destruct H as (p0 & Hl & Hg & Hn). pose proof Hl as (Hp0 & _ & _).
    exists (length B - p0 - length needle)%nat. split; [apply last_to_first; assumption|].
    rewrite rev_length.
    specialize (IH (p0 + length needle - Nat.max 1 (length needle))%nat p ltac:(lia) Hn).
    replace (length B - p0 - length needle + Nat.max 1 (length needle))%nat
      with (length B - (p0 + length needle - Nat.max 1 (length needle)))%nat by lia. exact IH.
Qed.

(* occurrences ending inside a prefix are the prefix's occurrences *)
Lemma last_before_firstn needle t (c hi p : nat) : (c <= length t)%nat -> (hi <= c)%nat ->
  (last_before needle (firstn c t) hi p <-> last_before needle t hi p).
Proof.
  intros Hc Hhi. split; intros (H1 & H2 & H3).
  - split; [exact H1|]. split; [apply (occurs_at_firstn needle t c p Hc) in H2; apply H2|].
    intros o Ho Hoh Hocc. apply (H3 o Ho Hoh). apply occurs_at_firstn; [exact Hc|]. split; [exact Hocc|lia].
  - split; [exact H1|]. split; [apply occurs_at_firstn; [exact Hc|split; [exact H2|lia]]|].
    intros o Ho Hoh Hocc. apply (H3 o Ho Hoh). apply (occurs_at_firstn needle t c o Hc) in Hocc. apply Hocc.
Qed.

Lemma nth_back_firstn needle t (c : nat) : (c <= length t)%nat -> forall k hi p, (hi <= c)%nat ->
  (nth_match_back needle (firstn c t) hi k p <-> nth_match_back needle t hi k p).
Proof.
  intros Hc. induction k as [|k IH]; intros hi p Hhi.
  - apply last_before_firstn; assumption.
  - cbn [C16_SearchSpec.nth_match_back]. split; intros (p0 & Hl & Hg & Hn); exists p0.
    + pose proof Hl as (Hp0 & _ & _). split; [apply (last_before_firstn needle t c hi p0 Hc Hhi); exact Hl|].
      split; [exact Hg|]. apply IH; [lia|exact Hn].
    + pose proof Hl as (Hp0 & _ & _). split; [apply (last_before_firstn needle t c hi p0 Hc Hhi); exact Hl|].
      split; [exact Hg|]. apply IH; [lia|exact Hn].
Qed.

End Facts.
