(* C07 - the command payload instantiated with the handler models other
   properties own: Model/BufferEdit.v (C01: insert_text, delete_before_cursor,
   delete = what self-insert / backward-delete-char / delete-char do to the
   buffer) and Model/C09_Kill.v (C09: kill-line, kill-word, yank).  For each:
   dispatching the command through its real binding and pressing undo once
   gives back exactly the text and cursor from before the command. *)
From Coq Require Import ZArith List Bool Lia.
From PTK Require Import Lib.Sx Lib.Py Lib.C07_Lemmas Model.Document Model.BufferEdit Proofs.BufferEditFacts.
From PTK Require Model.C09_Kill.
From PTK Require Import Model.C07_Undo Model.C07_Keys Model.C07_Table
  Gen.C07_Bindings Proofs.C07_UndoFacts Proofs.C07_KeysFacts Proofs.C07_TableFacts.
Import ListNotations.
Open Scope Z_scope.

(* the undo machinery's view of the buffer and the edit model's view agree *)
Definition agrees (u : ust) (b : buf) : Prop := utext u = btext b /\ ucur u = bcur b.

(* the dispatch of binding h whose handler turned the buffer into b' *)
Definition cmd_key (h : Z) (b' : buf) : kev := Key h 1 (btext b') (bcur b').

Lemma agrees_inv u b : wf u -> agrees u b -> Inv b.
Proof. intros (Hh & _) [Ht Hc]. unfold Inv. unfold snap_ok, here in Hh. cbn [fst snd] in Hh. rewrite <- Ht, <- Hc. exact Hh. Qed.

Lemma len_neq_neq {T} (a b : list T) : len a <> len b -> a <> b.
Proof. intros H E. apply H. now rewrite E. Qed.

(* generic: any binding of the real table that snapshots now, any handler model *)
Lemma cmd_undo h s b b' :
  r_act (lookup c07_rows h) = 0 -> save_before c07_rows (kprev s) h = true ->
  wf (kbuf s) -> agrees (kbuf s) b -> btext b' <> btext b ->
  here (undo (kbuf (kstep c07_rows s (cmd_key h b')))) = (btext b, bcur b).
Proof.
  intros Ha Hsv Hwf [Ht Hc] Hne. unfold cmd_key.
  destruct (key_edit_undo c07_rows s h 1 (btext b') (bcur b') Ha Hsv Hwf) as [H _].
  - rewrite Ht. exact Hne.
  - rewrite H. unfold here. now rewrite Ht, Hc.
Qed.

Lemma group_role_saves h prev :
  is_group_role (lookup c07_rows h) = true -> prev <> Some h ->
  r_act (lookup c07_rows h) = 0 /\ save_before c07_rows prev h = true.
Proof.
  intros Hr Hp. destruct (group_ok_row c07_rows h live_group_flag Hr) as [Hc Ha].
  split; [exact Ha|]. apply save_before_first; assumption.
Qed.

Lemma role_group h k : r_role (lookup c07_rows h) = k -> (k = 1 \/ k = 2 \/ k = 3) ->
  is_group_role (lookup c07_rows h) = true.
Proof. intros Hr Hk. unfold is_group_role. rewrite Hr. destruct Hk as [E|[E|E]]; rewrite E; reflexivity. Qed.

(* self-insert of a non-empty string (Buffer.insert_text) *)
Theorem self_insert_then_undo h s b data :
  r_role (lookup c07_rows h) = 1 -> kprev s <> Some h ->
  wf (kbuf s) -> agrees (kbuf s) b -> data <> [] ->
  let b' := res_buf (insert_text b data false true) in
  here (undo (kbuf (kstep c07_rows s (cmd_key h b')))) = (btext b, bcur b).
Proof.
  intros Hr Hp Hwf Hag Hd. cbn zeta.
  destruct (group_role_saves h (kprev s) (role_group h 1 Hr (or_introl eq_refl)) Hp) as [Ha Hsv].
  pose proof (agrees_inv _ _ Hwf Hag) as Hinv.
  apply cmd_undo; try assumption.
  rewrite insert_text_spec by exact Hinv. cbn [res_buf btext].
  apply len_neq_neq. rewrite !len_app.
  pose proof (firstn_skipn (Z.to_nat (bcur b)) (btext b)) as E.
  assert (El : len (firstn (Z.to_nat (bcur b)) (btext b)) + len (skipn (Z.to_nat (bcur b)) (btext b)) = len (btext b)).
  { rewrite <- len_app, E. reflexivity. }
  assert (0 < len data).
  { destruct data; [congruence|]. rewrite len_cons. pose proof (len_nonneg data). lia. }
  lia.
Qed.

(* backward-delete-char with something before the cursor (Buffer.delete_before_cursor) *)
Theorem backspace_then_undo h s b n :
  r_role (lookup c07_rows h) = 2 -> kprev s <> Some h ->
  wf (kbuf s) -> agrees (kbuf s) b -> 1 <= n -> 0 < bcur b ->
  let b' := res_buf (delete_before_cursor b n) in
  here (undo (kbuf (kstep c07_rows s (cmd_key h b')))) = (btext b, bcur b).
Proof.
  intros Hr Hp Hwf Hag Hn Hcur. cbn zeta.
  destruct (group_role_saves h (kprev s) (role_group h 2 Hr (or_intror (or_introl eq_refl))) Hp) as [Ha Hsv].
  pose proof (agrees_inv _ _ Hwf Hag) as Hinv.
  apply cmd_undo; try assumption.
  pose proof (delete_before_cursor_spec b n Hinv ltac:(lia)) as E. cbn zeta in E. rewrite E.
  cbn [res_buf btext]. apply len_neq_neq. rewrite len_app, len_firstn, len_skipn.
  destruct Hinv as [H0 H1]. rewrite !Z2Nat.id by lia. lia.
Qed.

(* delete-char with something after the cursor (Buffer.delete) *)
Theorem delete_then_undo h s b n :
  r_role (lookup c07_rows h) = 3 -> kprev s <> Some h ->
  wf (kbuf s) -> agrees (kbuf s) b -> 1 <= n -> bcur b < len (btext b) ->
  let b' := res_buf (delete b n) in
  here (undo (kbuf (kstep c07_rows s (cmd_key h b')))) = (btext b, bcur b).
Proof.
  intros Hr Hp Hwf Hag Hn Hcur. cbn zeta.
  destruct (group_role_saves h (kprev s) (role_group h 3 Hr (or_intror (or_intror eq_refl))) Hp) as [Ha Hsv].
  pose proof (agrees_inv _ _ Hwf Hag) as Hinv.
  apply cmd_undo; try assumption.
  pose proof (delete_spec b n Hinv ltac:(lia)) as E. cbn zeta in E. rewrite E.
  cbn [res_buf btext]. apply len_neq_neq. rewrite len_app, len_firstn, len_skipn.
  destruct Hinv as [H0 H1]. rewrite !Z2Nat.id by lia. lia.
Qed.

(* kill-line, kill-word, yank as modelled for C09: whenever the command
   changes the text at all, one undo restores text and cursor *)
Lemma kill_yank_saves h prev :
  r_role (lookup c07_rows h) = 8 \/ r_role (lookup c07_rows h) = 9 \/ r_role (lookup c07_rows h) = 10 ->
  r_act (lookup c07_rows h) = 0 /\ save_before c07_rows prev h = true.
Proof.
  intros Hr. destruct (live_kill_yank h Hr) as [Hc Ha]. split; [exact Ha|].
  apply save_before_always. exact Hc.
Qed.

Theorem kill_line_then_undo h s (e : C09_Kill.st) arg :
  r_role (lookup c07_rows h) = 8 -> wf (kbuf s) -> agrees (kbuf s) (C09_Kill.sb e) ->
  let b' := C09_Kill.sb (snd (C09_Kill.kill_line e arg)) in
  btext b' <> btext (C09_Kill.sb e) ->
  here (undo (kbuf (kstep c07_rows s (cmd_key h b')))) = (btext (C09_Kill.sb e), bcur (C09_Kill.sb e)).
Proof.
  intros Hr Hwf Hag. cbn zeta. intros Hne.
  destruct (kill_yank_saves h (kprev s) (or_introl Hr)) as [Ha Hsv].
  apply cmd_undo; assumption.
Qed.

Theorem kill_word_then_undo h s (e : C09_Kill.st) arg rep :
  r_role (lookup c07_rows h) = 9 -> wf (kbuf s) -> agrees (kbuf s) (C09_Kill.sb e) ->
  let b' := C09_Kill.sb (snd (C09_Kill.kill_word e arg rep)) in
  btext b' <> btext (C09_Kill.sb e) ->
  here (undo (kbuf (kstep c07_rows s (cmd_key h b')))) = (btext (C09_Kill.sb e), bcur (C09_Kill.sb e)).
Proof.
  intros Hr Hwf Hag. cbn zeta. intros Hne.
  destruct (kill_yank_saves h (kprev s) (or_intror (or_introl Hr))) as [Ha Hsv].
  apply cmd_undo; assumption.
Qed.

Theorem yank_then_undo h s (e : C09_Kill.st) arg :
  r_role (lookup c07_rows h) = 10 -> wf (kbuf s) -> agrees (kbuf s) (C09_Kill.sb e) ->
  let b' := C09_Kill.sb (snd (C09_Kill.yank e arg)) in
  btext b' <> btext (C09_Kill.sb e) ->
  here (undo (kbuf (kstep c07_rows s (cmd_key h b')))) = (btext (C09_Kill.sb e), bcur (C09_Kill.sb e)).
Proof.
  intros Hr Hwf Hag. cbn zeta. intros Hne.
  destruct (kill_yank_saves h (kprev s) (or_intror (or_intror Hr))) as [Ha Hsv].
  apply cmd_undo; assumption.
Qed.
