(* C19 - nested dynamic styles (Model/C19_Nested.v): the invalidation hash
   determines the rules ACROSS objects and environments (a dynamic style that
   now returns a different object with the same hash has the same rules), and
   every cache - the outer merged objects' and the inner persistent objects' -
   stays transparent over any history of switches and look-ups. *)
From Coq Require Import ZArith List Bool Lia.
From PTK Require Import Lib.Py Lib.C19_Str Model.C19_Style Model.C19_Merged Model.C19_Nested Proofs.C19_MergedFacts.
Import ListNotations.
Open Scope Z_scope.

(* two style objects (possibly different ones), two environments: equal
   invalidation hashes, equal style_rules *)
Theorem hash_rules_cross : forall pool t t' e e',
  inv_hash e t = inv_hash e' t' -> style_rules pool e t = style_rules pool e' t'.
Proof.
  intros pool. fix IH 1. intros t t' e e' H.
  destruct t as [id| |slot|l]; destruct t' as [id'| |slot'|l']; cbn [inv_hash style_rules] in *;
    try discriminate; try reflexivity.
  - inversion H; reflexivity.
  - destruct (env_get e' slot'); [inversion H; reflexivity | discriminate].
  - destruct (env_get e' slot'); [discriminate | reflexivity].
  - destruct (env_get e slot); [inversion H; reflexivity | discriminate].
  - destruct (env_get e slot); [discriminate | reflexivity].
  - destruct (env_get e slot), (env_get e' slot'); try discriminate; [inversion H|]; reflexivity.
  - destruct (env_get e slot); discriminate.
  - destruct (env_get e' slot'); discriminate.
  - inversion H as [H1]. clear H. revert l' H1. induction l as [|x r IHr]; intros [|x' r'] H1; try discriminate; [reflexivity|].
    cbn [map flat_map] in *. inversion H1 as [[Hx Hr]].
    rewrite (IH x x' e e' Hx). rewrite (IHr r' Hr). reflexivity.
Qed.

Lemma hash_one_rules : forall pool t e, inv_hash e t = HOne -> style_rules pool e t = [].
Proof. intros pool t e H. exact (hash_rules_cross pool t SDummy e [] H). Qed.
Lemma hash_id_rules : forall pool t e id, inv_hash e t = HId id -> style_rules pool e t = pool_rules pool id.
Proof. intros pool t e id H. exact (hash_rules_cross pool t (SStyle id) e [] H). Qed.

(* what a dynamic slot returns: None, a sheet or a persistent object - the hash decides the rules *)
Lemma target_hash_rules : forall pool inner e e' tg tg',
  target_hash e inner tg = target_hash e' inner tg' -> target_rules pool e inner tg = target_rules pool e' inner tg'.
Proof.
  intros pool inner e e' tg tg' H.
  destruct tg as [|id|k]; destruct tg' as [|id'|k']; cbn [target_hash target_rules] in *; try discriminate; try reflexivity.
  - destruct (nth_error inner k'); [symmetry; apply hash_one_rules; auto | reflexivity].
  - inversion H; reflexivity.
  - destruct (nth_error inner k'); [symmetry; apply hash_id_rules; auto | discriminate].
  - destruct (nth_error inner k); [apply hash_one_rules; auto | reflexivity].
  - destruct (nth_error inner k); [apply hash_id_rules; auto | discriminate].
  - destruct (nth_error inner k) as [t|], (nth_error inner k') as [t'|].
    + apply hash_rules_cross; exact H.
    + apply hash_one_rules; exact H.
    + symmetry. apply hash_one_rules; auto.
    + reflexivity.
Qed.

Theorem hash1_determines_rules : forall pool inner t e0 e1 e0' e1',
  inv_hash1 e0 e1 inner t = inv_hash1 e0' e1' inner t ->
  style_rules1 pool e0 e1 inner t = style_rules1 pool e0' e1' inner t.
Proof.
  intros pool inner. fix IH 1. intros t e0 e1 e0' e1' H.
  destruct t as [id| |slot|l]; cbn [inv_hash1 style_rules1] in *; try reflexivity.
  - apply target_hash_rules; exact H.
  - inversion H as [H1]. clear H. induction l as [|x r IHr]; [reflexivity|].
    cbn [map flat_map] in *. inversion H1 as [[Hx Hr]].
    rewrite (IH x e0 e1 e0' e1' Hx). rewrite (IHr Hr). reflexivity.
Qed.

Definition cache1_inv (pool : pool_t) (inner : list sty) (t : sty1) (c : mcache) : Prop :=
  match c with
  | None => True
  | Some (k, rules) => exists e0 e1, k = inv_hash1 e0 e1 inner t /\ rules = style_rules1 pool e0 e1 inner t
  end.

Lemma lookup1_spec : forall pool e0 e1 inner t c1 c0s s,
  cache1_inv pool inner t c1 -> Forall2 (cache_inv pool) inner c0s ->
  fst (fst (lookup1 pool e0 e1 inner t c1 c0s s)) = fresh_lookup1 pool e0 e1 inner t s /\
  cache1_inv pool inner t (snd (fst (lookup1 pool e0 e1 inner t c1 c0s s))) /\
  Forall2 (cache_inv pool) inner (snd (lookup1 pool e0 e1 inner t c1 c0s s)).
Proof.
  intros pool e0 e1 inner t c1 c0s s H1 H0.
  destruct t as [id| |slot|l]; cbn [lookup1 fresh_lookup1].
  - cbn. auto.
  - cbn. auto.
  - destruct (env1_get e1 slot) as [|id|k]; try (cbn; auto; fail).
    destruct (nth_error inner k) as [t0|] eqn:Et; [|cbn; auto].
    destruct (Forall2_nth _ _ _ _ _ H0 Et) as (c0 & Ec & Hc). rewrite Ec.
    destruct (lookup_obj_spec pool e0 t0 c0 s Hc) as [A B].
    destruct (lookup_obj pool e0 t0 c0 s) as [r c0']. cbn [fst snd] in *.
    split; [exact A|]. split; [exact H1|]. eapply Forall2_set_nth; eauto.
  - destruct c1 as [[k rules]|].
    + destruct (hv_eqb (inv_hash1 e0 e1 inner (N1Merged l)) k) eqn:E; cbn [fst snd].
      * split; [|split; [exact H1 | exact H0]]. apply hv_eqb_sound in E.
        destruct H1 as (a0 & a1 & Hk & Hr). subst k rules.
        rewrite (hash1_determines_rules pool inner (N1Merged l) a0 a1 e0 e1 (eq_sym E)). reflexivity.
      * split; [reflexivity|]. split; [|exact H0]. exists e0, e1. split; reflexivity.
    + cbn [fst snd]. split; [reflexivity|]. split; [|exact H0]. exists e0, e1. split; reflexivity.
Qed.

Theorem nested_cache_transparent : forall pool inner objs es st,
  Forall2 (cache_inv pool) inner (ns_c0 st) ->
  Forall2 (cache1_inv pool inner) objs (ns_c1 st) ->
  run_events1 pool inner objs st es = run_events1_fresh pool inner objs (ns_env0 st) (ns_env1 st) es.
Proof.
  intros pool inner objs. induction es as [|e r IH]; intros [e0 e1 c0s c1s] H0 H1; [reflexivity|].
  cbn [ns_env0 ns_env1 ns_c0 ns_c1] in *.
  cbn [run_events1]. destruct e as [slot o|slot tg|k s|k|k s]; cbn [step_event1 run_events1_fresh ns_env0 ns_env1 ns_c0 ns_c1].
  - rewrite IH by assumption. reflexivity.
  - rewrite IH by assumption. reflexivity.
  - destruct (nth_error objs k) as [t|] eqn:Et.
    + destruct (Forall2_nth _ _ _ _ _ H1 Et) as (c1 & Ec & Hc). rewrite Ec.
      destruct (lookup1_spec pool e0 e1 inner t c1 c0s s Hc H0) as (A & B & C).
      destruct (lookup1 pool e0 e1 inner t c1 c0s s) as [[res c1'] c0s']. cbn [fst snd] in *.
      rewrite A. f_equal. rewrite IH; [reflexivity | exact C | eapply Forall2_set_nth; eauto].
    + rewrite IH by assumption. reflexivity.
  - destruct (nth_error objs k); rewrite IH by assumption; reflexivity.
  - destruct (nth_error inner k) as [t0|] eqn:Et.
    + destruct (Forall2_nth _ _ _ _ _ H0 Et) as (c0 & Ec & Hc). rewrite Ec.
      destruct (lookup_obj_spec pool e0 t0 c0 s Hc) as [A B].
      destruct (lookup_obj pool e0 t0 c0 s) as [res c0']. cbn [fst snd] in *.
      rewrite A. f_equal. rewrite IH; [reflexivity | eapply Forall2_set_nth; eauto | exact H1].
    + rewrite IH by assumption. reflexivity.
Qed.

Corollary nested_cache_transparent_fresh : forall pool inner objs es,
  run_events1 pool inner objs (EMPTY_NS inner objs) es = run_events1_fresh pool inner objs [] [] es.
Proof.
  intros. apply (nested_cache_transparent pool inner objs es (EMPTY_NS inner objs)); cbn [EMPTY_NS ns_c0 ns_c1].
  - induction inner; cbn; constructor; [exact I | assumption].
  - induction objs; cbn; constructor; [exact I | assumption].
Qed.

(* a fresh outer merge is one sheet with the CURRENT rules concatenated, where a
   dynamic member contributes the current rules of whatever it returns now *)
Lemma fresh_nested_is_concat : forall pool e0 e1 inner l s,
  fresh_lookup1 pool e0 e1 inner (N1Merged l) s
  = style_get (flat_map (style_rules1 pool e0 e1 inner) l) s DEFAULT_ATTRS.
Proof. reflexivity. Qed.

(* non-vacuity: an outer merge [sheet 0, Dynamic slot 7] whose slot returns the inner
   merge [sheet 1, Dynamic slot 3]: the hash is a tuple containing a tuple, and a
   switch of the INNER slot changes the outer hash *)
Example nested_example :
  let inner := [SMerged [SStyle 1; SDynamic 3]] in
  let t := N1Merged [N1Style 0; N1Dynamic 7] in
  inv_hash1 [(3, Some 2)] [(7, TObj 0%nat)] inner t = HTuple [HId 0; HTuple [HId 1; HId 2]] /\
  inv_hash1 [(3, Some 5)] [(7, TObj 0%nat)] inner t <> inv_hash1 [(3, Some 2)] [(7, TObj 0%nat)] inner t.
Proof. split; [reflexivity | discriminate]. Qed.
