(* C15 - the property theorems, proved from the invariant. *)
From Coq Require Import ZArith List Bool Lia.
From PTK Require Import Lib.Sx Lib.Py Model.C15_Async Proofs.C15_Base Proofs.C15_User Proofs.C15_Sched Proofs.C15_Cfg.
Import ListNotations.
Open Scope Z_scope.

(* every state reachable from a fresh buffer, by any label list *)
Definition reachc (c : config) (t : str) (p : Z) (ls : list label) : state := run (init c t p) ls.
(* ... in the code as it is now, and as it was at the pinned snapshot *)
Definition reach (c : config) (t : str) (p : Z) (ls : list label) : state := reachc (current c) t p ls.
Definition reach_pinned (c : config) (t : str) (p : Z) (ls : list label) : state := reachc (pinned c) t p ls.

Lemma reachc_Inv c t p ls : 0 <= p <= len t -> Inv (reachc c t p ls).
Proof. intros H. apply run_Inv. apply init_Inv. exact H. Qed.

Lemma reachc_cfg c t p ls : cfg (reachc c t p ls) = c.
Proof. unfold reachc. rewrite cfg_run. reflexivity. Qed.

Definition menu_consistent_at (s : state) : Prop :=
  forall cs, cst s = Some cs -> ntp cs = Some (text s, cur s).

Definition cancel_restores_at (s : state) : Prop :=
  forall cs, cst s = Some cs ->
    snd (step s Cancel) = 0 /\ cst (apply s Cancel) = None /\
    text (apply s Cancel) = dtext (cs_orig cs) /\ cur (apply s Cancel) = dcur (cs_orig cs).

Lemma Inv_fixed_menu s cs : Inv s -> fx (cfg s) = true -> cst s = Some cs ->
  idx_ok cs /\ ntp cs = Some (text s, cur s).
Proof.
  intros (_ & _ & _ & K) Hf Hc. destruct (K cs Hc) as (_ & [D|(D & _)]); [exact D|congruence].
Qed.

Lemma menu_consistent_fixed c t p ls : 0 <= p <= len t -> fx c = true ->
  menu_consistent_at (reachc c t p ls).
Proof.
  intros H Hf cs Hc. apply (Inv_fixed_menu (reachc c t p ls)); auto using reachc_Inv.
  rewrite reachc_cfg. exact Hf.
Qed.

Lemma menu_consistent_ascoded c t p ls : 0 <= p <= len t ->
  forall cs, cst (reachc c t p ls) = Some cs ->
    ntp cs = Some (text (reachc c t p ls), cur (reachc c t p ls)) \/ (fx c = false /\ broken cs).
Proof.
  intros H cs Hc. destruct (reachc_Inv c t p ls H) as (_ & _ & _ & K).
  destruct (K cs Hc) as (_ & [(_ & D)|D]); [left; exact D|right]. rewrite reachc_cfg in D. exact D.
Qed.

Definition w_cfg : config := mkcfg false false false false 10000 false.
Definition w_labels : list label :=
  [StartCompletion 0; Tick; CYield 0 [97; 98] (-2); CompleteNext 1 false; CEnd 0].

Lemma menu_consistent_refuted :
  exists c t p ls, 0 <= p <= len t /\ fx c = false /\ ~ menu_consistent_at (reachc c t p ls).
Proof.
  exists w_cfg, [97; 98], 2, w_labels. split; [unfold len; cbn; lia|]. split; [reflexivity|].
  intros H.
  assert (E : exists cs, cst (reachc w_cfg [97; 98] 2 w_labels) = Some cs /\ ntp cs = None).
  { vm_compute. eexists. split; reflexivity. }
  destruct E as (cs & E1 & E2). specialize (H cs E1). congruence.
Qed.

Lemma cancel_fixed c t p ls : 0 <= p <= len t -> fx c = true -> cancel_restores_at (reachc c t p ls).
Proof.
  intros H Hf cs Hc. pose proof (reachc_Inv c t p ls H) as HI.
  destruct (Inv_fixed_menu _ cs HI) as (_ & N); [rewrite reachc_cfg; exact Hf|exact Hc|].
  destruct (cancel_menu _ cs HI Hc (ntp_some_not_broken _ _ N)) as (s' & Hs & _ & A & B & C).
  unfold apply. rewrite Hs. cbn [fst snd]. auto.
Qed.

Lemma cancel_ascoded c t p ls : 0 <= p <= len t ->
  forall cs, cst (reachc c t p ls) = Some cs -> ~ broken cs ->
    snd (step (reachc c t p ls) Cancel) = 0 /\ cst (apply (reachc c t p ls) Cancel) = None /\
    text (apply (reachc c t p ls) Cancel) = dtext (cs_orig cs) /\
    cur (apply (reachc c t p ls) Cancel) = dcur (cs_orig cs).
Proof.
  intros H cs Hc Hb. pose proof (reachc_Inv c t p ls H) as HI.
  destruct (cancel_menu _ cs HI Hc Hb) as (s' & Hs & _ & A & B & C).
  unfold apply. rewrite Hs. cbn [fst snd]. auto.
Qed.

Lemma cancel_refuted :
  exists c t p ls, 0 <= p <= len t /\ fx c = false /\
    (exists cs, cst (reachc c t p ls) = Some cs) /\ snd (step (reachc c t p ls) Cancel) = 2.
Proof.
  exists w_cfg, [97; 98], 2, w_labels. split; [unfold len; cbn; lia|]. split; [reflexivity|].
  split; [vm_compute; eexists; reflexivity|vm_compute; reflexivity].
Qed.

Lemma completions_fresh c t p ls : 0 <= p <= len t ->
  forall cs, cst (reachc c t p ls) = Some cs ->
    Forall (fresh (cs_orig cs) (cs_shift cs)) (cs_comps cs) /\
    (cs_idx cs = None -> cs_orig cs = cur_doc (reachc c t p ls)).
Proof.
  intros H cs Hc. destruct (reachc_Inv c t p ls H) as (_ & _ & _ & K).
  destruct (K cs Hc) as ((_ & _ & F & _) & D). split; [exact F|].
  intros Hi. destruct D as [(_ & D)|(_ & _ & D)]; [|congruence].
  rewrite (ntp_none_idx cs Hi) in D. inversion D as [[D1 D2]]. unfold cur_doc. rewrite <- D1, <- D2.
  destruct (cs_orig cs); reflexivity.
Qed.

Lemma verdict_fresh c t p ls : 0 <= p <= len t ->
  vst (reachc c t p ls) <> 0 ->
  exists d, vsrc (reachc c t p ls) = Some d /\ dtext d = text (reachc c t p ls).
Proof. intros H. destruct (reachc_Inv c t p ls H) as ((_ & V & _) & _). exact V. Qed.

Lemma suggestion_fresh c t p ls : 0 <= p <= len t ->
  forall sg d, sug (reachc c t p ls) = Some (sg, d) -> dtext d = text (reachc c t p ls).
Proof. intros H. destruct (reachc_Inv c t p ls H) as ((_ & _ & S) & _). exact S. Qed.

Lemma single_flight c t p ls : 0 <= p <= len t ->
  (length (ccos (reachc c t p ls)) <= 1)%nat /\
  (length (vcos (reachc c t p ls)) <= 1)%nat /\
  (length (scos (reachc c t p ls)) <= 1)%nat /\
  (crun (reachc c t p ls) = false -> ccos (reachc c t p ls) = []) /\
  (vrun (reachc c t p ls) = false -> vcos (reachc c t p ls) = []) /\
  (srun (reachc c t p ls) = false -> scos (reachc c t p ls) = []).
Proof.
  intros H. destruct (reachc_Inv c t p ls H) as (_ & (A & B & C) & _).
  set (s := reachc c t p ls) in *.
  repeat split.
  - rewrite A; destruct (crun s); lia.
  - rewrite B; destruct (vrun s); lia.
  - rewrite C; destruct (srun s); lia.
  - intros E. rewrite E in A. apply length0; auto.
  - intros E. rewrite E in B. apply length0; auto.
  - intros E. rewrite E in C. apply length0; auto.
Qed.

(* cycling *)
Lemma cycle_next c t p ls cs (k : nat) : 0 <= p <= len t ->
  cst (reachc c t p ls) = Some cs -> cs_idx cs = None -> Z.of_nat k < len (cs_comps cs) ->
  let s' := run (reachc c t p ls) (repeat (CompleteNext 1 false) (S k)) in
  cst s' = Some (cs_with_idx cs (Some (Z.of_nat k))) /\
  ntp (cs_with_idx cs (Some (Z.of_nat k))) = Some (text s', cur s').
Proof.
  intros H Hc Hi Hk. pose proof (reachc_Inv c t p ls H) as HI.
  assert (M : menu (reachc c t p ls) cs).
  { split; [exact Hc|]. split; [unfold idx_ok; rewrite Hi; exact Logic.I|lia]. }
  destruct (next_visits _ cs k HI M Hi Hk) as (_ & (A & _) & B). split; auto.
Qed.

Lemma cycle_next_wraps c t p ls cs : 0 <= p <= len t ->
  cst (reachc c t p ls) = Some cs -> cs_idx cs = None -> 1 <= len (cs_comps cs) ->
  let s' := run (reachc c t p ls) (repeat (CompleteNext 1 false) (S (Z.to_nat (len (cs_comps cs))))) in
  cst s' = Some cs /\ text s' = dtext (cs_orig cs) /\ cur s' = dcur (cs_orig cs).
Proof.
  intros H Hc Hi Hn. pose proof (reachc_Inv c t p ls H) as HI.
  assert (M : menu (reachc c t p ls) cs).
  { split; [exact Hc|]. split; [unfold idx_ok; rewrite Hi; exact Logic.I|lia]. }
  destruct (next_wraps _ cs HI M Hi) as (_ & (A & _) & B). split; auto.
Qed.

Lemma cycle_prev c t p ls cs (k : nat) : 0 <= p <= len t ->
  cst (reachc c t p ls) = Some cs -> cs_idx cs = None -> Z.of_nat k < len (cs_comps cs) ->
  let s' := run (reachc c t p ls) (repeat (CompletePrev 1 false) (S k)) in
  cst s' = Some (cs_with_idx cs (Some (len (cs_comps cs) - 1 - Z.of_nat k))) /\
  ntp (cs_with_idx cs (Some (len (cs_comps cs) - 1 - Z.of_nat k))) = Some (text s', cur s').
Proof.
  intros H Hc Hi Hk. pose proof (reachc_Inv c t p ls H) as HI.
  assert (M : menu (reachc c t p ls) cs).
  { split; [exact Hc|]. split; [unfold idx_ok; rewrite Hi; exact Logic.I|lia]. }
  destruct (prev_visits _ cs k HI M Hi Hk) as (_ & (A & _) & B). split; auto.
Qed.

Lemma cs_with_idx_self cs : cs_with_idx cs (cs_idx cs) = cs.
Proof. destruct cs; reflexivity. Qed.

(* previous undoes next and next undoes previous, from any selection *)
Lemma next_prev_inverse c t p ls cs : 0 <= p <= len t ->
  cst (reachc c t p ls) = Some cs -> idx_ok cs -> 1 <= len (cs_comps cs) ->
  let s1 := run (reachc c t p ls) [CompleteNext 1 false; CompletePrev 1 false] in
  let s2 := run (reachc c t p ls) [CompletePrev 1 false; CompleteNext 1 false] in
  (cst s1 = Some cs /\ ntp cs = Some (text s1, cur s1)) /\
  (cst s2 = Some cs /\ ntp cs = Some (text s2, cur s2)).
Proof.
  intros H Hc Hok Hn. pose proof (reachc_Inv c t p ls H) as HI.
  set (s := reachc c t p ls) in *.
  assert (M : menu s cs) by (split; [exact Hc|split; auto]).
  assert (Hi : match cs_idx cs with None => True | Some j => 0 <= j < len (cs_comps cs) end) by exact Hok.
  destruct (prev_next_idx (len (cs_comps cs)) (cs_idx cs) Hn Hi) as (P1 & P2).
  cbn [run fold_left]. split.
  - destruct (complete_next_menu s cs HI M) as (sa & Hs & HIa & Ma & _).
    rewrite (apply_step _ _ _ _ Hs).
    destruct (complete_prev_menu sa _ HIa Ma) as (sb & Hsb & _ & (Mb & _) & Nb).
    rewrite (apply_step _ _ _ _ Hsb). simp. rewrite cs_with_idx_idem in *. rewrite P1 in *.
    rewrite cs_with_idx_self in *. auto.
  - destruct (complete_prev_menu s cs HI M) as (sa & Hs & HIa & Ma & _).
    rewrite (apply_step _ _ _ _ Hs).
    destruct (complete_next_menu sa _ HIa Ma) as (sb & Hsb & _ & (Mb & _) & Nb).
    rewrite (apply_step _ _ _ _ Hsb). simp. rewrite cs_with_idx_idem in *. rewrite P2 in *.
    rewrite cs_with_idx_self in *. auto.
Qed.

(* --- the code as it is now, and the pinned snapshot ------------------------- *)
Lemma menu_consistent c t p ls : 0 <= p <= len t -> menu_consistent_at (reach c t p ls).
Proof. intros H. apply menu_consistent_fixed; [exact H|reflexivity]. Qed.

Lemma cancel_restores c t p ls : 0 <= p <= len t -> cancel_restores_at (reach c t p ls).
Proof. intros H. apply cancel_fixed; [exact H|reflexivity]. Qed.

Lemma menu_consistent_pinned_partial c t p ls : 0 <= p <= len t ->
  forall cs, cst (reach_pinned c t p ls) = Some cs ->
    ntp cs = Some (text (reach_pinned c t p ls), cur (reach_pinned c t p ls)) \/ broken cs.
Proof.
  intros H cs Hc. destruct (menu_consistent_ascoded (pinned c) t p ls H cs Hc) as [A|(_ & A)]; auto.
Qed.

Lemma menu_consistent_pinned_refuted :
  exists c t p ls, 0 <= p <= len t /\ ~ menu_consistent_at (reach_pinned c t p ls).
Proof.
  destruct menu_consistent_refuted as (c & t & p & ls & H & Hf & N).
  exists c, t, p, ls. split; [exact H|]. unfold reach_pinned.
  replace (pinned c) with c; [exact N|]. destruct c; cbn in *. subst. reflexivity.
Qed.

Lemma cancel_pinned_partial c t p ls : 0 <= p <= len t ->
  forall cs, cst (reach_pinned c t p ls) = Some cs -> ~ broken cs ->
    snd (step (reach_pinned c t p ls) Cancel) = 0 /\ cst (apply (reach_pinned c t p ls) Cancel) = None /\
    text (apply (reach_pinned c t p ls) Cancel) = dtext (cs_orig cs) /\
    cur (apply (reach_pinned c t p ls) Cancel) = dcur (cs_orig cs).
Proof. intros H. apply cancel_ascoded. exact H. Qed.

Lemma cancel_pinned_refuted :
  exists c t p ls, 0 <= p <= len t /\
    (exists cs, cst (reach_pinned c t p ls) = Some cs) /\ snd (step (reach_pinned c t p ls) Cancel) = 2.
Proof.
  destruct cancel_refuted as (c & t & p & ls & H & Hf & A & B).
  exists c, t, p, ls. split; [exact H|]. unfold reach_pinned.
  replace (pinned c) with c; [split; [exact A|exact B]|]. destruct c; cbn in *. subst. reflexivity.
Qed.
