(* C09 - exact effect of Document.cut_selection for CHARACTERS selections:
   the emacs region commands (C-w / C-x r k / M-w with a mark) and the Vi
   visual-mode operators (v ... d / y / x / reg-d / reg-y), named registers. *)
From Coq Require Import ZArith List Bool Lia PeanoNat.
From PTK Require Import Lib.Sx Lib.Py Model.Document Model.BufferEdit Proofs.BufferEditFacts
  Model.C09_Kill Proofs.C09_Ring Proofs.C09_KillFacts Proofs.C09_YankFacts.
Import ListNotations.
Open Scope Z_scope.

Lemma slice2_clamped {T} (s : list T) a hi :
  0 <= a <= len s -> a <= hi ->
  slice2 s a hi = firstn (Z.to_nat (Z.min hi (len s) - a)) (skipn (Z.to_nat a) s).
Proof.
  intros Ha Hh. unfold slice2, slice, adj_index.
  destruct (a <? 0) eqn:E1; [lia|]. destruct (hi <? 0) eqn:E2; [lia|].
  rewrite (Z.min_l a) by lia.
  destruct (a <? Z.min hi (len s)) eqn:E3; [reflexivity|].
  replace (Z.to_nat (Z.min hi (len s) - a)) with O by lia. reflexivity.
Qed.

Lemma slice_from_clamped {T} (s : list T) a :
  0 <= a -> slice_from s a = skipn (Z.to_nat (Z.min a (len s))) s.
Proof.
  intros Ha. pose proof (len_nonneg s).
  destruct (Z.le_gt_cases a (len s)).
  - rewrite Z.min_l by lia. apply slice_from_in_range; lia.
  - rewrite Z.min_r by lia. rewrite slice_from_over by lia.
    unfold len. rewrite Nat2Z.id. now rewrite skipn_all.
Qed.

(* the span of a CHARACTERS selection: [min, max) in emacs mode, [min, max] in Vi mode *)
Definition sel_lo (cur orig : Z) : Z := Z.min cur orig.
Definition sel_hi (cur orig : Z) (vi : bool) (n : Z) : Z :=
  Z.min (Z.max cur orig + (if vi then 1 else 0)) n.

Lemma cut_chars t cur orig vi :
  0 <= cur <= len t -> 0 <= orig <= len t ->
  let a := sel_lo cur orig in
  let b := sel_hi cur orig vi (len t) in
  doc_cut_selection (mkdoc t cur) (orig, CHARACTERS) vi =
  (Some (firstn (Z.to_nat a) t ++ skipn (Z.to_nat b) t, a),
   mkclip (firstn (Z.to_nat (b - a)) (skipn (Z.to_nat a) t)) CHARACTERS).
Proof.
  intros Hc Ho a b. unfold doc_cut_selection, selection_ranges. cbn [dcur dtext fst snd].
  change (CHARACTERS =? BLOCK) with false. change (CHARACTERS =? LINES) with false.
  cbv iota. cbn [cut_loop andb app].
  change (0 =? 0) with true. cbv iota.
  fold (sel_lo cur orig). fold a.
  set (hi := Z.max cur orig + (if vi then 1 else 0)).
  assert (Ha : 0 <= a <= len t) by (unfold a, sel_lo; lia).
  assert (Hhi : a <= hi) by (unfold a, sel_lo, hi; destruct vi; lia).
  assert (Hb : b = Z.min hi (len t)) by reflexivity.
  rewrite (slice2_in_range t 0 a) by lia.
  rewrite Z.sub_0_r. cbn [Z.to_nat skipn].
  rewrite (slice2_clamped t a hi Ha Hhi), <- Hb.
  rewrite slice_from_clamped by lia. rewrite <- Hb.
  cbn [join]. unfold mk_document.
  assert (Hlen : a <= len (firstn (Z.to_nat a) t ++ skipn (Z.to_nat b) t)).
  { rewrite len_app, len_firstn. pose proof (len_nonneg (skipn (Z.to_nat b) t)). lia. }
  destruct (_ <? a) eqn:E; [lia|]. reflexivity.
Qed.

(* ---------------------------------------------------------------------- *)
(* emacs: kill-region (C-w / C-x r k with a mark) is an exact kill of the
   region [min(mark, point), max(mark, point)); copy-region (M-w) stores the
   same text and leaves the buffer alone *)
Lemma region_cut_exact s m :
  Inv (sb s) -> svi s = false -> ssel s = Some (m, CHARACTERS) -> 0 <= m <= len (btext (sb s)) ->
  killed (bcur (sb s) <=? m) s (region_cmd s true) (fun x => x)
  /\ ssel (snd (region_cmd s true)) = None.
Proof.
  intros [H0 H1] Hvi Hsel Hm. unfold region_cmd, copy_selection, cur_doc, bdoc.
  rewrite Hsel, Hvi. rewrite cut_chars by lia.
  set (a := sel_lo (bcur (sb s)) m). set (b := sel_hi (bcur (sb s)) m false (len (btext (sb s)))).
  assert (Ha : a = Z.min (bcur (sb s)) m) by reflexivity.
  assert (Hb : b = Z.max (bcur (sb s)) m) by (unfold b, sel_hi; lia).
  change (0 =? 0) with true. cbv iota.
  destruct (split3 (btext (sb s)) a (b - a)) as [Ht [Hl1 Hl2]]; try lia.
  replace (a + (b - a)) with b in Ht by lia.
  split; [|reflexivity].
  eexists _, _, _. split; [exact Ht|].
  cbn [ok fst snd with_ring with_sel set_doc upd with_buf sb sring btext bcur].
  split; [reflexivity|]. split; [reflexivity|]. split; [rewrite Hl1; lia|]. split.
  - destruct (bcur (sb s) <=? m) eqn:E; rewrite Hl1, ?Hl2; lia.
  - reflexivity.
Qed.

Lemma region_copy_exact s m :
  Inv (sb s) -> svi s = false -> ssel s = Some (m, CHARACTERS) -> 0 <= m <= len (btext (sb s)) ->
  exists s', region_cmd s false = (0, s') /\ sb s' = sb s /\ ssel s' = None /\
    sring s' = ring_set (sring s)
      (mkclip (firstn (Z.to_nat (sel_hi (bcur (sb s)) m false (len (btext (sb s))) - sel_lo (bcur (sb s)) m))
                      (skipn (Z.to_nat (sel_lo (bcur (sb s)) m)) (btext (sb s)))) CHARACTERS).
Proof.
  intros [H0 H1] Hvi Hsel Hm. unfold region_cmd, copy_selection, cur_doc, bdoc.
  rewrite Hsel, Hvi. rewrite cut_chars by lia.
  change (0 =? 0) with true. cbv iota.
  eexists. split; [reflexivity|].
  cbn [with_ring with_sel sb sring ssel]. repeat split.
Qed.

(* ---------------------------------------------------------------------- *)
(* Vi visual mode (v): what TextObject.cut (d / y / reg-d / reg-y) and
   Buffer.cut_selection (x) produce for a CHARACTERS selection: exactly the
   characters min .. max inclusive, type CHARACTERS, and the text without them *)
Lemma visual_chars_tobj_cut t cur orig :
  0 <= cur <= len t -> 0 <= orig <= len t ->
  let a := sel_lo cur orig in
  let b := sel_hi cur orig true (len t) in
  tobj_cut (mkdoc t cur) (orig - cur) 0 INCLUSIVE =
  Some (Some (firstn (Z.to_nat a) t ++ skipn (Z.to_nat b) t, a),
        mkclip (firstn (Z.to_nat (b - a)) (skipn (Z.to_nat a) t)) CHARACTERS).
Proof.
  intros Hc Ho a b. unfold tobj_cut, operator_range. cbn [dcur dtext].
  change (INCLUSIVE =? EXCLUSIVE) with false. change (INCLUSIVE =? INCLUSIVE) with true.
  change (INCLUSIVE =? LINEWISE) with false. change (INCLUSIVE =? TBLOCK) with false.
  cbn [andb orb negb]. change (tobj_selection_type INCLUSIVE) with CHARACTERS.
  destruct (orig - cur <? 0) eqn:Es.
  - destruct (0 + 1 <=? orig - cur) eqn:E0; [lia|].
    destruct (len t <? 0 + 1 + cur - 1) eqn:El; [lia|].
    replace (0 + 1 + cur - 1) with cur by lia. replace (orig - cur + cur) with orig by lia.
    rewrite (cut_chars t cur orig true) by lia.
    unfold a, b, sel_lo, sel_hi. repeat f_equal; lia.
  - destruct (orig - cur + 1 <=? 0) eqn:E0; [lia|].
    destruct (len t <? orig - cur + 1 + cur - 1) eqn:El; [lia|].
    replace (orig - cur + 1 + cur - 1) with orig by lia. replace (0 + cur) with cur by lia.
    rewrite (cut_chars t orig cur true) by lia.
    unfold a, b, sel_lo, sel_hi. rewrite (Z.min_comm orig cur), (Z.max_comm orig cur). reflexivity.
Qed.

Lemma reg_get_set l k v : reg_get (reg_set l k v) k = Some v.
Proof.
  induction l as [|[k0 v0] l IH]; cbn [reg_set reg_get].
  - now rewrite Z.eqb_refl.
  - destruct (k <? k0) eqn:E1.
    + cbn [reg_get]. now rewrite Z.eqb_refl.
    + destruct (k =? k0) eqn:E2.
      * cbn [reg_get]. now rewrite Z.eqb_refl.
      * cbn [reg_get]. rewrite E2. exact IH.
Qed.

Lemma reg_get_set_other l k k' v : k' <> k -> reg_get (reg_set l k v) k' = reg_get l k'.
Proof.
  intros Hne. induction l as [|[k0 v0] l IH]; cbn [reg_set reg_get].
  - destruct (k' =? k) eqn:E; [lia|reflexivity].
  - destruct (k <? k0) eqn:E1.
    + cbn [reg_get]. destruct (k' =? k) eqn:E; [lia|reflexivity].
    + destruct (k =? k0) eqn:E2.
      * cbn [reg_get]. destruct (k' =? k) eqn:E; [lia|].
        destruct (k' =? k0) eqn:E3; [lia|reflexivity].
      * cbn [reg_get]. destruct (k' =? k0); [reflexivity|exact IH].
Qed.

Definition selected_chars (s : st) (orig : Z) : str :=
  let t := btext (sb s) in let cur := bcur (sb s) in
  firstn (Z.to_nat (sel_hi cur orig true (len t) - sel_lo cur orig)) (skipn (Z.to_nat (sel_lo cur orig)) t).

(* reg-y in visual mode: the named register (and nothing else) receives exactly
   the selected characters; the unnamed register and the text are untouched *)
Lemma visual_register_yank s orig r :
  Inv (sb s) -> 0 <= orig <= len (btext (sb s)) -> is_register_name r = true ->
  selected_chars s orig <> [] ->
  exists s', vi_visual s (orig, CHARACTERS) 4 r = (0, s') /\
    sb s' = sb s /\ sring s' = sring s /\ ssel s' = None /\
    reg_get (sregs s') r = Some (mkclip (selected_chars s orig) CHARACTERS) /\
    (forall r', r' <> r -> reg_get (sregs s') r' = reg_get (sregs s) r').
Proof.
  intros [H0 H1] Ho Hr Hne. unfold vi_visual. cbn [fst snd].
  change (4 =? 2) with false. change (CHARACTERS =? LINES) with false.
  change (CHARACTERS =? BLOCK) with false. cbv iota.
  unfold cur_doc, bdoc. cbn [with_sel sb dcur dtext].
  rewrite visual_chars_tobj_cut by lia.
  change ((4 =? 0) || (4 =? 3)) with false. change (4 =? 1) with false. cbv iota.
  rewrite Hr. cbn [ctext].
  fold (selected_chars s orig).
  destruct (selected_chars s orig) as [|c0 sc] eqn:Es; [congruence|].
  eexists. split; [reflexivity|].
  cbn [with_sel with_regs sb sring ssel sregs]. repeat split.
  - apply reg_get_set.
  - intros r' Hne'. now apply reg_get_set_other.
Qed.

(* reg-d in visual mode: the register receives the selected characters and exactly
   they are removed from the text *)
Lemma visual_register_delete s orig r :
  Inv (sb s) -> 0 <= orig <= len (btext (sb s)) -> is_register_name r = true ->
  selected_chars s orig <> [] ->
  exists s', vi_visual s (orig, CHARACTERS) 3 r = (0, s') /\
    btext (sb s') = firstn (Z.to_nat (sel_lo (bcur (sb s)) orig)) (btext (sb s))
                    ++ skipn (Z.to_nat (sel_hi (bcur (sb s)) orig true (len (btext (sb s))))) (btext (sb s)) /\
    sring s' = sring s /\
    reg_get (sregs s') r = Some (mkclip (selected_chars s orig) CHARACTERS).
Proof.
  intros [H0 H1] Ho Hr Hne. unfold vi_visual. cbn [fst snd].
  change (3 =? 2) with false. change (CHARACTERS =? LINES) with false.
  change (CHARACTERS =? BLOCK) with false. cbv iota.
  unfold cur_doc, bdoc. cbn [with_sel sb dcur dtext].
  rewrite visual_chars_tobj_cut by lia.
  change ((3 =? 0) || (3 =? 3)) with true. cbv iota. change (3 =? 3) with true. cbv iota.
  rewrite Hr. cbn [ctext].
  fold (selected_chars s orig).
  destruct (selected_chars s orig) as [|c0 sc] eqn:Es; [congruence|].
  eexists. split; [reflexivity|].
  cbn [with_sel with_regs set_doc upd with_buf sb sring ssel sregs btext]. repeat split.
  apply reg_get_set.
Qed.

(* d / y / x into the unnamed register *)
Lemma visual_unnamed s orig key :
  Inv (sb s) -> svi s = true -> 0 <= orig <= len (btext (sb s)) -> key = 0 \/ key = 1 \/ key = 2 ->
  selected_chars s orig <> [] ->
  exists s', vi_visual s (orig, CHARACTERS) key 0 = (0, s') /\
    ring_get (sring s') = mkclip (selected_chars s orig) CHARACTERS /\
    sregs s' = sregs s /\
    btext (sb s') =
      if key =? 1 then btext (sb s)
      else firstn (Z.to_nat (sel_lo (bcur (sb s)) orig)) (btext (sb s))
           ++ skipn (Z.to_nat (sel_hi (bcur (sb s)) orig true (len (btext (sb s))))) (btext (sb s)).
Proof.
  intros [H0 H1] Hvi Ho Hk Hne. unfold vi_visual. cbn [fst snd].
  change (CHARACTERS =? LINES) with false. change (CHARACTERS =? BLOCK) with false.
  unfold copy_selection, cur_doc, bdoc. cbn [with_sel sb dcur dtext svi].
  destruct Hk as [->|[->| ->]].
  - change (0 =? 2) with false. cbv iota. rewrite visual_chars_tobj_cut by lia.
    change ((0 =? 0) || (0 =? 3)) with true. change (0 =? 3) with false. cbv iota. cbn [ctext].
    fold (selected_chars s orig).
    destruct (selected_chars s orig) as [|c0 sc] eqn:Es; [congruence|].
    eexists. split; [reflexivity|].
    cbn [with_sel with_ring set_doc upd with_buf sb sring sregs btext]. repeat split.
  - change (1 =? 2) with false. cbv iota. rewrite visual_chars_tobj_cut by lia.
    change ((1 =? 0) || (1 =? 3)) with false. change (1 =? 1) with true. cbv iota. cbn [ctext].
    fold (selected_chars s orig).
    destruct (selected_chars s orig) as [|c0 sc] eqn:Es; [congruence|].
    eexists. split; [reflexivity|].
    cbn [with_sel with_ring sb sring sregs btext]. repeat split.
  - change (2 =? 2) with true. cbv iota.
    (* x: Buffer.cut_selection with vi_mode() *)
    rewrite Hvi. rewrite cut_chars by lia.
    change (0 =? 0) with true. cbv iota.
    eexists. split; [reflexivity|].
    cbn [with_sel with_ring set_doc upd with_buf sb sring sregs btext]. repeat split.
Qed.

(* ---------------------------------------------------------------------- *)
(* The repaired kill-word (Model/C09_KillPatched.v): the accumulation theorem
   without the hole of finding C09-F1. *)
From PTK Require Import Model.C09_KillPatched.

Lemma kill_word_patched_exact s arg rep pk :
  Inv (sb s) ->
  (kill_word_patched s arg rep pk = (ok s, false)) \/
  (snd (kill_word_patched s arg rep pk) = true /\
   killed true s (fst (kill_word_patched s arg rep pk))
          (fun del => if rep && pk then ctext (ring_get (sring s)) ++ del else del)).
Proof.
  intros Hi. unfold kill_word_patched.
  destruct (find_next_word_ending (bdoc (sb s)) arg) as [pos|]; [|now left].
  destruct (pos =? 0); [now left|]. right. cbn [fst snd]. split; [reflexivity|].
  apply kill_with_fwd. exact Hi.
Qed.

(* the memory is true exactly when the call killed: so whenever a later call
   continues a kill, the ring head IS the text of the previous kill *)
Lemma kill_word_patched_memory s arg rep pk :
  snd (kill_word_patched s arg rep pk) = false -> fst (kill_word_patched s arg rep pk) = ok s.
Proof.
  unfold kill_word_patched.
  destruct (find_next_word_ending (bdoc (sb s)) arg) as [pos|]; [|reflexivity].
  destruct (pos =? 0); [reflexivity|discriminate].
Qed.

(* any sequence "call 1, call 2 (a repeat)" followed by a yank restores the text
   from before call 1 - whether or not call 1 killed anything *)
Lemma kill_word_patched_two_calls_restore s a1 r1 p1 a2 :
  Inv (sb s) -> r1 && p1 = false ->
  let c1 := kill_word_patched s a1 r1 p1 in
  let c2 := kill_word_patched (snd (fst c1)) a2 true (snd c1) in
  fst (fst c1) = 0 /\ fst (fst c2) = 0 /\
  (sring (snd (fst c2)) = sring s (* nothing was killed at all *) \/
   exists s3, yank (snd (fst c2)) 1 = (0, s3) /\ btext (sb s3) = btext (sb s)).
Proof.
  intros Hi Hrp c1 c2.
  destruct (kill_word_patched_exact s a1 r1 p1 Hi) as [E1|[M1 K1]].
  - (* call 1 killed nothing: call 2 does not accumulate *)
    unfold c2, c1. rewrite E1. cbn [fst snd ok].
    destruct (kill_word_patched_exact s a2 true false Hi) as [E2|[M2 K2]].
    + rewrite E2. cbn [fst snd ok]. repeat split. now left.
    + split; [reflexivity|]. cbn [andb] in K2.
      destruct K2 as (pre & rem & post & Ht & Hc & Rest).
      split; [exact Hc|]. right.
      destruct (kill_then_yank_restores true s (fst (kill_word_patched s a2 true false))) as [s3 [Hy [Ht3 _]]].
      { exists pre, rem, post. split; [exact Ht|]. split; [exact Hc|exact Rest]. }
      exists s3. split; assumption.
  - (* call 1 killed *)
    rewrite Hrp in K1.
    assert (K1' : killed true s (fst c1) (fun x => x)) by exact K1.
    assert (Hc1 : fst (fst c1) = 0) by (destruct K1' as (? & ? & ? & _ & H & _); exact H).
    assert (Hi1 : Inv (sb (snd (fst c1)))).
    { destruct K1' as (pre & rem & post & _ & _ & Ht1 & Hcur & _).
      unfold Inv. rewrite Ht1, Hcur, len_app. pose proof (len_nonneg pre). pose proof (len_nonneg post). lia. }
    unfold c2. replace (snd c1) with true by (symmetry; exact M1).
    destruct (kill_word_patched_exact (snd (fst c1)) a2 true true Hi1) as [E2|[M2 K2]].
    + rewrite E2. cbn [fst snd ok]. split; [exact Hc1|]. split; [reflexivity|]. right.
      destruct (kill_then_yank_restores true s (fst c1) K1') as [s3 [Hy [Ht3 _]]].
      exists s3. split; assumption.
    + cbn [andb] in K2. split; [exact Hc1|].
      split; [destruct K2 as (? & ? & ? & _ & H & _); exact H|]. right.
      destruct (two_forward_kills_then_yank s (fst c1) (fst (kill_word_patched (snd (fst c1)) a2 true true)) K1' K2)
        as [_ [s3 [Hy Ht3]]].
      exists s3. split; assumption.
Qed.
