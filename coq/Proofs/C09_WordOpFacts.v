(* C09 round 7 - the word motions under an operator (e b B w W) against C02's
   exactness theorems: the model's motion_obj uses C02's scanners
   (Model/C02_DocQueries.v), so the target of the motion is exactly the n-th word
   end / word start that C02 characterises ([enumerates], [pick], [word_start],
   [word_end] are C02's), and d / y / c + e store exactly text[cursor : j). *)
From Coq Require Import ZArith List Bool Lia PeanoNat.
From PTK Require Import Lib.Sx Lib.Py Model.Document Model.BufferEdit Proofs.BufferEditFacts
  Proofs.C02_Base
  Model.C09_Kill Proofs.C09_Ring Proofs.C09_KillFacts Proofs.C09_YankFacts Proofs.C09_CutFacts
  Proofs.C09_StepFacts Proofs.C09_OpFacts.
From PTK Require Model.C02_DocQueries Proofs.C02_Words Proofs.C02_WordsExact.
Import ListNotations.
Open Scope Z_scope.

Notation enumerates := C02_WordsExact.enumerates.
Notation pick := C02_WordsExact.pick.
Notation word_start := C02_WordsExact.word_start.
Notation word_end := C02_WordsExact.word_end.
Notation word_cls := C02_DocQueries.word_cls.

Lemma enumerates_in P l n j : enumerates P l -> pick l n = Some j -> P j.
Proof.
  intros [_ H] Hp. apply H. unfold C02_WordsExact.pick in Hp.
  destruct (n <? 1); [discriminate|]. eapply nth_error_In; exact Hp.
Qed.

(* e: the n-th word end beyond cursor + 1, inclusive object ending on its last character *)
Lemma motion_e_exact d n l :
  valid d -> 1 <= n ->
  enumerates (fun j => dcur d + 1 < j /\ word_end (word_cls false) (dtext d) j) l ->
  motion_obj d 5 n = match pick l n with Some j => Some (j - dcur d - 1, INCLUSIVE) | None => None end.
Proof.
  intros Hv Hn Hl. unfold motion_obj. change (5 =? 0) with false. change (5 =? 1) with false.
  change (5 =? 2) with false. change (5 =? 3) with false. change (5 =? 4) with false.
  change (5 =? 5) with true. cbv iota.
  rewrite (C02_WordsExact.C02x_next_word_ending_exact d false n false Hv Hn l Hl).
  destruct (pick l n) as [j|] eqn:E; cbn [option_map]; [|reflexivity].
  destruct (enumerates_in _ _ _ _ Hl E) as [Hj _].
  destruct (j - dcur d =? 0) eqn:E0; [lia|]. reflexivity.
Qed.

(* b / B: the n-th word / WORD start before the cursor, counting backwards; none: no motion *)
Lemma motion_b_exact d (big : bool) n l :
  valid d -> 1 <= n ->
  enumerates (fun j => j < dcur d /\ word_start (word_cls big) (dtext d) j) l ->
  motion_obj d (if big then 7 else 6) n =
  Some (match pick (rev l) n with Some j => j - dcur d | None => 0 end, EXCLUSIVE).
Proof.
  intros Hv Hn Hl. unfold motion_obj.
  pose proof (C02_WordsExact.C02x_start_of_previous_word_exact d n big Hv Hn l Hl) as E.
  destruct big; cbn [Z.eqb Pos.eqb orb]; rewrite E; destruct (pick (rev l) n); reflexivity.
Qed.

(* w / W: the n-th word / WORD start after the cursor, else the end of the text *)
Lemma motion_w_exact d (big : bool) n l :
  valid d -> 1 <= n ->
  enumerates (fun j => dcur d < j /\ word_start (word_cls big) (dtext d) j) l ->
  motion_obj d (if big then 9 else 8) n =
  Some (match pick l n with Some j => j - dcur d | None => len (dtext d) - dcur d end, EXCLUSIVE).
Proof.
  intros Hv Hn Hl. unfold motion_obj.
  pose proof (C02_WordsExact.C02x_next_word_beginning_exact d n big Hv Hn l Hl) as E.
  destruct big; cbn [Z.eqb Pos.eqb orb]; rewrite E; unfold C02_DocQueries.get_end_of_document_position;
    (destruct (pick l n) as [j|] eqn:Ep; cbn [option_map]; [|reflexivity]);
    destruct (enumerates_in _ _ _ _ Hl Ep) as [Hj _];
    (destruct (j - dcur d =? 0) eqn:E0; [lia|reflexivity]).
Qed.

(* [register] d / y / c + e: the register receives exactly text[cursor : j), j the
   n-th word end beyond cursor + 1 (C02's characterisation); d / c remove exactly it *)
Lemma vi_op_e_span s op reg n l :
  Inv (sb s) -> op = 0 \/ op = 1 \/ op = 2 -> 1 <= n ->
  (op = 1 -> 0 <= reg -> is_register_name reg = true) ->
  enumerates (fun j => bcur (sb s) + 1 < j /\ word_end (word_cls false) (btext (sb s)) j) l ->
  match pick l n with
  | None => vi_op s op reg 5 n = ok s
  | Some j =>
      bcur (sb s) + 1 < j <= len (btext (sb s)) /\
      exists s', vi_op s op reg 5 n = (0, s') /\
        op_stored s s' reg (mkclip (firstn (Z.to_nat (j - bcur (sb s))) (skipn (Z.to_nat (bcur (sb s))) (btext (sb s)))) CHARACTERS) /\
        btext (sb s') = (if op =? 1 then btext (sb s)
                         else firstn (Z.to_nat (bcur (sb s))) (btext (sb s)) ++ skipn (Z.to_nat j) (btext (sb s)))
  end.
Proof.
  intros Hi Hop Hn Hreg Hl.
  assert (Hv : valid (cur_doc s)) by exact Hi.
  pose proof (motion_e_exact (cur_doc s) n l Hv Hn Hl) as Hm.
  destruct (pick l n) as [j|] eqn:Ep.
  2:{ unfold vi_op. rewrite Hm. reflexivity. }
  destruct (enumerates_in _ _ _ _ Hl Ep) as [Hj1 [Hj2 _]]. cbn [cur_doc bdoc dcur dtext] in Hj1, Hj2.
  (* a word end lies inside the text: its predecessor has a class *)
  assert (Hjl : j <= len (btext (sb s))).
  { destruct (Z_le_gt_dec j (len (btext (sb s)))) as [H|H]; [exact H|]. exfalso. apply Hj2.
    apply C02_Words.clsat_high. lia. }
  pose proof Hi as [Hi0 Hi1].
  split; [lia|].
  cbn [cur_doc bdoc dcur] in Hm.
  pose proof (visual_chars_tobj_cut (btext (sb s)) (bcur (sb s)) (j - 1) Hi ltac:(lia)) as Hcut.
  cbv zeta in Hcut. unfold sel_lo, sel_hi in Hcut.
  replace (Z.min (bcur (sb s)) (j - 1)) with (bcur (sb s)) in Hcut by lia.
  replace (Z.min (Z.max (bcur (sb s)) (j - 1) + 1) (len (btext (sb s)))) with j in Hcut by lia.
  replace (j - 1 - bcur (sb s)) with (j - bcur (sb s) - 1) in Hcut by lia.
  destruct (vi_op_stores_cut s op reg 5 n (j - bcur (sb s) - 1) INCLUSIVE _ _ _ Hop Hm eq_refl Hreg Hcut) as (s' & E & St & Tx).
  { cbn [ctext]. apply firstn_nonempty; [lia|]. rewrite len_skipn. destruct Hi. lia. }
  exists s'. split; [exact E|]. split; [exact St|exact Tx].
Qed.
