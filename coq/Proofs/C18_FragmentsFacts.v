(* C18 - facts about split_lines / fragment_list_to_text / fragment_list_len /
   explode_text_fragments (Model/C18_Fragments.v). *)
From Coq Require Import ZArith List Bool Lia.
From PTK Require Import Lib.Sx Lib.Py Model.C18_Fragments.
Import ListNotations.
Open Scope Z_scope.

(* ---------------------------------------------------------------------- *)
(* Specification vocabulary.  A styled character is a character together
   with the style and the tuple tail of the fragment it came from; a newline
   is only a line break ([None]). *)
Definition schar := option (str * list Z * Z).

Definition vs (st : str) (rs : list Z) (s : str) : list schar :=
  map (fun c => if c =? NL then None else Some (st, rs, c)) s.
Definition view (frs : list frag) : list schar :=
  flat_map (fun f => vs (fstyle f) (frest f) (ftext f)) frs.

(* "\n".join(lines), on styled characters *)
Fixpoint join_lines (ls : list (list schar)) : list schar :=
  match ls with
  | [] => []
  | [x] => x
  | x :: r => x ++ None :: join_lines r
  end.

Definition no_newline (f : frag) : Prop := mem_Z NL (ftext f) = false.

(* ---------------------------------------------------------------------- *)
(* str.split on one character *)

Lemma split_on_aux_hd c s : forall cur,
  split_on_aux c s cur = (rev cur ++ hd [] (split_on c s)) :: tl (split_on c s).
Proof.
  unfold split_on. induction s as [|x r IH]; intros cur.
  - cbn. now rewrite app_nil_r.
  - cbn [split_on_aux]. destruct (x =? c) eqn:E.
    + cbn. now rewrite app_nil_r.
    + rewrite (IH (x :: cur)), (IH [x]). cbn [rev hd tl app].
      now rewrite <- app_assoc.
Qed.

Lemma split_on_nil c : split_on c [] = [[]].
Proof. reflexivity. Qed.

Lemma split_on_cons c x r :
  split_on c (x :: r) =
  if x =? c then [] :: split_on c r
  else (x :: hd [] (split_on c r)) :: tl (split_on c r).
Proof.
  unfold split_on at 1. cbn [split_on_aux]. destruct (x =? c) eqn:E.
  - reflexivity.
  - rewrite split_on_aux_hd. reflexivity.
Qed.

Lemma split_on_nonempty c s : exists h t, split_on c s = h :: t.
Proof.
  destruct s as [|x r].
  - now exists [], [].
  - rewrite split_on_cons. destruct (x =? c); eauto.
Qed.

Lemma join_cons2 (sep x y : str) (r : list str) : join sep (x :: y :: r) = x ++ sep ++ join sep (y :: r).
Proof. reflexivity. Qed.

Lemma split_on_join c s : join [c] (split_on c s) = s.
Proof.
  induction s as [|x r IH].
  - reflexivity.
  - rewrite split_on_cons. destruct (split_on_nonempty c r) as (h & t & Hs).
    rewrite Hs in *. destruct (x =? c) eqn:E.
    + apply Z.eqb_eq in E. subst x. rewrite join_cons2, IH. reflexivity.
    + cbn [hd tl]. destruct t as [|p2 t'].
      * cbn [join] in *. now rewrite IH.
      * rewrite join_cons2 in *. rewrite <- IH. reflexivity.
Qed.

Lemma mem_Z_false_cons c x r : mem_Z c (x :: r) = false <-> (x =? c) = false /\ mem_Z c r = false.
Proof. cbn [mem_Z]. rewrite orb_false_iff. tauto. Qed.

Lemma split_on_no_sep c s : Forall (fun p => mem_Z c p = false) (split_on c s).
Proof.
  induction s as [|x r IH].
  - repeat constructor.
  - rewrite split_on_cons. destruct (split_on_nonempty c r) as (h & t & Hs).
    rewrite Hs in *. inversion IH as [|? ? Hh Ht]; subst.
    destruct (x =? c) eqn:E.
    + constructor; [reflexivity | now constructor].
    + cbn [hd tl]. constructor; [|assumption].
      apply mem_Z_false_cons. now split.
Qed.

(* ---------------------------------------------------------------------- *)
(* views *)

Lemma vs_app st rs a b : vs st rs (a ++ b) = vs st rs a ++ vs st rs b.
Proof. unfold vs. apply map_app. Qed.

Lemma view_app a b : view (a ++ b) = view a ++ view b.
Proof. unfold view. apply flat_map_app. Qed.

Lemma view_single st rs s : view [mkfrag st s rs] = vs st rs s.
Proof. unfold view. cbn. now rewrite app_nil_r. Qed.

Definition flat_lines (ys : list (list frag)) : list schar :=
  flat_map (fun y => view y ++ [None]) ys.

Lemma join_lines_cons x r : r <> [] -> join_lines (x :: r) = x ++ None :: join_lines r.
Proof. destruct r; [congruence | reflexivity]. Qed.

Lemma join_lines_app ys zs :
  zs <> [] ->
  join_lines (map view (ys ++ zs)) = flat_lines ys ++ join_lines (map view zs).
Proof.
  intros Hz. induction ys as [|y r IH].
  - reflexivity.
  - cbn [app map]. rewrite join_lines_cons.
    + rewrite IH. unfold flat_lines. cbn [flat_map]. rewrite <- !app_assoc. reflexivity.
    + intros H. apply map_eq_nil in H. apply app_eq_nil in H. now destruct H.
Qed.

Lemma split_parts_cons2 st rs p p2 t line :
  split_parts st rs (p :: p2 :: t) line =
  ((if nonempty p then line ++ [mkfrag st p rs] else line) :: fst (split_parts st rs (p2 :: t) []),
   snd (split_parts st rs (p2 :: t) [])).
Proof. reflexivity. Qed.

(* one fragment *)
Lemma split_parts_view st rs parts : forall line,
  parts <> [] ->
  let R := split_parts st rs parts line in
  flat_lines (fst R) ++ view (snd R) = view line ++ vs st rs (join [NL] parts).
Proof.
  induction parts as [|p ps IH]; intros line Hne; [congruence|].
  destruct ps as [|p2 t].
  - cbn. rewrite view_app, view_single. reflexivity.
  - rewrite split_parts_cons2. cbn zeta. cbn [fst snd].
    specialize (IH [] ltac:(discriminate)). cbn zeta in IH.
    unfold flat_lines in *. cbn [flat_map]. rewrite <- app_assoc.
    rewrite IH.
    change (join [NL] (p :: p2 :: t)) with (p ++ [NL] ++ join [NL] (p2 :: t)).
    rewrite !vs_app.
    assert (Hn : vs st rs [NL] = [None]) by reflexivity. rewrite Hn.
    assert (Hl : view (if nonempty p then line ++ [mkfrag st p rs] else line) = view line ++ vs st rs p).
    { destruct p; cbn [nonempty].
      - cbn. now rewrite app_nil_r.
      - now rewrite view_app, view_single. }
    rewrite Hl. change (view []) with (@nil schar). cbn [app].
    rewrite <- !app_assoc. reflexivity.
Qed.

Lemma split_lines_from_nonempty frs : forall line, split_lines_from frs line <> [].
Proof.
  induction frs as [|f r IH]; intros line; cbn [split_lines_from].
  - discriminate.
  - intros H. apply app_eq_nil in H. destruct H as [_ H]. now apply IH in H.
Qed.

Lemma split_lines_from_view frs : forall line,
  join_lines (map view (split_lines_from frs line)) = view line ++ view frs.
Proof.
  induction frs as [|f r IH]; intros line; cbn [split_lines_from].
  - cbn. now rewrite app_nil_r.
  - rewrite join_lines_app by apply split_lines_from_nonempty.
    rewrite IH. rewrite app_assoc.
    destruct (split_on_nonempty NL (ftext f)) as (h & t & Hs).
    pose proof (split_parts_view (fstyle f) (frest f) (split_on NL (ftext f)) line) as HP.
    rewrite Hs in HP at 1. specialize (HP ltac:(discriminate)). cbn zeta in HP.
    rewrite HP. rewrite split_on_join.
    change (view (f :: r)) with (vs (fstyle f) (frest f) (ftext f) ++ view r).
    now rewrite app_assoc.
Qed.

(* split, then join with newlines: the identity on characters, and every
   character keeps its style and tuple tail *)
Theorem split_lines_join frs : join_lines (map view (split_lines frs)) = view frs.
Proof. unfold split_lines. now rewrite split_lines_from_view. Qed.

(* no line contains a newline *)
Lemma split_parts_no_newline st rs parts : forall line,
  Forall (fun p => mem_Z NL p = false) parts ->
  Forall no_newline line ->
  let R := split_parts st rs parts line in
  Forall (Forall no_newline) (fst R) /\ Forall no_newline (snd R).
Proof.
  induction parts as [|p ps IH]; intros line Hp Hl.
  - cbn. split; [constructor | assumption].
  - inversion Hp as [|? ? Hp1 Hp2]; subst. destruct ps as [|p2 t].
    + cbn. split; [constructor|]. apply Forall_app. split; [assumption|]. now repeat constructor.
    + rewrite split_parts_cons2. cbn zeta. cbn [fst snd].
      destruct (IH [] Hp2 ltac:(constructor)) as [H1 H2]. cbn zeta in H1, H2.
      split; [|assumption]. constructor; [|assumption].
      destruct (nonempty p); [|assumption].
      apply Forall_app. split; [assumption|]. now repeat constructor.
Qed.

Lemma split_lines_from_no_newline frs : forall line,
  Forall no_newline line -> Forall (Forall no_newline) (split_lines_from frs line).
Proof.
  induction frs as [|f r IH]; intros line Hl; cbn [split_lines_from].
  - now repeat constructor.
  - destruct (split_parts_no_newline (fstyle f) (frest f) (split_on NL (ftext f)) line
                (split_on_no_sep NL (ftext f)) Hl) as [H1 H2]. cbn zeta in H1, H2.
    apply Forall_app. split; [assumption | now apply IH].
Qed.

Theorem split_lines_no_newline frs line f :
  In line (split_lines frs) -> In f line -> mem_Z NL (ftext f) = false.
Proof.
  intros H1 H2.
  pose proof (split_lines_from_no_newline frs [] ltac:(constructor)) as H.
  rewrite Forall_forall in H. specialize (H line H1). rewrite Forall_forall in H. exact (H f H2).
Qed.

(* ---------------------------------------------------------------------- *)
(* to_text / len / explode *)

Theorem fragment_list_len_text frs : fragment_list_len frs = len (fragment_list_to_text frs).
Proof.
  induction frs as [|f r IH]; [reflexivity|].
  cbn [fragment_list_len fragment_list_to_text]. rewrite len_app, IH.
  destruct (is_zwe (fstyle f)); reflexivity.
Qed.

Definition single (st : str) (rs : list Z) (c : Z) : frag := mkfrag st [c] rs.

Lemma to_text_singles st rs s rest :
  fragment_list_to_text (map (single st rs) s ++ rest) =
  (if is_zwe st then [] else s) ++ fragment_list_to_text rest.
Proof.
  induction s as [|c r IH]; cbn [map app fragment_list_to_text].
  - now destruct (is_zwe st).
  - rewrite IH. unfold single at 1. cbn [fstyle ftext]. now destruct (is_zwe st).
Qed.

Theorem explode_text frs : fragment_list_to_text (explode frs) = fragment_list_to_text frs.
Proof.
  induction frs as [|f r IH]; [reflexivity|].
  cbn [explode fragment_list_to_text].
  change (fun c => mkfrag (fstyle f) [c] (frest f)) with (single (fstyle f) (frest f)).
  now rewrite to_text_singles, IH.
Qed.

Theorem explode_view frs : view (explode frs) = view frs.
Proof.
  induction frs as [|f r IH]; [reflexivity|].
  cbn [explode]. rewrite view_app, IH.
  change (view (f :: r)) with (vs (fstyle f) (frest f) (ftext f) ++ view r). f_equal.
  induction (ftext f) as [|c s IHs]; [reflexivity|].
  cbn [map]. change (view (?x :: ?l)) with (vs (fstyle x) (frest x) (ftext x) ++ view l).
  cbn [fstyle frest ftext]. rewrite IHs. reflexivity.
Qed.

Theorem explode_single_chars frs f : In f (explode frs) -> exists c, ftext f = [c].
Proof.
  induction frs as [|g r IH]; cbn [explode]; [intros []|].
  intros H. apply in_app_or in H. destruct H as [H|H]; [|now apply IH].
  apply in_map_iff in H. destruct H as (c & <- & _). now exists c.
Qed.

Lemma explode_app a b : explode (a ++ b) = explode a ++ explode b.
Proof.
  induction a as [|f r IH]; [reflexivity|]. cbn [app explode]. now rewrite IH, app_assoc.
Qed.

Lemma explode_singles st rs s : explode (map (single st rs) s) = map (single st rs) s.
Proof.
  induction s as [|c r IH]; [reflexivity|]. cbn [map explode]. rewrite IH. reflexivity.
Qed.

(* "calling this on a list that is already exploded is a null operation" *)
Theorem explode_idempotent frs : explode (explode frs) = explode frs.
Proof.
  induction frs as [|f r IH]; [reflexivity|].
  cbn [explode]. rewrite explode_app, IH.
  change (fun c => mkfrag (fstyle f) [c] (frest f)) with (single (fstyle f) (frest f)).
  now rewrite explode_singles.
Qed.

Theorem explode_len frs : fragment_list_len (explode frs) = fragment_list_len frs.
Proof. now rewrite !fragment_list_len_text, explode_text. Qed.

Theorem apply_style_text st frs : map ftext (apply_style st frs) = map ftext frs.
Proof.
  destruct st; [reflexivity|]. cbn [apply_style]. rewrite map_map. reflexivity.
Qed.
