(* C06 - the mode-aware renderer (Model/C06_Modes.v: mouse support, cursor
   shapes) refines the core renderer (Model/C06_Renderer.v): same core state, same
   tokens up to raw mode sequences, and raw sequences do not touch the terminal's
   grid / cursor / pen - so every theorem of Props/C06.v about r_step holds for
   the terminal produced by m_step (the function the harness runs). *)
From Coq Require Import ZArith List Bool Lia.
From PTK Require Import Lib.Sx Lib.Py Model.C06_Terminal Model.C06_Renderer Model.C06_Modes
  Proofs.C06_TermFacts.
Import ListNotations.
Open Scope Z_scope.

Lemma noraw_app : forall a b, noraw (a ++ b) = noraw a ++ noraw b.
Proof. intros. unfold noraw. apply filter_app. Qed.

Lemma trun_noraw : forall W ks t, trun W t ks = trun W t (noraw ks).
Proof.
  induction ks as [|k ks IH]; intros t; [reflexivity|].
  cbn [noraw filter]. destruct k; cbn [is_raw negb]; cbn [trun fold_left]; apply IH.
Qed.

Lemma trunB_noraw : forall B W ks s, trunB B W s ks = trunB B W s (noraw ks).
Proof.
  induction ks as [|k ks IH]; intros [t n]; [reflexivity|].
  cbn [noraw filter]. destruct k; cbn [is_raw negb]; cbn [trunB fold_left]; apply IH.
Qed.

Lemma noraw_mouse_on : noraw mouse_on = []. Proof. reflexivity. Qed.
Lemma noraw_mouse_off : noraw mouse_off = []. Proof. reflexivity. Qed.

Lemma m_reset_core : forall m,
  mcore (fst (m_reset m)) = fst (r_reset (mcore m)) /\ noraw (snd (m_reset m)) = noraw (snd (r_reset (mcore m))).
Proof.
  intros m. unfold m_reset, r_reset. destruct (show_cursor (rcv (mcore m))) as [cv t3]. cbn [fst snd mcore].
  split; [reflexivity|]. rewrite !noraw_app.
  destruct (mmouse m), (mcsc m); reflexivity.
Qed.

Theorem m_step_core : forall tbs fs m o,
  mcore (fst (m_step tbs fs m o)) = fst (r_step tbs fs (mcore m) (core_op o)) /\
  noraw (snd (m_step tbs fs m o)) = noraw (snd (r_step tbs fs (mcore m) (core_op o))).
Proof.
  intros tbs fs m o. destruct o as [cfg done W H scr nm sh| |]; cbn [m_step core_op r_step].
  - unfold m_render, r_render.
    destruct (if nm && negb (mmouse m) then (true, mouse_on)
              else if negb nm && mmouse m then (false, mouse_off) else (mmouse m, [])) as [mouse' tm] eqn:EM.
    assert (NM : noraw tm = []).
    { destruct (nm && negb (mmouse m)); [inversion EM; reflexivity|].
      destruct (negb nm && mmouse m); inversion EM; reflexivity. }
    destruct (screen_diff _ _ _ _ _ _ _ _ _ _ _) as [[pos cv] td].
    destruct (if match mlcs m with Some s => negb (s =? sh) | None => true end
              then if sh =? 0 then (mcsc m, []) else (true, [TRaw (20 + sh)]) else (mcsc m, [])) as [csc' tsh] eqn:ES.
    assert (NS : noraw tsh = []).
    { destruct (match mlcs m with Some s => negb (s =? sh) | None => true end); [|inversion ES; reflexivity].
      destruct (sh =? 0); inversion ES; reflexivity. }
    destruct done.
    + set (m1 := mkm _ mouse' (Some sh) csc').
      destruct (m_reset_core m1) as (C & N).
      destruct (m_reset m1) as [m2 te]. destruct (r_reset (mcore m1)) as [r2 te'] eqn:RR.
      subst m1. cbn [mcore] in RR. rewrite RR. cbn [fst snd] in *. split; [exact C|].
      rewrite !noraw_app, NM, NS, N. reflexivity.
    + cbn [fst snd mcore]. split; [reflexivity|]. rewrite !noraw_app, NM, NS, !app_nil_r. reflexivity.
  - unfold m_erase, r_erase. destruct (rpos (mcore m)) as [x y].
    destruct (m_reset_core m) as (C & N).
    destruct (m_reset m) as [m2 t]. destruct (r_reset (mcore m)) as [r2 t']. cbn [fst snd] in *.
    split; [exact C|]. rewrite !noraw_app, N. reflexivity.
  - apply m_reset_core.
Qed.

(* hence the terminal after an operation of the mode-aware renderer is the
   terminal after the same operation of the core renderer *)
Corollary m_step_terminal : forall tbs fs m o W t,
  trun W t (snd (m_step tbs fs m o)) = trun W t (snd (r_step tbs fs (mcore m) (core_op o))).
Proof.
  intros. rewrite trun_noraw, (trun_noraw W (snd (r_step tbs fs (mcore m) (core_op o)))).
  destruct (m_step_core tbs fs m o) as (_ & N). rewrite N. reflexivity.
Qed.

Corollary m_step_terminalB : forall tbs fs m o B W s,
  trunB B W s (snd (m_step tbs fs m o)) = trunB B W s (snd (r_step tbs fs (mcore m) (core_op o))).
Proof.
  intros. rewrite trunB_noraw, (trunB_noraw B W (snd (r_step tbs fs (mcore m) (core_op o)))).
  destruct (m_step_core tbs fs m o) as (_ & N). rewrite N. reflexivity.
Qed.

(* the mode bookkeeping of reset(): everything the renderer switched on is switched off *)
Definition ModeOK (m : mst) (s : modes) : Prop :=
  md_alt s = ralt (mcore m) /\ md_bp s = rbp (mcore m) /\ md_mouse s = mmouse m /\
  (mcsc m = false -> md_shape s = 0).

Lemma mode_run_app : forall a b s, mode_run s (a ++ b) = mode_run (mode_run s a) b.
Proof. intros. unfold mode_run. apply fold_left_app. Qed.

Theorem m_reset_modes : forall m s,
  ModeOK m s ->
  let s' := mode_run s (snd (m_reset m)) in
  md_alt s' = false /\ md_bp s' = false /\ md_mouse s' = false /\ md_shape s' = 0 /\
  ModeOK (fst (m_reset m)) s'.
Proof.
  intros m s (A & B & M & C). unfold m_reset.
  destruct (show_cursor (rcv (mcore m))) as [cv t3] eqn:E. cbn [fst snd]. cbv zeta.
  assert (T3 : forall q, mode_run q t3 = q).
  { intros q. unfold show_cursor in E. destruct (rcv (mcore m)) as [[|]|]; inversion E; subst; reflexivity. }
  rewrite !mode_run_app, T3.
  destruct s as [sa sb sm ss]. cbn [md_alt md_bp md_mouse md_shape] in *.
  destruct (ralt (mcore m)), (mmouse m), (rbp (mcore m)), (mcsc m); subst;
    try rewrite (C eq_refl); cbn; repeat split; auto.
Qed.
