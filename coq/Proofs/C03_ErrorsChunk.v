(* C03 - chunk independence of the decoder under the error handlers "ignore"
   and "replace" (and "surrogateescape" again, through the same proof); refuted
   for "strict". *)
From Coq Require Import ZArith List Bool Lia.
From PTK Require Import Model.C03_Vt100Input Model.C03_Utf8Spec Model.C03_Cache Model.C03_Errors
  Proofs.C03_Input Proofs.C03_Utf8 Proofs.C03_Errors.
Import ListNotations.
Open Scope Z_scope.

Ltac hyp_ifs H :=
  repeat match type of H with
         | context [if ?c then _ else _] => let E := fresh "E" in destruct c eqn:E
         end.

(* the error range is decided by the bytes the step looked at *)
Lemma err_len_app a b cp :
  step a = Emit cp 1 -> err_len (a ++ b) = err_len a /\ (1 <= err_len a <= length a)%nat.
Proof.
  destruct a as [|b1 [|b2 [|b3 [|b4 r]]]]; unfold step, err_len, cont, in_rng; cbv beta iota zeta; cbn [app length];
    intros H; try discriminate H.
  - hyp_ifs H; try discriminate H; bool_facts; destruct b as [|c1 [|c2 b]]; kill_ifs; split; (reflexivity || lia).
  - hyp_ifs H; try discriminate H; bool_facts; destruct b as [|c1 b]; kill_ifs; split; (reflexivity || lia).
  - hyp_ifs H; try discriminate H; bool_facts; kill_ifs; split; (reflexivity || lia).
  - hyp_ifs H; try discriminate H; bool_facts; kill_ifs; split; (reflexivity || lia).
Qed.

Lemma is_err_one bs n : is_err bs n = true -> n = 1%nat.
Proof.
  unfold is_err. destruct bs; [discriminate|]. intros H. apply andb_true_iff in H. now apply Nat.eqb_eq.
Qed.

Lemma is_err_app a b n : a <> [] -> is_err (a ++ b) n = is_err a n.
Proof. destruct a; [congruence|reflexivity]. Qed.

(* one handler step: what is put out (if anything) and how many bytes are skipped *)
Definition de (m : emode) (bs : list Z) : eres := dec_e_fuel (S (length bs)) m bs.

Lemma dec_e_fuel_irrel m f1 : forall f2 bs,
  (length bs < f1)%nat -> (length bs < f2)%nat -> dec_e_fuel f1 m bs = dec_e_fuel f2 m bs.
Proof.
  induction f1 as [|f1 IH]; intros f2 bs H1 H2; [lia|].
  destruct f2 as [|f2]; [lia|]. cbn [dec_e_fuel].
  destruct (step bs) as [cp n| |] eqn:E; try reflexivity.
  pose proof (step_emit_bounds _ _ _ E) as B.
  destruct (is_err bs n) eqn:X.
  - pose proof (is_err_one _ _ X) as ->. destruct (err_len_app bs [] cp E) as [_ L].
    destruct m; try reflexivity; [f_equal| |f_equal]; apply IH; rewrite skipn_length; lia.
  - f_equal. apply IH; rewrite skipn_length; lia.
Qed.

Lemma de_unfold m bs :
  de m bs = match step bs with
            | Stop => mke [] [] false false
            | Pend => mke [] bs false false
            | Emit cp n =>
                if is_err bs n then
                  match m with
                  | ESurrogate => econs cp (de m (skipn 1 bs))
                  | EIgnore => de m (skipn (err_len bs) bs)
                  | EReplace => econs 65533 (de m (skipn (err_len bs) bs))
                  | EStrict => mke [] bs true false
                  end
                else econs cp (de m (skipn n bs))
            end.
Proof.
  unfold de at 1. cbn [dec_e_fuel]. destruct (step bs) as [cp n| |] eqn:E; try reflexivity.
  pose proof (step_emit_bounds _ _ _ E) as B.
  destruct (is_err bs n) eqn:X.
  - pose proof (is_err_one _ _ X) as ->. destruct (err_len_app bs [] cp E) as [_ L].
    destruct m; try reflexivity; [f_equal| |f_equal]; unfold de; apply dec_e_fuel_irrel; rewrite skipn_length; lia.
  - f_equal. unfold de. apply dec_e_fuel_irrel; rewrite skipn_length; lia.
Qed.

Definition ecombine (r1 r2 : eres) : eres :=
  mke (eout r1 ++ eout r2) (epend r2) (eraised r1 || eraised r2) (eoof r1 || eoof r2).

Lemma ecombine_nil_l p r : ecombine (mke [] p false false) r = r.
Proof. destruct r; reflexivity. Qed.
Lemma ecombine_econs cp r1 r2 : ecombine (econs cp r1) r2 = econs cp (ecombine r1 r2).
Proof. reflexivity. Qed.

Lemma skipn_app_le {T} n (a b : list T) : (n <= length a)%nat -> skipn n (a ++ b) = skipn n a ++ b.
Proof. intros H. rewrite skipn_app. replace (n - length a)%nat with 0%nat by lia. reflexivity. Qed.

(* decoding a ++ b at once = decoding a, then (undecoded tail of a) ++ b, for
   every handler that does not raise *)
Lemma de_app_aux m k : m <> EStrict -> forall a b, (length a <= k)%nat ->
  de m (a ++ b) = ecombine (de m a) (de m (epend (de m a) ++ b)).
Proof.
  intros Hm. induction k as [|k IH]; intros a b Hk.
  - destruct a; [|cbn [length] in Hk; lia]. cbn [app].
    rewrite (de_unfold m []). cbn [step epend app]. now rewrite ecombine_nil_l.
  - rewrite (de_unfold m a). destruct (step a) as [cp n| |] eqn:E.
    + pose proof (step_emit_bounds _ _ _ E) as B.
      assert (Ha : a <> []) by (intros ->; cbn [length] in B; lia).
      rewrite (de_unfold m (a ++ b)), (step_emit_app a b cp n E), (is_err_app a b n Ha).
      destruct (is_err a n) eqn:X.
      * pose proof (is_err_one _ _ X) as ->. destruct (err_len_app a b cp E) as [L1 L2]. rewrite L1.
        destruct m; try congruence.
        -- rewrite skipn_app_le by lia. rewrite IH by (rewrite skipn_length; lia). now rewrite ecombine_econs.
        -- rewrite skipn_app_le by lia. apply IH. rewrite skipn_length. lia.
        -- rewrite skipn_app_le by lia. rewrite IH by (rewrite skipn_length; lia). now rewrite ecombine_econs.
      * rewrite skipn_app_le by lia. rewrite IH by (rewrite skipn_length; lia). now rewrite ecombine_econs.
    + cbn [epend]. now rewrite ecombine_nil_l.
    + apply step_stop in E. subst a. cbn [app epend]. now rewrite ecombine_nil_l.
Qed.

Lemma de_app m a b : m <> EStrict -> de m (a ++ b) = ecombine (de m a) (de m (epend (de m a) ++ b)).
Proof. intros Hm. apply (de_app_aux m (length a) Hm). lia. Qed.

(* without "strict" nothing is raised *)
Lemma de_no_raise m : m <> EStrict -> forall k bs, (length bs <= k)%nat -> eraised (de m bs) = false /\ eoof (de m bs) = false.
Proof.
  intros Hm. induction k as [|k IH]; intros bs Hk.
  - destruct bs; [|cbn [length] in Hk; lia]. split; reflexivity.
  - rewrite de_unfold. destruct (step bs) as [cp n| |] eqn:E; try (split; reflexivity).
    pose proof (step_emit_bounds _ _ _ E) as B.
    destruct (is_err bs n) eqn:X.
    + pose proof (is_err_one _ _ X) as ->. destruct (err_len_app bs [] cp E) as [_ L].
      destruct m; try congruence; cbn [econs eraised eoof]; apply IH; rewrite skipn_length; lia.
    + cbn [econs eraised eoof]. apply IH. rewrite skipn_length. lia.
Qed.

(* the decoder call of the model (buffer ++ data) is [de] when nothing is raised *)
Lemma dec_e_is_de m old bs : m <> EStrict -> dec_e m old bs = de m (old ++ bs).
Proof.
  intros Hm. unfold dec_e. fold (de m (old ++ bs)).
  destruct (de_no_raise m Hm _ (old ++ bs) (le_n _)) as [R _]. now rewrite R.
Qed.

(* two successive decode() calls = one call on the concatenation (text
   concatenated, final buffer equal), for surrogateescape / ignore / replace *)
Lemma dec_e_chunk_independent m a b : m <> EStrict ->
  dec_e m [] (a ++ b) =
  ecombine (dec_e m [] a) (dec_e m (epend (dec_e m [] a)) b).
Proof.
  intros Hm. rewrite !dec_e_is_de by exact Hm. cbn [app]. now apply de_app.
Qed.

(* "strict": one read raises and returns nothing; cut in two, the first read
   hands "A" out *)
Lemma dec_e_strict_not_chunk_independent :
  dec_e EStrict [] ([65] ++ [255]) <>
  ecombine (dec_e EStrict [] [65]) (dec_e EStrict (epend (dec_e EStrict [] [65])) [255]).
Proof. intros H. vm_compute in H. discriminate. Qed.
