(* C02 - paragraph motions: where start_of_paragraph / end_of_paragraph land.
   C02_Lines.v proves "in bounds, right direction"; this file proves the
   destination as the code defines it: the count-th blank line above / below
   (the farthest one when there are fewer than count), at the cursor's column
   clipped to that line, plus / minus the add adjustment; the document start /
   end when there is no blank line. *)
From Coq Require Import ZArith List Bool Lia.
From PTK Require Import Lib.Sx Lib.Py Gen.Whitespace Model.Document Model.C02_DocQueries
  Proofs.C02_Base Proofs.C02_Coords Proofs.C02_Lines.
Import ListNotations.
Open Scope Z_scope.

(* ---------------------------------------------------------------------- *)
(* number of blank lines in a list *)

Fixpoint count_blank (ls : list str) : Z :=
  match ls with
  | [] => 0
  | l :: r => (if blank_line l then 1 else 0) + count_blank r
  end.

Lemma count_blank_nonneg ls : 0 <= count_blank ls.
Proof.
  induction ls as [|l r IH]; cbn [count_blank]; [lia|].
  destruct (blank_line l); cbv iota; lia.
Qed.

Lemma count_blank_app a b : count_blank (a ++ b) = count_blank a + count_blank b.
Proof.
  induction a as [|l r IH]; cbn [app count_blank]; [lia|]. rewrite IH. lia.
Qed.

Lemma count_blank_rev l : count_blank (rev l) = count_blank l.
Proof.
  induction l as [|x r IH]; cbn [rev]; [reflexivity|].
  rewrite count_blank_app, IH. cbn [count_blank]. lia.
Qed.

Lemma count_blank_split (n : nat) ls :
  count_blank ls = count_blank (firstn n ls) + count_blank (skipn n ls).
Proof. rewrite <- count_blank_app, firstn_skipn. reflexivity. Qed.

(* ---------------------------------------------------------------------- *)
(* P1. the loop *)

Lemma matching_line_loop_none ls : forall index count result,
  1 <= count -> count_blank ls = 0 -> matching_line_loop ls index count result = result.
Proof.
  induction ls as [|l r IH]; intros index count result Hc Hb; [reflexivity|].
  cbn [count_blank] in Hb. cbn [matching_line_loop]. cbv zeta.
  pose proof (count_blank_nonneg r) as Hr.
  destruct (blank_line l) eqn:El; cbv iota in Hb |- *.
  - lia.
  - destruct (count =? 0) eqn:E0; [lia|]. apply IH; lia.
Qed.

(* the general form, for any starting [result] *)
Lemma C02p_loop_spec_gen ls : forall index count result v,
  1 <= count -> matching_line_loop ls index count result = Some v ->
  (count_blank ls = 0 /\ result = Some v) \/
  exists k : nat,
    v = 1 + index + Z.of_nat k /\ (k < length ls)%nat /\
    (exists l, nth_error ls k = Some l /\ blank_line l = true) /\
    count_blank (firstn (S k) ls) <= count /\
    (count_blank (firstn (S k) ls) = count \/ count_blank (skipn (S k) ls) = 0).
Proof.
  induction ls as [|l r IH]; intros index count result v Hc H.
  - cbn [matching_line_loop] in H. left. split; [reflexivity|exact H].
  - cbn [matching_line_loop] in H. cbv zeta in H.
    destruct (blank_line l) eqn:El; cbv iota in H.
    + destruct (count - 1 =? 0) eqn:E0.
      * apply some_inj in H. right. exists 0%nat.
        split; [lia|]. split; [cbn [length]; lia|].
        split; [exists l; split; [reflexivity|exact El]|].
        change (firstn 1 (l :: r)) with [l]. cbn [count_blank]. rewrite El. cbv iota.
        split; [lia|left; lia].
      * destruct (IH (index + 1) (count - 1) (Some (1 + index)) v ltac:(lia) H)
          as [[Hb Hr]|(k & Hv & Hk & Hl & Hle & Hor)].
        -- apply some_inj in Hr. right. exists 0%nat.
           split; [lia|]. split; [cbn [length]; lia|].
           split; [exists l; split; [reflexivity|exact El]|].
           change (firstn 1 (l :: r)) with [l]. change (skipn 1 (l :: r)) with r.
           cbn [count_blank]. rewrite El. cbv iota.
           split; [lia|right; exact Hb].
        -- right. exists (S k).
           split; [lia|]. split; [cbn [length]; lia|].
           split; [exact Hl|].
           change (firstn (S (S k)) (l :: r)) with (l :: firstn (S k) r).
           change (skipn (S (S k)) (l :: r)) with (skipn (S k) r).
           cbn [count_blank]. rewrite El. cbv iota.
           split; [lia|]. destruct Hor as [Ho|Ho]; [left; lia|right; exact Ho].
    + destruct (count =? 0) eqn:E0; [lia|].
      destruct (IH (index + 1) count result v Hc H)
        as [[Hb Hr]|(k & Hv & Hk & Hl & Hle & Hor)].
      * left. cbn [count_blank]. rewrite El. cbv iota. split; [lia|exact Hr].
      * right. exists (S k).
        split; [lia|]. split; [cbn [length]; lia|].
        split; [exact Hl|].
        change (firstn (S (S k)) (l :: r)) with (l :: firstn (S k) r).
        change (skipn (S (S k)) (l :: r)) with (skipn (S k) r).
        cbn [count_blank]. rewrite El. cbv iota.
        split; [lia|]. destruct Hor as [Ho|Ho]; [left; lia|right; exact Ho].
Qed.

(* there is a blank line: the answer is 1 + index + (position of the count-th
   blank line, or of the last one when there are fewer than count) *)
Lemma C02p_loop_spec ls : forall index count result v,
  1 <= count -> matching_line_loop ls index count result = Some v ->
  0 < count_blank ls ->
  exists k : nat,
    v = 1 + index + Z.of_nat k /\ (k < length ls)%nat /\
    (exists l, nth_error ls k = Some l /\ blank_line l = true) /\
    let b := count_blank (firstn (S k) ls) in
    b <= count /\ (b = count \/ count_blank (skipn (S k) ls) = 0).
Proof.
  intros index count result v Hc H Hb.
  destruct (C02p_loop_spec_gen ls index count result v Hc H) as [[H0 _]|Hk]; [lia|].
  exact Hk.
Qed.

(* once a result is held, one is returned *)
Lemma loop_some_of_some ls : forall index count x,
  exists v, matching_line_loop ls index count (Some x) = Some v.
Proof.
  induction ls as [|l r IH]; intros index count x.
  - exists x. reflexivity.
  - cbn [matching_line_loop]. cbv zeta.
    destruct (blank_line l); cbv iota.
    + destruct (count - 1 =? 0); [eexists; reflexivity|apply IH].
    + destruct (count =? 0); [eexists; reflexivity|apply IH].
Qed.

Lemma loop_some_of_blank ls : forall index count result,
  1 <= count -> 0 < count_blank ls ->
  exists v, matching_line_loop ls index count result = Some v.
Proof.
  induction ls as [|l r IH]; intros index count result Hc Hb.
  - cbn [count_blank] in Hb. lia.
  - cbn [count_blank] in Hb. cbn [matching_line_loop]. cbv zeta.
    destruct (blank_line l); cbv iota in Hb |- *.
    + destruct (count - 1 =? 0); [eexists; reflexivity|apply loop_some_of_some].
    + destruct (count =? 0) eqn:E0; [lia|]. apply IH; lia.
Qed.

Lemma C02p_loop_none_iff_gen ls index count :
  1 <= count ->
  (matching_line_loop ls index count None = None <-> count_blank ls = 0).
Proof.
  intros Hc. split.
  - intros H. pose proof (count_blank_nonneg ls) as Hn.
    destruct (Z.eq_dec (count_blank ls) 0) as [E|E]; [exact E|].
    destruct (loop_some_of_blank ls index count None Hc ltac:(lia)) as [v Hv].
    rewrite Hv in H. discriminate.
  - intros H. apply matching_line_loop_none; assumption.
Qed.

Lemma C02p_loop_none_iff ls count :
  1 <= count ->
  (matching_line_loop ls 0 count None = None <-> count_blank ls = 0).
Proof. apply C02p_loop_none_iff_gen. Qed.

(* started without a result: Some v describes a blank line *)
Lemma C02p_loop_from_none ls index count v :
  1 <= count -> matching_line_loop ls index count None = Some v ->
  exists k : nat,
    v = 1 + index + Z.of_nat k /\ (k < length ls)%nat /\
    (exists l, nth_error ls k = Some l /\ blank_line l = true) /\
    count_blank (firstn (S k) ls) <= count /\
    (count_blank (firstn (S k) ls) = count \/ count_blank (skipn (S k) ls) = 0).
Proof.
  intros Hc H.
  destruct (C02p_loop_spec_gen ls index count None v Hc H) as [[_ H0]|Hk];
    [discriminate|exact Hk].
Qed.

(* ---------------------------------------------------------------------- *)
(* list facts *)

Lemma nth_error_skipn_plus {T} (n : nat) : forall (l : list T) (k : nat),
  nth_error (skipn n l) k = nth_error l (n + k).
Proof.
  induction n as [|n IH]; intros l k; [reflexivity|].
  destruct l as [|x l]; [destruct k; reflexivity|].
  change (skipn (S n) (x :: l)) with (skipn n l).
  change (S n + k)%nat with (S (n + k)). cbn [nth_error]. apply IH.
Qed.

Lemma skipn_skipn_plus {T} (a : nat) : forall (b : nat) (l : list T),
  skipn a (skipn b l) = skipn (b + a) l.
Proof.
  induction b as [|b IH]; intros l; [reflexivity|].
  change (S b + a)%nat with (S (b + a)).
  destruct l as [|x l]; [destruct a; reflexivity|].
  change (skipn (S b) (x :: l)) with (skipn b l).
  change (skipn (S (b + a)) (x :: l)) with (skipn (b + a) l). apply IH.
Qed.

Lemma nth_firstn_lt {T} (l : list T) (n i : nat) (d : T) :
  (i < n)%nat -> (n <= length l)%nat -> nth i (firstn n l) d = nth i l d.
Proof.
  intros Hi Hn.
  transitivity (nth i (firstn n l ++ skipn n l) d).
  - symmetry. apply app_nth1. rewrite firstn_length_le; lia.
  - now rewrite firstn_skipn.
Qed.

(* ---------------------------------------------------------------------- *)
(* P2. the two line searches *)

Lemma C02p_previous_matching_line d count li :
  valid d -> 1 <= count -> find_previous_matching_line d count = Some li ->
  let row := cursor_position_row d in
  exists k, li = - k /\ 1 <= k <= row /\
    blank_line (nth (Z.to_nat (row - k)) (lines d) []) = true /\
    let b := count_blank (firstn (Z.to_nat k) (skipn (Z.to_nat (row - k)) (lines d))) in
    b <= count /\
    (b = count \/ count_blank (firstn (Z.to_nat (row - k)) (lines d)) = 0).
Proof.
  intros Hv Hc H. cbv zeta.
  pose proof (cursor_row_bounds d Hv) as Hrow. unfold line_count in Hrow.
  unfold find_previous_matching_line in H.
  rewrite slice_to_in_range in H by lia.
  set (row := cursor_position_row d) in *.
  set (n := Z.to_nat row) in *.
  destruct (matching_line_loop (rev (firstn n (lines d))) 0 count None) as [v|] eqn:E;
    [|discriminate].
  apply some_inj in H.
  apply C02p_loop_from_none in E; [|exact Hc].
  destruct E as (k & Hvk & Hk & (l & Hl & Hbl) & Hle & Hor).
  assert (HL : length (firstn n (lines d)) = n)
    by (apply firstn_length_le; unfold len in Hrow; lia).
  rewrite rev_length, HL in Hk.
  exists (1 + Z.of_nat k). split; [lia|]. split; [lia|].
  assert (Hidx : Z.to_nat (row - (1 + Z.of_nat k)) = (n - S k)%nat) by lia.
  rewrite Hidx. replace (Z.to_nat (1 + Z.of_nat k)) with (S k) by lia.
  split.
  { apply nth_error_nth with (d := []) in Hl.
    rewrite rev_nth in Hl by (rewrite HL; exact Hk). rewrite HL in Hl.
    rewrite nth_firstn_lt in Hl by (unfold len in Hrow; lia).
    rewrite Hl. exact Hbl. }
  rewrite firstn_rev, HL, count_blank_rev, skipn_firstn_comm in Hle, Hor.
  rewrite skipn_rev, HL, count_blank_rev, firstn_firstn in Hor.
  replace (n - (n - S k))%nat with (S k) in Hle, Hor by lia.
  replace (Nat.min (n - S k) n) with (n - S k)%nat in Hor by lia.
  split; [exact Hle|exact Hor].
Qed.

Lemma C02p_next_matching_line d count li :
  valid d -> 1 <= count -> find_next_matching_line d count = Some li ->
  let row := cursor_position_row d in
  1 <= li /\ row + li < line_count d /\
  blank_line (nth (Z.to_nat (row + li)) (lines d) []) = true /\
  let b := count_blank (firstn (Z.to_nat li) (skipn (Z.to_nat (row + 1)) (lines d))) in
  b <= count /\
  (b = count \/ count_blank (skipn (Z.to_nat (row + li + 1)) (lines d)) = 0).
Proof.
  intros Hv Hc H. cbv zeta.
  pose proof (cursor_row_bounds d Hv) as Hrow. unfold line_count in *.
  unfold find_next_matching_line in H.
  rewrite slice_from_in_range in H by lia.
  set (row := cursor_position_row d) in *.
  set (m := Z.to_nat (row + 1)) in *.
  apply C02p_loop_from_none in H; [|exact Hc].
  destruct H as (k & Hvk & Hk & (l & Hl & Hbl) & Hle & Hor).
  rewrite skipn_length in Hk. unfold len in Hrow |- *.
  split; [lia|]. split; [lia|].
  assert (Hidx : Z.to_nat (row + li) = (m + k)%nat) by lia.
  assert (Hli : Z.to_nat li = S k) by lia.
  assert (Hend : Z.to_nat (row + li + 1) = (m + S k)%nat) by lia.
  rewrite Hidx, Hli, Hend.
  split.
  { rewrite nth_error_skipn_plus in Hl.
    apply nth_error_nth with (d := []) in Hl. rewrite Hl. exact Hbl. }
  rewrite skipn_skipn_plus in Hor.
  split; [exact Hle|exact Hor].
Qed.

Lemma C02p_previous_matching_line_none d count :
  valid d -> 1 <= count ->
  (find_previous_matching_line d count = None <->
   count_blank (firstn (Z.to_nat (cursor_position_row d)) (lines d)) = 0).
Proof.
  intros Hv Hc.
  pose proof (cursor_row_bounds d Hv) as Hrow. unfold line_count in Hrow.
  unfold find_previous_matching_line.
  rewrite slice_to_in_range by lia.
  rewrite <- count_blank_rev, <- (C02p_loop_none_iff _ count Hc).
  destruct (matching_line_loop (rev (firstn (Z.to_nat (cursor_position_row d)) (lines d))) 0 count None);
    split; intros H; try discriminate; reflexivity.
Qed.

Lemma C02p_next_matching_line_none d count :
  valid d -> 1 <= count ->
  (find_next_matching_line d count = None <->
   count_blank (skipn (Z.to_nat (cursor_position_row d + 1)) (lines d)) = 0).
Proof.
  intros Hv Hc.
  pose proof (cursor_row_bounds d Hv) as Hrow. unfold line_count in Hrow.
  unfold find_next_matching_line.
  rewrite slice_from_in_range by lia.
  apply C02p_loop_none_iff. exact Hc.
Qed.

(* ---------------------------------------------------------------------- *)
(* the line start table, one step at a time; the cursor in that table *)

Lemma starts_step ls : forall pos (n : nat),
  (S n < length ls)%nat ->
  nth (S n) (starts ls pos) 0 = nth n (starts ls pos) 0 + len (nth n ls []) + 1.
Proof.
  induction ls as [|l r IH]; intros pos n Hn; cbn [length] in Hn; [lia|].
  destruct n as [|n].
  - destruct r as [|l2 r2]; [cbn [length] in Hn; lia|]. cbn [starts nth]. reflexivity.
  - cbn [starts nth]. apply IH. lia.
Qed.

Lemma starts_mono ls pos (a b : nat) :
  (a <= b < length ls)%nat -> nth a (starts ls pos) 0 <= nth b (starts ls pos) 0.
Proof.
  intros [Hab Hb]. destruct (Nat.eq_dec a b) as [->|Hne]; [lia|].
  pose proof (C02c_starts_sorted ls pos a b ltac:(lia)). lia.
Qed.

Lemma cursor_index d :
  valid d ->
  0 <= cursor_position_col d
    <= len (nth (Z.to_nat (cursor_position_row d)) (lines d) []) /\
  dcur d = nth (Z.to_nat (cursor_position_row d)) (starts (lines d) 0) 0 + cursor_position_col d.
Proof.
  intros Hv.
  destruct (C02c_index_to_position_spec d (dcur d) _ _ Hv (cursor_position_pair d))
    as (_ & Hc & _ & _ & Hr & Hl & _).
  pose proof (C02c_index_roundtrip d (dcur d) Hv) as RT.
  rewrite cursor_position_pair in RT. cbn [fst snd] in RT.
  rewrite C02c_row_col_to_index_valid in RT by (assumption || lia).
  lia.
Qed.

(* ---------------------------------------------------------------------- *)
(* P3. where the motions land *)

Theorem C02p_start_of_paragraph_lands d count before r :
  valid d -> 1 <= count -> start_of_paragraph d count before = Some r ->
  let row := cursor_position_row d in
  let col := cursor_position_col d in
  (count_blank (firstn (Z.to_nat row) (lines d)) = 0 /\ dcur d + r = 0) \/
  (exists k,
     find_previous_matching_line d count = Some (- k) /\ 1 <= k <= row /\
     blank_line (nth (Z.to_nat (row - k)) (lines d) []) = true /\
     dcur d + r = translate_row_col_to_index d (row - k) col + (if before then 0 else 1) /\
     translate_index_to_position d (translate_row_col_to_index d (row - k) col) =
     (row - k, Z.min col (len (nth (Z.to_nat (row - k)) (lines d) [])))).
Proof.
  intros Hv Hc H. cbv zeta.
  pose proof (cursor_row_bounds d Hv) as Hrow.
  assert (Hlen : line_count d = Z.of_nat (length (lines d))) by reflexivity.
  destruct (cursor_index d Hv) as [Hcol Hcur].
  unfold start_of_paragraph in H.
  destruct (find_previous_matching_line d count) as [li|] eqn:E.
  - right.
    pose proof (C02p_previous_matching_line d count li Hv Hc E) as P. cbv zeta in P.
    destruct P as (k & Hli & Hk & Hbl & _). subst li.
    destruct (- k =? 0) eqn:E0; [lia|].
    unfold get_cursor_up_position in H. rewrite Z.opp_involutive in H.
    destruct (k <? 0) eqn:E1; [lia|].
    apply some_inj in H. unfold up_pos in H.
    replace (Z.max 0 (cursor_position_row d - k)) with (cursor_position_row d - k) in H by lia.
    set (row := cursor_position_row d) in *.
    set (col := cursor_position_col d) in *.
    exists k. split; [reflexivity|]. split; [exact Hk|]. split; [exact Hbl|].
    assert (Hidx : translate_row_col_to_index d (row - k) col + 1 <= dcur d).
    { rewrite C02c_row_col_to_index_row_valid by lia.
      pose proof (starts_step (lines d) 0 (Z.to_nat (row - k)) ltac:(lia)) as Hs.
      pose proof (starts_mono (lines d) 0 (S (Z.to_nat (row - k))) (Z.to_nat row) ltac:(lia)) as Hm.
      pose proof (len_nonneg (nth (Z.to_nat (row - k)) (lines d) [])) as Hn.
      lia. }
    split.
    { rewrite <- H. destruct before; cbv iota; lia. }
    pose proof (row_col_to_index_position d (row - k) col ltac:(lia)) as P. cbv zeta in P.
    replace (Z.min (row - k) (line_count d - 1)) with (row - k) in P by lia.
    rewrite P. f_equal.
    pose proof (len_nonneg (nth (Z.to_nat (row - k)) (lines d) [])) as Hn. lia.
  - left. apply some_inj in H. split; [|lia].
    apply C02p_previous_matching_line_none with (count := count); assumption.
Qed.

Theorem C02p_end_of_paragraph_lands d count after r :
  valid d -> 1 <= count -> end_of_paragraph d count after = Some r ->
  let row := cursor_position_row d in
  let col := cursor_position_col d in
  (count_blank (skipn (Z.to_nat (row + 1)) (lines d)) = 0 /\ dcur d + r = len (dtext d)) \/
  (exists li,
     find_next_matching_line d count = Some li /\ 1 <= li /\ row + li < line_count d /\
     blank_line (nth (Z.to_nat (row + li)) (lines d) []) = true /\
     dcur d + r = translate_row_col_to_index d (row + li) col - (if after then 0 else 1) /\
     translate_index_to_position d (translate_row_col_to_index d (row + li) col) =
     (row + li, Z.min col (len (nth (Z.to_nat (row + li)) (lines d) [])))).
Proof.
  intros Hv Hc H. cbv zeta.
  pose proof (cursor_row_bounds d Hv) as Hrow.
  assert (Hlen : line_count d = Z.of_nat (length (lines d))) by reflexivity.
  destruct (cursor_index d Hv) as [Hcol Hcur].
  unfold end_of_paragraph in H. rewrite (len_ta d Hv) in H.
  destruct (find_next_matching_line d count) as [li|] eqn:E.
  - right.
    pose proof (C02p_next_matching_line d count li Hv Hc E) as P. cbv zeta in P.
    destruct P as (Hli1 & Hli2 & Hbl & _).
    destruct (li =? 0) eqn:E0; [lia|].
    unfold get_cursor_down_position in H.
    destruct (li <? 0) eqn:E1; [lia|].
    apply some_inj in H. unfold down_pos in H.
    set (row := cursor_position_row d) in *.
    set (col := cursor_position_col d) in *.
    exists li. split; [reflexivity|]. split; [exact Hli1|]. split; [exact Hli2|].
    split; [exact Hbl|].
    assert (Hidx : dcur d + 1 <= translate_row_col_to_index d (row + li) col).
    { rewrite C02c_row_col_to_index_row_valid by lia.
      pose proof (starts_step (lines d) 0 (Z.to_nat row) ltac:(lia)) as Hs.
      pose proof (starts_mono (lines d) 0 (S (Z.to_nat row)) (Z.to_nat (row + li)) ltac:(lia)) as Hm.
      lia. }
    split.
    { rewrite <- H. destruct after; cbv iota; lia. }
    pose proof (row_col_to_index_position d (row + li) col ltac:(lia)) as P. cbv zeta in P.
    replace (Z.min (row + li) (line_count d - 1)) with (row + li) in P by lia.
    rewrite P. f_equal.
    pose proof (len_nonneg (nth (Z.to_nat (row + li)) (lines d) [])) as Hn. lia.
  - left. apply some_inj in H. split; [|lia].
    apply C02p_next_matching_line_none with (count := count); assumption.
Qed.

(* ---------------------------------------------------------------------- *)
(* P2 + P3 in one statement: with a blank line above (below) the cursor row,
   the motion lands, before the [add] adjustment, on the count-th blank line
   above (below) the cursor row, or on the farthest one when there are fewer
   than count, at the cursor's column clipped to that line. *)

Corollary C02p_start_of_paragraph_count d count before r :
  valid d -> 1 <= count -> start_of_paragraph d count before = Some r ->
  let row := cursor_position_row d in
  let col := cursor_position_col d in
  0 < count_blank (firstn (Z.to_nat row) (lines d)) ->
  exists k,
    1 <= k <= row /\
    blank_line (nth (Z.to_nat (row - k)) (lines d) []) = true /\
    (let b := count_blank (firstn (Z.to_nat k) (skipn (Z.to_nat (row - k)) (lines d))) in
     b <= count /\
     (b = count \/ count_blank (firstn (Z.to_nat (row - k)) (lines d)) = 0)) /\
    translate_index_to_position d (dcur d + r - (if before then 0 else 1)) =
    (row - k, Z.min col (len (nth (Z.to_nat (row - k)) (lines d) []))).
Proof.
  intros Hv Hc H. cbv zeta. intros Hb.
  pose proof (C02p_start_of_paragraph_lands d count before r Hv Hc H) as P. cbv zeta in P.
  destruct P as [[P0 _]|(k & Hf & Hk & Hbl & Hr & Hp)]; [lia|].
  pose proof (C02p_previous_matching_line d count (- k) Hv Hc Hf) as Q. cbv zeta in Q.
  destruct Q as (k' & Hkk & _ & _ & Hle & Hor).
  assert (k' = k) by lia. subst k'.
  exists k. split; [exact Hk|]. split; [exact Hbl|]. split; [split; [exact Hle|exact Hor]|].
  rewrite <- Hp. f_equal. lia.
Qed.

Corollary C02p_end_of_paragraph_count d count after r :
  valid d -> 1 <= count -> end_of_paragraph d count after = Some r ->
  let row := cursor_position_row d in
  let col := cursor_position_col d in
  0 < count_blank (skipn (Z.to_nat (row + 1)) (lines d)) ->
  exists li,
    1 <= li /\ row + li < line_count d /\
    blank_line (nth (Z.to_nat (row + li)) (lines d) []) = true /\
    (let b := count_blank (firstn (Z.to_nat li) (skipn (Z.to_nat (row + 1)) (lines d))) in
     b <= count /\
     (b = count \/ count_blank (skipn (Z.to_nat (row + li + 1)) (lines d)) = 0)) /\
    translate_index_to_position d (dcur d + r + (if after then 0 else 1)) =
    (row + li, Z.min col (len (nth (Z.to_nat (row + li)) (lines d) []))).
Proof.
  intros Hv Hc H. cbv zeta. intros Hb.
  pose proof (C02p_end_of_paragraph_lands d count after r Hv Hc H) as P. cbv zeta in P.
  destruct P as [[P0 _]|(li & Hf & Hli1 & Hli2 & Hbl & Hr & Hp)]; [lia|].
  pose proof (C02p_next_matching_line d count li Hv Hc Hf) as Q. cbv zeta in Q.
  destruct Q as (_ & _ & _ & Hle & Hor).
  exists li. split; [exact Hli1|]. split; [exact Hli2|]. split; [exact Hbl|].
  split; [split; [exact Hle|exact Hor]|].
  rewrite <- Hp. f_equal. lia.
Qed.
