(* C12 - the float test of take_using_weights on Coq's primitive binary64
   floats: agreement with the model's exact integer test on an exhaustive
   small range and on the regenerated CPython probes; beyond 2^53 the two
   differ. *)
From Coq Require Import ZArith List Bool Lia.
From PTK Require Import Model.C12_PrimFloat Gen.C12_FloatProbes.
Import ListNotations.
Open Scope Z_scope.

Lemma small_agree_60 : small_agree 40 400 60 = true.
Proof. vm_compute. reflexivity. Qed.

Lemma zrange_in : forall n v, 0 <= v < Z.of_nat n -> In v (zrange n).
Proof.
  intros n v H. unfold zrange. apply in_map_iff. exists (Z.to_nat v). split.
  - apply Z2Nat.id. apply H.
  - apply in_seq. split; [apply Nat.le_0_l|]. apply Nat2Z.inj_lt. rewrite Z2Nat.id; apply H.
Qed.

Lemma small_agree_spec : forall T N M, small_agree T N M = true ->
  forall t iw mw, 0 <= t <= Z.of_nat T -> 0 <= iw <= Z.of_nat N -> 1 <= mw <= Z.of_nat M ->
  prim_test t iw mw = exact_test t iw mw.
Proof.
  intros T N M H t iw mw Ht Hi Hm. unfold small_agree in H.
  rewrite forallb_forall in H.
  assert (I1 : In (mw - 1) (zrange M)) by (apply zrange_in; lia).
  specialize (H _ I1). rewrite forallb_forall in H.
  assert (I2 : In iw (zrange (S N))) by (apply zrange_in; lia).
  specialize (H _ I2). rewrite forallb_forall in H.
  assert (I3 : In t (zrange (S T))) by (apply zrange_in; lia).
  specialize (H _ I3). apply Bool.eqb_prop in H. replace (mw - 1 + 1) with mw in H by lia. exact H.
Qed.

Theorem prim_small_exact : forall taken iw maxw,
  0 <= taken <= 40 -> 0 <= iw <= 400 -> 1 <= maxw <= 60 ->
  prim_test taken iw maxw = exact_test taken iw maxw.
Proof. intros t iw mw Ht Hi Hm. exact (small_agree_spec 40 400 60 small_agree_60 t iw mw Ht Hi Hm). Qed.

Lemma probes_all_ok : forallb probe_ok float_probes = true.
Proof. vm_compute. reflexivity. Qed.

(* every regenerated probe: Coq's binary64 evaluation answers what CPython
   answered, and below 2^53 so does the exact integer test of the model *)
Theorem probes_agree : forall t iw mw r, In (t, iw, mw, r) float_probes ->
  prim_test t iw mw = (r =? 1) /\
  (iw < 2 ^ 53 -> mw < 2 ^ 53 -> exact_test t iw mw = (r =? 1)).
Proof.
  intros t iw mw r Hin. pose proof probes_all_ok as H. rewrite forallb_forall in H.
  specialize (H _ Hin). cbn [probe_ok] in H. apply andb_true_iff in H. destruct H as [H1 H2].
  apply Bool.eqb_prop in H1. split; [exact H1|]. intros Hi Hm.
  apply Z.ltb_lt in Hi, Hm. rewrite Hi, Hm in H2. cbn [andb] in H2. apply Bool.eqb_prop in H2. exact H2.
Qed.

Lemma probes_many : (5000 <= length float_probes)%nat.
Proof. apply Nat.leb_le. vm_compute. reflexivity. Qed.

(* beyond 2^53 the float test is NOT the exact test: i*weight = 2^53 + 1
   converts to 2^53 *)
Theorem float_test_beyond_2p53_differs :
  exists taken iw maxw, 0 <= taken /\ 0 < maxw /\ prim_test taken iw maxw <> exact_test taken iw maxw.
Proof.
  exists (2 ^ 53), (2 ^ 53 + 1), 1. split; [discriminate|]. split; [reflexivity|]. vm_compute. discriminate.
Qed.
