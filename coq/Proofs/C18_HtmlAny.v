(* C18 - HTML templates over arbitrary literal markup (round 6): the real
   pipeline (escape each value, paste into the template, parse the whole
   string) computes what Model/C18_HtmlAny.v specifies with the values as DATA;
   and, for EVERY markup string, a successful HTML() never yields a zero-width
   fragment (the fg/bg guard + the XML name grammar keep '[' out of every
   style), so its plain text is the concatenation of its fragments' texts. *)
From Coq Require Import ZArith List Bool Lia.
From PTK Require Import Lib.Sx Lib.Py Gen.Whitespace Model.C18_Fragments Model.C18_Ansi Model.C18_Html
  Model.C18_AnsiGrammar Model.C18_HtmlAny
  Proofs.C18_FragmentsFacts Proofs.C18_AnsiFacts Proofs.C18_AnsiStrip Proofs.C18_HtmlFacts Proofs.C18_HtmlTemplate
  Proofs.C18_HtmlPlain.
Import ListNotations.
Open Scope Z_scope.

(* ---------------------------------------------------------------------- *)
(* a value at a data position, with the exact "]]>" bookkeeping *)

Lemma vdat_dat c : vdat c = dat cfg_now c.
Proof. unfold vdat, dat. cbn [cfg_html_xmlsafe cfg_now andb]. destruct (xml_char c); reflexivity. Qed.

Lemma map_vdat v : map vdat v = map (dat cfg_now) v.
Proof. apply map_ext. exact vdat_dat. Qed.

Lemma vdat_xml c : xml_char (vdat c) = true.
Proof. unfold vdat. destruct (xml_char c) eqn:E; [exact E | reflexivity]. Qed.

Lemma vdat_eqb c x : xml_char x = true -> (x =? QM) = false -> (vdat c =? x) = (c =? x).
Proof.
  intros Hx Hq. unfold vdat. destruct (xml_char c) eqn:E; [reflexivity|].
  rewrite Z.eqb_sym, Hq. symmetry. apply Z.eqb_neq. intros ->. congruence.
Qed.

Lemma text_plain_exact k h acc rb d :
  h_mode h = HText acc false rb -> h_stack h <> [] ->
  xml_char d = true -> (d =? LT) = false -> (d =? AMP) = false -> (d =? 13) = false -> (d =? GT) = false ->
  hstep k h d = Ok (set_hmode h (HText (acc ++ [d]) false (if d =? 93 then Z.min 2 (rb + 1) else 0))).
Proof.
  intros Hm Hs Hx H1 H2 H3 H4.
  destruct h as [m stk nms fgs bgs out verr rd]; cbn [h_mode h_stack] in Hm, Hs; subst m.
  destruct stk as [|fr stk]; [congruence|].
  unfold hstep. rewrite Hx. cbn [negb h_mode h_stack]. rewrite H1, H2, H3.
  destruct (d =? 10) eqn:E10; [apply Z.eqb_eq in E10; subst d; reflexivity|].
  destruct (d =? 93); [reflexivity|].
  rewrite H4. reflexivity.
Qed.

(* &#13; : the character reference delivers \r as data, untouched by line-end normalisation *)
Lemma text_cr_ref h acc cr rb :
  h_mode h = HText acc cr rb -> h_stack h <> [] ->
  hrun cfg_now h e_cr = Ok (set_hmode h (HText (acc ++ [13]) false 0)).
Proof.
  intros Hm Hs. destruct h as [m stk nms fgs bgs out verr rd]; cbn [h_mode h_stack] in Hm, Hs; subst m.
  destruct stk as [|fr stk]; [congruence|]. reflexivity.
Qed.

Lemma attr_cr_ref h nm ats an q acc cr :
  h_mode h = HAttrVal nm ats an q acc cr -> (q = DQ \/ q = SQ) ->
  hrun cfg_now h e_cr = Ok (set_hmode h (HAttrVal nm ats an q (acc ++ [13]) false)).
Proof.
  intros Hm Hq. destruct h as [m stk nms fgs bgs out verr rd]; cbn [h_mode] in Hm; subst m.
  destruct Hq as [-> | ->]; reflexivity.
Qed.

Lemma text_value_exact : forall v h acc rb,
  h_mode h = HText acc false rb -> h_stack h <> [] ->
  hrun cfg_now h (html_escape cfg_now v)
  = Ok (set_hmode h (HText (acc ++ map vdat v) false (rb_after rb v))).
Proof.
  induction v as [|c r IH]; intros h acc rb Hm Hs.
  - rewrite html_escape_flat. cbn [flat_map hrun map rb_after]. rewrite app_nil_r.
    destruct h; cbn in Hm; subst; reflexivity.
  - change (c :: r) with ([c] ++ r). rewrite html_escape_app, html_escape_one, hrun_app.
    assert (Hstep : hrun cfg_now h (esc1 cfg_now c)
                    = Ok (set_hmode h (HText (acc ++ [vdat c]) false (if c =? 93 then Z.min 2 (rb + 1) else 0)))).
    { destruct (Z.eq_dec c 13) as [->|H13].
      { change (esc1 cfg_now 13) with e_cr. now rewrite (text_cr_ref h acc false rb Hm Hs). }
      destruct (esc1_cases cfg_now c H13) as [[He Hc]|(He & E1 & E2 & E3 & E4 & E5)].
      - rewrite He. rewrite (text_entity cfg_now h acc false rb c Hm Hs Hc).
        destruct Hc as [->|[->|[->|[->| ->]]]]; reflexivity.
      - rewrite He, <- vdat_dat. cbn [hrun].
        assert (Q1 : (vdat c =? LT) = false) by (now rewrite vdat_eqb).
        assert (Q2 : (vdat c =? AMP) = false) by (now rewrite vdat_eqb).
        assert (Q3 : (vdat c =? 13) = false) by (rewrite vdat_eqb; [now apply Z.eqb_neq | reflexivity | reflexivity]).
        assert (Q4 : (vdat c =? GT) = false) by (now rewrite vdat_eqb).
        rewrite (text_plain_exact cfg_now h acc rb (vdat c) Hm Hs (vdat_xml c) Q1 Q2 Q3 Q4).
        now rewrite vdat_eqb. }
    rewrite Hstep.
    rewrite (IH (set_hmode h (HText (acc ++ [vdat c]) false (if c =? 93 then Z.min 2 (rb + 1) else 0)))
                (acc ++ [vdat c]) _ eq_refl Hs).
    rewrite set_hmode_twice. cbn [map rb_after]. now rewrite <- app_assoc.
Qed.

Lemma attr_value_exact nm ats an q : forall v h acc,
  h_mode h = HAttrVal nm ats an q acc false -> (q = DQ \/ q = SQ) ->
  (forall c, In c v -> c <> 10 /\ c <> 9) ->
  hrun cfg_now h (html_escape cfg_now v)
  = Ok (set_hmode h (HAttrVal nm ats an q (acc ++ map vdat v) false)).
Proof.
  induction v as [|c r IH]; intros h acc Hm Hq Hv.
  - rewrite html_escape_flat. cbn [flat_map hrun map]. rewrite app_nil_r.
    destruct h; cbn in Hm; subst; reflexivity.
  - change (c :: r) with ([c] ++ r). rewrite html_escape_app, hrun_app.
    assert (Hstep : hrun cfg_now h (html_escape cfg_now [c])
                    = Ok (set_hmode h (HAttrVal nm ats an q (acc ++ [vdat c]) false))).
    { destruct (Z.eq_dec c 13) as [->|H13].
      - rewrite html_escape_one. change (esc1 cfg_now 13) with e_cr.
        now rewrite (attr_cr_ref h nm ats an q acc false Hm Hq).
      - rewrite (html_attr_inert_now nm ats an q [c] h acc Hm Hq).
        + cbn [map]. now rewrite vdat_dat.
        + intros x [<-|[]]. destruct (Hv c (or_introl eq_refl)) as [H10 H9]. tauto. }
    rewrite Hstep.
    rewrite (IH (set_hmode h (HAttrVal nm ats an q (acc ++ [vdat c]) false)) (acc ++ [vdat c]) eq_refl Hq).
    + rewrite set_hmode_twice. cbn [map]. now rewrite <- app_assoc.
    + intros x Hx. apply Hv. now right.
Qed.

(* the per-hole theorems of rounds 1-2, now without their \r side condition *)
Theorem html_text_inert_cr v h acc rb :
  h_mode h = HText acc false rb -> h_stack h <> [] ->
  exists rb', hrun cfg_now h (html_escape cfg_now v)
              = Ok (set_hmode h (HText (acc ++ map (dat cfg_now) v) false rb')).
Proof. intros Hm Hs. exists (rb_after rb v). rewrite <- map_vdat. now apply text_value_exact. Qed.

Theorem html_attr_inert_cr nm ats an q v h acc :
  h_mode h = HAttrVal nm ats an q acc false -> (q = DQ \/ q = SQ) ->
  (forall c, In c v -> c <> 10 /\ c <> 9) ->
  hrun cfg_now h (html_escape cfg_now v)
  = Ok (set_hmode h (HAttrVal nm ats an q (acc ++ map (dat cfg_now) v) false)).
Proof. intros Hm Hq Hv. rewrite <- map_vdat. now apply attr_value_exact. Qed.

Lemma mem_Z_false_not_in c v : mem_Z c v = false -> ~ In c v.
Proof.
  induction v as [|x r IH]; intros H Hi; [contradiction|].
  cbn [mem_Z] in H. apply orb_false_iff in H. destruct H as [Hx Hr].
  destruct Hi as [->|Hi]; [rewrite Z.eqb_refl in Hx; discriminate | now apply IH].
Qed.

(* [inject] is what the escaped value does to the machine *)
Theorem inject_correct h v h2 :
  inject h v = Some h2 -> hrun cfg_now h (html_escape cfg_now v) = Ok h2.
Proof.
  unfold inject. intros H.
  destruct (h_mode h) as [acc cr rb| | | | | | | |nm ats an q acc cr| | | | |] eqn:Hm; try discriminate.
  - destruct cr; [discriminate|].
    destruct (h_stack h) as [|fr stk] eqn:Hs; [discriminate|].
    injection H as <-.
    apply text_value_exact; [exact Hm | rewrite Hs; discriminate].
  - destruct cr; [discriminate|].
    destruct (((q =? DQ) || (q =? SQ)) && attr_value_ok v) eqn:Hc; [|discriminate]. injection H as <-.
    apply andb_true_iff in Hc. destruct Hc as [Hq Hv].
    apply attr_value_exact; [exact Hm | |].
    + apply orb_true_iff in Hq. destruct Hq as [Hq|Hq]; apply Z.eqb_eq in Hq; tauto.
    + unfold attr_value_ok in Hv. apply negb_true_iff in Hv. rewrite !orb_false_iff in Hv.
      destruct Hv as [H10 H9]. intros c Hc.
      split; intros ->; [apply (mem_Z_false_not_in _ _ H10) | apply (mem_Z_false_not_in _ _ H9)]; exact Hc.
Qed.

(* ---------------------------------------------------------------------- *)
(* ANY template: literal pieces of arbitrary markup, values anywhere the
   specification makes a claim *)

Lemma esc_nil : html_escape cfg_now [] = [].
Proof. reflexivity. Qed.

Lemma fill_cons2 p q ps vs :
  fill (p :: q :: ps) vs = p ++ hd [] vs ++ fill (q :: ps) (tl vs).
Proof. cbn [fill]. destruct vs; reflexivity. Qed.

Theorem any_template : forall parts vals h,
  match trun h parts vals with
  | TOk h' => hrun cfg_now h (fill parts (map (html_escape cfg_now) vals)) = Ok h'
  | TErr e => hrun cfg_now h (fill parts (map (html_escape cfg_now) vals)) = Err e
  | TNoClaim => True
  end.
Proof.
  induction parts as [|p ps IH]; intros vals h; [reflexivity|].
  cbn [trun]. destruct ps as [|q ps].
  - cbn [fill]. destruct (hrun cfg_now h p); reflexivity.
  - rewrite fill_cons2, hrun_app.
    destruct (hrun cfg_now h p) as [h1|e]; [|reflexivity].
    assert (Hhd : hd [] (map (html_escape cfg_now) vals) = html_escape cfg_now (hd [] vals))
      by (destruct vals; reflexivity).
    assert (Htl : tl (map (html_escape cfg_now) vals) = map (html_escape cfg_now) (tl vals))
      by (destruct vals; reflexivity).
    rewrite Hhd, Htl.
    destruct (inject h1 (hd [] vals)) as [h2|] eqn:Ei; [|exact I].
    rewrite hrun_app, (inject_correct h1 _ h2 Ei).
    exact (IH (tl vals) h2).
Qed.

Lemma fill_app_last : forall ps s vs, ps <> [] -> fill (app_last ps s) vs = fill ps vs ++ s.
Proof.
  induction ps as [|p r IH]; intros s vs Hne; [congruence|].
  destruct r as [|q r]; [reflexivity|].
  change (app_last (p :: q :: r) s) with (p :: app_last (q :: r) s).
  assert (Hc : exists x y, app_last (q :: r) s = x :: y).
  { destruct r; cbn [app_last]; eexists; eexists; reflexivity. }
  destruct Hc as (x & y & Hc). rewrite Hc, fill_cons2, <- Hc, IH by discriminate.
  rewrite fill_cons2. now rewrite <- !app_assoc.
Qed.

Lemma fill_wrap parts vs :
  fill (wrap_parts parts) vs = t_open_root ++ fill parts vs ++ t_close_root.
Proof.
  destruct parts as [|p [|q r]]; [reflexivity | reflexivity |].
  unfold wrap_parts.
  assert (Hc : exists x y, app_last (q :: r) t_close_root = x :: y).
  { destruct r; cbn [app_last]; eexists; eexists; reflexivity. }
  destruct Hc as (x & y & Hc). rewrite Hc, fill_cons2, <- Hc, fill_app_last by discriminate.
  rewrite fill_cons2. now rewrite <- !app_assoc.
Qed.

Lemma html_parse_finish s :
  html_parse cfg_now s = match hrun cfg_now hst0 (t_open_root ++ s ++ t_close_root) with
                         | Ok h => html_finish h
                         | Err e => Err e
                         end.
Proof. reflexivity. Qed.

(* HTML(template) % values (and .format): whenever the specification makes a
   claim, the real pipeline gives exactly that. *)
Theorem values_as_data parts vals r :
  html_values_as_data parts vals = Some r -> html_template cfg_now parts vals = r.
Proof.
  unfold html_values_as_data, html_template. intros H.
  rewrite html_parse_finish, <- fill_wrap.
  pose proof (any_template (wrap_parts parts) vals hst0) as Ha.
  destruct (trun hst0 (wrap_parts parts) vals) as [h|e|]; [| |discriminate]; injection H as <-; now rewrite Ha.
Qed.

(* the specification does make a claim: a text hole and a double-quoted attribute hole *)
Example values_as_data_example :
  html_values_as_data
    [[60; 98; 62; 97; 62; 39; 38; 35; 54; 53; 59]; [60; 47; 98; 62; 60; 105; 32; 102; 103; 32; 61; 32; 34]; [34; 47; 62]]
    [[60; 38; 27]; [114; 101; 100]]
  = Some (Ok [mkfrag [99; 108; 97; 115; 115; 58; 98] [97; 62; 39; 65; 60; 38; 63] []]).
Proof. vm_compute. reflexivity. Qed.

(* ---------------------------------------------------------------------- *)
(* no zero-width fragment out of HTML(), for every markup string *)

Definition mode_name_clean (m : hmode) : Prop :=
  match m with
  | HOpenName nm | HInTag nm _ _ | HAttrName nm _ _ | HAfterAttrName nm _ _ | HAfterEq nm _ _
  | HAttrVal nm _ _ _ _ _ | HAttrEnt nm _ _ _ _ _ | HSlash nm _ => clean nm
  | _ => True
  end.

Definition out_clean (h : hst) : Prop := Forall (fun f => clean (fstyle f)) (h_out h).

Definition R (h : hst) : Prop := h_verr h = true \/ (stacks_clean h /\ out_clean h).

Definition hinv (h : hst) : Prop := mode_name_clean (h_mode h) /\ R h.

Lemma R_set_mode h m : R h -> R (set_hmode h m).
Proof. unfold R, stacks_clean, out_clean. cbn. tauto. Qed.

Lemma R_flush h acc m stk : R h ->
  R (mkhst m stk (h_names h) (h_fgs h) (h_bgs h) (flush_text h acc) (h_verr h) (h_rootdone h)).
Proof.
  intros [Hv|[Hs Ho]]; [left; exact Hv | right]. split; [exact Hs|].
  unfold out_clean, flush_text. cbn [h_out]. destruct acc as [|a acc]; [exact Ho|].
  apply Forall_app. split; [exact Ho|]. constructor; [|constructor].
  cbn [fstyle]. now apply current_style_clean.
Qed.

Lemma open_element_verr h nm ats : h_verr (open_element cfg_now h nm ats) = false -> h_verr h = false.
Proof.
  unfold open_element. destruct (scan_fg_bg ats [] []). cbn [h_verr]. intros H.
  rewrite !orb_false_iff in H. tauto.
Qed.

Lemma R_open h nm ats : R h -> clean nm -> R (open_element cfg_now h nm ats).
Proof.
  intros HR Hn. destruct (h_verr (open_element cfg_now h nm ats)) eqn:E; [left; exact E | right].
  pose proof (open_element_verr h nm ats E) as Hv.
  destruct HR as [HR|[Hs Ho]]; [congruence|]. split.
  - now apply open_element_clean.
  - unfold out_clean, open_element in *. destruct (scan_fg_bg ats [] []). exact Ho.
Qed.

Lemma R_close h nm hd : R h -> close_element h nm = Ok hd -> R hd /\ mode_name_clean (h_mode hd).
Proof.
  intros HR H. unfold close_element in H.
  destruct (h_stack h) as [|fr rest]; [discriminate|].
  destruct (str_eqb (fr_name fr) nm); [|discriminate]. injection H as <-.
  split; [|exact I]. destruct HR as [Hv|[(Hn & Hf & Hb) Ho]]; [left; exact Hv | right]. split; [|exact Ho].
  unfold stacks_clean. cbn [h_names h_fgs h_bgs]. repeat split.
  - destruct (fr_addname fr); [now apply removelast_clean | assumption].
  - destruct (fr_fg fr); [now apply removelast_clean | assumption].
  - destruct (fr_bg fr); [now apply removelast_clean | assumption].
Qed.

Lemma clean_snoc nm c : clean nm -> name_char c = true -> clean (nm ++ [c]).
Proof.
  intros Hn Hc. apply clean_app; [exact Hn|]. unfold clean. cbn [mem_Z].
  now rewrite (name_char_not_bracket c Hc).
Qed.

Lemma clean_single c : name_start c = true -> clean [c].
Proof.
  intros Hc. unfold clean. cbn [mem_Z]. now rewrite (name_char_not_bracket c (name_start_char c Hc)).
Qed.

Lemma open_element_mode k h nm ats : h_mode (open_element k h nm ats) = HText [] false 0.
Proof. unfold open_element. destruct (scan_fg_bg ats [] []). reflexivity. Qed.

Lemma hinv_step h c h' : hinv h -> hstep cfg_now h c = Ok h' -> hinv h'.
Proof.
  intros [Hn HR] H. unfold hstep in H.
  destruct (negb (xml_char c)); [discriminate|].
  destruct (h_mode h) eqn:Hm; cbn [mode_name_clean] in Hn; unfold bad_markup_char, empty_element in H;
    repeat match type of H with
           | context [match h_stack h with _ => _ end] => destruct (h_stack h)
           | context [match entity ?e with _ => _ end] => destruct (entity e)
           | context [if ?b then _ else _] => destruct b eqn:?
           end;
    try discriminate;
    try (injection H as <-; split;
         [cbn [h_mode set_hmode mode_name_clean]; rewrite ?open_element_mode;
          first [exact I | exact Hn | now apply clean_snoc | now apply clean_single | assumption]
         | first [now apply R_set_mode | now apply R_flush | now apply R_open | exact HR]]);
    try (injection H as <-; split; [rewrite Hm; cbn [mode_name_clean]; first [exact I | exact Hn] | exact HR]);
    try (destruct (R_close _ _ _ HR H) as [HR' Hn']; split; assumption);
    try (destruct (R_close _ _ _ (R_open h _ _ HR Hn) H) as [HR' Hn']; split; assumption).
Qed.

Lemma hinv_run : forall s h h', hinv h -> hrun cfg_now h s = Ok h' -> hinv h'.
Proof.
  induction s as [|c r IH]; intros h h' Hi H.
  - cbn in H. now injection H as <-.
  - cbn [hrun] in H. destruct (hstep cfg_now h c) as [h1|e] eqn:E; [|discriminate].
    exact (IH h1 h' (hinv_step h c h1 Hi E) H).
Qed.

Lemma hinv0 : hinv hst0.
Proof. split; [exact I|]. right. split; [repeat split; constructor | constructor]. Qed.

Lemma clean_frags_text o :
  Forall (fun f => clean (fstyle f)) o ->
  fragment_list_to_text o = concat (map ftext o) /\ zw_payloads o = [].
Proof.
  induction o as [|f r IH]; intros H; [split; reflexivity|].
  inversion H as [|? ? Hf Hr]; subst. destruct (IH Hr) as [I1 I2].
  cbn [fragment_list_to_text zw_payloads map concat]. rewrite (clean_not_zwe _ Hf), I1, I2. split; reflexivity.
Qed.

(* For EVERY markup string: if HTML(s) succeeds, none of its fragments is
   zero-width raw output and no style contains a "[...]" token at all; the
   plain text is the concatenation of the fragments' texts. *)
Theorem html_never_zero_width s out :
  html_parse cfg_now s = Ok out ->
  Forall (fun f => mem_Z 91 (fstyle f) = false) out /\
  zw_payloads out = [] /\
  fragment_list_to_text out = concat (map ftext out).
Proof.
  rewrite html_parse_finish. intros H.
  destruct (hrun cfg_now hst0 (t_open_root ++ s ++ t_close_root)) as [h|e] eqn:E; [|discriminate].
  destruct (hinv_run _ _ _ hinv0 E) as [_ HR].
  unfold html_finish in H.
  destruct (h_mode h); try discriminate. destruct (h_stack h); [|discriminate].
  destruct (h_rootdone h); [|discriminate]. destruct (h_verr h) eqn:Ev; [discriminate|]. injection H as <-.
  destruct HR as [HR|[_ Ho]]; [congruence|].
  split; [exact Ho|]. destruct (clean_frags_text _ Ho) as [H1 H2]. split; assumption.
Qed.

(* in particular for every template, every value and every engine result *)
Corollary html_template_never_zero_width parts vals out :
  html_template cfg_now parts vals = Ok out ->
  zw_payloads out = [] /\ fragment_list_to_text out = concat (map ftext out).
Proof. unfold html_template. intros H. destruct (html_never_zero_width _ _ H) as (_ & H1 & H2). split; assumption. Qed.

(* ---------------------------------------------------------------------- *)
(* \r in a value at a text hole (finding C18-F14, repaired by 44b4e9c) *)

(* pinned snapshot: HTML('<b>%s\nx</b>') % 'a\r'  ->  [('class:b', 'a\nx')]: XML line-end
   normalisation turned the value's \r into \n and swallowed the template's own
   newline; the code that is in /repo now delivers 'a\r\nx', and the specification covers it *)
Theorem html_cr_pinned_refuted :
  exists parts v,
    html_template cfg_pinned parts [v] = Ok [mkfrag [99; 108; 97; 115; 115; 58; 98] [97; 10; 120] []] /\
    v = [97; 13] /\
    html_template cfg_now parts [v] = Ok [mkfrag [99; 108; 97; 115; 115; 58; 98] [97; 13; 10; 120] []] /\
    html_values_as_data parts [v] = Some (Ok [mkfrag [99; 108; 97; 115; 115; 58; 98] [97; 13; 10; 120] []]).
Proof.
  exists [[60; 98; 62]; [10; 120; 60; 47; 98; 62]], [97; 13].
  split; [vm_compute; reflexivity|]. split; [reflexivity|].
  split; vm_compute; reflexivity.
Qed.
