(* Consecutive sessions on one storage: accept in one, recall in the next. *)
From Coq Require Import ZArith List Bool Lia.
From PTK Require Import Lib.Sx Lib.Py Model.Document Model.BufferEdit Model.C14_HistoryNav
  Proofs.C14_Facts Proofs.C14_Nav Proofs.C14_Accept Proofs.C14_Mixed.
Import ListNotations.
Open Scope Z_scope.

Lemma accept_thr c s : thr (th (fst (validate_and_handle c s))) = thr (th s).
Proof.
  pose proof (core_thr c s OAccept) as K. cbn [step_core] in K.
  destruct (validate_and_handle c s) as [s' r]. exact K.
Qed.

Lemma accept_coh c s :
  thr (th s) = false -> Coh (store s) -> Coh (store (fst (validate_and_handle c s))).
Proof.
  intros Ht H. pose proof (core_coh c s OAccept Ht H) as K. cbn [step_core] in K.
  destruct (validate_and_handle c s) as [s' r]. exact K.
Qed.

Lemma recall_next_session c s :
  thr (th s) = false -> Coh (store s) -> verdict_ok c s -> stored_skip (sto (store s)) (text s) = false ->
  let s1 := fst (validate_and_handle c s) in
  let s2 := pop_all (load_start (reopen s1)) in
  ehs s = false ->
  wl s2 = sto (store s) ++ [text s] ++ [[]] /\
  text (history_backward c s2 1) = text s /\
  wl (history_backward c s2 1) = wl s2.
Proof.
  intros Ht Hc Hv Hs s1 s2 He.
  destruct (accept_history c s Ht Hc Hv) as (_ & St & _). fold s1 in St. rewrite Hs in St.
  assert (Ht1 : thr (th s1) = false) by (unfold s1; rewrite accept_thr; exact Ht).
  destruct (new_session_clean s1 Ht1 (accept_coh c s Ht Hc)) as (W & I & _). fold s2 in W, I.
  rewrite St in W, I.
  assert (W' : wl s2 = sto (store s) ++ [text s] ++ [[]]) by (rewrite W, <- app_assoc; reflexivity).
  assert (He2 : ehs s2 = false).
  { unfold s2, pop_all.
    assert (E : forall n x, ehs (pop_n n x) = ehs x).
    { induction n; intros x; cbn [pop_n]; [reflexivity|]. rewrite IHn.
      unfold pop_step. destruct (thr (th x)); [reflexivity|].
      destruct (task x); [|reflexivity]. destruct (tfin x); [reflexivity|].
      destruct (nth_error _ _); reflexivity. }
    rewrite E.
    assert (L : forall x, ehs (load_start x) = ehs x)
      by (intros x; unfold load_start; destruct (task x); [reflexivity|];
          destruct (thr (th x)); [destruct (tstarted (th x))|]; reflexivity).
    rewrite L. change (ehs (reopen s1)) with (ehs s1).
    destruct (accept_valid c s Hv) as (s' & Ev & _ & K1 & K2).
    unfold s1. rewrite Ev. cbn [fst].
    assert (Ee : ehs s' = ehs s).
    { unfold validate_and_handle in Ev.
      destruct (validate_frame c s true) as (_ & _ & _ & _ & F & _).
      destruct (validate c s true) as [sv okv]; cbn [fst] in F. destruct okv; [|discriminate].
      assert (AE : forall x, ehs (append_to_history x) = ehs x).
      { intros x. unfold append_to_history, do_append. destruct (text x); [reflexivity|].
        destruct (ls (hist_for_get x)); [|destruct (str_eqb _ _)]; try (destruct (thr (th x))); reflexivity. }
      inversion Ev; subst. destruct (keep c).
      - rewrite AE. exact F.
      - unfold reset; proj. rewrite AE. exact F. }
    congruence. }
  pose proof (len_nonneg (sto (store s))) as Hn.
  assert (Hw : wi (history_backward c s2 1) = wi s2 - 1).
  { apply history_backward_nofilter; [exact He2|]. rewrite I, len_app. change (len [text s]) with 1. lia. }
  destruct (history_backward_frame c s2 1) as (Fw & _).
  split; [exact W'|]. split; [|exact Fw].
  unfold text. rewrite Fw, Hw, I, W', len_app. change (len [text s]) with 1.
  replace (len (sto (store s)) + 1 - 1) with (len (sto (store s))) by lia.
  cbn [app]. rewrite index_app_mid. reflexivity.
Qed.
