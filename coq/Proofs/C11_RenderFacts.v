(* C11 - the render step itself (Model/C11_CopyBody.v render): Document row/col ->
   processors (BeforeInput, TabsProcessor) -> trailing blank -> margins ->
   scroll -> copy_body, connected to the cursor theorems by proof. *)
From Coq Require Import ZArith List Bool Lia.
From PTK Require Import Lib.Sx Lib.Py Model.C11_Scroll Model.C11_CopyBody
     Proofs.C11_ScrollFacts Proofs.C11_CopyFacts Proofs.C11_ColMapFacts
     Proofs.C11_WrapFacts Proofs.C11_VarPrefixFacts Proofs.C11_Main.
Import ListNotations.
Open Scope Z_scope.

Lemma map_i_nth {T U} : forall (f : Z -> T -> U) l i0 n x,
  nth_error l n = Some x -> nth_error (map_i f i0 l) n = Some (f (i0 + Z.of_nat n) x).
Proof.
  intros f. induction l as [|y r IH]; intros i0 n x Hn; [destruct n; discriminate|].
  destruct n as [|n']; cbn [map_i nth_error] in *.
  - inversion Hn; subst. now rewrite Z.add_0_r.
  - rewrite (IH (i0 + 1) n' x Hn). do 2 f_equal. lia.
Qed.

Lemma map_i_length {T U} : forall (f : Z -> T -> U) l i0, length (map_i f i0 l) = length l.
Proof. intros f. induction l as [|y r IH]; intros; cbn [map_i length]; [reflexivity | now rewrite IH]. Qed.

Lemma len_str_mul : forall s n, 0 <= n -> len (str_mul s n) = n * len s.
Proof.
  intros s n Hn. unfold str_mul. rewrite <- (Z2Nat.id n) at 2 by lia.
  induction (Z.to_nat n) as [|k IH]; [reflexivity|].
  cbn [repeat_str]. rewrite len_app, IH. lia.
Qed.

(* position_mappings[len(line)] is the length of the expanded text *)
Lemma tabs_go_last : forall tabstop c1 c2 line pos, 1 <= tabstop ->
  nth_error (snd (tabs_go tabstop c1 c2 line pos)) (length line)
  = Some (pos + len (fst (tabs_go tabstop c1 c2 line pos))).
Proof.
  intros tabstop c1 c2. induction line as [|c r IH]; intros pos Ht; cbn [tabs_go].
  - cbn. f_equal. lia.
  - pose proof (Z.mod_pos_bound pos tabstop ltac:(lia)) as B.
    destruct (c =? 9).
    + set (count := if tabstop - pos mod tabstop =? 0 then tabstop else tabstop - pos mod tabstop).
      assert (Hc : 1 <= count) by (unfold count; destruct (_ =? 0); lia).
      specialize (IH (pos + count) Ht).
      destruct (tabs_go tabstop c1 c2 r (pos + count)) as [t m]. cbn [fst snd length nth_error] in *.
      rewrite IH. f_equal. rewrite len_cons, len_app, len_str_mul by lia.
      change (len [c2]) with 1. lia.
    + specialize (IH (pos + 1) Ht).
      destruct (tabs_go tabstop c1 c2 r (pos + 1)) as [t m]. cbn [fst snd length nth_error] in *.
      rewrite IH. f_equal. rewrite len_cons. lia.
Qed.

(* the display column of a source column inside the line lies inside the display text *)
Lemma s2d_bound : forall bflag before tabstop c1 c2 lineno line i d,
  0 <= tabstop -> 0 <= i <= len line ->
  pl_s2d (process_line bflag before tabstop c1 c2 lineno line) i = Some d ->
  0 <= d <= len (pl_text (process_line bflag before tabstop c1 c2 lineno line)).
Proof.
  intros bflag before tabstop c1 c2 lineno line i d Ht Hi Hs.
  unfold pl_s2d, process_line, before_shift in *.
  pose proof (len_nonneg before) as Hb.
  set (l1 := if bflag && (lineno =? 0) then before ++ line else line) in *.
  set (sh := if bflag && (lineno =? 0) then len before else 0) in *.
  assert (Hl1 : len l1 = len line + sh /\ 0 <= sh).
  { unfold l1, sh. destruct (bflag && (lineno =? 0)); [rewrite len_app|]; lia. }
  destruct (tabstop =? 0) eqn:E; cbn [pl_map pl_shift pl_text] in *.
  - inversion Hs; subst. lia.
  - pose proof (tabs_go_last tabstop c1 c2 l1 0 ltac:(lia)) as HL.
    pose proof (tabs_go_incr tabstop c1 c2 l1 0 ltac:(lia)) as [HI _].
    destruct (tabs_go tabstop c1 c2 l1 0) as [t m]. cbn [pl_map pl_shift pl_text fst snd] in *.
    unfold map_get in Hs. destruct (i + sh <? 0) eqn:E2; [lia|].
    pose proof (incr_nth_ge m 0 _ d HI Hs) as Hge.
    destruct (Z.eq_dec (i + sh) (len l1)) as [Heq | Hne].
    + rewrite Heq in Hs. unfold len in Hs. rewrite Nat2Z.id in Hs. rewrite HL in Hs. inversion Hs. lia.
    + assert (d < 0 + len t); [|lia].
      eapply (incr_nth_lt m 0 (Z.to_nat (i + sh)) (length l1)); [exact HI | unfold len in *; lia | exact Hs | exact HL].
Qed.

Lemma nth_zrange_map {T} : forall (f : Z -> T) n a k, (k < n)%nat ->
  nth_error (map f (zrange a n)) k = Some (f (a + Z.of_nat k)).
Proof.
  intros f. induction n as [|n IH]; intros a k Hk; [lia|].
  cbn [zrange map]. destruct k as [|k']; cbn [nth_error].
  - now rewrite Z.add_0_r.
  - rewrite IH by lia. do 2 f_equal. lia.
Qed.

(* the verdict [rendered_cursor_ok] reads rowcol_to_yx through r_look *)
Lemma look_verdict : forall (r2 : list ((Z * Z) * (Z * Z))) (lines : list str) row ucol ld Y X W Hh xpos ypos
    s st mw bw cur extra d2s vlook grid,
  0 <= row -> nth_error lines (Z.to_nat row) = Some ld -> 0 <= ucol < len ld ->
  alist_get r2 (row, ucol) = Some (Y, X) ->
  ypos <= Y < ypos + Hh -> xpos + mw <= X < xpos + mw + bw ->
  rendered_cursor_ok W Hh xpos ypos
    (mkrend s st mw bw (row, ucol) cur
       (map_i (fun l (line : str) => map (fun c => alist_get r2 (l, c)) (zrange 0 (length line))) 0 lines)
       extra d2s vlook grid) = true.
Proof.
  intros r2 lines row ucol ld Y X W Hh xpos ypos s st mw bw cur extra d2s vlook grid
         Hr Hl Hu Hget HY HX.
  unfold rendered_cursor_ok. cbn [r_look r_ui r_mw r_bw fst snd].
  rewrite (map_i_nth _ lines 0 _ ld Hl).
  rewrite nth_zrange_map by (unfold len in Hu; lia).
  replace (0 + Z.of_nat (Z.to_nat row)) with row by lia.
  replace (0 + Z.of_nat (Z.to_nat ucol)) with ucol by lia.
  rewrite Hget.
  destruct (ypos <=? Y) eqn:E1; [|lia]. destruct (Y <? ypos + Hh) eqn:E2; [|lia].
  destruct (xpos + mw <=? X) eqn:E3; [|lia]. destruct (X <? xpos + mw + bw) eqn:E4; [|lia]. reflexivity.
Qed.

(* reading one cell of the rendered body *)
Lemma grid_cell : forall (scr : screen) Hh bw xpos ypos mw y x, 0 <= y < Hh -> 0 <= x < bw ->
  exists rowg,
    nth_error (map (fun y => map (fun x => cstr (scr_get scr (y + ypos) (x + xpos + mw)))
                                 (zrange 0 (Z.to_nat bw))) (zrange 0 (Z.to_nat Hh))) (Z.to_nat y) = Some rowg /\
    nth_error rowg (Z.to_nat x) = Some (cstr (scr_get scr (y + ypos) (x + xpos + mw))).
Proof.
  intros scr Hh bw xpos ypos mw y x Hy Hx. eexists. split.
  - rewrite nth_zrange_map by lia. reflexivity.
  - rewrite nth_zrange_map by lia.
    replace (0 + Z.of_nat (Z.to_nat y)) with y by lia. replace (0 + Z.of_nat (Z.to_nat x)) with x by lia.
    reflexivity.
Qed.

(* ---------------------------------------------------------------------- *)
(* what the processed line shows at the image of a source column *)
Lemma tabs_go_char : forall tabstop c1 c2 line pos i ch, 1 <= tabstop ->
  nth_error line i = Some ch ->
  exists a, nth_error (snd (tabs_go tabstop c1 c2 line pos)) i = Some a /\ pos <= a /\
            nth_error (fst (tabs_go tabstop c1 c2 line pos)) (Z.to_nat (a - pos))
            = Some (if ch =? 9 then c1 else ch).
Proof.
  intros tabstop c1 c2. induction line as [|c r IH]; intros pos i ch Ht Hn; [destruct i; discriminate|].
  cbn [tabs_go]. pose proof (Z.mod_pos_bound pos tabstop ltac:(lia)) as B.
  destruct (c =? 9) eqn:Ec.
  - set (count := if tabstop - pos mod tabstop =? 0 then tabstop else tabstop - pos mod tabstop).
    assert (Hc : 1 <= count) by (unfold count; destruct (_ =? 0); lia).
    destruct i as [|i']; cbn [nth_error] in Hn.
    + inversion Hn; subst ch. destruct (tabs_go tabstop c1 c2 r (pos + count)) as [t m]. cbn [fst snd nth_error].
      exists pos. rewrite Z.sub_diag, Ec. cbn. repeat split; lia.
    + destruct (IH (pos + count) i' ch Ht Hn) as (a & Ha & Hge & Hch).
      destruct (tabs_go tabstop c1 c2 r (pos + count)) as [t m]. cbn [fst snd nth_error] in *.
      exists a. split; [exact Ha|]. split; [lia|].
      replace (Z.to_nat (a - pos)) with (S (Z.to_nat (count - 1) + Z.to_nat (a - (pos + count))))%nat by lia.
      cbn [nth_error]. rewrite nth_error_app2.
      2:{ pose proof (len_str_mul [c2] (count - 1) ltac:(lia)) as L. change (len [c2]) with 1 in L. unfold len in L. lia. }
      pose proof (len_str_mul [c2] (count - 1) ltac:(lia)) as L. change (len [c2]) with 1 in L. unfold len in L.
      replace (Z.to_nat (count - 1) + Z.to_nat (a - (pos + count)) - length (str_mul [c2] (count - 1)))%nat
        with (Z.to_nat (a - (pos + count))) by lia.
      exact Hch.
  - destruct i as [|i']; cbn [nth_error] in Hn.
    + inversion Hn; subst ch. destruct (tabs_go tabstop c1 c2 r (pos + 1)) as [t m]. cbn [fst snd nth_error].
      exists pos. rewrite Z.sub_diag, Ec. cbn. repeat split; lia.
    + destruct (IH (pos + 1) i' ch Ht Hn) as (a & Ha & Hge & Hch).
      destruct (tabs_go tabstop c1 c2 r (pos + 1)) as [t m]. cbn [fst snd nth_error] in *.
      exists a. split; [exact Ha|]. split; [lia|].
      replace (Z.to_nat (a - pos)) with (S (Z.to_nat (a - (pos + 1)))) by lia.
      cbn [nth_error]. exact Hch.
Qed.

(* the character the processors show for source column [col]: the character
   itself, the first tab cell under TabsProcessor, nothing (-> the trailing
   blank) at the line end *)
Definition shown (tabstop c1 ch : Z) : Z :=
  if negb (tabstop =? 0) && (ch =? 9) then c1 else ch.

Lemma process_line_char : forall bflag before tabstop c1 c2 lineno line col ucol,
  0 <= tabstop -> 0 <= col ->
  pl_s2d (process_line bflag before tabstop c1 c2 lineno line) col = Some ucol ->
  (forall ch, nth_error line (Z.to_nat col) = Some ch ->
     nth_error (pl_text (process_line bflag before tabstop c1 c2 lineno line)) (Z.to_nat ucol)
     = Some (shown tabstop c1 ch)) /\
  (col = len line -> ucol = len (pl_text (process_line bflag before tabstop c1 c2 lineno line))).
Proof.
  intros bflag before tabstop c1 c2 lineno line col ucol Ht Hc Hs.
  unfold pl_s2d, process_line, before_shift, shown in *.
  pose proof (len_nonneg before) as Hb.
  set (l1 := if bflag && (lineno =? 0) then before ++ line else line) in *.
  set (sh := if bflag && (lineno =? 0) then len before else 0) in *.
  assert (Hl1 : len l1 = len line + sh /\ 0 <= sh /\
                forall ch, nth_error line (Z.to_nat col) = Some ch -> nth_error l1 (Z.to_nat (col + sh)) = Some ch).
  { unfold l1, sh. destruct (bflag && (lineno =? 0)).
    - rewrite len_app. split; [lia|]. split; [lia|]. intros ch Hn.
      rewrite nth_error_app2 by (unfold len; lia).
      replace (Z.to_nat (col + len before) - length before)%nat with (Z.to_nat col) by (unfold len; lia). exact Hn.
    - split; [lia|]. split; [lia|]. intros ch Hn. now rewrite Z.add_0_r. }
  destruct Hl1 as (Hlen & Hsh & Hnth).
  destruct (tabstop =? 0) eqn:E; cbn [pl_map pl_shift pl_text negb andb] in *.
  - inversion Hs; subst ucol. split; [intros ch Hn; now apply Hnth | intros ->; lia].
  - pose proof (tabs_go_last tabstop c1 c2 l1 0 ltac:(lia)) as HL.
    split.
    + intros ch Hn. destruct (tabs_go_char tabstop c1 c2 l1 0 _ ch ltac:(lia) (Hnth ch Hn)) as (a & Ha & _ & Hch).
      destruct (tabs_go tabstop c1 c2 l1 0) as [t m]. cbn [pl_map pl_shift pl_text fst snd] in *.
      unfold map_get in Hs. destruct (col + sh <? 0) eqn:E2; [lia|].
      rewrite Ha in Hs. inversion Hs; subst a. rewrite Z.sub_0_r in Hch. exact Hch.
    + intros Hcol. destruct (tabs_go tabstop c1 c2 l1 0) as [t m]. cbn [pl_map pl_shift pl_text fst snd] in *.
      unfold map_get in Hs. destruct (col + sh <? 0) eqn:E2; [lia|].
      replace (Z.to_nat (col + sh)) with (length l1) in Hs by (unfold len in *; lia).
      rewrite HL in Hs. inversion Hs. lia.
Qed.

(* ---------------------------------------------------------------------- *)
Section Render.
  Variables (g : cfg) (W Hh xpos ypos : Z) (text : str) (cursor : Z) (st : sstate).

  (* every character has source and display width 1 (e.g. an empty width table) *)
  Hypothesis Hnarrow : forall c, tab_sw g c = 1 /\ tab_dw g c = 1.
  Hypothesis Htab : 0 <= g_tabstop g.
  Hypothesis Hoff : 0 <= g_top g /\ 0 <= g_bottom g /\ 0 <= g_left g /\ 0 <= g_right g.
  Hypothesis HW : 1 <= Hh.
  Hypothesis Hvs : 0 <= vs st.

  Definition r_src := split_on NL text.
  Definition r_row := cursor_row text cursor.
  Definition r_col := cursor_col text cursor.
  Definition r_bwid := W - margin_width g (len r_src) - rmargin_width g.

  (* the cursor is in the document: what Document.cursor_position_row/_col
     guarantee for 0 <= cursor <= len text (proved for the Document model in
     Props/C02.v: C02c_cursor_row_col / current_line_nth) *)
  Variable line : str.
  Hypothesis Hdoc : 0 <= r_row /\ nth_error r_src (Z.to_nat r_row) = Some line /\ 0 <= r_col <= len line.

  Lemma render_wrap_cursor :
    g_wrap g = true ->
    (* every line prefix leaves one cell of the body *)
    (forall l k, epw (g_haspfx g) (cfg_pfx g) l k + 1 <= r_bwid) ->
    exists r ucol Y X,
      render g W Hh xpos ypos text cursor st = Some r /\ r_status r = 0 /\
      r_ui r = (r_row, ucol) /\
      pl_s2d (process_line (g_bflag g) (g_before g) (g_tabstop g) TABCH1 TABCH2 r_row line) r_col = Some ucol /\
      pl_d2s (process_line (g_bflag g) (g_before g) (g_tabstop g) TABCH1 TABCH2 r_row line) ucol = r_col /\
      r_cursor r = (Y, X) /\
      ypos <= Y < ypos + Hh /\
      xpos + r_mw r <= X < xpos + r_mw r + r_bw r /\ r_bw r = r_bwid /\
      (* the cursor IS registered in rowcol_to_yx (the verdict the _refuted theorems use) *)
      rendered_cursor_ok W Hh xpos ypos r = true /\
      (* and the body cell at the cursor shows the character of the processed line there *)
      exists c rowg,
        nth_error (pl_text (process_line (g_bflag g) (g_before g) (g_tabstop g) TABCH1 TABCH2 r_row line) ++ [SP])
                  (Z.to_nat ucol) = Some c /\
        nth_error (r_grid r) (Z.to_nat (Y - ypos)) = Some rowg /\
        nth_error rowg (Z.to_nat (X - xpos - r_mw r)) = Some (tab_disp g c).
  Proof.
    intros Hwrap Hfit. destruct Hdoc as (Hr0 & Hline & Hcol). destruct Hoff as (Ht & Hb & _ & _).
    assert (Hbw : 1 <= r_bwid).
    { pose proof (Hfit 0 0). pose proof (epw_nonneg (g_haspfx g) (cfg_pfx g) 0 0). lia. }
    assert (HWpos : 1 <= W).
    { unfold r_bwid, margin_width, rmargin_width in Hbw. destruct (g_margin g); destruct (g_rmargin g); lia. }
    set (P := process_line (g_bflag g) (g_before g) (g_tabstop g) TABCH1 TABCH2).
    destruct (colmap_total (g_bflag g) (g_before g) (g_tabstop g) TABCH1 TABCH2 r_row line Htab r_col ltac:(lia))
      as [ucol Hu]. fold (P r_row line) in Hu.
    pose proof (s2d_bound _ _ _ _ _ _ _ _ _ Htab Hcol Hu) as Hub. fold (P r_row line) in Hub.
    pose proof (colmap_inverse (g_bflag g) (g_before g) (g_tabstop g) TABCH1 TABCH2 r_row line Htab r_col ucol ltac:(lia) Hu) as Hinv.
    set (pls := map_i P 0 r_src).
    set (lines := map (fun p => pl_text p ++ [SP]) pls).
    assert (Hpl : nth_error pls (Z.to_nat r_row) = Some (P r_row line)).
    { unfold pls. rewrite (map_i_nth P r_src 0 _ line Hline). do 2 f_equal. lia. }
    assert (Hln : nth_error lines (Z.to_nat r_row) = Some (pl_text (P r_row line) ++ [SP])).
    { unfold lines. exact (map_nth_error (fun p => pl_text p ++ [SP]) _ _ Hpl). }
    assert (Hlen : len lines = len r_src).
    { unfold lines, pls, len. now rewrite map_length, map_i_length. }
    assert (Hrow : 0 <= r_row < len lines).
    { split; [lia|]. unfold len. pose proof (proj1 (nth_error_Some lines (Z.to_nat r_row)) ltac:(congruence)). lia. }
    assert (Hnth : nth (Z.to_nat r_row) lines [] = pl_text (P r_row line) ++ [SP]).
    { now apply nth_error_nth. }
    assert (Hlines : forall ln, In ln lines -> 1 <= len ln).
    { intros ln Hin. unfold lines in Hin. apply in_map_iff in Hin. destruct Hin as (p & <- & _).
      rewrite len_app. pose proof (len_nonneg (pl_text p)). change (len [SP]) with 1. lia. }
    assert (Hcx : 0 <= ucol < len (nth (Z.to_nat r_row) lines [])).
    { rewrite Hnth, len_app. change (len [SP]) with 1. lia. }
    destruct (row_exists (g_haspfx g) (cfg_pfx g) r_bwid Hfit r_row ucol ltac:(lia)) as [kc Hkc].
    pose proof (wrap_varprefix_cursor (tab_sw g) (tab_dw g) (tab_disp g) (g_haspfx g) (cfg_pfx g)
                  r_bwid Hh (xpos + margin_width g (len lines)) ypos (g_top g) (g_bottom g) lines r_row ucol st (g_allow g) kc
                  (fun c => proj1 (Hnarrow c)) (fun c => proj2 (Hnarrow c))
                  Hfit HW Ht Hb Hvs Hlines Hrow Hcx Hkc) as HT.
    cbv zeta in HT. destruct HT as (Hy & Hx & Hget & c & Hc & Hcell).
    rewrite Hnth in Hc, Hcx.
    unfold render, render_gen.
    destruct ((W <=? 0) || (Hh <=? 0)) eqn:E0; [lia|].
    fold r_src r_row r_col. fold P. fold pls. rewrite Hpl, Hu. fold lines.
    cbv zeta. rewrite Hwrap. unfold r_bwid in *. rewrite <- Hlen in *.
    unfold scroll_wrap in *.
    match type of Hget with _ = Some (?a + ypos, ?b + _) => set (yy := a) in *; set (xx := b) in * end.
    rewrite Hget.
    eexists. exists ucol. eexists. eexists.
    split; [reflexivity|]. cbn [r_status r_ui r_cursor r_mw r_bw r_grid].
    split; [reflexivity|]. split; [reflexivity|]. split; [first [exact Hu | reflexivity]|]. split; [exact Hinv|]. split; [reflexivity|].
    split; [lia|]. split; [lia|]. split; [lia|]. split.
    - eapply (look_verdict _ lines r_row ucol (pl_text (P r_row line) ++ [SP])); [lia | exact Hln | exact Hcx | exact Hget | lia | lia].
    - exists c.
      destruct (grid_cell (cscr (copy_body (tab_sw g) (tab_dw g) (tab_disp g) true (g_haspfx g) (cfg_pfx g)
                                   (W - margin_width g (len lines) - rmargin_width g) Hh
                                   (xpos + margin_width g (len lines)) ypos lines
                                   (scroll_wrap_gen true (g_allow g)
                                      (fun l => height_for_line (tab_sw g) (g_haspfx g) (cfg_pfx g) (nth (Z.to_nat l) lines []) l
                                                  (W - margin_width g (len lines) - rmargin_width g) None)
                                      (fun s0 => height_for_line (tab_sw g) (g_haspfx g) (cfg_pfx g) (nth (Z.to_nat r_row) lines []) r_row
                                                  (W - margin_width g (len lines) - rmargin_width g) (Some s0))
                                      (W - margin_width g (len lines) - rmargin_width g) Hh (g_top g) (g_bottom g) r_row ucol (len lines) st)))
                 Hh (W - margin_width g (len lines) - rmargin_width g) xpos ypos (margin_width g (len lines)) yy xx Hy Hx)
        as (rowg & G1 & G2).
      exists rowg. split; [exact Hc|].
      replace (yy + ypos - ypos) with yy by lia.
      replace (xx + (xpos + margin_width g (len lines)) - xpos - margin_width g (len lines)) with xx by lia.
      split; [exact G1|]. rewrite G2. f_equal.
      replace (xx + xpos + margin_width g (len lines)) with (xx + (xpos + margin_width g (len lines))) by lia.
      exact Hcell.
  Qed.

  Lemma render_nowrap_cursor :
    g_wrap g = false ->
    (* the cursor line's prefix leaves one cell of the body *)
    1 <= r_bwid - (if g_haspfx g then strw (tab_sw g) (cfg_pfx g r_row 0) else 0) ->
    exists r ucol Y X,
      render g W Hh xpos ypos text cursor st = Some r /\ r_status r = 0 /\
      r_ui r = (r_row, ucol) /\
      pl_s2d (process_line (g_bflag g) (g_before g) (g_tabstop g) TABCH1 TABCH2 r_row line) r_col = Some ucol /\
      pl_d2s (process_line (g_bflag g) (g_before g) (g_tabstop g) TABCH1 TABCH2 r_row line) ucol = r_col /\
      r_cursor r = (Y, X) /\
      ypos <= Y < ypos + Hh /\
      xpos + r_mw r <= X < xpos + r_mw r + r_bw r /\ r_bw r = r_bwid /\
      (* the cursor IS registered in rowcol_to_yx (the verdict the _refuted theorems use) *)
      rendered_cursor_ok W Hh xpos ypos r = true /\
      (* and the body cell at the cursor shows the character of the processed line there *)
      exists c rowg,
        nth_error (pl_text (process_line (g_bflag g) (g_before g) (g_tabstop g) TABCH1 TABCH2 r_row line) ++ [SP])
                  (Z.to_nat ucol) = Some c /\
        nth_error (r_grid r) (Z.to_nat (Y - ypos)) = Some rowg /\
        nth_error rowg (Z.to_nat (X - xpos - r_mw r)) = Some (tab_disp g c).
  Proof.
    intros Hwrap Hfit. destruct Hdoc as (Hr0 & Hline & Hcol).
    set (pw := if g_haspfx g then strw (tab_sw g) (cfg_pfx g r_row 0) else 0) in *.
    assert (Hpw0 : 0 <= pw).
    { unfold pw. destruct (g_haspfx g); [|lia]. rewrite strw_narrow by (intros c; apply Hnarrow). apply len_nonneg. }
    assert (HWpos : 1 <= W).
    { unfold r_bwid, margin_width, rmargin_width in Hfit. destruct (g_margin g); destruct (g_rmargin g); lia. }
    set (P := process_line (g_bflag g) (g_before g) (g_tabstop g) TABCH1 TABCH2).
    destruct (colmap_total (g_bflag g) (g_before g) (g_tabstop g) TABCH1 TABCH2 r_row line Htab r_col ltac:(lia))
      as [ucol Hu]. fold (P r_row line) in Hu.
    pose proof (s2d_bound _ _ _ _ _ _ _ _ _ Htab Hcol Hu) as Hub. fold (P r_row line) in Hub.
    pose proof (colmap_inverse (g_bflag g) (g_before g) (g_tabstop g) TABCH1 TABCH2 r_row line Htab r_col ucol ltac:(lia) Hu) as Hinv.
    set (pls := map_i P 0 r_src).
    set (lines := map (fun p => pl_text p ++ [SP]) pls).
    assert (Hpl : nth_error pls (Z.to_nat r_row) = Some (P r_row line)).
    { unfold pls. rewrite (map_i_nth P r_src 0 _ line Hline). do 2 f_equal. lia. }
    assert (Hln : nth_error lines (Z.to_nat r_row) = Some (pl_text (P r_row line) ++ [SP])).
    { unfold lines. exact (map_nth_error (fun p => pl_text p ++ [SP]) _ _ Hpl). }
    assert (Hlen : len lines = len r_src).
    { unfold lines, pls, len. now rewrite map_length, map_i_length. }
    assert (Hrow : 0 <= r_row < len lines).
    { split; [lia|]. unfold len. pose proof (proj1 (nth_error_Some lines (Z.to_nat r_row)) ltac:(congruence)). lia. }
    assert (Hnth : nth (Z.to_nat r_row) lines [] = pl_text (P r_row line) ++ [SP]).
    { now apply nth_error_nth. }
    assert (Hcx : 0 <= ucol < len (nth (Z.to_nat r_row) lines [])).
    { rewrite Hnth, len_app. change (len [SP]) with 1. lia. }
    pose proof (nowrap_narrow_cursor (tab_sw g) (tab_dw g) (tab_disp g) (g_haspfx g) (cfg_pfx g)
                  r_bwid Hh (xpos + margin_width g (len lines)) ypos (g_top g) (g_bottom g) (g_left g) (g_right g)
                  lines r_row ucol st (g_allow g)
                  (fun c => proj1 (Hnarrow c)) (fun c => proj2 (Hnarrow c))
                  HW Hoff Hrow Hcx Hfit) as HT.
    cbv zeta in HT. destruct HT as (Hy & Hx & Hget & c & Hc & Hcell).
    rewrite Hnth in Hc, Hcx.
    unfold render, render_gen.
    destruct ((W <=? 0) || (Hh <=? 0)) eqn:E0; [lia|].
    fold r_src r_row r_col. fold P. fold pls. rewrite Hpl, Hu. fold lines.
    cbv zeta. rewrite Hwrap. unfold r_bwid in *. rewrite <- Hlen in *. fold pw in Hget, Hx, Hy, Hcell |- *.
    match type of Hget with _ = Some (?a + ypos, ?b + _) => set (yy := a) in *; set (xx := b) in * end.
    rewrite Hget.
    eexists. exists ucol. eexists. eexists.
    split; [reflexivity|]. cbn [r_status r_ui r_cursor r_mw r_bw r_grid].
    split; [reflexivity|]. split; [reflexivity|]. split; [first [exact Hu | reflexivity]|]. split; [exact Hinv|]. split; [reflexivity|].
    split; [lia|]. split; [lia|]. split; [lia|]. split.
    - eapply (look_verdict _ lines r_row ucol (pl_text (P r_row line) ++ [SP])); [lia | exact Hln | exact Hcx | exact Hget | lia | lia].
    - exists c.
      match goal with |- context [scr_get (cscr ?o) _ _] =>
        destruct (grid_cell (cscr o) Hh (W - margin_width g (len lines) - rmargin_width g) xpos ypos
                    (margin_width g (len lines)) yy xx Hy ltac:(lia)) as (rowg & G1 & G2) end.
      exists rowg. split; [exact Hc|].
      replace (yy + ypos - ypos) with yy by lia.
      replace (xx + (xpos + margin_width g (len lines)) - xpos - margin_width g (len lines)) with xx by lia.
      split; [exact G1|]. rewrite G2. f_equal.
      replace (xx + xpos + margin_width g (len lines)) with (xx + (xpos + margin_width g (len lines))) by lia.
      exact Hcell.
  Qed.
End Render.
