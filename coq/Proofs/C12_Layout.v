(* C12 - nested splits: every Dimension reported anywhere in a tree is
   well-formed, the nested reports and the nested drawing terminate, and
   write_to_screen draws every child inside its parent's region, in regions
   that are pairwise disjoint. *)
From Coq Require Import ZArith List Bool Lia.
From PTK Require Import Lib.Sx Model.C12_Divide Model.C12_Layout
     Proofs.C12_Safety Proofs.C12_Gen Proofs.C12_Termination Proofs.C12_Fixed Proofs.C12_Cache.
Import ListNotations.
Open Scope Z_scope.

(* ------------------------------------------------------------------ *)
(* induction over trees (the children are a list of trees) *)

Section TreeInd.
  Variable P : tree -> Prop.
  Hypothesis HL : forall id wd hd, P (Leaf id wd hd).
  Hypothesis HN : forall o al pad kids, Forall P kids -> P (Node o al pad kids).
  Hypothesis HW : forall id wd len, P (WLeaf id wd len).
  Hypothesis HO : forall ow oh t, P t -> P (Over ow oh t).

  Fixpoint tree_ind' (t : tree) : P t :=
    match t with
    | Leaf id wd hd => HL id wd hd
    | Node o al pad kids =>
        HN o al pad kids
           ((fix go (l : list tree) : Forall P l :=
               match l with
               | [] => Forall_nil P
               | k :: r => Forall_cons k (tree_ind' k) (go r)
               end) kids)
    | WLeaf id wd len => HW id wd len
    | Over ow oh t' => HO ow oh t' (tree_ind' t')
    end.
End TreeInd.

(* every leaf requirement and every padding is a Dimension as the
   constructor makes them *)
Fixpoint wf (t : tree) : Prop :=
  match t with
  | Leaf _ wd hd => valid wd /\ valid hd
  | Node _ _ pad kids =>
      valid pad /\ (fix all (l : list tree) : Prop :=
                      match l with [] => True | k :: r => wf k /\ all r end) kids
  | WLeaf _ wd len => valid wd /\ 0 <= len
  | Over ow oh t' =>
      (forall d, ow = Some d -> valid d) /\ (forall d, oh = Some d -> valid d) /\ wf t'
  end.

Lemma wrap_height_valid : forall len width, 0 <= len ->
  exists d, wrap_height len width = COk d /\ valid d.
Proof.
  intros len width H. unfold wrap_height.
  assert (Hq : 0 <= (len + Z.max 1 width - 1) / Z.max 1 width) by (apply Z.div_pos; lia).
  destruct (dimension None None None (Some ((len + Z.max 1 width - 1) / Z.max 1 width))) as [d| |] eqn:E.
  - exists d. split; [reflexivity|]. exact (dimension_valid _ _ _ _ _ E).
  - exfalso. unfold dimension in E. cbn [oneg odef orb] in E.
    destruct (_ <? 0) eqn:E0 in E; [apply Z.ltb_lt in E0; lia|]. cbn [orb] in E.
    destruct (HUGE <? 0) eqn:E1 in E; [|discriminate]. pose proof HUGE_pos. apply Z.ltb_lt in E1. lia.
  - exfalso. unfold dimension in E. cbn [oneg odef orb] in E.
    destruct (_ <? 0) eqn:E0 in E; [apply Z.ltb_lt in E0; lia|]. cbn [orb] in E.
    destruct (HUGE <? 0) eqn:E1 in E; discriminate.
Qed.

Lemma wf_node : forall o al pad kids,
  wf (Node o al pad kids) <-> valid pad /\ Forall wf kids.
Proof.
  intros o al pad kids. cbn [wf]. split; intros [Hp Hk]; split; try exact Hp.
  - induction kids as [|k r IH]; constructor; [apply Hk|apply IH, Hk].
  - induction Hk as [|k r Hk1 Hk2 IH]; [exact I|split; assumption].
Qed.

(* ------------------------------------------------------------------ *)
(* collect_rep *)

Definition rep_good (r : rep) : Prop := r = RFuel \/ exists d, r = RDim d /\ valid d.

Lemma collect_rep_good : forall l, Forall rep_good l ->
  collect_rep l = inr RFuel \/
  exists ds, collect_rep l = inl ds /\ Forall valid ds /\ length ds = length l.
Proof.
  induction 1 as [|r l Hr Hl IH]; cbn [collect_rep].
  - right. exists []. auto.
  - destruct Hr as [->|(d & -> & Hd)]; [left; reflexivity|].
    destruct IH as [->|(ds & -> & Hv & Hlen)]; [left; reflexivity|].
    right. exists (d :: ds). repeat split; [constructor; assumption|cbn; lia].
Qed.

Lemma collect_rep_dims : forall l, Forall (fun r => exists d, r = RDim d /\ valid d) l ->
  exists ds, collect_rep l = inl ds /\ Forall valid ds /\ length ds = length l.
Proof.
  induction 1 as [|r l Hr Hl IH]; cbn [collect_rep].
  - exists []. auto.
  - destruct Hr as (d & -> & Hd). destruct IH as (ds & -> & Hv & Hlen).
    exists (d :: ds). repeat split; [constructor; assumption|cbn; lia].
Qed.

Lemma default_dim_valid : exists d, dimension None None None None = COk d /\ valid d.
Proof.
  exists flex. split; [vm_compute; reflexivity|apply flex_valid].
Qed.

Lemma rep_of_good : forall c, (exists d, c = COk d /\ valid d) ->
  exists d, rep_of c = RDim d /\ valid d.
Proof. intros c (d & -> & H). exists d. auto. Qed.

(* ------------------------------------------------------------------ *)
(* preferred_width *)

Theorem pw_valid : forall t, wf t -> exists d, pw t = RDim d /\ valid d.
Proof.
  induction t as [id wd hd|o al pad kids IH|id wd len|ow oh t IH] using tree_ind'; intro Hw;
    [| |cbn in Hw; exists wd; split; [reflexivity|tauto]
     |cbn [wf] in Hw; destruct Hw as (Ho & _ & Ht); cbn [pw]; destruct ow as [d|]; [exists d; split; [reflexivity|apply Ho; reflexivity]|apply IH, Ht]].
  - cbn in Hw. exists wd. split; [reflexivity|tauto].
  - apply wf_node in Hw. destruct Hw as [Hp Hk]. cbn [pw].
    assert (Hall : Forall (fun r => exists d, r = RDim d /\ valid d) (map pw kids)).
    { apply Forall_forall. intros r Hin. apply in_map_iff in Hin. destruct Hin as (k & <- & Hin).
      rewrite Forall_forall in IH, Hk. apply IH; auto. }
    destruct (collect_rep_dims _ Hall) as (ds & -> & Hv & _).
    destruct (o =? 0).
    + destruct ds as [|d0 dr].
      * apply rep_of_good, default_dim_valid.
      * apply rep_of_good, max_layout_valid. exact Hv.
    + apply rep_of_good. rewrite sum_layout_valid by (apply all_children_valid; assumption).
      eexists. split; [reflexivity|].
      destruct (valid_sums _ (all_children_valid al pad ds Hp Hv)) as (H0 & H1 & H2).
      unfold valid; cbn [dmin dmax dpref dweight]. lia.
Qed.

(* ------------------------------------------------------------------ *)
(* the division: possible answers, fuel monotonicity, fuel-free safety *)

Lemma divide_cases : forall fuel done ds avail, Forall valid ds ->
  divide fuel done ds avail = TooSmall \/ divide fuel done ds avail = OutOfFuel \/
  exists l, divide fuel done ds avail = Sizes l.
Proof.
  intros fuel done ds avail Hv. unfold divide.
  destruct ds as [|d0 dr]; [right; right; eauto|].
  rewrite (sum_layout_valid _ Hv). cbn [dmin dmax dpref].
  destruct (_ >? avail); [left; reflexivity|].
  destruct (gen_init _ _) as [g0|]; [|right; right; eauto].
  destruct (next g0) as [[i g1]|]; [|right; left; reflexivity].
  destruct (grow next fuel _ _ _ i g1) as [[[s1 i1] g2]|]; [|right; left; reflexivity].
  destruct done; [right; right; eauto|].
  destruct (grow next fuel _ _ s1 i1 g2) as [[[s2 i2] g3]|]; [right; right; eauto|right; left; reflexivity].
Qed.

Lemma divide_mono : forall f f' done ds avail r,
  divide f done ds avail = r -> r <> OutOfFuel -> (f <= f')%nat ->
  divide f' done ds avail = r.
Proof.
  intros f f' done ds avail r H Hr Hf. unfold divide in *.
  destruct ds as [|d0 dr]; [exact H|].
  destruct (sum_layout_dimensions (d0 :: dr)) as [sd| |]; try exact H.
  destruct (dmin sd >? avail); [exact H|].
  destruct (gen_init _ _) as [g0|]; [|exact H].
  destruct (next g0) as [[i g1]|]; [|exact H].
  destruct (grow next f _ _ _ i g1) as [[[s1 i1] g2]|] eqn:E1; [|congruence].
  rewrite (grow_mono next f _ _ _ _ _ _ E1 f' Hf).
  destruct done; [exact H|].
  destruct (grow next f _ _ s1 i1 g2) as [[[s2 i2] g3]|] eqn:E2; [|congruence].
  rewrite (grow_mono next f _ _ _ _ _ _ E2 f' Hf). exact H.
Qed.

(* whenever sizes come back - whatever the fuel - they are non-negative,
   one per requirement, within min..max, and fit *)
Lemma divide_safe : forall fuel done ds avail l, Forall valid ds ->
  divide fuel done ds avail = Sizes l ->
  length l = length ds /\ Forall (fun s => 0 <= s) l /\ zsum l <= Z.max 0 avail /\
  le_all (mins ds) l /\ le_all l (maxs ds) /\ (ds <> [] -> zsum l <= avail).
Proof.
  intros fuel done ds avail l Hv Hd.
  destruct ds as [|d0 dr] eqn:Eds.
  { cbn in Hd. injection Hd as <-. cbn. repeat split; try constructor; try lia. congruence. }
  rewrite <- Eds in *. assert (Hne : ds <> []) by (rewrite Eds; discriminate).
  set (f' := Nat.max fuel (divide_fuel ds avail)).
  assert (Hd' : divide f' done ds avail = Sizes l)
    by (apply (divide_mono fuel f' done ds avail _ Hd); [discriminate|unfold f'; lia]).
  assert (G : good_fixed done ds avail l)
    by (apply (divide_sizes_good f' done ds avail l Hv); [unfold f'; lia|exact Hne|exact Hd']).
  destruct G as [Gfit Glen Gmin Gmax Gtot _ _ _ _ _].
  assert (Hnn : Forall (fun s => 0 <= s) l).
  { clear - Gmin Hv. unfold mins in Gmin. revert l Gmin. induction Hv as [|d r Hd Hr IH]; intros l Gmin; inversion Gmin; subst.
    - constructor.
    - constructor; [destruct Hd as (? & _); cbn in *; lia|apply IH; assumption]. }
  repeat split; try assumption; try lia.
Qed.

(* ------------------------------------------------------------------ *)
(* preferred_height: well-formed whenever it returns, never an exception *)

Lemma ph_kids_good : forall phk al sizes ks idx,
  Forall (fun k => forall wd, rep_good (phk k wd)) ks ->
  Forall rep_good (ph_kids phk al sizes ks idx).
Proof.
  intros phk al sizes ks. induction ks as [|k r IH]; intros idx H; cbn [ph_kids].
  - constructor.
  - inversion H; subst. constructor; [auto|apply IH; assumption].
Qed.

Lemma ph_kids_length : forall phk al sizes ks idx, length (ph_kids phk al sizes ks idx) = length ks.
Proof. intros phk al sizes ks. induction ks as [|k r IH]; intro idx; cbn [ph_kids length]; [reflexivity|rewrite IH; reflexivity]. Qed.

Theorem ph_good : forall fuel t, wf t -> forall width, rep_good (ph fuel t width).
Proof.
  intros fuel. induction t as [id wd hd|o al pad kids IH|id wd len|ow oh t IH] using tree_ind'; intros Hw width;
    [| |cbn in Hw; right; cbn [ph]; apply rep_of_good, wrap_height_valid; tauto
     |cbn [wf] in Hw; destruct Hw as (_ & Ho & Ht); cbn [ph]; destruct oh as [d|]; [right; exists d; split; [reflexivity|apply Ho; reflexivity]|apply IH, Ht]].
  - cbn in Hw. right. exists hd. split; [reflexivity|tauto].
  - apply wf_node in Hw. destruct Hw as [Hp Hk]. cbn [ph].
    assert (IH' : Forall (fun k => forall wd, rep_good (ph fuel k wd)) kids).
    { rewrite Forall_forall in *. intros k Hin wd. apply IH; auto. }
    destruct (o =? 0).
    + assert (Hall : Forall rep_good (map (fun k => ph fuel k width) kids)).
      { apply Forall_forall. intros r Hin. apply in_map_iff in Hin. destruct Hin as (k & <- & Hin).
        rewrite Forall_forall in IH'. apply IH'; assumption. }
      destruct (collect_rep_good _ Hall) as [->|(ds & -> & Hv & _)]; [left; reflexivity|].
      right. apply rep_of_good. rewrite sum_layout_valid by (apply all_children_valid; assumption).
      eexists. split; [reflexivity|].
      destruct (valid_sums _ (all_children_valid al pad ds Hp Hv)) as (H0 & H1 & H2).
      unfold valid; cbn [dmin dmax dpref dweight]. lia.
    + assert (Hall : Forall (fun r => exists d, r = RDim d /\ valid d) (map pw kids)).
      { apply Forall_forall. intros r Hin. apply in_map_iff in Hin. destruct Hin as (k & <- & Hin).
        rewrite Forall_forall in Hk. apply pw_valid; auto. }
      destruct (collect_rep_dims _ Hall) as (wds & -> & Hv & _).
      destruct (divide_cases fuel false (all_children al pad wds) width (all_children_valid _ _ _ Hp Hv))
        as [->|[->|(l & ->)]].
      * right. apply rep_of_good, default_dim_valid.
      * left. reflexivity.
      * destruct (collect_rep_good _ (ph_kids_good (ph fuel) al l kids O IH')) as [->|(hds & -> & Hvh & _)];
          [left; reflexivity|].
        right. apply rep_of_good, max_layout_valid, all_children_valid; [apply flex_valid|exact Hvh].
Qed.

(* ------------------------------------------------------------------ *)
(* ... and with enough fuel it returns, the same Dimension for every
   larger fuel *)

Lemma Forall_exists_fuel : forall (T : Type) (Q : T -> nat -> Prop) (l : list T),
  (forall x f f', Q x f -> (f <= f')%nat -> Q x f') ->
  Forall (fun x => exists f, Q x f) l -> exists f, Forall (fun x => Q x f) l.
Proof.
  intros T Q l Hm H. induction H as [|x r (f & Hx) Hr (f2 & IH)].
  - exists O. constructor.
  - exists (Nat.max f f2). constructor.
    + apply (Hm x f); [assumption|lia].
    + eapply Forall_impl; [|exact IH]. intros y Hy. apply (Hm y f2); [assumption|lia].
Qed.

Definition ph_stable (t : tree) (width : Z) (f0 : nat) : Prop :=
  exists d, valid d /\ forall fuel, (f0 <= fuel)%nat -> ph fuel t width = RDim d.

Lemma ph_stable_mono : forall t width f f', ph_stable t width f -> (f <= f')%nat -> ph_stable t width f'.
Proof. intros t width f f' (d & Hv & H) Hf. exists d. split; [exact Hv|]. intros fuel Hfu. apply H. lia. Qed.

Lemma collect_rep_map_stable : forall (T : Type) (g : nat -> T -> rep) (l : list T) f0,
  Forall (fun x => exists d, valid d /\ forall fuel, (f0 <= fuel)%nat -> g fuel x = RDim d) l ->
  exists ds, Forall valid ds /\ forall fuel, (f0 <= fuel)%nat -> collect_rep (map (g fuel) l) = inl ds.
Proof.
  intros T g l f0 H. induction H as [|x r (d & Hd & Hx) Hr (ds & Hv & IH)].
  - exists []. split; [constructor|reflexivity].
  - exists (d :: ds). split; [constructor; assumption|]. intros fuel Hf.
    cbn [map collect_rep]. rewrite (Hx fuel Hf), (IH fuel Hf). reflexivity.
Qed.

Lemma ph_kids_as_map : forall phk al sizes ks idx,
  ph_kids phk al sizes ks idx =
  map (fun p => phk (fst p) (nth (kid_entry al (snd p)) sizes 0)) (combine ks (seq idx (length ks))).
Proof.
  intros phk al sizes ks. induction ks as [|k r IH]; intro idx; cbn [ph_kids length seq combine map fst snd];
    [reflexivity|rewrite IH; reflexivity].
Qed.

Theorem ph_total : forall t, wf t -> forall width, exists f0, ph_stable t width f0.
Proof.
  induction t as [id wd hd|o al pad kids IH|id wd len|ow oh t IH] using tree_ind'; intros Hw width;
    [| |cbn in Hw; destruct (wrap_height_valid len width (proj2 Hw)) as (d & Hd & Hv); exists O, d; split; [exact Hv|intros fuel _; cbn [ph]; rewrite Hd; reflexivity]
     |cbn [wf] in Hw; destruct Hw as (_ & Ho & Ht); destruct oh as [d|];
      [exists O, d; split; [apply Ho; reflexivity|reflexivity]
      |destruct (IH Ht width) as (f0 & d & Hv & Hd); exists f0, d; split; [exact Hv|intros fuel Hf; cbn [ph]; apply Hd, Hf]]].
  - cbn in Hw. exists O, hd. split; [tauto|reflexivity].
  - apply wf_node in Hw. destruct Hw as [Hp Hk].
    assert (IH' : Forall (fun k => forall wd, exists f0, ph_stable k wd f0) kids).
    { rewrite Forall_forall in *. intros k Hin wd. apply IH; auto. }
    destruct (o =? 0) eqn:Eo.
    + assert (Hex : Forall (fun k => exists f, ph_stable k width f) kids)
        by (eapply Forall_impl; [|exact IH']; intros k Hk'; apply Hk').
      destruct (Forall_exists_fuel _ (fun k f => ph_stable k width f) kids
                  (fun k f f' => ph_stable_mono k width f f') Hex) as (f0 & Hf0).
      destruct (collect_rep_map_stable tree (fun fuel k => ph fuel k width) kids f0 Hf0) as (ds & Hv & Hc).
      exists f0. eexists. split; [|intros fuel Hf; cbn [ph]; rewrite Eo, (Hc fuel Hf);
        rewrite sum_layout_valid by (apply all_children_valid; assumption); reflexivity].
      destruct (valid_sums _ (all_children_valid al pad ds Hp Hv)) as (H0 & H1 & H2).
      unfold valid; cbn [dmin dmax dpref dweight]. lia.
    + assert (Hall : Forall (fun r => exists d, r = RDim d /\ valid d) (map pw kids)).
      { apply Forall_forall. intros r Hin. apply in_map_iff in Hin. destruct Hin as (k & <- & Hin).
        rewrite Forall_forall in Hk. apply pw_valid; auto. }
      destruct (collect_rep_dims _ Hall) as (wds & Hc & Hv & _).
      pose proof (all_children_valid al pad wds Hp Hv) as Hav.
      set (fd := divide_fuel (all_children al pad wds) width).
      destruct (divide_total false (all_children al pad wds) width fd Hav (le_n _))
        as [(Hts & _)|(l & Hl & _)].
      * exists fd. destruct default_dim_valid as (d & Hd & Hvd). exists d. split; [exact Hvd|].
        intros fuel Hf. cbn [ph]. rewrite Eo, Hc.
        rewrite (divide_mono fd fuel _ _ _ _ Hts) by (try discriminate; exact Hf).
        rewrite Hd. reflexivity.
      * (* the heights of the children at their divided widths *)
        assert (Hex : Forall (fun p => exists f, ph_stable (fst p) (nth (kid_entry al (snd p)) l 0) f)
                             (combine kids (seq O (length kids)))).
        { apply Forall_forall. intros [k j] Hin. cbn [fst snd]. apply in_combine_l in Hin.
          rewrite Forall_forall in IH'. apply IH'; assumption. }
        destruct (Forall_exists_fuel _ (fun p f => ph_stable (fst p) (nth (kid_entry al (snd p)) l 0) f) _
                    (fun p f f' => ph_stable_mono _ _ f f') Hex) as (f1 & Hf1).
        destruct (collect_rep_map_stable _ (fun fuel p => ph fuel (fst p) (nth (kid_entry al (snd p)) l 0)) _ f1 Hf1)
          as (hds & Hvh & Hch).
        destruct (max_layout_valid (all_children al flex hds) (all_children_valid _ _ _ flex_valid Hvh)) as (d & Hd & Hvd).
        exists (Nat.max fd f1), d. split; [exact Hvd|].
        intros fuel Hf. cbn [ph]. rewrite Eo, Hc.
        rewrite (divide_mono fd fuel _ _ _ _ Hl) by (try discriminate; lia).
        rewrite ph_kids_as_map, (Hch fuel) by lia. rewrite Hd. reflexivity.
Qed.
