(* C11 - the scroll state invariant along arbitrary sequences of renders, and
   the counterexamples (witnesses replayed on the real Window by the harness). *)
From Coq Require Import ZArith List Bool Lia.
From PTK Require Import Lib.Sx Lib.Py Model.C11_Scroll Model.C11_CopyBody Proofs.C11_ScrollFacts.
Import ListNotations.
Open Scope Z_scope.

Lemma do_scroll_ge0 : forall allow cur a b pos w content, 0 <= do_scroll allow cur a b pos w content.
Proof.
  intros. unfold do_scroll.
  destruct (cur <? 0) eqn:E1;
  destruct (negb allow && (content - w <? _)) eqn:E2;
  match goal with |- context [if ?a - ?ss <? ?c then _ else _] =>
    destruct (a - ss <? c) eqn:E3 end;
  match goal with |- context [if ?c <? ?d then _ else _] =>
    destruct (c <? d) eqn:E4 end; cbv zeta; lia.
Qed.

Lemma scroll_wrap_vs_ge0 : forall fixed allow Hf tbh width height top bottom cy cx nlines st,
  0 <= cy < nlines -> 0 <= vs st ->
  0 <= vs (scroll_wrap_gen fixed allow Hf tbh width height top bottom cy cx nlines st).
Proof.
  intros fixed allow Hf tbh width height top bottom cy cx nlines st Hcy Hvs. unfold scroll_wrap_gen.
  destruct (width <=? 0); [cbn [vs]; lia|].
  destruct (height - top <? Hf cy); [cbn [vs]; lia|].
  cbv zeta.
  assert (HT : 0 <= get_topmost_visible Hf height nlines).
  { unfold get_topmost_visible.
    destruct (down_loop_id Hf height (Z.to_nat nlines) 0 (nlines - 1)) as [-> | [Hr _]]; lia. }
  assert (HM : 0 <= get_max_vertical_scroll Hf top cy).
  { unfold get_max_vertical_scroll.
    destruct (down_loop_id Hf top (Z.to_nat cy) 0 cy) as [-> | [Hr _]]; lia. }
  destruct allow; cbn [vs]; lia.
Qed.

Inductive step : Type :=
| SWrap (fixed allow : bool) (Hf tbh : Z -> Z) (width height top bottom cy cx nlines : Z)
| SNoWrap (allow : bool) (sw : Z -> Z) (line : str)
          (pw width height top bottom lft rgt cy cx nlines : Z).

Definition step_ok (s : step) : Prop :=
  match s with
  | SWrap _ _ _ _ _ _ _ _ cy _ nlines => 0 <= cy < nlines
  | SNoWrap _ _ _ _ _ _ _ _ _ _ _ _ _ => True
  end.

Definition do_step (st : sstate) (s : step) : sstate :=
  match s with
  | SWrap fixed allow Hf tbh width height top bottom cy cx nlines =>
      scroll_wrap_gen fixed allow Hf tbh width height top bottom cy cx nlines st
  | SNoWrap allow sw line pw width height top bottom lft rgt cy cx nlines =>
      scroll_nowrap allow sw line pw width height top bottom lft rgt cy cx nlines st
  end.

Lemma step_inv : forall st s, step_ok s -> 0 <= vs st -> 0 <= vs (do_step st s).
Proof.
  intros st [fixed allow Hf tbh width height top bottom cy cx nlines
            | allow sw line pw width height top bottom lft rgt cy cx nlines] Hok Hvs; cbn [do_step].
  - now apply scroll_wrap_vs_ge0.
  - unfold scroll_nowrap. cbn [vs]. apply do_scroll_ge0.
Qed.

Lemma steps_inv : forall steps st, Forall step_ok steps -> 0 <= vs st ->
  0 <= vs (fold_left do_step steps st).
Proof.
  induction steps as [|s r IH]; intros st Hok Hvs; cbn [fold_left]; [exact Hvs|].
  inversion Hok; subst. apply IH; [assumption|]. now apply step_inv.
Qed.

(* ---------------------------------------------------------------------- *)
(* witnesses *)

Definition g_plain (wrap : bool) (tab : list (Z * (Z * Z * str))) : cfg :=
  mkcfg wrap false false false 0 0 0 0 false [] [] false 0 false [] tab.

(* F1 (repaired in /repo by commit f4b07a8): 'abcde' in a 5x1 wrapping window,
   cursor at the end - not visible on the pinned snapshot, visible now *)
Definition w1_text : str := [97; 98; 99; 100; 101].
Lemma wrap_narrow_pinned_refuted_w :
  all_narrow (g_plain true []) w1_text = true /\
  render_cursor_ok_pinned (g_plain true []) 5 1 0 0 w1_text 5 (mkss 0 0 0) = false /\
  render_cursor_ok (g_plain true []) 5 1 0 0 w1_text 5 (mkss 0 0 0) = true.
Proof. vm_compute. repeat split. Qed.

(* F13: 'ab\n' + '\x01'*6, 5x2; '\x01' has source width 0 and is drawn as ^A (2 cells) *)
Definition w13_tab : list (Z * (Z * Z * str)) := [(1, (0, 2, [94; 65]))].
Definition w13_text : str := [97; 98; 10; 1; 1; 1; 1; 1; 1].
Lemma wrap_control_refuted_w :
  has_control (g_plain true w13_tab) w13_text = true /\
  render_cursor_ok (g_plain true w13_tab) 5 2 0 0 w13_text 9 (mkss 0 0 0) = false.
Proof. vm_compute. repeat split. Qed.

Lemma nowrap_control_refuted_w :
  render_cursor_ok (g_plain false w13_tab) 5 2 0 0 [1; 1; 1; 1] 4 (mkss 0 0 0) = false.
Proof. vm_compute. reflexivity. Qed.

(* F14: 'ab\ncd\n' + U+754C * 4 + 'z', 5x2 *)
Definition w14_tab : list (Z * (Z * Z * str)) := [(30028, (2, 2, [30028]))].
Definition w14_text : str := [97; 98; 10; 99; 100; 10; 30028; 30028; 30028; 30028; 122].
Lemma wrap_wide_refuted_w :
  has_wide (g_plain true w14_tab) w14_text = true /\ has_control (g_plain true w14_tab) w14_text = false /\
  render_cursor_ok (g_plain true w14_tab) 5 2 0 0 w14_text 11 (mkss 0 0 0) = false.
Proof. vm_compute. repeat split. Qed.

(* a narrow render where everything is fine (hypotheses are satisfiable) *)
Lemma narrow_ok_example :
  all_narrow (g_plain true []) w1_text = true /\
  render_cursor_ok (g_plain true []) 5 1 0 0 w1_text 5 (mkss 0 0 0) = true /\
  render_cursor_ok (g_plain true []) 5 2 0 0 w1_text 5 (mkss 0 0 0) = true /\
  render_cursor_ok (g_plain false []) 3 1 0 0 w1_text 5 (mkss 0 0 0) = true.
Proof. vm_compute. repeat split. Qed.
