(* C17 - the accept boundary: once a handler has set the result, only cursor
   position reports reach handlers; the keys left in the key buffer go back
   to the queue; nothing is thrown away by the next reset().  The only
   hypothesis on the binding set is [cpr_silent]: the report binding does
   not end the prompt and does not touch the edit state. *)
From Coq Require Import ZArith List Bool Lia.
From PTK Require Import Lib.Py Model.C03_Vt100Parser Model.C17_Typeahead Proofs.C17_Core Proofs.C17_Conserve.
Import ListNotations.

(* a handler call or a drop made while the result was not yet set *)
Definition early {bid} (e : ev bid) : Prop :=
  match e with EInvoke l _ _ => l = false | EDrop _ l _ => l = false | _ => False end.

(* what may be logged: after the result is set only a report, alone, reaches a
   handler; nothing is dropped late; reset() never throws keys away *)
Definition ok_ev {bid} (e : ev bid) : Prop :=
  match e with
  | EInvoke true _ ks => exists c, ks = [c] /\ is_cpr c = true
  | EDrop _ true _ => False
  | ELost _ ks q => ks = [] /\ q = []
  | _ => True
  end.

Definition nf (i : item) : Prop := i <> IFlush.

Section P.
Variables E bid res PS : Type.
Variable lookup : E -> list kp -> option bid.
Variable lookup_scan : E -> list kp -> option bid.
Variable waits : E -> list kp -> bool.
Variable eff : bid -> list kp -> E -> E * option res.
Variable is_cprh : bid -> bool.
Variable cpr_lookup : E -> option bid.
Variable feeds : bid -> list kp -> E -> list kp.
Variable restart : E -> E.
Variable pfeed : str -> PS -> PS * list kp.
Variable pflush : PS -> PS * list kp.
Variable res_eof : res.

Notation core := (core E bid res).
Notation sys := (sys E bid res PS).
Notation call := (call eff is_cprh feeds).
Notation scan := (@scan E bid res lookup_scan).
Notation loop := (loop lookup lookup_scan waits eff is_cprh feeds).
Notation send := (send lookup lookup_scan waits eff is_cprh feeds).
Notation handle_cpr := (handle_cpr eff is_cprh cpr_lookup feeds).
Notation deliver := (deliver lookup lookup_scan waits eff is_cprh cpr_lookup feeds).
Notation drain := (drain lookup lookup_scan waits eff is_cprh cpr_lookup feeds).
Notation deliver_d := (deliver_d lookup lookup_scan waits eff is_cprh cpr_lookup feeds).
Notation process_q := (process_q lookup lookup_scan waits eff is_cprh cpr_lookup feeds).
Notation pk := (@pk E bid res PS lookup lookup_scan waits eff is_cprh cpr_lookup feeds).
Notation feed_keys := (@feed_keys E bid res PS lookup lookup_scan waits eff is_cprh cpr_lookup feeds).
Notation do_read := (@do_read E bid res PS lookup lookup_scan waits eff is_cprh cpr_lookup feeds pfeed res_eof).
Notation step := (@step E bid res PS lookup lookup_scan waits eff is_cprh cpr_lookup feeds restart pfeed pflush res_eof).
Notation run := (@run E bid res PS lookup lookup_scan waits eff is_cprh cpr_lookup feeds restart pfeed pflush res_eof).

(* the binding a report is delivered to neither ends the prompt nor edits *)
Definition cpr_silent : Prop :=
  forall e b, cpr_lookup e = Some b -> forall ks e', eff b ks e' = (e', None) /\ feeds b ks e' = [].

Hypothesis Hsil : cpr_silent.

(* ---------------------------------------------------------------------- *)

Lemma call_from_run b ks (c : core) : cph c = CRun res ->
  (cph (call b ks c) = CRun res \/ exists x, cph (call b ks c) = CDone x) /\
  rlog (call b ks c) = EInvoke false b ks :: rlog c /\ kbuf (call b ks c) = kbuf c.
Proof.
  intros PH. unfold C17_Typeahead.call, late; cbn [cph rlog kbuf]. rewrite PH.
  split; [|auto]. destruct (snd (eff b ks (est c))); [right; eexists; reflexivity|left; reflexivity].
Qed.

(* one activation of the coroutine started while the result is not set *)
Lemma loop_from_run fuel : forall fl (c : core), cph c = CRun res ->
  cph (loop fuel fl c) <> CBroken res /\
  (late (loop fuel fl c) = true -> kbuf (loop fuel fl c) = []) /\
  exists evs, rlog (loop fuel fl c) = evs ++ rlog c /\ Forall early evs.
Proof.
  induction fuel as [|f IH]; intros fl c PH; cbn [C17_Typeahead.loop].
  - destruct (kbuf c); (split; [cbn [cph set_oof]; congruence|]);
      (split; [unfold late; cbn [cph set_oof]; rewrite PH; discriminate|]); exists []; split; auto.
  - destruct (kbuf c) as [|k0 tl0] eqn:KBE.
    { split; [congruence|]. split; [unfold late; rewrite PH; discriminate|]. exists []. split; auto. }
    rewrite PH.
    destruct (negb fl && waits (est c) (k0 :: tl0)).
    { split; [congruence|]. split; [unfold late; rewrite PH; discriminate|]. exists []. split; auto. }
    destruct (lookup (est c) (k0 :: tl0)) as [b|].
    { destruct (call_from_run b (k0 :: tl0) c PH) as (P & L & _).
      split; [cbn [cph set_kbuf]; destruct P as [P|[x P]]; congruence|].
      split; [reflexivity|]. exists [EInvoke false b (k0 :: tl0)]. cbn [rlog set_kbuf]. rewrite L.
      split; [reflexivity|]. constructor; [reflexivity|constructor]. }
    assert (R : forall (c1 : core) evs1,
              (cph c1 = CRun res \/ exists x, cph c1 = CDone x) -> rlog c1 = evs1 ++ rlog c -> Forall early evs1 ->
              cph (retry (loop f false) c1) <> CBroken res /\
              (late (retry (loop f false) c1) = true -> kbuf (retry (loop f false) c1) = []) /\
              exists evs, rlog (retry (loop f false) c1) = evs ++ rlog c /\ Forall early evs).
    { intros c1 evs1 P1 L1 F1. unfold retry. destruct (late c1) eqn:LT.
      - cbn [cph kbuf rlog push_back]. split; [destruct P1 as [P1|[x P1]]; congruence|].
        split; [reflexivity|]. exists evs1. auto.
      - assert (P1' : cph c1 = CRun res).
        { destruct P1 as [P1|[x P1]]; [exact P1|]. unfold late in LT. rewrite P1 in LT. discriminate. }
        destruct (IH false c1 P1') as (A & B & evs & L & F).
        split; [exact A|]. split; [exact B|]. exists (evs ++ evs1). rewrite L, L1, app_assoc.
        split; [reflexivity|]. apply Forall_app; auto. }
    destruct (scan (length (k0 :: tl0)) c) as [[b i]|].
    + destruct (call_from_run b (firstn i (k0 :: tl0)) c PH) as (P & L & _).
      apply (R _ [EInvoke false b (firstn i (k0 :: tl0))]); cbn [cph rlog set_kbuf]; auto.
      constructor; [reflexivity|constructor].
    + apply (R _ [@EDrop bid (late c) k0]); cbn [cph rlog set_kbuf add_ev]; auto.
      constructor; [unfold late; rewrite PH; reflexivity|constructor].
Qed.

Lemma early_ok (evs : list (ev bid)) : Forall early evs -> Forall ok_ev evs.
Proof.
  intros F. eapply Forall_impl; [|exact F]. intros [|l b ks|l k|ks q] H; cbn in *; try contradiction.
  - subst l. exact I.
  - subst l. exact I.
Qed.

(* ---------------------------------------------------------------------- *)
(* the invariant *)

Definition Jc0 (c : core) : Prop :=
  cph c <> CBroken res /\ (late c = true -> kbuf c = []) /\ Forall ok_ev (rlog c).
Definition Jc (c : core) : Prop := Jc0 c /\ pb c = [].

Lemma send_Jc_run it (c : core) : cph c = CRun res -> Jc0 c -> Jc0 (send it c).
Proof.
  intros PH (NB & LK & OK). destruct it as [k|]; unfold C17_Typeahead.send.
  - destruct (loop_from_run (S (S (length (kbuf c)))) false (set_kbuf (kbuf c ++ [k]) c) PH) as (A & B & evs & L & F).
    split; [exact A|]. split; [exact B|]. rewrite L. apply Forall_app; split; [apply early_ok; exact F|exact OK].
  - destruct (loop_from_run (S (length (kbuf c))) true c PH) as (A & B & evs & L & F).
    split; [exact A|]. split; [exact B|]. rewrite L. apply Forall_app; split; [apply early_ok; exact F|exact OK].
Qed.

Lemma handle_cpr_eq k (c : core) :
  est (handle_cpr k c) = est c /\ kbuf (handle_cpr k c) = kbuf c /\ cph (handle_cpr k c) = cph c /\
  pb (handle_cpr k c) = pb c /\
  (rlog (handle_cpr k c) = rlog c \/ exists b, cpr_lookup (est c) = Some b /\ rlog (handle_cpr k c) = EInvoke (late c) b [k] :: rlog c).
Proof.
  unfold C17_Typeahead.handle_cpr. destruct (cpr_lookup (est c)) as [b|] eqn:L; [|auto 6].
  destruct (Hsil (est c) b L [k] (est c)) as (HE & HF).
  unfold C17_Typeahead.call; cbn [est kbuf cph pb rlog]. rewrite HE, HF. cbn [fst snd app].
  repeat split; auto. right. exists b. auto.
Qed.

Lemma handle_cpr_Jc0 k (c : core) : is_cpr k = true -> Jc0 c -> Jc0 (handle_cpr k c).
Proof.
  intros CK (NB & LK & OK). destruct (handle_cpr_eq k c) as (E1 & E2 & E3 & E4 & E5).
  unfold Jc0, late in *. rewrite E2, E3. split; [exact NB|]. split; [exact LK|].
  destruct E5 as [E5|(b & _ & E5)]; rewrite E5; [exact OK|].
  constructor; [|exact OK]. cbn. destruct (match cph c with CRun _ => false | _ => true end); [exists k; auto|exact I].
Qed.

Lemma deliver_Jc0_run it (c : core) : cph c = CRun res -> Jc0 c -> Jc0 (deliver it c).
Proof.
  intros PH J. destruct it as [k|]; cbn [C17_Typeahead.deliver]; [|apply send_Jc_run; assumption].
  destruct (is_cpr k) eqn:CK; [apply handle_cpr_Jc0; assumption|apply send_Jc_run; assumption].
Qed.

Lemma Jc0_same (c c' : core) : cph c' = cph c -> kbuf c' = kbuf c -> rlog c' = rlog c -> Jc0 c -> Jc0 c'.
Proof. intros H1 H2 H3. unfold Jc0, late. rewrite H1, H2, H3. auto. Qed.

Lemma drain_Jc0 l : forall c : core, cph c = CRun res -> Jc0 c -> Jc0 (drain l c).
Proof.
  induction l as [|k l IH]; intros c PH J; cbn [C17_Typeahead.drain]; [exact J|].
  pose proof (deliver_Jc0_run (IKey k) c PH J) as J'.
  destruct (cph (deliver (IKey k) c)) eqn:PC.
  - destruct (pb (deliver (IKey k) c)); [apply IH; assumption|].
    eapply Jc0_same; [| | |exact J']; reflexivity.
  - eapply Jc0_same; [| | |exact J']; reflexivity.
  - eapply Jc0_same; [| | |exact J']; reflexivity.
Qed.

Lemma deliver_d_Jc0_run it (c : core) : cph c = CRun res -> Jc0 c -> Jc0 (deliver_d it c).
Proof.
  intros PH J. pose proof (deliver_Jc0_run it c PH J) as J'. unfold C17_Typeahead.deliver_d.
  destruct (cph (deliver it c)) eqn:PC; [|exact J'|exact J'].
  apply drain_Jc0; [exact PC|]. eapply Jc0_same; [| | |exact J']; reflexivity.
Qed.

Lemma Jc0_pop it (c : core) : Jc0 c -> Jc0 (pop it c).
Proof. destruct it; intros H; exact H. Qed.

Lemma nf_map ks : Forall nf (map IKey ks).
Proof. induction ks; constructor; auto. unfold nf; discriminate. Qed.

Lemma Jc_clear (c : core) : Jc0 c -> Jc (clear_pb c).
Proof. intros J. split; [exact J|reflexivity]. Qed.

(* process_keys: also with a _Flush item in front (LFlushKeys) *)
Lemma pq_J q : forall c : core, Jc c -> Forall nf (match q with IFlush :: q' => q' | _ => q end) ->
  (match q with IFlush :: _ => cph c = CRun res | _ => True end) ->
  Jc (fst (process_q q c)) /\ (cph (fst (process_q q c)) = CRun res -> snd (process_q q c) = []) /\
  Forall nf (snd (process_q q c)).
Proof.
  induction q as [|it q IH]; intros c J F HF; cbn [C17_Typeahead.process_q]; [auto|].
  assert (Fq : Forall nf q) by (destruct it; [inversion F; assumption|exact F]).
  assert (IHq : forall c', Jc c' -> Jc (fst (process_q q c')) /\
            (cph (fst (process_q q c')) = CRun res -> snd (process_q q c') = []) /\ Forall nf (snd (process_q q c'))).
  { intros c' J'. apply IH; [exact J'| |].
    - destruct q as [|[k|] q2]; [exact Fq|exact Fq|]. inversion Fq as [|? ? X _]. exfalso. apply X. reflexivity.
    - destruct q as [|[k|] q2]; [exact I|exact I|]. inversion Fq as [|? ? X _]. exfalso. apply X. reflexivity. }
  destruct J as (J0 & P0).
  destruct (cph c) eqn:PH.
  - assert (PH0 : cph (pop it c) = CRun res) by (destruct it; exact PH).
    pose proof (deliver_d_Jc0_run it (pop it c) PH0 (Jc0_pop it c J0)) as J'.
    destruct (IHq (clear_pb (deliver_d it (pop it c))) (Jc_clear _ J')) as (A & B & C). cbn [fst snd].
    split; [exact A|]. split.
    + intros X. pose proof (@process_q_run_back E bid res lookup lookup_scan waits eff is_cprh cpr_lookup feeds q _ X) as Y.
      cbn [cph clear_pb] in Y.
      rewrite (@deliver_d_pb_run E bid res lookup lookup_scan waits eff is_cprh cpr_lookup feeds it (pop it c) Y), (B X). reflexivity.
    + apply Forall_app; split; [apply nf_map|exact C].
  - assert (NR : not_run c) by (unfold not_run; congruence).
    destruct it as [k|]; [|discriminate HF]. cbn [item_is_cpr].
    destruct (is_cpr k) eqn:CK.
    + cbn [C17_Typeahead.deliver C17_Typeahead.pop fst snd]. rewrite CK.
      destruct (handle_cpr_eq k (add_pop k c)) as (_ & _ & _ & E4 & _). cbn [pb add_pop] in E4.
      rewrite E4, P0. cbn [map app].
      apply IHq. apply Jc_clear. apply handle_cpr_Jc0; [exact CK|exact J0].
    + destruct (IHq c (conj J0 P0)) as (A & B & C). cbn [fst snd].
      pose proof (@process_q_not_run E bid res lookup lookup_scan waits eff is_cprh cpr_lookup feeds q c NR) as NR'.
      split; [exact A|]. split; [intros X; exfalso; exact (NR' X)|]. constructor; [inversion F; assumption|exact C].
  - destruct J0 as (NB & _). contradiction.
Qed.

Definition Js (s : sys) : Prop :=
  Jc (co s) /\ (at_ s = Detached -> kbuf (co s) = [] /\ queue s = []) /\
  (cph (co s) = CRun res -> at_ s <> Detached -> queue s = []) /\
  Forall nf (queue s) /\ Forall nf (store s) /\ wclosed s = false.

Lemma Js_pk (s : sys) : at_ s <> Detached -> Jc (co s) -> Forall nf (queue s) -> Forall nf (store s) ->
  wclosed s = false -> Js (pk s).
Proof.
  intros A J F G W. unfold C17_Typeahead.pk, Js, with_co, with_queue; cbn [co queue store at_ wclosed].
  destruct (pq_J (queue s) (co s) J) as (A1 & A2 & A3).
  - destruct (queue s) as [|[k|] q2]; [exact F|exact F|]. inversion F; assumption.
  - destruct (queue s) as [|[k|] q2]; [exact I|exact I|]. inversion F as [|? ? X _]. exfalso. apply X. reflexivity.
  - split; [exact A1|]. split; [intros X; contradiction|]. split; [intros X _; exact (A2 X)|]. auto.
Qed.

Lemma Js_feed_keys p ks (s : sys) : at_ s <> Detached -> Js s -> Js (feed_keys p ks s).
Proof.
  intros A (J & _ & _ & F & G & W). unfold C17_Typeahead.feed_keys. apply Js_pk; cbn [co queue store at_ wclosed]; auto.
  apply Forall_app; split; [exact F|apply nf_map].
Qed.

Lemma Js_finish r (s : sys) : cph (co s) = CDone r -> Js s -> Js (finish r s).
Proof.
  intros PH (J & _ & _ & F & G & W). unfold C17_Typeahead.finish, Js; cbn [co queue store at_ wclosed].
  destruct J as ((NB & LK & OK) & P0).
  split; [repeat split; assumption|]. split; [intros _; split; [apply LK; unfold late; rewrite PH; reflexivity|reflexivity]|].
  split; [intros _ X; congruence|]. split; [constructor|]. split; [|exact W].
  apply Forall_app; split; [exact G|]. apply Forall_forall. intros i Hi. apply filter_In in Hi.
  rewrite Forall_forall in F. apply F. tauto.
Qed.

Lemma Js_do_read n (s : sys) : at_ s <> Detached -> Js s -> Js (do_read n s).
Proof.
  intros A J. unfold C17_Typeahead.do_read. cbv zeta. destruct (pipe s).
  - destruct J as (Jc0' & _ & _ & F & G & W). rewrite W. apply Js_pk; auto.
  - apply Js_feed_keys; [exact A|].
    destruct J as (Jc0' & D & Q & F & G & W). unfold Js; cbn [co queue store at_ wclosed].
    split; [exact Jc0'|]. split; [exact D|]. split; [exact Q|]. auto.
Qed.

Lemma Js_step (s : sys) l : l <> LClose -> Js s -> Js (step s l).
Proof.
  intros NC J. pose proof J as (Jc0' & D & Q & F & G & W).
  pose proof Jc0' as ((NB & LK & OK) & P0).
  unfold C17_Typeahead.step.
  destruct (cph (co s)) eqn:PH; destruct l; try exact J; try congruence.
  all: try (destruct (wclosed s) eqn:W'; [exact J|]; unfold Js; cbn [co queue store at_ wclosed];
            (split; [exact Jc0'|]); (split; [exact D|]);
            (split; [intros X Y; first [apply Q; [reflexivity|exact Y] | congruence]|]); auto; fail).
  all: try (destruct (at_ s) eqn:A; try exact J;
            try (apply Js_do_read; [congruence|exact J]);
            try (destruct (wcpr (co s)); [exact J|apply Js_do_read; [congruence|exact J]]);
            try (apply Js_feed_keys; [congruence|exact J]); fail).
  - (* LFlushKeys, result not set: the queue is empty, _Flush is consumed at once *)
    destruct (at_ s) eqn:A; [exact J| |]; (destruct (kbuf (co s)) eqn:KBE; [exact J|]);
      (assert (QE : queue s = []) by (apply Q; [reflexivity|congruence]));
      unfold C17_Typeahead.pk, Js, with_co, with_queue; cbn [queue co store at_ wclosed]; rewrite QE; cbn [app];
      (destruct (pq_J [IFlush] (co s) Jc0' (Forall_nil _) PH) as (A1 & A2 & A3));
      (split; [exact A1|]); (split; [intros X; congruence|]); (split; [intros X _; exact (A2 X)|]); auto.
  - (* LStart *)
    destruct (at_ s) eqn:A; [|exact J|exact J].
    destruct (D eq_refl) as [D1 D2]. rewrite D1, D2.
    apply Js_pk; cbn [co queue store at_ wclosed]; auto; try congruence.
    unfold Jc, Jc0, late; cbn [cph kbuf rlog est pb]. repeat split; auto; try congruence.
    constructor; [exact I|exact OK].
  - (* LFlushKeys, result set *)
    assert (KBE : kbuf (co s) = []) by (apply LK; unfold late; rewrite PH; reflexivity).
    rewrite KBE. destruct (at_ s); exact J.
  - (* LStart with the previous result still recorded *)
    destruct (at_ s) eqn:A; [|exact J|exact J].
    destruct (D eq_refl) as [D1 D2]. rewrite D1, D2.
    apply Js_pk; cbn [co queue store at_ wclosed]; auto; try congruence.
    unfold Jc, Jc0, late; cbn [cph kbuf rlog est pb]. repeat split; auto; try congruence.
    constructor; [exact I|exact OK].
  - (* LExit *)
    destruct (at_ s) eqn:A; [exact J| |exact J].
    destruct (rcpr s && negb (Nat.eqb (wcpr (co s)) 0)); [|apply Js_finish; assumption].
    unfold Js; cbn [co queue store at_ wclosed]. split; [exact Jc0'|]. split; [congruence|]. split; [congruence|]. auto.
  - (* LExitEnd *)
    destruct (at_ s) eqn:A; try exact J. destruct (wcpr (co s)); [apply Js_finish; assumption|exact J].
  - (* LCprTimeout *)
    destruct (at_ s) eqn:A; try exact J. apply Js_finish; [exact PH|exact J].
Qed.

Lemma Js_init e p r : Js (@init E bid res PS e p r).
Proof.
  unfold Js, Jc, Jc0, late, init, init_core; cbn. repeat split; auto; try congruence; constructor.
Qed.

Lemma Js_run ls : forall s : sys, ~ In LClose ls -> Js s -> Js (run ls s).
Proof.
  induction ls as [|l ls IH]; intros s NI J; [exact J|]. cbn [C17_Typeahead.run fold_left].
  apply IH; [intros X; apply NI; right; exact X|].
  apply Js_step; [intros X; apply NI; left; auto|exact J].
Qed.

(* ---------------------------------------------------------------------- *)
(* EVERY schedule, closing the input (EOF) included.  Of the clauses above
   three do not survive EOF (read_from_input sets EOFError whatever the key
   buffer holds): "key buffer empty when the result is set", "a reset throws
   nothing away" and "no _Flush left in queue or store" (witnesses:
   C17_Witness.v).  What survives, for every label sequence: after the result
   is set only reports reach handlers, each alone; nothing is dropped late;
   exit() is never called twice; a reset never throws away anything from the
   QUEUE; and the key buffer is non-empty with the result set only when that
   result is the EOF one. *)
Definition ok_ev_w (e : ev bid) : Prop :=
  match e with
  | EInvoke true _ ks => exists c, ks = [c] /\ is_cpr c = true
  | EDrop _ true _ => False
  | ELost _ _ q => q = []
  | _ => True
  end.

Lemma early_ok_w (evs : list (ev bid)) : Forall early evs -> Forall ok_ev_w evs.
Proof.
  intros F. eapply Forall_impl; [|exact F]. intros [|l b ks|l k|ks q] H; cbn in *; try contradiction.
  - subst l. exact I.
  - subst l. exact I.
Qed.

Definition Wc0 (c : core) : Prop :=
  cph c <> CBroken res /\ (forall r, cph c = CDone r -> r <> res_eof -> kbuf c = []) /\ Forall ok_ev_w (rlog c).

Lemma send_W_run it (c : core) : cph c = CRun res -> Wc0 c -> Wc0 (send it c).
Proof.
  intros PH (NB & LK & OK). destruct it as [k|]; unfold C17_Typeahead.send.
  - destruct (loop_from_run (S (S (length (kbuf c)))) false (set_kbuf (kbuf c ++ [k]) c) PH) as (A & B & evs & L & F).
    split; [exact A|]. split; [intros r X _; apply B; unfold late; rewrite X; reflexivity|].
    rewrite L. apply Forall_app; split; [apply early_ok_w; exact F|exact OK].
  - destruct (loop_from_run (S (length (kbuf c))) true c PH) as (A & B & evs & L & F).
    split; [exact A|]. split; [intros r X _; apply B; unfold late; rewrite X; reflexivity|].
    rewrite L. apply Forall_app; split; [apply early_ok_w; exact F|exact OK].
Qed.

Lemma handle_cpr_W k (c : core) : is_cpr k = true -> Wc0 c -> Wc0 (handle_cpr k c).
Proof.
  intros CK (NB & LK & OK). destruct (handle_cpr_eq k c) as (E1 & E2 & E3 & E4 & E5).
  unfold Wc0. rewrite E2, E3. split; [exact NB|]. split; [exact LK|].
  destruct E5 as [E5|(b & _ & E5)]; rewrite E5; [exact OK|].
  constructor; [|exact OK]. cbn. destruct (late c); [exists k; auto|exact I].
Qed.

Lemma deliver_W_run it (c : core) : cph c = CRun res -> Wc0 c -> Wc0 (deliver it c).
Proof.
  intros PH J. destruct it as [k|]; cbn [C17_Typeahead.deliver]; [|apply send_W_run; assumption].
  destruct (is_cpr k) eqn:CK; [apply handle_cpr_W; assumption|apply send_W_run; assumption].
Qed.

Lemma Wc0_same (c c' : core) : cph c' = cph c -> kbuf c' = kbuf c -> rlog c' = rlog c -> Wc0 c -> Wc0 c'.
Proof. intros H1 H2 H3. unfold Wc0. rewrite H1, H2, H3. auto. Qed.

Lemma drain_W l : forall c : core, cph c = CRun res -> Wc0 c -> Wc0 (drain l c).
Proof.
  induction l as [|k l IH]; intros c PH J; cbn [C17_Typeahead.drain]; [exact J|].
  pose proof (deliver_W_run (IKey k) c PH J) as J'.
  destruct (cph (deliver (IKey k) c)) eqn:PC.
  - destruct (pb (deliver (IKey k) c)); [apply IH; assumption|].
    eapply Wc0_same; [| | |exact J']; reflexivity.
  - eapply Wc0_same; [| | |exact J']; reflexivity.
  - eapply Wc0_same; [| | |exact J']; reflexivity.
Qed.

Lemma deliver_d_W_run it (c : core) : cph c = CRun res -> Wc0 c -> Wc0 (deliver_d it c).
Proof.
  intros PH J. pose proof (deliver_W_run it c PH J) as J'. unfold C17_Typeahead.deliver_d.
  destruct (cph (deliver it c)) eqn:PC; [|exact J'|exact J'].
  apply drain_W; [exact PC|]. eapply Wc0_same; [| | |exact J']; reflexivity.
Qed.

Lemma pq_W q : forall c : core, Wc0 c -> Wc0 (fst (process_q q c)).
Proof.
  induction q as [|it q IH]; intros c J; cbn [C17_Typeahead.process_q]; [exact J|].
  destruct (cph c) eqn:PH; [| |exact J].
  - cbn [fst]. apply IH.
    assert (PH0 : cph (pop it c) = CRun res) by (destruct it; exact PH).
    assert (J0 : Wc0 (pop it c)) by (destruct it; exact J).
    eapply Wc0_same; [| | |exact (deliver_d_W_run it (pop it c) PH0 J0)]; reflexivity.
  - destruct (item_is_cpr it) eqn:CI; cbn [fst]; [|apply IH; exact J].
    destruct it as [k|]; [|discriminate]. cbn [item_is_cpr] in CI.
    apply IH. cbn [C17_Typeahead.deliver C17_Typeahead.pop]. rewrite CI.
    eapply Wc0_same; [| | |apply (handle_cpr_W k (add_pop k c) CI); exact J]; reflexivity.
Qed.

Definition Ws (s : sys) : Prop := Wc0 (co s) /\ (at_ s = Detached -> queue s = []).

Lemma Ws_pk (s : sys) : at_ s <> Detached -> Wc0 (co s) -> Ws (pk s).
Proof.
  intros A J. unfold C17_Typeahead.pk, Ws, with_co, with_queue; cbn [co queue at_].
  split; [apply pq_W; exact J|intros X; contradiction].
Qed.

Lemma Ws_finish r (s : sys) : Ws s -> Ws (finish r s).
Proof. intros (J & _). unfold Ws, C17_Typeahead.finish; cbn [co queue at_]. auto. Qed.

Lemma Ws_do_read n (s : sys) : at_ s <> Detached -> Ws s -> Ws (do_read n s).
Proof.
  intros A (J & D). unfold C17_Typeahead.do_read. cbv zeta. destruct (pipe s).
  - pose proof (Ws_pk s A J) as (J1 & D1). destruct (wclosed s); [|split; assumption].
    destruct (cph (co (pk s))) eqn:PC; [|split; assumption|split; assumption].
    split; [|exact D1]. destruct J1 as (NB & LK & OK). unfold Wc0; cbn [co with_co cph kbuf rlog set_cph].
    split; [discriminate|]. split; [|exact OK]. intros r X NE. inversion X; subst. contradiction.
  - unfold C17_Typeahead.feed_keys. apply Ws_pk; [exact A|exact J].
Qed.

Lemma Ws_step (s : sys) l : Ws s -> Ws (step s l).
Proof.
  intros H. pose proof H as (J & D). pose proof J as (NB & LK & OK).
  unfold C17_Typeahead.step.
  destruct (cph (co s)) eqn:PH; destruct l; try exact H; try congruence.
  all: try (destruct (wclosed s); [exact H|]; split; [exact J|exact D]).
  all: try (split; [exact J|exact D]).
  all: try (destruct (at_ s) eqn:A; try exact H;
            try (apply Ws_do_read; [congruence|exact H]);
            try (destruct (wcpr (co s)); [exact H|apply Ws_do_read; [congruence|exact H]]);
            try (unfold C17_Typeahead.feed_keys; apply Ws_pk; [cbn [at_]; congruence|exact J]);
            try (destruct (kbuf (co s)); [exact H|apply Ws_pk; [cbn [at_ with_queue]; congruence|exact J]]);
            try (destruct (wcpr (co s)); [apply Ws_finish; exact H|exact H]);
            try (apply Ws_finish; split; [exact J|cbn [at_ with_co]; congruence]);
            try (split; [exact J|cbn [at_ with_co]; congruence]);
            try (destruct (rcpr s && negb (Nat.eqb (wcpr (co s)) 0));
                 [split; [exact J|cbn [at_]; congruence]|apply Ws_finish; exact H]);
            fail).
  (* LStart, twice *)
  all: destruct (at_ s) eqn:A; [|exact H|exact H];
       apply Ws_pk; [cbn [at_]; congruence|]; rewrite (D eq_refl);
       unfold Wc0; cbn [co cph kbuf rlog];
       (split; [discriminate|]); (split; [reflexivity|]);
       (constructor; [exact I|]);
       (destruct (kbuf (co s)); [exact OK|constructor; [reflexivity|exact OK]]).
Qed.

Lemma Ws_run ls : forall s : sys, Ws s -> Ws (run ls s).
Proof.
  induction ls as [|l ls IH]; intros s H; [exact H|]. cbn [C17_Typeahead.run fold_left].
  apply IH. apply Ws_step. exact H.
Qed.

Lemma after_accept_any ls e p r :
  let s := run ls (@init E bid res PS e p r) in
  Forall ok_ev_w (rlog (co s)) /\ cph (co s) <> CBroken res /\
  (forall x, cph (co s) = CDone x -> x <> res_eof -> kbuf (co s) = []).
Proof.
  intros s. destruct (Ws_run ls (@init E bid res PS e p r)) as ((NB & LK & OK) & _); [|auto].
  unfold Ws, Wc0, init, init_core; cbn. repeat split; auto; try congruence; try discriminate.
Qed.

End P.
Arguments cpr_silent {E bid res} eff cpr_lookup feeds.
