(* C17 - the accept boundary under the two hypotheses on the binding set:
   [Hexit] a binding that ends the prompt fires with nothing left in the key
   buffer; [Hcpr] a cursor position report alone in the key buffer is matched
   at once by a binding that does not end the prompt. *)
From Coq Require Import ZArith List Bool Lia.
From PTK Require Import Lib.Py Model.C03_Vt100Parser Model.C17_Typeahead Proofs.C17_Core Proofs.C17_Conserve.
Import ListNotations.

(* a handler call or a drop made while the result was not yet set *)
Definition early {bid} (e : ev bid) : Prop :=
  match e with EInvoke l _ _ => l = false | EDrop _ l _ => l = false | _ => False end.

(* what may be logged: after the result is set only a report, alone, reaches a
   handler; nothing is dropped late; reset() never throws keys away *)
Definition ok_ev {bid} (e : ev bid) : Prop :=
  match e with
  | EInvoke true _ ks => exists c, ks = [c] /\ is_cpr c = true
  | EDrop _ true _ => False
  | ELost _ ks q => ks = [] /\ q = []
  | _ => True
  end.

Definition nf (i : item) : Prop := i <> IFlush.

Section P.
Variables E bid res PS : Type.
Variable lookup : E -> list kp -> option bid.
Variable lookup_scan : E -> list kp -> option bid.
Variable waits : E -> list kp -> bool.
Variable eff : bid -> list kp -> E -> E * option res.
Variable is_cprh : bid -> bool.
Variable restart : E -> E.
Variable pfeed : str -> PS -> PS * list kp.
Variable pflush : PS -> PS * list kp.
Variable res_eof : res.

Notation core := (core E bid res).
Notation sys := (sys E bid res PS).
Notation call := (call eff is_cprh).
Notation scan := (@scan E bid res lookup_scan).
Notation loop := (loop lookup lookup_scan waits eff is_cprh).
Notation send := (send lookup lookup_scan waits eff is_cprh).
Notation process_q := (process_q lookup lookup_scan waits eff is_cprh).
Notation pk := (@pk E bid res PS lookup lookup_scan waits eff is_cprh).
Notation feed_keys := (@feed_keys E bid res PS lookup lookup_scan waits eff is_cprh).
Notation do_read := (@do_read E bid res PS lookup lookup_scan waits eff is_cprh pfeed res_eof).
Notation step := (@step E bid res PS lookup lookup_scan waits eff is_cprh restart pfeed pflush res_eof).
Notation run := (@run E bid res PS lookup lookup_scan waits eff is_cprh restart pfeed pflush res_eof).

(* the key buffer between two activations: empty, or still a prefix of a longer binding *)
Definition KB (c : core) : Prop := kbuf c = [] \/ waits (est c) (kbuf c) = true.

Definition exit_clean : Prop :=
  forall (c : core) it, cph c = CRun res -> KB c ->
    match cph (send it c) with
    | CRun _ => True
    | CDone _ => kbuf (send it c) = [] /\
                 exists evs, rlog (send it c) = evs ++ rlog c /\ Forall early evs
    | CBroken _ => False
    end.

Definition cpr_fires : Prop :=
  forall e c, is_cpr c = true ->
    waits e [c] = false /\ exists b, lookup e [c] = Some b /\ forall e', snd (eff b [c] e') = None.

Hypothesis Hexit : exit_clean.
Hypothesis Hcpr : cpr_fires.

(* ---------------------------------------------------------------------- *)

Lemma loop_KB fuel : forall fl (c : core),
  (length (kbuf c) < fuel)%nat -> cph (loop fuel fl c) <> CBroken res -> KB (loop fuel fl c).
Proof.
  induction fuel as [|f IH]; intros fl c H NB; [lia|]. cbn [C17_Typeahead.loop] in *.
  destruct (kbuf c) as [|k0 tl0] eqn:KBE; [left; exact KBE|].
  assert (G : forall b i, scan (length (k0 :: tl0)) c = Some (b, i) ->
          (length (kbuf (set_kbuf (skipn i (k0 :: tl0)) (call b (firstn i (k0 :: tl0)) c))) < f)%nat).
  { intros b i S. apply scan_bounds in S. cbn [kbuf set_kbuf]. rewrite skipn_length. cbn [length] in *. lia. }
  assert (D : (length (kbuf (set_kbuf tl0 (add_ev (@EDrop bid (late c) k0) c))) < f)%nat).
  { cbn [kbuf set_kbuf]. cbn [length] in H. lia. }
  destruct (cph c) eqn:PH.
  - destruct (negb fl && waits (est c) (k0 :: tl0)) eqn:W.
    + right. rewrite KBE. apply andb_prop in W. tauto.
    + destruct (lookup (est c) (k0 :: tl0)); [left; reflexivity|].
      destruct (scan (length (k0 :: tl0)) c) as [[b i]|] eqn:S.
      * apply IH; [exact (G b i eq_refl)|exact NB].
      * apply IH; [exact D|exact NB].
  - destruct (negb fl && waits (est c) (k0 :: tl0)) eqn:W.
    + right. rewrite KBE. apply andb_prop in W. tauto.
    + destruct (lookup (est c) (k0 :: tl0)); [left; reflexivity|].
      destruct (scan (length (k0 :: tl0)) c) as [[b i]|] eqn:S.
      * apply IH; [exact (G b i eq_refl)|exact NB].
      * apply IH; [exact D|exact NB].
  - exfalso. apply NB. exact PH.
Qed.

Lemma send_KB it (c : core) : cph (send it c) <> CBroken res -> KB (send it c).
Proof.
  destruct it as [k|]; unfold C17_Typeahead.send; intros NB.
  - apply loop_KB; [|exact NB].
    destruct (is_cpr k && negb (cpr_alone lookup waits is_cprh c k)); cbn [kbuf set_kbuf set_bad];
      rewrite app_length; cbn [length]; lia.
  - apply loop_KB; [lia|exact NB].
Qed.

(* events logged by an activation that ends with the result still unset are early *)
Lemma call_run b ks (c : core) : cph (call b ks c) = CRun res -> cph c = CRun res.
Proof.
  unfold C17_Typeahead.call; cbn [cph]. destruct (snd (eff b ks (est c))); [|auto].
  destruct (cph c); congruence.
Qed.

Lemma loop_run_back fuel : forall fl (c : core), cph (loop fuel fl c) = CRun res -> cph c = CRun res.
Proof.
  intros fl c H. destruct (cph c) eqn:PH; [reflexivity| |].
  - exfalso. refine (@loop_not_run E bid res lookup lookup_scan waits eff is_cprh fuel fl c _ H). unfold not_run. congruence.
  - exfalso. refine (@loop_not_run E bid res lookup lookup_scan waits eff is_cprh fuel fl c _ H). unfold not_run. congruence.
Qed.

Lemma loop_log_run fuel : forall fl (c : core), cph (loop fuel fl c) = CRun res ->
  exists evs, rlog (loop fuel fl c) = evs ++ rlog c /\ Forall early evs.
Proof.
  induction fuel as [|f IH]; intros fl c H; cbn [C17_Typeahead.loop] in *.
  - destruct (kbuf c); exists []; split; auto.
  - destruct (kbuf c) as [|k0 tl0] eqn:KBE; [exists []; split; auto|].
    pose proof (loop_run_back (S f) fl c) as RB. cbn [C17_Typeahead.loop] in RB. rewrite KBE in RB.
    specialize (RB H). rewrite RB in *.
    destruct (negb fl && waits (est c) (k0 :: tl0)); [exists []; split; auto|].
    destruct (lookup (est c) (k0 :: tl0)) as [b|].
    + exists [EInvoke (late c) b (k0 :: tl0)]. split; [reflexivity|].
      constructor; [|constructor]. unfold late. rewrite RB. reflexivity.
    + destruct (scan (length (k0 :: tl0)) c) as [[b i]|].
      * destruct (IH _ _ H) as (evs & L & F). exists (evs ++ [EInvoke (late c) b (firstn i (k0 :: tl0))]).
        split; [rewrite L, <- app_assoc; reflexivity|].
        apply Forall_app; split; [exact F|]. constructor; [|constructor]. unfold late. rewrite RB. reflexivity.
      * destruct (IH _ _ H) as (evs & L & F). exists (evs ++ [@EDrop bid (late c) k0]).
        split; [rewrite L, <- app_assoc; reflexivity|].
        apply Forall_app; split; [exact F|]. constructor; [|constructor]. unfold late. rewrite RB. reflexivity.
Qed.

Lemma send_log_run it (c : core) : cph (send it c) = CRun res ->
  exists evs, rlog (send it c) = evs ++ rlog c /\ Forall early evs.
Proof.
  destruct it as [k|]; unfold C17_Typeahead.send; intros H.
  - destruct (loop_log_run _ _ _ H) as (evs & L & F). exists evs. split; [|exact F].
    rewrite L. destruct (is_cpr k && negb (cpr_alone lookup waits is_cprh c k)); reflexivity.
  - apply loop_log_run. exact H.
Qed.

Lemma early_ok (evs : list (ev bid)) : Forall early evs -> Forall ok_ev evs.
Proof.
  intros F. eapply Forall_impl; [|exact F]. intros [|l b ks|l k|ks q] H; cbn in *; try contradiction.
  - subst l. exact I.
  - subst l. exact I.
Qed.

(* ---------------------------------------------------------------------- *)
(* the invariant *)

Definition Jc (c : core) : Prop :=
  cph c <> CBroken res /\ (late c = true -> kbuf c = []) /\ KB c /\ Forall ok_ev (rlog c).

Lemma send_Jc_run it (c : core) : cph c = CRun res -> Jc c -> Jc (send it c).
Proof.
  intros PH (NB & LK & K & OK).
  pose proof (Hexit c it PH K) as HX.
  assert (NB' : cph (send it c) <> CBroken res) by (intros X; rewrite X in HX; exact HX).
  unfold Jc. split; [exact NB'|]. split; [|split; [apply send_KB; exact NB'|]].
  - unfold late. destruct (cph (send it c)) eqn:P; [discriminate| |congruence].
    intros _. apply HX.
  - destruct (cph (send it c)) eqn:P.
    + destruct (send_log_run it c P) as (evs & L & F). rewrite L. apply Forall_app; split; [apply early_ok; exact F|exact OK].
    + destruct HX as (_ & evs & L & F). rewrite L. apply Forall_app; split; [apply early_ok; exact F|exact OK].
    + contradiction.
Qed.

Lemma send_cpr_done k (c : core) r : is_cpr k = true -> cph c = CDone r -> kbuf c = [] ->
  exists b, kbuf (send (IKey k) c) = [] /\ cph (send (IKey k) c) = CDone r /\
            rlog (send (IKey k) c) = EInvoke true b [k] :: rlog c /\ est (send (IKey k) c) = fst (eff b [k] (est c)).
Proof.
  intros CK PH KBE. destruct (Hcpr (est c) k CK) as (W & b & LK & NX).
  exists b. unfold C17_Typeahead.send. rewrite KBE. cbn [length app].
  set (c1 := if is_cpr k && negb (cpr_alone lookup waits is_cprh c k) then set_bad c else c).
  assert (E1 : est c1 = est c) by (unfold c1; destruct (is_cpr k && negb (cpr_alone lookup waits is_cprh c k)); reflexivity).
  assert (P1 : cph c1 = CDone r) by (unfold c1; destruct (is_cpr k && negb (cpr_alone lookup waits is_cprh c k)); exact PH).
  assert (R1 : rlog c1 = rlog c) by (unfold c1; destruct (is_cpr k && negb (cpr_alone lookup waits is_cprh c k)); reflexivity).
  cbn [C17_Typeahead.loop kbuf set_kbuf cph est]. rewrite P1, E1, W, LK. cbn [negb andb].
  unfold C17_Typeahead.call, late; cbn [kbuf set_kbuf cph rlog est]. rewrite E1, P1, R1, (NX (est c)).
  repeat split; reflexivity.
Qed.

Lemma send_Jc_done_cpr k (c : core) r : is_cpr k = true -> cph c = CDone r -> Jc c -> Jc (send (IKey k) c).
Proof.
  intros CK PH (NB & LK & K & OK).
  assert (KBE : kbuf c = []) by (apply LK; unfold late; rewrite PH; reflexivity).
  destruct (send_cpr_done k c r CK PH KBE) as (b & A1 & A2 & A3 & _).
  unfold Jc, KB. rewrite A1, A2, A3. repeat split; auto; try congruence.
  constructor; [|exact OK]. cbn. exists k. auto.
Qed.

Lemma pq_J q : forall c : core, Jc c -> Forall nf q ->
  Jc (fst (process_q q c)) /\ (cph (fst (process_q q c)) = CRun res -> snd (process_q q c) = []) /\
  Forall nf (snd (process_q q c)).
Proof.
  induction q as [|it q IH]; intros c J F; cbn [C17_Typeahead.process_q]; [auto|].
  inversion F as [|? ? F1 F2]; subst.
  destruct (cph c) eqn:PH.
  - apply IH; [apply send_Jc_run; assumption|exact F2].
  - assert (NR : not_run c) by (unfold not_run; congruence).
    destruct (item_is_cpr it) eqn:CI.
    + destruct it as [k|]; [|discriminate]. apply IH; [eapply send_Jc_done_cpr; eassumption|exact F2].
    + destruct (IH c J F2) as (A & B & C). cbn [fst snd].
      destruct (@process_q_done E bid res lookup lookup_scan waits eff is_cprh q c NR) as (_ & _ & NR').
      split; [exact A|]. split; [intros X; exfalso; exact (NR' X)|]. constructor; assumption.
  - destruct J as (NB & _). contradiction.
Qed.

Definition Js (s : sys) : Prop :=
  Jc (co s) /\ (at_ s = Detached -> kbuf (co s) = [] /\ queue s = []) /\
  (cph (co s) = CRun res -> at_ s <> Detached -> queue s = []) /\
  Forall nf (queue s) /\ Forall nf (store s) /\ wclosed s = false.

Lemma Js_pk (s : sys) : at_ s <> Detached -> Jc (co s) -> Forall nf (queue s) -> Forall nf (store s) ->
  wclosed s = false -> Js (pk s).
Proof.
  intros A J F G W. unfold C17_Typeahead.pk, Js; cbn [co queue store at_ with_co with_queue wclosed].
  destruct (pq_J (queue s) (co s) J F) as (A1 & A2 & A3).
  split; [exact A1|]. split; [intros X; contradiction|]. split; [intros X _; exact (A2 X)|]. auto.
Qed.

Lemma nf_map ks : Forall nf (map IKey ks).
Proof. induction ks; constructor; auto. unfold nf; discriminate. Qed.

Lemma Js_feed_keys p ks (s : sys) : at_ s <> Detached -> Js s -> Js (feed_keys p ks s).
Proof.
  intros A (J & _ & _ & F & G & W). unfold C17_Typeahead.feed_keys. apply Js_pk; cbn [co queue store at_ wclosed]; auto.
  apply Forall_app; split; [exact F|apply nf_map].
Qed.

Lemma Js_finish r (s : sys) : cph (co s) = CDone r -> Js s -> Js (finish r s).
Proof.
  intros PH (J & _ & _ & F & G & W). unfold C17_Typeahead.finish, Js; cbn [co queue store at_ wclosed].
  destruct J as (NB & LK & K & OK).
  repeat split; auto; try congruence.
  - apply LK. unfold late. rewrite PH. reflexivity.
  - apply Forall_app; split; [exact G|]. apply Forall_forall. intros i Hi. apply filter_In in Hi.
    rewrite Forall_forall in F. apply F. tauto.
Qed.

Lemma Js_do_read n (s : sys) : at_ s <> Detached -> Js s -> Js (do_read n s).
Proof.
  intros A J. unfold C17_Typeahead.do_read. cbv zeta. destruct (pipe s).
  - destruct J as (Jc0 & _ & _ & F & G & W). rewrite W. apply Js_pk; auto.
  - apply Js_feed_keys; [exact A|].
    destruct J as (Jc0 & D & Q & F & G & W). unfold Js; cbn [co queue store at_ wclosed].
    split; [exact Jc0|]. split; [exact D|]. split; [exact Q|]. auto.
Qed.

Lemma Js_step (s : sys) l : l <> LClose -> Js s -> Js (step s l).
Proof.
  intros NC J. pose proof J as (Jc0 & D & Q & F & G & W).
  pose proof Jc0 as (NB & LK & K & OK).
  unfold C17_Typeahead.step.
  destruct (cph (co s)) eqn:PH; destruct l; try exact J; try congruence.
  all: try (destruct (wclosed s) eqn:W'; [exact J|]; unfold Js; cbn [co queue store at_ wclosed];
            (split; [exact Jc0|]); (split; [exact D|]);
            (split; [intros X Y; first [apply Q; [reflexivity|exact Y] | congruence]|]); auto; fail).
  all: try (destruct (at_ s) eqn:A; try exact J;
            try (apply Js_do_read; [congruence|exact J]);
            try (destruct (wcpr (co s)); [exact J|apply Js_do_read; [congruence|exact J]]);
            try (apply Js_feed_keys; [congruence|exact J]); fail).
  - (* LFlushKeys, CRun *)
    destruct (at_ s) eqn:A; [exact J| |]; (destruct (kbuf (co s)) eqn:KBE; [exact J|]);
      (assert (QE : queue s = []) by (apply Q; [reflexivity|congruence]));
      unfold C17_Typeahead.pk; cbn [queue co with_queue with_co]; rewrite QE; cbn [app C17_Typeahead.process_q];
      rewrite PH; cbn [fst snd];
      unfold Js, with_co, with_queue; cbn [co queue store at_ wclosed];
      (split; [apply send_Jc_run; assumption|]);
      (split; [intros X; congruence|]); (split; [auto|]); auto.
  - (* LStart, CRun *)
    destruct (at_ s) eqn:A; [|exact J|exact J].
    destruct (D eq_refl) as [D1 D2]. rewrite D1, D2.
    apply Js_pk; cbn [co queue store at_ wclosed]; auto; try congruence.
    unfold Jc, KB, late; cbn [cph kbuf rlog est]. repeat split; auto; try congruence.
    constructor; [exact I|exact OK].
  - (* LFlushKeys, CDone *)
    assert (KBE : kbuf (co s) = []) by (apply LK; unfold late; rewrite PH; reflexivity).
    rewrite KBE. destruct (at_ s); exact J.
  - (* LStart, CDone *)
    destruct (at_ s) eqn:A; [|exact J|exact J].
    destruct (D eq_refl) as [D1 D2]. rewrite D1, D2.
    apply Js_pk; cbn [co queue store at_ wclosed]; auto; try congruence.
    unfold Jc, KB, late; cbn [cph kbuf rlog est]. repeat split; auto; try congruence.
    constructor; [exact I|exact OK].
  - (* LExit *)
    destruct (at_ s) eqn:A; [exact J| |exact J].
    destruct (rcpr s && negb (Nat.eqb (wcpr (co s)) 0)); [|apply Js_finish; assumption].
    unfold Js; cbn [co queue store at_ wclosed]. split; [exact Jc0|]. split; [congruence|]. split; [congruence|]. auto.
  - (* LExitEnd *)
    destruct (at_ s) eqn:A; try exact J. destruct (wcpr (co s)); [apply Js_finish; assumption|exact J].
  - (* LCprTimeout *)
    destruct (at_ s) eqn:A; try exact J. apply Js_finish; [exact PH|exact J].
Qed.

Lemma Js_init e p r : Js (@init E bid res PS e p r).
Proof.
  unfold Js, Jc, KB, late, init, init_core; cbn. repeat split; auto; try congruence; constructor.
Qed.

Lemma Js_run ls : forall s : sys, ~ In LClose ls -> Js s -> Js (run ls s).
Proof.
  induction ls as [|l ls IH]; intros s NI J; [exact J|]. cbn [C17_Typeahead.run fold_left].
  apply IH; [intros X; apply NI; right; exact X|].
  apply Js_step; [intros X; apply NI; left; auto|exact J].
Qed.

End P.
Arguments cpr_fires {E bid res} lookup waits eff.
Arguments exit_clean {E bid res} lookup lookup_scan waits eff is_cprh.
Arguments KB {E bid res} waits c.
