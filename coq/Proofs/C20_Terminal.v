(* C20 - what reaches the TERMINAL.  Output.write only appends to the Output
   object's buffer; the text is on the terminal after the next flush.  For EVERY
   label list: nothing written through the proxy is ever left unflushed (every
   path of _write_and_flush - in the flush thread, through in_terminal's direct
   "yield; return" path, inside a run-in-terminal section, the closed-loop
   fallback - ends with self._output.flush()), so the terminal text is the
   written text.  Also: which application the loop callback sees, as a function
   of the session of its context (fix acce0d8), with the pre-fix variant. *)
From Coq Require Import ZArith List Bool Lia Arith.
From PTK Require Import Lib.Sx Model.C20_StdoutProxy Proofs.C20_Queue Proofs.C20_Chain Proofs.C20_Order
  Proofs.C20_Refuted.
Import ListNotations.
Open Scope nat_scope.

Definition pstep (p : text) (e : ev) : text := match e with EWrite s _ _ => p ++ s | _ => [] end.
Definition pendl (o : list ev) : text := fold_left pstep o [].

Lemma tscan_snd : forall o a, snd (fold_left tstep o a) = fold_left pstep o (snd a).
Proof.
  induction o as [|e o IH]; intros a; [reflexivity|]. cbn [fold_left]. rewrite IH. destruct e; reflexivity.
Qed.

Lemma pending_pendl : forall s, pending_text s = pendl (out s).
Proof. intros s. unfold pending_text, tscan. now rewrite tscan_snd. Qed.

Lemma pendl_app : forall a b, pendl (a ++ b) = fold_left pstep b (pendl a).
Proof. intros. unfold pendl. now rewrite fold_left_app. Qed.

(* terminal ++ not yet flushed = everything written *)
Lemma tscan_all : forall o a, fst (fold_left tstep o a) ++ snd (fold_left tstep o a) = fst a ++ snd a ++ otext o.
Proof.
  induction o as [|e o IH]; intros a; cbn [fold_left].
  - unfold otext. cbn. now rewrite app_nil_r.
  - rewrite IH. unfold otext. destruct e; cbn [tstep fst snd map concat ev_text app]; rewrite <- ?app_assoc; reflexivity.
Qed.

Lemma term_pending : forall s, term_text s ++ pending_text s = out_text s.
Proof. intros s. unfold term_text, pending_text, tscan. rewrite tscan_all. reflexivity. Qed.

Lemma start_sec_pend : forall run x c o, pendl o = [] -> pendl (snd (start_sec run x c o)) = [].
Proof.
  intros run x c o H. unfold start_sec. destruct (s_pay x); cbn [snd]; rewrite pendl_app, H; [destruct run|]; reflexivity.
Qed.

Lemma submit_pend : forall run hold p c o, pendl o = [] -> pendl (snd (submit run hold p c o)) = [].
Proof.
  intros run hold p c o H. unfold submit. destruct (fdone c (lastf c) && negb hold); [now apply start_sec_pend|exact H].
Qed.

Lemma resume_pend : forall run rq c k o, pendl o = [] -> pendl (snd (resume run rq c k o)) = [].
Proof.
  intros run rq c k o H. unfold resume. destruct (waitq c) as [|x w]; [exact H|].
  match goal with |- context [start_sec ?r ?x ?c0 ?o] =>
    pose proof (start_sec_pend r x c0 o H) as K; destruct (start_sec r x c0 o) as [c' o'] end.
  exact K.
Qed.

Lemma inval_pend : forall run c o, pendl o = [] -> pendl (o ++ inval_render run c) = [].
Proof.
  intros run c o H. rewrite pendl_app, H. unfold inval_render. destruct (run && _); reflexivity.
Qed.

Lemma pend_loop_step : forall w s, pendl (out s) = [] -> pendl (out (loop_step w s)) = [].
Proof.
  intros w s H. unfold loop_step. destruct (lclosed (en s)); [exact H|].
  destruct (loopq (en s)) as [|t q]; [exact H|].
  destruct (get_app_or_none _ _ && _).
  - pose proof (submit_pend (running (en s)) (cpr_pending (cp s)) (PWrite t) (ch s) (out s) H) as K.
    destruct (submit _ _ _ _ _) as [c' o']. exact K.
  - cbn [out]. rewrite pendl_app, H. reflexivity.
Qed.

Lemma pend_step : forall s l, pendl (out s) = [] -> pendl (out (step s l)) = [].
Proof.
  intros s l H. destruct l; cbn [step out]; try exact H.
  - (* FDeliver *)
    destruct (fth (px s)) as [| | |acc dn [k|]| |]; try exact H.
    + destruct (Nat.eqb k (lid (en s)) && negb (lclosed (en s))); cbn [out]; [exact H|].
      rewrite pendl_app, H. reflexivity.
    + cbn [out]. rewrite pendl_app, H. reflexivity.
  - (* AppStart *)
    destruct (negb (app (en s)) && negb (running (en s))); [|exact H]. cbn [out]. rewrite pendl_app, H. reflexivity.
  - (* AppExit *)
    destruct (app (en s) && running (en s)); [|exact H]. cbn [out]. rewrite pendl_app, H.
    destruct (active (ch s)); reflexivity.
  - (* AppStop *)
    destruct (app (en s) && negb (running (en s)) && fdone (ch s) (lastf (ch s)) && Nat.eqb (cprq (cp s)) 0); exact H.
  - (* LoopClose *)
    destruct (negb (app (en s)) && negb (lclosed (en s))); exact H.
  - (* LoopStep *)
    now apply pend_loop_step.
  - (* Render *)
    destruct (app (en s) && running (en s) && _); [|exact H]. cbn [out]. rewrite pendl_app, H. reflexivity.
  - (* ExtBegin *)
    destruct (app (en s) && running (en s)); [|exact H].
    pose proof (submit_pend (running (en s)) (cpr_pending (cp s)) PExt (ch s) (out s) H) as K.
    destruct (submit _ _ _ _ _) as [c' o']. exact K.
  - (* ExtEnd *)
    destruct (active (ch s)); [|exact H]. cbn [out]. rewrite pendl_app, H. destruct (running (en s)); reflexivity.
  - (* Wake *)
    destruct (nth_error (waitq (ch s)) i) as [x|]; [|exact H].
    destruct (fdone (ch s) (s_prev x) && negb (cprwait (cp s))); [|exact H].
    destruct (cpr_pending (cp s)); [exact H|].
    match goal with |- context [start_sec ?r ?x ?c0 ?o] =>
      pose proof (start_sec_pend r x c0 o H) as K; destruct (start_sec r x c0 o) as [c' o'] end.
    exact K.
  - (* CprAnswer *)
    destruct (app (en s) && cpron (cp s) && negb (Nat.eqb (cprq (cp s)) 0) && _); [|exact H].
    destruct (cprwait (cp s) && _).
    + match goal with |- context [resume ?r ?q ?c ?k ?o] =>
        pose proof (resume_pend r q c k o H) as K; destruct (resume r q c k o) as [[c' k'] o'] end.
      cbn [snd] in K. cbn [out]. now apply inval_pend.
    + cbn [out]. now apply inval_pend.
  - (* CprTimeout *)
    destruct (negb (Nat.eqb (cprq (cp s)) 0) && _); [|exact H].
    destruct (cprwait (cp s)); [|exact H].
    match goal with |- context [resume ?r ?q ?c ?k ?o] =>
      pose proof (resume_pend r q c k o H) as K; destruct (resume r q c k o) as [[c' k'] o'] end.
    exact K.
  - (* LPW *) destruct (patched (en s)); exact H.
  - (* LPFlush *) destruct (patched (en s)); exact H.
  - (* AppDone *) destruct (app (en s) && running (en s) && negb (isdone (en s))); exact H.
Qed.

Lemma pend_run : forall ls s, pendl (out s) = [] -> pendl (out (run s ls)) = [].
Proof.
  induction ls as [|l ls IH]; intros s H; [exact H|].
  change (run s (l :: ls)) with (run (step s l) ls). apply IH. now apply pend_step.
Qed.

(* EVERY schedule: nothing is left in the Output's buffer, the terminal has all that was written *)
Lemma flushed_always : forall c r ls,
  let s := run (init2 c r) ls in pending_text s = [] /\ term_text s = out_text s.
Proof.
  intros c r ls. cbn zeta.
  assert (P : pending_text (run (init2 c r) ls) = []).
  { rewrite pending_pendl. apply pend_run. reflexivity. }
  split; [exact P|]. rewrite <- term_pending, P. now rewrite app_nil_r.
Qed.

Lemma flushed_from : forall s ls, pending_text s = [] ->
  pending_text (run s ls) = [] /\ term_text (run s ls) = out_text (run s ls).
Proof.
  intros s ls H. rewrite pending_pendl in H.
  assert (P : pending_text (run s ls) = []) by (rewrite pending_pendl; now apply pend_run).
  split; [exact P|]. rewrite <- term_pending, P. now rewrite app_nil_r.
Qed.

(* ---- the session a callback sees (fix acce0d8) ---- *)
(* HEAD: for a proxy created in ANY session the callback's get_app_or_none() is "is there an
   application in the proxy's session" (sees_own_app in C20_Order.v).  Pre-fix: the callback asks the
   default session - right for a proxy of the default session, blind for any other. *)
Lemma noctx_default_same : forall s l, ctx (en s) = true -> step_noctx s l = step s l.
Proof.
  intros s l C. destruct l; try reflexivity. cbn [step_noctx step]. unfold loop_step, cb_session, proxy_session.
  rewrite C. reflexivity.
Qed.

Lemma noctx_other_session_blind : forall e, ctx e = false -> get_app_or_none (cb_session false e) e = false.
Proof. intros e C. unfold get_app_or_none, cb_session, proxy_session. rewrite C. cbn. apply andb_false_r. Qed.

(* the other-session witness on the pre-fix loop step: written while the application runs,
   outside any run-in-terminal section, with no erase *)
Lemma ctx_unbracketed_noctx :
  all_enabled (init_running false) w_ctx = true /\
  forallb ev_ok (out (run_noctx (init_running false) w_ctx)) = false /\
  brk_run (out (run_noctx (init_running false) w_ctx)) = None /\
  (* ... and the same list with the proxy in the default session is fine on that step too *)
  forallb ev_ok (out (run_noctx (init_running true) w_ctx)) = true.
Proof. vm_compute. repeat split. Qed.

(* ---- raw=True / Vt100_Output.write's escape replacement ---- *)
Lemma vt_write_app : forall raw a b, vt_write raw (a ++ b) = vt_write raw a ++ vt_write raw b.
Proof. intros [] a b; unfold vt_write; [reflexivity|apply map_app]. Qed.

(* escaping a joined batch = joining the escaped pieces: no write call's text is changed by its neighbours *)
Lemma vt_write_concat : forall raw l, vt_write raw (concat l) = concat (map (vt_write raw) l).
Proof.
  intros raw l. induction l as [|t l IH]; [destruct raw; reflexivity|].
  cbn [concat map]. now rewrite vt_write_app, IH.
Qed.

Lemma vt_write_length : forall raw t, length (vt_write raw t) = length t.
Proof. intros [] t; unfold vt_write; [reflexivity|apply map_length]. Qed.

Lemma vt_write_raw : forall t, vt_write true t = t.
Proof. reflexivity. Qed.

Lemma vt_write_noesc : forall t, forallb (fun c => negb (Z.eqb c 27)) t = true -> vt_write false t = t.
Proof.
  induction t as [|c t IH]; [reflexivity|]. cbn [forallb]. intros H. apply andb_true_iff in H. destruct H as [H1 H2].
  unfold vt_write in *. cbn [map]. rewrite (IH H2). apply negb_true_iff in H1. now rewrite H1.
Qed.

Lemma ev_bytes_otext : forall raw o, concat (ev_bytes raw o) = vt_write raw (otext o).
Proof.
  intros raw o. induction o as [|e o IH]; [destruct raw; reflexivity|].
  unfold otext in *. destruct e; cbn [ev_bytes map concat ev_text app]; try exact IH.
  now rewrite vt_write_app, IH.
Qed.
