(* C06 - the single scroll of a final render that fills all B rows of the
   bounded terminal: from the line feed on the last row on, the bounded terminal
   is the unbounded one shifted up by one line (on the rows above the last). *)
From Coq Require Import ZArith List Bool Lia.
From PTK Require Import Lib.Sx Lib.Py Model.C06_Terminal Model.C06_Renderer
  Proofs.C06_TermFacts Proofs.C06_RowFacts.
Import ListNotations.
Open Scope Z_scope.

(* tokens the renderer's diff never emits after the prologue *)
Definition plain (k : tok) : Prop := match k with THome | TCUD _ => False | _ => True end.
Definition tok_is_lf (k : tok) : bool := match k with TLF => true | _ => false end.

Section Scroll.
Variable B W : Z.

(* tb is tu scrolled up by one line, as far as the rows above the last one go *)
Definition shifted (tu tb : term) : Prop :=
  cx tb = cx tu /\ cy tb = cy tu - 1 /\ pen tb = pen tu /\ aw tb = aw tu /\ cvis tb = cvis tu /\
  pend tb = pend tu /\ undef tb = undef tu /\
  (forall y x, y <= B - 2 -> tgrid tb y x = tgrid tu (y + 1) x).

Definition roweq (g1 : grid) (y1 : Z) (g2 : grid) (y2 : Z) : Prop := forall x, g1 y1 x = g2 y2 x.

Lemma upd_roweq : forall g1 y1 g2 y2 x v, roweq g1 y1 g2 y2 -> roweq (upd g1 y1 x v) y1 (upd g2 y2 x v) y2.
Proof. intros g1 y1 g2 y2 x v R x'. unfold upd. rewrite !Z.eqb_refl. cbn [andb]. rewrite R. reflexivity. Qed.

Lemma upd_row_other : forall g y x v y', y' <> y -> forall x', upd g y x v y' x' = g y' x'.
Proof.
  intros g y x v y' N x'. unfold upd. destruct (y' =? y) eqn:E; [apply Z.eqb_eq in E; lia|reflexivity].
Qed.

Lemma boh_roweq : forall g1 y1 g2 y2 x, roweq g1 y1 g2 y2 -> roweq (boh g1 y1 x) y1 (boh g2 y2 x) y2.
Proof.
  intros g1 y1 g2 y2 x R. unfold boh. rewrite (R x).
  destruct (tk (g2 y2 x) =? 1).
  - rewrite (R (x + 1)). apply upd_roweq. exact R.
  - destruct (tk (g2 y2 x) =? 2); [|exact R]. rewrite (R (x - 1)). apply upd_roweq. exact R.
Qed.

Lemma boh_row_other : forall g y x y', y' <> y -> forall x', boh g y x y' x' = g y' x'.
Proof.
  intros g y x y' N x'. unfold boh.
  destruct (tk (g y x) =? 1); [apply upd_row_other; exact N|].
  destruct (tk (g y x) =? 2); [apply upd_row_other; exact N|reflexivity].
Qed.

(* writing a glyph: the same construction on corresponding rows *)
Definition put_grid (g : grid) (y x : Z) (gl : list Z) (p w : Z) : grid :=
  let g1 := boh g y x in
  let g2 := if w =? 2 then boh g1 y (x + 1) else g1 in
  let g3 := upd g2 y x (mkcell gl p (if w =? 1 then 0 else 1)) in
  if w =? 2 then upd g3 y (x + 1) (mkcell [] p 2) else g3.

Lemma put_grid_roweq : forall g1 y1 g2 y2 x gl p w,
  roweq g1 y1 g2 y2 -> roweq (put_grid g1 y1 x gl p w) y1 (put_grid g2 y2 x gl p w) y2.
Proof.
  intros g1 y1 g2 y2 x gl p w R. unfold put_grid.
  destruct (w =? 2).
  - apply upd_roweq. apply upd_roweq. apply boh_roweq. apply boh_roweq. exact R.
  - apply upd_roweq. apply boh_roweq. exact R.
Qed.

Lemma put_grid_other : forall g y x gl p w y', y' <> y -> forall x', put_grid g y x gl p w y' x' = g y' x'.
Proof.
  intros g y x gl p w y' N x'. unfold put_grid.
  destruct (w =? 2).
  - rewrite upd_row_other by exact N. rewrite upd_row_other by exact N.
    rewrite boh_row_other by exact N. apply boh_row_other; exact N.
  - rewrite upd_row_other by exact N. apply boh_row_other; exact N.
Qed.

Lemma grid_rel_put : forall gu gb yu yb x gl p w,
  yb = yu - 1 ->
  (forall y x, y <= B - 2 -> gb y x = gu (y + 1) x) ->
  forall y x', y <= B - 2 -> put_grid gb yb x gl p w y x' = put_grid gu yu x gl p w (y + 1) x'.
Proof.
  intros gu gb yu yb x gl p w E G y x' Hy.
  destruct (Z.eq_dec y yb) as [->|N].
  - replace (yb + 1) with yu by lia. apply put_grid_roweq. intros x0. rewrite G by exact Hy. f_equal. lia.
  - rewrite put_grid_other by exact N. rewrite put_grid_other by lia. apply G. exact Hy.
Qed.

Lemma put_shifted : forall tu tb g w, shifted tu tb -> shifted (put W tu g w) (put W tb g w).
Proof.
  intros tu tb g w (X & Y & N & A & V & P & U & G). unfold put. rewrite X, N, A, V, P, U.
  destruct ((w <? 1) || (2 <? w)).
  { unfold shifted, set_undef; cbn [cx cy pen aw cvis pend undef tgrid]. repeat (split; [first [reflexivity|assumption|lia]|]). exact G. }
  set (wrap := pend tu && aw tu).
  set (x := if wrap then 0 else cx tu).
  destruct ((w =? 2) && (W - 1 <=? x)).
  { unfold shifted, set_undef; cbn [cx cy pen aw cvis pend undef tgrid].
    rewrite Y. repeat (split; [first [reflexivity|destruct wrap; lia]|]). exact G. }
  change (if w =? 2
          then upd (upd (if w =? 2 then boh (boh (tgrid tu) (if wrap then cy tu + 1 else cy tu) x) (if wrap then cy tu + 1 else cy tu) (x + 1)
                         else boh (tgrid tu) (if wrap then cy tu + 1 else cy tu) x) (if wrap then cy tu + 1 else cy tu) x
                      (mkcell g (pen tu) (if w =? 1 then 0 else 1))) (if wrap then cy tu + 1 else cy tu) (x + 1) (mkcell [] (pen tu) 2)
          else upd (if w =? 2 then boh (boh (tgrid tu) (if wrap then cy tu + 1 else cy tu) x) (if wrap then cy tu + 1 else cy tu) (x + 1)
                    else boh (tgrid tu) (if wrap then cy tu + 1 else cy tu) x) (if wrap then cy tu + 1 else cy tu) x
                 (mkcell g (pen tu) (if w =? 1 then 0 else 1)))
    with (put_grid (tgrid tu) (if wrap then cy tu + 1 else cy tu) x g (pen tu) w).
  change (if w =? 2
          then upd (upd (if w =? 2 then boh (boh (tgrid tb) (if wrap then cy tb + 1 else cy tb) x) (if wrap then cy tb + 1 else cy tb) (x + 1)
                         else boh (tgrid tb) (if wrap then cy tb + 1 else cy tb) x) (if wrap then cy tb + 1 else cy tb) x
                      (mkcell g (pen tu) (if w =? 1 then 0 else 1))) (if wrap then cy tb + 1 else cy tb) (x + 1) (mkcell [] (pen tu) 2)
          else upd (if w =? 2 then boh (boh (tgrid tb) (if wrap then cy tb + 1 else cy tb) x) (if wrap then cy tb + 1 else cy tb) (x + 1)
                    else boh (tgrid tb) (if wrap then cy tb + 1 else cy tb) x) (if wrap then cy tb + 1 else cy tb) x
                 (mkcell g (pen tu) (if w =? 1 then 0 else 1)))
    with (put_grid (tgrid tb) (if wrap then cy tb + 1 else cy tb) x g (pen tu) w).
  assert (GR : forall y x', y <= B - 2 ->
            put_grid (tgrid tb) (if wrap then cy tb + 1 else cy tb) x g (pen tu) w y x' =
            put_grid (tgrid tu) (if wrap then cy tu + 1 else cy tu) x g (pen tu) w (y + 1) x').
  { apply grid_rel_put; [destruct wrap; lia|exact G]. }
  destruct (x + w <=? W - 1); unfold shifted; cbn [cx cy pen aw cvis pend undef tgrid];
    repeat (split; [first [reflexivity|destruct wrap; lia]|]); exact GR.
Qed.

Lemma el_shifted : forall tu tb, shifted tu tb ->
  forall y x, y <= B - 2 -> erase_line tb y x = erase_line tu (y + 1) x.
Proof.
  intros tu tb (X & Y & N & A & V & P & U & G) y x Hy. unfold erase_line. rewrite X, N.
  replace (y + 1 =? cy tu) with (y =? cy tb) by (destruct (y =? cy tb) eqn:E1; destruct (y + 1 =? cy tu) eqn:E2; lia).
  destruct ((y =? cy tb) && (cx tu <=? x)); [reflexivity|].
  destruct (Z.eq_dec y (cy tb)) as [E|NE].
  - subst y. replace (cy tb + 1) with (cy tu) by lia.
    assert (R : roweq (tgrid tb) (cy tb) (tgrid tu) (cy tu)).
    { intros x0. rewrite G by exact Hy. f_equal. lia. }
    rewrite (R (cx tu)). destruct (tk (tgrid tu (cy tu) (cx tu)) =? 2); [apply boh_roweq; exact R|apply R].
  - assert (E1 : forall gq, (if tk (tgrid tb (cy tb) (cx tu)) =? 2 then boh (tgrid tb) (cy tb) (cx tu) else tgrid tb) = gq ->
                 gq y x = tgrid tb y x).
    { intros gq <-. destruct (tk (tgrid tb (cy tb) (cx tu)) =? 2); [apply boh_row_other; exact NE|reflexivity]. }
    assert (E2 : forall gq, (if tk (tgrid tu (cy tu) (cx tu)) =? 2 then boh (tgrid tu) (cy tu) (cx tu) else tgrid tu) = gq ->
                 gq (y + 1) x = tgrid tu (y + 1) x).
    { intros gq <-. destruct (tk (tgrid tu (cy tu) (cx tu)) =? 2); [apply boh_row_other; lia|reflexivity]. }
    rewrite (E1 _ eq_refl), (E2 _ eq_refl). apply G. exact Hy.
Qed.

Lemma ed_shifted : forall tu tb, shifted tu tb ->
  forall y x, y <= B - 2 -> erase_down tb y x = erase_down tu (y + 1) x.
Proof.
  intros tu tb S y x Hy. pose proof S as (X & Y & N & _). unfold erase_down. rewrite N.
  replace (cy tu <? y + 1) with (cy tb <? y) by (destruct (cy tb <? y) eqn:E1; destruct (cy tu <? y + 1) eqn:E2; lia).
  destruct (cy tb <? y); [reflexivity|]. apply el_shifted; assumption.
Qed.

(* every token but cursor-home / cursor-down keeps the two terminals one line apart;
   a line feed must not happen on the bounded terminal's last row *)
Lemma step_shifted : forall tu tb k,
  shifted tu tb -> plain k -> (k = TLF -> cy tb <> B - 1) ->
  shifted (tstep W tu k) (tstep W tb k).
Proof.
  intros tu tb k S PL NL. pose proof S as (X & Y & N & A & V & P & U & G).
  destruct k as [g w| | |n|n|n|n| | | |p|b|b| |i]; cbn [plain] in PL; try contradiction; cbn [tstep].
  - destruct g; [exact S|apply put_shifted; exact S].
  - unfold shifted; cbn [cx cy pen aw cvis pend undef tgrid]. repeat (split; [first [reflexivity|assumption|lia]|]). exact G.
  - unfold shifted; cbn [cx cy pen aw cvis pend undef tgrid]. repeat (split; [first [reflexivity|assumption|lia]|]). exact G.
  - unfold shifted; cbn [cx cy pen aw cvis pend undef tgrid]. repeat (split; [first [reflexivity|assumption|lia]|]). exact G.
  - unfold shifted; cbn [cx cy pen aw cvis pend undef tgrid]. rewrite X. repeat (split; [first [reflexivity|assumption|lia]|]). exact G.
  - unfold shifted; cbn [cx cy pen aw cvis pend undef tgrid]. rewrite X. repeat (split; [first [reflexivity|assumption|lia]|]). exact G.
  - unfold shifted; cbn [cx cy pen aw cvis pend undef tgrid]. rewrite X. repeat (split; [first [reflexivity|assumption|lia]|]). exact G.
  - unfold shifted; cbn [cx cy pen aw cvis pend undef tgrid]. repeat (split; [first [reflexivity|assumption|lia]|]). apply el_shifted; exact S.
  - unfold shifted; cbn [cx cy pen aw cvis pend undef tgrid]. repeat (split; [first [reflexivity|assumption|lia]|]). apply ed_shifted; exact S.
  - unfold shifted; cbn [cx cy pen aw cvis pend undef tgrid]. repeat (split; [first [reflexivity|assumption|lia]|]). exact G.
  - unfold shifted; cbn [cx cy pen aw cvis pend undef tgrid]. rewrite P. repeat (split; [first [reflexivity|assumption|lia]|]). exact G.
  - unfold shifted; cbn [cx cy pen aw cvis pend undef tgrid]. repeat (split; [first [reflexivity|assumption|lia]|]). exact G.
  - exact S.
Qed.

Lemma tstepB_plain : forall tb n k, plain k -> (k = TLF -> cy tb <> B - 1) ->
  tstepB B W (tb, n) k = (tstep W tb k, n).
Proof.
  intros tb n k PL NL. unfold tstepB. destruct k; cbn [plain] in PL; try contradiction; try reflexivity.
  destruct (cy tb =? B - 1) eqn:E; [apply Z.eqb_eq in E; exfalso; apply (NL eq_refl); exact E|reflexivity].
Qed.

Lemma run_shifted : forall ks tu tb n b2,
  shifted tu tb -> Forall plain ks -> okrun B b2 W tu ks ->
  exists tb', trunB B W (tb, n) ks = (tb', n) /\ shifted (trun W tu ks) tb'.
Proof.
  induction ks as [|k ks IH]; intros tu tb n b2 S F O; cbn [trunB trun fold_left okrun] in *.
  - exists tb. split; [reflexivity|exact S].
  - inversion F as [|? ? PL F']; subst. destruct O as (O1 & _ & O3).
    assert (NL : k = TLF -> cy tb <> B - 1).
    { intros ->. cbn [tstep cy] in O1. destruct S as (_ & Y & _). lia. }
    rewrite tstepB_plain by assumption.
    apply (IH (tstep W tu k) (tstep W tb k) n b2); auto. apply step_shifted; assumption.
Qed.

(* at most one scroll; if it happens, the rest of the stream runs one line up *)
Lemma run_scroll_once : forall ks t n b2,
  Forall plain ks -> okrun B b2 W t ks ->
  trunB B W (t, n) ks = (trun W t ks, n) \/
  exists tb', trunB B W (t, n) ks = (tb', n + 1) /\ shifted (trun W t ks) tb'.
Proof.
  induction ks as [|k ks IH]; intros t n b2 F O; cbn [trunB trun fold_left okrun] in *.
  - left. reflexivity.
  - inversion F as [|? ? PL F']; subst. destruct O as (O1 & _ & O3).
    destruct (tok_is_lf k && (cy t =? B - 1)) eqn:E.
    + apply andb_true_iff in E. destruct E as [E1 E2]. apply Z.eqb_eq in E2.
      destruct k; cbn [tok_is_lf] in E1; try discriminate.
      right.
      assert (T0 : tstepB B W (t, n) TLF = (scroll_up B t, n + 1))
        by (unfold tstepB; rewrite E2, Z.eqb_refl; reflexivity).
      rewrite T0.
      assert (S : shifted (tstep W t TLF) (scroll_up B t)).
      { unfold shifted, scroll_up; cbn [tstep cx cy pen aw cvis pend undef tgrid].
        repeat (split; [first [reflexivity|lia]|]).
        intros y x Hy. destruct (y =? B - 1) eqn:A1; [apply Z.eqb_eq in A1; lia|].
        destruct (y <? B - 1) eqn:A2; [reflexivity|lia]. }
      destruct (run_shifted ks (tstep W t TLF) (scroll_up B t) (n + 1) b2 S F' O3) as (tb' & T & S').
      exists tb'. split; [exact T|exact S'].
    + assert (NL : k = TLF -> cy t <> B - 1).
      { intros ->. cbn [tok_is_lf andb] in E. intro C. rewrite C, Z.eqb_refl in E. discriminate. }
      rewrite tstepB_plain by assumption. apply (IH (tstep W t k) n b2); assumption.
Qed.

End Scroll.

(* ---- the renderer's diff emits neither cursor-home nor cursor-down ---- *)
Lemma plain_cuf : forall n, Forall plain (cuf n).
Proof. intros n. unfold cuf. destruct (n =? 0); repeat constructor. Qed.
Lemma plain_cub : forall n, Forall plain (cub n).
Proof. intros n. unfold cub. destruct (n =? 0); [constructor|]. destruct (n =? 1); repeat constructor. Qed.
Lemma plain_cuu : forall n, Forall plain (cuu n).
Proof. intros n. unfold cuu. destruct (n =? 0); repeat constructor. Qed.
Lemma plain_crlf : forall n, Forall plain (crlf n).
Proof. induction n; cbn [crlf]; repeat constructor. exact IHn. Qed.

Lemma plain_move_cursor : forall W pos ls new, Forall plain (snd (move_cursor W pos ls new)).
Proof.
  intros W [x y] ls [nx ny]. unfold move_cursor. destruct (y <? ny); cbn [snd].
  - constructor; [exact I|]. apply Forall_app. split; [apply plain_crlf|apply plain_cuf].
  - apply Forall_app. split; [destruct (ny <? y); [apply plain_cuu|constructor]|].
    destruct (W - 1 <=? x); [constructor; [exact I|apply plain_cuf]|].
    destruct (nx <? x); [apply plain_cub|]. destruct (x <? nx); [apply plain_cuf|constructor].
Qed.

Lemma plain_output_char : forall tb ls c, Forall plain (snd (output_char tb ls c)).
Proof.
  intros tb ls c. unfold output_char.
  destruct (match ls with Some s => s =? st c | None => false end); cbn [snd]; [repeat constructor|].
  destruct (ls_falsy ls || _); repeat constructor.
Qed.

Lemma plain_cols : forall fuel tb W y nr pr zw nmax c pos ls,
  Forall plain (snd (cols fuel tb W y nr pr zw nmax c pos ls)).
Proof.
  induction fuel as [|f IH]; intros; cbn [cols]; [constructor|].
  destruct (nmax <? c); [constructor|].
  destruct (differs (rget nr c) (rget pr c)); [|apply IH].
  pose proof (plain_move_cursor W pos ls (c, y)) as M.
  destruct (move_cursor W pos ls (c, y)) as [ls1 t1]. cbn [snd] in M.
  assert (O : Forall plain (snd (if is_transp (rget nr c) then (@None Z, [TSGR 0; TText [32] 1])
                                 else output_char tb ls1 (rget nr c)))).
  { destruct (is_transp (rget nr c)); [repeat constructor|apply plain_output_char]. }
  destruct (if is_transp (rget nr c) then (@None Z, [TSGR 0; TText [32] 1]) else output_char tb ls1 (rget nr c)) as [ls2 t3].
  cbn [snd] in O.
  match goal with |- context [cols f tb W y nr pr zw nmax ?c' ?p' ls2] =>
    pose proof (IH tb W y nr pr zw nmax c' p' ls2) as R;
    destruct (cols f tb W y nr pr zw nmax c' p' ls2) as [[p2 l2] ts] end.
  cbn [snd] in *. apply Forall_app. split; [exact M|]. apply Forall_app. split.
  - destruct (zget zw y c); repeat constructor.
  - apply Forall_app. split; assumption.
Qed.

Lemma plain_do_row : forall tb W y scr prev pos ls, Forall plain (snd (do_row tb W y scr prev pos ls)).
Proof.
  intros. unfold do_row.
  match goal with |- context [cols ?f tb W y ?nr ?pr ?zw ?nm 0 pos ls] =>
    pose proof (plain_cols f tb W y nr pr zw nm 0 pos ls) as C;
    destruct (cols f tb W y nr pr zw nm 0 pos ls) as [[p1 l1] t1] end.
  cbn [snd] in C.
  match goal with |- context [if ?b then _ else _] => destruct b end; [|exact C].
  match goal with |- context [move_cursor W p1 l1 ?nw] =>
    pose proof (plain_move_cursor W p1 l1 nw) as M; destruct (move_cursor W p1 l1 nw) as [lx t2] end.
  cbn [snd] in *. apply Forall_app. split; [exact C|]. apply Forall_app. split; [exact M|repeat constructor].
Qed.

Lemma plain_rows_loop : forall n tb W y scr prev pos ls, Forall plain (snd (rows_loop n tb W y scr prev pos ls)).
Proof.
  induction n as [|n IH]; intros; cbn [rows_loop]; [constructor|].
  pose proof (plain_do_row tb W y scr prev pos ls) as D.
  destruct (do_row tb W y scr prev pos ls) as [[p1 l1] t1].
  pose proof (IH tb W (y + 1) scr prev p1 l1) as R.
  destruct (rows_loop n tb W (y + 1) scr prev p1 l1) as [[p2 l2] t2].
  cbn [snd] in *. apply Forall_app. split; assumption.
Qed.

Lemma plain_show : forall cv, Forall plain (snd (show_cursor cv)).
Proof. intros [[|]|]; cbn; repeat constructor. Qed.

Lemma plain_diff_body : forall tb W H fs done scr prev pos ls cv,
  Forall plain (snd (diff_body tb W H fs done scr prev pos ls cv)).
Proof.
  intros. unfold diff_body.
  match goal with |- context [rows_loop ?n tb W 0 scr prev pos ls] =>
    pose proof (plain_rows_loop n tb W 0 scr prev pos ls) as R;
    destruct (rows_loop n tb W 0 scr prev pos ls) as [[p1 l1] t1] end.
  cbn [snd] in R.
  set (cur_h := Z.min (sh scr) H).
  assert (M2 : forall q, q = (if sh prev <? cur_h
                              then let '(l, t) := move_cursor W p1 l1 (0, cur_h - 1) in ((0, cur_h - 1), l, t)
                              else (p1, l1, [])) -> Forall plain (snd q)).
  { intros q ->. destruct (sh prev <? cur_h); [|constructor].
    pose proof (plain_move_cursor W p1 l1 (0, cur_h - 1)) as M.
    destruct (move_cursor W p1 l1 (0, cur_h - 1)) as [l t]. exact M. }
  specialize (M2 _ eq_refl).
  destruct (if sh prev <? cur_h then let '(l, t) := move_cursor W p1 l1 (0, cur_h - 1) in ((0, cur_h - 1), l, t)
            else (p1, l1, [])) as [[p2 l2] t2].
  cbn [snd] in M2.
  assert (M3 : forall q, q = (if done
                              then let '(_, t) := move_cursor W p2 l2 (0, cur_h) in ((0, cur_h), t ++ [TED])
                              else let '(_, t) := move_cursor W p2 l2 (scx scr, scy scr) in ((scx scr, scy scr), t)) ->
               Forall plain (snd q)).
  { intros q ->. destruct done.
    - pose proof (plain_move_cursor W p2 l2 (0, cur_h)) as M. destruct (move_cursor W p2 l2 (0, cur_h)) as [l t].
      cbn [snd] in *. apply Forall_app. split; [exact M|repeat constructor].
    - pose proof (plain_move_cursor W p2 l2 (scx scr, scy scr)) as M.
      destruct (move_cursor W p2 l2 (scx scr, scy scr)) as [l t]. exact M. }
  specialize (M3 _ eq_refl).
  destruct (if done then let '(_, t) := move_cursor W p2 l2 (0, cur_h) in ((0, cur_h), t ++ [TED])
            else let '(_, t) := move_cursor W p2 l2 (scx scr, scy scr) in ((scx scr, scy scr), t)) as [p3 t3].
  cbn [snd] in M3.
  pose proof (plain_show cv) as SC.
  destruct (if sshow scr then show_cursor cv else (cv, [])) as [cv' t5] eqn:E5.
  assert (T5 : Forall plain t5).
  { destruct (sshow scr); [rewrite E5 in SC; exact SC|inversion E5; constructor]. }
  cbn [snd]. apply Forall_app. split; [exact R|]. apply Forall_app. split; [exact M2|].
  apply Forall_app. split; [exact M3|]. apply Forall_app. split; [destruct (done || negb fs); repeat constructor|].
  constructor; [exact I|exact T5].
Qed.

Lemma plain_screen_diff : forall tb W H fs done scr prev pos ls prevW cv,
  Forall plain (snd (screen_diff tb W H fs done scr prev pos ls prevW cv)).
Proof.
  intros. unfold screen_diff.
  assert (HC : Forall plain (snd (hide_cursor cv))) by (destruct cv as [[|]|]; cbn; repeat constructor).
  destruct (hide_cursor cv) as [cv1 t0]. cbn [snd] in HC.
  destruct (if is_none prev then (@None Z, [TSGR 0]) else (ls, [])) as [ls1 t1] eqn:E1.
  assert (T1 : Forall plain t1) by (destruct (is_none prev); inversion E1; repeat constructor).
  destruct (done || is_none prev || negb (prevW =? W)).
  - pose proof (plain_move_cursor W pos ls1 (0, 0)) as M. destruct (move_cursor W pos ls1 (0, 0)) as [l t].
    pose proof (plain_diff_body tb W H fs done scr empty_screen (0, 0) None cv1) as D.
    destruct (diff_body tb W H fs done scr empty_screen (0, 0) None cv1) as [[p3 c3] t4].
    cbn [snd] in *. apply Forall_app. split; [exact HC|]. apply Forall_app. split; [exact T1|].
    apply Forall_app. split; [destruct (is_none prev || negb fs); repeat constructor|].
    apply Forall_app. split; [|exact D]. apply Forall_app. split; [exact M|repeat constructor].
  - match goal with |- context [diff_body tb W H fs done scr ?pv pos ls1 cv1] =>
      pose proof (plain_diff_body tb W H fs done scr pv pos ls1 cv1) as D;
      destruct (diff_body tb W H fs done scr pv pos ls1 cv1) as [[p3 c3] t4] end.
    cbn [snd] in *. apply Forall_app. split; [exact HC|]. apply Forall_app. split; [exact T1|].
    apply Forall_app. split; [destruct (is_none prev || negb fs); repeat constructor|].
    exact D.
Qed.

Lemma plain_reset : forall r, Forall plain (snd (r_reset r)).
Proof.
  intros r. unfold r_reset. pose proof (plain_show (rcv r)) as S. destruct (show_cursor (rcv r)) as [cv t3].
  cbn [snd] in *. apply Forall_app. split; [destruct (ralt r); repeat constructor|].
  apply Forall_app. split; [destruct (rbp r); repeat constructor|exact S].
Qed.
