(* C07 - editing sessions over computed texts (Model/C07_Edit.v). *)
From Coq Require Import ZArith List Bool Lia.
From PTK Require Import Lib.Sx Lib.Py Lib.C07_Lemmas Model.Document Model.BufferEdit Proofs.BufferEditFacts.
From PTK Require Import Model.C07_Undo Model.C07_Keys Model.C07_Table Model.C07_Edit
  Gen.C07_Bindings Proofs.C07_UndoFacts Proofs.C07_KeysFacts Proofs.C07_KeyHistFacts Proofs.C07_TableFacts.
Import ListNotations.
Open Scope Z_scope.

(* an editing session IS the key session it compiles to *)
Theorem erun_is_krun tbl cs : forall s, erun tbl s cs = krun tbl s (ecompile tbl s cs).
Proof.
  induction cs as [|c cs IH]; intros s; [reflexivity|].
  cbn [erun fold_left ecompile krun]. apply IH.
Qed.

Lemma as_buf_inv u : wf u -> Inv (as_buf u).
Proof. intros (Hh & _). exact Hh. Qed.

Lemma to_kev_ok tbl s c : wf (kbuf s) -> kev_ok (to_kev tbl s c).
Proof.
  intros Hwf. destruct c as [h o|h arg| |]; cbn [to_kev kev_ok]; try exact I.
  - split; [|lia]. apply (step_inv (as_buf (kbuf s)) o). apply as_buf_inv. exact Hwf.
  - unfold undo_calls. destruct (r_role (lookup tbl h) =? 4); lia.
Qed.

Lemma ecompile_ok tbl cs : forall s, wf (kbuf s) -> Forall kev_ok (ecompile tbl s cs).
Proof.
  induction cs as [|c cs IH]; intros s Hwf; [constructor|].
  cbn [ecompile]. constructor; [apply to_kev_ok; exact Hwf|].
  apply IH. unfold estep. apply wf_kstep; [exact Hwf|apply to_kev_ok; exact Hwf].
Qed.

(* what a decodable command is *)
Definition ecmd_valid (tbl : list row) (c : ecmd) : Prop :=
  match c with
  | EEdit h o => r_act (lookup tbl h) = 0 /\ op_of_role (r_role (lookup tbl h)) o = true
  | EUndoKey h _ => r_act (lookup tbl h) = 1
  | ERedo | ECpr => True
  end.

Lemma op_of_role_not_cpr role o : op_of_role role o = true -> role <> 7.
Proof.
  intros H E. subst role. destruct o; cbn [op_of_role] in H; discriminate.
Qed.

Lemma ecompile_modelled cs : forall s,
  Forall (ecmd_valid c07_rows) cs -> Forall (modelled c07_rows) (ecompile c07_rows s cs).
Proof.
  induction cs as [|c cs IH]; intros s H; [constructor|].
  inversion H as [|? ? Hc Hr]; subst. cbn [ecompile]. constructor; [|apply IH; exact Hr].
  destruct c as [h o|h arg| |]; cbn [to_kev modelled]; try exact I.
  destruct Hc as [Ha Ho]. split; [exact Ha|].
  destruct (live_classification h) as [[_ Hc]|[[Ha' _]|Hr7]]; [exact Hc|congruence|].
  exfalso. apply (op_of_role_not_cpr _ _ Ho Hr7).
Qed.

Lemma ksession_start_no_reset t0 evs :
  Forall (fun e => match e with KReset _ _ => False | _ => True end) evs -> ksession_start t0 evs = t0.
Proof.
  revert t0. induction evs as [|e evs IH]; intros t0 H; [reflexivity|].
  inversion H as [|? ? He Hr]; subst. unfold ksession_start. cbn [fold_left].
  destruct e; try contradiction; apply IH; exact Hr.
Qed.

Lemma ecompile_no_reset tbl cs : forall s,
  Forall (fun e => match e with KReset _ _ => False | _ => True end) (ecompile tbl s cs).
Proof.
  induction cs as [|c cs IH]; intros s; [constructor|].
  cbn [ecompile]. constructor; [destruct c; exact I|apply IH].
Qed.

(* Repeated undo after ANY editing session over the real table - typed
   characters, backspace, delete, cursor keys with any count, undo keys,
   redo() calls, reports, the texts computed by C01's edit model - ends on the
   text the session started with.  No hypothesis about what is held when. *)
Theorem edit_reaches_start t0 c0 cs k :
  0 <= c0 <= len t0 -> Forall (ecmd_valid c07_rows) cs ->
  let s := kbuf (erun c07_rows (kfresh t0 c0) cs) in
  (length (ustack s) <= k)%nat -> utext (iter_op Undo k s) = t0.
Proof.
  intros Hc Hv. cbn zeta. rewrite erun_is_krun. intros Hk.
  rewrite (live_reaches_start t0 c0 (ecompile c07_rows (kfresh t0 c0) cs) k Hc); try assumption.
  - apply ksession_start_no_reset, ecompile_no_reset.
  - apply ecompile_ok. apply wf_fresh. exact Hc.
  - apply ecompile_modelled. exact Hv.
Qed.

(* the history of an editing session: the texts computed along the way *)
Definition ehistory (t0 : str) (c0 : Z) (cs : list ecmd) : list snap :=
  snd (kgrun c07_rows (kfresh t0 c0) (ecompile c07_rows (kfresh t0 c0) cs)).

Theorem edit_undo_lands_on_computed_text t0 c0 cs :
  0 <= c0 <= len t0 ->
  let s := kbuf (erun c07_rows (kfresh t0 c0) cs) in
  let past := ehistory t0 c0 cs in
  subseq (ustack s) past /\
  ((utext (undo s) = utext s /\ ucur (undo s) = ucur s /\ ustack (undo s) = [])
   \/
   (exists newer older,
      past = newer ++ here (undo s) :: older /\ utext (undo s) <> utext s /\
      subseq (ustack (undo s)) older /\ rstack (undo s) = here s :: rstack s)).
Proof.
  intros Hc. cbn zeta. unfold ehistory. rewrite erun_is_krun.
  set (evs := ecompile c07_rows (kfresh t0 c0) cs).
  assert (Hok : Forall kev_ok evs) by (apply ecompile_ok, wf_fresh; exact Hc).
  pose proof (key_stack_is_history c07_rows t0 c0 evs live_no_redo_handler Hc Hok) as [Hs _].
  pose proof (key_undo_lands_in_history c07_rows t0 c0 evs live_no_redo_handler Hc Hok) as HL.
  cbn zeta in Hs, HL. unfold kgrun in Hs, HL. rewrite kgrun_fst in Hs, HL. cbn [fst] in Hs, HL.
  split; [exact Hs|].
  destruct HL as [(A & B & C & _)|HL]; [left; repeat split; assumption|right; exact HL].
Qed.

(* ------------------------------------------------------------------ *)
(* a typed run with its REAL text *)

Lemma firstn_len_app {T} (l1 l2 : list T) : firstn (length l1) (l1 ++ l2) = l1.
Proof. induction l1 as [|x l1 IH]; cbn; [destruct l2; reflexivity|now rewrite IH]. Qed.

Lemma skipn_len_app {T} (l1 l2 : list T) : skipn (length l1) (l1 ++ l2) = l2.
Proof. induction l1 as [|x l1 IH]; cbn; [reflexivity|exact IH]. Qed.

Lemma str_mul_1 (d : str) : str_mul d 1 = d.
Proof. unfold str_mul. cbn. apply app_nil_r. Qed.

Definition typed (ds : list str) : list op := map (fun d => OSelfInsert d 1) ds.

Lemma typed_text ds : forall b, Inv b ->
  steps b (typed ds) =
  mkbuf (firstn (Z.to_nat (bcur b)) (btext b) ++ concat ds ++ skipn (Z.to_nat (bcur b)) (btext b))
        (bcur b + len (concat ds)).
Proof.
  induction ds as [|d ds IH]; intros b Hinv.
  - cbn [typed map steps fold_left concat app]. rewrite firstn_skipn. destruct b as [t c]. cbn [btext bcur len length].
    f_equal. cbn. lia.
  - cbn [typed map steps fold_left]. fold (typed ds).
    change (fold_left (fun b o => res_buf (step b o)) (typed ds) ?x) with (steps x (typed ds)).
    cbn [step]. unfold self_insert. rewrite str_mul_1, insert_text_spec by exact Hinv. cbn [res_buf].
    set (pre := firstn (Z.to_nat (bcur b)) (btext b)). set (post := skipn (Z.to_nat (bcur b)) (btext b)).
    assert (Hpre : len pre = bcur b).
    { subst pre. unfold len. rewrite firstn_length. destruct Hinv as [Hi0 Hi1]. unfold len in Hi1. lia. }
    assert (Hinv1 : Inv (mkbuf (pre ++ d ++ post) (bcur b + len d))).
    { unfold Inv. cbn [btext bcur]. rewrite !len_app. pose proof (len_nonneg d). pose proof (len_nonneg post).
      destruct Hinv as [Hi0 _]. lia. }
    rewrite IH by exact Hinv1. cbn [btext bcur].
    assert (En : Z.to_nat (bcur b + len d) = length (pre ++ d)).
    { rewrite app_length. unfold len in Hpre |- *. lia. }
    replace (pre ++ d ++ post) with ((pre ++ d) ++ post) by (symmetry; apply app_assoc).
    rewrite En, firstn_len_app, skipn_len_app.
    cbn [concat]. rewrite len_app, <- !app_assoc. f_equal. lia.
Qed.

Lemma estep_edit_as_buf tbl s h o :
  as_buf (kbuf (estep tbl s (EEdit h o))) = res_buf (step (as_buf (kbuf s)) o).
Proof.
  unfold estep. cbn [to_kev kstep kbuf].
  set (b' := res_buf (step (as_buf (kbuf s)) o)).
  unfold as_buf. cbn [set_state utext ucur]. destruct b'; reflexivity.
Qed.

Lemma erun_edits_here tbl h os : forall s,
  let b := steps (as_buf (kbuf s)) os in
  here (kbuf (erun tbl s (map (EEdit h) os))) = (btext b, bcur b).
Proof.
  induction os as [|o os IH]; intros s; [reflexivity|].
  cbn zeta in *. cbn [map erun fold_left steps].
  change (fold_left (estep tbl) ?l ?x) with (erun tbl x l).
  rewrite IH, estep_edit_as_buf. reflexivity.
Qed.

Lemma ecompile_typed_keys tbl h os : forall s, Forall (is_key_of h) (ecompile tbl s (map (EEdit h) os)).
Proof.
  induction os as [|o os IH]; intros s; [constructor|].
  cbn [map ecompile]. constructor; [reflexivity|apply IH].
Qed.

(* A run of typed characters through the real <any> self-insert binding: the
   buffer holds the old text with ALL the typed strings inserted at the
   cursor; ONE undo gives back the old text and cursor; redo then gives the
   typed text and cursor again, exactly. *)
Theorem typed_run_real_text h s d ds :
  r_role (lookup c07_rows h) = 1 -> kprev s <> Some h -> wf (kbuf s) -> concat (d :: ds) <> [] ->
  let t := utext (kbuf s) in
  let c := ucur (kbuf s) in
  let s' := erun c07_rows s (map (EEdit h) (typed (d :: ds))) in
  here (kbuf s') = (firstn (Z.to_nat c) t ++ concat (d :: ds) ++ skipn (Z.to_nat c) t, c + len (concat (d :: ds))) /\
  here (undo (kbuf s')) = (t, c) /\
  here (redo (undo (kbuf s'))) = here (kbuf s').
Proof.
  intros Hr Hp Hwf Hne. cbn zeta.
  set (s' := erun c07_rows s (map (EEdit h) (typed (d :: ds)))).
  assert (H1 : here (kbuf s') = (firstn (Z.to_nat (ucur (kbuf s))) (utext (kbuf s)) ++ concat (d :: ds) ++
                                   skipn (Z.to_nat (ucur (kbuf s))) (utext (kbuf s)),
                                 ucur (kbuf s) + len (concat (d :: ds)))).
  { subst s'. rewrite erun_edits_here. cbn zeta. rewrite typed_text by (apply as_buf_inv; exact Hwf). reflexivity. }
  split; [exact H1|].
  assert (Hne' : utext (kbuf s') <> utext (kbuf s)).
  { unfold here in H1. injection H1 as H1 _. rewrite H1. intros E.
    apply (f_equal (@len Z)) in E. rewrite !len_app in E.
    pose proof (firstn_skipn_len (utext (kbuf s)) (Z.to_nat (ucur (kbuf s)))) as F.
    assert (0 < len (concat (d :: ds))).
    { destruct (concat (d :: ds)) as [|x r]; [congruence|]. rewrite len_cons. pose proof (len_nonneg r). lia. }
    cbn [concat] in H. rewrite len_app in H. lia. }
  assert (Hg : is_group_role (lookup c07_rows h) = true) by (unfold is_group_role; rewrite Hr; reflexivity).
  assert (Hk : s' = krun c07_rows s (ecompile c07_rows s (map (EEdit h) (typed (d :: ds)))))
    by (subst s'; apply erun_is_krun).
  remember (ecompile c07_rows s (map (EEdit h) (typed (d :: ds)))) as evs eqn:Ee.
  assert (Hall : Forall (is_key_of h) evs) by (rewrite Ee; apply ecompile_typed_keys).
  assert (Hok : Forall kev_ok evs) by (rewrite Ee; apply ecompile_ok; exact Hwf).
  destruct evs as [|e evs']; [cbn [typed map ecompile] in Ee; discriminate|].
  pose proof (live_typed_group h s e evs' Hg Hp Hall Hwf) as G. cbn zeta in G. rewrite <- Hk in G.
  destruct (G Hne') as [G1 _].
  split; [exact G1|].
  assert (Hwx : wf (kbuf s')) by (rewrite Hk; apply wf_krun; assumption).
  assert (Hne2 : utext (undo (kbuf s')) <> utext (kbuf s')).
  { unfold here in G1. injection G1 as G1 _. rewrite G1. intros E. apply Hne'. symmetry. exact E. }
  destruct (redo_inverts_undo (kbuf s') Hwx Hne2) as (R1 & R2 & _).
  unfold here. rewrite R1, R2. reflexivity.
Qed.
