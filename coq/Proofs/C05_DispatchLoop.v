(* C05: Escape behind ANY content of the key buffer, by induction over the
   retry loop of KeyProcessor._process (Model/C05_Dispatch.v process_loop).

   1. The processor waits only while a strictly longer row exists; the longest
      row of the regenerated table has three keys, so at most two keys are ever
      pending.
   2. Keys the table does not mention are interchangeable (every row treats
      them alike), so the finite checks over "every key of the table plus one
      fresh key" (C05_DispatchCheck) extend to every key.
   3. One evaluation on a buffer  ks ++ [Escape]  (any ks, any valuation with
      Vi mode / focus / no quoted insert) never waits and either consumes the
      whole buffer with _back_to_navigation (accept_search for [Escape] alone)
      or consumes / drops a proper prefix of it.
   4. Hence the loop, from any such buffer, with the application state changing
      arbitrarily between evaluations (inside Vi mode, focus, no quoted insert,
      application not finished), ends with an empty key buffer and its last
      call is that Escape handler on a key sequence ending in Escape. *)
From Coq Require Import ZArith List Bool Lia.
From PTK Require Import Lib.Sx Lib.Py Lib.C05_Filter Gen.C05_Bindings Model.C05_Dispatch
  Model.C05_Editor Proofs.C05_EditorFacts Proofs.C05_EscapeFacts Proofs.C05_DispatchFacts
  Proofs.C05_DispatchCheck Proofs.C05_Main.
Import ListNotations.
Open Scope Z_scope.

Lemma no_wildcard_first_key3_b : mem_Z K_Any first_keys3 = false.
Proof. vm_compute. reflexivity. Qed.

Definition max_len (tbl : list binding) : Z := fold_right (fun b m => Z.max (len (bkeys b)) m) 0 tbl.

Lemma max_row_len_3 : max_len bindings = 3.
Proof. vm_compute. reflexivity. Qed.

(* the big constants stay folded in everything below *)
Local Opaque bindings table_keys first_keys first_keys3 pending_pairs.

(* ---------------------------------------------------------------------- *)
(* 1. waiting needs a longer row *)

Lemma wait_longer_row tbl v ks flush :
  match_step tbl v ks flush = Wait -> exists b, In b tbl /\ len ks < len (bkeys b).
Proof.
  intros H. apply match_step_wait in H as (_ & Hp & _).
  unfold is_prefix_of_longer in Hp. apply existsb_exists in Hp as (b & Hb & _).
  apply starting_with_in in Hb as (Hin & Hlen & _). exists b. tauto.
Qed.

Lemma row_len_le_max tbl b : In b tbl -> len (bkeys b) <= max_len tbl.
Proof.
  induction tbl as [|x r IH]; [intros []|]. unfold max_len in *. cbn [fold_right].
  intros [->|H]; [lia|]. specialize (IH H). lia.
Qed.

Lemma row_len_le_3 b : In b bindings -> len (bkeys b) <= 3.
Proof. intros H. apply row_len_le_max in H. rewrite max_row_len_3 in H. exact H. Qed.

Lemma wait_at_most_two v ks flush : match_step bindings v ks flush = Wait -> len ks <= 2.
Proof.
  intros H. apply wait_longer_row in H as (b & Hb & Hl). apply row_len_le_3 in Hb. lia.
Qed.

Lemma call_bound v ks flush idx m :
  ks <> [] -> match_step bindings v ks flush = Call idx m ->
  1 <= m <= len ks /\ m <= 3 /\
  exists b, In b bindings /\ len (bkeys b) = m /\ keys_match (bkeys b) (firstn (Z.to_nat m) ks) = true.
Proof.
  intros Hne H. apply match_step_sound in H; [|exact Hne].
  destruct H as (b & _ & Hn & Hm & Hl & Hk & _). apply nth_error_In in Hn.
  split; [exact Hm|]. split; [rewrite <- Hl; now apply row_len_le_3|].
  exists b. tauto.
Qed.

(* ---------------------------------------------------------------------- *)
(* 2. keys outside the table are interchangeable *)

Definition keq (a b : Z) : Prop := a = b \/ (~ In a table_keys /\ ~ In b table_keys).

Local Transparent table_keys.
Lemma row_key_in_table b x : In b bindings -> In x (bkeys b) -> In x table_keys.
Proof.
  intros Hb Hx. unfold table_keys. apply nodup_In. apply in_flat_map. exists b. split; assumption.
Qed.
Local Opaque table_keys.

Definition keys_known (tbl : list binding) : Prop :=
  forall b x, In b tbl -> In x (bkeys b) -> In x table_keys.

Lemma keys_match_keq bk : (forall x, In x bk -> In x table_keys) ->
  forall ks ks', Forall2 keq ks ks' -> keys_match bk ks = keys_match bk ks'.
Proof.
  induction bk as [|i bk IH]; intros Hk ks ks' HF; [reflexivity|].
  destruct HF as [|j j' ks ks' Hj HF]; [reflexivity|]. cbn [keys_match].
  rewrite (IH (fun x Hx => Hk x (or_intror Hx)) ks ks' HF). f_equal. f_equal.
  destruct Hj as [->|[Hj Hj']]; [reflexivity|].
  assert (Hi : In i table_keys) by (apply Hk; now left).
  destruct (Z.eqb_spec i j) as [Eij|_]; [exfalso; apply Hj; rewrite <- Eij; exact Hi|].
  destruct (Z.eqb_spec i j') as [Eij|_]; [exfalso; apply Hj'; rewrite <- Eij; exact Hi|]. reflexivity.
Qed.

Lemma any_count_length bk : forall (ks ks' : list Z), length ks = length ks' -> any_count bk ks = any_count bk ks'.
Proof.
  induction bk as [|i bk IH]; intros ks ks' H; [reflexivity|].
  destruct ks as [|j ks], ks' as [|j' ks']; try discriminate; [reflexivity|].
  cbn [any_count]. rewrite (IH ks ks'); [reflexivity|]. cbn [length] in H. lia.
Qed.

Lemma Forall2_keq_length ks ks' : Forall2 keq ks ks' -> length ks = length ks'.
Proof. induction 1; cbn [length]; lia. Qed.

Lemma Forall2_keq_firstn ks ks' : Forall2 keq ks ks' -> forall i, Forall2 keq (firstn i ks) (firstn i ks').
Proof.
  induction 1 as [|a b l l' Hab H IH]; intros i; destruct i; cbn [firstn]; constructor; [exact Hab|apply IH].
Qed.

Lemma exact_from_keq tbl : keys_known tbl -> forall n ks ks', Forall2 keq ks ks' ->
  exact_from tbl n ks = exact_from tbl n ks'.
Proof.
  induction tbl as [|b r IH]; intros Hk n ks ks' HF; [reflexivity|]. cbn [exact_from].
  assert (Hr : keys_known r) by (intros b' x Hb' Hx; apply (Hk b' x); [now right|exact Hx]).
  rewrite (IH Hr (n + 1) ks ks' HF).
  rewrite (keys_match_keq (bkeys b) (fun x Hx => Hk b x (or_introl eq_refl) Hx) ks ks' HF).
  rewrite (any_count_length (bkeys b) ks ks' (Forall2_keq_length _ _ HF)).
  unfold len. rewrite (Forall2_keq_length _ _ HF). reflexivity.
Qed.

Lemma get_matches_keq tbl v ks ks' : keys_known tbl -> Forall2 keq ks ks' ->
  get_matches tbl v ks = get_matches tbl v ks'.
Proof.
  intros Hk HF. unfold get_matches, bindings_for_keys. now rewrite (exact_from_keq tbl Hk 0 ks ks' HF).
Qed.

Lemma starting_with_keq tbl ks ks' : keys_known tbl -> Forall2 keq ks ks' ->
  starting_with tbl ks = starting_with tbl ks'.
Proof.
  intros Hk HF. unfold starting_with. apply filter_ext_in'. intros b Hb.
  rewrite (keys_match_keq (bkeys b) (fun x Hx => Hk b x Hb Hx) ks ks' HF).
  unfold len. rewrite (Forall2_keq_length _ _ HF). reflexivity.
Qed.

Lemma longest_prefix_keq tbl v ks ks' : keys_known tbl -> Forall2 keq ks ks' ->
  forall i, longest_prefix tbl v ks i = longest_prefix tbl v ks' i.
Proof.
  intros Hk HF. induction i as [|i IH]; cbn [longest_prefix]; [reflexivity|].
  rewrite (get_matches_keq tbl v _ _ Hk (Forall2_keq_firstn _ _ HF (S i))), IH. reflexivity.
Qed.

Lemma match_step_keq_gen tbl v ks ks' flush : keys_known tbl -> Forall2 keq ks ks' ->
  match_step tbl v ks flush = match_step tbl v ks' flush.
Proof.
  intros Hk HF. unfold match_step, is_prefix_of_longer.
  rewrite (get_matches_keq tbl v ks ks' Hk HF), (starting_with_keq tbl ks ks' Hk HF).
  rewrite (longest_prefix_keq tbl v ks ks' Hk HF).
  unfold len. rewrite (Forall2_keq_length _ _ HF). reflexivity.
Qed.

Lemma bindings_keys_known : keys_known bindings.
Proof. intros b x Hb Hx. now apply (row_key_in_table b x). Qed.

Lemma match_step_keq v ks ks' flush : Forall2 keq ks ks' ->
  match_step bindings v ks flush = match_step bindings v ks' flush.
Proof. apply match_step_keq_gen, bindings_keys_known. Qed.

Lemma keq_refl a : keq a a.
Proof. now left. Qed.

Lemma mem_Z_false_not_In a l : mem_Z a l = false -> ~ In a l.
Proof.
  induction l as [|x r IH]; cbn [mem_Z]; [tauto|]. intros H [->|Hin].
  - rewrite Z.eqb_refl in H. discriminate.
  - apply orb_false_iff in H as [_ H]. now apply IH.
Qed.

Lemma fresh_not_in_table : ~ In fresh_key table_keys.
Proof. apply mem_Z_false_not_In, fresh_key_is_fresh. Qed.

(* ---------------------------------------------------------------------- *)
(* 3. one evaluation on a buffer ending in Escape *)

Definition vi_ok (v : Z -> bool) : Prop :=
  v a_vi_mode = true /\ v a_emacs_mode = false /\ v a_buffer_has_focus = true /\ v a_in_quoted_insert = false.

Definition is_btn (idx : Z) : bool :=
  match handler_at idx with Some h => h =? h_back_to_navigation | None => false end.
Definition is_esc_handler (idx : Z) : bool :=
  match handler_at idx with
  | Some h => (h =? h_back_to_navigation) || (h =? h_accept_search)
  | None => false
  end.

Lemma is_btn_esc idx : is_btn idx = true -> is_esc_handler idx = true.
Proof. unfold is_btn, is_esc_handler. destruct (handler_at idx); [|discriminate]. intros ->. reflexivity. Qed.

(* n = length of the buffer *)
Definition esc_progress (n : Z) (o : outcome) : Prop :=
  match o with
  | Wait => False
  | DropOne => 2 <= n
  | Call idx m =>
      (m = n /\ (if n =? 1 then is_esc_handler idx = true else is_btn idx = true)) \/ 1 <= m < n
  end.

Local Transparent first_keys3.
Lemma first_key3_of_row b a x y : In b bindings -> bkeys b = [a; x; y] -> In a first_keys3.
Proof.
  intros Hb E. unfold first_keys3. apply nodup_In. apply in_flat_map. exists b. split; [exact Hb|].
  rewrite E. left. reflexivity.
Qed.
Local Opaque first_keys3.

Lemma no_wildcard_first_key3 : ~ In K_Any first_keys3.
Proof. apply mem_Z_false_not_In. exact no_wildcard_first_key3_b. Qed.

Local Transparent pending_pairs.
Lemma pending_pair_in k1 k : In k1 first_keys3 -> In k (fresh_key :: table_keys) -> In (k1, k) pending_pairs.
Proof.
  intros Hk Hin. unfold pending_pairs. apply in_flat_map. exists k1. split; [exact Hk|].
  apply in_map_iff. exists k. split; [reflexivity|exact Hin].
Qed.
Local Opaque pending_pairs.

Lemma escape_step_any ks v flush : vi_ok v ->
  esc_progress (len (ks ++ [K_Escape])) (match_step bindings v (ks ++ [K_Escape]) flush).
Proof.
  intros (H1 & H2 & H3 & H4).
  destruct ks as [|k1 [|k2 [|k3 r]]]; cbn [app].
  - (* [Escape] *)
    pose proof (escape_dispatch v flush H1 H2 H3 H4) as E.
    destruct (match_step bindings v [K_Escape] flush) as [idx n| |]; cbn [escape_ok] in E; try discriminate.
    apply andb_true_iff in E as [E Eh]. apply andb_true_iff in E as [En _]. apply Z.eqb_eq in En. subst n.
    cbn [esc_progress]. left. split; [reflexivity|]. change (len [K_Escape] =? 1) with true. cbv iota.
    unfold is_esc_handler. exact Eh.
  - (* [k1; Escape] *)
    change (len [k1; K_Escape]) with 2.
    destruct (In_dec Z.eq_dec k1 first_keys) as [Hk|Hk].
    + pose proof (escape_after_any_pending v flush k1 Hk H1 H2 H3 H4) as E.
      destruct (match_step bindings v [k1; K_Escape] flush) as [idx m| |]; cbn [escape_progress esc_progress] in *;
        [|discriminate|lia].
      destruct (m =? 2) eqn:Em.
      * apply Z.eqb_eq in Em. left. split; [exact Em|]. change (2 =? 1) with false. cbv iota. exact E.
      * apply Z.eqb_eq in E. right. lia.
    + destruct (escape_after_non_pending_key v flush k1 Hk) as [E|[idx E]]; rewrite E; cbn [esc_progress]; [lia|right; lia].
  - (* [k1; k2; Escape] *)
    change (len [k1; k2; K_Escape]) with 3.
    destruct (In_dec Z.eq_dec k1 first_keys3) as [Hk|Hk].
    + assert (Hpair : forall k, In k (fresh_key :: table_keys) -> In (k1, k) pending_pairs).
      { intros k Hin. exact (pending_pair_in k1 k Hk Hin). }
      assert (E : exists k, In k (fresh_key :: table_keys) /\
                match_step bindings v [k1; k2; K_Escape] flush = match_step bindings v [k1; k; K_Escape] flush).
      { destruct (In_dec Z.eq_dec k2 table_keys) as [Ht|Ht].
        - exists k2. split; [now right|reflexivity].
        - exists fresh_key. split; [now left|]. apply match_step_keq.
          constructor; [apply keq_refl|]. constructor; [right; split; [exact Ht|exact fresh_not_in_table]|].
          constructor; [apply keq_refl|constructor]. }
      destruct E as (k & Hin & ->).
      pose proof (escape_after_two_pending v flush k1 k (Hpair k Hin) H1 H2 H3 H4) as E.
      destruct (match_step bindings v [k1; k; K_Escape] flush) as [idx m| |]; cbn [escape_progress3 esc_progress] in *;
        [|discriminate|lia].
      destruct (m =? 3) eqn:Em.
      * apply Z.eqb_eq in Em. left. split; [exact Em|]. change (3 =? 1) with false. cbv iota. exact E.
      * apply orb_true_iff in E as [E|E]; apply Z.eqb_eq in E; right; lia.
    + destruct (match_step bindings v [k1; k2; K_Escape] flush) as [idx m| |] eqn:E; cbn [esc_progress].
      * destruct (call_bound v [k1; k2; K_Escape] flush idx m ltac:(discriminate) E) as (Hm & Hm3 & b & Hb & Hl & Hkm).
        right. split; [lia|]. destruct (Z.eq_dec m 3) as [->|]; [exfalso|lia].
        change (Z.to_nat 3) with 3%nat in Hkm. cbn [firstn] in Hkm.
        destruct (bkeys b) as [|a [|x [|y [|z t]]]] eqn:Eb;
          try (unfold len in Hl; cbn [length] in Hl; lia).
        cbn [keys_match] in Hkm. apply andb_true_iff in Hkm as [Hkm _].
        pose proof (first_key3_of_row b a x y Hb Eb) as Ha.
        apply orb_true_iff in Hkm as [Hkm|Hkm]; apply Z.eqb_eq in Hkm; subst a;
          [contradiction|exact (no_wildcard_first_key3 Ha)].
      * apply wait_at_most_two in E. change (len [k1; k2; K_Escape]) with 3 in E. lia.
      * lia.
  - (* four keys or more: no row is that long *)
    set (buf := k1 :: k2 :: k3 :: r ++ [K_Escape]).
    assert (Hlen : 4 <= len buf).
    { unfold buf, len. cbn [length]. rewrite app_length. cbn [length]. lia. }
    destruct (match_step bindings v buf flush) as [idx m| |] eqn:E; cbn [esc_progress].
    + destruct (call_bound v buf flush idx m ltac:(discriminate) E) as (Hm & Hm3 & _). right. lia.
    + apply wait_at_most_two in E. lia.
    + lia.
Qed.

(* ---------------------------------------------------------------------- *)
(* 4. the loop *)

Lemma process_loop_cons f tbl vs dn n retry k r flush :
  process_loop (S f) tbl vs dn n retry (k :: r) flush =
  if retry && dn n then ([], LAhead (k :: r))
  else match match_step tbl (vs n) (k :: r) flush with
       | Wait => ([], LWait (k :: r))
       | Call idx m =>
           let '(calls, st) := process_loop f tbl vs dn (S n) true (skipn (Z.to_nat m) (k :: r)) false in
           ((idx, firstn (Z.to_nat m) (k :: r)) :: calls, st)
       | DropOne => process_loop f tbl vs dn (S n) true (tl (k :: r)) false
       end.
Proof. reflexivity. Qed.

Definition esc_call (idx : Z) (seq : list Z) : Prop :=
  (exists pre, seq = pre ++ [K_Escape]) /\
  (if len seq =? 1 then is_esc_handler idx = true else is_btn idx = true).

Lemma escape_loop vs dn : (forall i, vi_ok (vs i)) -> (forall i, dn i = false) ->
  forall fuel ks n retry flush, (length ks + 1 < fuel)%nat ->
  exists calls idx seq,
    process_loop fuel bindings vs dn n retry (ks ++ [K_Escape]) flush = (calls ++ [(idx, seq)], LEmpty) /\
    esc_call idx seq.
Proof.
  intros Hv Hd. induction fuel as [|f IH]; intros ks n retry flush Hf; [lia|].
  assert (Hbuf : exists k r, ks ++ [K_Escape] = k :: r).
  { destruct ks as [|k r]; cbn [app]; eauto. }
  destruct Hbuf as (k & r & Hbuf).
  pose proof (escape_step_any ks (vs n) flush (Hv n)) as P.
  rewrite Hbuf, process_loop_cons, Hd, andb_false_r, <- Hbuf.
  destruct (match_step bindings (vs n) (ks ++ [K_Escape]) flush) as [idx m| |]; cbn [esc_progress] in P.
  - destruct P as [[-> Hh]|Hm].
    + (* the whole buffer is consumed *)
      assert (Em : Z.to_nat (len (ks ++ [K_Escape])) = length (ks ++ [K_Escape])) by (unfold len; apply Nat2Z.id).
      rewrite Em, skipn_all, firstn_all.
      destruct f as [|f]; [lia|]. cbn [process_loop].
      exists [], idx, (ks ++ [K_Escape]). split; [reflexivity|]. split; [now exists ks|exact Hh].
    + (* a proper prefix is consumed *)
      assert (Hle : (Z.to_nat m <= length ks)%nat).
      { unfold len in Hm. rewrite app_length in Hm. cbn [length] in Hm. lia. }
      rewrite skipn_app. replace (Z.to_nat m - length ks)%nat with 0%nat by lia. cbn [skipn].
      destruct (IH (skipn (Z.to_nat m) ks) (S n) true false) as (calls & idx' & seq & E & Hc).
      { rewrite skipn_length. lia. }
      rewrite E. exists ((idx, firstn (Z.to_nat m) (ks ++ [K_Escape])) :: calls), idx', seq.
      split; [reflexivity|exact Hc].
  - contradiction.
  - (* the first key is dropped *)
    destruct ks as [|k0 ks']; [change (len ([] ++ [K_Escape])) with 1 in P; lia|].
    cbn [app tl].
    destruct (IH ks' (S n) true false) as (calls & idx' & seq & E & Hc); [cbn [length] in Hf; lia|].
    rewrite E. exists calls, idx', seq. split; [reflexivity|exact Hc].
Qed.

(* ... and the model of that last handler leaves Vi in navigation mode with
   nothing pending, from any editor state *)
Lemma esc_call_nav idx seq : esc_call idx seq ->
  exists th h, handler_at idx = Some th /\ model_of_table_handler th = Some h /\
    forall s arg data, exists s', call_handler h s arg data = EOk s' /\ nav_clean s'.
Proof.
  intros [_ Hh].
  assert (He : is_esc_handler idx = true) by (destruct (len seq =? 1); [exact Hh|now apply is_btn_esc]).
  unfold is_esc_handler in He. destruct (handler_at idx) as [th|]; [|discriminate].
  assert (Hm : exists h, model_of_table_handler th = Some h /\ (h = HBackToNavigation \/ h = HAcceptSearchVi)).
  { unfold model_of_table_handler. apply orb_true_iff in He as [He|He]; rewrite ?He.
    - eexists; split; [reflexivity|now left].
    - destruct (th =? h_back_to_navigation); eexists; (split; [reflexivity|tauto]). }
  destruct Hm as (h & Hm & Hh'). exists th, h. split; [reflexivity|]. split; [exact Hm|].
  intros s arg data. exact (escape_handlers_nav h s arg data Hh').
Qed.

Lemma escape_any_pending vs dn ks n retry flush :
  (forall i, vi_ok (vs i)) -> (forall i, dn i = false) ->
  exists calls idx seq th h,
    process_loop (length ks + 2) bindings vs dn n retry (ks ++ [K_Escape]) flush = (calls ++ [(idx, seq)], LEmpty) /\
    (exists pre, seq = pre ++ [K_Escape]) /\
    handler_at idx = Some th /\ model_of_table_handler th = Some h /\
    forall s arg data, exists s', call_handler h s arg data = EOk s' /\ nav_clean s'.
Proof.
  intros Hv Hd.
  destruct (escape_loop vs dn Hv Hd (length ks + 2) ks n retry flush ltac:(lia)) as (calls & idx & seq & E & Hc).
  destruct (esc_call_nav idx seq Hc) as (th & h & A & B & C).
  exists calls, idx, seq, th, h. split; [exact E|]. split; [exact (proj1 Hc)|]. tauto.
Qed.
