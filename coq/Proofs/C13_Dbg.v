(* Facts about the FileHistory byte-level model: framing round trip, torn
   writes, appends after a torn tail, several instances on one file. *)
From Coq Require Import ZArith List Bool Lia.
From PTK Require Import Lib.Sx Lib.Py Model.C13_Utf8 Model.C13_HistFile Proofs.C13_Utf8Facts.
Import ListNotations.
Open Scope Z_scope.

Definition nolf (x : bytes) : Prop := ~ In NL x.

(* an entry the encoder accepts / a timestamp without line feed *)
Definition valid_rec (r : bytes * str) : Prop :=
  nolf (fst r) /\ forallb is_scalar (snd r) = true.

Definition file_of (rs : list (bytes * str)) : bytes :=
  flat_map (fun r => store_bytes (fst r) (snd r)) rs.

Definition elines (s : str) : list str := map (fun l => l ++ [NL]) (split_on NL s).

(* ---- lines_of ---------------------------------------------------------- *)
Lemma nolf_cons a x : nolf (a :: x) -> a <> NL /\ nolf x.
Proof. unfold nolf. intros H. split; intro; apply H; [left; congruence|now right]. Qed.

Lemma lines_of_nolf x : nolf x -> lines_of x = match x with [] => [] | _ => [x] end.
Proof.
  induction x as [|a x IH]; intros H; [reflexivity|].
  apply nolf_cons in H as [Ha Hx]. cbn [lines_of].
  destruct (a =? NL) eqn:E; [apply Z.eqb_eq in E; contradiction|].
  rewrite IH by assumption. destruct x; reflexivity.
Qed.

Lemma lines_of_app_lf x Y : nolf x -> lines_of (x ++ NL :: Y) = (x ++ [NL]) :: lines_of Y.
Proof.
  induction x as [|a x IH]; intros H.
  - cbn [app lines_of]. now rewrite Z.eqb_refl.
  - apply nolf_cons in H as [Ha Hx]. cbn [app lines_of].
    destruct (a =? NL) eqn:E; [apply Z.eqb_eq in E; contradiction|].
    now rewrite IH.
Qed.

Lemma lines_of_nonempty Z0 : Z0 <> [] -> lines_of Z0 <> [].
Proof.
  destruct Z0 as [|a r]; [congruence|]. intros _. cbn [lines_of].
  destruct (a =? NL); [discriminate|]. destruct (lines_of r); discriminate.
Qed.

Lemma lines_of_snoc_app X Y :
  lines_of ((X ++ [NL]) ++ Y) = lines_of (X ++ [NL]) ++ lines_of Y.
Proof.
  induction X as [|a X IH].
  - cbn [app lines_of]. now rewrite Z.eqb_refl.
  - cbn [app lines_of]. destruct (a =? NL).
    + cbn [app]. now rewrite <- IH.
    + cbn [app] in IH. rewrite IH.
      destruct (lines_of (X ++ [NL])) as [|l ls] eqn:E.
      * exfalso. revert E. apply lines_of_nonempty. now destruct X.
      * reflexivity.
Qed.

(* ---- one loop step ------------------------------------------------------ *)
Lemma startswith_cons1 x t c : startswith (x :: t) [c] = (x =? c).
Proof. cbn [startswith]. destruct t; now rewrite andb_true_r. Qed.

Lemma slice_from_1 (x : Z) (t : str) : slice_from (x :: t) 1 = t.
Proof.
  rewrite slice_from_in_range; [reflexivity|lia|]. rewrite len_cons. pose proof (len_nonneg t). lia.
Qed.

Lemma slice_to_m1 (x : str) : slice_to (x ++ [NL]) (-1) = x.
Proof.
  unfold slice_to, slice, adj_index. rewrite len_app.
  change (len [NL]) with 1. change (-1 <? 0) with true. cbv iota.
  pose proof (len_nonneg x) as Hx.
  rewrite Z.max_r by lia.
  destruct (0 <? -1 + (len x + 1)) eqn:E.
  - cbn [skipn Z.to_nat]. replace (-1 + (len x + 1) - 0) with (len x) by lia.
    unfold len. rewrite Nat2Z.id. rewrite firstn_app, Nat.sub_diag, firstn_all. cbn [firstn].
    apply app_nil_r.
  - assert (len x = 0) by lia. destruct x; [reflexivity|]. rewrite len_cons in *.
    pose proof (len_nonneg x). lia.
Qed.

Lemma add_nil st : add st [] = st.
Proof. reflexivity. Qed.

Lemma add_shape st ln : exists d, add st ln = st ++ d /\ (length d <= 1)%nat.
Proof.
  destruct ln as [|l r].
  - exists []. split; [now rewrite app_nil_r|auto].
  - eexists [_]. split; [reflexivity|auto].
Qed.

Lemma loop_nonplus lb r st ln :
  startswith (utf8_dec lb) [PLUS] = false ->
  load_loop (lb :: r) st ln = load_loop r (add st ln) [].
Proof. intros H. cbn [load_loop]. cbv zeta. now rewrite H. Qed.

Lemma loop_plus t r st ln :
  load_loop ((PLUS :: t) :: r) st ln = load_loop r st (ln ++ [utf8_dec t]).
Proof.
  cbn [load_loop]. cbv zeta. rewrite (dec_head_ascii PLUS t) by (unfold PLUS; lia).
  rewrite startswith_cons1, Z.eqb_refl, slice_from_1. reflexivity.
Qed.

Lemma dec_lf : utf8_dec [NL] = [NL].
Proof. rewrite dec_head_ascii by (unfold NL; lia). reflexivity. Qed.

Lemma nonplus_lf : startswith (utf8_dec [NL]) [PLUS] = false.
Proof. rewrite dec_lf. reflexivity. Qed.

Lemma nonplus_head b t : b <> PLUS -> startswith (utf8_dec (b :: t)) [PLUS] = false.
Proof.
  intros Hb. pose proof (dec_head_not_plus b t Hb) as H.
  destruct (utf8_dec (b :: t)) as [|x u]; [contradiction|].
  rewrite startswith_cons1. apply Z.eqb_neq. exact H.
Qed.

Lemma loop_app l1 st ln :
  exists st' ln', forall l2, load_loop (l1 ++ l2) st ln = load_loop l2 st' ln'.
Proof.
  revert st ln. induction l1 as [|lb l1 IH]; intros st ln.
  - exists st, ln. reflexivity.
  - cbn [app load_loop]. cbv zeta.
    destruct (startswith (utf8_dec lb) [PLUS]); apply IH.
Qed.

(* ---- split / join -------------------------------------------------------- *)
Lemma split_aux_concat c s cur :
  concat (map (fun l => l ++ [c]) (split_on_aux c s cur)) = rev cur ++ s ++ [c].
Proof.
  revert cur. induction s as [|x s IH]; intros cur.
  - cbn [split_on_aux map concat app]. now rewrite app_nil_r.
  - cbn [split_on_aux]. destruct (x =? c) eqn:E.
    + apply Z.eqb_eq in E. subst x. cbn [map concat]. rewrite IH. cbn [rev app].
      now rewrite <- app_assoc.
    + rewrite IH. cbn [rev]. rewrite <- app_assoc. reflexivity.
Qed.

Lemma split_aux_forall (P : Z -> Prop) c s cur :
  Forall P cur -> Forall P s ->
  Forall (fun l => Forall P l /\ ~ In c l) (split_on_aux c s cur) \/ In c cur.
Proof.
  revert cur. induction s as [|x s IH]; intros cur Hc Hs.
  - destruct (in_dec Z.eq_dec c cur) as [Hin|Hn]; [now right|left].
    cbn [split_on_aux]. constructor; [|constructor]. split.
    + apply Forall_rev. exact Hc.
    + intro H. apply Hn. now apply in_rev.
  - destruct (in_dec Z.eq_dec c cur) as [Hin|Hn]; [now right|left].
    inversion Hs as [|? ? Hx Hs']; subst. cbn [split_on_aux]. destruct (x =? c) eqn:E.
    + constructor.
      * split; [now apply Forall_rev|]. intro H. apply Hn. now apply in_rev.
      * destruct (IH [] (Forall_nil _) Hs') as [H|[]]. exact H.
    + destruct (IH (x :: cur)) as [H|H]; try assumption.
      * now constructor.
      * destruct H as [H|H]; [|contradiction]. apply Z.eqb_neq in E. congruence.
Qed.

Lemma split_lines_ok s :
  forallb is_scalar s = true ->
  Forall (fun l => forallb is_scalar l = true /\ nolf l) (split_on NL s).
Proof.
  intros H. unfold split_on.
  destruct (split_aux_forall (fun c => is_scalar c = true) NL s []) as [H1|[]].
  - constructor.
  - apply Forall_forall. now apply forallb_forall.
  - eapply Forall_impl; [|exact H1]. intros l [Hl Hn]. split; [|exact Hn].
    apply forallb_forall. now apply Forall_forall.
Qed.

Lemma split_nonempty c s : split_on c s <> [].
Proof.
  unfold split_on. generalize (@nil Z). induction s as [|x s IH]; intros cur; cbn [split_on_aux].
  - discriminate.
  - destruct (x =? c); [discriminate|apply IH].
Qed.

Lemma add_elines st s : add st (elines s) = st ++ [s].
Proof.
  unfold add, elines. destruct (map (fun l : list Z => l ++ [NL]) (split_on NL s)) as [|l r] eqn:E.
  - apply map_eq_nil in E. now apply split_nonempty in E.
  - rewrite <- E. unfold split_on. rewrite split_aux_concat. cbn [rev app].
    now rewrite slice_to_m1.
Qed.

(* ---- store --------------------------------------------------------------- *)
Definition hashline (ts : bytes) : bytes := HASH :: SP :: ts.

Lemma store_bytes_eq ts s : store_bytes ts s = NL :: (hashline ts ++ NL :: store_body s).
Proof.
  unfold store_bytes, store_head, hashline. cbn [app]. now rewrite <- app_assoc.
Qed.

Lemma hashline_nolf ts : nolf ts -> nolf (hashline ts).
Proof.
  unfold nolf, hashline. intros H [E|[E|E]]; [discriminate E|discriminate E|contradiction].
Qed.

Lemma plus_enc_nolf l :
  forallb is_scalar l = true -> nolf l -> nolf (PLUS :: utf8_enc_raw l).
Proof.
  intros Hs Hn [E|E]; [discriminate E|]. revert E. now apply enc_no_lf.
Qed.

Lemma store_lines_exec_ok ls :
  Forall (fun l => forallb is_scalar l = true /\ nolf l) ls ->
  store_lines_exec ls = (flat_map plus_line ls, true).
Proof.
  induction ls as [|l r IH]; intros H; [reflexivity|].
  inversion H as [|? ? [Hl _] Hr]; subst. cbn [store_lines_exec flat_map].
  rewrite Hl, IH by assumption. reflexivity.
Qed.

Lemma store_exec_ok ts s :
  forallb is_scalar s = true -> store_exec ts s = (store_bytes ts s, true).
Proof.
  intros H. unfold store_exec. rewrite store_lines_exec_ok by now apply split_lines_ok.
  reflexivity.
Qed.

(* ---- the loop over one complete record ----------------------------------- *)
Lemma loop_body ls rest st ln :
  Forall (fun l => forallb is_scalar l = true /\ nolf l) ls ->
  load_loop (lines_of (flat_map plus_line ls ++ rest)) st ln =
  load_loop (lines_of rest) st (ln ++ map (fun l => l ++ [NL]) ls).
Proof.
  revert ln. induction ls as [|l ls IH]; intros ln H.
  - cbn [flat_map map app]. now rewrite app_nil_r.
  - inversion H as [|? ? [Hl Hn] Hr]; subst. cbn [flat_map map]. unfold plus_line at 1.
    replace ((PLUS :: utf8_enc_raw l ++ [NL]) ++ flat_map plus_line ls ++ rest)
      with ((PLUS :: utf8_enc_raw l) ++ NL :: (flat_map plus_line ls ++ rest))
      by (cbn [app]; now rewrite <- app_assoc).
    Show.
Abort.