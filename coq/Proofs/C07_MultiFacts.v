(* C07 - facts about the multi-buffer model (Model/C07_Multi.v), any table. *)
From Coq Require Import ZArith List Bool Lia.
From PTK Require Import Lib.Sx Lib.Py Lib.C07_Lemmas Model.C07_Undo Model.C07_Keys Model.C07_Multi
  Proofs.C07_UndoFacts Proofs.C07_KeysFacts Proofs.C07_KeyHistFacts.
Import ListNotations.
Open Scope Z_scope.

Lemma upd_same bs i b : upd bs i b i = b.
Proof. unfold upd. rewrite Z.eqb_refl. reflexivity. Qed.

Lemma upd_other bs i j b : j <> i -> upd bs i b j = bs j.
Proof. intros H. unfold upd. destruct (j =? i) eqn:E; [apply Z.eqb_eq in E; contradiction|reflexivity]. Qed.

(* ------------------------------------------------------------------ *)
(* Every buffer of a multi-buffer session sees a buffer-level op list *)

Lemma dispatch_ops_run tbl prev b h n :
  urun b (dispatch_ops tbl prev b h n) = kbody tbl (mkkst b prev) h n.
Proof.
  unfold dispatch_ops, kbody. cbn [kbuf kprev].
  change (urun b (?o :: ?l)) with (urun (ustep b o) l). cbn [ustep].
  set (s1 := if save_before tbl prev h then save_to_undo_stack b true else b).
  assert (E : set_state s1 (utext b) (ucur b) = s1).
  { subst s1. destruct (save_before tbl prev h); [reflexivity|apply set_same]. }
  rewrite E.
  destruct (r_act (lookup tbl h) =? 1); [apply urun_repeat|].
  destruct (r_act (lookup tbl h) =? 2); [apply urun_repeat|reflexivity].
Qed.

Lemma fx_apply_at bs e i : fx_apply bs e i = urun (bs i) (fx_proj i e).
Proof.
  destruct e as [j t c|j t c]; cbn [fx_apply fx_proj]; unfold upd; rewrite (Z.eqb_sym i j);
    destruct (j =? i) eqn:E; try reflexivity; apply Z.eqb_eq in E; subst j; reflexivity.
Qed.

Lemma fx_fold_proj effs : forall bs i,
  fold_left fx_apply effs bs i = urun (bs i) (flat_map (fx_proj i) effs).
Proof.
  induction effs as [|e r IH]; intros bs i; [reflexivity|].
  cbn [fold_left flat_map]. rewrite IH, urun_app, fx_apply_at. reflexivity.
Qed.

Lemma foc_kst_at s i : mfoc s = i -> foc_kst s = mkkst (mbufs s i) (mprev s).
Proof. intros <-. reflexivity. Qed.

Lemma mstep_proj tbl s e i : mbufs (mstep tbl s e) i = urun (mbufs s i) (mproj tbl i s e).
Proof.
  destruct e as [h n effs foc'|h n nav|j|j|j t c| |j t c f']; cbn [mstep mbufs mproj]; try reflexivity.
  - rewrite fx_fold_proj, urun_app. f_equal. unfold upd. rewrite (Z.eqb_sym i (mfoc s)).
    destruct (mfoc s =? i) eqn:E; [|reflexivity].
    apply Z.eqb_eq in E. rewrite dispatch_ops_run, (foc_kst_at s i E). reflexivity.
  - unfold upd. rewrite (Z.eqb_sym i (mfoc s)).
    destruct (mfoc s =? i) eqn:E; [|reflexivity].
    apply Z.eqb_eq in E. rewrite urun_app, dispatch_ops_run, (foc_kst_at s i E). reflexivity.
  - unfold upd. rewrite (Z.eqb_sym i j). destruct (j =? i) eqn:E; [|reflexivity].
    apply Z.eqb_eq in E. subst j. reflexivity.
  - unfold upd. rewrite (Z.eqb_sym i j). destruct (j =? i) eqn:E; [|reflexivity].
    apply Z.eqb_eq in E. subst j. reflexivity.
  - unfold upd. rewrite (Z.eqb_sym i j). destruct (j =? i) eqn:E; [|reflexivity].
    apply Z.eqb_eq in E. subst j. reflexivity.
Qed.

Theorem mrun_proj tbl evs : forall s i,
  mbufs (mrun tbl s evs) i = urun (mbufs s i) (mproj_all tbl i s evs).
Proof.
  induction evs as [|e evs IH]; intros s i; [reflexivity|].
  cbn [mrun fold_left mproj_all]. change (fold_left (mstep tbl) evs ?x) with (mrun tbl x evs).
  rewrite IH, urun_app, mstep_proj. reflexivity.
Qed.

(* ------------------------------------------------------------------ *)
(* well-formedness *)

Definition mwf (s : mst) : Prop := forall i, wf (mbufs s i).

Lemma dispatch_ops_ok tbl prev b h n : wf b -> Forall op_ok (dispatch_ops tbl prev b h n).
Proof.
  intros (Hh & _). unfold dispatch_ops. constructor; [exact Hh|].
  destruct (r_act (lookup tbl h) =? 1); [apply Forall_repeat; exact I|].
  destruct (r_act (lookup tbl h) =? 2); [apply Forall_repeat; exact I|constructor].
Qed.

Lemma fx_proj_ok i effs : Forall fx_ok effs -> Forall op_ok (flat_map (fx_proj i) effs).
Proof.
  induction effs as [|e r IH]; intros H; [constructor|].
  inversion H as [|? ? He Hr]; subst. cbn [flat_map]. apply Forall_app. split; [|apply IH; exact Hr].
  destruct e as [j t c|j t c]; cbn [fx_proj fx_ok] in *; destruct (j =? i);
    [constructor; [exact He|constructor]|constructor|constructor; [exact He|constructor]|constructor].
Qed.

Lemma mproj_ok tbl s e i : mwf s -> mev_ok e -> Forall op_ok (mproj tbl i s e).
Proof.
  intros Hwf Hok. destruct e as [h n effs foc'|h n nav|j|j|j t c| |j t c f']; cbn [mproj mev_ok] in *.
  - destruct Hok as [_ Hfx]. apply Forall_app. split; [|apply fx_proj_ok; exact Hfx].
    destruct (mfoc s =? i); [apply dispatch_ops_ok; apply Hwf|constructor].
  - destruct (mfoc s =? i) eqn:E; [|constructor].
    apply Forall_app. split; [apply dispatch_ops_ok; apply Hwf|].
    constructor; [|constructor]. cbn [op_ok]. apply fix_vi_cursor_range.
    pose proof (wf_kbody tbl (foc_kst s) h n (Hwf (mfoc s))) as (Hh & _). exact Hh.
  - constructor.
  - destruct (j =? i); [constructor; [exact I|constructor]|constructor].
  - destruct (j =? i); [constructor; [exact Hok|constructor]|constructor].
  - constructor.
  - destruct (j =? i); [constructor; [exact Hok|constructor]|constructor].
Qed.

Lemma mwf_step tbl s e : mwf s -> mev_ok e -> mwf (mstep tbl s e).
Proof.
  intros Hwf Hok i. rewrite mstep_proj. apply wf_run; [apply Hwf|apply mproj_ok; assumption].
Qed.

Lemma mwf_run tbl evs : forall s, mwf s -> Forall mev_ok evs -> mwf (mrun tbl s evs).
Proof.
  induction evs as [|e evs IH]; intros s Hwf Hok; [exact Hwf|].
  inversion Hok; subst. cbn [mrun fold_left]. apply IH; [apply mwf_step|]; assumption.
Qed.

Lemma mproj_all_ok tbl i evs : forall s, mwf s -> Forall mev_ok evs -> Forall op_ok (mproj_all tbl i s evs).
Proof.
  induction evs as [|e evs IH]; intros s Hwf Hok; [constructor|].
  inversion Hok; subst. cbn [mproj_all]. apply Forall_app. split.
  - apply mproj_ok; assumption.
  - apply IH; [apply mwf_step|]; assumption.
Qed.

Definition doc_ok (d : str * Z) : Prop := 0 <= snd d <= len (fst d).

Lemma mk_bufs_fresh l i : Forall doc_ok l ->
  exists t c, mk_bufs l i = fresh t c /\ 0 <= c <= len t.
Proof.
  intros H. unfold mk_bufs. destruct (i <? 0); [exists [], 0; split; [reflexivity|cbn; lia]|].
  destruct (nth_error l (Z.to_nat i)) as [[t c]|] eqn:E.
  - exists t, c. split; [reflexivity|]. apply nth_error_In in E.
    rewrite Forall_forall in H. apply (H (t, c) E).
  - exists [], 0. split; [reflexivity|cbn; lia].
Qed.

Lemma mwf_fresh l foc : Forall doc_ok l -> mwf (mfresh l foc).
Proof.
  intros H i. cbn [mfresh mbufs]. destruct (mk_bufs_fresh l i H) as (t & c & E & Hc).
  rewrite E. apply wf_fresh. exact Hc.
Qed.

(* ------------------------------------------------------------------ *)
(* what the effects of a dispatch do to the stacks *)

Lemma fx_apply_stacks_noreset bs e i :
  resets i e = false ->
  ustack (fx_apply bs e i) = ustack (bs i) /\ rstack (fx_apply bs e i) = rstack (bs i).
Proof.
  intros H. destruct e as [j t c|j t c]; cbn [fx_apply resets] in *; unfold upd; rewrite (Z.eqb_sym i j).
  - destruct (j =? i) eqn:E; [|split; reflexivity]. apply Z.eqb_eq in E. subst j. split; reflexivity.
  - rewrite H. split; reflexivity.
Qed.

Lemma fx_fold_noreset effs : forall bs i,
  existsb (resets i) effs = false ->
  ustack (fold_left fx_apply effs bs i) = ustack (bs i) /\
  rstack (fold_left fx_apply effs bs i) = rstack (bs i).
Proof.
  induction effs as [|e r IH]; intros bs i H; [split; reflexivity|].
  cbn [existsb] in H. apply orb_false_iff in H. destruct H as [He Hr].
  cbn [fold_left]. destruct (IH (fx_apply bs e) i Hr) as [A B].
  destruct (fx_apply_stacks_noreset bs e i He) as [C D]. split; congruence.
Qed.

Lemma fx_fold_reset effs : forall bs i,
  existsb (resets i) effs = true ->
  ustack (fold_left fx_apply effs bs i) = [] /\ rstack (fold_left fx_apply effs bs i) = [].
Proof.
  induction effs as [|e r IH]; intros bs i H; [discriminate|].
  cbn [fold_left]. destruct (existsb (resets i) r) eqn:Er; [apply IH; exact Er|].
  cbn [existsb] in H. rewrite Er, orb_false_r in H.
  destruct (fx_fold_noreset r (fx_apply bs e) i Er) as [A B]. rewrite A, B.
  destruct e as [j t c|j t c]; cbn [resets] in H; [discriminate|].
  apply Z.eqb_eq in H. subst j. cbn [fx_apply]. rewrite upd_same. split; reflexivity.
Qed.

(* ------------------------------------------------------------------ *)
(* per-buffer history with one entry per command *)

Definition mhist_inv (g : mst * (Z -> list snap)) : Prop :=
  forall i, subseq (ustack (mbufs (fst g) i)) (snd g i) /\ incl (rstack (mbufs (fst g) i)) (snd g i).

Lemma skip_inv (b : ust) (x : snap) P :
  subseq (ustack b) P /\ incl (rstack b) P ->
  subseq (ustack b) (x :: P) /\ incl (rstack b) (x :: P).
Proof. intros [A B]. split; [apply subseq_skip; exact A|intros e He; right; apply B; exact He]. Qed.

Lemma redo_hist_inv b P :
  subseq (ustack b) P /\ incl (rstack b) P ->
  subseq (ustack (redo b)) (here b :: P) /\ incl (rstack (redo b)) (here b :: P).
Proof.
  intros [Hu Hr]. destruct (redo_spec b) as [[_ Heq]|(t & pos & r & Hrs & Heq)]; rewrite Heq.
  - split; [apply subseq_skip; exact Hu|intros e He; right; apply Hr; exact He].
  - rewrite set_document_ustack, set_document_rstack. cbn [ustack rstack]. split.
    + apply save_subseq. exact Hu.
    + intros e He. right. apply Hr. rewrite Hrs. right. exact He.
Qed.

Lemma mhist_inv_step tbl g e :
  tbl_no_redo_handler tbl -> mwf (fst g) -> mhist_inv g -> mhist_inv (mgstep tbl g e).
Proof.
  intros Hno Hwf Hinv. destruct g as [s P]. cbn [fst snd] in *.
  unfold mhist_inv, mgstep; cbn [fst snd]. intros i.
  pose proof (Hinv i) as Hi. cbn [fst snd] in Hi.
  destruct e as [h n effs foc'|h n nav|j|j|j t c| |j t c f']; cbn [mstep mbufs mhist_step].
  - (* a dispatch *)
    destruct (existsb (resets i) effs) eqn:Er.
    + destruct (fx_fold_reset effs (upd (mbufs s) (mfoc s) (kbody tbl (foc_kst s) h n)) i Er) as [A B].
      rewrite A, B. split; [constructor|intros e []].
    + destruct (fx_fold_noreset effs (upd (mbufs s) (mfoc s) (kbody tbl (foc_kst s) h n)) i Er) as [A B].
      rewrite A, B. unfold upd. destruct (i =? mfoc s) eqn:E.
      * apply Z.eqb_eq in E. subst i. destruct Hi as [Hu Hr].
        destruct (mid_inv_kbody tbl (foc_kst s) h n (P (mfoc s)) (Hno h) (Hwf (mfoc s)) Hu Hr) as (X & Y & _).
        split; assumption.
      * apply skip_inv. exact Hi.
  - unfold upd. destruct (i =? mfoc s) eqn:E.
    + apply Z.eqb_eq in E. subst i. destruct Hi as [Hu Hr].
      destruct (mid_inv_kbody tbl (foc_kst s) h n (P (mfoc s)) (Hno h) (Hwf (mfoc s)) Hu Hr) as (X & Y & _).
      cbn [set_state ustack rstack]. split; assumption.
    + apply skip_inv. exact Hi.
  - exact Hi.
  - unfold upd. destruct (i =? j) eqn:E.
    + apply Z.eqb_eq in E. subst i. apply redo_hist_inv. exact Hi.
    + apply skip_inv. exact Hi.
  - unfold upd. destruct (i =? j) eqn:E.
    + apply Z.eqb_eq in E. subst i. cbn [set_state ustack rstack]. apply skip_inv. exact Hi.
    + apply skip_inv. exact Hi.
  - exact Hi.
  - unfold upd. rewrite (Z.eqb_sym i j). destruct (j =? i) eqn:E; [|exact Hi].
    cbn [ustep ustack rstack]. split; [constructor|intros e []].
Qed.

Lemma mgrun_fst tbl evs : forall g, fst (fold_left (mgstep tbl) evs g) = mrun tbl (fst g) evs.
Proof.
  induction evs as [|e evs IH]; intros g; [reflexivity|].
  cbn [fold_left mrun]. rewrite IH. reflexivity.
Qed.

Lemma mhist_inv_run tbl evs : forall g,
  tbl_no_redo_handler tbl -> mwf (fst g) -> Forall mev_ok evs -> mhist_inv g ->
  mhist_inv (fold_left (mgstep tbl) evs g).
Proof.
  induction evs as [|e evs IH]; intros g Hno Hwf Hok H; [exact H|].
  inversion Hok; subst. cbn [fold_left]. apply IH; try assumption.
  - destruct g as [s P]. cbn [mgstep fst]. apply mwf_step; assumption.
  - apply mhist_inv_step; assumption.
Qed.

(* For every buffer of every session: its undo-stack entries are states THAT
   buffer had when an earlier command began, in chronological order at
   distinct commands; its redo-stack entries are such states. *)
Theorem multi_stack_is_history tbl l foc evs i :
  tbl_no_redo_handler tbl -> Forall doc_ok l -> Forall mev_ok evs ->
  let g := mgrun tbl (mfresh l foc) evs in
  subseq (ustack (mbufs (fst g) i)) (snd g i) /\ incl (rstack (mbufs (fst g) i)) (snd g i).
Proof.
  intros Hno Hl Hok. cbn zeta. unfold mgrun.
  apply (mhist_inv_run tbl evs (mfresh l foc, fun _ => [])); try assumption.
  - apply mwf_fresh. exact Hl.
  - intros j. cbn [fst snd mfresh mbufs]. destruct (mk_bufs_fresh l j Hl) as (t & c & E & _).
    rewrite E. split; [constructor|intros e []].
Qed.

Theorem multi_undo_lands_in_history tbl l foc evs i :
  tbl_no_redo_handler tbl -> Forall doc_ok l -> Forall mev_ok evs ->
  let g := mgrun tbl (mfresh l foc) evs in
  let s := mbufs (fst g) i in
  let past := snd g i in
  (utext (undo s) = utext s /\ ucur (undo s) = ucur s /\ ustack (undo s) = [] /\
   rstack (undo s) = rstack s /\ forall e, In e (ustack s) -> fst e = utext s)
  \/
  (exists newer older,
     past = newer ++ here (undo s) :: older /\
     utext (undo s) <> utext s /\
     subseq (ustack (undo s)) older /\
     rstack (undo s) = here s :: rstack s).
Proof.
  intros Hno Hl Hok. cbn zeta. apply undo_lands_gen.
  - unfold mgrun. rewrite mgrun_fst. apply mwf_run; [apply mwf_fresh; exact Hl|exact Hok].
  - apply (multi_stack_is_history tbl l foc evs i Hno Hl Hok).
Qed.

(* ------------------------------------------------------------------ *)
(* grouping in the focused buffer, whatever else the handlers touch *)

Definition in_mrun (h f : Z) (e : mev) : Prop :=
  match e with
  | MKey h' _ effs foc' => h' = h /\ foc' = f /\ existsb (resets f) effs = false
  | MCpr | MAsync _ _ _ => True
  | _ => False
  end.

Lemma mgroup_repeats tbl h f evs : forall s,
  r_cls (lookup tbl h) = 2 -> r_act (lookup tbl h) = 0 ->
  mprev s = Some h -> mfoc s = f -> Forall (in_mrun h f) evs ->
  ustack (mbufs (mrun tbl s evs) f) = ustack (mbufs s f) /\
  rstack (mbufs (mrun tbl s evs) f) = rstack (mbufs s f).
Proof.
  induction evs as [|e evs IH]; intros s Hc Ha Hp Hf Hall; [split; reflexivity|].
  inversion Hall as [|? ? He Hrest]; subst.
  cbn [mrun fold_left]. change (fold_left (mstep tbl) evs ?x) with (mrun tbl x evs).
  destruct e as [h' n effs foc'|h' n nav|j|j|j t c| |j t c f']; cbn [in_mrun] in He; try contradiction.
  - destruct He as (-> & -> & Hnr).
    destruct (IH (mstep tbl s (MKey h n effs (mfoc s))) Hc Ha eq_refl eq_refl Hrest) as (I1 & I2).
    rewrite I1, I2. cbn [mstep mbufs].
    destruct (fx_fold_noreset effs (upd (mbufs s) (mfoc s) (kbody tbl (foc_kst s) h n)) (mfoc s) Hnr) as [A B].
    rewrite A, B, upd_same, kbody_plain by exact Ha. cbn [foc_kst kprev kbuf].
    rewrite Hp, save_before_repeat by exact Hc. split; reflexivity.
  - destruct (IH (mstep tbl s (MAsync j t c)) Hc Ha Hp eq_refl Hrest) as (I1 & I2).
    rewrite I1, I2. cbn [mstep mbufs mfoc]. unfold upd.
    destruct (mfoc s =? j) eqn:E; [|split; reflexivity].
    apply Z.eqb_eq in E. subst j. split; reflexivity.
  - cbn [mstep]. apply IH; auto.
Qed.

(* A maximal run of one if_no_repeat binding typed into the focused buffer -
   whatever the handlers do to ANY buffer (no reset of the focused one), with
   terminal reports and changes from outside in between - takes one snapshot
   of that buffer; one undo there restores its pre-run text and cursor. *)
Theorem multi_group tbl h s n effs evs :
  r_cls (lookup tbl h) = 2 -> r_act (lookup tbl h) = 0 -> mprev s <> Some h ->
  existsb (resets (mfoc s)) effs = false -> Forall (in_mrun h (mfoc s)) evs -> wf (mbufs s (mfoc s)) ->
  let f := mfoc s in
  let s' := mrun tbl s (MKey h n effs f :: evs) in
  utext (mbufs s' f) <> utext (mbufs s f) ->
  here (undo (mbufs s' f)) = here (mbufs s f) /\ rstack (undo (mbufs s' f)) = [here (mbufs s' f)].
Proof.
  intros Hc Ha Hp Hnr Hall Hwf. cbn zeta. intros Hne.
  cbn [mrun fold_left] in *. change (fold_left (mstep tbl) evs ?x) with (mrun tbl x evs) in *.
  set (s1 := mstep tbl s (MKey h n effs (mfoc s))) in *.
  destruct (mgroup_repeats tbl h (mfoc s) evs s1 Hc Ha eq_refl eq_refl Hall) as (I1 & I2).
  assert (U1 : ustack (mbufs s1 (mfoc s)) = ustack (save_to_undo_stack (mbufs s (mfoc s)) true) /\
               rstack (mbufs s1 (mfoc s)) = []).
  { subst s1. cbn [mstep mbufs].
    destruct (fx_fold_noreset effs (upd (mbufs s) (mfoc s) (kbody tbl (foc_kst s) h n)) (mfoc s) Hnr) as [A B].
    rewrite A, B, upd_same, kbody_plain by exact Ha. cbn [foc_kst kprev kbuf].
    rewrite save_before_first by assumption. split; [reflexivity|apply save_rstack]. }
  destruct U1 as [U1 R1].
  apply undo_after_one_snapshot; [exact Hwf|congruence|congruence|exact Hne].
Qed.

(* The focus moved by a DISPATCH (start_search, accept_search, focus_next, a
   mouse click: another binding) resets is_repeat: the first keystroke of an
   if_no_repeat binding in the newly focused buffer snapshots it. *)
Theorem focus_by_dispatch_snapshots tbl s h' n' effs foc' h n effs2 foc2 :
  h' <> h -> r_cls (lookup tbl h) <> 0 -> r_act (lookup tbl h) = 0 ->
  existsb (resets foc') effs2 = false ->
  let s1 := mstep tbl s (MKey h' n' effs foc') in
  let s2 := mstep tbl s1 (MKey h n effs2 foc2) in
  ustack (mbufs s2 foc') = ustack (save_to_undo_stack (mbufs s1 foc') true) /\
  ustack (mbufs s2 foc') <> [].
Proof.
  intros Hh Hc Ha Hnr. cbn zeta.
  set (s1 := mstep tbl s (MKey h' n' effs foc')).
  assert (E : ustack (mbufs (mstep tbl s1 (MKey h n effs2 foc2)) foc') = ustack (save_to_undo_stack (mbufs s1 foc') true)).
  { cbn [mstep mbufs].
    destruct (fx_fold_noreset effs2 (upd (mbufs s1) (mfoc s1) (kbody tbl (foc_kst s1) h n)) foc' Hnr) as [A _].
    rewrite A. subst s1. cbn [mstep mfoc mprev foc_kst]. rewrite upd_same, kbody_plain by exact Ha.
    unfold foc_kst. cbn [kprev kbuf mprev mbufs mfoc].
    destruct (save_before_cases tbl (Some h') h Hc) as [->|(_ & Ep & _)]; [reflexivity|].
    injection Ep as Ep. contradiction. }
  split; [exact E|rewrite E; apply save_nonempty].
Qed.

(* ------------------------------------------------------------------ *)
(* repeated undo reaches every buffer's start text *)

Definition minv (tbl : list row) (s : mst) : Prop :=
  forall h, mprev s = Some h -> r_cls (lookup tbl h) = 2 -> ustack (mbufs s (mfoc s)) <> [].

Lemma ops_safe_app a : forall s b, ops_safe s a -> ops_safe (urun s a) b -> ops_safe s (a ++ b).
Proof.
  induction a as [|o a IH]; intros s b Ha Hb; [exact Hb|].
  destruct Ha as [Ho Ha]. cbn [app ops_safe]. split; [exact Ho|]. apply IH; [exact Ha|exact Hb].
Qed.

Lemma ops_safe_repeat o k : (o = Undo \/ o = Redo) -> forall s, ops_safe s (repeat o k).
Proof.
  intros Ho. induction k as [|k IH]; intros s; [exact I|].
  cbn [repeat ops_safe]. split; [destruct Ho; subst; exact I|apply IH].
Qed.

Lemma dispatch_ops_safe tbl prev b h n : ops_safe b (dispatch_ops tbl prev b h n).
Proof.
  unfold dispatch_ops. cbn [ops_safe]. split.
  - destruct (save_before tbl prev h); cbn [op_safe]; [exact I|left; reflexivity].
  - destruct (r_act (lookup tbl h) =? 1); [apply ops_safe_repeat; left; reflexivity|].
    destruct (r_act (lookup tbl h) =? 2); [apply ops_safe_repeat; right; reflexivity|exact I].
Qed.

Lemma fxs_ops_safe effs : forall bs i,
  fxs_safe bs effs -> ops_safe (bs i) (flat_map (fx_proj i) effs).
Proof.
  induction effs as [|e r IH]; intros bs i H; [exact I|].
  destruct H as [He Hr]. cbn [flat_map]. apply ops_safe_app.
  - destruct e as [j t c|j t c]; cbn [fx_proj]; destruct (j =? i) eqn:E; cbn [ops_safe op_safe]; try exact I.
    + apply Z.eqb_eq in E. subst j. split; [exact He|exact I].
    + split; exact I.
  - rewrite <- fx_apply_at. apply IH. exact Hr.
Qed.

(* the focused buffer always has a snapshot right after the snapshot decision
   of a plain snapshotting binding: its own effects are safe *)
Lemma focused_effect_safe tbl s h n :
  r_act (lookup tbl h) = 0 -> r_cls (lookup tbl h) <> 0 -> minv tbl s ->
  ustack (kbody tbl (foc_kst s) h n) <> [].
Proof.
  intros Ha Hc Hinv. rewrite kbody_plain by exact Ha. cbn [foc_kst kprev kbuf].
  destruct (save_before_cases tbl (mprev s) h Hc) as [E|(E2 & Ep & E)]; rewrite E.
  - apply save_nonempty.
  - apply (Hinv h Ep E2).
Qed.

Lemma reach_mstep tbl s e :
  mwf s -> disciplined tbl s e -> minv tbl s ->
  (forall i, ops_safe (mbufs s i) (mproj tbl i s e)) /\ minv tbl (mstep tbl s e).
Proof.
  intros Hwf Hd Hinv. destruct e as [h n effs foc'|h n nav|j|j|j t c| |j t c f']; cbn [disciplined] in Hd.
  - destruct Hd as (Ha & Hc & H2 & Hfx). split.
    + intros i. cbn [mproj]. apply ops_safe_app.
      * destruct (mfoc s =? i); [apply dispatch_ops_safe|exact I].
      * assert (E : urun (mbufs s i) (if mfoc s =? i then dispatch_ops tbl (mprev s) (mbufs s i) h n else [])
                    = upd (mbufs s) (mfoc s) (kbody tbl (foc_kst s) h n) i).
        { unfold upd. rewrite (Z.eqb_sym i (mfoc s)). destruct (mfoc s =? i) eqn:E; [|reflexivity].
          apply Z.eqb_eq in E. rewrite dispatch_ops_run, (foc_kst_at s i E). reflexivity. }
        rewrite E. apply fxs_ops_safe. exact Hfx.
    + intros h0 Hp H20. cbn [mstep mprev] in Hp. injection Hp as <-.
      destruct (H2 H20) as [-> Hnr]. cbn [mstep mbufs mfoc].
      destruct (fx_fold_noreset effs (upd (mbufs s) (mfoc s) (kbody tbl (foc_kst s) h n)) (mfoc s) Hnr) as [A _].
      rewrite A, upd_same. apply focused_effect_safe; assumption.
  - destruct Hd as [Ha Hc]. split.
    + intros i. cbn [mproj]. destruct (mfoc s =? i) eqn:E; [|exact I].
      apply Z.eqb_eq in E. apply ops_safe_app; [apply dispatch_ops_safe|].
      rewrite dispatch_ops_run, (foc_kst_at s i E). cbn [ops_safe op_safe]. split; [left; reflexivity|exact I].
    + intros h0 Hp H20. cbn [mstep mprev] in Hp. injection Hp as <-. rewrite Hc in H20. discriminate.
  - split; [intros i; exact I|]. intros h0 Hp H20. cbn [mstep mprev mfoc mbufs] in *. apply (Hd h0 Hp H20).
  - split.
    + intros i. cbn [mproj]. destruct (j =? i); cbn [ops_safe op_safe]; auto.
    + intros h0 Hp H20. cbn [mstep mprev mfoc mbufs] in *. unfold upd.
      destruct (mfoc s =? j) eqn:E; [|apply (Hinv h0 Hp H20)].
      apply Z.eqb_eq in E. subst j. apply redo_keeps_nonempty. apply (Hinv h0 Hp H20).
  - split.
    + intros i. cbn [mproj]. destruct (j =? i) eqn:E; cbn [ops_safe op_safe]; auto.
      apply Z.eqb_eq in E. subst j. split; [exact Hd|exact I].
    + intros h0 Hp H20. cbn [mstep mprev mfoc mbufs] in *. unfold upd.
      destruct (mfoc s =? j) eqn:E; [|apply (Hinv h0 Hp H20)].
      apply Z.eqb_eq in E. subst j. cbn [set_state ustack]. apply (Hinv h0 Hp H20).
  - split; [intros i; exact I|exact Hinv].
  - split.
    + intros i. cbn [mproj]. destruct (j =? i); cbn [ops_safe op_safe]; auto.
    + intros h0 Hp. cbn [mstep mprev] in Hp. discriminate.
Qed.

Lemma reach_mrun tbl evs : forall s,
  mwf s -> Forall mev_ok evs -> all_disciplined tbl s evs -> minv tbl s ->
  forall i, ops_safe (mbufs s i) (mproj_all tbl i s evs).
Proof.
  induction evs as [|e evs IH]; intros s Hwf Hok Hd Hinv i; [exact I|].
  inversion Hok; subst. destruct Hd as [Hd Hrest].
  destruct (reach_mstep tbl s e Hwf Hd Hinv) as [Hs Hi].
  cbn [mproj_all]. apply ops_safe_app; [apply Hs|].
  rewrite <- mstep_proj. apply IH; [apply mwf_step; assumption|assumption|exact Hrest|exact Hi].
Qed.

(* Repeated undo in ANY buffer of a disciplined multi-buffer session ends on
   the text that buffer started with (or was last reset to). *)
Theorem multi_reaches_start tbl l foc evs i k :
  Forall doc_ok l -> Forall mev_ok evs -> all_disciplined tbl (mfresh l foc) evs ->
  let b := mbufs (mrun tbl (mfresh l foc) evs) i in
  (length (ustack b) <= k)%nat ->
  utext (iter_op Undo k b) = session_start (utext (mk_bufs l i)) (mproj_all tbl i (mfresh l foc) evs).
Proof.
  intros Hl Hok Hd. cbn zeta. intros Hk.
  pose proof (mwf_fresh l foc Hl) as Hwf0.
  rewrite undo_all_reaches_bottom; [|apply mwf_run; assumption|exact Hk].
  rewrite mrun_proj, bottom_run.
  - cbn [mfresh mbufs]. destruct (mk_bufs_fresh l i Hl) as (t & c & E & _). rewrite E. reflexivity.
  - apply Hwf0.
  - apply mproj_all_ok; assumption.
  - apply reach_mrun; try assumption. intros h Hp. discriminate.
Qed.

(* ... and the discipline is needed: application code moving the focus between
   two keystrokes of the same if_no_repeat binding (observation O4: is_repeat
   is per key processor, not per buffer).  Buffer 1 ("B") never gets a
   snapshot, so its start text cannot be restored. *)
Definition o4_tbl : list row := [(2, 0, 1)].
Definition o4_session : list mev :=
  [MKey 0 1 [FxSet 0 [65; 120] 2] 0; MFocus 1; MKey 0 1 [FxSet 1 [66; 121] 2] 1].

Theorem programmatic_focus_refuted :
  let s0 := mfresh [([65], 1); ([66], 1)] 0 in
  let b := mbufs (mrun o4_tbl s0 o4_session) 1 in
  Forall mev_ok o4_session /\
  utext b = [66; 121] /\ ustack b = [] /\
  (forall k, utext (iter_op Undo k b) <> utext (mbufs s0 1)).
Proof.
  cbn zeta. split; [|split; [|split]].
  - repeat constructor; vm_compute; discriminate.
  - vm_compute. reflexivity.
  - vm_compute. reflexivity.
  - intros k. assert (G : forall j x, ustack x = [] -> utext (iter_op Undo j x) = utext x).
    { induction j as [|j IH]; intros x Hx; [reflexivity|].
      cbn [iter_op ustep]. rewrite IH; rewrite (undo_empty x Hx); reflexivity. }
    rewrite G; [vm_compute; discriminate|vm_compute; reflexivity].
Qed.

(* the same session with the focus moved by a dispatch of ANOTHER binding is
   fine: the first keystroke in the newly focused buffer is snapshotted *)
Example focus_by_key_ok :
  let tbl := [(2, 0, 1); (1, 0, 0)] in
  let s0 := mfresh [([65], 1); ([66], 1)] 0 in
  let evs := [MKey 0 1 [FxSet 0 [65; 120] 2] 0; MKey 1 1 [] 1; MKey 0 1 [FxSet 1 [66; 121] 2] 1] in
  all_disciplined tbl s0 evs /\
  here (undo (mbufs (mrun tbl s0 evs) 1)) = ([66], 1).
Proof.
  cbn zeta. split; [|vm_compute; reflexivity].
  cbn [all_disciplined disciplined]. repeat split; try (vm_compute; congruence); try exact I.
  all: try (intros H; vm_compute in H; discriminate).
  all: try (right; vm_compute; discriminate).
  all: try (exfalso; vm_compute in H; discriminate).
Qed.

(* A registry that REBUILDS its Binding objects (ConditionalKeyBindings after a
   version change) gives the same row a new identity: is_repeat is false at
   the switch, so a run typed across the rebuild is split into two undo groups. *)
Theorem rebuilt_binding_splits_group :
  exists tbl h h' s evs,
    lookup tbl h = lookup tbl h' /\ r_cls (lookup tbl h) = 2 /\ h <> h' /\ wf (kbuf s) /\
    utext (kbuf (krun tbl s evs)) <> utext (kbuf s) /\
    here (undo (kbuf (krun tbl s evs))) <> here (kbuf s).
Proof.
  exists [(2, 0, 1); (2, 0, 1)], 0, 1, (kfresh [97] 1),
    [Key 0 1 [97; 120] 2; Key 1 1 [97; 120; 121] 3].
  split; [reflexivity|]. split; [reflexivity|]. split; [discriminate|].
  split; [apply wf_fresh; vm_compute; split; discriminate|].
  split; vm_compute; discriminate.
Qed.
