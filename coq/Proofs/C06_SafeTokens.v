(* C06 - the token stream the renderer emits never exercises the two debatable
   choices of the terminal model:
     * every erase (EL, ED) and every line feed (the only token that can scroll
       and fill a new last row) is executed with the pen reset (ESC[0m), so
       "erase fills with the current background" (BCE) and "erase fills with the
       default attributes" give the same cells;
     * every text token is executed with autowrap OFF, so no cursor is ever
       parked with a pending wrap and deferred vs immediate wrap cannot matter.
   Proof: a dataflow analysis of the token list (the pen changes only at SGR,
   autowrap only at ?7h/l) that is sound for the terminal, and a syntactic proof
   that the model's output passes it.  Consequence ([choice_independent]): ANY
   terminal step function that agrees with ours on safe tokens computes the same
   terminal for every render / erase. *)
From Coq Require Import ZArith List Bool Lia.
From PTK Require Import Lib.Sx Lib.Py Model.C06_Terminal Model.C06_Renderer
  Proofs.C06_TermFacts Proofs.C06_RowFacts Proofs.C06_DiffFacts Proofs.C06_SyncFacts.
Import ListNotations.
Open Scope Z_scope.

Definition safe_tok (t : term) (k : tok) : Prop :=
  match k with
  | TEL | TED | TLF => pen t = 0
  | TText (_ :: _) _ => aw t = false
  | _ => True
  end.

Fixpoint saferun (W : Z) (t : term) (ks : list tok) : Prop :=
  match ks with
  | [] => True
  | k :: r => safe_tok t k /\ saferun W (tstep W t k) r
  end.

Lemma saferun_app : forall W a b t, saferun W t (a ++ b) <-> saferun W t a /\ saferun W (trun W t a) b.
Proof.
  induction a as [|k a IH]; intros b t; cbn [app saferun trun fold_left]; [tauto|].
  rewrite IH. unfold trun. tauto.
Qed.

(* any terminal that agrees with the model on safe tokens computes the same state *)
Theorem choice_independent : forall W (step' : term -> tok -> term),
  (forall t k, safe_tok t k -> step' t k = tstep W t k) ->
  forall ks t, saferun W t ks -> fold_left step' ks t = trun W t ks.
Proof.
  intros W step' A. induction ks as [|k ks IH]; intros t S; cbn [fold_left trun]; [reflexivity|].
  destruct S as (S1 & S2). rewrite (A t k S1). apply IH. exact S2.
Qed.

(* ---- dataflow: (pen known to be 0, autowrap known to be off) ---- *)
Definition astep (s : bool * bool) (k : tok) : option (bool * bool) :=
  let '(pz, ao) := s in
  match k with
  | TSGR p => Some (p =? 0, ao)
  | TAW b => Some (pz, negb b)
  | TEL | TED | TLF => if pz then Some s else None
  | TText (_ :: _) _ => if ao then Some s else None
  | _ => Some s
  end.

Fixpoint arun (s : bool * bool) (ks : list tok) : option (bool * bool) :=
  match ks with
  | [] => Some s
  | k :: r => match astep s k with Some s' => arun s' r | None => None end
  end.

Definition absok (s : bool * bool) (t : term) : Prop :=
  (fst s = true -> pen t = 0) /\ (snd s = true -> aw t = false).

Lemma put_pen_aw : forall W t g w, pen (put W t g w) = pen t /\ aw (put W t g w) = aw t.
Proof.
  intros. unfold put, set_undef. destruct ((w <? 1) || (2 <? w)); [auto|].
  destruct ((w =? 2) && (W - 1 <=? (if pend t && aw t then 0 else cx t))); [auto|].
  destruct ((if pend t && aw t then 0 else cx t) + w <=? W - 1); auto.
Qed.

Lemma astep_sound : forall W s k s' t, astep s k = Some s' -> absok s t -> safe_tok t k /\ absok s' (tstep W t k).
Proof.
  intros W [pz ao] k s' t A (P & Q). cbn [fst snd] in *.
  destruct k as [g w| | |n|n|n|n| | | |p|b|b| |i]; cbn [astep] in A; cbn [safe_tok tstep].
  - destruct g as [|g0 g'].
    + inversion A; subst. split; [exact I|split; auto].
    + destruct ao; [|discriminate]. inversion A; subst. split; [auto|].
      destruct (put_pen_aw W t (g0 :: g') w) as (E1 & E2). split; cbn [fst snd]; intros; [rewrite E1|rewrite E2]; auto.
  - inversion A; subst. split; [exact I|split; cbn; auto].
  - destruct pz; [|discriminate]. inversion A; subst. split; [auto|split; cbn; auto].
  - inversion A; subst. split; [exact I|split; cbn; auto].
  - inversion A; subst. split; [exact I|split; cbn; auto].
  - inversion A; subst. split; [exact I|split; cbn; auto].
  - inversion A; subst. split; [exact I|split; cbn; auto].
  - inversion A; subst. split; [exact I|split; cbn; auto].
  - destruct pz; [|discriminate]. inversion A; subst. split; [auto|split; cbn; auto].
  - destruct pz; [|discriminate]. inversion A; subst. split; [auto|split; cbn; auto].
  - inversion A; subst. split; [exact I|]. split; cbn [fst snd pen aw]; [|auto].
    intros E. apply Z.eqb_eq in E. exact E.
  - inversion A; subst. split; [exact I|]. split; cbn [fst snd pen aw]; [auto|].
    intros E. apply negb_true_iff in E. exact E.
  - inversion A; subst. split; [exact I|split; cbn; auto].
  - inversion A; subst. split; [exact I|split; cbn; auto].
  - inversion A; subst. split; [exact I|split; cbn; auto].
Qed.

Lemma arun_sound : forall W ks s s' t, arun s ks = Some s' -> absok s t ->
  saferun W t ks /\ absok s' (trun W t ks).
Proof.
  induction ks as [|k ks IH]; intros s s' t A OK; cbn [arun saferun trun fold_left] in *.
  - inversion A; subst. auto.
  - destruct (astep s k) as [s1|] eqn:E; [|discriminate].
    destruct (astep_sound W s k s1 t E OK) as (S1 & OK1).
    destruct (IH s1 s' (tstep W t k) A OK1) as (S2 & OK2). auto.
Qed.

Lemma arun_app : forall a b s, arun s (a ++ b) = match arun s a with Some s1 => arun s1 b | None => None end.
Proof.
  induction a as [|k a IH]; intros b s; cbn [app arun]; [reflexivity|].
  destruct (astep s k); [apply IH|reflexivity].
Qed.

(* tokens that the analysis passes through unchanged *)
Definition neutral (k : tok) : Prop :=
  match k with
  | TText [] _ | TCR | TCUU _ | TCUD _ | TCUF _ | TCUB _ | TBS | TCV _ | THome | TRaw _ => True
  | _ => False
  end.

Lemma arun_neutral : forall ks s, Forall neutral ks -> arun s ks = Some s.
Proof.
  induction ks as [|k ks IH]; intros s F; cbn [arun]; [reflexivity|].
  inversion F as [|? ? N F']; subst.
  assert (E : astep s k = Some s).
  { destruct s as [pz ao]. destruct k as [g w| | |n|n|n|n| | | |p|b|b| |i]; cbn [neutral] in N; try contradiction; try reflexivity.
    destruct g; [reflexivity|contradiction]. }
  rewrite E. apply IH. exact F'.
Qed.

Lemma neutral_cuf : forall n, Forall neutral (cuf n).
Proof. intros n. unfold cuf. destruct (n =? 0); repeat constructor. Qed.
Lemma neutral_cub : forall n, Forall neutral (cub n).
Proof. intros n. unfold cub. destruct (n =? 0); [constructor|]. destruct (n =? 1); repeat constructor. Qed.
Lemma neutral_cuu : forall n, Forall neutral (cuu n).
Proof. intros n. unfold cuu. destruct (n =? 0); repeat constructor. Qed.

Lemma arun_crlf : forall n ao, arun (true, ao) (crlf n) = Some (true, ao).
Proof. induction n as [|n IH]; intros ao; cbn [crlf arun astep]; [reflexivity|apply IH]. Qed.

(* move_cursor: safe from any state; keeps "autowrap off"; keeps or establishes "pen 0" *)
Lemma arun_move_cursor : forall W pos ls new pz ao,
  exists pz', arun (pz, ao) (snd (move_cursor W pos ls new)) = Some (pz', ao) /\ (pz = true -> pz' = true) /\
              (snd pos < snd new -> pz' = true).
Proof.
  intros W [x y] ls [nx ny] pz ao. unfold move_cursor. cbn [snd].
  destruct (y <? ny) eqn:E.
  - cbn [snd]. exists true. cbn [arun astep]. change (0 =? 0) with true.
    rewrite arun_app, arun_crlf. rewrite arun_neutral by apply neutral_cuf. auto.
  - cbn [snd]. exists pz. split; [|split; [auto|intros L; apply Z.ltb_ge in E; lia]].
    apply arun_neutral. apply Forall_app. split.
    + destruct (ny <? y); [apply neutral_cuu|constructor].
    + destruct (W - 1 <=? x); [constructor; [exact I|apply neutral_cuf]|].
      destruct (nx <? x); [apply neutral_cub|]. destruct (x <? nx); [apply neutral_cuf|constructor].
Qed.

Lemma arun_output_char : forall tb ls c pz, exists pz', arun (pz, true) (snd (output_char tb ls c)) = Some (pz', true).
Proof.
  intros tb ls c pz. unfold output_char.
  assert (T : forall q, exists q', arun (q, true) [TText (ch c) (wd c)] = Some (q', true)).
  { intros q. cbn [arun astep]. destruct (ch c); eauto. }
  destruct (match ls with Some s => s =? st c | None => false end); cbn [snd]; [apply T|].
  destruct (ls_falsy ls || _); cbn [app]; [|apply T].
  cbn [arun astep]. destruct (T (apen tb (sattr tb (st c)) =? 0)) as (q' & E). cbn [arun astep] in E.
  destruct (ch c); eauto.
Qed.

Lemma arun_cols : forall fuel tb W y nr pr zw nmax c pos ls pz,
  exists pz', arun (pz, true) (snd (cols fuel tb W y nr pr zw nmax c pos ls)) = Some (pz', true).
Proof.
  induction fuel as [|f IH]; intros; cbn [cols]; [cbn; eauto|].
  destruct (nmax <? c); [cbn; eauto|].
  set (cw := if wd (rget nr c) =? 0 then 1 else wd (rget nr c)).
  destruct (differs (rget nr c) (rget pr c)); [|apply IH].
  destruct (arun_move_cursor W pos ls (c, y) pz true) as (p1 & M & _).
  destruct (move_cursor W pos ls (c, y)) as [ls1 t1]. cbn [snd] in M.
  assert (D : exists p3, arun (p1, true) (match zget zw y c with Some i => [TRaw i] | None => [] end ++
               snd (if is_transp (rget nr c) then (@None Z, [TSGR 0; TText [32] 1]) else output_char tb ls1 (rget nr c)))
               = Some (p3, true)).
  { rewrite arun_app. rewrite arun_neutral by (destruct (zget zw y c); repeat constructor).
    destruct (is_transp (rget nr c)); [cbn; eauto|apply arun_output_char]. }
  destruct D as (p3 & D).
  destruct (if is_transp (rget nr c) then (@None Z, [TSGR 0; TText [32] 1]) else output_char tb ls1 (rget nr c)) as [ls2 t3].
  cbn [snd] in D.
  destruct (IH tb W y nr pr zw nmax (c + cw) (c + cw, y) ls2 p3) as (p4 & R).
  destruct (cols f tb W y nr pr zw nmax (c + cw) (c + cw, y) ls2) as [[pos' ls'] ts]. cbn [snd] in *.
  exists p4. rewrite arun_app, M. rewrite app_assoc, arun_app, D. exact R.
Qed.

Lemma arun_do_row : forall tb W y scr prev pos ls pz,
  exists pz', arun (pz, true) (snd (do_row tb W y scr prev pos ls)) = Some (pz', true).
Proof.
  intros. unfold do_row.
  set (nmax := Z.min (W - 1) (gmax tb (sget (srows scr) y))).
  destruct (arun_cols (Z.to_nat (nmax + 1)) tb W y (sget (srows scr) y) (sget (srows prev) y) (szwe scr) nmax 0 pos ls pz) as (p1 & C).
  destruct (cols _ tb W y _ _ _ nmax 0 pos ls) as [[pos1 ls1] t1]. cbn [snd] in C.
  destruct (nmax <? _); [|cbn [snd]; eauto].
  destruct (arun_move_cursor W pos1 ls1 (nmax + 1, y) p1 true) as (p2 & M & _).
  destruct (move_cursor W pos1 ls1 (nmax + 1, y)) as [lx t2]. cbn [snd] in *.
  exists true. rewrite arun_app, C, arun_app, M. reflexivity.
Qed.

Lemma arun_rows_loop : forall n tb W y scr prev pos ls pz,
  exists pz', arun (pz, true) (snd (rows_loop n tb W y scr prev pos ls)) = Some (pz', true) /\
              (n = O -> pz' = pz).
Proof.
  induction n as [|n IH]; intros; cbn [rows_loop]; [cbn; eauto|].
  destruct (arun_do_row tb W y scr prev pos ls pz) as (p1 & D).
  destruct (do_row tb W y scr prev pos ls) as [[pos1 ls1] t1]. cbn [snd] in D.
  destruct (IH tb W (y + 1) scr prev pos1 ls1 p1) as (p2 & R & _).
  destruct (rows_loop n tb W (y + 1) scr prev pos1 ls1) as [[pos2 ls2] t2]. cbn [snd] in *.
  exists p2. split; [|discriminate]. rewrite arun_app, D. exact R.
Qed.

Lemma neutral_show : forall cv, Forall neutral (snd (show_cursor cv)).
Proof. intros [[|]|]; cbn; repeat constructor. Qed.
Lemma neutral_hide : forall cv, Forall neutral (snd (hide_cursor cv)).
Proof. intros [[|]|]; cbn; repeat constructor. Qed.

Lemma arun_diff_body : forall tb W H fs done scr prev pos ls cv pz,
  (done = true -> sh prev = 0 /\ pz = true) ->
  exists ao', arun (pz, true) (snd (diff_body tb W H fs done scr prev pos ls cv)) = Some (true, ao').
Proof.
  intros tb W H fs done scr prev pos ls cv pz HD. unfold diff_body.
  set (cur_h := Z.min (sh scr) H). set (rc := Z.min (Z.max (sh scr) (sh prev)) H).
  destruct (arun_rows_loop (Z.to_nat rc) tb W 0 scr prev pos ls pz) as (p1 & R & R0).
  destruct (rows_loop (Z.to_nat rc) tb W 0 scr prev pos ls) as [[pos1 ls1] t1]. cbn [snd] in R.
  (* reserve height *)
  assert (M2 : exists p2, arun (p1, true) (snd (if sh prev <? cur_h
                 then let '(l, t) := move_cursor W pos1 ls1 (0, cur_h - 1) in ((0, cur_h - 1), l, t)
                 else (pos1, ls1, []))) = Some (p2, true) /\ (p1 = true -> p2 = true) /\
               ((sh prev <? cur_h) = true ->
                  fst (fst (if sh prev <? cur_h
                 then let '(l, t) := move_cursor W pos1 ls1 (0, cur_h - 1) in ((0, cur_h - 1), l, t)
                 else (pos1, ls1, []))) = (0, cur_h - 1))).
  { destruct (sh prev <? cur_h).
    - destruct (arun_move_cursor W pos1 ls1 (0, cur_h - 1) p1 true) as (p2 & M & K & _).
      destruct (move_cursor W pos1 ls1 (0, cur_h - 1)) as [l t]. cbn [snd fst] in *.
      exists p2. split; [exact M|]. split; [exact K|reflexivity].
    - exists p1. split; [reflexivity|]. split; [auto|discriminate]. }
  destruct M2 as (p2 & M2 & K2 & P2).
  destruct (if sh prev <? cur_h then let '(l, t) := move_cursor W pos1 ls1 (0, cur_h - 1) in ((0, cur_h - 1), l, t)
            else (pos1, ls1, [])) as [[pos2 ls2] t2]. cbn [snd fst] in M2, P2.
  (* final cursor move / erase_down *)
  assert (M3 : exists p3, arun (p2, true) (snd (if done
                 then let '(_, t) := move_cursor W pos2 ls2 (0, cur_h) in ((0, cur_h), t ++ [TED])
                 else let '(_, t) := move_cursor W pos2 ls2 (scx scr, scy scr) in ((scx scr, scy scr), t)))
               = Some (p3, true)).
  { destruct done.
    - destruct (HD eq_refl) as (HP & HZ).
      destruct (arun_move_cursor W pos2 ls2 (0, cur_h) p2 true) as (p3 & M & K & DN).
      destruct (move_cursor W pos2 ls2 (0, cur_h)) as [l t]. cbn [snd] in *.
      assert (p3 = true).
      { destruct (sh prev <? cur_h) eqn:B.
        - rewrite (P2 eq_refl) in DN. cbn [snd] in DN. apply DN. lia.
        - apply K. apply K2. apply Z.ltb_ge in B.
          assert (Z.to_nat rc = 0%nat) by (subst rc cur_h; lia).
          rewrite (R0 H0). exact HZ. }
      subst p3. exists true. rewrite arun_app, M. reflexivity.
    - destruct (arun_move_cursor W pos2 ls2 (scx scr, scy scr) p2 true) as (p3 & M & _).
      destruct (move_cursor W pos2 ls2 (scx scr, scy scr)) as [l t]. cbn [snd] in *. eauto. }
  destruct M3 as (p3 & M3).
  destruct (if done then let '(_, t) := move_cursor W pos2 ls2 (0, cur_h) in ((0, cur_h), t ++ [TED])
            else let '(_, t) := move_cursor W pos2 ls2 (scx scr, scy scr) in ((scx scr, scy scr), t)) as [pos3 t3].
  cbn [snd] in M3.
  pose proof (neutral_show cv) as NS.
  destruct (if sshow scr then show_cursor cv else (cv, [])) as [cv' t5] eqn:E5.
  assert (N5 : Forall neutral t5).
  { destruct (sshow scr); [rewrite E5 in NS; exact NS|inversion E5; constructor]. }
  cbn [snd].
  rewrite arun_app, R, arun_app, M2, arun_app, M3.
  destruct (done || negb fs); cbn [app arun astep]; change (0 =? 0) with true;
    rewrite arun_neutral by exact N5; eauto.
Qed.

Lemma arun_screen_diff : forall tb W H fs done scr prev pos ls prevW cv pz ao,
  (prev <> None -> pz = true /\ (fs = true -> ao = true)) ->
  exists ao', arun (pz, ao) (snd (screen_diff tb W H fs done scr prev pos ls prevW cv)) = Some (true, ao').
Proof.
  intros tb W H fs done scr prev pos ls prevW cv pz ao HP. unfold screen_diff.
  pose proof (neutral_hide cv) as NH.
  destruct (hide_cursor cv) as [cv1 t0]. cbn [snd] in NH.
  (* state after the prologue of the diff: pen 0 known, autowrap off known *)
  assert (PRO : arun (pz, ao) (t0 ++ snd (if is_none prev then (@None Z, [TSGR 0]) else (ls, [])) ++
                               (if is_none prev || negb fs then [TAW false] else [])) = Some (true, true)).
  { rewrite arun_app, arun_neutral by exact NH.
    destruct prev as [p|]; cbn [is_none snd orb app].
    - destruct (HP ltac:(discriminate)) as (-> & HA). destruct fs; cbn [negb arun astep]; [rewrite HA by reflexivity|]; reflexivity.
    - cbn [arun astep]. reflexivity. }
  destruct (if is_none prev then (@None Z, [TSGR 0]) else (ls, [])) as [ls1 t1]. cbn [snd] in PRO.
  destruct (done || is_none prev || negb (prevW =? W)) eqn:FULL.
  - destruct (arun_move_cursor W pos ls1 (0, 0) true true) as (p3 & M & _).
    destruct (move_cursor W pos ls1 (0, 0)) as [lx t3]. cbn [snd] in M.
    destruct (arun_diff_body tb W H fs done scr empty_screen (0, 0) None cv1 true ltac:(intros _; split; reflexivity)) as (ao' & D).
    destruct (diff_body tb W H fs done scr empty_screen (0, 0) None cv1) as [[p4 c4] t4]. cbn [snd] in *.
    exists ao'.
    replace (t0 ++ t1 ++ (if is_none prev || negb fs then [TAW false] else []) ++ (t3 ++ [TSGR 0; TED]) ++ t4)
      with ((t0 ++ t1 ++ (if is_none prev || negb fs then [TAW false] else [])) ++ t3 ++ [TSGR 0; TED] ++ t4)
      by (rewrite <- !app_assoc; reflexivity).
    rewrite arun_app, PRO, arun_app, M. cbn [app arun astep]. exact D.
  - assert (DN : done = false).
    { destruct done; [discriminate|reflexivity]. }
    destruct (arun_diff_body tb W H fs done scr (match prev with Some p => p | None => empty_screen end) pos ls1 cv1 true
                ltac:(rewrite DN; discriminate)) as (ao' & D).
    destruct (diff_body tb W H fs done scr _ pos ls1 cv1) as [[p4 c4] t4]. cbn [snd] in *.
    exists ao'.
    replace (t0 ++ t1 ++ (if is_none prev || negb fs then [TAW false] else []) ++ [] ++ t4)
      with ((t0 ++ t1 ++ (if is_none prev || negb fs then [TAW false] else [])) ++ t4)
      by (rewrite <- !app_assoc; reflexivity).
    rewrite arun_app, PRO. exact D.
Qed.

Lemma neutral_reset : forall r, Forall neutral (snd (r_reset r)).
Proof.
  intros r. unfold r_reset. pose proof (neutral_show (rcv r)) as NS.
  destruct (show_cursor (rcv r)) as [cv k3]. cbn [snd] in *.
  apply Forall_app. split; [destruct (ralt r); repeat constructor|].
  apply Forall_app. split; [destruct (rbp r); repeat constructor|exact NS].
Qed.

Section Safe.
Variable W H : Z.
Variable fs : bool.
Variable tbs : Z -> tabs.
Variable pvis : Z -> Z.
Variable wof : list Z -> Z.

(* every token of a render is executed safely, from any state in Sync *)
Theorem render_safe : forall r t cfg done scr r' ks,
  Sync W H fs tbs pvis wof r t ->
  r_render tbs fs r cfg done W H scr = (r', ks) ->
  saferun W t ks /\ pen (trun W t ks) = 0.
Proof.
  intros r t cfg done scr r' ks S R.
  rewrite (r_render_unfold W H fs tbs) in R.
  assert (HP : last2_of W H r cfg <> None -> pen t = 0 /\ (fs = true -> aw t = false)).
  { intros NE. destruct S as (_ & _ & _ & _ & _ & _ & _ & _ & L).
    unfold last2_of in NE. destruct (rlast r) as [s|].
    - destruct L as (c & _ & _ & _ & _ & PN & AW). split; [exact PN|]. intros ->. exact AW.
    - destruct (cfg_eqb (rcfg r) cfg); [destruct (size_eqb (rsize r) W H)|]; contradiction. }
  (* abstract start state: what Sync guarantees *)
  set (pz := match last2_of W H r cfg with Some _ => true | None => false end).
  set (ao := match last2_of W H r cfg with Some _ => fs | None => false end).
  destruct (arun_screen_diff (tbs cfg) W H fs done scr (last2_of W H r cfg) (rpos r) None
              (match rsize r with Some (w, _) => w | None => 0 end) (rcv r) pz ao) as (ao' & D).
  { intros NE. subst pz ao. destruct (last2_of W H r cfg); [|contradiction]. split; [reflexivity|auto]. }
  destruct (screen_diff _ _ _ _ _ _ _ _ _ _ _) as [[pos cv] td]. cbn [snd] in D. cbv zeta in R.
  assert (NP : Forall neutral (prologue fs r)).
  { unfold prologue. apply Forall_app. split; [destruct (fs && negb (ralt r)); repeat constructor|].
    apply Forall_app. split; [destruct (rbp r); repeat constructor|destruct (rckm r); repeat constructor]. }
  assert (OK0 : absok (pz, ao) t).
  { subst pz ao. split; cbn [fst snd]; destruct (last2_of W H r cfg) eqn:E; try discriminate; intros A.
    - apply HP. discriminate.
    - subst fs. apply HP; [discriminate|reflexivity]. }
  assert (ALL : forall te, Forall neutral te ->
            saferun W t (prologue fs r ++ td ++ te) /\ pen (trun W t (prologue fs r ++ td ++ te)) = 0).
  { intros te NT.
    assert (A : arun (pz, ao) (prologue fs r ++ td ++ te) = Some (true, ao')).
    { rewrite arun_app, arun_neutral by exact NP. rewrite arun_app, D. apply arun_neutral. exact NT. }
    destruct (arun_sound W _ _ _ t A OK0) as (SR & (PZ & _)). split; [exact SR|apply PZ; reflexivity]. }
  destruct done.
  - match type of R with context [r_reset ?x] =>
      pose proof (neutral_reset x) as NR; destruct (r_reset x) as [r2 te] end.
    cbn [snd] in NR. inversion R; subst. apply ALL. exact NR.
  - inversion R; subst. specialize (ALL [] ltac:(constructor)). rewrite app_nil_r in ALL. exact ALL.
Qed.

(* erase(): safe whenever the pen is reset - which it is after every operation *)
Theorem erase_safe : forall r t r' ks,
  pen t = 0 -> r_erase r = (r', ks) -> saferun W t ks /\ pen (trun W t ks) = 0.
Proof.
  intros r t r' ks PN E. unfold r_erase in E. destruct (rpos r) as [x y].
  pose proof (neutral_reset r) as NR. destruct (r_reset r) as [r2 te]. cbn [snd] in NR.
  inversion E; subst.
  assert (A : arun (true, false) (cub x ++ cuu y ++ [TED; TSGR 0; TAW true] ++ te) = Some (true, false)).
  { rewrite arun_app, arun_neutral by apply neutral_cub. rewrite arun_app, arun_neutral by apply neutral_cuu.
    cbn [app arun astep]. change (0 =? 0) with true. cbn [negb]. apply arun_neutral. exact NR. }
  destruct (arun_sound W _ _ _ t A ltac:(split; cbn [fst snd]; [auto|discriminate])) as (SR & (PZ & _)).
  split; [exact SR|apply PZ; reflexivity].
Qed.

Theorem reset_safe : forall r t r' ks,
  r_reset r = (r', ks) -> saferun W t ks /\ pen (trun W t ks) = pen t.
Proof.
  intros r t r' ks R. pose proof (neutral_reset r) as NR. rewrite R in NR. cbn [snd] in NR.
  clear R. revert t. induction ks as [|k ks IH]; intros t; cbn [saferun trun fold_left]; [auto|].
  inversion NR as [|? ? N F]; subst.
  assert (safe_tok t k /\ pen (tstep W t k) = pen t).
  { destruct k as [g w| | |n|n|n|n| | | |p|b|b| |i]; cbn [neutral] in N; try contradiction; cbn; auto.
    destruct g; [auto|contradiction]. }
  destruct H0 as (S1 & P1). destruct (IH F (tstep W t k)) as (S2 & P2).
  split; [auto|]. unfold trun in P2. congruence.
Qed.

(* every finite history (renders, erases, resets in column 0) started with the
   pen reset executes every token safely *)
Fixpoint safe_seq (r : rst) (t : term) (ops : list op) : Prop :=
  match ops with
  | [] => True
  | o :: rest =>
      let '(r', ks) := r_step tbs fs r o in
      saferun W t ks /\ safe_seq r' (t_step W t o ks) rest
  end.

End Safe.

Section SafeHistory.
Variable W H : Z.
Variable fs : bool.
Variable tbs : Z -> tabs.
Variable pvis : Z -> Z.
Variable wof : list Z -> Z.
Hypothesis HW : 1 <= W.
Hypothesis HH : 0 <= H.
Hypothesis Hpv : forall c a, ahs (tbs c) a = false -> pvis (apen (tbs c) a) = pvis 0.
Hypothesis Hw32 : wof [32] = 1.

Lemma tstep_pen_shift : forall t o ks, pen (t_step W t o ks) = pen (trun W t ks).
Proof. intros. unfold t_step. destruct (op_shifts o); reflexivity. Qed.

Theorem seq_safe : forall ops col0 r t,
  Sync W H fs tbs pvis wof r t -> pen t = 0 -> (col0 = true -> fst (rpos r) = 0) ->
  okseq0 W H wof col0 ops -> safe_seq W fs tbs r t ops.
Proof.
  induction ops as [|o ops IH]; intros col0 r t S PN F O; cbn [safe_seq]; [exact I|].
  destruct (r_step tbs fs r o) as [r' ks] eqn:R.
  (* Sync and the column-0 flag after the step: as in seq_sync_reset0 *)
  pose proof (seq_sync_reset0 W H fs tbs pvis wof HW HH Hpv Hw32 [o] col0 r t S F) as S1.
  cbn [okseq0] in O.
  destruct o as [cfg done W' H' scr| |].
  - destruct O as (OK & O'). pose proof OK as OK2. cbn [okop] in OK2. destruct OK2 as (-> & -> & Ws).
    cbn [r_step] in R.
    destruct (render_safe W H fs tbs pvis wof r t cfg done scr r' ks S R) as (SR & P').
    split; [exact SR|].
    specialize (S1 ltac:(cbn [okseq0]; auto)). cbn [run_seq r_step] in S1. rewrite R in S1. cbn [fst snd] in S1.
    apply (IH (done || (scx scr =? 0))); [exact S1|rewrite tstep_pen_shift; exact P'| |exact O'].
    intros E. destruct done.
    + destruct (render_done_fresh W H fs tbs r cfg scr r' ks R) as (_ & P). rewrite P. reflexivity.
    + cbn [orb] in E. apply Z.eqb_eq in E.
      destruct (render_notdone W H fs tbs pvis wof HW HH Hpv Hw32 r t cfg scr r' ks S Ws R) as (S2 & (_ & _ & _ & _ & _ & X & _)).
      destruct S2 as (Cx & _). congruence.
  - cbn [r_step] in R. destruct (erase_safe W r t r' ks PN R) as (SR & P').
    split; [exact SR|].
    specialize (S1 ltac:(cbn [okseq0]; auto)). cbn [run_seq r_step] in S1. rewrite R in S1. cbn [fst snd] in S1.
    apply (IH true); [exact S1|rewrite tstep_pen_shift; exact P'| |exact O].
    intros _. destruct (erase_fresh r r' ks R) as (_ & P). rewrite P. reflexivity.
  - destruct O as (-> & O'). cbn [r_step] in R. destruct (reset_safe W r t r' ks R) as (SR & P').
    split; [exact SR|].
    specialize (S1 ltac:(cbn [okseq0]; auto)). cbn [run_seq r_step] in S1. rewrite R in S1. cbn [fst snd] in S1.
    apply (IH true); [exact S1|rewrite tstep_pen_shift; congruence| |exact O'].
    intros _. destruct (reset_fresh r r' ks R) as (_ & P). rewrite P. reflexivity.
Qed.

End SafeHistory.
